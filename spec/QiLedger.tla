------------------------------ MODULE QiLedger ------------------------------
(***************************************************************************)
(* The Qi (UTXO) ledger of a go-quai zone: the stored set of unspent       *)
(* outputs, the write batch of the block being processed with its pending  *)
(* (read-your-writes) view, and the validation of Qi transactions in the   *)
(* order core.ProcessQiTx performs it.  A block is a sequence of           *)
(* transactions processed against one batch; the first rejected            *)
(* transaction rejects the block (batch dropped).                          *)
(*                                                                         *)
(* Anchors: core/state_processor.go ProcessQiTx / CheckDenominations,      *)
(* core/rawdb GetUTXOWithBatch / CreateUTXO / DeleteUTXO, ethdb.Batch      *)
(* SetPending/GetPending (see KV.tla).  Decides C01 (+ C16(b): outputs     *)
(* only for in-zone Qi addresses).                                         *)
(***************************************************************************)
EXTENDS Integers, Sequences, FiniteSets, TLC, SequencesExt, Json

CONSTANTS Genesis,     \* function: genesis outpoint id -> [d, owner, lock]
          Txs,         \* function: tx id -> [ins, outs, sig, chain]   (the transaction universe)
          DenomValue,  \* function: denomination -> value in qits
          RYW,         \* does the batch report its own uncommitted writes (ethdb pending view)
          BaseFeeOn,   \* the header carries a non-zero base fee: a transaction must pay a fee (>= 1 qit covers the gas at the
                       \* harness's base fee of 1 wei); Qi->Quai conversions exist only in this regime (the conversion ETX's
                       \* gas is fee / base fee)
          MaxTxPerBlock, MaxBlocks

(* A transaction: ins  = sequence of [o |-> outpoint, key |-> key name]
                  outs = sequence of [d |-> denomination, to |-> address name or "quai:X" / "zoneB:X"]
                  sig  \in {"ok", "bad", "wrongkeys"}, chain \in {"ours", "other"}
   optional field data = "conv": the transaction carries conversion data (params.MaxQiTxDataLength bytes); its outputs
   to "quai:X" (own zone, Quai ledger) are then Qi->Quai conversion outputs: aggregated into ONE conversion ETX, not stored.
   An outpoint is <<txid, index>>; genesis outputs are <<"g1", 0>>, ...                    *)

None == [d |-> -1, owner |-> "", lock |-> 0]
Tomb == [d |-> -2, owner |-> "", lock |-> 0]   \* a delete staged in the batch

VARIABLES utxo,       \* stored set: outpoint -> record   (function over the touched domain; missing = absent)
          height,     \* height of the last committed block
          inBlock,    \* a block is being processed
          batch,      \* staged operations of the block: outpoint -> Tomb | record
          nQi,        \* number of Qi transactions accepted so far in the block
          fees,       \* fees collected in the block
          spentLog,   \* history: outpoints consumed by accepted transactions of accepted blocks (and the current one)
          blockSpent, \* history: outpoints consumed in the current block
          valueIn, valueOut, \* history: totals over accepted transactions of committed blocks
          nblocks, obs, hist

vars == <<utxo, height, inBlock, batch, nQi, fees, spentLog, blockSpent, valueIn, valueOut, nblocks, obs, hist>>
view == <<utxo, height, inBlock, batch, nQi, spentLog, blockSpent, nblocks>>

Has(f, k) == k \in DOMAIN f

\* the record the processor sees for an outpoint: through the batch (if it reports its writes), then the database
Lookup(b, o) ==
    IF RYW /\ Has(b, o) THEN (IF b[o] = Tomb THEN None ELSE b[o])
    ELSE IF Has(utxo, o) THEN utxo[o] ELSE None

IsQiLocal(to) == SubSeq(to, 1, 3) = "qi:"     \* address names: "qi:C", "quai:C" (own zone), "zoneB:C" (other zone, Qi)
IsOtherZoneQi(to) == Len(to) >= 6 /\ SubSeq(to, 1, 6) = "zoneB:"
IsOwnQuai(to) == Len(to) >= 5 /\ SubSeq(to, 1, 5) = "quai:"

\* ---- input loop of ProcessQiTx: sequential, each input looked up through the batch, then deleted in it
RECURSIVE Inputs(_, _, _, _)
Inputs(ins, i, b, acc) ==
    \* acc = [err, total, spent]
    IF i > Len(ins) THEN [err |-> "ok", b |-> b, total |-> acc.total, spent |-> acc.spent]
    ELSE LET in == ins[i] rec == Lookup(b, in.o) IN
         IF rec = None THEN [err |-> "missing", b |-> b, total |-> 0, spent |-> <<>>]
         ELSE IF rec.lock > height + 1 THEN [err |-> "locked", b |-> b, total |-> 0, spent |-> <<>>]
         ELSE IF rec.owner # in.key THEN [err |-> "owner", b |-> b, total |-> 0, spent |-> <<>>]
         ELSE Inputs(ins, i + 1, (in.o :> Tomb) @@ b,
                     [total |-> acc.total + DenomValue[rec.d], spent |-> Append(acc.spent, in.o)])

InputDenoms(ins, b0) == [i \in 1..Len(ins) |-> Lookup(b0, ins[i].o).d]

\* ---- output loop: address reuse, ledger/zone of the destination
\* sequential, as the code does it: for each output first the address-reuse test against everything seen so
\* far (input owners and earlier outputs), then the ledger / zone of the destination
IsConv(tx) == "data" \in DOMAIN tx /\ tx.data = "conv"
IsConvOut(tx, o) == IsConv(tx) /\ IsOwnQuai(o.to)
RECURSIVE OutLoop(_, _, _, _, _)
OutLoop(tx, outs, j, seen, convTo) ==
    IF j > Len(outs) THEN "ok"
    ELSE IF outs[j].to \in seen THEN "dupaddr"
    ELSE IF IsConvOut(tx, outs[j])
         THEN \* every conversion output of a transaction names the same recipient; the address is not remembered as used
              IF convTo # "" /\ convTo # outs[j].to THEN "convaddr"
              ELSE OutLoop(tx, outs, j + 1, seen, outs[j].to)
    ELSE IF ~(IsQiLocal(outs[j].to) \/ IsOtherZoneQi(outs[j].to)) THEN "ledger"
    ELSE OutLoop(tx, outs, j + 1, seen \cup {outs[j].to}, convTo)
OutErr(t) == OutLoop(Txs[t], Txs[t].outs, 1, {"qi:" \o Txs[t].ins[i].key : i \in 1..Len(Txs[t].ins)}, "")

\* everything the transaction hands out: stored outputs, outputs sent to other zones AND converted outputs
OutTotal(t) == FoldLeft(LAMBDA a, o : a + DenomValue[o.d], 0, Txs[t].outs)
ConvTotal(t) == FoldLeft(LAMBDA a, o : IF IsConvOut(Txs[t], o) THEN a + DenomValue[o.d] ELSE a, 0, Txs[t].outs)

\* ---- CheckDenominations: largest to smallest, surplus carried down; a shortage at any level is an attempt
\*      to combine smaller denominations into a larger one
Count(seq, d) == Cardinality({i \in DOMAIN seq : seq[i] = d})
RECURSIVE DenomOK(_, _, _, _)
DenomOK(inD, outD, d, carry) ==
    IF d < 1 THEN TRUE
    ELSE LET have == Count(inD, d) + carry want == Count(outD, d) IN
         IF want > have THEN FALSE
         ELSE DenomOK(inD, outD, d - 1, (have - want) * (DenomValue[d] \div DenomValue[d - 1]))
MaxD == CHOOSE d \in DOMAIN DenomValue : \A e \in DOMAIN DenomValue : e <= d

\* the verdict and effects of processing transaction t on batch b (pure)
Process(t, b, first) ==
    LET tx == Txs[t] IN
    IF tx.chain # "ours" THEN [err |-> "chain", b |-> b, fee |-> 0, spent |-> <<>>]
    ELSE LET r == Inputs(tx.ins, 1, b, [total |-> 0, spent |-> <<>>]) IN
         IF r.err # "ok" THEN [err |-> r.err, b |-> b, fee |-> 0, spent |-> <<>>]
         ELSE IF OutErr(t) # "ok" THEN [err |-> OutErr(t), b |-> b, fee |-> 0, spent |-> <<>>]
         ELSE IF OutTotal(t) > r.total THEN [err |-> "value", b |-> b, fee |-> 0, spent |-> <<>>]
         ELSE IF BaseFeeOn /\ r.total - OutTotal(t) < 1 THEN [err |-> "fee", b |-> b, fee |-> 0, spent |-> <<>>]
         ELSE IF ~first /\ ~DenomOK(InputDenoms(tx.ins, b),     \* aggregated conversion outputs do not count as outputs here
                                    [j \in {k \in 1..Len(tx.outs) : ~IsConvOut(tx, tx.outs[k])} |-> tx.outs[j].d], MaxD, 0)
              THEN [err |-> "denoms", b |-> b, fee |-> 0, spent |-> <<>>]
         ELSE IF tx.sig # "ok" THEN [err |-> "sig", b |-> b, fee |-> 0, spent |-> <<>>]
         ELSE LET puts == [j \in {k \in 1..Len(tx.outs) : IsQiLocal(tx.outs[k].to)} |->
                              [d |-> tx.outs[j].d, owner |-> SubSeq(tx.outs[j].to, 4, Len(tx.outs[j].to)), lock |-> 0]]
                  b2 == [o \in {<<t, j>> : j \in DOMAIN puts} |-> puts[o[2]]] @@ r.b
              IN [err |-> "ok", b |-> b2, fee |-> r.total - OutTotal(t), spent |-> r.spent]

----------------------------------------------------------------------------
Init ==
    /\ utxo = Genesis /\ height = 0 /\ inBlock = FALSE /\ batch = <<>> /\ nQi = 0 /\ fees = 0
    /\ spentLog = <<>> /\ blockSpent = <<>> /\ valueIn = 0 /\ valueOut = 0 /\ nblocks = 0
    /\ obs = <<"init">> /\ hist = <<>>

Log(rec, o) == /\ obs' = o /\ hist' = Append(hist, rec @@ [res |-> o])

\* StateProcessor.Process: batch := db.NewBatch(); batch.SetPending(true)
BeginBlock ==
    /\ ~inBlock /\ nblocks < MaxBlocks
    /\ inBlock' = TRUE /\ batch' = <<>> /\ nQi' = 0 /\ fees' = 0 /\ blockSpent' = <<>>
    /\ UNCHANGED <<utxo, height, spentLog, valueIn, valueOut, nblocks>>
    /\ Log([op |-> "begin", t |-> ""], <<"ok">>)

\* one transaction of the block; a rejection rejects the whole block (batch dropped, nothing written)
ProcessTx(t) ==
    /\ inBlock /\ nQi < MaxTxPerBlock
    /\ IsConv(Txs[t]) => BaseFeeOn
    /\ LET r == Process(t, batch, nQi = 0) IN
       IF r.err = "ok"
       THEN /\ batch' = r.b /\ nQi' = nQi + 1 /\ fees' = fees + r.fee
            /\ blockSpent' = blockSpent \o r.spent
            /\ UNCHANGED <<utxo, height, inBlock, spentLog, valueIn, valueOut, nblocks>>
            /\ Log([op |-> "tx", t |-> t], <<"ok", r.fee>>)
       ELSE /\ inBlock' = FALSE /\ batch' = <<>> /\ nQi' = 0 /\ fees' = 0 /\ blockSpent' = <<>>
            /\ nblocks' = nblocks + 1
            /\ UNCHANGED <<utxo, height, spentLog, valueIn, valueOut>>
            /\ Log([op |-> "tx", t |-> t], <<"reject", r.err>>)

\* batch.Write(): tombstones delete, records put
CommitBlock ==
    /\ inBlock
    /\ LET dead == {o \in DOMAIN batch : batch[o] = Tomb}
           live == {o \in DOMAIN batch : batch[o] # Tomb}
           u2   == [o \in (DOMAIN utxo \cup live) \ dead |-> IF o \in live THEN batch[o] ELSE utxo[o]]
       IN /\ utxo' = u2
          /\ Log([op |-> "commit", t |-> ""], <<"utxo", {ToString(o) : o \in DOMAIN u2}>>)
    /\ height' = height + 1 /\ inBlock' = FALSE /\ batch' = <<>> /\ nQi' = 0 /\ fees' = 0
    /\ spentLog' = spentLog \o blockSpent /\ blockSpent' = <<>> /\ nblocks' = nblocks + 1
    /\ UNCHANGED <<valueIn, valueOut>>

Next ==
    \/ BeginBlock
    \/ \E t \in DOMAIN Txs : ProcessTx(t)
    \/ CommitBlock

Spec == Init /\ [][Next]_vars

----------------------------------------------------------------------------
\* C01: an output is consumed at most once - inside a transaction, a block, and across blocks
AllSpent == spentLog \o blockSpent
SpentAtMostOnce == \A i, j \in DOMAIN AllSpent : i # j => AllSpent[i] # AllSpent[j]

\* no Qi from nothing: the stored value never exceeds the genesis value (no coinbase/conversion in this model)
TotalValue(u) == FoldLeft(LAMBDA a, o : a + DenomValue[u[o].d], 0, SetToSeq(DOMAIN u))
NoValueFromNothing == ~inBlock => TotalValue(utxo) <= TotalValue(Genesis)

\* every stored output belongs to the local Qi ledger (C16 b)
OutputsOnlyLocalQi == \A o \in DOMAIN utxo : utxo[o].owner # ""

EmitHist == (~inBlock' /\ inBlock) => PrintT("@@" \o ToJson(hist'))
=============================================================================
