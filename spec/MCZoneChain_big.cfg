SPECIFICATION Spec
CONSTANTS
  Outs <- O2
  MaxBlocks = 3
  MaxHeight = 3
  TrimDepth = 2
  MaxSteps = 14
  WithCrash = TRUE
  HeadInBatch = TRUE
  CrashInHeadWindow = TRUE
  WithTamper = FALSE
  SpendTrimCandidate = FALSE
VIEW view
INVARIANTS TypeOK ReorgEqualsFreshReplay CommitmentEqualsContent Recoverable SpentAtMostOnce NoHalfApply NoDoubleApply NoApplyWithoutHeadAdvance
CHECK_DEADLOCK FALSE
