SPECIFICATION Spec
CONSTANTS
  NSym = 3
  Keys <- K8
  Vals <- V2
  CheckKeys <- K8
  MaxOps = 6
  Ops <- OpsAll
  KeepHist = FALSE
VIEW view
INVARIANTS TypeOK Canonical GetMatchesContent OtherCanonical CommitReloadPreserves ProofComplete AbsenceProvable EmptyTrieHasNoProof ProofSound CorruptedProofRejectedOrSameValue StackTrieEqualsTrie
CHECK_DEADLOCK FALSE
