SPECIFICATION Spec
CONSTANTS
  NSym = 3
  Keys <- K8
  Vals <- V2
  CheckKeys <- K8
  MaxOps = 6
  KeepHist = FALSE
VIEW view
INVARIANTS TypeOK Canonical GetMatchesContent CommitReloadPreserves ProofComplete AbsenceProvable EmptyTrieHasNoProof ProofSound CorruptedProofRejectedOrSameValue StackTrieEqualsTrie
CHECK_DEADLOCK FALSE
