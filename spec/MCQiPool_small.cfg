SPECIFICATION Spec
CONSTANTS
  TxDefs <- MCTxs
  GenDefs <- MCGen
  BlockDefs <- MCBlocks
  Cap = 2
  MinFee = 1
  Fused = FALSE
  WithWorker = TRUE
  MaxOps = 4
  MaxHeads = 2
  KeepHist = TRUE
  InactiveRefusedAtOnce = TRUE
VIEW view
INVARIANTS IndexesAgree SizeLimit FeeIsInputsMinusOutputs PoolTxsOnceValid AssembledBlockNeverDoubleSpends
CHECK_DEADLOCK FALSE
