SPECIFICATION Spec
CONSTANTS
  ConvIds <- Ids3
  Amounts <- AmtsQ
  Slips <- SlipsQ
  Flow = 100
  Rates <- RatesQ1
  KQs <- KQsQ
  Denoms <- DenomsA
  TrimIdx = 3
  GasOuts <- GasQ
  LockPeriod = 2
  MaxHeight = 4
  MaxOps = 10
  MinQuai = 20
  InitQuai = 4000
  InitQi = 4000
  CodeRefund = FALSE
  Increasings <- BoolAll
VIEW view
INVARIANTS TypeOK DebitedExactlyOnce ExactlyOneOutcome CreditLeRateImplied DiscountOnlyReducesNotBelowFloor RefundIsOriginal DenominationDustBound NotBeforeLock
CHECK_DEADLOCK FALSE
