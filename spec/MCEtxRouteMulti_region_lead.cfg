SPECIFICATION Spec
CONSTANTS
  Ctx = 1
  Locs <- RegionLocs
  DestSeq <- RegionDests
  MaxBlocks = 3
  ForkWindow = 2
  ExpChoices <- ExpRegionHi
  SubChoices <- SubAlt
  Canonical = TRUE
  MaxQueries = 2
  RestartChoices <- ColdOrWarm
  SeedCacheKey = TRUE
INVARIANTS WalkIsDefined AtMostOnce OnlyAtDestination NoneLost NotEarly OnlyViaPrime OrderFixedByDom RoutesPartition IntraRegionStaysBelowPrime CacheCoherent CacheTransparent
CHECK_DEADLOCK FALSE
