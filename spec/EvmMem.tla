------------------------------- MODULE EvmMem -------------------------------
(***************************************************************************)
(* Memory metering of the go-quai EVM interpreter (C15, metering half).    *)
(* Anchors: core/vm/interpreter.go Run (constantGas -> memorySize ->       *)
(* dynamicGas -> mem.Resize -> execute), core/vm/jump_table.go (which      *)
(* opcode has memorySize / dynamicGas), core/vm/gas_table.go               *)
(* memoryGasCost, core/vm/memory.go Resize, core/vm/evm.go Call/create     *)
(* (a call frame gets fresh, empty memory and a gas budget).               *)
(*                                                                         *)
(* State: the stack of live call frames; per frame the memory size in      *)
(* 32-byte words, the gas the frame has consumed so far (including gas     *)
(* handed to a live child) and the gas it was entered with.                *)
(*                                                                         *)
(* OpFacts is GENERATED FROM THE CODE on every run (EvmMemFacts.tla):      *)
(* one record per opcode of the real jump table,                           *)
(*   hasMemSize : operation.memorySize # nil  (Run resizes memory)         *)
(*   hasDynGas  : operation.dynamicGas # nil                               *)
(*   chargesMem : the dynamic gas function was MEASURED (memdrv facts) to  *)
(*                charge at least the memory expansion cost                *)
(*   calls      : the opcode may start a child frame                       *)
(***************************************************************************)
EXTENDS Integers, Sequences, FiniteSets, TLC, Json

CONSTANTS OpFacts,    \* set of [name, hasMemSize, hasDynGas, chargesMem, calls]
          Sizes,      \* memory sizes (in words) an operation may request
          ConstGas,   \* possible constant-gas amounts of a step
          OtherGas,   \* possible non-memory parts of a dynamic gas charge
          Gives,      \* possible gas amounts forwarded to a child frame
          GasLimit,   \* gas of the top-level frame
          MaxOps,     \* bound on the number of steps of a behaviour
          MaxDepth    \* bound on the number of live frames

VARIABLES frames,     \* sequence of [mem, spent, limit]; frames[1] is the transaction's top-level frame
          halted,     \* the top-level frame has ended
          step,       \* number of steps so far
          obs,        \* result of the last step (hidden by VIEW)
          hist        \* sequence of step records (hidden by VIEW)

vars == <<frames, halted, step, obs, hist>>
view == <<frames, halted, step>>

----------------------------------------------------------------------------
\* params.MemoryGas = 3, params.QuadCoeffDiv = 512:  cost(w) = 3w + floor(w*w / 512).
\* Written so that no intermediate exceeds 2^31 for w <= 2^19 words (16 MiB): w = 512q + r.
MemCost(w) == 3 * w + (w \div 512) * w + ((w % 512) * w) \div 512

\* the opcode classes that matter for metering; opcodes of one class behave alike in this model
ClassOf(f) == [hasMemSize |-> f.hasMemSize, hasDynGas |-> f.hasDynGas,
               chargesMem |-> f.chargesMem, calls |-> f.calls]
Classes(F) == {ClassOf(f) : f \in F}
NamesOf(F, k) == {f.name : f \in {g \in F : ClassOf(g) = k}}

\* interpreter.Run: `if operation.memorySize != nil { memSize = ...; memorySize = toWordSize(memSize)*32 }`
\* ... `if memorySize > 0 { mem.Resize(memorySize) }`; Resize never shrinks
NewSize(k, old, req) == IF k.hasMemSize /\ req > old THEN req ELSE old

\* the part of the step's gas that pays for growing memory from old to new words:
\* memoryGasCost, reached only through operation.dynamicGas
MemCharge(k, old, new) == IF k.hasDynGas /\ k.chargesMem THEN MemCost(new) - MemCost(old) ELSE 0

\* total gas of a step: constantGas, then (only if dynamicGas # nil) memory charge + the rest
StepCost(k, old, new, c, o) == c + MemCharge(k, old, new) + (IF k.hasDynGas THEN o ELSE 0)

\* effect of one successful interpreter step on its frame
ExecEffect(fr, k, req, c, o) ==
    LET new == NewSize(k, fr.mem, req)
    IN  [mem |-> new, spent |-> fr.spent + StepCost(k, fr.mem, new, c, o), limit |-> fr.limit]

Remaining(fr) == fr.limit - fr.spent
Depth == Len(frames)
Top == frames[Depth]
NewFrame(g) == [mem |-> 0, spent |-> 0, limit |-> g]

Log(rec, o) ==
    /\ obs'  = o
    /\ hist' = Append(hist, rec)
    /\ step' = step + 1

\* evaluated once by TLC (constant-level, no parameters)
ClassSet  == Classes(OpFacts)
ClassOps  == [k \in ClassSet |-> NamesOf(OpFacts, k)]
ClassRep  == [k \in ClassSet |-> CHOOSE n \in ClassOps[k] : TRUE]   \* one opcode standing for its class in hist

Rec(kind, k, req, c, o, g) ==
    [kind |-> kind, op |-> ClassRep[k], req |-> req, c |-> c, o |-> o, give |-> g]

----------------------------------------------------------------------------
Init ==
    /\ frames = <<NewFrame(GasLimit)>>
    /\ halted = FALSE
    /\ step = 0
    /\ obs = <<"init">>
    /\ hist = <<>>

\* One opcode of class k executes in the top frame (interpreter.Run loop body, no child frame)
Exec(k, req, c, o) ==
    LET after == ExecEffect(Top, k, req, c, o) IN
    /\ after.spent <= Top.limit                         \* contract.UseGas succeeded twice
    /\ frames' = [frames EXCEPT ![Depth] = after]
    /\ UNCHANGED halted
    /\ Log(Rec("exec", k, req, c, o, 0), <<"ok", after.mem, after.spent>>)

\* A CALL*/CREATE* opcode executes and a child frame starts with `give` gas and EMPTY memory
\* (evm.Call -> NewContract(gas) -> interpreter.Run -> NewMemory())
Call(k, req, c, o, give) ==
    LET after == ExecEffect(Top, k, req, c, o)
        paidUp == [after EXCEPT !.spent = after.spent + give] IN
    /\ k.calls /\ Depth < MaxDepth
    /\ paidUp.spent <= Top.limit
    /\ frames' = Append([frames EXCEPT ![Depth] = paidUp], NewFrame(give))
    /\ UNCHANGED halted
    /\ Log(Rec("call", k, req, c, o, give), <<"ok", after.mem, paidUp.spent>>)

\* The step cannot be paid: ErrOutOfGas before mem.Resize; the frame ends, its memory is dropped
\* and all its gas is consumed (evm.Call: `if err != ErrExecutionReverted { gas = 0 }`)
OutOfGas(k, req, c, o) ==
    /\ ExecEffect(Top, k, req, c, o).spent > Top.limit
    /\ IF Depth = 1
       THEN /\ frames' = <<[Top EXCEPT !.spent = Top.limit]>>
            /\ halted' = TRUE
       ELSE /\ frames' = SubSeq(frames, 1, Depth - 1)
            /\ UNCHANGED halted
    /\ Log(Rec("oog", k, req, c, o, 0), <<"oog">>)

\* STOP / RETURN / REVERT (after its own Exec step): the frame ends, unused gas goes back to the parent
Return ==
    /\ IF Depth = 1
       THEN /\ UNCHANGED frames
            /\ halted' = TRUE
       ELSE /\ frames' = [SubSeq(frames, 1, Depth - 1) EXCEPT
                             ![Depth - 1].spent = frames[Depth - 1].spent - Remaining(Top)]
            /\ UNCHANGED halted
    /\ Log([kind |-> "return"], <<"ret">>)

Next ==
    /\ step < MaxOps /\ ~halted
    /\ \/ \E k \in ClassSet, req \in Sizes, c \in ConstGas, o \in OtherGas :
            \/ Exec(k, req, c, o)
            \/ OutOfGas(k, req, c, o)
            \/ \E g \in Gives : Call(k, req, c, o, g)
       \/ Return

Spec == Init /\ [][Next]_vars

----------------------------------------------------------------------------
\* C15 (metering): the memory a transaction holds is bounded by the gas it has paid.

TypeOK ==
    /\ Depth >= 1
    /\ \A i \in 1..Depth : frames[i].mem >= 0 /\ frames[i].spent >= 0 /\ frames[i].spent <= frames[i].limit

\* every frame's memory has been paid for by that frame ...
MemoryPaid == \A i \in 1..Depth : MemCost(frames[i].mem) <= frames[i].spent

RECURSIVE SumMemCost(_)
SumMemCost(fs) == IF fs = <<>> THEN 0 ELSE MemCost(fs[1].mem) + SumMemCost(Tail(fs))

\* ... and all live memory together by the transaction (hence <= what GasLimit can buy)
TotalMemoryPaid == SumMemCost(frames) <= frames[1].spent /\ frames[1].spent <= GasLimit

\* memory grows only in a step that charged the expansion
GrowthCharged ==
    [][\A i \in 1..Depth :
          (i <= Len(frames') /\ frames'[i].mem > frames[i].mem)
             => frames'[i].spent - frames[i].spent >= MemCost(frames'[i].mem) - MemCost(frames[i].mem)]_vars

\* Which opcodes break MemoryPaid, evaluated with the operators the actions are made of:
\* from an empty frame, some request makes the frame hold memory it did not pay for.
UnmeteredClass(k) ==
    \E req \in Sizes :
        LET a == ExecEffect(NewFrame(0), k, req, 0, 0)
        IN  MemCost(a.mem) > a.spent
Unmetered(F) == LET bad == {k \in Classes(F) : UnmeteredClass(k)}
                IN  {f.name : f \in {g \in F : ClassOf(g) \in bad}}
UnmeteredOps == Unmetered(OpFacts)
Sound(F) == LET bad == {k \in Classes(F) : UnmeteredClass(k)}
            IN  {f \in F : ClassOf(f) \notin bad}

\* every explored behaviour, for inspection
EmitHist == PrintT("@@" \o ToJson(hist'))
=============================================================================
