SPECIFICATION Spec
CONSTANTS
  EOAs <- E1
  Contracts <- K2
  InitBal <- BalSmall12
  InitWq <- Wq12
  InitLock <- Lock12
  LockVal = 2
  LowGas = 1
  GasUnit = 1
  MaxGasSteps = 2
  Prices <- P1
  IntrinsicGas = 2
  TxGas = 2
  Rent = 1
  MinConv = 2
  TxValues <- V01
  CallValues <- V01
  Regimes <- RG
  Prefills <- PF0
  TxKinds <- TKCall
  OpKinds <- OKEtxClaim
  DestClasses <- DElig
  AmtClasses <- AZero
  GlClasses <- GOk
  FeeClasses <- FOne
  AlClasses <- ALGood
  FrameKinds <- FKAll
  CallTargets <- CTK
  TxTargets <- TTK1
  Benefs <- BFK1
  WpOps <- WPSome
  MaxDepth = 3
  MaxFrameOps = 1
  MaxTx = 1
  UsedMode = "all"
  GrindFail = FALSE
VIEW view
INVARIANTS TypeOK NoNegative NoCreation ExactUnlessBurn EtxBacked ChargeWithinBounds FailedTxTouchesOnlyPayer FailedEtxTouchesNothing AllOrNothing StackDiscipline IndexFresh BlockOutboundIsConcatOfSurvivors
CHECK_DEADLOCK FALSE
