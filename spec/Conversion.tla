----------------------------- MODULE Conversion -----------------------------
(***************************************************************************)
(* Quai <-> Qi conversions of go-quai, from the debit at the origin to the *)
(* credit or refund at the destination (property C20).                     *)
(*                                                                         *)
(*   OriginDebit   core/vm/evm.go CreateETX (plain transfer to an own-zone *)
(*                 Qi address), core/vm/instructions.go opConvert,         *)
(*                 core/state_processor.go ProcessQiTx (Qi output to an    *)
(*                 own-zone Quai address with the 22-byte data form)       *)
(*   PrimeReprice  core/slice.go Append, prime branch: stable sort by      *)
(*                 decreasing slip, running volume, cubic discount, k-Quai *)
(*                 discount by direction, 10% floor, slip test -> zero ->  *)
(*                 revert mark, second pass over the filtered total, new   *)
(*                 exchange rate applied                                   *)
(*   DestExecute   core/state_processor.go Process: mint denominations     *)
(*                 while the ETX gas lasts (locked), lock Quai, refund     *)
(*   AdvanceHeight core/state_processor.go RedeemLockedQuai (conversion    *)
(*                 branch): credit exactly LockPeriod blocks later         *)
(*   unit conversion consensus/misc/rewards.go QiToQuai / QuaiToQi as      *)
(*                 floor(a*x/b); FindMinDenominations as the greedy split  *)
(*                                                                         *)
(* One user owns a Quai account and Qi outputs and converts between them;  *)
(* amounts are small integers.  The actions that carry numbers computed by *)
(* the protocol (RepriceWith, MintWith, RefundWith) take those numbers as  *)
(* parameters: the model-checking wrappers compute them from the           *)
(* specification's own arithmetic, the trace specification binds them to   *)
(* the numbers the implementation produced (ConversionTrace.tla).          *)
(***************************************************************************)
EXTENDS Integers, Sequences, FiniteSets, TLC, SequencesExt, Json

CONSTANTS ConvIds,     \* 1..N, used in increasing order
          Amounts,     \* amounts offered for conversion (origin units)
          Slips,       \* slip settings in basis points, or NoSlip
          Flow,        \* conversion flow average of the confirming prime block (Quai units)
          Rates,       \* set of <<quaiPerBlock, qiPerBlock>> reward pairs, i.e. exchange rates
          KQs,         \* k-Quai discounts (per KQMult)
          Denoms,      \* Qi denominations, ascending, Denoms[1] = 1
          TrimIdx,     \* the code's refund creates no denomination with index <= TrimIdx
          GasOuts,     \* numbers of outputs an ETX's gas may pay for
          LockPeriod, MaxHeight, MaxOps,
          MinQuai,     \* smallest convertible Quai amount
          InitQuai, InitQi,
          CodeRefund,  \* TRUE: model the Qi refund as the code performs it (lead configuration)
          Increasings  \* subset of BOOLEAN: is the rate above the one a window ago

NoSlip   == -1
MaxSlip  == 9000
MinSlip  == 30
SlipRange == 10000
KQMult   == 100000

VARIABLES conv,    \* id -> conversion record
          quai,    \* the user's Quai balance
          qi,      \* total of the user's Qi outputs (locked or not)
          height,  \* zone block height
          rate,    \* exchange rate at the head of the prime chain
          step, hist, obs

vars == <<conv, quai, qi, height, rate, step, hist, obs>>
view == <<conv, quai, qi, height, rate, step>>

None == [st |-> "none", dir |-> "-", via |-> "-", amt |-> 0, slip |-> 0, debits |-> 0,
         pre |-> 0, val |-> 0, implied |-> 0, floorv |-> 0, slipmin |-> 0,
         desth |-> 0, unlock |-> 0, outh |-> 0, lock |-> 0, got |-> 0, back |-> 0, gas |-> 0, need |-> 0]

----------------------------------------------------------------------------
\* unit conversion: floor(a*x/b) with the reward pair r = <<quaiPerBlock, qiPerBlock>>
QiToQuai(r, x) == (r[1] * x) \div r[2]
QuaiToQi(r, x) == (r[2] * x) \div r[1]
Convert(r, dir, x) == IF dir = "q2i" THEN QuaiToQi(r, x) ELSE QiToQuai(r, x)

\* cubic discount of a block's running conversion volume t (Quai units): 20 basis points up to the flow
\* average, everything beyond ten times the average, (t/(10*Flow))^3 + 10 basis points in between
\* (evaluated in per-mille steps: a monotone table of the big-float formula)
Cubic(t) == IF t <= Flow THEN (t * 9980) \div 10000
            ELSE IF t > 10 * Flow THEN 0
            ELSE LET n    == (t * 1000) \div (10 * Flow)
                     cube == (n * n * n) \div 1000000
                     keep == 1000 - cube - 1
                 IN  IF keep <= 0 THEN 0 ELSE (t * keep) \div 1000

EffSlip(s) == IF s = NoSlip THEN MaxSlip ELSE IF s > MaxSlip THEN MaxSlip ELSE IF s < MinSlip THEN MinSlip ELSE s

\* denominations: greedy split, largest first, at most g outputs, only denominations with index > lo
RECURSIVE GreedyFrom(_, _, _, _)
GreedyFrom(v, i, g, lo) ==      \* <<sum minted, outputs used>>
    IF i <= lo \/ g = 0 \/ v = 0 THEN <<0, 0>>
    ELSE LET want == v \div Denoms[i]
             n    == IF want > g THEN g ELSE want
             rest == GreedyFrom(v - want * Denoms[i], i - 1, g - n, lo)
         IN  IF n < want THEN <<n * Denoms[i], n>>           \* gas ran out inside this denomination
             ELSE <<n * Denoms[i] + rest[1], n + rest[2]>>
GreedySum(v, g)   == GreedyFrom(v, Len(Denoms), g, 0)[1]
OutputsNeeded(v)  == GreedyFrom(v, Len(Denoms), 1000000, 0)[2]
RefundSumCode(v, g) == GreedyFrom(v, Len(Denoms), g, TrimIdx)[1]

----------------------------------------------------------------------------
\* the prime chain's two-pass repricing of the conversions S confirmed by one prime block
SlipOf(c) == EffSlip(conv[c].slip)
SortBySlip(seq) ==
    LET vs == SetToSortSeq({SlipOf(seq[i]) : i \in DOMAIN seq}, LAMBDA a, b : a > b)
        RECURSIVE Cat(_)
        Cat(i) == IF i > Len(vs) THEN <<>> ELSE SelectSeq(seq, LAMBDA c : SlipOf(c) = vs[i]) \o Cat(i + 1)
    IN  Cat(1)

InQuai(c, r) == IF conv[c].dir = "i2q" THEN QiToQuai(r, conv[c].amt) ELSE conv[c].amt
GetsK(c, inc) == (conv[c].dir = "q2i" /\ inc) \/ (conv[c].dir = "i2q" /\ ~inc)
TenPercent(c) == (conv[c].amt * 10) \div 100
AfterMaxSlip(c) == (conv[c].amt * (SlipRange - SlipOf(c))) \div SlipRange

\* value in origin units after the cubic and k-Quai discounts and the 10% floor, for running volume `total`
PreVal(c, total, kq, inc) ==
    LET disc   == Cubic(total)
        afterK == (disc * (KQMult - kq)) \div KQMult
        v0     == (conv[c].amt * disc) \div total
        v1     == IF GetsK(c, inc) /\ disc # 0 THEN (v0 * afterK) \div disc ELSE v0
    IN  IF v1 < TenPercent(c) THEN TenPercent(c) ELSE v1

\* first pass: running volume over the slip-sorted sequence; a conversion whose value falls below its slip
\* bound is zeroed (to be reverted) and does not count towards the volume
RECURSIVE Pass1(_, _, _, _, _, _)
Pass1(seq, i, actual, kept, kq, inc) ==
    IF i > Len(seq) THEN kept
    ELSE LET c    == seq[i]
             temp == actual + InQuai(c, rate)
         IN  IF temp = 0 THEN Pass1(seq, i + 1, actual, kept, kq, inc)
             ELSE IF PreVal(c, temp, kq, inc) < AfterMaxSlip(c)
                  THEN Pass1(seq, i + 1, actual, kept, kq, inc)
                  ELSE Pass1(seq, i + 1, temp, kept \cup {c}, kq, inc)

RECURSIVE SumInQuai(_, _)
SumInQuai(S, r) == IF S = {} THEN 0 ELSE LET c == CHOOSE x \in S : TRUE IN InQuai(c, r) + SumInQuai(S \ {c}, r)

FirstPassValue(seq, c, kq, inc) ==   \* what the slip test of c saw (for the robustness margin of emitted scenarios)
    LET RECURSIVE Run(_, _)
        Run(i, actual) ==
            LET d    == seq[i]
                temp == actual + InQuai(d, rate)
                v    == IF temp = 0 THEN 0 ELSE PreVal(d, temp, kq, inc)
            IN  IF d = c THEN v
                ELSE IF temp # 0 /\ v >= AfterMaxSlip(d) THEN Run(i + 1, temp) ELSE Run(i + 1, actual)
    IN  Run(1, 0)

Outcome(S, kq, inc, newRate) ==
    LET seq   == SortBySlip(SetToSortSeq(S, <))
        kept  == Pass1(seq, 1, 0, {}, kq, inc)
        total == SumInQuai(kept, rate)
    IN  [c \in S |->
          \* a kept conversion whose value at the header's own rate is zero is picked up by the revert marking as well
          IF c \in kept /\ Convert(rate, conv[c].dir, PreVal(c, total, kq, inc)) > 0
          THEN LET p == PreVal(c, total, kq, inc)
               IN  [kind |-> "priced", pre |-> p, val |-> Convert(newRate, conv[c].dir, p),
                    implied |-> Convert(newRate, conv[c].dir, conv[c].amt),
                    floorv |-> Convert(newRate, conv[c].dir, TenPercent(c)), slipmin |-> AfterMaxSlip(c),
                    first |-> FirstPassValue(seq, c, kq, inc)]
          ELSE [kind |-> "revert", pre |-> 0, val |-> conv[c].amt, implied |-> conv[c].amt, floorv |-> 0,
                slipmin |-> AfterMaxSlip(c), first |-> FirstPassValue(seq, c, kq, inc)]]

----------------------------------------------------------------------------
Log(rec, o) == /\ obs' = o
               /\ hist' = Append(hist, rec @@ [res |-> o])
               /\ step' = step + 1

Init ==
    /\ conv = [c \in ConvIds |-> None]
    /\ quai = InitQuai /\ qi = InitQi
    /\ height = 1
    /\ rate \in Rates
    /\ step = 0 /\ hist = <<>> /\ obs = <<"init">>

Pending == {c \in ConvIds : conv[c].st = "pending"}

\* ---- origin: the amount leaves the origin ledger exactly once, or the request is refused untouched
DebitWith(c, dir, amt, slip, via) ==
    /\ conv[c].st = "none"
    /\ conv' = [conv EXCEPT ![c] = [None EXCEPT !.st = "pending", !.dir = dir, !.via = via, !.amt = amt, !.slip = slip, !.debits = 1]]
    /\ quai' = (IF dir = "q2i" THEN quai - amt ELSE quai)
    /\ qi'   = (IF dir = "i2q" THEN qi - amt ELSE qi)
    /\ UNCHANGED <<height, rate>>
    /\ Log([op |-> "debit", id |-> c, dir |-> dir, amt |-> amt, slip |-> slip, via |-> via], <<"debited", amt>>)

RefuseWith(c, dir, amt, slip, via) ==
    /\ conv[c].st = "none"
    /\ conv' = [conv EXCEPT ![c] = [None EXCEPT !.st = "rejected", !.dir = dir, !.via = via, !.amt = amt, !.slip = slip]]
    /\ UNCHANGED <<quai, qi, height, rate>>
    /\ Log([op |-> "debit", id |-> c, dir |-> dir, amt |-> amt, slip |-> slip, via |-> via], <<"refused">>)

Acceptable(dir, amt) == IF dir = "q2i" THEN amt >= MinQuai /\ amt <= quai ELSE amt <= qi

OriginDebit(c, dir, amt, slip, via) ==
    /\ (dir = "q2i" /\ via \in {"transfer", "opcode"} /\ (via = "opcode" => slip = NoSlip))
       \/ (dir = "i2q" /\ via = "qitx" /\ slip # NoSlip)
    /\ IF Acceptable(dir, amt) THEN DebitWith(c, dir, amt, slip, via) ELSE RefuseWith(c, dir, amt, slip, via)

\* ---- prime: every pending conversion is repriced or marked for revert; the new rate takes effect
RepriceWith(out, newRate, rec) ==
    /\ conv' = [c \in ConvIds |->
                  IF c \in DOMAIN out
                  THEN [conv[c] EXCEPT !.st = out[c].kind, !.pre = out[c].pre, !.val = out[c].val, !.implied = out[c].implied,
                                       !.floorv = out[c].floorv, !.slipmin = out[c].slipmin]
                  ELSE conv[c]]
    /\ rate' = newRate
    /\ UNCHANGED <<quai, qi, height>>
    /\ Log(rec, <<"repriced", [c \in DOMAIN out |-> <<out[c].kind, out[c].val>>]>>)

\* The prediction of a batch is handed to the real node only when it does not depend on what the harness cannot control:
\* the decision margin is above 2% of the amount, and conversions with the same slip tolerance (which the node keeps in BLOCK
\* order, an order the harness does not choose) are interchangeable: same direction, same amount and same outcome kind.
Robust(out) == /\ \A c \in DOMAIN out :
                     LET d == out[c].first - out[c].slipmin
                     IN  (IF d < 0 THEN -d ELSE d) * 50 > conv[c].amt
               /\ \A c, d \in DOMAIN out :
                     (c # d /\ SlipOf(c) = SlipOf(d)) =>
                        /\ out[c].kind = out[d].kind
                        /\ conv[c].amt = conv[d].amt
                        /\ conv[c].dir = conv[d].dir

PrimeReprice(kq, inc, newRate) ==
    /\ Pending # {}
    /\ \E out \in {Outcome(Pending, kq, inc, newRate)} :     \* bound once (a LET would be re-evaluated at every use)
           RepriceWith(out, newRate,
                       [op |-> "reprice", kq |-> kq, inc |-> inc, flow |-> Flow, rate |-> rate, newrate |-> newRate,
                        robust |-> Robust(out),
                        batch |-> LET ps == SetToSortSeq(Pending, <)
                                  IN  [i \in 1..Len(ps) |-> [id |-> ps[i], dir |-> conv[ps[i]].dir, via |-> conv[ps[i]].via, amt |-> conv[ps[i]].amt,
                                                               slip |-> conv[ps[i]].slip, kind |-> out[ps[i]].kind]]])

\* ---- destination zone block executes the ETX
MintWith(c, sum, lock, g, need) ==
    /\ conv[c].st = "priced" /\ conv[c].dir = "q2i"
    /\ conv' = [conv EXCEPT ![c] = [@ EXCEPT !.st = "minted", !.got = sum, !.lock = lock, !.desth = height, !.outh = height, !.gas = g, !.need = need]]
    /\ qi' = qi + sum
    /\ UNCHANGED <<quai, height, rate>>
    /\ Log([op |-> "mint", id |-> c, gas |-> g], <<"minted", sum, lock>>)

LockQuai(c) ==
    /\ conv[c].st = "priced" /\ conv[c].dir = "i2q"
    /\ conv' = [conv EXCEPT ![c] = [@ EXCEPT !.st = "locked", !.desth = height, !.unlock = height + LockPeriod]]
    /\ UNCHANGED <<quai, qi, height, rate>>
    /\ Log([op |-> "lockquai", id |-> c], <<"locked", height + LockPeriod>>)

RefundWith(c, amount, lock) ==
    /\ conv[c].st = "revert"
    /\ conv' = [conv EXCEPT ![c] = [@ EXCEPT !.st = "refunded", !.back = amount, !.lock = lock, !.desth = height, !.outh = height]]
    /\ quai' = (IF conv[c].dir = "q2i" THEN quai + amount ELSE quai)
    /\ qi'   = (IF conv[c].dir = "i2q" THEN qi + amount ELSE qi)
    /\ UNCHANGED <<height, rate>>
    /\ Log([op |-> "refund", id |-> c], <<"refunded", amount, lock>>)

GasAny == CHOOSE g \in GasOuts : TRUE
Executable == {c \in ConvIds : conv[c].st \in {"priced", "revert"}}
DestExecute(c, g) ==
    /\ c \in Executable /\ \A d \in Executable : c <= d          \* ETXs are executed in arrival order
    /\ \/ MintWith(c, GreedySum(conv[c].val, g), height + LockPeriod, g, OutputsNeeded(conv[c].val))
       \/ (g = GasAny /\ LockQuai(c))
       \/ (conv[c].dir = "q2i" /\ g = GasAny /\ RefundWith(c, conv[c].amt, height))
       \/ (/\ conv[c].dir = "i2q" /\ (CodeRefund \/ g = GasAny)
           /\ RefundWith(c, IF CodeRefund THEN RefundSumCode(conv[c].amt, g) ELSE conv[c].amt, height + LockPeriod))

\* ---- next zone block: the redemption scan credits the Quai locked LockPeriod blocks ago
Due(h) == {c \in ConvIds : conv[c].st = "locked" /\ conv[c].unlock = h}
RECURSIVE SumVal(_)
SumVal(S) == IF S = {} THEN 0 ELSE LET c == CHOOSE x \in S : TRUE IN conv[c].val + SumVal(S \ {c})

AdvanceWith(credited) ==   \* credited: the conversions the implementation credited in the new block
    /\ height' = height + 1
    /\ conv' = [c \in ConvIds |-> IF c \in credited THEN [conv[c] EXCEPT !.st = "credited", !.got = conv[c].val, !.outh = height + 1] ELSE conv[c]]
    /\ quai' = quai + SumVal(credited)
    /\ UNCHANGED <<qi, rate>>
    /\ Log([op |-> "tick", h |-> height + 1], <<"height", height + 1, credited>>)

AdvanceHeight == height < MaxHeight /\ AdvanceWith(Due(height + 1))

NextIds == {c \in ConvIds : conv[c].st = "none" /\ \A d \in ConvIds : d < c => conv[d].st # "none"}

Next ==
    /\ step < MaxOps
    /\ \/ \E c \in NextIds, dv \in {<<"q2i", "transfer">>, <<"q2i", "opcode">>, <<"i2q", "qitx">>}, amt \in Amounts, slip \in Slips :
             OriginDebit(c, dv[1], amt, slip, dv[2])
       \/ \E kq \in KQs, inc \in Increasings, nr \in Rates : PrimeReprice(kq, inc, nr)
       \/ \E c \in ConvIds, g \in GasOuts : DestExecute(c, g)
       \/ AdvanceHeight

Spec == Init /\ [][Next]_vars

----------------------------------------------------------------------------
\* PROPERTY C20
Live(c)     == conv[c].st \notin {"none", "rejected"}
RECURSIVE SumF(_, _)
SumF(S, fld) == IF S = {} THEN 0 ELSE LET c == CHOOSE x \in S : TRUE IN conv[c][fld] + SumF(S \ {c}, fld)
Of(dir)     == {c \in ConvIds : Live(c) /\ conv[c].dir = dir}

\* the converted amount leaves the origin ledger exactly once (and a refused request leaves it untouched):
\* both ledgers are exactly explained by debits, credits and refunds
DebitCountsOK == \A c \in ConvIds : conv[c].debits = (IF Live(c) THEN 1 ELSE 0)
DebitedExactlyOnce ==
    /\ DebitCountsOK
    /\ quai = InitQuai - SumF(Of("q2i"), "amt") + SumF(Of("q2i"), "back") + SumF(Of("i2q"), "got")
    /\ qi   = InitQi   - SumF(Of("i2q"), "amt") + SumF(Of("i2q"), "back") + SumF(Of("q2i"), "got")

\* never both a credit and a refund; a revert-marked conversion is never credited, a priced one never refunded
ExactlyOneOutcome ==
    \A c \in ConvIds :
        /\ ~(conv[c].got > 0 /\ conv[c].back > 0)
        /\ conv[c].st \in {"minted", "locked", "credited"} => conv[c].back = 0
        /\ conv[c].st = "refunded" => conv[c].got = 0
        /\ conv[c].st \in {"none", "rejected", "pending", "priced", "revert"} => (conv[c].got = 0 /\ conv[c].back = 0)

\* the credit never exceeds what the applied exchange rate implies for the original amount
CreditLeRateImplied == \A c \in ConvIds : conv[c].st \in {"priced", "minted", "locked", "credited"} => (conv[c].val <= conv[c].implied /\ conv[c].got <= conv[c].implied)

\* discounts only reduce, and never below the protocol floor of 10% of the original
DiscountOnlyReducesNotBelowFloor ==
    \A c \in ConvIds : conv[c].st \in {"priced", "minted", "locked", "credited"} => (conv[c].val <= conv[c].implied /\ conv[c].val >= conv[c].floorv)

\* a refusal returns exactly the original amount on the origin ledger
RefundIsOriginal == \A c \in ConvIds : conv[c].st = "refunded" => conv[c].back = conv[c].amt

\* minted denominations never exceed the value; nothing is lost when the gas pays for every output
DenominationDustBound ==
    \A c \in ConvIds : conv[c].st = "minted" => (conv[c].got <= conv[c].val /\ (conv[c].gas >= conv[c].need => conv[c].got = conv[c].val))

\* credits are locked for the conversion lock period: Quai is credited exactly LockPeriod blocks after the
\* destination block, never earlier; minted / refunded Qi outputs carry that lock
NotBeforeLock ==
    \A c \in ConvIds :
        /\ conv[c].st = "credited" => conv[c].outh = conv[c].desth + LockPeriod
        /\ conv[c].st = "locked"   => height < conv[c].unlock
        /\ conv[c].st = "minted"   => conv[c].lock = conv[c].desth + LockPeriod
        /\ (conv[c].st = "refunded" /\ conv[c].dir = "i2q") => conv[c].lock = conv[c].desth + LockPeriod

\* a conversion is credited only if its final value respects the sender's slip bound (LEAD: the two passes can
\* disagree when the k-Quai discount applies to one direction only)
SlipBoundHonoured == \A c \in ConvIds : conv[c].st \in {"priced", "minted", "locked", "credited"} => conv[c].pre >= conv[c].slipmin

\* pure arithmetic facts (state independent, evaluated once per state over the constants)
MaxX == 400
RoundTripNeverGains ==
    \A r \in Rates : \A x \in 0..MaxX : QuaiToQi(r, QiToQuai(r, x)) <= x /\ QiToQuai(r, QuaiToQi(r, x)) <= x
GreedySplitExact == \A v \in 0..MaxX : GreedySum(v, 1000000) = v /\ \A g \in GasOuts : GreedySum(v, g) <= v
CubicOnlyReduces == \A t \in 0..(12 * Flow) : Cubic(t) <= t /\ Cubic(t) >= 0

TypeOK == /\ quai >= 0 /\ qi >= 0 /\ height \in 1..MaxHeight /\ rate \in Rates

\* behaviours for the harness: every history that ends with a repricing
EmitHist == IF hist' # <<>> /\ hist'[Len(hist')].op = "reprice" THEN PrintT("@@" \o ToJson(hist')) ELSE TRUE
=============================================================================
