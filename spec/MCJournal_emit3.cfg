SPECIFICATION Spec
CONSTANTS
  NAddr = 3
  NSlot = 2
  Vals <- V02
  Amts <- A01
  Genesis <- GenJ2
  HasLock <- NoLock3
  Ops <- OpsJ
  MaxMut = 3
  MaxSnap = 1
  MaxDepth = 1
  MaxTx = 0
  FrameAddr <- FrJ
  NewAddrs <- NoNew
  XferTo <- NoXfer
  Benef = 2
VIEW view
INVARIANTS TypeOK AccessListWellFormed AlwaysRevertible
PROPERTIES RevertRestores SiblingsUntouched
ACTION_CONSTRAINT EmitHist
CHECK_DEADLOCK FALSE
