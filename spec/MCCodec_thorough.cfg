SPECIFICATION Spec
CONSTANTS
  Types <- AllTypes
  MaxSteps = 4
  MaxDev = 2
VIEW view
INVARIANTS TypeOK NormIdempotent NormPreservesIdentity NormPreservesWellFormed MutableFieldsAreHashed
ACTION_CONSTRAINT EmitHist
CHECK_DEADLOCK FALSE
