--------------------------- MODULE MCConversion ---------------------------
EXTENDS Conversion
Ids2 == 1..2
Ids3 == 1..3
\* Flow = 100, MinQuai = 20: below the minimum, the minimum, typical, above the average, beyond ten times
AmtsQ == {10, 60, 1500}
AmtsA == {10, 20, 300, 1500}
SlipsQ == {-1, 30, 500}
SlipsA == {-1, 30, 2500}
RatesQ == {<<3, 1>>, <<7, 5>>}
RatesQ1 == {<<7, 5>>}
RatesA == {<<3, 1>>, <<1, 3>>, <<7, 5>>}
RatesB == {<<3, 1>>, <<7, 5>>}
KQsQ == {0, 100}
KQsA == {0, 5000}
DenomsA == <<1, 5, 10, 50, 100, 500, 1000>>
GasQ == {2, 1000}
GasA == {0, 2, 1000}
BoolAll == {TRUE, FALSE}
BoolF == {FALSE}
=============================================================================
