SPECIFICATION Spec
CONSTANTS
  MaxBlocks = 4
  GenesisExempt = TRUE
VIEW view
INVARIANTS TerminiAreNearestCoincident ManifestsChainSegments AppendedDownwards RefLocal
CHECK_DEADLOCK FALSE
