----------------------------- MODULE HierCrash -----------------------------
(***************************************************************************)
(* Crash of the WHOLE go-quai process while a dom-coincident block is      *)
(* appended.  Prime, region and zone run in one process on three separate  *)
(* databases; there is no transaction spanning them, so a crash leaves     *)
(* each database at its own prefix of the one global write sequence.       *)
(*                                                                         *)
(* The write sequence is the one the REAL code issues (recorded by         *)
(* harness/faultdb under harness/cmd/chaindrv crash, and compared with     *)
(* this specification's on every run of the check):                        *)
(*   bodies           Core.WriteBlock at every level the block belongs to  *)
(*   append cascade   Slice.Append at the block's order level; it calls    *)
(*                    the subordinate chain's Append BEFORE it commits its *)
(*                    own batch (termini), so the commits happen bottom-up *)
(*                    zone, region, prime; inbound-ETX records are single  *)
(*                    puts on the way down, pending-ETX records single     *)
(*                    puts on the way up; after the order level's Append   *)
(*                    Core.InsertChain hands the pending ETXs to the       *)
(*                    dominant chain (SendPendingEtxsToDom)                *)
(*   head updates     HeaderChain.SetCurrentHeader at prime, region, zone  *)
(*                    in that order (hierarchical coordinator): canonical  *)
(*                    hash + head pointer puts in the header chains, the   *)
(*                    zone's three writes are those of ZoneChain.tla       *)
(*                    (w_canon, w_batch, w_head)                           *)
(* After a crash all three cores are constructed again; the block is       *)
(* offered again at its order level (a peer would send it again).          *)
(* Slice.Append answers ErrKnownBlock iff the order level already holds    *)
(* the block's termini - then NOTHING is cascaded.  That is only safe      *)
(* because of NoDomAheadOfSub below.                                       *)
(*                                                                         *)
(* Level numbers as in go-quai: 0 = prime, 1 = region, 2 = zone.           *)
(***************************************************************************)
EXTENDS Integers, Sequences, FiniteSets, TLC, Json

CONSTANTS Orders,           \* orders of the appended block to explore (subset of 0..2)
          MaxCrashes,       \* crashes per behaviour
          DomCommitsFirst   \* LEAD (never true of the code as it is): a dominant chain commits its append batch before
                            \* it calls the subordinate chain's Append

P == 0
R == 1
Z == 2
Levels == 0..2

VARIABLES
  order,     \* order of the block (fixed per behaviour)
  db,        \* level -> record of booleans: what that level's database holds about the block
             \*   body   block body (candidate store)
             \*   inb    inbound-ETX record of the block ('ie')
             \*   app    termini of the block = "this level has appended it" (append batch)
             \*   petx   pending ETXs of the block ('pe'; consumed by the REGION when it rolls up its zones)
             \*   roll   pending-ETX rollup ('pr'; consumed by PRIME)
             \*   canon  canonical hash at the block's height points to it
             \*   head   head pointer = the block
             \*   state  (zone) the block batch: ledger, undo records, commitments of the block
  up,        \* the process runs
  todo,      \* remaining writes of the running offer, <<level, class>> each
  failed,    \* the running offer could not be completed (a level refuses / cannot find the block)
  offered,   \* offers completed or running since the last (re)start
  crashes, hist

vars == <<order, db, up, todo, failed, offered, crashes, hist>>
view == <<order, db, up, todo, failed, offered, crashes>>

Blank == [body |-> FALSE, inb |-> FALSE, app |-> FALSE, petx |-> FALSE, roll |-> FALSE, canon |-> FALSE, head |-> FALSE, state |-> FALSE]

Init == /\ order \in Orders
        /\ db = [l \in Levels |-> Blank]
        /\ up = TRUE /\ todo = <<>> /\ failed = FALSE /\ offered = 0 /\ crashes = 0 /\ hist = <<>>

W(l, c) == <<l, c>>

\* ---- the write sequences
Bodies(o) == [i \in 1..(3 - o) |-> W(Z + 1 - i, "body")]          \* zone first, then region, then prime

\* Slice.Append at level o with the cascade into the subordinate chains (code order)
ZonePart == << W(Z, "appendbatch") >>
RegionPart(fromDom) ==
    (IF fromDom THEN << W(R, "inboundetxs") >> ELSE <<>>)
    \o (IF DomCommitsFirst THEN << W(R, "appendbatch") >> ELSE <<>>)
    \o << W(Z, "inboundetxs") >> \o ZonePart
    \o << W(R, "pendingetxs"), W(R, "pendingetxsrollup"), W(P, "pendingetxsrollup") >>
    \o (IF DomCommitsFirst THEN <<>> ELSE << W(R, "appendbatch") >>)
PrimePart ==
    (IF DomCommitsFirst THEN << W(P, "appendbatch") >> ELSE <<>>)
    \o RegionPart(TRUE)
    \o << W(P, "pendingetxs") >>
    \o (IF DomCommitsFirst THEN <<>> ELSE << W(P, "appendbatch") >>)
Cascade(o) == CASE o = Z -> ZonePart \o << W(R, "pendingetxs") >>     \* InsertChain: SendPendingEtxsToDom
                 [] o = R -> RegionPart(FALSE) \o << W(P, "pendingetxs") >>
                 [] o = P -> PrimePart

\* HeaderChain.SetCurrentHeader per level; nothing is written where the head already is the block
HeadPart(l) == IF db[l].head THEN <<>>
               ELSE IF l = Z THEN << W(Z, "canon"), W(Z, "blockbatch"), W(Z, "head") >>
               ELSE << W(l, "canon"), W(l, "head") >>
RECURSIVE Heads(_, _)
Heads(l, o) == IF l > Z THEN <<>> ELSE (IF l >= o THEN HeadPart(l) ELSE <<>>) \o Heads(l + 1, o)

\* will level l hold the block's termini once the offer's cascade is through?
WillKnow(l) == db[l].app \/ ~db[order].app

\* ---- a peer hands the block to the node: bodies, InsertChain at the order level, then the head updates
Offer ==
    /\ up /\ todo = <<>> /\ offered < 2
    /\ LET known == db[order].app                    \* Slice.Append: ErrKnownBlock, nothing is cascaded
           ok == \A l \in order..Z : WillKnow(l)     \* a level that never appended the block cannot make it its head
       IN /\ todo' = Bodies(order) \o (IF known THEN <<>> ELSE Cascade(order)) \o (IF ok THEN Heads(P, order) ELSE <<>>)
          /\ failed' = ~ok
    /\ offered' = offered + 1
    /\ hist' = Append(hist, [op |-> "offer", db |-> order, class |-> "-"])
    /\ UNCHANGED <<order, db, up, crashes>>

Apply(l, c) ==
    CASE c = "body"              -> [db EXCEPT ![l].body = TRUE]
      [] c = "inboundetxs"       -> [db EXCEPT ![l].inb = TRUE]
      [] c = "appendbatch"       -> [db EXCEPT ![l].app = TRUE]
      [] c = "pendingetxs"       -> [db EXCEPT ![l].petx = TRUE]
      [] c = "pendingetxsrollup" -> [db EXCEPT ![l].roll = TRUE]
      [] c = "canon"             -> [db EXCEPT ![l].canon = TRUE]
      [] c = "head"              -> [db EXCEPT ![l].head = TRUE]
      \* BodyDb.Append: ONE batch with the ledger, the undo records, the commitments, canonical hash AND head pointer
      [] c = "blockbatch"        -> [db EXCEPT ![l].state = TRUE, ![l].canon = TRUE, ![l].head = TRUE]

Write ==
    /\ up /\ todo # <<>>
    /\ db' = Apply(Head(todo)[1], Head(todo)[2])
    /\ todo' = Tail(todo)
    /\ hist' = Append(hist, [op |-> "w", db |-> Head(todo)[1], class |-> Head(todo)[2]])
    /\ UNCHANGED <<order, up, failed, offered, crashes>>

\* the process dies between any two writes (also before the first and after the last); every database keeps what it has
Crash ==
    /\ up /\ offered > 0 /\ crashes < MaxCrashes
    /\ up' = FALSE /\ todo' = <<>> /\ failed' = FALSE /\ crashes' = crashes + 1
    /\ hist' = Append(hist, [op |-> "crash", db |-> -1, class |-> "-"])
    /\ UNCHANGED <<order, db, offered>>

\* NewCore x 3 (HeaderChain.loadLastState reads the head pointer; nothing is repaired)
Restart ==
    /\ ~up
    /\ up' = TRUE /\ offered' = 0
    /\ hist' = Append(hist, [op |-> "restart", db |-> -1, class |-> "-"])
    /\ UNCHANGED <<order, db, todo, failed, crashes>>

\* self-healing paths of the dominant chains, taken when the next coincident block needs a record that is missing:
\* after c_pEtxRetryThreshold refusals the region asks the zone (Slice.GetPendingEtxsFromSub: the zone answers from the
\* block itself), prime asks the region (GetPendingEtxsRollupFromSub: the region rolls up from its pending ETXs)
CanHealPetx == ~db[R].petx /\ db[Z].app /\ db[Z].body
HealPetx == /\ up /\ todo = <<>> /\ CanHealPetx
            /\ db' = [db EXCEPT ![R].petx = TRUE]
            /\ hist' = Append(hist, [op |-> "heal", db |-> R, class |-> "pendingetxs"])
            /\ UNCHANGED <<order, up, todo, failed, offered, crashes>>
HealRoll == /\ up /\ todo = <<>> /\ order <= R /\ ~db[P].roll /\ db[R].app /\ db[R].petx
            /\ db' = [db EXCEPT ![P].roll = TRUE]
            /\ hist' = Append(hist, [op |-> "heal", db |-> P, class |-> "pendingetxsrollup"])
            /\ UNCHANGED <<order, up, todo, failed, offered, crashes>>

Next == Offer \/ Write \/ Crash \/ Restart \/ HealPetx \/ HealRoll

Spec == Init /\ [][Next]_vars

----------------------------------------------------------------------------
\* the block has been offered since the last (re)start and that offer ran to its end
Done == up /\ todo = <<>> /\ offered > 0

\* C11 for the hierarchy: whatever the crash point, once the block is offered again every level it belongs to has it as
\* head with the zone state present, and the ETX bookkeeping the NEXT coincident blocks consume is there or can be
\* fetched from the subordinate chain
Recoverable ==
    Done => /\ ~failed
            /\ \A l \in order..Z : db[l].app /\ db[l].canon /\ db[l].head
            /\ db[Z].state
            /\ (db[R].petx \/ CanHealPetx)
            /\ (order <= R => (db[P].roll \/ (db[R].app /\ (db[R].petx \/ CanHealPetx))))

\* a dominant chain never holds the termini of a block its subordinate chain has not appended: otherwise the repeated
\* offer is answered "known" at the order level and the subordinate chain never receives the block (always, also
\* while the process is down)
NoDomAheadOfSub == \A l \in P..R : (l >= order /\ db[l].app) => db[l + 1].app

\* a head pointer never names a block the level has not appended, and the zone's ledger moves with its head pointer
\* in one commit (NoApplyWithoutHeadAdvance of ZoneChain.tla)
HeadIsAppended == /\ \A l \in Levels : db[l].head => (db[l].app /\ db[l].body)
                  /\ db[Z].state <=> db[Z].head

TypeOK == order \in Levels /\ up \in BOOLEAN

\* every behaviour with its write sequence and crash position, printed when the (repeated) offer is through
EmitHist == (todo' = <<>> /\ up' /\ offered' > 0 /\ todo # <<>>) => PrintT("@@" \o ToJson(hist'))
=============================================================================
