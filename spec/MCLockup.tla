----------------------------- MODULE MCLockup -----------------------------
EXTENDS Lockup
\* miners 1 (Quai, existing account), 2 (Quai, new account), 3 (Qi)
M3 == {1, 2, 3}
M2 == {1, 3}
QiM == {3}
NewM == {2}
C1 == {7}
NC == {8}
DepthQ == <<1, 2, 3, 4>>
DepthA == <<2, 3, 4, 5>>
MultQ == <<100, 110, 120, 150>>
WS1 == {1}
WS2 == {1, 2}
WSM(k) == IF k = 1 THEN 2 ELSE 1
WSN(k) == IF k = 1 THEN 1 ELSE 2
WSW(k) == 1
WSB(k) == 0
ProfQ == {<<1, 0, "plain", 0>>, <<2, 1, "plain", 0>>, <<3, 0, "plain", 0>>, <<1, 0, "contract", 7>>}
ProfA == {<<1, 0, "plain", 0>>, <<1, 1, "plain", 0>>, <<2, 1, "plain", 0>>, <<3, 0, "plain", 0>>, <<3, 2, "plain", 0>>,
          <<1, 0, "contract", 7>>, <<1, 1, "delegate", 7>>, <<3, 0, "contract", 7>>, <<1, 0, "contract", 8>>, <<1, 0, "malformed", 0>>}
=============================================================================
