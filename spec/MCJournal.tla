---------------------------- MODULE MCJournal ----------------------------
EXTENDS Journal

Acc(bal, nonce, code, stor, size) ==
    [ex |-> TRUE, bal |-> bal, nonce |-> nonce, code |-> code, stor |-> stor, size |-> size, dead |-> FALSE,
     tomb |-> FALSE, cst |-> stor]
Z1 == [s \in 1..1 |-> 0]
Z2 == [s \in 1..2 |-> 0]
None1 == [ex |-> FALSE, bal |-> 0, nonce |-> 0, code |-> 0, stor |-> Z1, size |-> 0, dead |-> FALSE, tomb |-> FALSE, cst |-> Z1]
None2 == [ex |-> FALSE, bal |-> 0, nonce |-> 0, code |-> 0, stor |-> Z2, size |-> 0, dead |-> FALSE, tomb |-> FALSE, cst |-> Z2]

\* ---- journal level (level a): a1 = contract with one committed slot, a2 = plain account, a3 = absent
GenJ1 == <<Acc(2, 1, 1, <<1>>, 1), Acc(1, 0, 0, Z1, 0), None1>>
GenJ2 == <<Acc(2, 1, 1, <<1, 0>>, 1), Acc(1, 0, 0, Z2, 0), None2>>
\* two accounts only (deeper exhaustive runs): a1 = contract with one committed slot, a2 = absent
GenK == <<Acc(2, 1, 1, <<1>>, 1), None1>>
NoLock2 == <<FALSE, FALSE>>
NoLock3 == <<FALSE, FALSE, FALSE>>
OpsJ == {"addbalance", "subbalance", "setbalance", "setnonce", "setcode", "setstate", "settransient", "suicide",
         "createaccount", "addlog", "addrefund", "subrefund", "addpreimage", "aladdr", "alslot",
         "snapshot", "revert"}
V02 == {0, 2}
V012 == {0, 1, 2}
A01 == {0, 1}
FrJ == <<1, 2, 3>>
NoNew == <<>>
NoXfer == {}

\* ---- EVM level (level b): K1..K5 = 1..5 (contract run by the n-th frame pushed), E = 6 (plain account),
\* N = 7 (absent), C1..C3 = 8..10 (addresses of created contracts).  K2 has one committed storage slot.
GenE == <<Acc(2, 1, 1, Z1, 0), Acc(1, 1, 1, <<1>>, 1), Acc(1, 1, 1, Z1, 0), Acc(0, 1, 1, Z1, 0), Acc(1, 1, 1, Z1, 0),
          Acc(1, 0, 0, Z1, 0), None1, None1, None1, None1>>
LockE == <<TRUE, TRUE, TRUE, TRUE, TRUE, FALSE, FALSE, FALSE, FALSE, FALSE>>
OpsE == {"push", "popok", "popsuicide", "popabort", "sstore", "tstore", "log", "xfer", "etx", "xcall", "claim"}
\* simulation of long programs: without the one-step cross-zone transaction (it would be 2/3 of all random runs)
OpsES == OpsE \ {"xcall"}
FrE == <<1, 2, 3, 4, 5>>
NewE == <<8, 9, 10>>
XferE == {6, 7}

\* ---- long EVM-level behaviours (TLC simulation): K1..K8, E = 9, N = 10, C1..C4 = 11..14
GenEL == <<Acc(3, 1, 1, Z1, 0), Acc(1, 1, 1, <<1>>, 1), Acc(1, 1, 1, Z1, 0), Acc(0, 1, 1, Z1, 0), Acc(1, 1, 1, Z1, 0),
           Acc(2, 1, 1, <<2>>, 1), Acc(1, 1, 1, Z1, 0), Acc(1, 1, 1, Z1, 0),
           Acc(1, 0, 0, Z1, 0), None1, None1, None1, None1, None1>>
LockEL == <<TRUE, TRUE, TRUE, TRUE, TRUE, TRUE, TRUE, TRUE, FALSE, FALSE, FALSE, FALSE, FALSE, FALSE>>
FrEL == <<1, 2, 3, 4, 5, 6, 7, 8>>
NewEL == <<11, 12, 13, 14>>
XferEL == {9, 10}

\* ---- several transactions per StateDB (Journal.tla part 3)
\* journal level: the StateDB interface + Finalize/Prepare between transactions + Commit/reopen between blocks
OpsJM == OpsJ \cup {"txend", "blockend"}
OpsJT == OpsJ \cup {"txend"}
\* EVM level: frame programs, several transactions on one StateDB/EVM (no cross-zone one-step transaction).  A value
\* transfer may also go to K1/K2: possible once that contract is a tombstone (it self-destructed in an earlier transaction)
OpsEM == OpsES \cup {"txend"}
XferEM == {1, 2, 6, 7}
XferELM == {1, 2, 3, 9, 10}
=============================================================================
