--------------------------- MODULE ConversionTrace ---------------------------
(***************************************************************************)
(* Trace validation for Conversion.tla.  harness/cmd/convdrv performs real *)
(* conversions on the in-process prime/region/zone network and logs one    *)
(* event per specification action with the numbers the implementation      *)
(* produced, scaled to basis points (every original amount = 10000 in its  *)
(* own ledger's unit, every rate-implied amount = 10000 in the destination *)
(* unit; quotients are rounded UP so that an excess of one wei shows).     *)
(* The exact big-number comparisons against the independent math/big       *)
(* oracle are logged as booleans.  TLC replays the events through the      *)
(* specification's actions and evaluates the C20 invariants on the         *)
(* implementation's states.                                                *)
(***************************************************************************)
EXTENDS Conversion, FiniteSetsExt

Trace == ndJsonDeserialize("convtrace.ndjson")

TraceIds == 1..Max({1} \cup {IF "id" \in DOMAIN Trace[i] THEN Trace[i].id ELSE 1 : i \in DOMAIN Trace})
TraceRate == <<1, 1>>
TraceDenoms == <<1>>

InvNames == {"TraceConforms", "DebitCountsOK", "ExactlyOneOutcome", "CreditLeRateImplied", "DiscountOnlyReducesNotBelowFloor",
             "RefundIsOriginal", "DenominationDustBound", "NotBeforeLock"}

VARIABLES l, mismatch
tvars == <<vars, l, mismatch>>

Ev == Trace[l]
Is(name) == l <= Len(Trace) /\ Ev.op = name

TraceInit ==
    /\ conv = [c \in ConvIds |-> None]
    /\ quai = InitQuai /\ qi = InitQi /\ height = 0 /\ rate = TraceRate
    /\ step = 0 /\ hist = <<>> /\ obs = <<"init">>
    /\ l = 1 /\ mismatch = <<>>
    /\ TLCSet(2, [n \in InvNames |-> 0]) /\ TLCSet(3, <<>>)

Note(m) == mismatch' = IF mismatch = <<>> /\ m # <<>> THEN <<l>> \o m ELSE mismatch

TraceReset ==
    /\ Is("tracereset")
    /\ conv' = [c \in ConvIds |-> None]
    /\ quai' = InitQuai /\ qi' = InitQi /\ height' = 0 /\ rate' = TraceRate
    /\ step' = 0 /\ hist' = <<>> /\ obs' = <<"init">>
    /\ l' = l + 1 /\ UNCHANGED mismatch

\* a new zone block; the implementation credited the listed conversions in it
Tick ==
    /\ Is("tick")
    /\ AdvanceWith({Ev.credited[i].id : i \in DOMAIN Ev.credited})
    /\ l' = l + 1
    /\ Note(IF Ev.h # height + 1 THEN <<"height", Ev.h, height + 1>>
            ELSE IF \E i \in DOMAIN Ev.credited : Ev.credited[i].credit > conv[Ev.credited[i].id].val
                 THEN <<"credit-exceeds-etx-value", Ev.credited>>
            ELSE IF \E i \in DOMAIN Ev.credited : ~Ev.credited[i].exact THEN <<"credit-differs-from-oracle", Ev.credited>>
            ELSE <<>>)

Submit == Is("submit") /\ l' = l + 1 /\ UNCHANGED <<vars, mismatch>>

Debit ==
    /\ Is("debit")
    /\ DebitWith(Ev.id, Ev.dir, Ev.amt, Ev.slip, Ev.via)
    /\ l' = l + 1
    /\ Note(IF ~Ev.once THEN <<"origin-delta-differs-from-amount", Ev.id>> ELSE <<>>)

Refused ==
    /\ Is("refused")
    /\ RefuseWith(Ev.id, "q2i", 0, 0, "-")
    /\ l' = l + 1 /\ UNCHANGED mismatch

Reprice ==
    /\ Is("reprice")
    /\ LET out == [c \in {Ev.out[i].id : i \in DOMAIN Ev.out} |->
                     LET e == Ev.out[CHOOSE i \in DOMAIN Ev.out : Ev.out[i].id = c]
                     IN  [kind |-> e.kind, pre |-> 0, val |-> e.val, implied |-> 10000, floorv |-> e.floor, slipmin |-> 0]]
       IN  RepriceWith(out, rate, [op |-> "reprice"])
    /\ l' = l + 1
    /\ Note(IF \E i \in DOMAIN Ev.out : conv[Ev.out[i].id].st # "pending" THEN <<"repriced-but-not-pending", Ev.out>>
            ELSE IF \E i \in DOMAIN Ev.out : ~Ev.out[i].oracle_eq THEN <<"etx-differs-from-protocol-formula", Ev.out>>
            ELSE <<>>)

Mint ==
    /\ Is("mint")
    /\ MintWith(Ev.id, Ev.sum, Ev.lock, IF Ev.all THEN 1 ELSE 0, 1)
    /\ l' = l + 1
    /\ Note(IF Ev.h # height THEN <<"height", Ev.h, height>> ELSE IF ~Ev.dust_ok THEN <<"minted-more-than-value", Ev.id>> ELSE <<>>)

LockQ ==
    /\ Is("lockquai")
    /\ LockQuai(Ev.id)
    /\ l' = l + 1
    /\ Note(IF Ev.unlock # height + LockPeriod THEN <<"unlock", Ev.unlock, height + LockPeriod>> ELSE <<>>)

Refund ==
    /\ Is("refund")
    /\ RefundWith(Ev.id, Ev.amt, Ev.lock)
    /\ l' = l + 1 /\ UNCHANGED mismatch

TraceNext == TraceReset \/ Tick \/ Submit \/ Debit \/ Refused \/ Reprice \/ Mint \/ LockQ \/ Refund
TraceSpec == TraceInit /\ [][TraceNext]_tvars

\* every logged observation agrees with the specification / the independent oracle
TraceConforms == mismatch = <<>>

\* The C20 invariants are evaluated on every state of the implementation's history; instead of stopping at the
\* first violation the run records, per invariant, the first trace line after which it was false (0 = held
\* throughout), so that one pass judges the whole log.
Holds(n) == CASE n = "TraceConforms" -> TraceConforms
              [] n = "DebitCountsOK" -> DebitCountsOK
              [] n = "ExactlyOneOutcome" -> ExactlyOneOutcome
              [] n = "CreditLeRateImplied" -> CreditLeRateImplied
              [] n = "DiscountOnlyReducesNotBelowFloor" -> DiscountOnlyReducesNotBelowFloor
              [] n = "RefundIsOriginal" -> RefundIsOriginal
              [] n = "DenominationDustBound" -> DenominationDustBound
              [] n = "NotBeforeLock" -> NotBeforeLock
Collect == /\ TLCSet(2, [n \in InvNames |-> IF TLCGet(2)[n] = 0 /\ ~Holds(n) THEN l - 1 ELSE TLCGet(2)[n]])
           /\ TLCSet(3, IF TLCGet(3) = <<>> THEN mismatch ELSE TLCGet(3))

TraceAccepted == /\ PrintT(<<"C20VERDICT", TLCGet(2), TLCGet(3)>>)
                 /\ TLCGet("stats").diameter - 1 = Len(Trace)
=============================================================================
