SPECIFICATION Spec
CONSTANTS
  NSym = 3
  Keys <- K7
  Vals <- V2
  CheckKeys <- C7
  MaxOps = 4
  Ops <- OpsAll
  KeepHist = FALSE
VIEW view
INVARIANTS TypeOK Canonical GetMatchesContent OtherCanonical CommitReloadPreserves ProofComplete AbsenceProvable EmptyTrieHasNoProof ProofSound CorruptedProofRejectedOrSameValue StackTrieEqualsTrie
CHECK_DEADLOCK FALSE
