----------------------------- MODULE LockupTrace -----------------------------
(***************************************************************************)
(* Trace validation for Lockup.tla.  harness/cmd/rewdrv mines real chains  *)
(* (forks included) on the in-process network and logs, per block, what    *)
(* the block contained (miner request, uncles, rewards issued, rewards     *)
(* that arrived, claim attempts) and what it did to the ledger as read     *)
(* from the node (rewards credited to Quai accounts, Qi outputs minted     *)
(* with their lock height, every lockup record with unlock height and      *)
(* element count, claims that produced a payment).  TLC rebuilds the block *)
(* tree, replays the ledger with the specification's rules and compares;   *)
(* reward amounts are abstracted to 1 (their exact values are judged by    *)
(* the math/big oracle and logged as booleans).                            *)
(***************************************************************************)
EXTENDS Lockup, FiniteSetsExt

Trace == ndJsonDeserialize("rewtrace.ndjson")
\* a work share's id encodes its attributes: number * 10000 + miner * 100 + lockup byte * 10 + sequence digit
TWorkShares == {}
TWSNumber(k) == k \div 10000
TWSMiner(k) == (k % 10000) \div 100
TWSByte(k) == (k % 100) \div 10
TWSWeight(k) == 1
TMiners == 1..12
TQi == {3, 5}
TNew == {2, 6}
TContracts == {7, 9}
TNoCode == {8}
TDepth == <<3, 5, 7, 9>>
TMult == <<100, 100, 100, 100>>

InvNames == {"TraceConforms", "ShareRewardedAtMostOncePerChain", "RewardAmountIsFormula", "CreditExactlyAtUnlock", "CreditAmountExact",
             "ClaimOnlyOwnerAfterUnlockOnce", "ClaimAmountIsAccumulated"}

VARIABLES l, mismatch
tvars == <<vars, l, mismatch>>
Ev == Trace[l]
Is(name) == l <= Len(Trace) /\ Ev.op = name

TraceInit == /\ Init /\ l = 1 /\ mismatch = <<>>
             /\ TLCSet(2, [n \in InvNames |-> 0]) /\ TLCSet(3, <<>>)

Note(m) == mismatch' = IF mismatch = <<>> /\ m # <<>> THEN <<l>> \o m ELSE mismatch

TraceReset == /\ Is("tracereset")
              /\ blocks' = (Gen :> GenBlock) /\ led' = (Gen :> EmptyLedger) /\ cur' = Gen /\ step' = 0 /\ hist' = <<>>
              /\ l' = l + 1 /\ UNCHANGED mismatch

Share == Is("share") /\ l' = l + 1 /\ UNCHANGED <<vars, mismatch>>

ToSet2(seq) == {seq[i] : i \in DOMAIN seq}
KeyOfClaim(c) == <<c.caller, c.miner, c.byte, c.epoch>>

Mine ==
    /\ Is("mine")
    /\ Ev.b \notin Ids /\ Ev.p \in Ids
    /\ AddBlock(Ev.b, [parent |-> Ev.p, height |-> Ev.h, miner |-> Ev.miner, byte |-> Ev.byte, layout |-> Ev.layout, contract |-> Ev.contract,
                       uncles |-> ToSet2(Ev.uncles), issued |-> Ev.issued, arrive |-> Ev.arrive, claims |-> Ev.claims])
    /\ l' = l + 1
    /\ LET L1 == led'[Ev.b]
           L0 == led[Ev.p]
           o  == Ev.obs
           creditsNew == {c[1] : c \in L1.credits \ L0.credits}
           mintsNew   == {<<m[1], m[2]>> : m \in L1.mints \ L0.mints}
           locksNow   == {<<x.key[1], x.key[2], x.key[3], x.key[4], x.unlock, Cardinality(x.rs)>> : x \in L1.locks}
           paidNew    == {p.key : p \in L1.paid \ L0.paid}
       IN  Note(IF Ev.h # blocks[Ev.p].height + 1 THEN <<"height", Ev.b>>
                ELSE IF ~o.amt_ok THEN <<"issued-amounts-differ-from-formula", Ev.b>>
                ELSE IF creditsNew # ToSet2(o.credits) THEN <<"credits", Ev.b, ToSet2(o.credits), creditsNew>>
                ELSE IF ~o.bal_ok THEN <<"quai-balances-differ-from-oracle", Ev.b>>
                ELSE IF mintsNew # {<<o.mints[i][1], o.mints[i][2]>> : i \in DOMAIN o.mints} THEN <<"qi-mints", Ev.b, o.mints, mintsNew>>
                ELSE IF ~o.qi_ok THEN <<"qi-outputs-differ-from-oracle", Ev.b>>
                ELSE IF locksNow # {<<o.locks[i][1], o.locks[i][2], o.locks[i][3], o.locks[i][4], o.locks[i][5], o.locks[i][6]>> : i \in DOMAIN o.locks}
                     THEN <<"lockup-records", Ev.b, o.locks, locksNow>>
                ELSE IF ~o.lock_amounts_ok THEN <<"lockup-balances-differ-from-oracle", Ev.b>>
                ELSE IF paidNew # {KeyOfClaim(Ev.claims[i]) : i \in ToSet2(o.paid)} THEN <<"claims-paid", Ev.b, o.paid, paidNew>>
                ELSE <<>>)

Switch ==
    /\ Is("sethead")
    /\ Ev.b \in Ids
    /\ cur' = Ev.b /\ step' = step + 1 /\ UNCHANGED <<blocks, led, hist>>
    /\ l' = l + 1
    /\ Note(IF ~Ev.state_ok THEN <<"state-after-head-switch-differs", Ev.b>> ELSE <<>>)

TraceNext == TraceReset \/ Share \/ Mine \/ Switch
TraceSpec == TraceInit /\ [][TraceNext]_tvars

TraceConforms == mismatch = <<>>
Holds(n) == CASE n = "TraceConforms" -> TraceConforms
              [] n = "ShareRewardedAtMostOncePerChain" -> ShareRewardedAtMostOncePerChain
              [] n = "RewardAmountIsFormula" -> RewardAmountIsFormula
              [] n = "CreditExactlyAtUnlock" -> CreditExactlyAtUnlock
              [] n = "CreditAmountExact" -> CreditAmountExact
              [] n = "ClaimOnlyOwnerAfterUnlockOnce" -> ClaimOnlyOwnerAfterUnlockOnce
              [] n = "ClaimAmountIsAccumulated" -> ClaimAmountIsAccumulated
Collect == /\ TLCSet(2, [n \in InvNames |-> IF TLCGet(2)[n] = 0 /\ ~Holds(n) THEN l - 1 ELSE TLCGet(2)[n]])
           /\ TLCSet(3, IF TLCGet(3) = <<>> THEN mismatch ELSE TLCGet(3))
TraceAccepted == /\ PrintT(<<"C13VERDICT", TLCGet(2), TLCGet(3)>>)
                 /\ TLCGet("stats").diameter - 1 = Len(Trace)
=============================================================================
