--------------------------- MODULE TrieGCTrace ---------------------------
(***************************************************************************)
(* Trace validation for TrieGC.tla: every event logged by                  *)
(* harness/cmd/triedrv gcrandom (one per call on the trie handle / the     *)
(* trie.Database, with the result and the list of known roots that loaded  *)
(* completely afterwards - through the live database (lok) and through a   *)
(* fresh trie.Database on the same store (dok)) must be the TrieGC action  *)
(* of that name with those arguments - so the driver stayed inside the     *)
(* interface contract - and every root the specification promises must be  *)
(* among those that loaded.  Roots are numbered in the order of their      *)
(* first Trie.Commit (id 0: the empty trie); idx re-derives the numbering. *)
(* Traces of several flavours are concatenated, separated by "tracereset". *)
(***************************************************************************)
EXTENDS TrieGC

\* the keys of the driver's universes (harness/cmd/triedrv/gc.go, cmdGCRandom)
TraceKeys == {<<1>>, <<2>>, <<1, 1>>, <<1, 2>>, <<1, 3>>, <<2, 1>>, <<2, 2>>, <<2, 3>>, <<1, 1, 2>>, <<3, 1, 1>>, <<3, 1, 2>>}
TraceVals == 1..3
TraceOps  == {"update", "tcommit", "ref", "deref", "flush", "flushfail", "cap", "capfail", "open", "reopen"}
NoPrelude == <<>>

Trace == ndJsonDeserialize("triegctrace.ndjson")

VARIABLES l,         \* next trace line to consume
          mismatch,  \* first event whose observation violates the specification / whose native check failed
          idx        \* contents in the order of their first commit: idx[id] is root number id

tvars == <<vars, l, mismatch, idx>>

TraceInit == Init /\ l = 1 /\ mismatch = <<>> /\ idx = <<>>

Ev == Trace[l]
Is(name) == l <= Len(Trace) /\ Ev.op = name

\* a logged content (sorted sequence of <<key, value>>) as a content of the specification
ToContent(seq) ==
    [k \in Keys |-> LET at == {i \in 1..Len(seq) : seq[i][1] = k}
                    IN  IF at = {} THEN NoVal ELSE seq[CHOOSE i \in at : TRUE][2]]
EvC == ToContent(Ev.c)

IdsOf(table, S) == {i \in 1..Len(table) : table[i] \in S}
Elems(s) == {s[i] : i \in 1..Len(s)}

Step(A) ==
    /\ A
    /\ l' = l + 1
    /\ idx' = IF Ev.op = "tcommit" /\ EvC # Empty /\ EvC \notin Elems(idx) THEN Append(idx, EvC) ELSE idx
    /\ mismatch' =
         IF mismatch # <<>> THEN mismatch
         ELSE LET must  == (MustSet(held', flushed') \cap DOMAIN refs') \ {Empty}
                  lost  == IdsOf(idx', must) \ Elems(Ev.lok)
                  dlost == IdsOf(idx', flushed' \ {Empty}) \ Elems(Ev.dok)
                  why   == IF ~Ev.ok THEN Ev.fail
                           ELSE IF Ev.res # obs' THEN "spec-vs-impl: the result differs from the specified one"
                           ELSE IF Ev.op = "tcommit" /\ Ev.id # (IF EvC = Empty THEN 0 ELSE CHOOSE i \in 1..Len(idx') : idx'[i] = EvC)
                                THEN "driver: root numbering"
                           ELSE IF lost # {}
                                THEN "gc-live-root-lost: a root that is referenced (or committed and never released, or flushed) does not load"
                           ELSE IF dlost # {}
                                THEN "gc-flushed-root-not-on-disk: a root reported as written does not load through a fresh trie.Database"
                           ELSE ""
              IN  IF why = "" THEN <<>> ELSE <<l, Ev.flavor, Ev.op, why, lost, dlost>>

TraceReset ==
    /\ Is("tracereset")
    /\ h' = Empty /\ base' = Empty
    /\ refs' = (Empty :> 0) /\ cnt' = (Empty :> 0)
    /\ held' = {} /\ flushed' = {} /\ cached' = {} /\ disk' = {}
    /\ step' = 0 /\ obs' = <<"init">> /\ hist' = <<>>
    /\ idx' = <<>>
    /\ l' = l + 1 /\ UNCHANGED mismatch

TraceNext ==
    \/ TraceReset
    \/ Is("update")    /\ Step(Update(Ev.k, Ev.v))
    \/ Is("tcommit")   /\ h = EvC /\ Step(TCommit)
    \/ Is("ref")       /\ Step(Ref(EvC))
    \/ Is("deref")     /\ Step(Deref(EvC))
    \/ Is("flush")     /\ Step(Flush(EvC))
    \/ Is("flushfail") /\ Step(FlushFail(EvC))
    \/ Is("cap")       /\ Step(Cap)
    \/ Is("capfail")   /\ Step(CapFail)
    \/ Is("open")      /\ Step(Open(EvC))
    \/ Is("reopen")    /\ Step(Reopen)

TraceSpec == TraceInit /\ [][TraceNext]_tvars

\* C18 (commit / reload clause) on implementation states: whatever the specification promises after a call loaded
ObservationsConform == mismatch = <<>>

\* the whole trace was consumed (a call outside the interface contract stops the run)
TraceAccepted == TLCGet("stats").diameter - 1 = Len(Trace)
=============================================================================
