SPECIFICATION Spec
CONSTANTS
  NSym = 3
  Keys <- K8
  Vals <- V2
  CheckKeys <- C8
  MaxOps = 4
  Ops <- OpsNoCopy
  KeepHist = TRUE
VIEW view
ACTION_CONSTRAINT EmitHist
CHECK_DEADLOCK FALSE
