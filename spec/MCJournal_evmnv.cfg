SPECIFICATION Spec
CONSTANTS
  NAddr = 10
  NSlot = 1
  Vals <- V02
  Amts <- A01
  Genesis <- GenE
  HasLock <- LockE
  Ops <- OpsE
  MaxMut = 2
  MaxSnap = 2
  MaxDepth = 2
  MaxTx = 0
  FrameAddr <- FrE
  NewAddrs <- NewE
  XferTo <- XferE
  Benef = 6
INVARIANTS TypeOK AccessListWellFormed AlwaysRevertible
PROPERTIES RevertRestores SiblingsUntouched
ACTION_CONSTRAINT EmitHist
CHECK_DEADLOCK FALSE
