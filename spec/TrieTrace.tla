---------------------------- MODULE TrieTrace ----------------------------
(***************************************************************************)
(* Trace validation for Trie.tla: every event logged by                    *)
(* harness/cmd/triedrv random (one per trie call, with the observed        *)
(* abstract result and the outcome of the driver's root / commit oracles)  *)
(* must be the Trie action of that name with those arguments, and the      *)
(* observation must be the one the specification defines.  TLC thereby     *)
(* evaluates the spec's content map and the C18 invariants on the states   *)
(* the implementation went through.  Traces of several flavours and runs   *)
(* are concatenated, separated by "tracereset" events.                     *)
(***************************************************************************)
EXTENDS Trie

RECURSIVE SeqsUpTo(_)
SeqsUpTo(n) == IF n = 0 THEN {<<>>}
               ELSE LET S == SeqsUpTo(n - 1) IN S \cup {Append(s, x) : s \in S, x \in 1..NSym}
TraceKeys  == SeqsUpTo(4)
TraceVals  == 1..5
TraceOps   == {"update", "delete", "get", "prove", "hash", "commit", "reload", "stack", "verify", "corrupt", "copy", "swap"}
TraceCheck == {<<>>, <<1>>, <<1, 2>>, <<2, 1, 3>>, <<3, 3, 3, 3>>}

Trace == ndJsonDeserialize("trietrace.ndjson")

VARIABLES l,         \* next trace line to consume
          mismatch   \* first event whose observation differs from the specified one / whose oracle failed

tvars == <<vars, l, mismatch>>

TraceInit == Init /\ l = 1 /\ mismatch = <<>>

Ev == Trace[l]
Is(name) == l <= Len(Trace) /\ Ev.op = name

\* node kinds on the path without extensions, as a string (the harness embedding adds extension nodes)
NoXStr(kinds) == FoldLeft(LAMBDA acc, s : IF s = "X" THEN acc ELSE acc \o s, "", kinds)

\* is the logged observation the specified one?  o = obs' (the specified result), cn = content'
Conform(ev, o, cn) ==
    CASE ev.op = "hash"   -> ev.res = o                   \* the driver's view of the content = the spec's
      [] ev.op = "prove"  -> /\ ev.res[2] = o[2]
                             /\ (ev.shape => ev.res[3] = NoXStr(o[3]))
      [] ev.op = "verify" -> IF ev.exact THEN ev.res = o
                             ELSE ev.res[2] \in {Reject, cn[ev.k2]}   \* nodes embedded in their parent travel along
      [] OTHER            -> ev.res = o

\* the spec action fires with the logged arguments; the logged result is compared with obs'
Step(A) ==
    /\ A
    /\ l' = l + 1
    /\ mismatch' = IF mismatch = <<>> /\ (~Ev.ok \/ ~Conform(Ev, obs', content')
                                          \/ Ev.ho # hasother' \/ (Ev.ho /\ Ev.oc # ContentSeq(ocontent')))
                   THEN <<l, Ev.flavor, Ev.op, Ev.fail, Ev.res, obs'>> ELSE mismatch

TraceReset ==
    /\ Is("tracereset")
    /\ root' = E /\ content' = [k \in Keys |-> NoVal]
    /\ store' = {} /\ committed' = FALSE /\ croot' = E /\ ccontent' = [k \in Keys |-> NoVal]
    /\ oroot' = E /\ ocontent' = [k \in Keys |-> NoVal] /\ hasother' = FALSE
    /\ step' = 0 /\ obs' = <<"init">> /\ hist' = <<>>
    /\ l' = l + 1 /\ UNCHANGED mismatch

\* the harness picks the node to corrupt modulo the length of the path
CorruptAt(k, i, kind) ==
    LET n == Len(ProofPath(root, k)) IN n > 0 /\ CorruptProof(k, ((i - 1) % n) + 1, kind)

TraceNext ==
    \/ TraceReset
    \/ Is("update")  /\ Step(Update(Ev.k, Ev.v))
    \/ Is("delete")  /\ Step(Delete(Ev.k))
    \/ Is("get")     /\ Step(Get(Ev.k))
    \/ Is("hash")    /\ Step(Hash)
    \/ Is("commit")  /\ Step(Commit)
    \/ Is("reload")  /\ Step(Reload)
    \/ Is("prove")   /\ Step(Prove(Ev.k))
    \/ Is("verify")  /\ Step(VerifyOther(Ev.k, Ev.k2))
    \/ Is("corrupt") /\ Step(CorruptAt(Ev.k, Ev.i, Ev.kind))
    \/ Is("stack")   /\ Step(StackBuild)
    \/ Is("copy")    /\ Step(Copy)
    \/ Is("swap")    /\ Step(Swap)

TraceSpec == TraceInit /\ [][TraceNext]_tvars

\* C18 on implementation states: every observation equals the specified one and every root /
\* commit / proof oracle of the driver held
ObservationsConform == mismatch = <<>>

\* the whole trace was consumed (an event outside the interface contract stops the run)
TraceAccepted == TLCGet("stats").diameter - 1 = Len(Trace)
=============================================================================
