------------------------------ MODULE Journal ------------------------------
(***************************************************************************)
(* The journaled execution state of go-quai (C12: "a failed or reverted    *)
(* call frame leaves no trace").                                           *)
(*                                                                         *)
(* Part 1 - core/state: StateDB mutators, the undo journal, Snapshot and   *)
(* RevertToSnapshot (core/state/journal.go, statedb.go, state_object.go,   *)
(* access_list.go, transient_storage.go).  One action per exported mutator;*)
(* every action appends the journal entries the Go code appends, and       *)
(* RevertToSnapshot replays them backwards exactly like journal.revert.    *)
(*                                                                         *)
(* Part 2 - core/vm: call frames (evm.Call / DelegateCall / create with    *)
(* evm.snapshot / evm.revertToSnapshot), the in-frame operations that      *)
(* touch state (SSTORE, TSTORE, LOG, value transfer, ETX, the lockup       *)
(* precompile's claim, SELFDESTRUCT) and the EVM side lists (ETXCache,     *)
(* CoinbaseDeletedHashes, CoinbasesDeleted) plus the lockup deletions the  *)
(* precompile stages in the block batch (evm.Batch).                       *)
(*                                                                         *)
(* Part 3 - what the block processor does between two transactions         *)
(* (core/state_processor.go: StateDB.Finalize(true), Prepare, EVM.Reset):  *)
(* self-destructed and empty dirty objects become TOMBSTONES that stay in  *)
(* StateDB.stateObjects and read as non-existent, the journal, the live    *)
(* snapshots and the refund counter are dropped, access list and transient *)
(* storage start afresh - and between two blocks (Commit, new StateDB at   *)
(* the committed root).  A frame of a LATER transaction that re-creates a  *)
(* tombstoned address and fails must leave the tombstone, not the          *)
(* committed pre-destruction account.                                      *)
(*                                                                         *)
(* The spec is the INTENDED design: everything the property lists is       *)
(* restored by a revert (the suicide entry remembers the size counter, a   *)
(* frame snapshot remembers the staged batch deletions, a create frame     *)
(* that cannot pay for its code is reverted).  `saved` is a history        *)
(* variable (state at Snapshot time); RevertRestores compares against it,  *)
(* so the property is checked against the journal mechanism, not assumed.  *)
(***************************************************************************)
EXTENDS Integers, Sequences, FiniteSets, TLC, SequencesExt, Json

CONSTANTS
    NAddr,      \* accounts are 1..NAddr
    NSlot,      \* storage / transient slots are 1..NSlot
    Vals,       \* slot values (0 = empty)
    Amts,       \* amounts for AddBalance/SubBalance/SetBalance (0 = touch)
    Genesis,    \* [1..NAddr -> account record]: committed pre-state
    HasLock,    \* [1..NAddr -> BOOLEAN]: owner has a claimable coinbase lockup in the database
    Ops,        \* enabled action kinds
    MaxMut,     \* bound on mutating actions per behaviour
    MaxSnap,    \* bound on snapshots / frames pushed per behaviour
    MaxDepth,   \* bound on live nested snapshots / frames
    MaxTx,      \* bound on transaction boundaries (TxBoundary + BlockBoundary) per behaviour
    FrameAddr,  \* EVM part: the n-th frame pushed in a transaction executes the contract FrameAddr[n]
    NewAddrs,   \* EVM part: addresses CREATE frames deploy to, in order
    XferTo,     \* EVM part: targets of plain value transfers
    Benef       \* EVM part: SELFDESTRUCT beneficiary

Addrs == 1..NAddr
Slots == 1..NSlot

VARIABLES
    st,      \* StateDB state: accounts, refund, logs, access list, transient storage, preimages
    ev,      \* EVM side lists + staged batch deletions
    jr,      \* the journal (sequence of undo entries)
    revs,    \* live snapshots / frames (StateDB.validRevisions + evmSnapshot), innermost last
    nextId,  \* StateDB.nextRevisionId
    saved,   \* history: snapshot id -> visible state when the snapshot was taken
    cnt,     \* counters bounding the exploration + EVM bookkeeping
    step, obs, hist   \* hidden by VIEW

vars == <<st, ev, jr, revs, nextId, saved, cnt, step, obs, hist>>
view == <<st, ev, jr, revs, nextId, saved, cnt>>

----------------------------------------------------------------------------
\* accounts
ZeroStor == [s \in Slots |-> 0]
\* tomb: the address holds a TOMBSTONE - a state object Finalize marked `deleted` (self-destructed or empty at the
\* end of an earlier transaction of this block).  It stays in StateDB.stateObjects (and, if it was committed, in the
\* trie) until IntermediateRoot, but every getter treats it as non-existent: its projection is Absent.
\* cst: storage of this state object as committed in the trie (what IntermediateRoot compares against when it
\* maintains the storage-size counter); only BlockBoundary changes it.
Absent   == [ex |-> FALSE, bal |-> 0, nonce |-> 0, code |-> 0, stor |-> ZeroStor, size |-> 0, dead |-> FALSE,
             tomb |-> FALSE, cst |-> ZeroStor]
Tomb     == [Absent EXCEPT !.tomb = TRUE]
NewAcct  == [Absent EXCEPT !.ex = TRUE]                       \* newObject(db, addr, Account{})
IsEmpty(a) == a.nonce = 0 /\ a.bal = 0 /\ a.code = 0 /\ a.size = 0     \* stateObject.empty()
\* what the getters (Exist, GetBalance, GetNonce, GetCode, GetState, GetSize, HasSuicided) show of an account
Shown(r) == IF r.tomb THEN Absent ELSE [r EXCEPT !.cst = ZeroStor]

\* journal entries: uniform shape [t, a, s, p, r]
E(t, a, s, p, r) == [t |-> t, a |-> a, s |-> s, p |-> p, r |-> r]

\* journalEntry.revert, one case per entry type of core/state/journal.go
Undo(x, e) ==
    CASE e.t = "create"  -> [x EXCEPT !.acct[e.a] = Absent]                    \* createObjectChange
      [] e.t = "reset"   -> [x EXCEPT !.acct[e.a] = e.r]                       \* resetObjectChange
      [] e.t = "suicide" -> [x EXCEPT !.acct[e.a].dead = e.r.dead,             \* suicideChange (+ size: intended)
                                      !.acct[e.a].bal  = e.r.bal,
                                      !.acct[e.a].size = e.r.size]
      [] e.t = "touch"   -> x                                                  \* touchChange
      [] e.t = "bal"     -> [x EXCEPT !.acct[e.a].bal = e.p]                   \* balanceChange
      [] e.t = "nonce"   -> [x EXCEPT !.acct[e.a].nonce = e.p]                 \* nonceChange
      [] e.t = "code"    -> [x EXCEPT !.acct[e.a].code = e.p]                  \* codeChange
      [] e.t = "stor"    -> [x EXCEPT !.acct[e.a].stor[e.s] = e.p]             \* storageChange
      [] e.t = "refund"  -> [x EXCEPT !.refund = e.p]                          \* refundChange
      [] e.t = "log"     -> [x EXCEPT !.logs = SubSeq(@, 1, Len(@) - 1)]       \* addLogChange
      [] e.t = "preim"   -> [x EXCEPT !.preim[e.a] = FALSE]                    \* addPreimageChange
      [] e.t = "aladdr"  -> [x EXCEPT !.alA[e.a] = FALSE]                      \* accessListAddAccountChange
      [] e.t = "alslot"  -> [x EXCEPT !.alS[e.a][e.s] = FALSE]                 \* accessListAddSlotChange
      [] e.t = "tstor"   -> [x EXCEPT !.tst[e.a][e.s] = e.p]                   \* transientStorageChange

\* journal.revert(statedb, snapshot): entries Len(j) down to n+1, newest first
Replay(x, j, n) == FoldLeft(Undo, x, Reverse(SubSeq(j, n + 1, Len(j))))

\* a machine = StateDB state + journal; mutators are functions on machines
Mach(x, j) == [x |-> x, j |-> j]
Jn(m, e)   == [m EXCEPT !.j = Append(@, e)]

\* createObject when getStateObject found nothing.  prev := getDeletedStateObject(addr): nil (neither in
\* stateObjects nor in the trie) -> createObjectChange;  a tombstone -> resetObjectChange{prev: tombstone}, so that
\* a revert puts the TOMBSTONE back (deleting the map entry instead would make the next lookup reload the
\* pre-destruction account from the trie).
NewObj(m, a) ==
    IF m.x.acct[a].tomb THEN Jn([m EXCEPT !.x.acct[a] = NewAcct], E("reset", a, 0, 0, m.x.acct[a]))
    ELSE Jn([m EXCEPT !.x.acct[a] = NewAcct], E("create", a, 0, 0, Absent))

\* GetOrNewStateObject
Ensure(m, a) == IF m.x.acct[a].ex THEN m ELSE NewObj(m, a)

\* journal.dirties: entry kinds whose dirtied() names the account (resetObjectChange, transient storage, access
\* list, refund, log, preimage entries return nil).  Finalize looks at dirty addresses only.
DirtyKinds == {"create", "suicide", "touch", "bal", "nonce", "code", "stor"}
Dirty(j, a) == \E i \in 1..Len(j) : j[i].a = a /\ j[i].t \in DirtyKinds

\* stateObject.SetBalance
SetBal(m, a, v) == Jn([m EXCEPT !.x.acct[a].bal = v], E("bal", a, 0, m.x.acct[a].bal, Absent))

\* StateDB.AddBalance -> stateObject.AddBalance (amount 0: touch if empty)
MAddBalance(m0, a, v) ==
    LET m == Ensure(m0, a) IN
    IF v = 0 THEN (IF IsEmpty(m.x.acct[a]) THEN Jn(m, E("touch", a, 0, 0, Absent)) ELSE m)
    ELSE SetBal(m, a, m.x.acct[a].bal + v)

\* StateDB.SubBalance -> stateObject.SubBalance (amount 0: nothing)
MSubBalance(m0, a, v) ==
    LET m == Ensure(m0, a) IN IF v = 0 THEN m ELSE SetBal(m, a, m.x.acct[a].bal - v)

MSetBalance(m0, a, v) == SetBal(Ensure(m0, a), a, v)

MSetNonce(m0, a, n) ==
    LET m == Ensure(m0, a) IN Jn([m EXCEPT !.x.acct[a].nonce = n], E("nonce", a, 0, m.x.acct[a].nonce, Absent))

MSetCode(m0, a, c) ==
    LET m == Ensure(m0, a) IN Jn([m EXCEPT !.x.acct[a].code = c], E("code", a, 0, m.x.acct[a].code, Absent))

\* StateDB.SetState -> stateObject.SetState (same value: no entry, but the account is created)
MSetState(m0, a, s, v) ==
    LET m == Ensure(m0, a) IN
    IF m.x.acct[a].stor[s] = v THEN m
    ELSE Jn([m EXCEPT !.x.acct[a].stor[s] = v], E("stor", a, s, m.x.acct[a].stor[s], Absent))

\* StateDB.SetTransientState
MSetTransient(m, a, s, v) ==
    IF m.x.tst[a][s] = v THEN m
    ELSE Jn([m EXCEPT !.x.tst[a][s] = v], E("tstor", a, s, m.x.tst[a][s], Absent))

\* StateDB.Suicide: marks, clears balance and the storage-size counter
MSuicide(m, a) ==
    IF ~m.x.acct[a].ex THEN m
    ELSE Jn([m EXCEPT !.x.acct[a].dead = TRUE, !.x.acct[a].bal = 0, !.x.acct[a].size = 0],
            E("suicide", a, 0, 0, m.x.acct[a]))

\* StateDB.CreateAccount -> createObject; an existing account keeps balance and size counter
MCreateAccount(m, a) ==
    IF ~m.x.acct[a].ex THEN NewObj(m, a)
    ELSE Jn([m EXCEPT !.x.acct[a] = [NewAcct EXCEPT !.bal = m.x.acct[a].bal, !.size = m.x.acct[a].size]],
            E("reset", a, 0, 0, m.x.acct[a]))

MAddLog(m, a)    == Jn([m EXCEPT !.x.logs = Append(@, a)], E("log", 0, 0, 0, Absent))
MSetRefund(m, v) == Jn([m EXCEPT !.x.refund = v], E("refund", 0, 0, m.x.refund, Absent))

MAddPreimage(m, p) ==
    IF m.x.preim[p] THEN m ELSE Jn([m EXCEPT !.x.preim[p] = TRUE], E("preim", p, 0, 0, Absent))

MAddAddrAL(m, a) ==
    IF m.x.alA[a] THEN m ELSE Jn([m EXCEPT !.x.alA[a] = TRUE], E("aladdr", a, 0, 0, Absent))

\* StateDB.AddSlotToAccessList: address entry first, then slot entry
MAddSlotAL(m0, a, s) ==
    LET m == MAddAddrAL(m0, a) IN
    IF m.x.alS[a][s] THEN m ELSE Jn([m EXCEPT !.x.alS[a][s] = TRUE], E("alslot", a, s, 0, Absent))

\* core.Transfer
MTransfer(m, from, to, v) == MAddBalance(MSubBalance(m, from, v), to, v)

----------------------------------------------------------------------------
\* what the property talks about: everything except gas
LockVisible == [a \in Addrs |-> HasLock[a] /\ ~ev.bdel[a]]
VisOf(x, e) == [st |-> x,
                etx |-> e.etx, ldh |-> e.ldh, ldm |-> e.ldm,
                lock |-> [a \in Addrs |-> HasLock[a] /\ ~e.bdel[a]]]
Vis == VisOf(st, ev)

\* compact, sparse encoding of the visible state for the replay driver / trace events (ints only):
\* A = accounts that differ from Genesis, T = non-zero transient slots, AA/AS = access-list members,
\* X = ETXCache, H = CoinbaseDeletedHashes, M = CoinbasesDeleted, D = lockups no longer visible
B(b) == IF b THEN 1 ELSE 0
FlatAcct(a, r) == <<a, B(r.ex), r.bal, r.nonce, r.code, r.size, B(r.dead)>> \o r.stor
Flat(v) == [A  |-> SelectSeq([a \in Addrs |-> FlatAcct(a, Shown(v.st.acct[a]))],
                            LAMBDA r : Shown(v.st.acct[r[1]]) # Shown(Genesis[r[1]])),
            R  |-> v.st.refund,
            L  |-> v.st.logs,
            P  |-> SelectSeq([p \in 1..1 |-> p], LAMBDA p : v.st.preim[p]),
            AA |-> SelectSeq([a \in Addrs |-> a], LAMBDA a : v.st.alA[a]),
            AS |-> SetToSeq({p \in Addrs \X Slots : v.st.alS[p[1]][p[2]]}),
            T  |-> SetToSeq({<<a, s, v.st.tst[a][s]>> : <<a, s>> \in {<<b, t>> \in Addrs \X Slots : v.st.tst[b][t] # 0}}),
            X  |-> v.etx, H |-> v.ldh,
            M  |-> SelectSeq([a \in Addrs |-> a], LAMBDA a : v.ldm[a]),
            D  |-> SelectSeq([a \in Addrs |-> a], LAMBDA a : HasLock[a] /\ ~v.lock[a])]

Depth == Len(revs)
Top   == revs[Len(revs)]
Self  == Top.ctx             \* address whose storage/balance the running frame acts on

Rec(op, a, s, v, id) == [op |-> op, a |-> a, s |-> s, v |-> v, id |-> id]

\* record the call, its specified result and the specified visible state after it
Log(rec, res) ==
    /\ obs'  = res
    /\ hist' = Append(hist, rec @@ [res |-> res, vis |-> Flat(Vis')])
    /\ step' = step + 1

\* a mutating call: machine m is the outcome
Mutate(m, rec, res) ==
    /\ cnt.mut < MaxMut /\ ~cnt.done
    /\ st' = m.x /\ jr' = m.j
    /\ cnt' = [cnt EXCEPT !.mut = @ + 1]
    /\ UNCHANGED <<ev, revs, nextId, saved>>
    /\ Log(rec, res)

M0 == Mach(st, jr)
On(k) == k \in Ops
\* tx = transaction/block boundaries passed;  done/failed/csoog describe the running transaction (EVM part)
Cnt0 == [mut |-> 0, snap |-> 0, created |-> 0, tx |-> 0, done |-> FALSE, failed |-> FALSE, csoog |-> FALSE]

----------------------------------------------------------------------------
Init ==
    /\ st = [acct   |-> Genesis,
             refund |-> 0,
             logs   |-> <<>>,
             alA    |-> [a \in Addrs |-> FALSE],
             alS    |-> [a \in Addrs |-> [s \in Slots |-> FALSE]],
             tst    |-> [a \in Addrs |-> ZeroStor],
             preim  |-> [p \in 1..1 |-> FALSE],
             pend   |-> [a \in Addrs |-> FALSE],      \* StateDB.stateObjectsPending: finalised, not yet written to the trie
             trie   |-> Genesis]                      \* the account trie (changes at BlockBoundary only)
    /\ ev = [etx |-> <<>>, ldh |-> <<>>, ldm |-> [a \in Addrs |-> FALSE], bdel |-> [a \in Addrs |-> FALSE]]
    /\ jr = <<>> /\ revs = <<>> /\ nextId = 0
    /\ saved = <<>>
    /\ cnt = Cnt0
    /\ step = 0 /\ obs = <<"init">> /\ hist = <<>>

\* ---------------- Part 1: the StateDB interface (level a) ----------------
AddBalance(a, v) == On("addbalance") /\ Mutate(MAddBalance(M0, a, v), Rec("addbalance", a, 0, v, 0), <<"ok">>)
SubBalance(a, v) == On("subbalance") /\ st.acct[a].bal >= v
                    /\ Mutate(MSubBalance(M0, a, v), Rec("subbalance", a, 0, v, 0), <<"ok">>)
SetBalance(a, v) == On("setbalance") /\ Mutate(MSetBalance(M0, a, v), Rec("setbalance", a, 0, v, 0), <<"ok">>)
SetNonce(a)      == On("setnonce") /\ Mutate(MSetNonce(M0, a, st.acct[a].nonce + 1),
                                             Rec("setnonce", a, 0, st.acct[a].nonce + 1, 0), <<"ok">>)
SetCode(a, c)    == On("setcode") /\ Mutate(MSetCode(M0, a, c), Rec("setcode", a, 0, c, 0), <<"ok">>)
SetState(a, s, v) == On("setstate") /\ Mutate(MSetState(M0, a, s, v), Rec("setstate", a, s, v, 0), <<"ok">>)
SetTransientState(a, s, v) ==
    On("settransient") /\ Mutate(MSetTransient(M0, a, s, v), Rec("settransient", a, s, v, 0), <<"ok">>)
Suicide(a)       == On("suicide") /\ Mutate(MSuicide(M0, a), Rec("suicide", a, 0, 0, 0), <<"bool", st.acct[a].ex>>)
CreateAccount(a) == On("createaccount") /\ st.acct[a].nonce = 0 /\ st.acct[a].code = 0   \* evm.create's collision check
                    /\ Mutate(MCreateAccount(M0, a), Rec("createaccount", a, 0, 0, 0), <<"ok">>)
AddLog(a)        == On("addlog") /\ Mutate(MAddLog(M0, a), Rec("addlog", a, 0, 0, 0), <<"ok">>)
AddRefund(v)     == On("addrefund") /\ Mutate(MSetRefund(M0, st.refund + v), Rec("addrefund", 0, 0, v, 0), <<"ok">>)
SubRefund(v)     == On("subrefund") /\ v <= st.refund        \* the Go code panics otherwise
                    /\ Mutate(MSetRefund(M0, st.refund - v), Rec("subrefund", 0, 0, v, 0), <<"ok">>)
AddPreimage(p)   == On("addpreimage") /\ Mutate(MAddPreimage(M0, p), Rec("addpreimage", p, 0, 0, 0), <<"ok">>)
AddAddressToAccessList(a) ==
    On("aladdr") /\ Mutate(MAddAddrAL(M0, a), Rec("aladdr", a, 0, 0, 0), <<"ok">>)
AddSlotToAccessList(a, s) ==
    On("alslot") /\ Mutate(MAddSlotAL(M0, a, s), Rec("alslot", a, s, 0, 0), <<"ok">>)

\* the frame record: StateDB revision + evmSnapshot (+ the staged batch deletions: intended)
Frame(kind, ctx) == [id |-> nextId, jlen |-> Len(jr), kind |-> kind, ctx |-> ctx,
                     etxlen |-> Len(ev.etx), ldhlen |-> Len(ev.ldh), ldm |-> ev.ldm, bdel |-> ev.bdel]

\* StateDB.Snapshot
Snapshot ==
    /\ On("snapshot") /\ ~cnt.done /\ cnt.snap < MaxSnap /\ Depth < MaxDepth
    /\ revs' = Append(revs, Frame("snap", 0))
    /\ saved' = Append(saved, Vis)                   \* saved[id + 1] = state at Snapshot(id)
    /\ nextId' = nextId + 1
    /\ cnt' = [cnt EXCEPT !.snap = @ + 1]
    /\ UNCHANGED <<st, ev, jr>>
    /\ Log(Rec("snapshot", 0, 0, 0, nextId), <<"id", nextId>>)

\* state after reverting to the frame at stack position i
RevertedSt(i) == Replay(st, jr, revs[i].jlen)
RevertedEv(i) == [etx  |-> SubSeq(ev.etx, 1, revs[i].etxlen),
                  ldh  |-> SubSeq(ev.ldh, 1, revs[i].ldhlen),
                  ldm  |-> revs[i].ldm,
                  bdel |-> revs[i].bdel]

\* StateDB.RevertToSnapshot(id): any live id, the ones above it die
RevertToSnapshot(i) ==
    /\ On("revert") /\ ~cnt.done /\ i \in 1..Len(revs)
    /\ st' = RevertedSt(i) /\ ev' = RevertedEv(i)
    /\ jr' = SubSeq(jr, 1, revs[i].jlen)
    /\ revs' = SubSeq(revs, 1, i - 1)
    /\ UNCHANGED <<nextId, saved, cnt>>
    /\ Log(Rec("revert", 0, 0, 0, revs[i].id), <<"ok">>)

\* ---------------- Part 2: EVM frames and in-frame operations (level b) ----------------
InFrame == Depth >= 1 /\ ~cnt.done

\* a machine step inside a frame that also changes the side lists
Exec(m, e, rec, res) ==
    /\ cnt.mut < MaxMut
    /\ st' = m.x /\ jr' = m.j /\ ev' = e
    /\ cnt' = [cnt EXCEPT !.mut = @ + 1]
    /\ UNCHANGED <<revs, nextId, saved>>
    /\ Log(rec, res)

\* opSstore
SStore(s, v) == On("sstore") /\ InFrame /\ Exec(MSetState(M0, Self, s, v), ev, Rec("sstore", Self, s, v, 0), <<"ok">>)
\* opTstore
TStore(s, v) == On("tstore") /\ InFrame /\ Exec(MSetTransient(M0, Self, s, v), ev, Rec("tstore", Self, s, v, 0), <<"ok">>)
\* makeLog
EmitLog      == On("log") /\ InFrame /\ Exec(MAddLog(M0, Self), ev, Rec("log", Self, 0, 0, 0), <<"ok">>)
\* opCall with value 1 to an account without code: evm.Call creates the account if needed, core.Transfer
Xfer(to) ==
    /\ On("xfer") /\ InFrame /\ to # Self /\ st.acct[Self].bal >= 1
    /\ st.acct[to].code = 0          \* (a frame contract qualifies once it is a tombstone: destroyed in an earlier transaction)
    /\ LET m1 == IF st.acct[to].ex THEN M0 ELSE MCreateAccount(M0, to)
       IN Exec(MTransfer(m1, Self, to, 1), ev, Rec("xfer", to, 0, 1, 0), <<"ok">>)
\* opETX: debit value+fee (1), append to ETXCache
Etx ==
    /\ On("etx") /\ InFrame /\ st.acct[Self].bal >= 1
    /\ Exec(MSubBalance(M0, Self, 1), [ev EXCEPT !.etx = Append(@, <<1, Self>>)], Rec("etx", Self, 0, 1, 0), <<"ok">>)
\* lockup precompile, ClaimCoinbaseLockup: owner = caller; stage the delete in evm.Batch, ETX, hash, map
Claim ==
    /\ On("claim") /\ InFrame /\ LockVisible[Self]
    /\ Exec(M0, [etx  |-> Append(ev.etx, <<2, Self>>),
                 ldh  |-> Append(ev.ldh, Self),
                 ldm  |-> [ev.ldm EXCEPT ![Self] = TRUE],
                 bdel |-> [ev.bdel EXCEPT ![Self] = TRUE]],
            Rec("claim", Self, 0, 0, 0), <<"ok">>)

\* entering a frame.  kind "call": evm.Call (snapshot, Transfer value);  "delegate": evm.DelegateCall
\* (snapshot, callee code runs on the caller's account);  "create": evm.create (caller nonce + 1, THEN
\* snapshot, CreateAccount, SetNonce(1), Transfer value).  Depth 0 -> 1 is the transaction's top call.
Push(kind, v) ==
    /\ On("push") /\ ~cnt.done /\ cnt.snap < MaxSnap /\ Depth < MaxDepth
    /\ Depth = 0 => (kind = "call" /\ v = 0)
    /\ Depth > 0 => st.acct[Self].bal >= v
    /\ kind = "delegate" => v = 0
    /\ kind = "create" => cnt.created < Len(NewAddrs)
    /\ kind # "create" => cnt.snap < Len(FrameAddr)
    /\ LET callee == FrameAddr[cnt.snap + 1]
           newa   == NewAddrs[cnt.created + 1]
           pre    == IF kind = "create" THEN MSetNonce(M0, Self, st.acct[Self].nonce + 1) ELSE M0
           ctx    == CASE kind = "call" -> callee [] kind = "delegate" -> Self [] kind = "create" -> newa
           fr     == [Frame(kind, ctx) EXCEPT !.jlen = Len(pre.j)]
           post   == CASE kind = "call"     -> (IF Depth = 0 THEN pre ELSE MTransfer(pre, Self, callee, v))
                       [] kind = "delegate" -> pre
                       [] kind = "create"   -> MTransfer(MSetNonce(MCreateAccount(pre, newa), newa, 1), Self, newa, v)
       IN /\ st' = post.x /\ jr' = post.j
          /\ revs' = Append(revs, fr)
          /\ saved' = Append(saved, VisOf(pre.x, ev))
          /\ nextId' = nextId + 1
          /\ cnt' = [cnt EXCEPT !.snap = @ + 1, !.created = IF kind = "create" THEN @ + 1 ELSE @]
          /\ UNCHANGED ev
          /\ Log(Rec("push", ctx, IF kind = "call" THEN 1 ELSE IF kind = "delegate" THEN 2 ELSE 3, v, nextId), <<"ok">>)

\* a transaction whose recipient is a Quai address in ANOTHER zone: the top-level evm.Call(origin, to, value 1) takes its
\* snapshot and goes straight to EVM.CreateETX (only the top-level call can: inside a frame gasCall refuses a foreign
\* address).  elig = the destination zone may receive ETXs (BlockContext.CheckIfEtxEligible).  When it may not,
\* CreateETX fails AFTER it has debited the origin and relies on evm.Call reverting to the snapshot: the failed
\* transaction leaves nothing behind.  One step = the whole transaction.
TopXCall(from, elig) ==
    /\ On("xcall") /\ Depth = 0 /\ ~cnt.done /\ cnt.snap = 0 /\ cnt.mut = 0 /\ st.acct[from].bal >= 1
    /\ cnt' = [cnt EXCEPT !.done = TRUE, !.mut = 1, !.snap = 1, !.failed = ~elig]
    /\ saved' = Append(saved, Vis) /\ nextId' = nextId + 1
    /\ LET m == IF elig THEN MSubBalance(M0, from, 1) ELSE M0 IN st' = m.x /\ jr' = m.j
    /\ ev' = IF elig THEN [ev EXCEPT !.etx = Append(@, <<1, from>>)] ELSE ev
    /\ UNCHANGED revs
    /\ Log(Rec("xcall", from, B(elig), 1, nextId), <<IF elig THEN "ok" ELSE "fail">>)

PopCommon(m, e, rec) ==
    /\ st' = m.x /\ jr' = m.j /\ ev' = e
    /\ revs' = SubSeq(revs, 1, Depth - 1)
    /\ UNCHANGED <<nextId, saved>>
    /\ Log(rec, <<"ok">>)

\* the frame ends normally (STOP; a create frame RETURNs one byte of code: SetCode)
PopOk ==
    /\ On("popok") /\ InFrame
    /\ cnt' = [cnt EXCEPT !.done = (Depth = 1)]
    /\ PopCommon(IF Top.kind = "create" THEN MSetCode(M0, Self, 3) ELSE M0, ev, Rec("popok", Self, 0, 0, Top.id))

\* opSuicide then halt: balance to the beneficiary, Suicide(self)
PopSuicide ==
    /\ On("popsuicide") /\ InFrame /\ Benef # Self /\ cnt.mut < MaxMut
    /\ cnt' = [cnt EXCEPT !.done = (Depth = 1), !.mut = @ + 1]
    /\ LET m1 == MSuicide(MAddBalance(M0, Benef, st.acct[Self].bal), Self)
       IN PopCommon(IF Top.kind = "create" THEN MSetCode(m1, Self, 0) ELSE m1, ev, Rec("popsuicide", Self, 0, 0, Top.id))

\* the frame ends in REVERT (why = 1), INVALID (2), out of gas (3), or - create frames only - cannot pay
\* for storing its code (4, ErrCodeStoreOutOfGas): evm.revertToSnapshot(snapshot)
PopAbort(why) ==
    /\ On("popabort") /\ InFrame
    /\ why = 4 => (Top.kind = "create" /\ ~cnt.failed)     \* harness gas regime, see journaldrv
    /\ why \in {2, 3} => ~cnt.csoog
    /\ cnt' = [cnt EXCEPT !.done = (Depth = 1),
                          !.failed = @ \/ why \in {2, 3},
                          !.csoog = @ \/ why = 4]
    /\ st' = RevertedSt(Depth) /\ ev' = RevertedEv(Depth)
    /\ jr' = SubSeq(jr, 1, Top.jlen)
    /\ revs' = SubSeq(revs, 1, Depth - 1)
    /\ UNCHANGED <<nextId, saved>>
    /\ Log(Rec("popabort", Self, 0, why, Top.id), <<"ok">>)

\* ---------------- Part 3: transaction and block boundaries ----------------
NoAL  == [a \in Addrs |-> FALSE]
NoALS == [a \in Addrs |-> [s \in Slots |-> FALSE]]
NoTst == [a \in Addrs |-> ZeroStor]

\* StateDB.Finalize(true), core/state/statedb.go: every DIRTY address (journal.dirties) whose object self-destructed or
\* is empty becomes a tombstone (obj.deleted = true; the object stays in stateObjects, the trie is not touched); the
\* dirty storage of the others moves to pendingStorage (no visible change); clearJournalAndRefund.
Finalized(x, j) ==
    [x EXCEPT !.acct = [a \in Addrs |->
                          IF x.acct[a].ex /\ Dirty(j, a) /\ (x.acct[a].dead \/ IsEmpty(x.acct[a])) THEN Tomb ELSE x.acct[a]],
              !.pend = [a \in Addrs |-> @[a] \/ Dirty(j, a)],
              !.refund = IF j # <<>> THEN 0 ELSE @]

\* between two transactions of a block, core/state_processor.go: applyTransaction ends with statedb.Finalize(true)
\* (a failed transaction: evm.UndoCoinbasesDeleted - nothing left to undo in the intended design, the failed top
\* frame restored the staged deletions); TransitionDb has drained evm.ETXCache into the result; the next
\* transaction starts with statedb.Prepare(hash, i) - fresh access list, fresh transient storage - and
\* evm.Reset -> ResetCoinbasesDeleted.  Logs and preimages stay (logs are kept per transaction hash), staged
\* batch deletions stay (block batch), nextRevisionId keeps counting, validRevisions is emptied: live snapshots die.
\* Journal level ("push" not in Ops): any time no frame is live;  EVM level: after the transaction's top frame ended.
BoundaryOk ==
    /\ cnt.tx < MaxTx
    /\ \A i \in 1..Len(revs) : revs[i].kind = "snap"
    /\ "push" \in Ops => cnt.done

AfterBoundary(x) ==
    /\ st' = [x EXCEPT !.alA = NoAL, !.alS = NoALS, !.tst = NoTst]
    /\ ev' = [ev EXCEPT !.etx = <<>>, !.ldh = <<>>, !.ldm = NoAL]
    /\ jr' = <<>> /\ revs' = <<>>
    /\ cnt' = [cnt EXCEPT !.tx = @ + 1, !.done = FALSE, !.failed = FALSE, !.csoog = FALSE]
    /\ UNCHANGED <<nextId, saved>>

TxBoundary ==
    /\ On("txend") /\ BoundaryOk
    /\ AfterBoundary(Finalized(st, jr))
    /\ Log(Rec("txend", 0, 0, 0, 0), <<"ok">>)

\* end of the block: StateDB.Commit(true) = Finalize(true) + IntermediateRoot + write-out.  IntermediateRoot walks
\* stateObjectsPending: a tombstone is deleted from the trie, a live object is written (updateTrie adjusts the
\* storage-size counter by the slots that became non-zero / zero relative to the object's committed storage); an
\* address that never was dirty at a Finalize of this block is NOT written (resetObjectChange does not dirty: an
\* object replaced by a bare CreateAccount and never touched again stays what it was in the trie).  The next block
\* opens a NEW StateDB at the committed root: every account is (re)loaded from the trie, tombstones are gone, logs /
\* preimages / refund start empty.
Card(S) == Cardinality(S)
Written(r) ==
    IF ~r.ex THEN Absent        \* tombstone (or nothing): deleteStateObject
    ELSE [r EXCEPT !.size = @ + Card({s \in Slots : r.cst[s] = 0 /\ r.stor[s] # 0})
                              - Card({s \in Slots : r.cst[s] # 0 /\ r.stor[s] = 0}),
                   !.cst = r.stor]
BlockBoundary ==
    /\ On("blockend") /\ BoundaryOk
    /\ LET f  == Finalized(st, jr)
           tr == [a \in Addrs |-> IF f.pend[a] THEN Written(f.acct[a]) ELSE f.trie[a]]
       IN AfterBoundary([f EXCEPT !.acct = tr, !.trie = tr, !.pend = NoAL,
                                  !.logs = <<>>, !.preim = [p \in 1..1 |-> FALSE]])
    /\ Log(Rec("blockend", 0, 0, 0, 0), <<"ok">>)

Next ==
    \/ TxBoundary \/ BlockBoundary
    \/ \E a \in Addrs :
         \/ \E v \in Amts : AddBalance(a, v) \/ SubBalance(a, v)
         \/ SetBalance(a, 0)
         \/ SetNonce(a) \/ SetCode(a, 2) \/ Suicide(a) \/ CreateAccount(a)
         \/ AddAddressToAccessList(a)
         \/ \E s \in Slots : AddSlotToAccessList(a, s)
         \/ \E s \in Slots, v \in Vals : SetState(a, s, v) \/ SetTransientState(a, s, v)
    \/ AddLog(1) \/ AddRefund(1) \/ SubRefund(1) \/ AddPreimage(1)
    \/ Snapshot
    \/ \E i \in 1..Len(revs) : RevertToSnapshot(i)
    \/ \E s \in Slots, v \in Vals : SStore(s, v) \/ TStore(s, v)
    \/ EmitLog \/ Etx \/ Claim
    \/ \E to \in XferTo : Xfer(to)
    \/ \E k \in {"call", "delegate", "create"}, v \in {0, 1} : Push(k, v)
    \/ PopOk \/ PopSuicide
    \/ \E from \in XferTo, elig \in BOOLEAN : TopXCall(from, elig)
    \/ \E w \in 1..4 : PopAbort(w)

Spec == Init /\ [][Next]_vars

----------------------------------------------------------------------------
\* Properties

TypeOK ==
    /\ \A a \in Addrs : st.acct[a].bal >= 0 /\ (~st.acct[a].ex => st.acct[a] \in {Absent, Tomb})
    /\ Len(saved) = nextId
    /\ \A i \in 1..Len(revs) : revs[i].jlen <= Len(jr) /\ revs[i].etxlen <= Len(ev.etx)
    /\ \A i \in 1..(Len(revs) - 1) : revs[i].id < revs[i + 1].id /\ revs[i].jlen <= revs[i + 1].jlen

\* the step just taken reverted to the snapshot with this id (0-based id -> saved[id + 1])
LastRec == hist'[Len(hist')]
IsRevertStep == step' = step + 1 /\ LastRec.op \in {"revert", "popabort"}
IsFailedXCall == step' = step + 1 /\ LastRec.op = "xcall" /\ LastRec.s = 0

\* C12: after a revert the visible state (everything except gas) is the one saved at the snapshot
RevertRestores == [][(IsRevertStep \/ IsFailedXCall) => Vis' = saved'[LastRec.id + 1]]_vars

\* C12, second sentence: a revert cuts exactly at the frame's entry - everything journaled before it
\* (ancestors and siblings that completed earlier) and every enclosing frame record is untouched
SiblingsUntouched ==
    [][IsRevertStep =>
        LET i == CHOOSE k \in 1..Len(revs) : revs[k].id = LastRec.id IN
        /\ jr' = SubSeq(jr, 1, revs[i].jlen)
        /\ revs' = SubSeq(revs, 1, i - 1)
        /\ saved' = saved
        /\ \A k \in 1..(i - 1) : Replay(st', jr', revs[k].jlen) = Replay(st, jr, revs[k].jlen)]_vars

\* at any time, undoing the journal down to a live snapshot yields the state saved there
\* (invariant form: the revert would restore, whenever it is requested)
AlwaysRevertible ==
    \A i \in 1..Len(revs) : VisOf(RevertedSt(i), RevertedEv(i)) = saved[revs[i].id + 1]

\* the access-list journal invariant quoted in journal.go: no slot without its address
AccessListWellFormed == \A a \in Addrs, s \in Slots : st.alS[a][s] => st.alA[a]

\* emit explored behaviours for replay on the implementation: every transition that is a revert / a failed
\* frame (with the history that led to it) and every end of a transaction.  The emitting configurations
\* do not use VIEW, so that behaviours that differ only in what was reverted earlier stay distinct.
EmitHist ==
    IF hist'[Len(hist')].op \in {"revert", "popabort"} \/ (cnt'.done /\ ~cnt.done)
    THEN PrintT("@@" \o ToJson(hist')) ELSE TRUE
\* multi-transaction universes: only behaviours that crossed a boundary (the others are emitted by EmitHist in
\* the single-transaction universes), plus every behaviour that ends with a boundary which nothing emitted can follow
EmitHistMT ==
    IF (cnt.tx > 0 /\ (hist'[Len(hist')].op \in {"revert", "popabort"} \/ (cnt'.done /\ ~cnt.done)))
       \/ (cnt'.tx > cnt.tx /\ (cnt'.tx = MaxTx \/ cnt.snap = MaxSnap))
       \* a call on a tombstone whose outcome shows in the return value only (such a step does not change the state,
       \* so under VIEW no emitted behaviour is guaranteed to pass through it)
       \/ (LastRec.op = "suicide" /\ st.acct[LastRec.a].tomb)
    THEN PrintT("@@" \o ToJson(hist')) ELSE TRUE
=============================================================================
