SPECIFICATION Spec
CONSTANTS
  EOAs <- E1
  Contracts <- K1
  InitBal <- BalSmall11
  InitWq <- Wq11
  InitLock <- Lock11
  LockVal = 2
  LowGas = 1
  GasUnit = 1
  MaxGasSteps = 2
  Prices <- P1
  IntrinsicGas = 2
  TxGas = 2
  Rent = 1
  MinConv = 2
  TxValues <- V0
  CallValues <- V0
  Regimes <- RAll
  Prefills <- PFEdge
  TxKinds <- TKCall
  OpKinds <- OKAll
  DestClasses <- DAll
  AmtClasses <- AAll
  GlClasses <- GAll
  FeeClasses <- FAll
  AlClasses <- ALAll
  FrameKinds <- FKOld
  CallTargets <- AnyAcct
  TxTargets <- AnyAcct
  Benefs <- AnyAcct
  WpOps <- WPNone
  MaxDepth = 1
  MaxFrameOps = 1
  MaxTx = 1
  UsedMode = "all"
  GrindFail = TRUE
VIEW view
INVARIANTS AllOrNothingStrict
CHECK_DEADLOCK FALSE
