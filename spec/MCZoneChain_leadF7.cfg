SPECIFICATION Spec
CONSTANTS
  Outs <- O1
  MaxBlocks = 3
  MaxHeight = 3
  TrimDepth = 2
  MaxSteps = 13
  WithCrash = FALSE
  HeadInBatch = TRUE
  CrashInHeadWindow = TRUE
  WithTamper = FALSE
  SpendTrimCandidate = TRUE
VIEW view
INVARIANTS CommitmentEqualsContent
CHECK_DEADLOCK FALSE
