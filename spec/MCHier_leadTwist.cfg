SPECIFICATION Spec
CONSTANTS
  MaxBlocks = 4
  GenesisExempt = TRUE
VIEW view
INVARIANTS NoTwist
CHECK_DEADLOCK FALSE
