-------------------------------- MODULE Hier --------------------------------
(***************************************************************************)
(* Hierarchical append of go-quai on the deployed topology (prime, one     *)
(* region, one zone): the three block trees, the cascade                   *)
(*   prime.Append -> region.Append(domOrigin) -> zone.Append(domOrigin),   *)
(* the TERMINI every level records per block and the "previous coincidence *)
(* reference check" (core/slice.go pcrc) that is meant to keep the three   *)
(* trees from twisting, and the MANIFESTS (core/headerchain.go             *)
(* CalculateManifest) a dominant block commits to.                          *)
(*                                                                         *)
(* A miner builds a block from three independently chosen heads            *)
(* (Slice.MakeFullPendingHeader(primePh, regionPh, zonePh)): zone parent   *)
(* zp, region parent rp, prime parent pp; the seal then decides the order  *)
(* (0 prime, 1 region, 2 zone).  A block of order o is appended at levels  *)
(* o..2, starting at level o:                                              *)
(*   level L reads the termini of the block's parent IN ITS OWN chain;     *)
(*   if the call comes from the dominant level (domOrigin) the parent's    *)
(*   dom terminus must be the terminus the dominant level passes down      *)
(*   (= the last block of this sub in the dominant parent's ancestry) -    *)
(*   unless the parent's dom terminus is the genesis block;                *)
(*   new termini = parent's, sub slot := this block (levels 0,1),          *)
(*   dom slot := this block if domOrigin (or prime) else inherited.        *)
(* The append is all or nothing: each level commits its batch only after   *)
(* the level below accepted.                                               *)
(***************************************************************************)
EXTENDS Integers, Sequences, FiniteSets, TLC, SequencesExt, Json

CONSTANTS MaxBlocks,     \* number of blocks besides genesis
          GenesisExempt  \* TRUE: as coded (no reference check while the parent's dom terminus is genesis)

Gen == 0
None == -1

VARIABLES blocks,   \* id -> [order, zp, rp, pp]
          inZ, inR, inP,    \* blocks appended at zone / region / prime level
          tz,       \* zone termini:   id -> [dom]
          tr,       \* region termini: id -> [dom, sub]
          tp,       \* prime termini:  id -> [sub]          (dom = the block itself)
          zman,     \* zone manifest:   id -> seq of ids
          rman,     \* region manifest: id -> seq of ids
          hist
vars == <<blocks, inZ, inR, inP, tz, tr, tp, zman, rman, hist>>
view == <<blocks, inZ, inR, inP, tz, tr, tp, zman, rman>>

Init == /\ blocks = (Gen :> [order |-> 0, zp |-> None, rp |-> None, pp |-> None])
        /\ inZ = {Gen} /\ inR = {Gen} /\ inP = {Gen}
        /\ tz = (Gen :> [dom |-> Gen])
        /\ tr = (Gen :> [dom |-> Gen, sub |-> Gen])
        /\ tp = (Gen :> [sub |-> Gen])
        /\ zman = (Gen :> <<Gen>>) /\ rman = (Gen :> <<Gen>>)
        /\ hist = <<>>

\* ---- pcrc per level (core/slice.go pcrc); dt = terminus handed down by the dominant level
RefOK(parentDom, dt) == (GenesisExempt /\ parentDom = Gen) \/ parentDom = dt

ZoneOK(zp, domOrigin, dt) == zp \in inZ /\ (domOrigin => RefOK(tz[zp].dom, dt))
RegionOK(rp, zp, domOrigin, dt) ==
    /\ rp \in inR /\ (domOrigin => RefOK(tr[rp].dom, dt))
    /\ ZoneOK(zp, TRUE, tr[rp].sub)
PrimeOK(pp, rp, zp) == pp \in inP /\ RegionOK(rp, zp, TRUE, tp[pp].sub)

Accepts(order, zp, rp, pp) ==
    CASE order = 2 -> ZoneOK(zp, FALSE, None)
      [] order = 1 -> RegionOK(rp, zp, FALSE, None)
      [] order = 0 -> PrimeOK(pp, rp, zp)

\* reason of the refusal, in the order the cascade meets them (prime pcrc, region pcrc, zone pcrc)
Verdict(order, zp, rp, pp) ==
    IF Accepts(order, zp, rp, pp) THEN "ok"
    ELSE IF order = 0 /\ ~RefOK(tr[rp].dom, tp[pp].sub) THEN "region-terminus"
    ELSE "zone-terminus"

Mine(order, zp, rp, pp) ==
    LET id == Cardinality(DOMAIN blocks)
        ok == Accepts(order, zp, rp, pp)
        coincident == order <= 1
        nz == [dom |-> IF coincident THEN id ELSE tz[zp].dom]
        nr == [dom |-> IF order = 0 THEN id ELSE tr[rp].dom, sub |-> id]
        mz == IF coincident THEN <<id>> ELSE Append(zman[zp], id)
        mr == IF order = 0 THEN <<id>> ELSE Append(rman[rp], id)
    IN
    /\ id <= MaxBlocks
    /\ blocks' = blocks @@ (id :> [order |-> order, zp |-> zp, rp |-> rp, pp |-> pp])
    /\ IF ok THEN
          /\ inZ' = inZ \cup {id} /\ tz' = tz @@ (id :> nz) /\ zman' = zman @@ (id :> mz)
          /\ IF order <= 1 THEN inR' = inR \cup {id} /\ tr' = tr @@ (id :> nr) /\ rman' = rman @@ (id :> mr)
                           ELSE UNCHANGED <<inR, tr, rman>>
          /\ IF order = 0 THEN inP' = inP \cup {id} /\ tp' = tp @@ (id :> [sub |-> id])
                          ELSE UNCHANGED <<inP, tp>>
       ELSE UNCHANGED <<inZ, inR, inP, tz, tr, tp, zman, rman>>
    /\ hist' = Append(hist, [op |-> "mine", b |-> id, order |-> order, zp |-> zp, rp |-> rp, pp |-> pp,
                              verdict |-> Verdict(order, zp, rp, pp),
                              tzdom |-> IF ok THEN nz.dom ELSE None,
                              trdom |-> IF ok /\ order <= 1 THEN nr.dom ELSE None,
                              zman |-> IF ok THEN mz ELSE <<>>,
                              \* the sub manifest the region view of the block commits to / the prime view commits to
                              submanR |-> IF ok /\ order <= 1 THEN zman[zp] ELSE <<>>,
                              submanP |-> IF ok /\ order = 0 THEN rman[rp] ELSE <<>>])

Next == \E order \in 0..2, zp \in inZ :
           \E rp \in (IF order <= 1 THEN inR ELSE {None}), pp \in (IF order = 0 THEN inP ELSE {None}) :
               Mine(order, zp, rp, pp)
Spec == Init /\ [][Next]_vars

----------------------------------------------------------------------------
RECURSIVE ZAnc(_), RAnc(_), PAnc(_)
ZAnc(b) == IF b = Gen THEN {Gen} ELSE {b} \cup ZAnc(blocks[b].zp)     \* ancestors-or-self along the zone chain
RAnc(b) == IF b = Gen THEN {Gen} ELSE {b} \cup RAnc(blocks[b].rp)     \* along the region chain (b region-coincident)
PAnc(b) == IF b = Gen THEN {Gen} ELSE {b} \cup PAnc(blocks[b].pp)

\* what the termini are FOR: the nearest coincident ancestor-or-self in the block's own chain
RECURSIVE NearestRC(_), NearestPC(_)
NearestRC(b) == IF b = Gen \/ blocks[b].order <= 1 THEN b ELSE NearestRC(blocks[b].zp)
NearestPC(b) == IF b = Gen \/ blocks[b].order = 0 THEN b ELSE NearestPC(blocks[b].rp)
TerminiAreNearestCoincident ==
    /\ \A b \in inZ : tz[b].dom = NearestRC(b)
    /\ \A b \in inR : tr[b].dom = NearestPC(b) /\ tr[b].sub = b
    /\ \A b \in inP : tp[b].sub = b

\* manifests: the blocks since (and including, at zone level) the previous coincident block, in chain order
ManifestsChainSegments ==
    /\ \A b \in inZ : LET m == zman[b] IN
          /\ m[Len(m)] = b /\ m[1] = NearestRC(b)
          /\ \A i \in 2..Len(m) : blocks[m[i]].zp = m[i-1] /\ blocks[m[i]].order = 2
    /\ \A b \in inR : LET m == rman[b] IN
          /\ m[Len(m)] = b /\ m[1] = NearestPC(b)
          /\ \A i \in 2..Len(m) : blocks[m[i]].rp = m[i-1] /\ blocks[m[i]].order = 1

\* the point of the reference check: the trees do not twist - the region ancestry of a block is part of its
\* zone ancestry and the prime ancestry part of its region ancestry (every dominant ancestor is an own ancestor)
NoTwist ==
    /\ \A b \in inR : RAnc(b) \subseteq ZAnc(b)
    /\ \A b \in inP : PAnc(b) \subseteq RAnc(b)
\* what the reference check guarantees as coded (GenesisExempt): away from genesis the dominant parent of an accepted
\* coincident block IS the nearest coincident ancestor of its own-chain parent; twists can only enter through a parent
\* whose dom terminus is still the genesis block (MCHier_leadTwist.cfg: TLC must find one - kept as a lead)
RefLocal ==
    /\ \A b \in inR \ {Gen} : tz[blocks[b].zp].dom # Gen => blocks[b].rp = NearestRC(blocks[b].zp)
    /\ \A b \in inP \ {Gen} : tr[blocks[b].rp].dom # Gen => blocks[b].pp = NearestPC(blocks[b].rp)

\* all or nothing
AppendedDownwards == inP \subseteq inR /\ inR \subseteq inZ

EmitHist == PrintT("@@" \o ToJson(hist'))
=============================================================================
