SPECIFICATION Spec
CONSTANTS
  Outs <- O2
  MaxBlocks = 2
  MaxHeight = 3
  TrimDepth = 2
  MaxSteps = 10
  WithCrash = FALSE
  HeadInBatch = TRUE
  CrashInHeadWindow = TRUE
  WithTamper = TRUE
  SpendTrimCandidate = FALSE
VIEW view
INVARIANTS TamperedRejected TypeOK ReorgEqualsFreshReplay CommitmentEqualsContent Recoverable SpentAtMostOnce
PROPERTIES RejectIsNoOp
CHECK_DEADLOCK FALSE
