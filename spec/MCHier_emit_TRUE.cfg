SPECIFICATION Spec
CONSTANTS
  MaxBlocks = 3
  GenesisExempt = TRUE
VIEW view
ACTION_CONSTRAINT EmitHist
INVARIANTS TerminiAreNearestCoincident ManifestsChainSegments AppendedDownwards RefLocal
CHECK_DEADLOCK FALSE
