SPECIFICATION Spec
CONSTANTS
  NSym = 3
  Keys <- KAll2
  Vals <- V1
  CheckKeys <- CA
  MaxOps = 5
  Ops <- OpsAll
  KeepHist = FALSE
VIEW view
INVARIANTS TypeOK Canonical GetMatchesContent OtherCanonical CommitReloadPreserves ProofComplete AbsenceProvable EmptyTrieHasNoProof ProofSound CorruptedProofRejectedOrSameValue StackTrieEqualsTrie
CHECK_DEADLOCK FALSE
