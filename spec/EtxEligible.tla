----------------------------- MODULE EtxEligible -----------------------------
(***************************************************************************)
(* Which slices may receive cross-chain transactions: the 256-bit          *)
(* "ETX eligible slices" field of a header, one bit per location           *)
(* (core/headerchain.go UpdateEtxEligibleSlices: the bit of a location is  *)
(* set once that chain is past its start-up period and cleared before;     *)
(* CheckIfEtxIsEligible: emission towards a location is allowed iff its    *)
(* bit is set - used by the EVM, the worker and the state processor).      *)
(* The field is modelled as the SET of locations whose chain has started.  *)
(* Part of C04 ("none is ... delivered to another zone"): an ETX can only  *)
(* be emitted towards a chain that exists, and updating one location never *)
(* changes the eligibility of another.                                     *)
(***************************************************************************)
EXTENDS Integers, Sequences, FiniteSets, TLC, Json, SequencesExt

CONSTANTS ELocs, MaxOps
VARIABLES started,  \* location -> its chain is past the start-up period according to the last update
          bits,     \* the header field: set of bit positions that are 1
          nops, hist
vars == <<started, bits, nops, hist>>
view == <<started, bits, nops>>

Pos(loc) == loc[1] * 16 + loc[2]
Sorted(S) == SetToSortSeq(S, <)

Init == started = [l \in ELocs |-> FALSE] /\ bits = {} /\ nops = 0 /\ hist = <<>>

\* UpdateEtxEligibleSlices(header with field = bits, location): on = header.Number(zone) > params.TimeToStartTx
Update(loc, on) ==
    /\ started' = [started EXCEPT ![loc] = on]
    /\ bits' = IF on THEN bits \cup {Pos(loc)} ELSE bits \ {Pos(loc)}
    /\ hist' = Append(hist, [op |-> "update", loc |-> loc, on |-> on, res |-> Sorted(bits')])
\* CheckIfEtxIsEligible(field, to)
Check(loc) ==
    /\ UNCHANGED <<started, bits>>
    /\ hist' = Append(hist, [op |-> "check", loc |-> loc, on |-> FALSE, res |-> IF Pos(loc) \in bits THEN <<1>> ELSE <<0>>])

Next == /\ nops < MaxOps /\ nops' = nops + 1
        /\ \E loc \in ELocs : Check(loc) \/ \E on \in BOOLEAN : Update(loc, on)
Spec == Init /\ [][Next]_vars

\* a location is eligible exactly when its own chain has started - whatever was done for other locations
EligibleIffStarted == \A l \in ELocs : (Pos(l) \in bits) = started[l]
NoAliasing == \A a, b \in ELocs : a # b => Pos(a) # Pos(b)
NothingElseSet == bits \subseteq {Pos(l) : l \in ELocs}

EmitHist == nops' = MaxOps => PrintT("@@" \o ToJson(hist'))
=============================================================================
