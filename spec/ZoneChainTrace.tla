--------------------------- MODULE ZoneChainTrace ---------------------------
(***************************************************************************)
(* Trace validation for ZoneChain.tla.  harness/cmd/chaindrv drives the    *)
(* real prime/region/zone node and logs, after every mined block and every *)
(* head switch, a full scan of the zone database ('ut' and 'cl' records as *)
(* abstract entry ids), canonical index, head pointers and whether the     *)
(* head's header commitments equal a from-scratch recomputation over the   *)
(* scanned records.  Each event is the ZoneChain action of that name; the  *)
(* primitive database writes in between are silent steps of the spec.  At  *)
(* every event the logged database image must equal the specification's.   *)
(***************************************************************************)
EXTENDS ZoneChain, FiniteSetsExt

Trace == ndJsonDeserialize("zctrace.ndjson")

TraceOuts == 1..Max({0} \cup UNION {ToSet(Trace[i].utxo) : i \in DOMAIN Trace}
                        \cup UNION {IF Trace[i].op = "mine" THEN ToSet(Trace[i].cr) ELSE {} : i \in DOMAIN Trace})
TraceMaxHeight == Len(Trace) + 2

VARIABLES l,        \* next trace line
          pending,  \* the event whose primitive writes are being executed ("none" when idle)
          mismatch  \* first disagreement between the logged database image and the specification

tvars == <<vars, l, pending, mismatch>>

TraceInit == Init /\ l = 1 /\ pending = <<>> /\ mismatch = <<>> /\ TLCSet(1, 1)

Ev == Trace[l]

\* compare the logged image with the specification's database state
Disagreement(e) ==
    IF ToSet(e.utxo) # dbUtxo THEN <<"utxo", ToSet(e.utxo) \ dbUtxo, dbUtxo \ ToSet(e.utxo)>>
    ELSE IF e.head # dbHead THEN <<"head", e.head, dbHead>>
    ELSE IF e.mem_head # cur THEN <<"memhead", e.mem_head, cur>>
    ELSE IF \E i \in DOMAIN e.canon : e.canon[i] # dbCanon[i - 1] THEN <<"canon", e.canon>>
    ELSE IF e.canon_above_head # 0 /\ ~crashedEver THEN <<"canon-above-head", e.canon_above_head>>
    ELSE IF ~e.root_ok THEN <<"utxo-root-differs-from-recomputation">>
    ELSE IF ~e.size_ok THEN <<"utxo-set-size-differs-from-count">>
    ELSE <<>>

\* start of an event: the miner's block enters the tree, then the node switches to it
BeginMine ==
    /\ l <= Len(Trace) /\ pending = <<>> /\ Ev.op = "mine" /\ Idle
    /\ Ev.b = Cardinality(Ids)
    /\ cur = Ev.p                       \* the driver always extends the current head
    /\ blocks' = blocks @@ (Ev.b :> [parent |-> Ev.p, height |-> Ev.h, spent |-> ToSet(Ev.sp),
                                     created |-> ToSet(Ev.cr), trimmable |-> ToSet(Ev.tm), honest |-> TRUE])
    /\ todo' = << <<"canon", Ev.b>>, <<"batch", Ev.b>>, <<"head", Ev.b>> >> /\ aborted' = FALSE
    /\ pending' = <<"mine">>
    /\ UNCHANGED <<dbUtxo, dbCanon, dbHead, dbUndo, dbMu, dbSize, cur, interrupted, crashedEver, steps, hist, l, mismatch>>

BeginSetHead ==
    /\ l <= Len(Trace) /\ pending = <<>> /\ Ev.op = "sethead" /\ Idle
    /\ IF Ev.b = cur THEN todo' = <<>>
       ELSE todo' = RollbackOps(cur, CommonAncestor(cur, Ev.b)) \o ForwardOps(Ev.b, CommonAncestor(cur, Ev.b))
    /\ aborted' = FALSE
    /\ pending' = <<"sethead">>
    /\ UNCHANGED <<blocks, dbUtxo, dbCanon, dbHead, dbUndo, dbMu, dbSize, cur, interrupted, crashedEver, steps, hist, l, mismatch>>

\* an adversarial, re-sealed copy of block Ev.of is offered while its parent is head (C07)
BeginTamper ==
    /\ l <= Len(Trace) /\ pending = <<>> /\ Ev.op = "tamper" /\ Idle
    /\ Ev.b = Cardinality(Ids)
    /\ cur = blocks[Ev.of].parent
    /\ blocks' = blocks @@ (Ev.b :> [blocks[Ev.of] EXCEPT !.honest = FALSE])
    /\ todo' = << <<"canon", Ev.b>>, <<"batch", Ev.b>>, <<"head", Ev.b>> >> /\ aborted' = FALSE
    /\ pending' = <<"tamper">>
    /\ UNCHANGED <<dbUtxo, dbCanon, dbHead, dbUndo, dbMu, dbSize, cur, interrupted, crashedEver, steps, hist, l, mismatch>>

\* silent primitive writes (the spec's own actions, unchanged)
Silent ==
    /\ pending # <<>> /\ todo # <<>>
    /\ (WCanon \/ WBatch \/ WHead \/ WRollback)
    /\ UNCHANGED <<l, pending, mismatch>>

\* end of the event: everything written; compare images
EndEvent ==
    /\ pending # <<>> /\ todo = <<>>
    /\ mismatch' = IF mismatch # <<>> THEN mismatch
                   ELSE IF pending[1] = "mine" /\ ToSet(Ev.tr) # dbUndo[Ev.b].trimmed
                        THEN <<l, "trimmed", ToSet(Ev.tr), dbUndo[Ev.b].trimmed>>
                   ELSE IF pending[1] = "tamper" /\ Ev.accepted THEN <<l, "tampered-block-accepted", Ev.mutation>>
                   ELSE IF pending[1] = "tamper" /\ ~Ev.image_unchanged THEN <<l, "rejected-block-left-trace", Ev.mutation>>
                   ELSE IF Disagreement(Ev) # <<>> THEN <<l>> \o Disagreement(Ev) ELSE <<>>
    /\ pending' = <<>> /\ l' = l + 1
    /\ UNCHANGED vars

TraceNext == BeginMine \/ BeginSetHead \/ BeginTamper \/ Silent \/ EndEvent
TraceSpec == TraceInit /\ [][TraceNext]_tvars

\* the implementation's database image equals the specification's after every event (C06, C10)
ImageConforms == mismatch = <<>>
\* an accepted block never aborts in the specification (its inputs existed): C01/C07 side condition
AcceptedBlocksValid == (pending # <<>> /\ pending[1] = "mine") => ~aborted

HighWater == TLCSet(1, IF TLCGet(1) < l THEN l ELSE TLCGet(1))
TraceAccepted == TLCGet(1) = Len(Trace) + 1
=============================================================================
