----------------------------- MODULE EvmValue -----------------------------
(***************************************************************************)
(* Value flow of the go-quai EVM state transition (Quai ledger).           *)
(*                                                                         *)
(* Decides C02 (executing a transaction never creates value) and C05       *)
(* (sending value off-chain is all-or-nothing at the origin).              *)
(*                                                                         *)
(* Anchors: core/state_transition.go (preCheck, buyGas, TransitionDb,      *)
(* refundGas), core/evm.go (CanTransfer, Transfer), core/vm/evm.go (Call,  *)
(* CallCode, DelegateCall, StaticCall, create, Create2, CreateETX,         *)
(* snapshot/revertToSnapshot), core/vm/interpreter.go (readOnly: write     *)
(* protection), core/vm/instructions.go (opCall, opCallCode,               *)
(* opDelegateCall, opStaticCall, opCreate, opCreate2, opSuicide, opETX,    *)
(* opConvert), core/vm/contracts.go                                        *)
(* (RunLockupContract, UnwrapQi, ClaimCoinbaseLockup),                     *)
(* core/state_processor.go (ApplyTransaction, applyTransaction,            *)
(* prepareApplyETX).                                                       *)
(*                                                                         *)
(* All quantities are plain integers in the unit the implementation uses   *)
(* (wei, gas); design-level configurations instantiate them with small     *)
(* numbers (gas limit 1..6 steps, price 1..2), conformance configurations  *)
(* with the real protocol numbers, so that the Go driver uses every number *)
(* of a behaviour verbatim.  MAXU stands for 2^256-1.                       *)
(*                                                                         *)
(* The off-chain send operations are modelled as multi-step sequences in   *)
(* the order of the code, one action per check / effect / early exit.      *)
(* Where the code leaves the all-or-nothing discipline the exit is a named *)
(* deviation action (XXX_FailAfterDebit_*, ETX_Ineligible_NoPush,          *)
(* PreFork_WrapDebit, Create_CodeStoreOOG_NotReverted); invariants name    *)
(* exactly those exits, so any other departure is a violation.             *)
(***************************************************************************)
EXTENDS Integers, Sequences, FiniteSets, TLC, Json

CONSTANTS
    EOAs,          \* externally owned accounts (fee payers)
    Contracts,     \* accounts hosting code
    InitBal,       \* initial balance per account
    InitWq,        \* Acct -> initial wrapped-Qi balance owned through the lockup contract's storage
    InitLock,      \* Acct -> initial coinbase-lockup record owned: "none" | "locked" | "unlocked"
    LockVal,       \* value of a coinbase-lockup record
    LowGas,        \* a gas limit below the intrinsic gas
    GasUnit,       \* gas limits are GasUnit * (2..MaxGasSteps) (and LowGas)
    MaxGasSteps,
    Prices,        \* gas prices
    IntrinsicGas,  \* lower bound of the gas used by an included transaction
    TxGas,         \* params.TxGas = minimum gas limit of an ETX
    Rent,          \* BaseFee * CallNewAccountGas: state-rent refund on self-destruct
    MinConv,       \* params.MinQuaiConversionAmount
    TxValues,      \* values carried by transactions / inbound ETXs
    CallValues,    \* values carried by CALL / CREATE
    Regimes,       \* fork regimes (see below)
    Prefills,      \* number of entries already in the ETX cache when the tx starts
    TxKinds,       \* subset of {"call","create","sdata","kquai","xsend","inbound","pbad"} (pbad: value call to the precompile with malformed input)
    OpKinds,       \* subset of {"ETX","CONVERT","XCALL","UNWRAP","CLAIM"}
    DestClasses, AmtClasses, GlClasses, FeeClasses, AlClasses,
    FrameKinds,    \* subset of {"call","delegate","callcode","static","create","create2","pcall"}: frame-entering instructions (pcall: CALL to the precompile)
    CallTargets,   \* targets of CALL / DELEGATECALL / CALLCODE / STATICCALL inside frames ({} stands for every account)
    TxTargets,     \* recipients of transactions / inbound ETXs ({} stands for every account)
    Benefs,        \* beneficiaries of SELFDESTRUCT ({} stands for every account)
    WpOps,         \* state-modifying instructions attempted inside a read-only (STATICCALL) context
    MaxDepth,      \* call depth bound
    MaxFrameOps,   \* operations per frame bound
    MaxTx,         \* transactions per behaviour
    UsedMode,      \* "all": every gasUsed in IntrinsicGas..limit ; "one": a single representative
    GrindFail      \* BOOLEAN: contract creations may fail to find an address in this zone

MAXU == -1   \* 2^256 - 1
BIG  == -2   \* a number above every balance but far below 2^256 (2^64 * fee rate)

\* zero address, fresh address, address created by CREATE / CREATE2, kQuai setting address, a precompiled contract of
\* this zone (bn256ScalarMul: fails on a point off the curve and on less than 6000 gas); "P" holds a balance from the start
\* (the account exists) and is a target only where a universe names it
Special == {"Z", "F", "N", "Q", "P"}
Acct == EOAs \cup Contracts \cup Special
AllButN == Acct \ {"N", "P"}
CallTargetSet == IF CallTargets = {} THEN AllButN ELSE CallTargets
TxTargetSet   == IF TxTargets = {} THEN AllButN ELSE TxTargets
BenefSet      == IF Benefs = {} THEN AllButN ELSE Benefs
AllWpOps == {"call", "create", "create2", "sd", "ETX", "CONVERT", "sstore", "log"}

\* ---- fork regimes, by prime terminus number
\*  "A" < ControllerKickInBlock ; "B" conversions allowed ; "C" KawPowForkBlock hold interval (as "A") ; "D" after it
\*  (as "B") ; "E" ShaEquivalentDifficultyForkBlock hold interval ; "F" after it ; "G" >= SelfDestructRefundForkBlock
ConvAllowed(r)  == r \in {"B", "D", "F", "G"}
LockupRevert(r) == r \in {"E", "F", "G"}
PostSD(r)       == r = "G"

\* ---- destination classes of an off-chain send
\* "inscope"  Quai address of this zone        "qiown"   Qi address of this zone
\* "elig"     Quai address, eligible zone      "inelig"  Quai address, zone not eligible
\* "qiother"  Qi address of another zone
InChainScope(d) == d \in {"inscope", "qiown"}
\* eligibility is a property of the destination ZONE only: opETX (unlike CreateETX) does not look at the ledger bit, so
\* a Qi address of an eligible zone is accepted as destination of a Quai ETX
ZoneEligible(d) == d \in {"elig", "qiother"}
IsQi(d)         == d \in {"qiown", "qiother"}

VARIABLES
    bal,       \* Acct -> Int
    code,      \* Acct -> "none" | "host" | "stop"
    ncreated,  \* the CREATE address is taken
    sui,       \* accounts self-destructed in the running transaction
    wq,        \* Acct -> wrapped Qi balance held in the lockup contract
    lock,      \* Acct -> "none" | "locked" | "unlocked"
    tx,        \* transaction context
    frames,    \* call stack: sequence of frame records (bottom first)
    etx,       \* EVM.ETXCache of the running transaction (without the prefill)
    op,        \* off-chain send operation in progress
    gh,        \* ghost accounting [sum0, gas, out, credits, burnt, held]
    devs,      \* named deviations taken by the running transaction
    blockOut,  \* outbound ETXs committed by receipts so far
    survAll,   \* ETXs recorded by successful, non-reverted operations whose effects were kept
    bdevs,     \* deviations that affected the outbound list of the block
    ntx, step, obs, hist

vars == <<bal, code, ncreated, sui, wq, lock, tx, frames, etx, op, gh, devs, blockOut, survAll, bdevs, ntx, step, obs, hist>>
view == <<bal, code, ncreated, sui, wq, lock, tx, frames, etx, op, gh, devs, blockOut, survAll, bdevs, ntx>>

NoOp == [kind |-> "none"]
Idle == [phase |-> "idle"]

RECURSIVE SumOver(_, _)
SumOver(f, S) == IF S = {} THEN 0 ELSE LET a == CHOOSE x \in S : TRUE IN f[a] + SumOver(f, S \ {a})
Total(b) == SumOver(b, Acct)

RECURSIVE SeqSum(_)
SeqSum(s) == IF s = <<>> THEN 0 ELSE Head(s) + SeqSum(Tail(s))

GasLimits == {LowGas} \cup {k * GasUnit : k \in 2..MaxGasSteps}

\* observation of one step: everything the driver can read from the real state at that point
MkObs(b, ne, w, lk, st, pu, ex) ==
    [bal |-> b, netx |-> ne, wq |-> w, lk |-> lk, st |-> st, pu |-> pu, ex |-> ex]

Log(rec, o, cmp) ==
    /\ obs'  = o
    /\ hist' = Append(hist, rec @@ [obs |-> o, cmp |-> cmp])
    /\ step' = step + 1

Silent == UNCHANGED <<obs, hist>> /\ step' = step + 1

Rec(a, x, y, v, g, p, c) == [a |-> a, x |-> x, y |-> y, v |-> v, g |-> g, p |-> p, c |-> c]
NoC == [k |-> "-"]

\* state before a transaction, carried by its first record (the driver builds the real pre-state from it)
PreState == [bal |-> bal, wq |-> wq, lk |-> lock, lockval |-> LockVal]

Prefill == IF tx.phase = "idle" THEN 0 ELSE tx.prefill
NEtx(e) == Len(e) + Prefill

----------------------------------------------------------------------------
Init ==
    /\ bal = InitBal
    /\ code = [a \in Acct |-> IF a \in Contracts THEN "host" ELSE "none"]
    /\ ncreated = FALSE
    /\ sui = {}
    /\ wq = InitWq
    /\ lock = InitLock
    /\ tx = Idle
    /\ frames = <<>>
    /\ etx = <<>>
    /\ op = NoOp
    /\ gh = [sum0 |-> Total(InitBal), gas |-> 0, out |-> 0, credits |-> 0, burnt |-> 0, held |-> 0]
    /\ devs = {}
    /\ blockOut = <<>>
    /\ survAll = <<>>
    /\ bdevs = {}
    /\ ntx = 0 /\ step = 0
    /\ obs = MkObs(InitBal, 0, InitWq, InitLock, -1, -1, "init")
    /\ hist = <<>>

----------------------------------------------------------------------------
\* Transaction start.  core/state_transition.go preCheck + buyGas + intrinsic gas + "clause 6".
\* A rejected transaction is a consensus error: the caller discards the state (core/worker.go reverts to
\* its snapshot), so nothing changes.
TxBegin(payer, kind, to, v, g, p, rg, pf) ==
    /\ tx.phase = "idle" /\ ntx < MaxTx
    /\ kind \in TxKinds \ {"inbound"}
    /\ IF kind = "kquai" THEN payer = "Q" ELSE payer \in EOAs
    /\ LET ok == bal[payer] >= g * p + v /\ g >= IntrinsicGas
           rec == Rec("txbegin", payer, to, v, g, p, [k |-> kind, rg |-> rg, pf |-> pf]) @@ [pre |-> PreState]
       IN  IF ok
           THEN /\ bal' = [bal EXCEPT ![payer] = @ - g * p]             \* buyGas
                /\ tx' = [phase |-> "begun", kind |-> kind, payer |-> payer, to |-> to, v |-> v, g |-> g, p |-> p,
                          rg |-> rg, prefill |-> pf, bal0 |-> bal, status |-> "none", hard |-> FALSE, zprev |-> 0]
                /\ gh' = [sum0 |-> Total(bal), gas |-> g * p, out |-> 0, credits |-> 0, burnt |-> 0, held |-> 0]
                /\ devs' = {}
                /\ ntx' = ntx + 1
                /\ Log(rec @@ [res |-> "ok"], MkObs(bal', pf, wq, lock, -1, -1, "ok"), 0)
           ELSE /\ UNCHANGED <<bal, tx, gh, devs>>
                /\ ntx' = ntx + 1
                /\ Log(rec @@ [res |-> "reject"], MkObs(bal, 0, wq, lock, -1, -1, "reject"), 1)
    /\ UNCHANGED <<code, ncreated, sui, wq, lock, frames, etx, op, blockOut, survAll, bdevs>>

\* Inbound cross-chain transaction: core/state_processor.go ApplyTransaction -> prepareApplyETX: the value is
\* placed on the zero address, which then acts as the sender.  The ETX pays no gas (subGasETX).
EtxStage(to, v, glc, rg, pf) ==
    /\ tx.phase = "idle" /\ ntx < MaxTx /\ "inbound" \in TxKinds
    /\ bal' = [bal EXCEPT !["Z"] = v]
    /\ tx' = [phase |-> "begun", kind |-> "inbound", payer |-> "Z", to |-> to, v |-> v, g |-> 0, p |-> 0,
              rg |-> rg, prefill |-> pf, bal0 |-> bal, status |-> "none", hard |-> FALSE, zprev |-> bal["Z"],
              glc |-> glc]
    /\ gh' = [sum0 |-> Total(bal), gas |-> 0, out |-> 0, credits |-> v, burnt |-> 0, held |-> bal["Z"]]
    /\ devs' = {}
    /\ ntx' = ntx + 1
    /\ Log(Rec("etxstage", "Z", to, v, 0, 0, [k |-> "inbound", rg |-> rg, pf |-> pf, glc |-> glc]) @@ [res |-> "ok", pre |-> PreState],
           MkObs(bal', pf, wq, lock, -1, -1, "ok"), 0)
    /\ UNCHANGED <<code, ncreated, sui, wq, lock, frames, etx, op, blockOut, survAll, bdevs>>

Snap == [bal |-> bal, code |-> code, ncreated |-> ncreated, sui |-> sui, wq |-> wq, netx |-> Len(etx),
         out |-> gh.out, credits |-> gh.credits, burnt |-> gh.burnt]

\* starved: CREATE hands 63/64 of the creator's gas to the init code; when that halts exceptionally the creator has
\* (next to) no gas left.  The specification does not model gas inside a transaction, so such a frame may only end.
\* self  : the executing ADDRESS (whose balance CALL value / ETX / CONVERT / SELFDESTRUCT take, who owns the wrapped Qi and
\*         the lockups claimed); DELEGATECALL and CALLCODE run the callee's code with the CALLER's self
\* kind  : "call" | "delegate" | "callcode" | "static" | "create" | "create2" | "xsend"
\* static: the interpreter is read-only (a STATICCALL frame and everything below it)
Frame(self, kind, snap, st) == [self |-> self, kind |-> kind, snap |-> snap, nops |-> 0, starved |-> FALSE, static |-> st]
IsCreateKind(k) == k \in {"create", "create2"}

\* Top-level message call: TransitionDb -> evm.Call(sender, to, data, gas, value).  Observed at CaptureStart
\* (after the value transfer, before the first instruction).
TopCall ==
    /\ tx.phase = "begun" /\ tx.kind \in {"call", "inbound"}
    /\ ~(tx.kind = "inbound" /\ tx.glc = "toohigh")
    /\ LET t == tx.to
           b1 == [bal EXCEPT ![tx.payer] = @ - tx.v]
           b2 == [b1 EXCEPT ![t] = @ + tx.v]
           enter == code[t] = "host"
       IN  /\ bal' = b2
           /\ frames' = IF enter THEN <<Frame(t, "call", Snap, FALSE)>> ELSE <<>>
           /\ tx' = [tx EXCEPT !.phase = IF enter THEN "exec" ELSE "ending",
                               !.status = IF enter THEN "none" ELSE "ok"]
           /\ Log(Rec("top", tx.payer, t, tx.v, 0, 0, [k |-> tx.kind, enter |-> enter]),
                  MkObs(b2, NEtx(etx), wq, lock, -1, -1, IF enter THEN "enter" ELSE "plain"), 1)
    /\ UNCHANGED <<code, ncreated, sui, wq, lock, etx, op, gh, devs, blockOut, survAll, bdevs, ntx>>

\* Top-level call to the precompile "P" with malformed input: evm.Call has created / credited the account (Transfer) after
\* its snapshot when the precompile fails; the error epilogue reverts to the snapshot and consumes all gas: the transaction
\* fails, nothing but the gas charge remains.  (A well-formed call is TopCall with to = "P": the value stays on the
\* precompile address.)  Observed at CaptureEnd.
TopPCallFail ==
    /\ tx.phase = "begun" /\ tx.kind = "pbad"
    /\ tx' = [tx EXCEPT !.phase = "ending", !.status = "failed", !.hard = TRUE]
    /\ Log(Rec("top", tx.payer, "P", tx.v, 0, 0, [k |-> "pbad", enter |-> FALSE]),
           MkObs(bal, NEtx(etx), wq, lock, -1, -1, "pfail"), 1)
    /\ UNCHANGED <<bal, code, ncreated, sui, wq, lock, frames, etx, op, gh, devs, blockOut, survAll, bdevs, ntx>>

\* Inbound ETX whose gas limit exceeds block gas limit / MinimumEtxGasDivisor: subGasETX fails, nothing runs,
\* the receipt is "failed" and the staged value is lost when the zero address is reset.
EtxGasLimitReached ==
    /\ tx.phase = "begun" /\ tx.kind = "inbound" /\ tx.glc = "toohigh"
    /\ tx' = [tx EXCEPT !.phase = "ending", !.status = "failed"]
    /\ Silent
    /\ UNCHANGED <<bal, code, ncreated, sui, wq, lock, frames, etx, op, gh, devs, blockOut, survAll, bdevs, ntx>>

\* Contract-creation transaction: TransitionDb -> evm.Create -> evm.create
TopCreate ==
    /\ tx.phase = "begun" /\ tx.kind = "create" /\ ~ncreated
    /\ LET b1 == [bal EXCEPT ![tx.payer] = @ - tx.v]
           b2 == [b1 EXCEPT !["N"] = @ + tx.v]
       IN  /\ bal' = b2
           /\ ncreated' = TRUE
           /\ frames' = <<Frame("N", "create", Snap, FALSE)>>
           /\ tx' = [tx EXCEPT !.phase = "exec"]
           /\ Log(Rec("top", tx.payer, "N", tx.v, 0, 0, [k |-> "create", enter |-> TRUE]),
                  MkObs(b2, NEtx(etx), wq, lock, -1, -1, "enter"), 1)
    /\ UNCHANGED <<code, sui, wq, lock, etx, op, gh, devs, blockOut, survAll, bdevs, ntx>>

\* evm.Create finds no address of this zone's Quai ledger (plain CREATE address invalid and address grinding gives
\* up): the creation fails before anything happens and all gas is gone.  Which (creator, nonce, code) triples are hit
\* is a matter of hashing, so the specification leaves it open (enabled only when GrindFail is set).
TopCreate_NoAddress ==
    /\ GrindFail /\ tx.phase = "begun" /\ tx.kind = "create"
    /\ tx' = [tx EXCEPT !.phase = "ending", !.status = "failed", !.hard = TRUE]
    /\ Silent
    /\ UNCHANGED <<bal, code, ncreated, sui, wq, lock, frames, etx, op, gh, devs, blockOut, survAll, bdevs, ntx>>

\* Finalisation of the state after a transaction (statedb.Finalize(true) in applyTransaction): self-destructed
\* accounts are deleted together with whatever balance they hold at that time.
FinalBal(b, S) == [a \in Acct |-> IF a \in S THEN 0 ELSE b[a]]
FinalCode(c, S) == [a \in Acct |-> IF a \in S THEN "none" ELSE c[a]]

\* "Suicide" + 20 address bytes sent by an EOA to itself: TransitionDb destroys the sender account, credits the
\* beneficiary with balance + rent refund and RETURNS WITHOUT refundGas: the payer keeps paying the whole gas limit
\* although only the intrinsic gas is reported as used.  (C02 note 1.)
TxSelfDestructByData(benef, used) ==
    /\ tx.phase = "begun" /\ tx.kind = "sdata" /\ used >= IntrinsicGas /\ used <= tx.g
    /\ LET x  == bal[tx.payer]
           b1 == [bal EXCEPT ![tx.payer] = 0]
           b2 == [b1 EXCEPT ![benef] = @ + x + Rent]
           b3 == FinalBal(b2, {tx.payer})
           lost == b2[tx.payer]
       IN  /\ bal' = b3
           /\ code' = FinalCode(code, {tx.payer})
           /\ gh' = [gh EXCEPT !.credits = @ + Rent, !.burnt = @ + lost]
           /\ tx' = Idle
           /\ Log(Rec("sdata", tx.payer, benef, 0, used, tx.p, [k |-> "sdata", lim |-> tx.g]) @@ [res |-> "ok"],
                  MkObs(b3, 0, wq, lock, 1, -1, "norefund"), 1)
    /\ UNCHANGED <<ncreated, sui, wq, lock, frames, etx, op, devs, blockOut, survAll, bdevs, ntx>>

\* Transaction from the kQuai setting address: handled entirely inside TransitionDb, both outcomes RETURN WITHOUT
\* refundGas.  (C02 note 2.)
TxKQuaiControl(dc, used) ==
    /\ tx.phase = "begun" /\ tx.kind = "kquai" /\ used >= IntrinsicGas /\ used <= tx.g
    /\ tx' = Idle
    /\ Log(Rec("kquai", tx.payer, "-", 0, used, tx.p, [k |-> dc, lim |-> tx.g]) @@ [res |-> IF dc = "freeze" THEN "ok" ELSE "failed"],
           MkObs(bal, 0, wq, lock, IF dc = "freeze" THEN 1 ELSE 0, -1, "norefund"), 1)
    /\ UNCHANGED <<bal, code, ncreated, sui, wq, lock, frames, etx, op, gh, devs, blockOut, survAll, bdevs, ntx>>

----------------------------------------------------------------------------
\* Frames.  cur = executing frame.
InFrame == tx.phase = "exec" /\ frames # <<>> /\ op = NoOp
Cur == frames[Len(frames)]
CanOp == InFrame /\ Cur.nops < MaxFrameOps /\ ~Cur.starved
Bump == [frames EXCEPT ![Len(frames)].nops = @ + 1]

InStatic == frames # <<>> /\ Cur.static

\* opCall -> evm.Call: balance check, snapshot, (account creation), Transfer, run code.
\* Observed at the callee's first instruction if a frame is entered, else after the CALL instruction.
\* (A CALL with value inside a read-only context is a write-protection halt: WriteProtected("call").)
Call(t, v) ==
    /\ CanOp /\ t \in Acct /\ ~(Cur.static /\ v > 0)
    /\ LET s == Cur.self IN
       IF v > 0 /\ bal[s] < v
       THEN /\ frames' = Bump
            /\ UNCHANGED bal
            /\ Log(Rec("call", s, t, v, 0, 0, [k |-> "call", enter |-> FALSE]),
                   MkObs(bal, NEtx(etx), wq, lock, 0, 1, "insufficient"), 1)
       ELSE LET b1 == [bal EXCEPT ![s] = @ - v]
                b2 == [b1 EXCEPT ![t] = @ + v]
                enter == code[t] = "host" /\ Len(frames) < MaxDepth
            IN  /\ code[t] = "host" => Len(frames) < MaxDepth
                /\ bal' = b2
                /\ frames' = IF enter THEN Append(Bump, Frame(t, "call", Snap, Cur.static)) ELSE Bump
                /\ Log(Rec("call", s, t, v, 0, 0, [k |-> "call", enter |-> enter]),
                       MkObs(b2, NEtx(etx), wq, lock, IF enter THEN -1 ELSE 1, IF enter THEN -1 ELSE 1,
                             IF enter THEN "enter" ELSE "plain"), 1)
    /\ UNCHANGED <<code, ncreated, sui, wq, lock, tx, etx, op, gh, devs, blockOut, survAll, bdevs, ntx>>


\* CALL to the precompile "P".  oc: "ok" (well-formed input, enough gas) | "bad" (malformed input) | "lowgas" (less gas than
\* RequiredGas).  evm.Call: balance check, snapshot, Transfer, RunPrecompiledContract; on error revertToSnapshot (the
\* transfer is undone), the gas handed to the call is consumed, status 0.  No frame is entered.
PCall(v, oc) ==
    /\ CanOp /\ ~(Cur.static /\ v > 0)
    /\ LET s == Cur.self
           short == v > 0 /\ bal[s] < v
           good == ~short /\ oc = "ok"
           b1 == [bal EXCEPT ![s] = @ - v]
           b2 == IF good THEN [b1 EXCEPT !["P"] = @ + v] ELSE bal
       IN  /\ bal' = b2
           /\ frames' = Bump
           /\ Log(Rec("pcall", s, "P", v, 0, 0, [k |-> "pcall", oc |-> oc, enter |-> FALSE]),
                  MkObs(b2, NEtx(etx), wq, lock, IF good THEN 1 ELSE 0, 1, IF short THEN "insufficient" ELSE oc), 1)
    /\ UNCHANGED <<code, ncreated, sui, wq, lock, tx, etx, op, gh, devs, blockOut, survAll, bdevs, ntx>>

\* opDelegateCall -> evm.DelegateCall: snapshot, run the CALLEE's code as the CALLER: address, caller and value of the
\* parent frame are kept, nothing is transferred.  An ETX / CONVERT / lockup operation / SELFDESTRUCT / CALL with value
\* inside acts on the parent contract's balance and assets.
DelegateCall(t) ==
    /\ CanOp /\ t \in Acct
    /\ LET s == Cur.self
           enter == code[t] = "host" /\ Len(frames) < MaxDepth
       IN  /\ code[t] = "host" => Len(frames) < MaxDepth
           /\ frames' = IF enter THEN Append(Bump, Frame(s, "delegate", Snap, Cur.static)) ELSE Bump
           /\ Log(Rec("dcall", s, t, 0, 0, 0, [k |-> "dcall", enter |-> enter]),
                  MkObs(bal, NEtx(etx), wq, lock, IF enter THEN -1 ELSE 1, IF enter THEN -1 ELSE 1,
                        IF enter THEN "enter" ELSE "plain"), 1)
    /\ UNCHANGED <<bal, code, ncreated, sui, wq, lock, tx, etx, op, gh, devs, blockOut, survAll, bdevs, ntx>>

\* opCallCode -> evm.CallCode: CanTransfer(caller, value) (although nothing moves: the value is "transferred" from the
\* caller to itself), snapshot, run the callee's code as the caller with CALLVALUE = value.
\* (CALLCODE with value is not a write in a read-only context: only CALL is checked by the interpreter.)
CallCode(t, v) ==
    /\ CanOp /\ t \in Acct
    /\ LET s == Cur.self IN
       IF bal[s] < v
       THEN /\ frames' = Bump
            /\ Log(Rec("ccall", s, t, v, 0, 0, [k |-> "ccall", enter |-> FALSE]),
                   MkObs(bal, NEtx(etx), wq, lock, 0, 1, "insufficient"), 1)
       ELSE LET enter == code[t] = "host" /\ Len(frames) < MaxDepth
            IN  /\ code[t] = "host" => Len(frames) < MaxDepth
                /\ frames' = IF enter THEN Append(Bump, Frame(s, "callcode", Snap, Cur.static)) ELSE Bump
                /\ Log(Rec("ccall", s, t, v, 0, 0, [k |-> "ccall", enter |-> enter]),
                       MkObs(bal, NEtx(etx), wq, lock, IF enter THEN -1 ELSE 1, IF enter THEN -1 ELSE 1,
                             IF enter THEN "enter" ELSE "plain"), 1)
    /\ UNCHANGED <<bal, code, ncreated, sui, wq, lock, tx, etx, op, gh, devs, blockOut, survAll, bdevs, ntx>>

\* opStaticCall -> evm.StaticCall: snapshot, run the callee (as itself, value 0) with interpreter.readOnly set; the
\* flag stays set for every frame below.
StaticCall(t) ==
    /\ CanOp /\ t \in Acct
    /\ LET s == Cur.self
           enter == code[t] = "host" /\ Len(frames) < MaxDepth
       IN  /\ code[t] = "host" => Len(frames) < MaxDepth
           /\ frames' = IF enter THEN Append(Bump, Frame(t, "static", Snap, TRUE)) ELSE Bump
           /\ Log(Rec("scall", s, t, 0, 0, 0, [k |-> "scall", enter |-> enter]),
                  MkObs(bal, NEtx(etx), wq, lock, IF enter THEN -1 ELSE 1, IF enter THEN -1 ELSE 1,
                        IF enter THEN "enter" ELSE "plain"), 1)
    /\ UNCHANGED <<bal, code, ncreated, sui, wq, lock, tx, etx, op, gh, devs, blockOut, survAll, bdevs, ntx>>

\* opCreate -> evm.Create -> evm.create ; opCreate2 -> evm.Create2 -> evm.create (address from salt and code hash, no
\* address grinding: the driver supplies a salt whose address lies in this zone's Quai ledger).  kind = "create" | "create2"
CreateK(kind, v) ==
    /\ CanOp /\ ~ncreated /\ Len(frames) < MaxDepth /\ ~Cur.static
    /\ LET s == Cur.self IN
       IF bal[s] < v
       THEN /\ frames' = Bump
            /\ UNCHANGED <<bal, ncreated>>
            /\ Log(Rec(kind, s, "N", v, 0, 0, [k |-> kind, enter |-> FALSE]),
                   MkObs(bal, NEtx(etx), wq, lock, 0, 1, "insufficient"), 1)
       ELSE LET b1 == [bal EXCEPT ![s] = @ - v]
                b2 == [b1 EXCEPT !["N"] = @ + v]
            IN  /\ bal' = b2
                /\ ncreated' = TRUE
                /\ frames' = Append(Bump, Frame("N", kind, Snap, FALSE))
                /\ Log(Rec(kind, s, "N", v, 0, 0, [k |-> kind, enter |-> TRUE]),
                       MkObs(b2, NEtx(etx), wq, lock, -1, -1, "enter"), 1)
    /\ UNCHANGED <<code, sui, wq, lock, tx, etx, op, gh, devs, blockOut, survAll, bdevs, ntx>>
Create(v)  == CreateK("create", v)
Create2(v) == CreateK("create2", v)

\* CREATE inside a frame finding no address: status 0, nothing else (the gas handed to it is lost)
Create_NoAddress(v) ==
    /\ GrindFail /\ CanOp /\ ~ncreated /\ bal[Cur.self] >= v /\ ~Cur.static
    /\ frames' = Bump
    /\ Log(Rec("create", Cur.self, "N", v, 0, 0, [k |-> "create", enter |-> FALSE]),
           MkObs(bal, NEtx(etx), wq, lock, 0, 1, "no-address"), 1)
    /\ UNCHANGED <<bal, code, ncreated, sui, wq, lock, tx, etx, op, gh, devs, blockOut, survAll, bdevs, ntx>>

\* leaving a frame: the status word is pushed on the caller's stack, or the transaction body is over
PopTo(n, starve) == [i \in 1..n |-> IF i = n /\ starve THEN [frames[i] EXCEPT !.starved = TRUE] ELSE frames[i]]
Pop(ok, hard) ==
    IF Len(frames) = 1
    THEN /\ frames' = <<>>
         /\ tx' = [tx EXCEPT !.phase = "ending", !.status = IF ok THEN "ok" ELSE "failed", !.hard = hard]
    ELSE /\ frames' = PopTo(Len(frames) - 1, hard /\ IsCreateKind(Cur.kind))
         /\ UNCHANGED tx

\* STOP (in init code: an empty contract is deployed)
Stop ==
    /\ InFrame
    /\ Pop(TRUE, FALSE)
    /\ Log(Rec("stop", Cur.self, "-", 0, 0, 0, NoC), MkObs(bal, NEtx(etx), wq, lock, 1, 1, "ok"), 1)
    /\ UNCHANGED <<bal, code, ncreated, sui, wq, lock, etx, op, gh, devs, blockOut, survAll, bdevs, ntx>>

\* RETURN of a small runtime code from init code: code stored, gas paid
ReturnCode ==
    /\ InFrame /\ IsCreateKind(Cur.kind)
    /\ Pop(TRUE, FALSE)
    /\ code' = [code EXCEPT ![Cur.self] = "stop"]
    /\ Log(Rec("ret", Cur.self, "-", 0, 0, 0, NoC), MkObs(bal, NEtx(etx), wq, lock, 1, 1, "ok"), 1)
    /\ UNCHANGED <<bal, ncreated, sui, wq, lock, etx, op, gh, devs, blockOut, survAll, bdevs, ntx>>

\* evm.revertToSnapshot: state journal, ETX cache length
Restore(sn) ==
    /\ bal' = sn.bal /\ code' = sn.code /\ ncreated' = sn.ncreated /\ sui' = sn.sui /\ wq' = sn.wq
    /\ etx' = SubSeq(etx, 1, sn.netx)
    /\ gh' = [gh EXCEPT !.out = sn.out, !.credits = sn.credits, !.burnt = sn.burnt]

\* REVERT / any exceptional halt (INVALID, out of gas): state back to the snapshot, status 0
\* (every call kind takes evm.snapshot() on entry and evm.revertToSnapshot() on error: StateDB journal AND the length of
\* the ETX cache AND the coinbase-lockup deletion lists)
UnwindC(how, c) ==
    /\ InFrame
    /\ Restore(Cur.snap)
    /\ Pop(FALSE, how = "fail")
    /\ Log(Rec(how, Cur.self, "-", 0, 0, 0, c),
           MkObs(Cur.snap.bal, Cur.snap.netx + Prefill, Cur.snap.wq, lock, 0, 1, how), 1)
    /\ UNCHANGED <<lock, op, devs, blockOut, survAll, bdevs, ntx>>
Unwind(how) == UnwindC(how, NoC)
Revert == Unwind("revert")
Fail   == Unwind("fail")

\* core/vm/interpreter.go: in a read-only context every instruction flagged `writes` (SSTORE, LOGn, CREATE, CREATE2,
\* SELFDESTRUCT, ETX, CONVERT, ...) and a CALL with non-zero value halt the frame exceptionally (ErrWriteProtection)
\* BEFORE anything is executed or charged.  The record names the instruction so that the driver compiles it.
WriteProtected(opk) ==
    /\ InStatic /\ opk \in AllWpOps
    /\ UnwindC("fail", [k |-> "wp", op |-> opk])

\* DEVIATION (F5).  evm.create: init code returns more code than the remaining gas can pay for
\* (ErrCodeStoreOutOfGas).  The error is reported (CREATE pushes 0 / the creation transaction is "failed") but the
\* state is NOT reverted (`if err != nil && err != ErrCodeStoreOutOfGas`): account, endowment and every effect of
\* the init code stay; a failed transaction's receipt drops the ETXs although their debits stay.
Create_CodeStoreOOG_NotReverted ==
    /\ InFrame /\ IsCreateKind(Cur.kind)
    /\ Pop(FALSE, FALSE)
    /\ devs' = devs \cup {"create-codestore-oog"}
    /\ Log(Rec("retoog", Cur.self, "-", 0, 0, 0, NoC) @@ [dev |-> "create-codestore-oog"],
           MkObs(bal, NEtx(etx), wq, lock, 0, 1, "codestore-oog"), 1)
    /\ UNCHANGED <<bal, code, ncreated, sui, wq, lock, etx, op, gh, blockOut, survAll, bdevs, ntx>>

\* opSuicide: balance to the beneficiary, rent refund (once per account after the fork, every time before),
\* account marked, balance zeroed.  Self-destruct to self destroys the balance (burn).
SelfDestruct(b) ==
    /\ InFrame /\ ~Cur.starved /\ b \in Acct /\ ~Cur.static
    /\ LET s  == Cur.self
           x  == bal[s]
           r  == IF ~PostSD(tx.rg) \/ s \notin sui THEN Rent ELSE 0
           b1 == [bal EXCEPT ![b] = @ + x + r]
           b2 == [b1 EXCEPT ![s] = 0]
           lost == IF b = s THEN x + r ELSE 0
       IN  /\ bal' = b2
           /\ sui' = sui \cup {s}
           /\ gh' = [gh EXCEPT !.credits = @ + r, !.burnt = @ + lost]
           /\ Pop(TRUE, FALSE)
           /\ Log(Rec("sd", s, b, 0, 0, 0, NoC), MkObs(b2, NEtx(etx), wq, lock, 1, 1, "ok"), 1)
    /\ UNCHANGED <<code, ncreated, wq, lock, etx, op, devs, blockOut, survAll, bdevs, ntx>>

----------------------------------------------------------------------------
\* Off-chain send operations.  c = [dest, amt, gl, fee, al].
\*   gl  : ETX/CONVERT "lt" (< TxGas) | "ok" | "gt64" (> 2^64-1)      XCALL "ltetx" | "lttx" | "ok"
\*         UNWRAP/CLAIM "ok" | "gtavail"
\*   fee : "zero" | "one" (fee = gas limit x 1) | "ovf" (tip + cap overflows 2^256)
\*   al  : "empty" | "good" | "bad" (access-list blob of opETX)
\* Stack effect: pops are fixed per opcode; `pushed` counts the status words pushed (must be exactly 1).

GlVal(gl) == IF gl = "lt" THEN TxGas - 1 ELSE TxGas
FeeOf(k, c, post) ==
    IF k = "CONVERT" THEN tx.p * GlVal(c.gl)                \* opConvert: fee = tx gas price x gas limit
    ELSE IF c.fee = "one" THEN (IF c.gl = "gt64" THEN BIG ELSE GlVal(c.gl))
    ELSE 0                                                  \* "ovf" before the fork wraps to 0
\* value + fee as the code computes it: checked after the fork, wrapping modulo 2^256 before it
AddOvf(v, f) == v = MAXU /\ f # 0
WrapAdd(v, f) == IF f = BIG THEN BIG ELSE IF v = MAXU THEN (IF f = 0 THEN MAXU ELSE f - 1) ELSE v + f
Affordable(s, t) == t \notin {MAXU, BIG} /\ t <= bal[s]

\* (ETX and CONVERT are `writes` instructions: not available in a read-only context, see WriteProtected)
Begin(k, c) ==
    /\ CanOp /\ k \in OpKinds /\ ~(Cur.static /\ k \in {"ETX", "CONVERT"})
    /\ frames' = Bump
    /\ op' = [kind |-> k, pc |-> "start", self |-> Cur.self, c |-> c, tot |-> 0, fee |-> 0,
              exit |-> "-", status |-> -1, pushed |-> 0, dev |-> "-",
              bal0 |-> bal, etx0 |-> Len(etx), wq0 |-> wq, lock0 |-> lock, snap |-> Snap]
    /\ Silent
    /\ UNCHANGED <<bal, code, ncreated, sui, wq, lock, tx, etx, gh, devs, blockOut, survAll, bdevs, ntx>>

At(k, p) == op.kind = k /\ op.pc = p
OpUnch == UNCHANGED <<code, ncreated, sui, lock, tx, frames, devs, blockOut, survAll, bdevs, ntx>>
Goto(p) == /\ op' = [op EXCEPT !.pc = p]
           /\ Silent /\ OpUnch /\ UNCHANGED <<bal, wq, etx, gh>>
\* early exit BEFORE any effect: status word 0
ExitClean(name) ==
    /\ op' = [op EXCEPT !.pc = "done", !.exit = name, !.status = 0, !.pushed = 1]
    /\ Silent /\ OpUnch /\ UNCHANGED <<bal, wq, etx, gh>>
\* DEVIATION: early exit AFTER the debit, nothing restored
ExitDirty(name, push) ==
    /\ op' = [op EXCEPT !.pc = "done", !.exit = name, !.status = 0, !.pushed = push, !.dev = name]
    /\ Silent /\ OpUnch /\ UNCHANGED <<bal, wq, etx>>
    /\ gh' = IF op.kind \in {"ETX", "CONVERT"} THEN [gh EXCEPT !.out = @ - op.tot, !.burnt = @ + op.tot] ELSE gh
\* exit of a CALL-based operation whose error makes evm.Call revert to its snapshot
ExitReverted(name) ==
    /\ op' = [op EXCEPT !.pc = "done", !.exit = name, !.status = 0, !.pushed = 1]
    /\ bal' = op.snap.bal /\ wq' = op.snap.wq /\ etx' = SubSeq(etx, 1, op.snap.netx)
    /\ gh' = [gh EXCEPT !.out = op.snap.out]
    /\ Silent /\ OpUnch
Debit(next) ==
    /\ bal' = [bal EXCEPT ![op.self] = @ - op.tot]
    /\ gh' = [gh EXCEPT !.out = @ + op.tot]
    /\ op' = [op EXCEPT !.pc = next]
    /\ Silent /\ OpUnch /\ UNCHANGED <<wq, etx>>
\* an ETX is backed when exactly its value + fee was taken from the emitter (MAXU is a symbol, not a number)
Backed(r) == r.val # MAXU /\ r.fee \notin {MAXU, BIG} /\ r.deb = r.val + r.fee
EtxRec(k, val, fee, deb) ==
    [k |-> k, from |-> op.self, to |-> op.c.dest, val |-> val, fee |-> fee, deb |-> deb, idx |-> NEtx(etx)]
AppendEtx(r) ==
    /\ etx' = Append(etx, r)
    /\ op' = [op EXCEPT !.pc = "done", !.exit = "ok", !.status = 1, !.pushed = 1,
                        !.dev = IF r.k \in {"ETX", "CONVERT"} /\ ~Backed(r) THEN "prefork-wrap" ELSE "-"]
    /\ Silent /\ OpUnch /\ UNCHANGED <<bal, wq, gh>>

\* ------------------------------------------------------------------ opETX (core/vm/instructions.go)
ETX_Begin(c) == Begin("ETX", c)
\* 1. destination must be outside this chain's scope
ETX_FailInScope     == At("ETX", "start") /\ InChainScope(op.c.dest) /\ ExitClean("scope")
ETX_ScopeOk         == At("ETX", "start") /\ ~InChainScope(op.c.dest)
                       /\ Goto(IF PostSD(tx.rg) THEN "gaslimit" ELSE "total")
\* 2. (after the fork: first) gas limit <= 2^64-1 and >= TxGas
ETX_FailGasTooBig   == At("ETX", "gaslimit") /\ op.c.gl = "gt64" /\ ExitClean("gas-gt64")
ETX_FailGasTooSmall == At("ETX", "gaslimit") /\ op.c.gl = "lt" /\ ExitClean("gas-lt-txgas")
ETX_GasOk           == At("ETX", "gaslimit") /\ op.c.gl = "ok"
                       /\ Goto(IF PostSD(tx.rg) THEN "total" ELSE "debit")
\* 3. fee = (tip + cap) x gas limit, total = value + fee; after the fork every overflow is an exit
ETX_FailFeeOverflow == At("ETX", "total") /\ PostSD(tx.rg) /\ op.c.fee = "ovf" /\ ExitClean("fee-overflow")
ETX_FailTotalOverflow == At("ETX", "total") /\ PostSD(tx.rg) /\ op.c.fee # "ovf"
                       /\ AddOvf(op.c.amt, FeeOf("ETX", op.c, TRUE)) /\ ExitClean("total-overflow")
ETX_Total ==
    /\ At("ETX", "total")
    /\ LET f == FeeOf("ETX", op.c, PostSD(tx.rg)) IN
       /\ PostSD(tx.rg) => (op.c.fee # "ovf" /\ ~AddOvf(op.c.amt, f))
       /\ op' = [op EXCEPT !.pc = "balance", !.fee = f, !.tot = WrapAdd(op.c.amt, f)]
    /\ Silent /\ OpUnch /\ UNCHANGED <<bal, wq, etx, gh>>
\* 4. total must be non-zero and affordable
ETX_FailBalance     == At("ETX", "balance") /\ (op.tot = 0 \/ ~Affordable(op.self, op.tot)) /\ ExitClean("balance")
ETX_BalanceOk       == At("ETX", "balance") /\ op.tot # 0 /\ Affordable(op.self, op.tot)
                       /\ Goto(IF PostSD(tx.rg) THEN "debit" ELSE "gaslimit")
\* 5. DEBIT value + fee
ETX_Debit           == At("ETX", "debit") /\ Debit("aldecode")
\* 6. DEVIATION (F2a): the access-list blob is decoded after the debit; a malformed blob exits with status 0
ETX_FailAfterDebit_AccessList == At("ETX", "aldecode") /\ op.c.al = "bad" /\ ExitDirty("accesslist-rlp", 1)
ETX_AccessListOk    == At("ETX", "aldecode") /\ op.c.al # "bad" /\ Goto("cacheidx")
\* 7. DEVIATION (F2b): more than 65535 ETXs in the cache: status 0 after the debit
ETX_FailAfterDebit_CacheFull == At("ETX", "cacheidx") /\ NEtx(etx) > 65535 /\ ExitDirty("cache-overflow", 1)
ETX_IndexOk         == At("ETX", "cacheidx") /\ NEtx(etx) <= 65535 /\ Goto("eligible")
\* 8. DEVIATION (F2c): destination zone not eligible: returns after the debit WITHOUT pushing a status word
ETX_Ineligible_NoPush == At("ETX", "eligible") /\ ~ZoneEligible(op.c.dest) /\ ExitDirty("ineligible", 0)
ETX_EligibleOk      == At("ETX", "eligible") /\ ZoneEligible(op.c.dest) /\ Goto("append")
\* 9. append to the cache under the next index, push 1.  Before the fork the debit may have wrapped (value 2^256-1):
\*    the ETX then carries more than was debited (named deviation "prefork-wrap").
ETX_Append          == At("ETX", "append") /\ AppendEtx(EtxRec("ETX", op.c.amt, op.fee, op.tot))

\* ------------------------------------------------------------------ opConvert
CONVERT_Begin(c) == Begin("CONVERT", c)
CONVERT_FailNotInScope == At("CONVERT", "start") /\ ~InChainScope(op.c.dest) /\ ExitClean("scope")
CONVERT_FailNotQi   == At("CONVERT", "start") /\ InChainScope(op.c.dest) /\ ~IsQi(op.c.dest) /\ ExitClean("not-qi")
CONVERT_FailBelowMin == At("CONVERT", "start") /\ op.c.dest = "qiown" /\ op.c.amt # MAXU /\ op.c.amt < MinConv
                       /\ ExitClean("below-min")
CONVERT_DestOk      == At("CONVERT", "start") /\ op.c.dest = "qiown" /\ (op.c.amt = MAXU \/ op.c.amt >= MinConv)
                       /\ Goto("regime")
CONVERT_FailRegime  == At("CONVERT", "regime") /\ ~ConvAllowed(tx.rg) /\ ExitClean("regime")
CONVERT_RegimeOk    == At("CONVERT", "regime") /\ ConvAllowed(tx.rg)
                       /\ Goto(IF PostSD(tx.rg) THEN "gaslimit" ELSE "total")
CONVERT_FailGasTooBig == At("CONVERT", "gaslimit") /\ PostSD(tx.rg) /\ op.c.gl = "gt64" /\ ExitClean("gas-gt64")
\* before the fork there is no explicit upper check: a 2^64 limit truncates to 0 and fails the minimum
CONVERT_FailGasTooSmall == At("CONVERT", "gaslimit") /\ (op.c.gl = "lt" \/ (~PostSD(tx.rg) /\ op.c.gl = "gt64"))
                       /\ ExitClean("gas-lt-txgas")
CONVERT_GasOk       == At("CONVERT", "gaslimit") /\ op.c.gl = "ok"
                       /\ Goto(IF PostSD(tx.rg) THEN "total" ELSE "debit")
CONVERT_FailTotalOverflow == At("CONVERT", "total") /\ PostSD(tx.rg)
                       /\ AddOvf(op.c.amt, FeeOf("CONVERT", op.c, TRUE)) /\ ExitClean("total-overflow")
CONVERT_Total ==
    /\ At("CONVERT", "total")
    /\ LET f == IF op.c.gl = "gt64" THEN BIG ELSE FeeOf("CONVERT", op.c, PostSD(tx.rg)) IN
       /\ PostSD(tx.rg) => ~AddOvf(op.c.amt, f)
       /\ op' = [op EXCEPT !.pc = "balance", !.fee = f, !.tot = WrapAdd(op.c.amt, f)]
    /\ Silent /\ OpUnch /\ UNCHANGED <<bal, wq, etx, gh>>
CONVERT_FailBalance == At("CONVERT", "balance") /\ (op.tot = 0 \/ ~Affordable(op.self, op.tot)) /\ ExitClean("balance")
CONVERT_BalanceOk   == At("CONVERT", "balance") /\ op.tot # 0 /\ Affordable(op.self, op.tot)
                       /\ Goto(IF PostSD(tx.rg) THEN "debit" ELSE "gaslimit")
CONVERT_Debit       == At("CONVERT", "debit") /\ Debit("cacheidx")
\* DEVIATION (F2b'): cache overflow exit after the debit
CONVERT_FailAfterDebit_CacheFull == At("CONVERT", "cacheidx") /\ NEtx(etx) > 65535 /\ ExitDirty("cache-overflow", 1)
CONVERT_IndexOk     == At("CONVERT", "cacheidx") /\ NEtx(etx) <= 65535 /\ Goto("append")
CONVERT_Append      == At("CONVERT", "append") /\ AppendEtx(EtxRec("CONVERT", op.c.amt, op.fee, op.tot))

\* ------------------------------------------------------------------ CALL to an address outside the Quai ledger of
\* this zone: evm.Call -> evm.CreateETX.  Every error makes evm.Call revert to its snapshot.
XCALL_Begin(c) == Begin("XCALL", c) /\ c.dest # "inscope"
XCALL_FailCallBalance == At("XCALL", "start") /\ op.c.amt # 0 /\ ~Affordable(op.self, op.c.amt) /\ ExitClean("balance")
XCALL_CallOk        == At("XCALL", "start") /\ (op.c.amt = 0 \/ Affordable(op.self, op.c.amt)) /\ Goto("regime")
XCALL_FailRegime    == At("XCALL", "regime") /\ op.c.dest = "qiown" /\ ~ConvAllowed(tx.rg) /\ ExitReverted("regime")
XCALL_RegimeOk      == At("XCALL", "regime") /\ (op.c.dest # "qiown" \/ ConvAllowed(tx.rg)) /\ Goto("dest")
XCALL_FailQiOther   == At("XCALL", "dest") /\ op.c.dest = "qiother" /\ ExitReverted("qi-other-zone")
XCALL_FailBelowMin  == At("XCALL", "dest") /\ op.c.dest = "qiown" /\ op.c.amt < MinConv /\ ExitReverted("below-min")
XCALL_DestOk        == At("XCALL", "dest") /\ op.c.dest # "qiother" /\ (op.c.dest = "qiown" => op.c.amt >= MinConv)
                       /\ Goto("gas")
XCALL_FailGasEtx    == At("XCALL", "gas") /\ op.c.gl = "ltetx" /\ ExitReverted("gas-lt-etxgas")
XCALL_FailGasTx     == At("XCALL", "gas") /\ op.c.gl = "lttx" /\ ExitReverted("gas-lt-txgas")
XCALL_GasOk         == At("XCALL", "gas") /\ op.c.gl = "ok" /\ Goto("debit")
XCALL_Debit ==
    /\ At("XCALL", "debit")
    /\ bal' = [bal EXCEPT ![op.self] = @ - op.c.amt]
    /\ gh' = [gh EXCEPT !.out = @ + op.c.amt]
    /\ op' = [op EXCEPT !.pc = "cacheidx", !.tot = op.c.amt]
    /\ Silent /\ OpUnch /\ UNCHANGED <<wq, etx>>
XCALL_FailCacheFull == At("XCALL", "cacheidx") /\ NEtx(etx) > 65535 /\ ExitReverted("cache-overflow")
XCALL_IndexOk       == At("XCALL", "cacheidx") /\ NEtx(etx) <= 65535 /\ Goto("eligible")
XCALL_FailIneligible == At("XCALL", "eligible") /\ op.c.dest = "inelig" /\ ExitReverted("ineligible")
XCALL_EligibleOk    == At("XCALL", "eligible") /\ op.c.dest # "inelig" /\ Goto("append")
XCALL_Append        == At("XCALL", "append") /\ AppendEtx(EtxRec("XCALL", op.c.amt, 0, op.c.amt))

\* ------------------------------------------------------------------ lockup precompile, 60-byte input: UnwrapQi.
\* Before ShaEquivalentDifficultyForkBlock an error of the precompile is NOT reverted by evm.Call.
LOCKUP_Exit(name, debited) ==
    IF LockupRevert(tx.rg) \/ ~debited THEN ExitReverted(name) ELSE ExitDirty(name, 1)
\* RunLockupContract refuses everything in a read-only context (a zero-value CALL is not a write for the interpreter,
\* so the lockup contract checks evm.interpreter.readOnly itself): ErrWriteProtection, status word 0, nothing changed
UNWRAP_Begin(c) == Begin("UNWRAP", c)
UNWRAP_FailReadOnly == At("UNWRAP", "start") /\ InStatic /\ ExitClean("write-protection")
UNWRAP_FailGas      == At("UNWRAP", "start") /\ ~InStatic /\ op.c.gl = "gtavail" /\ ExitReverted("gas")
UNWRAP_GasOk        == At("UNWRAP", "start") /\ ~InStatic /\ op.c.gl # "gtavail" /\ Goto("dest")
UNWRAP_FailDest     == At("UNWRAP", "dest") /\ ~IsQi(op.c.dest) /\ ExitReverted("not-qi")
\* A Qi beneficiary outside this zone makes the precompile return common.ErrExternalAddress, the one error every call
\* opcode passes on to its own frame (`else if err == common.ErrExternalAddress { return nil, err }`): the frame that
\* called the precompile and ALL its callers are unwound, the transaction fails and all its gas is consumed.
AbortIdx == LET C == {i \in 1..Len(frames) : IsCreateKind(frames[i].kind)}
            IN  IF C = {} THEN 1 ELSE CHOOSE i \in C : \A k \in C : k <= i     \* opCreate / opCreate2 do not pass the error on
UNWRAP_ExternalBeneficiary_AbortsAllFrames ==
    /\ At("UNWRAP", "dest") /\ op.c.dest = "qiother"
    /\ LET i == AbortIdx
           sn == frames[i].snap IN
       /\ Restore(sn)
       /\ op' = NoOp
       /\ IF i = 1
          THEN /\ frames' = <<>>
               /\ tx' = [tx EXCEPT !.phase = "ending", !.status = "failed", !.hard = TRUE]
          ELSE /\ frames' = PopTo(i - 1, TRUE)
               /\ UNCHANGED tx
       /\ Log(Rec("abort", frames[i].self, op.c.dest, op.c.amt, 0, 0, [k |-> op.kind, gl |-> op.c.gl, fee |-> op.c.fee, al |-> op.c.al, d |-> i]),
              MkObs(sn.bal, sn.netx + Prefill, sn.wq, lock, 0, 1, "abort"), 1)
    /\ UNCHANGED <<lock, devs, blockOut, survAll, bdevs, ntx>>
UNWRAP_DestOk       == At("UNWRAP", "dest") /\ op.c.dest = "qiown" /\ Goto("balance")
UNWRAP_FailNoBalance == At("UNWRAP", "balance") /\ wq[op.self] = 0 /\ ExitReverted("no-balance")
UNWRAP_FailBalance  == At("UNWRAP", "balance") /\ wq[op.self] # 0 /\ (op.c.amt = MAXU \/ op.c.amt > wq[op.self])
                       /\ ExitReverted("balance")
UNWRAP_BalanceOk    == At("UNWRAP", "balance") /\ wq[op.self] # 0 /\ op.c.amt # MAXU /\ op.c.amt <= wq[op.self]
                       /\ Goto("debit")
UNWRAP_Debit ==
    /\ At("UNWRAP", "debit")
    /\ wq' = [wq EXCEPT ![op.self] = @ - op.c.amt]
    /\ op' = [op EXCEPT !.pc = "cacheidx", !.tot = op.c.amt]
    /\ Silent /\ OpUnch /\ UNCHANGED <<bal, etx, gh>>
\* DEVIATION (pre-fork only): cache overflow after the wrapped balance was reduced, not reverted
UNWRAP_FailCacheFull == At("UNWRAP", "cacheidx") /\ NEtx(etx) > 65535 /\ LOCKUP_Exit("cache-overflow", TRUE)
UNWRAP_IndexOk      == At("UNWRAP", "cacheidx") /\ NEtx(etx) <= 65535 /\ Goto("append")
UNWRAP_Append       == At("UNWRAP", "append") /\ AppendEtx(EtxRec("UNWRAP", op.c.amt, 0, op.c.amt))

\* ------------------------------------------------------------------ lockup precompile, 53-byte input:
\* ClaimCoinbaseLockup.  c.al carries the record class: "match" | "mismatch" (ledger of `to` vs miner).
CLAIM_Begin(c) == Begin("CLAIM", c)
CLAIM_FailReadOnly  == At("CLAIM", "start") /\ InStatic /\ ExitClean("write-protection")
CLAIM_FailGas       == At("CLAIM", "start") /\ ~InStatic /\ op.c.gl = "gtavail" /\ ExitReverted("gas")
CLAIM_GasOk         == At("CLAIM", "start") /\ ~InStatic /\ op.c.gl # "gtavail" /\ Goto("ledger")
CLAIM_FailLedger    == At("CLAIM", "ledger") /\ op.c.al = "mismatch" /\ ExitReverted("ledger-mismatch")
CLAIM_LedgerOk      == At("CLAIM", "ledger") /\ op.c.al # "mismatch" /\ Goto("record")
CLAIM_FailNoRecord  == At("CLAIM", "record") /\ lock[op.self] = "none" /\ ExitReverted("no-lockup")
CLAIM_FailLocked    == At("CLAIM", "record") /\ lock[op.self] = "locked" /\ ExitReverted("still-locked")
CLAIM_RecordOk      == At("CLAIM", "record") /\ lock[op.self] = "unlocked" /\ Goto("delete")
\* the record is deleted in the block batch (not part of the state journal)
CLAIM_Delete ==
    /\ At("CLAIM", "delete")
    /\ lock' = [lock EXCEPT ![op.self] = "none"]
    /\ op' = [op EXCEPT !.pc = "cacheidx", !.tot = LockVal]
    /\ Silent /\ UNCHANGED <<bal, code, ncreated, sui, wq, tx, frames, etx, gh, devs, blockOut, survAll, bdevs, ntx>>
\* DEVIATION: cache overflow after the record was deleted; no revert brings a batch delete back
CLAIM_FailAfterDelete_CacheFull == At("CLAIM", "cacheidx") /\ NEtx(etx) > 65535 /\ ExitDirty("cache-overflow", 1)
CLAIM_IndexOk       == At("CLAIM", "cacheidx") /\ NEtx(etx) <= 65535 /\ Goto("append")
CLAIM_Append        == At("CLAIM", "append") /\ AppendEtx(EtxRec("CLAIM", LockVal, 0, LockVal))

\* ------------------------------------------------------------------ completion: the operation's effect as seen
\* by the program: status word, emitter's balance delta, ETX-cache delta, new index, stack discipline
OpDone ==
    /\ op.kind # "none" /\ op.pc = "done"
    /\ op' = NoOp
    /\ devs' = IF op.dev # "-" THEN devs \cup {op.kind \o "/" \o op.dev} ELSE devs
    /\ Log(Rec(op.kind, op.self, op.c.dest, op.c.amt, 0, 0, [k |-> op.kind, gl |-> op.c.gl, fee |-> op.c.fee, al |-> op.c.al])
              @@ [dev |-> op.dev, last |-> IF op.status = 1 THEN etx[Len(etx)] ELSE [k |-> "-"]],
           MkObs(bal, NEtx(etx), wq, lock, IF op.pushed = 1 THEN op.status ELSE -1, op.pushed, op.exit), 1)
    /\ IF tx.kind = "xsend"
       THEN /\ frames' = <<>>         \* top-level CreateETX: the transaction body is over, no gas is left
            /\ tx' = [tx EXCEPT !.phase = "ending", !.status = IF op.status = 1 THEN "ok" ELSE "failed", !.hard = TRUE]
       ELSE UNCHANGED <<tx, frames>>
    /\ UNCHANGED <<bal, code, ncreated, sui, wq, lock, etx, gh, blockOut, survAll, bdevs, ntx>>

\* gas left for CreateETX = limit - intrinsic; it must cover ETXGas (= TxGas) and leave TxGas for the ETX
XGasLimits == {IntrinsicGas + TxGas - 1, IntrinsicGas + 2 * TxGas - 1, IntrinsicGas + 2 * TxGas}
XGasClass(g) == IF g < IntrinsicGas + TxGas THEN "ltetx" ELSE IF g < IntrinsicGas + 2 * TxGas THEN "lttx" ELSE "ok"
\* an EOA sending value directly to an address outside the Quai ledger of this zone: top-level evm.Call -> CreateETX
\* with all remaining gas
TopXSend ==
    /\ tx.phase = "begun" /\ tx.kind = "xsend" /\ "XCALL" \in OpKinds
    /\ tx' = [tx EXCEPT !.phase = "exec"]
    /\ frames' = <<Frame(tx.payer, "xsend", Snap, FALSE)>>
    /\ op' = [kind |-> "XCALL", pc |-> "regime", self |-> tx.payer,
              c |-> [dest |-> tx.to, amt |-> tx.v, gl |-> XGasClass(tx.g), fee |-> "zero", al |-> "empty"], tot |-> 0, fee |-> 0,
              exit |-> "-", status |-> -1, pushed |-> 0, dev |-> "-",
              bal0 |-> bal, etx0 |-> Len(etx), wq0 |-> wq, lock0 |-> lock, snap |-> Snap]
    /\ Silent
    /\ UNCHANGED <<bal, code, ncreated, sui, wq, lock, etx, gh, devs, blockOut, survAll, bdevs, ntx>>
----------------------------------------------------------------------------
\* End of the transaction: refundGas (remaining gas x price back to the payer), fees = gasUsed x price reported to
\* the block; applyTransaction: statedb.Finalize(true), receipt (outbound ETXs only when successful).
\* Inbound ETX: ApplyTransaction resets the zero address to its previous balance: the residual is BURNT.
UsedSet == IF tx.kind = "inbound" THEN {0}
           ELSE IF tx.hard THEN {tx.g}
           ELSE IF UsedMode = "all" THEN IntrinsicGas..tx.g
           ELSE {IntrinsicGas}

EtxView(e) == [k |-> e.k, to |-> e.to, val |-> e.val, idx |-> e.idx]
EtxViews(s) == [i \in 1..Len(s) |-> EtxView(s[i])]

TxEnd(used) ==
    /\ tx.phase = "ending" /\ used \in UsedSet
    /\ LET refund == (tx.g - used) * tx.p
           b1 == IF tx.kind = "inbound" THEN [bal EXCEPT !["Z"] = tx.zprev]             \* BurnResidual
                 ELSE [bal EXCEPT ![tx.payer] = @ + refund]
           zlost == IF tx.kind = "inbound" THEN bal["Z"] ELSE 0
           b2 == FinalBal(b1, sui)                                                      \* deletes self-destructed accounts
           slost == SumOver(b1, sui)
           ok == tx.status = "ok"
       IN  /\ bal' = b2
           /\ code' = FinalCode(code, sui)
           /\ gh' = [gh EXCEPT !.gas = used * tx.p, !.burnt = @ + zlost + slost, !.held = 0]
           /\ blockOut' = IF ok THEN blockOut \o EtxViews(etx) ELSE blockOut
           /\ survAll' = IF ok \/ "create-codestore-oog" \in devs THEN survAll \o EtxViews(etx) ELSE survAll
           /\ bdevs' = IF ~ok /\ etx # <<>> THEN bdevs \cup (devs \cap {"create-codestore-oog"}) ELSE bdevs
           /\ Log(Rec("txend", tx.payer, "-", 0, used, tx.p, [k |-> tx.kind, lim |-> tx.g, dropped |-> IF ok THEN 0 ELSE Len(etx)]) @@
                     [res |-> tx.status, out |-> IF ok THEN EtxViews(etx) ELSE <<>>],
                  MkObs(b2, 0, wq, lock, IF ok THEN 1 ELSE 0, -1, "end"), 1)
    /\ sui' = {} /\ etx' = <<>> /\ tx' = Idle
    /\ UNCHANGED <<ncreated, wq, lock, frames, op, devs, ntx>>

----------------------------------------------------------------------------
\* input classes -> numbers
AmtOf(cls, k, s) ==
    LET base == IF k = "UNWRAP" THEN wq[s] ELSE bal[s] IN
    CASE cls = "zero"  -> 0
      [] cls = "one"   -> 1
      [] cls = "minm1" -> MinConv - 1
      [] cls = "min"   -> MinConv
      [] cls = "bal"   -> base
      [] cls = "balp1" -> base + 1
      [] cls = "max"   -> MAXU

GlDom(k) == CASE k \in {"ETX", "CONVERT"} -> GlClasses \cap {"lt", "ok", "gt64"}
              [] k = "XCALL" -> GlClasses \cap {"ltetx", "lttx", "ok"}
              [] OTHER -> GlClasses \cap {"ok", "gtavail"}
FeeDom(k) == IF k = "ETX" THEN FeeClasses ELSE {"zero"}
AlDom(k) == CASE k = "ETX" -> AlClasses \cap {"empty", "good", "bad"}
              [] k = "CLAIM" -> {"match", "mismatch"}
              [] OTHER -> {"empty"}

OpBegin ==
    CanOp /\
    \E k \in OpKinds, d \in DestClasses, a \in AmtClasses : \E gl \in GlDom(k), fe \in FeeDom(k), al \in AlDom(k) :
        /\ k # "XCALL"      \* gasCall fails on a destination outside the Quai ledger of this zone: inside a contract
                            \* such a CALL is an out-of-gas halt of the frame (action Fail); CreateETX is reachable from
                            \* a top-level transaction only (TopXSend)
        /\ (k = "CLAIM" => (d = "elig" /\ a = "zero"))         \* the claim has no amount / destination class
        /\ Begin(k, [dest |-> d, amt |-> AmtOf(a, k, Cur.self), gl |-> gl, fee |-> fe, al |-> al])

ETX_Step ==
    \/ ETX_FailInScope \/ ETX_ScopeOk \/ ETX_FailGasTooBig \/ ETX_FailGasTooSmall \/ ETX_GasOk
    \/ ETX_FailFeeOverflow \/ ETX_FailTotalOverflow \/ ETX_Total \/ ETX_FailBalance \/ ETX_BalanceOk \/ ETX_Debit
    \/ ETX_FailAfterDebit_AccessList \/ ETX_AccessListOk \/ ETX_FailAfterDebit_CacheFull \/ ETX_IndexOk
    \/ ETX_Ineligible_NoPush \/ ETX_EligibleOk \/ ETX_Append
CONVERT_Step ==
    \/ CONVERT_FailNotInScope \/ CONVERT_FailNotQi \/ CONVERT_FailBelowMin \/ CONVERT_DestOk
    \/ CONVERT_FailRegime \/ CONVERT_RegimeOk \/ CONVERT_FailGasTooBig \/ CONVERT_FailGasTooSmall \/ CONVERT_GasOk
    \/ CONVERT_FailTotalOverflow \/ CONVERT_Total \/ CONVERT_FailBalance \/ CONVERT_BalanceOk \/ CONVERT_Debit
    \/ CONVERT_FailAfterDebit_CacheFull \/ CONVERT_IndexOk \/ CONVERT_Append
XCALL_Step ==
    \/ XCALL_FailCallBalance \/ XCALL_CallOk \/ XCALL_FailRegime \/ XCALL_RegimeOk \/ XCALL_FailQiOther
    \/ XCALL_FailBelowMin \/ XCALL_DestOk \/ XCALL_FailGasEtx \/ XCALL_FailGasTx \/ XCALL_GasOk \/ XCALL_Debit
    \/ XCALL_FailCacheFull \/ XCALL_IndexOk \/ XCALL_FailIneligible \/ XCALL_EligibleOk \/ XCALL_Append
UNWRAP_Step ==
    \/ UNWRAP_FailReadOnly \/ UNWRAP_FailGas \/ UNWRAP_GasOk \/ UNWRAP_FailDest \/ UNWRAP_ExternalBeneficiary_AbortsAllFrames \/ UNWRAP_DestOk \/ UNWRAP_FailNoBalance
    \/ UNWRAP_FailBalance \/ UNWRAP_BalanceOk \/ UNWRAP_Debit \/ UNWRAP_FailCacheFull \/ UNWRAP_IndexOk \/ UNWRAP_Append
CLAIM_Step ==
    \/ CLAIM_FailReadOnly \/ CLAIM_FailGas \/ CLAIM_GasOk \/ CLAIM_FailLedger \/ CLAIM_LedgerOk \/ CLAIM_FailNoRecord \/ CLAIM_FailLocked
    \/ CLAIM_RecordOk \/ CLAIM_Delete \/ CLAIM_FailAfterDelete_CacheFull \/ CLAIM_IndexOk \/ CLAIM_Append
OpStep ==
    \/ op.kind = "ETX" /\ ETX_Step
    \/ op.kind = "CONVERT" /\ CONVERT_Step
    \/ op.kind = "XCALL" /\ XCALL_Step
    \/ op.kind = "UNWRAP" /\ UNWRAP_Step
    \/ op.kind = "CLAIM" /\ CLAIM_Step

TxStart ==
    \/ \E payer \in EOAs \cup {"Q"}, kind \in TxKinds \ {"inbound"}, v \in TxValues, g \in GasLimits, p \in Prices,
          rg \in Regimes, pf \in Prefills :
          \/ kind = "call"   /\ \E t \in TxTargetSet : TxBegin(payer, kind, t, v, g, p, rg, pf)
          \/ kind = "pbad"   /\ TxBegin(payer, kind, "P", v, g, p, rg, pf)
          \/ kind = "create" /\ TxBegin(payer, kind, "N", v, g, p, rg, pf)
          \/ kind = "sdata"  /\ v = 0 /\ TxBegin(payer, kind, payer, 0, g, p, rg, pf)
          \/ kind = "kquai"  /\ v = 0 /\ TxBegin(payer, kind, "Q", 0, g, p, rg, pf)
          \/ kind = "xsend"  /\ pf = 0 /\ \E d \in DestClasses \ {"inscope"}, xg \in XGasLimits : TxBegin(payer, kind, d, v, xg, p, rg, 0)
    \/ \E t \in TxTargetSet \ {"Z"}, v \in TxValues, glc \in {"ok", "toohigh"}, rg \in Regimes, pf \in Prefills :
          EtxStage(t, v, glc, rg, pf)

Next ==
    \/ tx.phase = "idle" /\ ntx < MaxTx /\ TxStart
    \/ tx.phase = "begun" /\
          \/ TopCall \/ TopPCallFail \/ TopCreate \/ TopCreate_NoAddress \/ TopXSend \/ EtxGasLimitReached
          \/ \E b \in AllButN : TxSelfDestructByData(b, IntrinsicGas)
          \/ \E dc \in {"freeze", "garbage"} : TxKQuaiControl(dc, IntrinsicGas)
    \/ InFrame /\
          \/ "call" \in FrameKinds     /\ \E t \in CallTargetSet, v \in CallValues : Call(t, v)
          \/ "delegate" \in FrameKinds /\ \E t \in CallTargetSet : DelegateCall(t)
          \/ "callcode" \in FrameKinds /\ \E t \in CallTargetSet, v \in CallValues : CallCode(t, v)
          \/ "static" \in FrameKinds   /\ \E t \in CallTargetSet : StaticCall(t)
          \/ "pcall" \in FrameKinds    /\ \E v \in CallValues, oc \in {"ok", "bad", "lowgas"} : PCall(v, oc)
          \/ "create" \in FrameKinds   /\ \E v \in CallValues : Create(v) \/ Create_NoAddress(v)
          \/ "create2" \in FrameKinds  /\ \E v \in CallValues : Create2(v)
          \/ Stop \/ ReturnCode \/ Revert \/ Fail \/ Create_CodeStoreOOG_NotReverted
          \/ \E b \in BenefSet : SelfDestruct(b)
          \/ \E k \in WpOps : WriteProtected(k)
          \/ OpBegin
    \/ op.kind # "none" /\ (OpStep \/ OpDone)
    \/ tx.phase = "ending" /\ \E u \in UsedSet : TxEnd(u)

Spec == Init /\ [][Next]_vars

----------------------------------------------------------------------------
\* C02 ---------------------------------------------------------------------
TypeOK ==
    /\ bal \in [Acct -> Int]
    /\ tx.phase \in {"idle", "begun", "exec", "ending"}

\* balances never go negative
NoNegative == \A a \in Acct : bal[a] >= 0

\* the conserved quantity: what the accounts hold + gas currently kept from the payer + value carried away by
\* recorded ETXs + balance parked by the inbound staging - protocol credits (+ everything named burns destroyed)
Q == Total(bal) + gh.gas + gh.out + gh.held - gh.credits

\* executing never creates value ...
NoCreation == Q <= gh.sum0
\* ... and destroys it only in the named burn actions (self-destruct to self / into a deleted account, residual of
\* an inbound ETX, the un-refunded gas of the two TransitionDb branches without refundGas is gas charge, and the
\* named fail-after-debit deviations)
ExactUnlessBurn == Q + gh.burnt = gh.sum0
\* every recorded ETX carries exactly what was debited for it (fails only for the pre-fork wrapping debit)
EtxBacked == \A i \in 1..Len(etx) :
    (etx[i].k \in {"ETX", "CONVERT", "XCALL"} /\ ~Backed(etx[i]))
        => (etx[i].k \o "/prefork-wrap") \in devs \cup {op.kind \o "/" \o "prefork-wrap"}

LastRec == hist[Len(hist)]
AtTxEnd == hist # <<>> /\ LastRec.a \in {"txend", "sdata", "kquai"}

\* gasUsed x price <= charge <= gasLimit x price, where charge = what the payer lost to gas (gh.gas after the end);
\* the normal path charges exactly gasUsed x price, the two branches without refundGas the whole limit
ChargeWithinBounds ==
    (AtTxEnd /\ tx.phase = "idle" /\ LastRec.c.k # "inbound") =>
        /\ LastRec.g * LastRec.p <= gh.gas /\ gh.gas <= LastRec.c.lim * LastRec.p
        /\ LastRec.a = "txend" => gh.gas = LastRec.g * LastRec.p
        /\ LastRec.g >= IntrinsicGas

\* a failed transaction leaves every balance other than the fee payer's unchanged
\* (named deviation: creation failing with ErrCodeStoreOutOfGas)
FailedTxTouchesOnlyPayer ==
    (tx.phase = "ending" /\ tx.status = "failed" /\ tx.kind # "inbound") =>
        \/ \A a \in Acct \ {tx.payer} : bal[a] = tx.bal0[a]
        \/ "create-codestore-oog" \in devs
FailedEtxTouchesNothing ==
    (tx.phase = "ending" /\ tx.status = "failed" /\ tx.kind = "inbound") =>
        \A a \in Acct \ {"Z"} : bal[a] = tx.bal0[a]

\* C05 ---------------------------------------------------------------------
OpAsset(b, w, lk, k, s) == CASE k = "UNWRAP" -> w[s]
                             [] k = "CLAIM"  -> IF lk[s] = "unlocked" THEN LockVal ELSE 0
                             [] OTHER -> b[s]
OpIsDone == op.kind # "none" /\ op.pc = "done"
DAsset == OpAsset(bal, wq, lock, op.kind, op.self) - OpAsset(op.bal0, op.wq0, op.lock0, op.kind, op.self)
DEtx == Len(etx) - op.etx0

AllOrNothingStrict ==
    OpIsDone =>
        \/ /\ op.status = 1 /\ DEtx = 1
           /\ etx[Len(etx)].idx = op.etx0 + Prefill                              \* fresh index = position
           /\ etx[Len(etx)].val # MAXU
           /\ DAsset = -(etx[Len(etx)].val + etx[Len(etx)].fee)
        \/ /\ op.status = 0 /\ DEtx = 0 /\ DAsset = 0

\* the same, naming exactly the exits at which the code departs from it
KnownDirtyExits ==
    {<<"ETX", "accesslist-rlp">>, <<"ETX", "cache-overflow">>, <<"ETX", "ineligible">>, <<"ETX", "prefork-wrap">>,
     <<"CONVERT", "cache-overflow">>, <<"CONVERT", "prefork-wrap">>,
     <<"UNWRAP", "cache-overflow">>, <<"CLAIM", "cache-overflow">>}
AllOrNothing ==
    OpIsDone =>
        \/ AllOrNothingStrict
        \/ /\ <<op.kind, op.dev>> \in KnownDirtyExits
           /\ op.dev = "prefork-wrap" => (~PostSD(tx.rg) /\ op.c.amt = MAXU)
           /\ (op.kind = "UNWRAP" /\ op.dev = "cache-overflow") => ~LockupRevert(tx.rg)
           /\ op.dev = "cache-overflow" => NEtx(etx) > 65535

\* exactly one status word is pushed
StackDisciplineStrict == OpIsDone => op.pushed = 1
StackDiscipline == OpIsDone => (op.pushed = 1 \/ (op.kind = "ETX" /\ op.dev = "ineligible" /\ op.pushed = 0))

\* indices in the cache are the positions
IndexFresh == \A i \in 1..Len(etx) : etx[i].idx = i - 1 + Prefill

\* the outbound list committed by the receipts is the concatenation, in execution order, of the ETXs recorded by
\* successful, non-reverted operations (named deviation: the receipt of a creation transaction failing with
\* ErrCodeStoreOutOfGas drops ETXs whose debits were kept)
BlockOutboundIsConcatOfSurvivors == blockOut = survAll \/ "create-codestore-oog" \in bdevs
BlockOutboundStrict == blockOut = survAll

\* every in-progress operation can continue (the named exits cover all cases)
OpProgress == (op.kind # "none" /\ op.pc # "done") => ENABLED OpStep

\* emit the history behind every observable transition of the bounded state graph for replay on the implementation
\* (a history that stops inside a transaction is completed by the driver with STOPs; only its steps are compared).
\* Printing at the end of transactions only would lose the transitions into states that several paths reach.
EmitHist == (hist' # hist) => PrintT("@@" \o ToJson(hist'))
=============================================================================
