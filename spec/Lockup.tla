------------------------------- MODULE Lockup -------------------------------
(***************************************************************************)
(* Mining rewards and lockups of a go-quai zone chain (property C13).      *)
(*                                                                         *)
(* A tree of blocks.  Every block carries its own share (miner, ledger,    *)
(* lockup byte, data layout) and may include work shares (uncles).  The    *)
(* block InclDepth above a target height issues one reward per share of    *)
(* that height as a coinbase cross-chain transaction; rewards come back in *)
(* a later block of the same chain (field `arrive`), where                 *)
(*   plain Quai rewards are credited by the redemption scan exactly        *)
(*     Depth[byte] blocks later (less the account-creation fee when the    *)
(*     account is new, nothing if the reward cannot cover it),             *)
(*   Qi rewards become outputs locked until then,                          *)
(*   contract-held rewards accumulate into the tranche                     *)
(*     (contract, miner, byte, epoch) and are paid out by a claim of the   *)
(*     owning contract after the tranche unlock height, once.              *)
(*                                                                         *)
(* Anchors: core/state_processor.go Process (reward split -> coinbase ETXs,*)
(* coinbase execution branches), RedeemLockedQuai; core/worker.go (mirror);*)
(* core/vm/contracts.go AddNewLock / ClaimCoinbaseLockup;                  *)
(* core/headerchain_validation.go VerifyUncles; params                     *)
(* CalculateCoinbaseValueWithLockup.                                       *)
(*                                                                         *)
(* The ledger is a pure function of the chain: led[b] is the replay of the  *)
(* chain of b (operationally, in the order the code works); the invariants *)
(* state the property declaratively on every block of the tree, so reorgs  *)
(* across unlock heights are covered by construction.                      *)
(***************************************************************************)
EXTENDS Integers, Sequences, FiniteSets, TLC, SequencesExt, Json

CONSTANTS Miners,       \* coinbase identities (small integers)
          QiMiners,     \* those whose coinbase lies in the Qi ledger
          NewAccounts,  \* Quai miners whose account does not exist at genesis
          Contracts,    \* lockup-owner contracts with code (small integers > 0)
          NoCode,       \* contract addresses without code
          Depth,        \* Depth[byte + 1]: blocks a reward with that lockup byte stays locked
          Mult,         \* Mult[byte + 1]: lockup bonus in percent (100 = none)
          BonusStart,   \* height from which the bonus applies
          Epoch, InclDepth,
          MaxBlocks, MaxHeight,
          BaseReward, Fee,
          WorkShares,   \* pool of extra work shares (small integers)
          WSMiner(_), WSNumber(_), WSWeight(_), WSByte(_),   \* attributes of a work share, derived from its id
          CheckAmounts, \* FALSE for implementation traces (amounts are abstracted to 1 there, exactness is the oracle's job)
          DeepForks,    \* also fork two blocks below the head
          Profiles      \* what a block's miner may ask for: set of <<miner, byte, layout, contract>>

Gen == 0
VARIABLES blocks,  \* id -> block record (the tree; immutable once mined)
          led,     \* id -> ledger after that block (a function of the chain; kept to avoid recomputation)
          cur,     \* head
          step, hist
vars == <<blocks, led, cur, step, hist>>
view == <<blocks, cur, step>>
Ids == DOMAIN blocks

GenBlock == [parent |-> -1, height |-> 0, miner |-> 0, byte |-> 0, layout |-> "plain", contract |-> 0, uncles |-> {},
             issued |-> <<>>, arrive |-> <<>>, claims |-> <<>>]

RECURSIVE Chain(_)
Chain(b) == IF b = Gen THEN <<Gen>> ELSE Append(Chain(blocks[b].parent), b)
AncestorAt(b, h) == LET c == Chain(b) IN IF h >= 0 /\ h + 1 <= Len(c) THEN c[h + 1] ELSE -1
OnChain(a, b) == a \in {Chain(b)[i] : i \in 1..Len(Chain(b))}

OwnShare(k) == k               \* share ids: a block's own share is its id, pool shares are 100 + id
WS(k) == 100 + k
ShareNumber(s) == IF s >= 100 THEN WSNumber(s - 100) ELSE blocks[s].height
ShareWeight(s) == IF s >= 100 THEN WSWeight(s - 100) ELSE 2

----------------------------------------------------------------------------
\* reward issuance (Process: "go through the last WorkSharesInclusionDepth of blocks")
\* shares of the target height: the target block's own share, then the work shares of that height found in the
\* uncle lists of parent, grandparent, ..., target block, and of the issuing block itself
UnclesAtHeight(S, t) == SetToSortSeq({WS(k) : k \in {x \in S : WSNumber(x) = t}}, <)
\* for a block at height h on parent p including the work shares unc
ExpectedSharesFor(p, h, unc) ==
    LET t == h - InclDepth
        RECURSIVE Up(_, _)
        Up(x, n) == IF n = 0 \/ x = -1 THEN <<>> ELSE UnclesAtHeight(blocks[x].uncles, t) \o Up(blocks[x].parent, n - 1)
    IN  IF h <= InclDepth THEN <<>>
        ELSE <<OwnShare(AncestorAt(p, t))>> \o Up(p, InclDepth) \o UnclesAtHeight(unc, t)
ExpectedShares(b) == ExpectedSharesFor(blocks[b].parent, blocks[b].height, blocks[b].uncles)

RECURSIVE SumAmounts(_, _)
SumAmounts(seq, i) == IF i > Len(seq) THEN 0 ELSE seq[i].amt + SumAmounts(seq, i + 1)
RECURSIVE SumCredits(_)
SumCredits(S) == IF S = {} THEN 0 ELSE LET c == CHOOSE x \in S : TRUE IN c[3] + SumCredits(S \ {c})
RECURSIVE SumWeights(_, _)
SumWeights(seq, i) == IF i > Len(seq) THEN 0 ELSE ShareWeight(seq[i]) + SumWeights(seq, i + 1)
ShareAmount(seq, i) == (BaseReward * ShareWeight(seq[i])) \div SumWeights(seq, 1)

\* what the miner of share s asked for (own share: the block's header fields; pool share: fixed attributes)
AttrOf(s) == IF s >= 100 THEN [miner |-> WSMiner(s - 100), byte |-> WSByte(s - 100), layout |-> "plain", contract |-> 0]
             ELSE [miner |-> blocks[s].miner, byte |-> blocks[s].byte, layout |-> blocks[s].layout, contract |-> blocks[s].contract]

\* a reward: [id, share, miner, byte, layout, contract, amt]
IssuedFor(id, p, h, unc) ==
    LET seq == ExpectedSharesFor(p, h, unc)
    IN  [i \in 1..Len(seq) |->
           LET a == AttrOf(seq[i])
           IN  [id |-> id * 10 + i, share |-> seq[i], miner |-> a.miner, byte |-> a.byte, layout |-> a.layout, contract |-> a.contract,
                amt |-> ShareAmount(seq, i)]]

\* rewards issued on the chain of b that have not arrived yet, in issuance order: kept in the ledger (field out)
Outstanding(b) == led[b].out

----------------------------------------------------------------------------
\* the ledger, replayed operationally along the chain
Adjust(amt, byte, h) == IF byte = 0 \/ h < BonusStart THEN amt ELSE (amt * Mult[byte + 1]) \div 100
IsQi(m) == m \in QiMiners
EpochOf(h) == (h \div Epoch) + 1
Key(r, h) == <<r.contract, r.miner, r.byte, EpochOf(h)>>

EmptyLedger == [bal |-> [m \in Miners |-> 0], exists |-> Miners \ NewAccounts,
                credits |-> {},   \* <<reward id, height, amount, miner, byte, arrival height, adjusted amount>>: plain Quai rewards credited
                mints |-> {},     \* <<reward id, lock height, amount, byte, arrival height>>: Qi outputs
                locks |-> {},     \* [key, rs (set of <<reward id, amount, arrival height>>), unlock]: live tranche records
                paid |-> {},      \* [key, rs, height, caller]: claims paid
                lost |-> {},      \* reward ids that can never be spent (malformed data, no code, fee not covered)
                arr |-> {},       \* [r, h]: every reward that arrived on this chain, with its arrival height
                iss |-> <<>>,     \* every reward issued on this chain
                out |-> <<>>,     \* issued, not yet arrived (in issuance order)
                uncles |-> {}, nunc |-> 0]   \* work shares included on this chain, and how many inclusions there were

\* RedeemLockedQuai: for each depth in table order, the rewards that arrived Depth blocks ago
RECURSIVE RedeemSeq(_, _, _, _, _)
RedeemSeq(L, seq, i, d, h) ==
    IF i > Len(seq) THEN L
    ELSE LET r == seq[i] IN
         IF IsQi(r.miner) \/ r.layout # "plain" \/ Depth[r.byte + 1] # d THEN RedeemSeq(L, seq, i + 1, d, h)
         ELSE LET a == Adjust(r.amt, r.byte, h) IN
              IF r.miner \in L.exists
              THEN RedeemSeq([L EXCEPT !.bal[r.miner] = @ + a, !.credits = @ \cup {<<r.id, h, a, r.miner, r.byte, h - d, a, r.amt>>}], seq, i + 1, d, h)
              ELSE IF a >= Fee
                   THEN RedeemSeq([L EXCEPT !.bal[r.miner] = @ + a - Fee, !.exists = @ \cup {r.miner},
                                            !.credits = @ \cup {<<r.id, h, a - Fee, r.miner, r.byte, h - d, a, r.amt>>}], seq, i + 1, d, h)
                   ELSE RedeemSeq([L EXCEPT !.lost = @ \cup {r.id}], seq, i + 1, d, h)

RECURSIVE RedeemAll(_, _, _, _)
RedeemAll(L, p, h, k) ==        \* p: parent of the block being executed, h: its height
    IF k > Len(Depth) THEN L
    ELSE LET d == Depth[k]
             a == AncestorAt(p, h - d)
         IN  IF h <= d \/ a = -1 THEN RedeemAll(L, p, h, k + 1)
             ELSE RedeemAll(RedeemSeq(L, blocks[a].arrive, 1, d, h), p, h, k + 1)

\* Process, coinbase branches, for the rewards that arrive in block b
LockOf(L, key) == {x \in L.locks : x.key = key}
AddNewLock(L, r, h) ==
    LET key == Key(r, h)
        a   == Adjust(r.amt, r.byte, h)
        old == LockOf(L, key)
        ul  == h + Depth[r.byte + 1]
    IN  IF old = {}
        THEN [L EXCEPT !.locks = @ \cup {[key |-> key, rs |-> {<<r.id, a, h>>}, unlock |-> ul - (ul % Epoch)]}]
        ELSE LET o == CHOOSE x \in old : TRUE
             IN  [L EXCEPT !.locks = (@ \ old) \cup {[o EXCEPT !.rs = @ \cup {<<r.id, a, h>>}]}]

RECURSIVE ArriveSeq(_, _, _, _)
ArriveSeq(L, seq, i, h) ==
    IF i > Len(seq) THEN L
    ELSE LET r == seq[i] IN
         IF r.layout = "malformed" THEN ArriveSeq([L EXCEPT !.lost = @ \cup {r.id}], seq, i + 1, h)
         ELSE IF r.layout \in {"contract", "delegate"}
              THEN IF r.contract \in Contracts THEN ArriveSeq(AddNewLock(L, r, h), seq, i + 1, h)
                   ELSE ArriveSeq([L EXCEPT !.lost = @ \cup {r.id}], seq, i + 1, h)
         ELSE IF IsQi(r.miner)
              THEN ArriveSeq([L EXCEPT !.mints = @ \cup {<<r.id, h + Depth[r.byte + 1], Adjust(r.amt, r.byte, h), r.byte, h>>}], seq, i + 1, h)
              ELSE ArriveSeq(L, seq, i + 1, h)       \* plain Quai: credited by the redemption scan later

\* ClaimCoinbaseLockup: the record is looked up under the CALLER's address
ClaimOK(L, c, h) ==
    LET recs == LockOf(L, <<c.caller, c.miner, c.byte, c.epoch>>)
    IN  /\ recs # {}
        /\ c.epoch < EpochOf(h)
        /\ (CHOOSE x \in recs : TRUE).unlock <= h
RECURSIVE ClaimSeq(_, _, _, _)
ClaimSeq(L, seq, i, h) ==
    IF i > Len(seq) THEN L
    ELSE LET c == seq[i] IN
         IF ClaimOK(L, c, h)
         THEN LET recs == LockOf(L, <<c.caller, c.miner, c.byte, c.epoch>>)
                  o == CHOOSE x \in recs : TRUE
              IN  ClaimSeq([L EXCEPT !.locks = @ \ recs, !.paid = @ \cup {[key |-> o.key, rs |-> o.rs, height |-> h, caller |-> c.caller]}], seq, i + 1, h)
         ELSE ClaimSeq(L, seq, i + 1, h)

StepLedger(L, p, rec) ==
    LET h  == rec.height
        L1 == ClaimSeq(ArriveSeq(RedeemAll(L, p, h, 1), rec.arrive, 1, h), rec.claims, 1, h)
        got == {rec.arrive[i].id : i \in DOMAIN rec.arrive}
    IN  [L1 EXCEPT !.arr = @ \cup {[r |-> rec.arrive[i], h |-> h] : i \in DOMAIN rec.arrive},
                   !.iss = @ \o rec.issued,
                   !.uncles = @ \cup rec.uncles, !.nunc = @ + Cardinality(rec.uncles),
                   !.out = SelectSeq(@, LAMBDA r : r.id \notin got) \o rec.issued]

----------------------------------------------------------------------------
Init == /\ blocks = (Gen :> GenBlock) /\ led = (Gen :> EmptyLedger) /\ cur = Gen /\ step = 0 /\ hist = <<>>

\* VerifyUncles: a work share may be included if it is recent and not already included by one of the last
\* InclDepth ancestors (nor twice in the block itself: uncles is a set)
IncludableShares(p, h) ==
    LET c == Chain(p)
        recent == {c[i] : i \in {j \in 1..Len(c) : j > Len(c) - InclDepth}}
        banned == UNION {blocks[a].uncles : a \in recent}
    IN  {k \in WorkShares : WSNumber(k) <= h /\ WSNumber(k) + InclDepth >= h /\ k \notin banned}

AddBlock(id, rec) ==
    /\ blocks' = blocks @@ (id :> rec)
    /\ \E L \in {StepLedger(led[rec.parent], rec.parent, rec)} : led' = led @@ (id :> L)
    /\ cur' = id
    /\ step' = step + 1
    /\ hist' = Append(hist, [op |-> "mine", b |-> id, p |-> rec.parent, h |-> rec.height, miner |-> rec.miner, qi |-> IsQi(rec.miner),
                             byte |-> rec.byte, layout |-> rec.layout, contract |-> rec.contract, uncles |-> SetToSortSeq(rec.uncles, <),
                             narrive |-> Len(rec.arrive), claims |-> rec.claims])

MineBlock(p, m, y, lay, k, unc, n, cl) ==
    LET id == Cardinality(Ids)
        h  == blocks[p].height + 1
    IN  /\ id < MaxBlocks /\ h <= MaxHeight
        /\ (lay \in {"plain", "malformed"} => k = 0) /\ (lay \in {"contract", "delegate"} => k # 0)
        /\ unc \subseteq IncludableShares(p, h)
        /\ n <= Len(Outstanding(p))
        /\ AddBlock(id, [parent |-> p, height |-> h, miner |-> m, byte |-> y, layout |-> lay, contract |-> k, uncles |-> unc,
                         issued |-> IssuedFor(id, p, h, unc), arrive |-> SubSeq(Outstanding(p), 1, n), claims |-> cl])

\* claim attempts worth exploring on parent p: every live or already paid tranche, by every contract (owner or not)
ClaimCands(p) ==
    LET L == led[p]
        keys == {x.key : x \in L.locks} \cup {x.key : x \in L.paid}
    IN  {[caller |-> c, miner |-> k[2], byte |-> k[3], epoch |-> k[4]] : c \in Contracts, k \in keys}
ClaimLists(p) == {<<>>} \cup {<<c>> : c \in ClaimCands(p)} \cup {<<c, c>> : c \in ClaimCands(p)}

SetHead(b) == /\ b \in Ids /\ b # cur
              /\ cur' = b /\ step' = step + 1
              /\ hist' = Append(hist, [op |-> "sethead", b |-> b])
              /\ UNCHANGED <<blocks, led>>

\* Exploration bounds: a fork starts at the head's parent or grandparent and only while the tree is a path (one reorg
\* per behaviour); every includable work share is included; outstanding rewards arrive all together or not yet.
IsPath == Cardinality(Ids) = blocks[cur].height + 1
Parents == {cur} \cup (IF IsPath /\ cur # Gen THEN {blocks[cur].parent} ELSE {})
                 \cup (IF IsPath /\ cur # Gen /\ blocks[cur].parent # Gen /\ DeepForks THEN {blocks[blocks[cur].parent].parent} ELSE {})
Next ==
    /\ step < MaxBlocks + 1
    /\ \/ \E p \in Parents, pr \in Profiles :
             \E n \in {0, Len(Outstanding(p))}, cl \in ClaimLists(p) :
                 MineBlock(p, pr[1], pr[2], pr[3], pr[4], IncludableShares(p, blocks[p].height + 1), n, cl)
       \/ \E b \in Ids : SetHead(b) /\ blocks[cur].height > blocks[b].height /\ ~OnChain(b, cur)   \* back to the other branch
Spec == Init /\ [][Next]_vars

----------------------------------------------------------------------------
\* PROPERTY C13 (declarative; stated for the head: every block of the tree is the head when it is mined, and again
\* after a head switch, so every chain of the tree is judged)
RewardsIssuedOn(b) == led[b].iss
ArrOf(b, rid) == CHOOSE x \in led[b].arr : x.r.id = rid
ArrivalHeight(b, rid) == ArrOf(b, rid).h
RewardById(b, rid) == ArrOf(b, rid).r

\* a share is rewarded at most once on any chain, and a work share is included at most once on any chain
ShareRewardedAtMostOncePerChain ==
    \A b \in {cur} :
        LET iss == RewardsIssuedOn(b) IN
        /\ Cardinality({iss[i].share : i \in DOMAIN iss}) = Len(iss)          \* no share rewarded twice
        /\ Cardinality({iss[i].id : i \in DOMAIN iss}) = Len(iss)
        /\ Cardinality(led[b].uncles) = led[b].nunc                         \* no work share included twice
        /\ Cardinality({x.r.id : x \in led[b].arr}) = Cardinality(led[b].arr)   \* no reward delivered twice

\* rewards are issued only for the shares of the block InclDepth below, with the split formula
RewardAmountIsFormula ==
    \A b \in {cur} \ {Gen} :
        LET iss == blocks[b].issued
            exp == ExpectedShares(b)
            pos(sh) == CHOOSE i \in DOMAIN exp : exp[i] = sh
        IN  /\ Len(iss) = Len(exp)
            /\ {iss[i].share : i \in DOMAIN iss} = {exp[i] : i \in DOMAIN exp}        \* exactly the shares of the target height
            /\ (iss # <<>> => iss[1].share = exp[1])                                  \* the target block's own share first
            /\ \A i \in DOMAIN iss : ShareNumber(iss[i].share) = blocks[b].height - InclDepth
            /\ \A i \in DOMAIN iss : iss[i].miner = AttrOf(iss[i].share).miner /\ iss[i].byte = AttrOf(iss[i].share).byte
            /\ CheckAmounts => (/\ \A i \in DOMAIN iss : iss[i].amt = ShareAmount(exp, pos(iss[i].share))
                                /\ SumAmounts(iss, 1) <= BaseReward)

\* a plain Quai reward is credited in exactly the block Depth[byte] above its arrival: not earlier, not later, once
CreditExactlyAtUnlock ==
    \A b \in {cur} :
        LET L == led[b] IN
        /\ \A c \in L.credits : c[2] = c[6] + Depth[c[5] + 1]
        /\ Cardinality({c[1] : c \in L.credits}) = Cardinality(L.credits)
        /\ {x.r.id : x \in {y \in L.arr : ~IsQi(y.r.miner) /\ y.r.layout = "plain" /\ y.h + Depth[y.r.byte + 1] <= blocks[b].height}}
              \subseteq ({c[1] : c \in L.credits} \cup L.lost)
        /\ {<<c[1], c[6], c[8], c[5]>> : c \in L.credits} \subseteq {<<x.r.id, x.h, x.r.amt, x.r.byte>> : x \in L.arr}
        /\ \A m \in L.mints : m[2] = m[5] + Depth[m[4] + 1]

\* with exactly the lockup-adjusted amount (less the account-creation fee once per new account)
CreditAmountExact ==
    \A b \in {cur} :
        LET L == led[b] IN
        /\ \A c \in L.credits : (c[3] = c[7] \/ c[3] = c[7] - Fee) /\ c[7] = Adjust(c[8], c[5], c[2])
        /\ \A m \in Miners : Cardinality({c \in L.credits : c[4] = m /\ c[3] # c[7]}) <= (IF m \in NewAccounts THEN 1 ELSE 0)
        /\ \A m \in Miners : L.bal[m] = SumCredits({c \in L.credits : c[4] = m})

\* a tranche is paid only to its owner, only after its unlock height and after its epoch ended, and only once
ClaimOnlyOwnerAfterUnlockOnce ==
    \A b \in {cur} :
        LET L == led[b] IN
        /\ \A p \in L.paid : p.caller = p.key[1] /\ p.key[4] < EpochOf(p.height)
                               /\ \A x \in p.rs : x[3] <= p.height
        /\ \A p, q \in L.paid : p # q => {x[1] : x \in p.rs} \cap {x[1] : x \in q.rs} = {}
        /\ \A p \in L.paid, x \in L.locks : {y[1] : y \in p.rs} \cap {y[1] : y \in x.rs} = {}

\* and pays exactly what accumulated in it: every reward that arrived for (contract, miner, byte) in that epoch
ClaimAmountIsAccumulated ==
    \A b \in {cur} :
        LET L == led[b] IN
        \A p \in L.paid :
            {x[1] : x \in p.rs} =
              {x.r.id : x \in {y \in L.arr : /\ y.r.layout \in {"contract", "delegate"} /\ y.r.contract \in Contracts
                                            /\ <<y.r.contract, y.r.miner, y.r.byte, EpochOf(y.h)>> = p.key
                                            /\ y.h <= p.height}}

\* reachability probes (expected to be violated: used to show that the bounded model reaches the interesting states)
ProbeNoCredit == led[cur].credits = {}
ProbeNoFeeCredit == \A c \in led[cur].credits : RewardById(cur, c[1]).miner \notin NewAccounts
ProbeNoPaid == led[cur].paid = {}
ProbeNoMint == led[cur].mints = {}
ProbeNoReorgCredit == ~(\E b \in Ids : ~OnChain(b, cur) /\ led[b].credits # {} /\ led[cur].credits # {})

TypeOK == cur \in Ids /\ \A b \in Ids \ {Gen} : blocks[b].parent \in Ids /\ blocks[b].height = blocks[blocks[b].parent].height + 1

EmitHist == IF step' = MaxBlocks + 1 \/ Cardinality(DOMAIN blocks') = MaxBlocks THEN PrintT("@@" \o ToJson(hist')) ELSE TRUE
=============================================================================
