------------------------------ MODULE EtxRoute ------------------------------
(***************************************************************************)
(* Cross-chain transaction (ETX) routing of go-quai on the deployed        *)
(* topology (one region, one zone; every ETX that can be emitted there -   *)
(* coinbase, conversion, wrap/unwrap, lockup claim - travels zone ->       *)
(* region -> prime -> region -> zone).  A zone block tree with block       *)
(* orders (0 prime, 1 region, 2 zone), the ETXs each block emits and the   *)
(* inbound ETXs it executes; from these the specification DEFINES          *)
(*   Rollup(R)   what a region-coincident block hands to prime             *)
(*               (core/slice.go Append: pending ETXs of the blocks in its  *)
(*               manifest, core/headerchain.go CollectSubRollup),          *)
(*   Inbound(P)  what a prime-coincident block makes available to the zone *)
(*               (Slice.CollectNewlyConfirmedEtxs + the prime branch of    *)
(*               Append, which stable-sorts conversions first),            *)
(*   Queue(b)    the destination queue committed by EtxSetRoot             *)
(*               (StateDB.PushETXs of the parent's inbound set, PopETX per *)
(*               executed ETX - core/state_processor.go Process).          *)
(* Decides C04.                                                            *)
(***************************************************************************)
EXTENDS Integers, Sequences, FiniteSets, TLC, SequencesExt, Json

CONSTANTS MaxBlocks, MaxEmit, MinInclusion   \* MinInclusion: a block must empty the queue or execute at least this many

Gen == 0
VARIABLES blocks,   \* id -> [parent, order, emit (seq of <<id, conv>>), exec (seq of etx ids)]
          queue,    \* id -> the destination queue committed by the block (kept incrementally, as the state trie does)
          accR,     \* id -> emissions since the nearest region-coincident ancestor-or-self (what the next region block rolls up)
          accP,     \* id -> rollups since the nearest prime-coincident ancestor-or-self (what the next prime block confirms)
          nextEtx, hist
vars == <<blocks, queue, accR, accP, nextEtx, hist>>
view == <<blocks, queue, accR, accP>>
Ids == DOMAIN blocks

RECURSIVE Chain(_)
Chain(b) == IF b = Gen THEN <<Gen>> ELSE Append(Chain(blocks[b].parent), b)

RegionCoincident(b) == blocks[b].order <= 1
PrimeCoincident(b) == blocks[b].order = 0

EmitIds(b) == [i \in DOMAIN blocks[b].emit |-> blocks[b].emit[i][1]]

\* ---- DECLARATIVE definitions over the block tree
\* zone blocks X with prevRC(R) <= X < R, in chain order: the manifest of region-coincident block R
RECURSIVE ManifestBack(_)
ManifestBack(x) == \* x and its ancestors back to (and including) the nearest region-coincident one
    IF x = Gen \/ RegionCoincident(x) THEN <<x>> ELSE Append(ManifestBack(blocks[x].parent), x)
RegionManifest(R) == IF R = Gen THEN <<>> ELSE ManifestBack(blocks[R].parent)

Rollup(R) == FoldLeft(LAMBDA acc, x : acc \o blocks[x].emit, <<>>, RegionManifest(R))

\* region-coincident blocks R with prevPrime(P) <= R < P: the manifest of prime block P
RECURSIVE PrimeBack(_)
PrimeBack(x) ==
    IF x = Gen \/ PrimeCoincident(x) THEN <<x>>
    ELSE IF RegionCoincident(x) THEN Append(PrimeBack(blocks[x].parent), x)
    ELSE PrimeBack(blocks[x].parent)
PrimeManifest(P) == IF P = Gen THEN <<>> ELSE PrimeBack(blocks[P].parent)

\* conversions first (the prime chain stable-sorts by slip, every other ETX has slip 0), emission order otherwise
ConvFirst(s) == SelectSeq(s, LAMBDA e : e[2] = 1) \o SelectSeq(s, LAMBDA e : e[2] = 0)
Inbound(P) ==
    IF P = Gen \/ ~PrimeCoincident(P) THEN <<>>
    ELSE LET all == FoldLeft(LAMBDA acc, r : acc \o Rollup(r), <<>>, PrimeManifest(P))
             s == ConvFirst(all)
         IN [i \in DOMAIN s |-> s[i][1]]

\* what the executor of block b finds: the parent's queue with the parent's inbound set pushed behind it
RECURSIVE Queue(_)
Avail(b) == IF b = Gen THEN <<>> ELSE Queue(blocks[b].parent) \o Inbound(blocks[b].parent)
Queue(b) == IF b = Gen THEN <<>>
            ELSE LET av == Avail(b) IN SubSeq(av, Len(blocks[b].exec) + 1, Len(av))

\* ---- the same, INCREMENTALLY, as the dominant chains keep pending ETXs / rollups and the state trie keeps the queue
InboundI(P) ==
    IF P = Gen \/ ~PrimeCoincident(P) THEN <<>>
    ELSE LET s == ConvFirst(accP[blocks[P].parent]) IN [i \in DOMAIN s |-> s[i][1]]

\* when block id (parent p) is appended: a region-coincident block rolls up accR[p] (its manifest) and starts a new
\* accumulation with its own emissions; a prime-coincident block consumes accP[p] and starts with its own rollup
Accumulate(id, p, order, emit) ==
    /\ accR' = accR @@ (id :> IF order <= 1 THEN emit ELSE accR[p] \o emit)
    /\ accP' = accP @@ (id :> IF order = 0 THEN accR[p]
                              ELSE IF order = 1 THEN accP[p] \o accR[p]
                              ELSE accP[p])

\* validity of a block's inbound part: exactly the next queue items, and not fewer than the rule demands
ExecValid(p, exec) ==
    LET av == queue[p] \o InboundI(p) IN
    /\ Len(exec) <= Len(av) /\ exec = SubSeq(av, 1, Len(exec))
    /\ (Len(exec) = Len(av) \/ Len(exec) >= MinInclusion)

Init == /\ blocks = (Gen :> [parent |-> -1, order |-> 0, emit |-> <<>>, exec |-> <<>>])
        /\ queue = (Gen :> <<>>) /\ accR = (Gen :> <<>>) /\ accP = (Gen :> <<>>)
        /\ nextEtx = 1 /\ hist = <<>>

Mine(p, order, nEmit, convMask, nExec) ==
    /\ Cardinality(Ids) <= MaxBlocks
    /\ LET av == queue[p] \o InboundI(p)
           exec == SubSeq(av, 1, nExec)
           emit == [i \in 1..nEmit |-> <<nextEtx + i - 1, IF i \in convMask THEN 1 ELSE 0>>]
           id == Cardinality(Ids) IN
       /\ nExec <= Len(av) /\ ExecValid(p, exec)
       /\ blocks' = blocks @@ (id :> [parent |-> p, order |-> order, emit |-> emit, exec |-> exec])
       /\ queue' = queue @@ (id :> SubSeq(av, nExec + 1, Len(av)))
       /\ Accumulate(id, p, order, emit)
       /\ nextEtx' = nextEtx + nEmit
       /\ hist' = Append(hist, [op |-> "mine", b |-> id, p |-> p, order |-> order, emit |-> emit, exec |-> exec])

\* bounded exploration: parents among the two most recent blocks (one fork at a time), inbound part either
\* everything available or exactly the minimum
Next == \E p \in {x \in Ids : x + 2 >= Cardinality(Ids)}, order \in 0..2, nEmit \in 0..MaxEmit :
            \E convMask \in {{}, 1..nEmit} :
                LET n == Len(queue[p] \o InboundI(p)) IN
                \E nExec \in {n, IF n > MinInclusion THEN MinInclusion ELSE n} : Mine(p, order, nEmit, convMask, nExec)
Spec == Init /\ [][Next]_vars

----------------------------------------------------------------------------
SeqToSet(s) == {s[i] : i \in DOMAIN s}
NoDup(s) == \A i, j \in DOMAIN s : i # j => s[i] # s[j]
Concat(f(_), ch) == FoldLeft(LAMBDA acc, x : acc \o f(x), <<>>, ch)

ExecAlong(b) == Concat(LAMBDA x : blocks[x].exec, Chain(b))
InboundAlong(b) == Concat(Inbound, Chain(b))
EmittedAlong(b) == Concat(EmitIds, Chain(b))

\* C04 on every chain of the tree:
\* delivered at most once, executed at most once
AtMostOnce == \A b \in Ids : NoDup(InboundAlong(b)) /\ NoDup(ExecAlong(b))
\* everything delivered was emitted on this very chain (nothing unknown, nothing from another branch)
OnlyEmitted == \A b \in Ids : SeqToSet(InboundAlong(b)) \subseteq SeqToSet(EmittedAlong(b))
\* executed ++ still queued ++ just made available == everything delivered so far, in delivery order
OrderFixedByDom == \A b \in Ids : ExecAlong(b) \o queue[b] \o Inbound(b) = InboundAlong(b)
\* the incrementally kept queue / inbound sets are the declaratively defined ones
QueueIsDefined == \A b \in Ids : queue[b] = Queue(b)
InboundIsDefined == \A b \in Ids : InboundI(b) = Inbound(b)
\* none lost: an ETX emitted by X is delivered by the first prime block after the first region-coincident block after X
ProperAnc(y) == IF y = Gen THEN {} ELSE SeqToSet(Chain(blocks[y].parent))
Delivered(b, x) == \E r, pp \in SeqToSet(Chain(b)) :
                      /\ RegionCoincident(r) /\ PrimeCoincident(pp)
                      /\ x \in ProperAnc(r) /\ r \in ProperAnc(pp)
NoneLost == \A b \in Ids : \A x \in SeqToSet(Chain(b)) :
                Delivered(b, x) => SeqToSet(EmitIds(x)) \subseteq SeqToSet(InboundAlong(b))
NotEarly == \A b \in Ids : \A x \in SeqToSet(Chain(b)) :
                ~Delivered(b, x) => SeqToSet(EmitIds(x)) \cap SeqToSet(InboundAlong(b)) = {}

EmitHist == PrintT("@@" \o ToJson(hist'))
=============================================================================
