SPECIFICATION TraceSpec
CONSTANTS
  Keys <- TraceKeys
  Vals <- TraceVals
  IterPrefixes <- TraceKeys
  IterStarts <- TraceKeys
  Batches <- TraceBatches
  MaxOps = 100000
  MaxBatch = 100000
INVARIANTS ObservationsConform IterSorted PendingOnlyWhenOn
POSTCONDITION TraceAccepted
CHECK_DEADLOCK FALSE
