SPECIFICATION Spec
CONSTANTS
  NSym = 3
  Keys <- KC
  Vals <- V1
  CheckKeys <- KC
  MaxOps = 5
  Ops <- OpsCopy
  KeepHist = TRUE
VIEW view
INVARIANTS TypeOK Canonical GetMatchesContent OtherCanonical
ACTION_CONSTRAINT EmitHist
CHECK_DEADLOCK FALSE
