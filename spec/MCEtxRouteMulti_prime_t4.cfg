SPECIFICATION Spec
CONSTANTS
  Ctx = 0
  Locs <- PrimeLocs
  DestSeq <- PrimeDests
  MaxBlocks = 4
  ForkWindow = 2
  ExpChoices <- ExpPrime
  SubChoices <- SubAlt
  Canonical = FALSE
  MaxQueries = 1
  RestartChoices <- Cold
  SeedCacheKey = FALSE
INVARIANTS WalkIsDefined AtMostOnce OnlyAtDestination NoneLost NotEarly OnlyViaPrime OrderFixedByDom RoutesPartition IntraRegionStaysBelowPrime CacheCoherent CacheTransparent
ACTION_CONSTRAINT EmitHist
CHECK_DEADLOCK FALSE
