SPECIFICATION FairSpec
CONSTANTS
  NA = 2
  MaxNonce = 0
  Prices <- P1
  InitBal <- BalAll3
  BalChoices <- BalSet1
  BodyPrices <- P1
  MaxBody = 1
  MaxBlocks = 1
  MaxReorg = 0
  Floors <- FNone
  AccountSlots = 1
  GlobalSlots = 2
  AccountQueue = 2
  GlobalQueue = 2
  PriceBump = 60
  MaxOps = 3
  ChanCap = 1
  Fused = FALSE
  EvictAllOnly = TRUE
  KeepHist = FALSE
INVARIANTS TypeOK IndexesAgree
PROPERTIES RequestEventuallyServed ResetEventuallyServed SenderEventuallyUnblocked
CHECK_DEADLOCK TRUE
