SPECIFICATION Spec
CONSTANTS
  EOAs <- E1
  Contracts <- K1
  InitBal <- BalReal11
  InitWq <- WqReal11
  InitLock <- Lock11
  LockVal = 1000000
  LowGas = 20000
  GasUnit = 700000
  MaxGasSteps = 2
  Prices <- P1
  IntrinsicGas = 21000
  TxGas = 21000
  Rent = 24914
  MinConv = 2000000
  TxValues <- RV02
  CallValues <- RV0
  Regimes <- RAll
  Prefills <- PFEdge
  TxKinds <- TKCallX
  OpKinds <- OKAll
  DestClasses <- DAll
  AmtClasses <- AAll
  GlClasses <- GAll
  FeeClasses <- FAll
  AlClasses <- ALAll
  FrameKinds <- FKOld
  CallTargets <- AnyAcct
  TxTargets <- AnyAcct
  Benefs <- AnyAcct
  WpOps <- WPNone
  MaxDepth = 1
  MaxFrameOps = 1
  MaxTx = 1
  UsedMode = "one"
  GrindFail = FALSE
VIEW view
INVARIANTS TypeOK NoNegative NoCreation ExactUnlessBurn EtxBacked ChargeWithinBounds FailedTxTouchesOnlyPayer FailedEtxTouchesNothing AllOrNothing StackDiscipline IndexFresh BlockOutboundIsConcatOfSurvivors
ACTION_CONSTRAINT EmitHist
CHECK_DEADLOCK FALSE
