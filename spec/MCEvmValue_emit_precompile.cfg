SPECIFICATION Spec
CONSTANTS
  EOAs <- E1
  Contracts <- K1
  InitBal <- BalReal11
  InitWq <- WqReal11
  InitLock <- Lock11
  LockVal = 1000000
  LowGas = 20000
  GasUnit = 700000
  MaxGasSteps = 2
  Prices <- P1
  IntrinsicGas = 21000
  TxGas = 21000
  Rent = 24914
  MinConv = 2000000
  TxValues <- RV01
  CallValues <- RV01
  Regimes <- RG
  Prefills <- PF0
  TxKinds <- TKPre
  OpKinds <- OKNone
  DestClasses <- DAll
  AmtClasses <- AAll
  GlClasses <- GAll
  FeeClasses <- FAll
  AlClasses <- ALAll
  FrameKinds <- FKPre
  CallTargets <- TTK1
  TxTargets <- TTK1P
  Benefs <- BFK1
  WpOps <- WPNone
  MaxDepth = 2
  MaxFrameOps = 2
  MaxTx = 1
  UsedMode = "one"
  GrindFail = FALSE
VIEW view
INVARIANTS TypeOK NoNegative NoCreation ExactUnlessBurn EtxBacked ChargeWithinBounds FailedTxTouchesOnlyPayer FailedEtxTouchesNothing AllOrNothing StackDiscipline IndexFresh BlockOutboundIsConcatOfSurvivors
ACTION_CONSTRAINT EmitHist
CHECK_DEADLOCK FALSE
