SPECIFICATION Spec
CONSTANTS
  ELocs <- L6
  MaxOps = 3
INVARIANTS EligibleIffStarted NoAliasing NothingElseSet
ACTION_CONSTRAINT EmitHist
CHECK_DEADLOCK FALSE
