SPECIFICATION Spec
CONSTANTS
  OpFacts <- SoundFacts
  Sizes <- SizesBig
  ConstGas <- Const2
  OtherGas <- Other1
  Gives <- Gives2
  GasLimit = 9000
  MaxOps = 5
  MaxDepth = 3
VIEW view
INVARIANTS TypeOK MemoryPaid TotalMemoryPaid
PROPERTIES GrowthCharged
CHECK_DEADLOCK FALSE
