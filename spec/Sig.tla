------------------------------- MODULE Sig -------------------------------
(***************************************************************************)
(* C03 - only the key holder can authorise a transaction; no replay across *)
(* chains.  A CASE TABLE WITH STATE: the signed fields of a transaction are *)
(* abstract values, signature recovery is an uninterpreted function with    *)
(* one axiom (RecoverAxiom below), and the state is what the code memoises: *)
(* the per-transaction sender cache (types.Transaction.from / sigCache) and *)
(* the pool's hash -> sender cache (TxPool.senders, consulted by            *)
(* StateProcessor.Process to skip signature checks).                        *)
(*                                                                         *)
(* TLC enumerates every abstract case (every transition of the bounded     *)
(* graph) with the outcome CLASS the specification defines for it;         *)
(* harness/cmd/sigdrv instantiates each with seeded random keys / values   *)
(* on the real code and compares classes.                                  *)
(*                                                                         *)
(* Anchors: core/types/transaction_signing.go (SignTx, Sender, SignerV1),  *)
(* core/types/transaction.go (ProtoEncodeTxSigningData, Hash, From),       *)
(* crypto/crypto.go (ValidateSignatureValues), core/tx_pool.go             *)
(* (validateTx / senders), core/state_processor.go (Process,               *)
(* ProcessQiTx, ValidateQiTxInputs, ValidateQiTxOutputsAndSignature).      *)
(***************************************************************************)
EXTENDS Integers, Sequences, FiniteSets, TLC, Json

CONSTANTS Keys,        \* ECDSA keys 1..n
          Chains,      \* non-zero chain ids; 0 stands for "chain id not specified"
          NodeChain,   \* chain id of the node owning the pool cache (\in Chains)
          Locs,        \* node locations a signer can be built for
          Fields,      \* signed Quai fields other than the chain id
          QiCases,     \* set of <<owners, pubs>>: UTXO owners / public keys claimed in TxIn
          QiSignSets,  \* key sequences an (honest or dishonest) party may sign with
          Modes,       \* subset of {"quai", "qi"}
          MaxOps

FieldsAll == Fields \cup {"chain"}
Dom(f) == IF f = "chain" THEN {0} \cup Chains ELSE {0, 1}

\* malformed signature classes (crypto.ValidateSignatureValues must refuse all but "bitflip",
\* which is "one arbitrary bit of R||S||V flipped": anything but the signer may come out)
BadSig == {"r0", "s0", "rN", "sN", "highS", "vbad"}
SigClasses == BadSig \cup {"bitflip"}

QiFields == {"chain", "in", "out", "data"}
QiSigClasses == {"bitflip"}

VARIABLES mode,   \* "quai" | "qi"
          tx,     \* FieldsAll -> value index     (the Quai transaction's signed payload)
          sig,    \* [k, d, cls]: made by key k over payload d; cls = "ok" | "none" | a SigClasses member
          cache,  \* per-object sender cache: <<"none">> | <<"set", chain, result>>
          pool,   \* pool sender cache: set of <<payload, sig, result>>  (key = full hash = payload+sig)
          seen,   \* <<payload, sig>> ever offered to the pool, admitted or not (an implementation may
                  \* remember more than it should: keeps "offered and refused" apart from "never offered")
          q,      \* Qi transaction: [chain, in, out, data, pubs, owners]
          qsig,   \* [ks, d, cls]: Schnorr (|ks| = 1) or MuSig2 (|ks| > 1, that key order) over payload d
          step, obs, hist

vars == <<mode, tx, sig, cache, pool, seen, q, qsig, step, obs, hist>>
view == <<mode, tx, sig, cache, pool, seen, q, qsig, step>>

ZeroTx == [f \in FieldsAll |-> 0]
NoSig  == [k |-> 0, d |-> ZeroTx, cls |-> "none"]          \* V = R = S = 0
NoQ    == [chain |-> 0, in |-> 0, out |-> 0, data |-> 0, pubs |-> <<>>, owners |-> <<>>]
QPayload(x) == [chain |-> x.chain, in |-> x.in, out |-> x.out, data |-> x.data, pubs |-> x.pubs]
NoQSig == [ks |-> <<>>, d |-> QPayload(NoQ), cls |-> "none"]

----------------------------------------------------------------------------
(* RecoverAxiom.  recover(digest, sig) = addr(k) iff the signature is the   *)
(* canonical one made by k over exactly this digest; the digest is          *)
(* injective in the signed payload (collision resistance).  Otherwise the   *)
(* result is SOME OTHER address or an error - never addr(k).                *)
(* Result classes:                                                          *)
(*   <<"addr", k>>     success, exactly the address of key k                *)
(*   <<"other">>       an error of any kind, or an address of no key in use *)
(*   <<"err","chain">> ErrInvalidChainId                                    *)
(*   <<"err","sig">>   ErrInvalidSig                                        *)
Recover(t, s) ==
    IF s.cls \in BadSig \cup {"none"} THEN <<"err", "sig">>
    ELSE IF s.cls = "ok" /\ s.d = t THEN <<"addr", s.k>>
    ELSE <<"other">>

\* SignerV1.Sender: chain-id check first, then recoverPlain
SenderOf(t, s, c) == IF t["chain"] # c THEN <<"err", "chain">> ELSE Recover(t, s)

Success(r) == r[1] \in {"addr", "other"}     \* "other" MAY have produced an address

\* tx.Hash() of a Quai transaction derives its origin bytes from
\* Sender(NewSigner(tx.ChainId()), tx) and thereby fills an empty object cache
HashFill(c) ==
    IF c[1] = "none" /\ Success(SenderOf(tx, sig, tx["chain"]))
    THEN <<"set", tx["chain"], SenderOf(tx, sig, tx["chain"])>> ELSE c

Log(rec) ==
    /\ obs'  = rec
    /\ hist' = Append(hist, rec)
    /\ step' = step + 1

----------------------------------------------------------------------------
Init ==
    /\ mode \in Modes
    /\ sig = NoSig /\ cache = <<"none">> /\ pool = {} /\ seen = {} /\ qsig = NoQSig
    /\ IF mode = "quai"
       THEN /\ \E c \in {0, NodeChain} : tx = [ZeroTx EXCEPT !["chain"] = c]
            /\ q = NoQ
       ELSE /\ tx = ZeroTx
            /\ \E cs \in QiCases : q = [NoQ EXCEPT !.chain = NodeChain, !.owners = cs[1], !.pubs = cs[2]]
    /\ step = 0
    /\ obs = [op |-> "init"]
    /\ hist = <<[op |-> "init", mode |-> mode, chain |-> (IF mode = "quai" THEN tx["chain"] ELSE q.chain), owners |-> q.owners, pubs |-> q.pubs]>>

\* ---- Quai -----------------------------------------------------------------
\* types.SignTx(tx, NewSigner(c), key k): digest over the payload AS IT IS, then WithSignature
\* refuses a foreign non-zero chain id and otherwise stamps the signer's chain id on the copy
Sign(k, c) ==
    /\ mode = "quai"
    /\ IF tx["chain"] # 0 /\ tx["chain"] # c
       THEN /\ UNCHANGED <<tx, sig, cache>>
            /\ Log([op |-> "sign", k |-> k, c |-> c, res |-> <<"err", "chain">>])
       ELSE /\ sig' = [k |-> k, d |-> tx, cls |-> "ok"]
            /\ tx' = [tx EXCEPT !["chain"] = c]
            /\ cache' = <<"none">>                       \* WithSignature returns a new object
            /\ Log([op |-> "sign", k |-> k, c |-> c, res |-> <<"ok">>])
    /\ UNCHANGED <<mode, pool, seen, q, qsig>>

\* an adversary re-encodes the transaction with ONE signed field changed, keeping V,R,S.
\* res = <<"changed", signing hash differs, full hash differs>>
Mutate(f, v) ==
    /\ mode = "quai" /\ v # tx[f]
    /\ tx' = [tx EXCEPT ![f] = v]
    /\ cache' = <<"none">>                               \* decoded / rebuilt object: empty cache
    /\ Log([op |-> "mutate", f |-> f, v |-> v, res |-> <<"changed", TRUE, TRUE>>])
    /\ UNCHANGED <<mode, sig, pool, seen, q, qsig>>

\* ... or with the signature replaced by a malformed / malleated one
MutateSig(cls) ==
    /\ mode = "quai" /\ sig.cls = "ok"
    /\ sig' = [sig EXCEPT !.cls = cls]
    /\ cache' = <<"none">>
    /\ Log([op |-> "mutsig", cls |-> cls, res |-> <<"changed", FALSE, TRUE>>])
    /\ UNCHANGED <<mode, tx, pool, seen, q, qsig>>

\* types.Sender(NewSigner(c, l), tx): object cache consulted first (sigCache.signer.Equal)
QuerySender(c, l) ==
    /\ mode = "quai"
    /\ LET hit == cache[1] = "set" /\ cache[2] = c
           r   == IF hit THEN cache[3] ELSE SenderOf(tx, sig, c)
       IN  /\ cache' = IF ~hit /\ Success(r) THEN <<"set", c, r>> ELSE cache
           /\ Log([op |-> "sender", c |-> c, l |-> l, res |-> r])
    /\ UNCHANGED <<mode, tx, sig, pool, seen, q, qsig>>

\* tx.Hash() on the live object (fills the object cache under the transaction's OWN chain id)
TxHash ==
    /\ mode = "quai"
    /\ cache' = HashFill(cache)
    /\ Log([op |-> "txhash", res |-> <<"ok">>])
    /\ UNCHANGED <<mode, tx, sig, pool, seen, q, qsig>>

\* TxPool.add on the node (chain id NodeChain): accepted iff the sender is established under the
\* NODE's signer; only then may hash -> sender enter the pool's sender cache
PoolAdd ==
    /\ mode = "quai"
    /\ LET r == SenderOf(tx, sig, NodeChain)
       IN  /\ pool'  = IF Success(r) THEN pool \cup {<<tx, sig, r>>} ELSE pool
           /\ cache' = IF Success(r) THEN <<"set", NodeChain, r>> ELSE HashFill(cache)
           /\ seen'  = seen \cup {<<tx, sig>>}
           /\ Log([op |-> "pooladd", res |-> r])
    /\ UNCHANGED <<mode, tx, sig, q, qsig>>

\* StateProcessor.Process on a block carrying this transaction (fresh object from the wire):
\* sender := pool cache[hash] if present, else Sender(node signer, tx)
ProcessWithCache ==
    /\ mode = "quai"
    /\ LET hits == {e \in pool : e[1] = tx /\ e[2] = sig}
           r    == IF hits # {} THEN (CHOOSE e \in hits : TRUE)[3] ELSE SenderOf(tx, sig, NodeChain)
       IN  Log([op |-> "process", res |-> r])
    /\ UNCHANGED <<mode, tx, sig, cache, pool, seen, q, qsig>>

\* ---- Qi -------------------------------------------------------------------
\* Schnorr signature by one key, or MuSig2 aggregate by the key sequence ks, over the payload
QiSign(ks) ==
    /\ mode = "qi"
    /\ qsig' = [ks |-> ks, d |-> QPayload(q), cls |-> "ok"]
    /\ Log([op |-> "qisign", ks |-> ks, res |-> <<"ok">>])
    /\ UNCHANGED <<mode, tx, sig, cache, pool, seen, q>>

QiMutate(f) ==
    /\ mode = "qi"
    /\ q' = IF f = "chain" THEN [q EXCEPT !.chain = CHOOSE c \in Chains : c # q.chain]
            ELSE IF f = "in" THEN [q EXCEPT !.in = 1 - q.in]
            ELSE IF f = "out" THEN [q EXCEPT !.out = 1 - q.out]
            ELSE [q EXCEPT !.data = 1 - q.data]
    /\ Log([op |-> "qimutate", f |-> f, res |-> <<"changed", TRUE, TRUE>>])
    /\ UNCHANGED <<mode, tx, sig, cache, pool, seen, qsig>>

QiMutateSig(cls) ==
    /\ mode = "qi" /\ qsig.cls = "ok"
    /\ qsig' = [qsig EXCEPT !.cls = cls]
    /\ Log([op |-> "qimutsig", cls |-> cls, res |-> <<"changed", FALSE, TRUE>>])
    /\ UNCHANGED <<mode, tx, sig, cache, pool, seen, q>>

\* ProcessQiTx(checkSig = true) / ValidateQiTxInputs + ValidateQiTxOutputsAndSignature on chain c
QiOutcome(c) ==
    IF q.chain # c THEN <<"err", "chain">>
    ELSE IF q.pubs # q.owners THEN <<"err", "owner">>         \* pubkey does not hash to the UTXO's address
    ELSE IF qsig.cls = "ok" /\ qsig.ks = q.pubs /\ qsig.d = QPayload(q) THEN <<"ok">>
    ELSE <<"err", "sig">>

QiVerify(c) ==
    /\ mode = "qi"
    /\ Log([op |-> "qiverify", c |-> c, res |-> QiOutcome(c)])
    /\ UNCHANGED <<mode, tx, sig, cache, pool, seen, q, qsig>>

Next ==
    /\ step < MaxOps
    /\ \/ \E k \in Keys, c \in Chains : Sign(k, c)
       \/ \E f \in FieldsAll : \E v \in Dom(f) : Mutate(f, v)
       \/ \E cls \in SigClasses : MutateSig(cls)
       \/ \E c \in Chains, l \in Locs : QuerySender(c, l)
       \/ TxHash \/ PoolAdd \/ ProcessWithCache
       \/ \E ks \in QiSignSets : QiSign(ks)
       \/ \E f \in QiFields : QiMutate(f)
       \/ \E cls \in QiSigClasses : QiMutateSig(cls)
       \/ \E c \in Chains : QiVerify(c)

Spec == Init /\ [][Next]_vars

----------------------------------------------------------------------------
\* The property, as invariants over the last call record (obs) and the state.

\* a sender is attributed to key k only if k signed exactly this payload, canonically, for this chain
SenderIsSigner ==
    (obs.op \in {"sender", "pooladd", "process"} /\ obs.res[1] = "addr") =>
        /\ sig.cls = "ok" /\ sig.k = obs.res[2] /\ sig.d = tx
        /\ tx["chain"] = (IF obs.op = "sender" THEN obs.c ELSE NodeChain)

\* after any change to a signed field or to the signature, the original signer is never returned
MutationChangesSenderOrFails ==
    (obs.op \in {"sender", "pooladd", "process"} /\ sig.k # 0 /\ (sig.d # tx \/ sig.cls # "ok")) =>
        obs.res[1] # "addr"

\* malformed signature values are an error, whatever else is true
MalformedRejected ==
    (obs.op \in {"sender", "pooladd", "process"} /\ sig.cls \in BadSig \cup {"none"}) => obs.res[1] = "err"

\* a sender cached under one chain id is never returned for another
CacheNeverCrossesChainId ==
    /\ (obs.op = "sender" /\ obs.c # tx["chain"]) => obs.res = <<"err", "chain">>
    /\ (obs.op \in {"pooladd", "process"} /\ NodeChain # tx["chain"]) => obs.res = <<"err", "chain">>
    /\ cache[1] = "set" => cache[2] = tx["chain"]

\* the pool cache maps the FULL identity (payload + signature) to what full verification yields
PoolCacheKeyedByFullHash ==
    /\ \A e \in pool : e[3] = SenderOf(e[1], e[2], NodeChain) /\ Success(e[3])
    /\ obs.op = "process" => obs.res = SenderOf(tx, sig, NodeChain)

\* a Qi spend is accepted only when signed by exactly the keys owning the consumed outputs,
\* over exactly this payload, for this chain
QiOnlyOwners ==
    (obs.op = "qiverify" /\ obs.res = <<"ok">>) =>
        /\ qsig.ks = q.owners /\ q.pubs = q.owners
        /\ qsig.d = QPayload(q) /\ qsig.cls = "ok" /\ q.chain = obs.c

\* emit every explored behaviour for replay on the implementation
EmitHist == PrintT("@@" \o ToJson(hist'))
=============================================================================
