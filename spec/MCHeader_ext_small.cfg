SPECIFICATION Spec
CONSTANTS
  Part = "ext"
  W = 8
  Kinds <- KNone
  MaxOps = 3
  MaxBlocks = 3
  IntrVals <- X3
  DtVals <- T3
  WithDeviations = TRUE
  WithCache = TRUE
INVARIANTS ChildEqualsDerived DeviationRejected EntropyStrictlyIncreases ParentEntropyRecorded NumbersConsecutive PrimeTerminusIsLastPrime OrderStable OrderIsFunctionOfSealAndDeltas IntrinsicPositive
VIEW view
CHECK_DEADLOCK FALSE
