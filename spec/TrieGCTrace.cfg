SPECIFICATION TraceSpec
CONSTANTS
  Keys <- TraceKeys
  Vals <- TraceVals
  MaxOps = 1000000
  MaxRef = 1000000
  Ops <- TraceOps
  KeepHist = FALSE
  CountMetaRefs = TRUE
  UncacheAfterWrite = TRUE
  Prelude <- NoPrelude
INVARIANTS ObservationsConform ReferencedRootsHeld LiveRootsLoadable FlushedRootsSurviveReopen HandleBaseLoadable
POSTCONDITION TraceAccepted
CHECK_DEADLOCK FALSE
