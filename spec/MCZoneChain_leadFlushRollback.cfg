SPECIFICATION Spec
CONSTANTS
  Outs <- O1
  MaxBlocks = 2
  MaxHeight = 2
  TrimDepth = 2
  MaxSteps = 12
  WithCrash = TRUE
  HeadInBatch = TRUE
  CrashInHeadWindow = TRUE
  WithTamper = FALSE
  SpendTrimCandidate = FALSE
  FlushRollbackMidway <- MCTrue
VIEW view
INVARIANTS Recoverable
CHECK_DEADLOCK FALSE
