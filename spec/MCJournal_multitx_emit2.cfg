SPECIFICATION Spec
CONSTANTS
  NAddr = 3
  NSlot = 1
  Vals <- V02
  Amts <- A01
  Genesis <- GenJ1
  HasLock <- NoLock3
  Ops <- OpsJM
  MaxMut = 2
  MaxSnap = 2
  MaxDepth = 2
  MaxTx = 2
  FrameAddr <- FrJ
  NewAddrs <- NoNew
  XferTo <- NoXfer
  Benef = 2
VIEW view
INVARIANTS TypeOK AccessListWellFormed AlwaysRevertible
PROPERTIES RevertRestores SiblingsUntouched
ACTION_CONSTRAINT EmitHistMT
CHECK_DEADLOCK FALSE
