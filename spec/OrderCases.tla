----------------------------- MODULE OrderCases -----------------------------
(***************************************************************************)
(* The hierarchical ORDER of a sealed header (core/poem.go CalcOrder) as a *)
(* case table over every expansion number: which of the two window tests   *)
(* (seal strength above the prime / region block threshold) and of the two  *)
(* accumulated-entropy tests (entropy since the last prime / region block   *)
(* above half the target interval) decide, in which order, and what the     *)
(* targets are for a hierarchy of the given size                            *)
(* (common.GetHierarchySizeForExpansionNumber, params.PrimeEntropyTarget,   *)
(* params.RegionEntropyTarget).  TLC enumerates every case with the order   *)
(* the protocol assigns; harness/cmd/hdrdrv `ordercases` realises each case *)
(* on a real, sealed header (nonce search for the seal window, recorded     *)
(* parent delta entropies for the sums) and asks the node.  Part of C09:    *)
(* "a block's hierarchical order is a deterministic function of its seal    *)
(* and recorded entropy deltas".                                            *)
(***************************************************************************)
EXTENDS Integers, Sequences, TLC, Json

CONSTANT MaxExp

P == 0   R == 1   Z == 2        \* common.PRIME_CTX, REGION_CTX, ZONE_CTX

\* common.GetHierarchySizeForExpansionNumber: <<regions, zones>>
RECURSIVE Size(_)
Size(e) == IF e = 0 THEN <<1, 1>>
           ELSE IF e = 1 THEN <<1, 2>>
           ELSE LET s == Size(e - 1) IN IF e % 2 = 0 THEN <<s[1] + 1, s[2]>> ELSE <<s[1], s[2] + 1>>
Max2(a) == IF a < 2 THEN 2 ELSE a
\* params.PrimeEntropyTarget / RegionEntropyTarget: expected number of zone blocks per prime / region block
PrimeTgt(e) == Max2(Size(e)[1]) * Max2(Size(e)[2]) * (Size(e)[1] * Size(e)[2])
RegionTgt(e) == Max2(Size(e)[2]) * Size(e)[2]

(* The four tests of CalcOrder, abstractly (zt = log2 difficulty = the zone threshold, i = intrinsic entropy of the seal,  *)
(* dR / dZ = recorded parent delta entropy of the region / zone context):                                                   *)
(*   sealP  ==  i > zt + log2(PrimeTgt(e))          sumP == dR + dZ + i > PrimeTgt(e) * zt / 2                              *)
(*   sealR  ==  i > zt + log2(RegionTgt(e))         sumR ==      dZ + i > RegionTgt(e) * zt / 2                             *)
Order(sealP, sumP, sealR, sumR) ==
    IF sealP /\ sumP THEN P
    ELSE IF sealR /\ sumR THEN R
    ELSE Z

VARIABLE case
Windows == {"zone", "region", "prime"}      \* where the seal lies: i <= thrR < thrP, thrR < i <= thrP, thrP < i
Init == case = [e |-> -1]
Next == \E e \in 0..MaxExp, w \in Windows, sumR \in BOOLEAN, sumP \in BOOLEAN, dRlarge \in BOOLEAN :
            case' = [e |-> e, window |-> w, sumR |-> sumR, sumP |-> sumP, dRlarge |-> dRlarge,
                     primeTgt |-> PrimeTgt(e), regionTgt |-> RegionTgt(e), regions |-> Size(e)[1], zones |-> Size(e)[2],
                     order |-> Order(w = "prime", sumP, w \in {"region", "prime"}, sumR)]
Spec == Init /\ [][Next]_case

\* sanity of the table itself
PrimeWindowInsideRegionWindow == \A e \in 0..MaxExp : PrimeTgt(e) > RegionTgt(e)    \* hence sealP => sealR
OrderMonotone ==    \* a stronger seal / more accumulated entropy never gives a LOWER rank (larger context number)
    \A sp1, sp2, up1, up2, sr1, sr2, ur1, ur2 \in BOOLEAN :
        ((sp1 => sp2) /\ (up1 => up2) /\ (sr1 => sr2) /\ (ur1 => ur2)) => Order(sp2, up2, sr2, ur2) <= Order(sp1, up1, sr1, ur1)
TableOK == case.e >= 0 => case.order \in {P, R, Z}

Emit == PrintT("@@" \o ToJson(case'))
=============================================================================
