SPECIFICATION Spec
CONSTANTS
  TxDefs <- MCTxs
  GenDefs <- MCGen
  BlockDefs <- MCBlocks
  Cap = 2
  MinFee = 1
  Fused = TRUE
  WithWorker = FALSE
  MaxOps = 5
  MaxHeads = 2
  KeepHist = TRUE
  InactiveRefusedAtOnce = TRUE
VIEW view
INVARIANTS IndexesAgree SizeLimit FeeIsInputsMinusOutputs PoolTxsOnceValid
ACTION_CONSTRAINT EmitHist
CHECK_DEADLOCK FALSE
