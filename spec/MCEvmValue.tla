---------------------------- MODULE MCEvmValue ----------------------------
EXTENDS EvmValue
\* ---- design-level universes (small numbers)
E1 == {"E1"}
E2 == {"E1", "E2"}
E3 == {"E1", "E2", "E3"}
K1 == {"K1"}
K2 == {"K1", "K2"}
K3 == {"K1", "K2", "K3"}
A(E, K) == E \cup K \cup {"Z", "F", "N", "Q", "P"}
BalSmall(E, K) == [a \in A(E, K) |-> CASE a \in E -> 14 [] a \in K -> 3 [] a = "Q" -> 13 [] a = "Z" -> 1 [] a = "P" -> 1 [] OTHER -> 0]
BalSmall11 == BalSmall(E1, K1)
BalSmall22 == BalSmall(E2, K2)
BalSmall23 == BalSmall(E2, K3)
BalSmall21 == BalSmall(E2, K1)
BalSmall12 == BalSmall(E1, K2)
BalSmall32 == BalSmall(E3, K2)
BalSmall33 == BalSmall(E3, K3)
WqOf(E, K) == [k \in A(E, K) |-> IF k = "K1" THEN 2 ELSE 0]
Wq11 == WqOf(E1, K1)
Wq22 == WqOf(E2, K2)
Wq23 == WqOf(E2, K3)
Wq21 == WqOf(E2, K1)
Wq12 == WqOf(E1, K2)
Wq32 == WqOf(E3, K2)
Wq33 == WqOf(E3, K3)
LockOf(E, K) == [k \in A(E, K) |-> CASE k = "K1" -> "unlocked" [] k = "K2" -> "locked" [] OTHER -> "none"]
Lock11 == LockOf(E1, K1)
Lock22 == LockOf(E2, K2)
Lock23 == LockOf(E2, K3)
Lock21 == LockOf(E2, K1)
Lock12 == LockOf(E1, K2)
Lock32 == LockOf(E3, K2)
Lock33 == LockOf(E3, K3)

P1 == {1}
P12 == {1, 2}
V0 == {0}
V01 == {0, 1}
V02 == {0, 2}
V012 == {0, 1, 2}
RG == {"G"}
RBG == {"B", "G"}
RAll == {"A", "B", "E", "F", "G"}
RBFG == {"B", "F", "G"}
PF0 == {0}
PFAll == {0, 65535, 65536}
PFEdge == {0, 65536}
PF2 == {0, 65535}

TKCall == {"call"}
TKCallX == {"call", "xsend"}
TKBasic == {"call", "create"}
TKBasicIn == {"call", "create", "inbound"}
TKGas == {"call", "sdata", "kquai", "xsend"}
TKMulti == {"call", "create"}
TKCreate == {"create"}
TKAll == {"call", "create", "sdata", "kquai", "xsend", "inbound"}
OKNone == {}
OKEtx == {"ETX"}
OKOpc == {"ETX", "CONVERT"}
OKAll == {"ETX", "CONVERT", "XCALL", "UNWRAP", "CLAIM"}
DAll == {"inscope", "elig", "inelig", "qiother", "qiown"}
DSome == {"elig", "inelig", "qiown"}
DSome2 == {"elig", "inelig"}
AAll == {"zero", "minm1", "min", "bal", "balp1", "max"}
ASome == {"zero", "min", "balp1", "max"}
ASome2 == {"min", "balp1"}
AMin == {"min"}
GAll == {"lt", "ok", "gt64", "ltetx", "lttx", "gtavail"}
GOk == {"ok"}
FAll == {"zero", "one", "ovf"}
FSome == {"zero", "one"}
FOne == {"one"}
ALAll == {"empty", "good", "bad"}
ALSome == {"good", "bad"}

\* ---- frame kinds / target restrictions ({} stands for "every account")
FKOld == {"call", "create"}
FKPre == {"call", "pcall"}
TTK1P == {"K1", "P"}
TKPre == {"call", "pbad"}
FKAll == {"call", "delegate", "callcode", "static", "create", "create2"}
FKCalls == {"call", "delegate", "callcode", "static"}
FKNew == {"delegate", "callcode", "static", "create2"}
FKCallOnly == {"call"}
AnyAcct == {}
CTK == {"K1", "K2"}
CTKF == {"K1", "K2", "F"}
CTK2F == {"K2", "F"}
TTK1 == {"K1"}
BFK1 == {"K1"}
BFK1F == {"K1", "F"}
WPNone == {}
WPAll == {"call", "create", "create2", "sd", "ETX", "CONVERT", "sstore", "log"}
WPSome == {"call", "sd", "ETX"}
OKEtxClaim == {"ETX", "CLAIM"}
OKClaim == {"CLAIM"}
OKEtxClaimUnwrap == {"ETX", "CLAIM", "UNWRAP"}
DElig == {"elig"}
DEligQi == {"elig", "qiown"}
AZeroMin == {"zero", "min"}
AZeroOne == {"zero", "one"}
AZero == {"zero"}
ALGood == {"good"}
RB == {"B"}

\* ---- conformance universes (the real protocol numbers; the driver uses every number verbatim)
U == 1000000
BalReal(E, K) == [a \in A(E, K) |-> CASE a \in E -> 60 * U [] a \in K -> 5 * U [] a = "Q" -> 50 * U [] a = "Z" -> 1 * U [] a = "P" -> 1 [] OTHER -> 0]
BalReal11 == BalReal(E1, K1)
BalReal21 == BalReal(E2, K1)
BalReal12 == BalReal(E1, K2)
BalReal22 == BalReal(E2, K2)
BalReal32 == BalReal(E3, K2)
BalReal33 == BalReal(E3, K3)
WqRealOf(E, K) == [k \in A(E, K) |-> IF k = "K1" THEN 2 * U ELSE 0]
WqReal11 == WqRealOf(E1, K1)
WqReal21 == WqRealOf(E2, K1)
WqReal12 == WqRealOf(E1, K2)
WqReal22 == WqRealOf(E2, K2)
WqReal32 == WqRealOf(E3, K2)
WqReal33 == WqRealOf(E3, K3)
RV0 == {0}
RV01 == {0, U}
RV02 == {0, 2 * U}
RV03 == {0, 3 * U}
=============================================================================
