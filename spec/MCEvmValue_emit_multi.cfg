SPECIFICATION Spec
CONSTANTS
  EOAs <- E2
  Contracts <- K1
  InitBal <- BalReal21
  InitWq <- WqReal21
  InitLock <- Lock21
  LockVal = 1000000
  LowGas = 20000
  GasUnit = 700000
  MaxGasSteps = 2
  Prices <- P1
  IntrinsicGas = 21000
  TxGas = 21000
  Rent = 24914
  MinConv = 2000000
  TxValues <- RV03
  CallValues <- RV01
  Regimes <- RG
  Prefills <- PF0
  TxKinds <- TKMulti
  OpKinds <- OKEtx
  DestClasses <- DSome2
  AmtClasses <- ASome2
  GlClasses <- GOk
  FeeClasses <- FSome
  AlClasses <- ALSome
  MaxDepth = 2
  MaxFrameOps = 1
  MaxTx = 2
  UsedMode = "one"
  GrindFail = FALSE
VIEW view
ACTION_CONSTRAINT EmitHist
CHECK_DEADLOCK FALSE
