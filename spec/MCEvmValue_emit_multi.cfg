SPECIFICATION Spec
CONSTANTS
  EOAs <- E1
  Contracts <- K1
  InitBal <- BalReal11
  InitWq <- WqReal11
  InitLock <- Lock11
  LockVal = 1000000
  LowGas = 20000
  GasUnit = 700000
  MaxGasSteps = 2
  Prices <- P1
  IntrinsicGas = 21000
  TxGas = 21000
  Rent = 24914
  MinConv = 2000000
  TxValues <- RV03
  CallValues <- RV0
  Regimes <- RG
  Prefills <- PF0
  TxKinds <- TKMulti
  OpKinds <- OKEtx
  DestClasses <- DSome2
  AmtClasses <- AMin
  GlClasses <- GOk
  FeeClasses <- FOne
  AlClasses <- ALSome
  FrameKinds <- FKOld
  CallTargets <- AnyAcct
  TxTargets <- AnyAcct
  Benefs <- AnyAcct
  WpOps <- WPNone
  MaxDepth = 1
  MaxFrameOps = 1
  MaxTx = 2
  UsedMode = "one"
  GrindFail = FALSE
VIEW view
INVARIANTS TypeOK NoNegative NoCreation ExactUnlessBurn EtxBacked ChargeWithinBounds FailedTxTouchesOnlyPayer FailedEtxTouchesNothing AllOrNothing StackDiscipline IndexFresh BlockOutboundIsConcatOfSurvivors
ACTION_CONSTRAINT EmitHist
CHECK_DEADLOCK FALSE
