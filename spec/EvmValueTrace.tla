-------------------------- MODULE EvmValueTrace --------------------------
(***************************************************************************)
(* Trace validation for EvmValue.tla.  harness/cmd/evmdrv logs one event   *)
(* per specification action (transaction start, frame entry / exit, every  *)
(* off-chain send operation, transaction end) with the arguments and the   *)
(* state read from the real go-quai objects at that point.  Every event    *)
(* must be the specification action of that name with those arguments and  *)
(* the observed state must equal the specified one; the C02 / C05          *)
(* invariants of EvmValue are evaluated on the resulting states, i.e. on   *)
(* the implementation's states.  The unobservable sub-steps of a           *)
(* multi-step operation are taken without consuming an event.  Scenarios   *)
(* are separated by "tracereset" events carrying the initial state.        *)
(***************************************************************************)
EXTENDS EvmValue

TraceEOAs == {"E1", "E2", "E3"}
TraceContracts == {"K1", "K2", "K3"}
TraceAll == TraceEOAs \cup TraceContracts \cup {"Z", "F", "N", "Q", "P"}
ZeroBal == [a \in TraceAll |-> 0]
NoLock == [a \in TraceAll |-> "none"]
AllTxKinds == {"call", "create", "sdata", "kquai", "xsend", "inbound", "pbad"}
AllOpKinds == {"ETX", "CONVERT", "XCALL", "UNWRAP", "CLAIM"}
AllFrameKinds == {"call", "delegate", "callcode", "static", "create", "create2"}
Anything == {}

Trace == ndJsonDeserialize("evmtrace.ndjson")

VARIABLES l,         \* next event
          mismatch   \* first event whose observation differs from the specified one

tvars == <<vars, l, mismatch>>

Ev == Trace[l]
Is(name) == l <= Len(Trace) /\ Ev.a = name
More == l <= Len(Trace)

TraceInit ==
    /\ Init /\ l = 1 /\ mismatch = <<>>
    /\ TLCSet(42, 0)

SpecRec == hist'[Len(hist')]

ObsConform(o, e) ==
    /\ \A a \in Acct : o.bal[a] = e.bal[a] /\ o.wq[a] = e.wq[a] /\ o.lk[a] = e.lk[a]
    /\ o.netx = e.netx /\ o.st = e.st /\ o.pu = e.pu

ViewEq(a, b) == a.k = b.k /\ a.to = b.to /\ a.val = b.val /\ a.idx = b.idx

RecConform ==
    /\ SpecRec.a = Ev.a /\ SpecRec.x = Ev.x /\ SpecRec.y = Ev.y
    /\ (Ev.a \in {"txbegin", "etxstage", "txend", "sdata", "kquai"} => SpecRec.res = Ev.res)
    /\ (Ev.a \in {"top", "call", "create", "dcall", "ccall", "scall", "create2", "pcall"} => SpecRec.c.enter = Ev.c.enter)
    /\ (Ev.a \in AllOpKinds =>
           IF SpecRec.last.k = "-" THEN "last" \notin DOMAIN Ev
           ELSE "last" \in DOMAIN Ev /\ ViewEq(SpecRec.last, Ev.last))
    /\ (Ev.a = "txend" =>
           /\ Len(SpecRec.out) = Len(Ev.out)
           /\ \A i \in 1..Len(Ev.out) : ViewEq(SpecRec.out[i], Ev.out[i]))
    /\ (SpecRec.cmp = 1 => ObsConform(obs', Ev.obs))

\* the specification action fires with the logged arguments and consumes the event
Consume(A) ==
    /\ A
    /\ l' = l + 1
    /\ TLCSet(42, l)
    /\ mismatch' = IF mismatch = <<>> /\ ~RecConform THEN <<l, Ev.a, Ev.c.scenario, SpecRec>> ELSE mismatch

\* a sub-step nobody can observe
Internal(A) == A /\ UNCHANGED <<l, mismatch>>

\* named deviations of the specification met on the implementation (reported to the check by line number)
Report(kind, exit) ==
    exit # "-" => PrintT("@@" \o ToJson([l |-> l, op |-> kind, exit |-> exit, scenario |-> Ev.c.scenario]))

TraceReset ==
    /\ Is("tracereset")
    /\ bal' = Ev.pre.bal /\ wq' = Ev.pre.wq /\ lock' = Ev.pre.lk /\ Ev.pre.lockval = LockVal
    /\ code' = [a \in Acct |-> IF a \in Contracts THEN "host" ELSE "none"]
    /\ ncreated' = FALSE /\ sui' = {} /\ tx' = Idle /\ frames' = <<>> /\ etx' = <<>> /\ op' = NoOp
    /\ gh' = [sum0 |-> Total(bal'), gas |-> 0, out |-> 0, credits |-> 0, burnt |-> 0, held |-> 0]
    /\ devs' = {} /\ blockOut' = <<>> /\ survAll' = <<>> /\ bdevs' = {} /\ ntx' = 0 /\ step' = 0
    /\ obs' = MkObs(bal', 0, wq', lock', -1, -1, "init") /\ hist' = <<>>
    /\ l' = l + 1 /\ TLCSet(42, l) /\ UNCHANGED mismatch

SendArgs == [dest |-> Ev.y, amt |-> Ev.v, gl |-> Ev.c.gl, fee |-> Ev.c.fee, al |-> Ev.c.al]

TraceNext ==
    \/ TraceReset
    \/ Is("txbegin")  /\ Consume(TxBegin(Ev.x, Ev.c.k, Ev.y, Ev.v, Ev.g, Ev.p, Ev.c.rg, Ev.c.pf))
    \/ Is("etxstage") /\ Consume(EtxStage(Ev.y, Ev.v, Ev.c.glc, Ev.c.rg, Ev.c.pf))
    \/ Is("top")      /\ Consume(IF Ev.c.k = "create" THEN TopCreate ELSE IF Ev.c.k = "pbad" THEN TopPCallFail ELSE TopCall)
    \/ Is("sdata")    /\ Consume(TxSelfDestructByData(Ev.y, Ev.g))
    \/ Is("kquai")    /\ Consume(TxKQuaiControl(Ev.c.k, Ev.g))
    \/ Is("call")     /\ Consume(Call(Ev.y, Ev.v))
    \/ Is("create")   /\ Consume(IF Ev.c.enter \/ bal[Cur.self] < Ev.v THEN Create(Ev.v) ELSE Create_NoAddress(Ev.v))
    \* the other frame kinds.  A state-modifying instruction inside a read-only context arrives as the "fail" of its
    \* frame (write protection); if the implementation executed it instead, its event is no enabled action here
    \/ Is("pcall")    /\ Consume(PCall(Ev.v, Ev.c.oc))
    \/ Is("dcall")    /\ Consume(DelegateCall(Ev.y))
    \/ Is("ccall")    /\ Consume(CallCode(Ev.y, Ev.v))
    \/ Is("scall")    /\ Consume(StaticCall(Ev.y))
    \/ Is("create2")  /\ Consume(Create2(Ev.v))
    \/ Is("stop")     /\ Consume(Stop)
    \/ Is("ret")      /\ Consume(ReturnCode)
    \/ Is("revert")   /\ Consume(Revert)
    \/ Is("fail")     /\ Consume(Fail)
    \/ Is("retoog")   /\ Report("CREATE", "create-codestore-oog") /\ Consume(Create_CodeStoreOOG_NotReverted)
    \/ Is("sd")       /\ Consume(SelfDestruct(Ev.y))
    \* off-chain sends: begin (internal), sub-steps (internal), completion (consumes the event)
    \/ More /\ Ev.a \in AllOpKinds \ {"XCALL"} /\ op = NoOp /\ Internal(Begin(Ev.a, SendArgs))
    \/ More /\ Ev.a = "XCALL" /\ op = NoOp /\ Internal(TopXSend)
    \/ op.kind # "none" /\ op.pc # "done" /\ ~(op.kind = "UNWRAP" /\ op.pc = "dest" /\ op.c.dest = "qiother") /\ Internal(OpStep)
    \/ Is("abort") /\ op = NoOp /\ InFrame /\ Ev.c.k = "UNWRAP" /\ Internal(Begin("UNWRAP", SendArgs))
    \/ Is("abort") /\ op.kind = "UNWRAP" /\ op.pc = "dest" /\ Consume(UNWRAP_ExternalBeneficiary_AbortsAllFrames)
    \/ op.kind # "none" /\ op.pc = "done" /\ Is(op.kind) /\ Report(op.kind, op.dev) /\ Consume(OpDone)
    \/ Is("txend") /\ tx.phase = "begun" /\ Internal(EtxGasLimitReached \/ TopCreate_NoAddress)
    \/ Is("txend") /\ tx.phase = "ending" /\ Consume(TxEnd(Ev.g))

TraceSpec == TraceInit /\ [][TraceNext]_tvars

\* every observation of the implementation equals the specified one
ObservationsConform == mismatch = <<>>

\* the whole trace was consumed (an event that is no enabled specification action stops the run)
TraceAccepted == TLCGet(42) = Len(Trace) \/ (PrintT(<<"trace-stopped-after-line", TLCGet(42), Len(Trace)>>) /\ FALSE)
=============================================================================
