------------------------------- MODULE Header -------------------------------
(***************************************************************************)
(* Header-level consensus rules of go-quai.  Two parts share this module:  *)
(*                                                                         *)
(*  Part = "seal" (decides C08; exploration / case table)                  *)
(*    A work object = work-object header (fields inside the seal hash;     *)
(*    nonce / mixHash / auxPow outside it) + body header (bound through    *)
(*    the headerHash field) + body components (bound through roots in the  *)
(*    body header).  Hashes are injective: the hash of a content IS the    *)
(*    content.  Numbers live in a scaled-down world where 2^W plays the    *)
(*    role of 2^256 (every verdict is invariant in W).                     *)
(*    Anchors: core/types/wo.go SealEncode/SealHash/Hash; block.go         *)
(*    Header.SealEncode/Hash; core/headerchain_validation.go verifySeal,   *)
(*    verifyHeader (header-hash check, AuxPoW branch), VerifyUncles;       *)
(*    core/block_validator.go ValidateBody; core/poem.go CalcOrder,        *)
(*    CheckIfValidWorkShare; consensus/consensus.go CalcWorkShareThreshold;*)
(*    core/headerchain.go UncleWorkShareClassification.                    *)
(*                                                                         *)
(*  Part = "ext" (decides C09; model checking over block trees)            *)
(*    Extend(parent) derives every field of the child (what the worker     *)
(*    fills in and verifyHeader recomputes); Deviate changes one field of  *)
(*    a derived child; Verify is the rule list of verifyHeader at every    *)
(*    context the block is coincident with; entropy / order as in poem.go  *)
(*    over small integers; the calc-order cache and a restart.             *)
(***************************************************************************)
EXTENDS Integers, Sequences, FiniteSets, TLC, Json, SequencesExt

CONSTANTS Part,           \* "seal" | "ext"
          W,              \* seal: 2^W plays 2^256
          Kinds,          \* seal: PoW kinds explored
          MaxOps,         \* bound on the number of calls in a behaviour
          MaxBlocks,      \* ext: number of blocks besides genesis
          IntrVals,       \* ext: bits of work in excess of the zone threshold a seal may have
          DtVals,         \* ext: block time increments
          WithDeviations, \* ext: explore Deviate
          WithCache       \* ext: explore CalcOrder / Restart

VARIABLES sc,             \* seal part: the case under construction
          blk,            \* ext part: sequence of block records; blk[1] = genesis, id = index - 1
          cache,          \* ext part: calc-order cache of the running node: set of <<id, order>>
          step, obs, hist

vars == <<sc, blk, cache, step, obs, hist>>
view == <<sc, blk, cache, step>>

Log(rec, o) ==
    /\ obs'  = o
    /\ hist' = Append(hist, rec @@ [res |-> o])
    /\ step' = step + 1

RECURSIVE Pow2(_)
Pow2(n) == IF n = 0 THEN 1 ELSE 2 * Pow2(n - 1)
RECURSIVE Log2(_)
Log2(n) == IF n <= 1 THEN 0 ELSE 1 + Log2(n \div 2)
MaxOf(a, b) == IF a >= b THEN a ELSE b
MinOf(a, b) == IF a <= b THEN a ELSE b

(***************************************************************************)
(*                              PART "seal"                                *)
(***************************************************************************)
\* ---- the partition of a work object, as read from wo.go / block.go
\* work-object header fields inside SealEncode on both sides of KawPowForkBlock
WoPre  == {"headerHash", "parentHash", "number", "difficulty", "txHash", "primeTerminusNumber",
           "location", "lock", "primaryCoinbase", "time", "data"}
\* ... and those SealEncode adds once KawpowActivationHappened()
WoPost == {"scryptDiffAndCount", "shaDiffAndCount", "shaShareTarget", "scryptShareTarget", "kawpowDifficulty"}
\* outside the seal hash
WoOutside == {"nonce", "mixHash"}
WoSealed(fork) == IF fork = "pre" THEN WoPre ELSE WoPre \cup WoPost
WoAll == WoPre \cup WoPost \cup WoOutside

\* body header (types.Header) fields: every one is inside Header.SealEncode, hence inside headerHash
BhFields == {"parentHash0", "parentHash1", "uncleHash", "evmRoot", "utxoRoot", "txHash", "outboundEtxHash",
             "etxSetRoot", "etxRollupHash", "quaiStateSize", "manifestHash0", "manifestHash1", "manifestHash2",
             "receiptHash", "parentEntropy0", "parentEntropy1", "parentEntropy2",
             "parentDeltaEntropy0", "parentDeltaEntropy1", "parentDeltaEntropy2",
             "parentUncledDeltaEntropy0", "parentUncledDeltaEntropy1", "parentUncledDeltaEntropy2",
             "efficiencyScore", "thresholdCount", "expansionNumber", "etxEligibleSlices", "primeTerminusHash",
             "interlinkRootHash", "uncledEntropy", "number0", "number1", "gasLimit", "gasUsed", "baseFee", "extra",
             "stateLimit", "stateUsed", "exchangeRate", "avgTxFees", "totalFees", "kQuaiDiscount",
             "conversionFlowAmount", "minerDifficulty", "primeStateRoot", "regionStateRoot"}
\* body components and the body-header root that binds each (zone: ValidateBody; region/prime: manifest, interlink)
BodyComps == {"txs", "etxs", "uncles", "manifest", "interlink"}
RootField(c) == CASE c = "txs" -> "txHash" [] c = "etxs" -> "outboundEtxHash" [] c = "uncles" -> "uncleHash"
                  [] c = "manifest" -> "manifestHash2" [] c = "interlink" -> "interlinkRootHash"
\* the body components a zone node checks in ValidateBody
ZoneComps == {"txs", "etxs", "uncles"}

\* every field whose value consensus depends on
ConsensusWo(fork) == WoSealed(fork)
AuxKinds == {"kawpow", "sha", "scrypt"}
ForksOf(k) == IF k \in AuxKinds THEN {"post"} ELSE {"pre", "post"}

\* ---- numbers (2^W world)
Big == Pow2(W)
DiffClasses == {"0", "1", "2", "half", "max-1", "max", "real"}
DiffVal(dc) == CASE dc = "0" -> 0 [] dc = "1" -> 1 [] dc = "2" -> 2 [] dc = "half" -> Pow2(W - 1)
                 [] dc = "max-1" -> Big - 1 [] dc = "max" -> Big [] dc = "real" -> Pow2((W \div 2) - 1)
Target(d) == Big \div d                      \* verifySeal: new(big.Int).Div(Big2e256, difficulty)
ShareBits == 3                               \* params.WorkSharesThresholdDiff
SubBits   == 5                               \* powConfig.WorkShareThreshold of the harness node
HashClasses == {"0", "t-1", "t", "t+1", "T3", "T3+1", "T5", "T5+1", "max", "real-ok", "tight-ok", "tight-bad"}
HashVal(d, hc) ==
    LET t == Target(d) IN
    CASE hc = "0" -> 0 [] hc = "t-1" -> t - 1 [] hc = "t" -> t [] hc = "t+1" -> t + 1
      [] hc = "T3" -> t * Pow2(ShareBits) [] hc = "T3+1" -> t * Pow2(ShareBits) + 1
      [] hc = "T5" -> t * Pow2(SubBits) [] hc = "T5+1" -> t * Pow2(SubBits) + 1
      [] hc = "max" -> Big - 1 [] hc = "real-ok" -> t \div 2
      [] hc = "tight-ok"  -> Target(d + 1) + 1      \* the smallest hash for which d is the largest passing difficulty
      [] hc = "tight-bad" -> Target(d - 1)          \* the largest hash rejected at d but accepted at d - 1
Realisable(dc, hc) ==
    LET d == DiffVal(dc) IN
    IF hc \in {"tight-ok", "tight-bad", "real-ok"}
    THEN /\ dc = "real"
         /\ (hc = "tight-bad" => HashVal(d, hc) > Target(d) /\ HashVal(d, hc) <= Big - 1)
         /\ (hc = "tight-ok" => HashVal(d, hc) < Target(d) /\ HashVal(d, hc) > Target(d + 1))
    ELSE IF d = 0 THEN hc \in {"0", "max"}
    ELSE HashVal(d, hc) >= 0 /\ HashVal(d, hc) <= Big - 1
\* a pow input nobody worked on has an unpredictable hash: it passes only if every hash passes
RandPasses(d) == d > 0 /\ Target(d) >= Big - 1

\* ---- content and hashes
ZeroWo == [f \in WoAll |-> 0]
ZeroBh == [f \in BhFields |-> 0]
ZeroBody == [c \in BodyComps |-> 0]
ZeroAux == [commit |-> <<>>, cb |-> 0, branch |-> 0, mroot |-> <<>>, sig |-> <<>>, donor |-> 0, stime |-> 0]
SealInput(ct, fork) == <<[f \in WoSealed(fork) \ {"headerHash"} |-> ct.wo[f]], ct.hh>>
Coinbase(a) == <<a.commit, a.cb, a.stime>>
MerkleRootOf(a) == <<Coinbase(a), a.branch>>
\* AuxTemplate.Hash(): what the quorum signs: donor parameters, coinbase outputs, signature time, merkle branch -
\* NOT the aux commitment (the miner fills in its own seal hash)
TemplateOf(a) == <<a.cb, a.stime, a.branch>>
DonorHeader(a) == <<a.mroot, a.donor>>
PowInput(kind, ct, fork) ==
    IF kind \in AuxKinds THEN <<"donor", DonorHeader(ct.aux)>>
    ELSE <<"quai", SealInput(ct, fork), ct.wo["nonce"], ct.wo["mixHash"]>>
HeaderHashOK(ct) == ct.hh = ct.bh
BodyOK(ct, comps) == \A c \in comps : ct.bh[RootField(c)] = ct.body[c]

\* ---- verdicts (code order)
\* verifySeal
PowVerdict(s) ==
    LET d == DiffVal(s.dc)
        pin == PowInput(s.kind, s.ct, s.fork) IN
    IF d <= 0 THEN "baddiff"
    ELSE IF pin = s.workedOn
         THEN (IF (IF s.kind \in {"sha", "scrypt"} THEN HashVal(d, s.hc) < Target(d)       \* UncleWorkShareClassification: strict
                   ELSE ~(HashVal(d, s.hc) > Target(d)))                                   \* verifySeal: reject iff hash > target
               THEN "ok" ELSE "badpow")
         ELSE (IF RandPasses(d) THEN "ok" ELSE "badpow")
\* UncleWorkShareClassification (pre-fork / transition: VerifySeal, then CheckIfValidWorkShare)
ShareClass(s) ==
    LET d == DiffVal(s.dc)
        h == HashVal(d, s.hc) IN
    IF d <= 0 THEN "invalid"
    ELSE IF PowInput(s.kind, s.ct, s.fork) # s.workedOn THEN (IF RandPasses(d) THEN "block" ELSE "invalid")
    ELSE IF h <= Target(d) THEN "block"
    ELSE IF h <= Target(d) * Pow2(ShareBits) THEN "valid"
    ELSE IF h <= Target(d) * Pow2(SubBits) THEN "sub"
    ELSE "invalid"
\* verifyHeader: header-hash binding, then (post-fork, auxPow present) the AuxPoW branch; VerifyUncles has the same list
BindVerdict(s) ==
    IF ~HeaderHashOK(s.ct) THEN "header-hash"
    ELSE IF s.kind \notin AuxKinds THEN "ok"
    ELSE LET a == s.ct.aux IN
         IF a.stime > 0 THEN "aux-time"                         \* signature time later than donor / quai time
         ELSE IF a.commit # SealInput(s.ct, s.fork) THEN "aux-commit"
         ELSE IF a.mroot # MerkleRootOf(a) THEN "aux-merkle"
         ELSE IF a.sig # TemplateOf(a) THEN "aux-sig"
         ELSE "ok"
BodyVerdict(s) == IF BodyOK(s.ct, ZoneComps) THEN "ok" ELSE "root"
Obs(s) ==
    [vs   |-> PowVerdict(s),
     ws   |-> ShareClass(s),
     bind |-> BindVerdict(s),
     body |-> BodyVerdict(s),
     acc  |-> PowVerdict(s) = "ok" /\ BindVerdict(s) = "ok" /\ BodyVerdict(s) = "ok",
     sealChanged |-> SealInput(s.ct, s.fork) # SealInput(s.sealed, s.fork),
     powChanged  |-> PowInput(s.kind, s.ct, s.fork) # s.workedOn]

NoCase == [phase |-> "init"]
SealInit == sc = NoCase

\* Seal(kind): the miner does work on exactly this content (blake3 / progpow: nonce search; kawpow / sha / scrypt:
\* donor header whose coinbase commits to the seal hash, under the donor merkle root, template signed)
Seal(kind, fork, dc, hc) ==
    /\ sc.phase = "init"
    /\ fork \in ForksOf(kind)
    /\ Realisable(dc, hc)
    /\ (kind # "stub" => dc = "real" /\ hc \in {"real-ok", "tight-ok", "tight-bad"})
    /\ (kind \in {"kawpow"} => hc = "real-ok")                         \* recorded vectors only
    /\ (kind = "stub" => hc \notin {"real-ok", "tight-ok", "tight-bad"} /\ dc # "real")
    /\ LET ct0 == [wo |-> ZeroWo, hh |-> ZeroBh, bh |-> ZeroBh, body |-> ZeroBody, aux |-> ZeroAux]
           a1  == [ZeroAux EXCEPT !.commit = SealInput(ct0, fork)]
           a2  == [a1 EXCEPT !.mroot = MerkleRootOf(a1), !.sig = TemplateOf(a1)]
           ct  == IF kind \in AuxKinds THEN [ct0 EXCEPT !.aux = a2] ELSE ct0
           s   == [phase |-> "sealed", kind |-> kind, fork |-> fork, dc |-> dc, hc |-> hc, ct |-> ct, sealed |-> ct,
                   workedOn |-> PowInput(kind, ct, fork)]
       IN /\ sc' = s
          /\ Log([op |-> "seal", kind |-> kind, fork |-> fork, dc |-> dc, hc |-> hc, f |-> "", fix |-> 0], Obs(s))
    /\ UNCHANGED <<blk, cache>>

Adversarial(s2, rec) ==
    /\ sc' = [s2 EXCEPT !.phase = "done"]
    /\ Log(rec @@ [kind |-> sc.kind, fork |-> sc.fork, dc |-> sc.dc, hc |-> sc.hc], Obs(s2))
    /\ UNCHANGED <<blk, cache>>

GoodSeal == sc.phase = "sealed" /\ sc.hc = "real-ok"

\* one field of the work-object header changes, nonce / mix / auxPow kept
MutateWo(f) ==
    /\ GoodSeal /\ f \in (WoSealed(sc.fork) \ {"headerHash"}) \cup WoOutside
    /\ (f \in WoOutside => sc.kind \notin AuxKinds)
    /\ Adversarial([sc EXCEPT !.ct.wo[f] = 1], [op |-> "mutate-wo", f |-> f, fix |-> 0])

\* the headerHash field itself changes
MutateHeaderHash ==
    /\ GoodSeal
    /\ Adversarial([sc EXCEPT !.ct.hh = [ZeroBh EXCEPT !["extra"] = 1]], [op |-> "mutate-wo", f |-> "headerHash", fix |-> 0])

\* one field of the body header changes; fix = 1: the attacker also recomputes headerHash
MutateBh(f, fix) ==
    /\ GoodSeal /\ f \in BhFields /\ fix \in {0, 1}
    /\ LET bh2 == [sc.ct.bh EXCEPT ![f] = 1]
           s1  == [sc EXCEPT !.ct.bh = bh2]
           s2  == IF fix = 1 THEN [s1 EXCEPT !.ct.hh = bh2] ELSE s1
       IN Adversarial(s2, [op |-> "mutate-bh", f |-> f, fix |-> fix])

\* a body component is replaced; fix = 0: nothing else; 1: its root in the body header too; 2: and headerHash
SwapBody(c, fix) ==
    /\ GoodSeal /\ c \in ZoneComps /\ fix \in {0, 1, 2}
    /\ LET s0  == [sc EXCEPT !.ct.body[c] = 1]
           bh2 == [sc.ct.bh EXCEPT ![RootField(c)] = 1]
           s1  == IF fix >= 1 THEN [s0 EXCEPT !.ct.bh = bh2] ELSE s0
           s2  == IF fix = 2 THEN [s1 EXCEPT !.ct.hh = bh2] ELSE s1
       IN Adversarial(s2, [op |-> "swap-body", f |-> c, fix |-> fix])

\* AuxPoW parts.  what = "commit": the coinbase commits to another seal hash; "coinbase": other coinbase outputs;
\* "branch": another merkle branch; "sig": another template signature; "sigtime": signature time after the block;
\* "donor": another donor header nonce.  fix = 1: the donor merkle root is recomputed (which needs new donor work)
AuxMutate(what, fix) ==
    /\ GoodSeal /\ sc.kind \in AuxKinds /\ fix \in {0, 1}
    /\ what \in {"commit", "coinbase", "branch", "sig", "sigtime", "donor"}
    /\ (what \in {"sig", "donor"} => fix = 0)
    /\ LET a  == sc.ct.aux
           a1 == CASE what = "commit"   -> [a EXCEPT !.commit = <<"other">>]
                   [] what = "coinbase" -> [a EXCEPT !.cb = 1]
                   [] what = "branch"   -> [a EXCEPT !.branch = 1]
                   [] what = "sig"      -> [a EXCEPT !.sig = <<"forged">>]
                   [] what = "sigtime"  -> [a EXCEPT !.stime = 1]
                   [] what = "donor"    -> [a EXCEPT !.donor = 1]
           a2 == IF fix = 1 THEN [a1 EXCEPT !.mroot = MerkleRootOf(a1)] ELSE a1
       IN Adversarial([sc EXCEPT !.ct.aux = a2], [op |-> "aux", f |-> what, fix |-> fix])

\* a merge-mined share whose primary coinbase is not an address of this zone, built from scratch by the attacker (own
\* donor work, coinbase commits to its seal hash) but with a forged template signature
AuxForeignForged ==
    /\ GoodSeal /\ sc.kind \in {"sha", "scrypt"}
    /\ LET ct1 == [sc.ct EXCEPT !.wo["primaryCoinbase"] = 1]
           a1  == [sc.ct.aux EXCEPT !.commit = SealInput(ct1, sc.fork), !.sig = <<"forged">>]
           a2  == [a1 EXCEPT !.mroot = MerkleRootOf(a1)]
           ct2 == [ct1 EXCEPT !.aux = a2]
       IN Adversarial([sc EXCEPT !.ct = ct2, !.sealed = ct2, !.workedOn = PowInput(sc.kind, ct2, sc.fork)],
                      [op |-> "aux-foreign", f |-> "sig", fix |-> 1])

\* the seal (nonce, mix, auxPow) of the sealed header is attached to ANOTHER header that differs in field f
ReuseSealFor(part, f) ==
    /\ GoodSeal
    /\ \/ part = "wo" /\ f \in WoSealed(sc.fork) \ {"headerHash"}
       \/ part = "bh" /\ f \in {"parentHash0", "txHash", "evmRoot", "baseFee"}
    /\ LET other == IF part = "wo" THEN [sc.ct EXCEPT !.wo[f] = 1]
                    ELSE [sc.ct EXCEPT !.bh[f] = 1, !.hh = [sc.ct.bh EXCEPT ![f] = 1]]
       IN Adversarial([sc EXCEPT !.ct = other], [op |-> "reuse", f |-> f, fix |-> IF part = "wo" THEN 0 ELSE 1])

SealNext ==
    /\ step < MaxOps
    /\ \/ \E k \in Kinds, fk \in {"pre", "post"}, dc \in DiffClasses, hc \in HashClasses : Seal(k, fk, dc, hc)
       \/ \E f \in WoAll : MutateWo(f)
       \/ MutateHeaderHash
       \/ \E f \in BhFields, fix \in {0, 1} : MutateBh(f, fix)
       \/ \E c \in BodyComps, fix \in {0, 1, 2} : SwapBody(c, fix)
       \/ \E w \in {"commit", "coinbase", "branch", "sig", "sigtime", "donor"}, fix \in {0, 1} : AuxMutate(w, fix)
       \/ AuxForeignForged
       \/ \E p \in {"wo", "bh"}, f \in WoAll \cup BhFields : ReuseSealFor(p, f)

\* ---- C08 as invariants over the case table
Sealed == sc.phase \in {"sealed", "done"}
\* a worked-on seal passes exactly when hash * difficulty <= 2^W (declarative form of "hash <= 2^W / difficulty")
AcceptIffHashLeTarget ==
    (Sealed /\ sc.kind \notin {"sha", "scrypt"} /\ PowInput(sc.kind, sc.ct, sc.fork) = sc.workedOn) =>
        LET d == DiffVal(sc.dc) IN
        (obs.vs = "ok") <=> (d > 0 /\ HashVal(d, sc.hc) * d <= Big)
\* merge-mined shares: accepted only if (the code is strict at the boundary)
ShareAcceptedOnlyIfHashLeTarget ==
    (Sealed /\ sc.kind \in {"sha", "scrypt"} /\ obs.vs = "ok" /\ PowInput(sc.kind, sc.ct, sc.fork) = sc.workedOn) =>
        HashVal(DiffVal(sc.dc), sc.hc) * DiffVal(sc.dc) <= Big
\* whatever differs between the sealed content and the presented one - a consensus field of the work-object header,
\* any body-header field, any body component - either changes the seal hash or breaks a binding that is checked
SealCoversEveryConsensusField ==
    LET Proj(ct) == <<[f \in ConsensusWo(sc.fork) \ {"headerHash"} |-> ct.wo[f]], ct.hh, ct.bh, [c \in ZoneComps |-> ct.body[c]]>> IN
    (sc.phase = "done" /\ Proj(sc.ct) # Proj(sc.sealed)) =>
        (obs.sealChanged \/ obs.bind = "header-hash" \/ obs.body = "root")
\* nonce and mixHash are outside the seal hash
OutsideFieldsNotSealed ==
    (sc.phase = "done" /\ hist[Len(hist)].op = "mutate-wo" /\ hist[Len(hist)].f \in WoOutside) => ~obs.sealChanged
\* an accepted seal belongs to exactly the content it was made for (unless the difficulty is so low that no work is needed)
NoSealReuse ==
    (sc.phase = "done" /\ obs.acc /\ ~RandPasses(DiffVal(sc.dc))) =>
        /\ SealInput(sc.ct, sc.fork) = SealInput(sc.sealed, sc.fork)
        /\ sc.ct.bh = sc.sealed.bh
        /\ \A c \in ZoneComps : sc.ct.body[c] = sc.sealed.body[c]
\* merge-mined: accepted only if the donor coinbase commits to this seal hash, lies under the donor merkle root, and the
\* template signature is valid
AuxPowBindsSealHash ==
    (Sealed /\ sc.kind \in AuxKinds /\ obs.bind = "ok") =>
        LET a == sc.ct.aux IN
        /\ a.commit = SealInput(sc.ct, sc.fork)
        /\ a.mroot = MerkleRootOf(a)
        /\ a.sig = TemplateOf(a)
        /\ a.stime = 0

(***************************************************************************)
(*                               PART "ext"                                *)
(***************************************************************************)
P == 1   R == 2   Z == 3          \* contexts (common.PRIME_CTX = 0 ... in the code)
\* protocol parameters, scaled down
D0 == 8            \* genesis difficulty
MinD == 6          \* powConfig.MinDifficulty
Dur == 2           \* powConfig.DurationLimit
MaxDt == 3         \* params.MaxTimeDiffBetweenBlocks
AdjDiv == 8        \* DifficultyAdjustmentFactor * DifficultyAdjustmentPeriod
NowT == 40         \* wall clock at verification time; allowedFutureBlockTimeSeconds folded in
PrimeTgt == 4   RegionTgt == 2       \* params.PrimeEntropyTarget / RegionEntropyTarget at expansion 0
TimeToStart == 1   Ramp == 3   MinGas == 5   GasCeil == 12   StateCeil == 9
Rate0 == 3   FeeDiv == 4

Ids == 0 .. Len(blk) - 1
B(b) == blk[b + 1]
Genesis == [p |-> 0, ord |-> P, intr |-> 0, t |-> 0, d |-> D0, n |-> <<0, 0, 0>>, gl |-> 0, sl |-> 0, bf |-> 0,
            pt |-> 0, ptn |-> 0, exp |-> 0, pe |-> <<0, 0, 0>>, pd |-> <<0, 0, 0>>, pu |-> <<0, 0, 0>>, ue |-> 0, e |-> 0, ed |-> 0]

\* nearest ancestor-or-self that is coincident with context c (the head of chain c when b is the zone head)
RECURSIVE DomHead(_, _)
DomHead(b, c) == IF B(b).ord <= c THEN b ELSE DomHead(B(b).p, c)

\* poem.go CalcOrder: thresholds in bits over the zone threshold log2(difficulty)
Order(i, pdR, pdZ, d) ==
    LET zt == Log2(d) IN
    IF i > zt + Log2(PrimeTgt) /\ pdR + pdZ + i > (PrimeTgt * zt) \div 2 THEN P
    ELSE IF i > zt + Log2(RegionTgt) /\ pdZ + i > (RegionTgt * zt) \div 2 THEN R
    ELSE Z
OrderOf(h) == Order(h.intr, h.pd[R], h.pd[Z], h.d)
\* poem.go TotalLogEntropy / DeltaLogEntropy / UncledDeltaLogEntropy of a header, by its order
EntropyOf(h) ==
    LET o == OrderOf(h) IN
    IF o = P THEN h.pe[P] + h.pd[R] + h.pd[Z] + h.intr
    ELSE IF o = R THEN h.pe[R] + h.pd[Z] + h.intr
    ELSE h.pe[Z] + h.intr
DeltaOf(h)  == LET o == OrderOf(h) IN IF o = P THEN 0 ELSE IF o = R THEN h.pd[R] + h.pd[Z] + h.intr ELSE h.pd[Z] + h.intr
UDeltaOf(h) == LET o == OrderOf(h) IN IF o = P THEN 0 ELSE IF o = R THEN h.pu[R] + h.pu[Z] + h.ue ELSE h.pu[Z] + h.ue

\* headerchain_validation.go CalcDifficulty(parent)
CalcDiff(p) ==
    IF p = 0 THEN B(0).d
    ELSE IF B(p).p = 0 THEN B(p).d
    ELSE LET dt == MinOf(B(p).t - B(B(p).p).t, MaxDt)
             x  == (((Dur - dt) * B(p).d * Log2(B(p).d)) \div Dur) \div AdjDiv + B(p).d
         IN MaxOf(x, MinD)
\* block_validator.go CalcGasLimit / misc.CalcStateLimit
CalcLimit(p, parentLimit, ceil) ==
    IF B(p).n[Z] < TimeToStart THEN 0
    ELSE IF parentLimit = 0 THEN MinGas
    ELSE IF B(p).n[Z] < Ramp THEN MaxOf((B(p).n[Z] * ceil) \div Ramp, MinGas)
    ELSE ceil
\* exchange rate recorded in prime blocks (outside this property: any function of the prime block will do)
RateOf(b) == Rate0 + B(b).n[P]
\* headerchain.go CalcBaseFee(parent)
CalcFee(p) ==
    IF p = 0 THEN 0
    ELSE LET rate == IF B(p).p = 0 THEN Rate0 ELSE RateOf(B(p).pt) IN (B(p).d * rate) \div FeeDiv
PtOf(p)  == IF B(p).ord = P THEN p ELSE B(p).pt
PtnOf(p) == IF B(p).ord = P THEN B(p).n[P] ELSE B(p).ptn

\* what worker / pending-header assembly fill in for a child of p sealed with x bits over the threshold, dt later
Derive(p, x, dt) ==
    LET par == B(p)
        rp  == DomHead(p, R)
        pp  == DomHead(p, P)
        d   == CalcDiff(p)
        h0  == [p |-> p, ord |-> Z, intr |-> Log2(d) + x, t |-> par.t + dt, d |-> d,
                n |-> <<B(pp).n[P] + 1, B(rp).n[R] + 1, par.n[Z] + 1>>,
                gl |-> CalcLimit(p, par.gl, GasCeil), sl |-> CalcLimit(p, par.sl, StateCeil), bf |-> CalcFee(p),
                pt |-> PtOf(p), ptn |-> PtnOf(p), exp |-> B(PtOf(p)).exp,
                pe |-> <<B(pp).ed, B(rp).ed, par.e>>,
                pd |-> <<0, IF B(rp).ord < R THEN 0 ELSE DeltaOf(B(rp)), IF par.ord < Z THEN 0 ELSE DeltaOf(par)>>,
                pu |-> <<0, IF B(rp).ord < R THEN 0 ELSE UDeltaOf(B(rp)), IF par.ord < Z THEN 0 ELSE UDeltaOf(par)>>,
                ue |-> 0, e |-> 0, ed |-> 0]
        h1  == [h0 EXCEPT !.ord = OrderOf(h0)]
    \* e: total entropy as the zone chain accounts it; ed: as the dominant chains do.  They differ only by the
    \* work-share entropy of uncles, which this model does not have (the trace validation feeds both from the code)
    IN [h1 EXCEPT !.e = EntropyOf(h1), !.ed = EntropyOf(h1)]

\* verifyHeader at every context the header is coincident with; result = name of the first violated rule
ZoneRules(h) ==
    LET p == h.p  par == B(p) IN
    IF h.t > NowT THEN "time-future"
    ELSE IF h.t < par.t THEN "time-old"
    ELSE IF h.d # CalcDiff(p) THEN "difficulty"
    ELSE IF h.pe[Z] # par.e THEN "parent-entropy-z"
    ELSE IF h.pd[Z] # (IF par.ord < Z THEN 0 ELSE DeltaOf(par)) THEN "parent-delta-z"
    ELSE IF h.pu[Z] # (IF par.ord < Z THEN 0 ELSE UDeltaOf(par)) THEN "parent-udelta-z"
    ELSE IF h.exp # B(PtOf(p)).exp THEN "expansion"
    ELSE IF h.gl # CalcLimit(p, par.gl, GasCeil) THEN "gas-limit"
    ELSE IF h.sl # CalcLimit(p, par.sl, StateCeil) THEN "state-limit"
    ELSE IF h.bf # CalcFee(p) THEN "base-fee"
    ELSE IF h.pt # PtOf(p) THEN "prime-terminus-hash"
    ELSE IF h.ptn # PtnOf(p) THEN "prime-terminus-number"
    ELSE IF h.n[Z] # par.n[Z] + 1 THEN "number-z"
    ELSE "ok"
RegionRules(h) ==
    LET rp == DomHead(h.p, R) IN
    IF h.t < B(rp).t THEN "time-old"
    ELSE IF h.pe[R] # B(rp).ed THEN "parent-entropy-r"
    ELSE IF h.pd[R] # (IF B(rp).ord < R THEN 0 ELSE DeltaOf(B(rp))) THEN "parent-delta-r"
    ELSE IF h.pu[R] # (IF B(rp).ord < R THEN 0 ELSE UDeltaOf(B(rp))) THEN "parent-udelta-r"
    ELSE IF h.n[R] # B(rp).n[R] + 1 THEN "number-r"
    ELSE "ok"
PrimeRules(h) ==
    LET pp == DomHead(h.p, P) IN
    IF h.pe[P] # B(pp).ed THEN "parent-entropy-p"
    ELSE IF h.n[P] # B(pp).n[P] + 1 THEN "number-p"
    ELSE "ok"
Verify(h) ==
    LET o == OrderOf(h)
        z == ZoneRules(h) IN
    IF z # "ok" THEN z
    ELSE LET r == IF o <= R THEN RegionRules(h) ELSE "ok" IN
         IF r # "ok" THEN r
         ELSE IF o = P THEN PrimeRules(h) ELSE "ok"

\* single-field deviations; ctx = the context whose verifyHeader owns the rule
DevFields == {"time-", "time+", "difficulty", "gasLimit", "stateLimit", "baseFee", "primeTerminusHash", "primeTerminusNumber",
              "expansionNumber", "numberZ", "parentEntropyZ", "parentDeltaEntropyZ", "parentUncledDeltaEntropyZ",
              "numberR", "parentEntropyR", "parentDeltaEntropyR", "parentUncledDeltaEntropyR",
              "numberP", "parentEntropyP"}
DevCtx(f) == IF f \in {"numberP", "parentEntropyP"} THEN P
             ELSE IF f \in {"numberR", "parentEntropyR", "parentDeltaEntropyR", "parentUncledDeltaEntropyR"} THEN R ELSE Z
ApplyDev(h, f, delta) ==
    CASE f = "time-" -> [h EXCEPT !.t = B(h.p).t - 1]
      [] f = "time+" -> [h EXCEPT !.t = NowT + 1]
      [] f = "difficulty" -> [h EXCEPT !.d = h.d + delta]
      [] f = "gasLimit" -> [h EXCEPT !.gl = h.gl + delta]
      [] f = "stateLimit" -> [h EXCEPT !.sl = h.sl + delta]
      [] f = "baseFee" -> [h EXCEPT !.bf = h.bf + delta]
      [] f = "primeTerminusHash" -> [h EXCEPT !.pt = h.pt + delta]
      [] f = "primeTerminusNumber" -> [h EXCEPT !.ptn = h.ptn + delta]
      [] f = "expansionNumber" -> [h EXCEPT !.exp = h.exp + delta]
      [] f = "numberZ" -> [h EXCEPT !.n[Z] = h.n[Z] + delta]
      [] f = "numberR" -> [h EXCEPT !.n[R] = h.n[R] + delta]
      [] f = "numberP" -> [h EXCEPT !.n[P] = h.n[P] + delta]
      [] f = "parentEntropyZ" -> [h EXCEPT !.pe[Z] = h.pe[Z] + delta]
      [] f = "parentEntropyR" -> [h EXCEPT !.pe[R] = h.pe[R] + delta]
      [] f = "parentEntropyP" -> [h EXCEPT !.pe[P] = h.pe[P] + delta]
      [] f = "parentDeltaEntropyZ" -> [h EXCEPT !.pd[Z] = h.pd[Z] + delta]
      [] f = "parentDeltaEntropyR" -> [h EXCEPT !.pd[R] = h.pd[R] + delta]
      [] f = "parentUncledDeltaEntropyZ" -> [h EXCEPT !.pu[Z] = h.pu[Z] + delta]
      [] f = "parentUncledDeltaEntropyR" -> [h EXCEPT !.pu[R] = h.pu[R] + delta]

ExtInit == blk = <<Genesis>> /\ cache = {}

DtName(dt) == IF dt = 0 THEN "fast" ELSE IF dt <= MaxDt THEN "target" ELSE "slow"

\* a miner extends block p (worker assembles, node verifies, Slice.Append stores)
Extend(p, x, dt) ==
    /\ Len(blk) <= MaxBlocks
    /\ LET h == Derive(p, x, dt) IN
       /\ h.t <= NowT
       /\ Verify(h) = "ok"                      \* ChildEqualsDerived makes this a theorem; kept as the code's gate
       /\ blk' = Append(blk, h)
       /\ cache' = cache \cup {<<Len(blk), h.ord>>}     \* Append runs CalcOrder on the new block
       /\ Log([op |-> "extend", p |-> p, b |-> Len(blk), x |-> x, dt |-> DtName(dt), f |-> "", ctx |-> h.ord], <<"accept", h.ord, h.n>>)
    /\ UNCHANGED sc

\* an adversarial child of p: derived, then one field changed by delta (and re-sealed: the seal is not what is judged)
Deviate(p, x, dt, f, delta) ==
    /\ WithDeviations
    /\ LET h0 == Derive(p, x, dt)
           h1 == ApplyDev(h0, f, delta)
           h  == [h1 EXCEPT !.ord = OrderOf(h1)] IN
       /\ h0.t <= NowT
       /\ DevCtx(f) >= h0.ord                  \* the rule's context sees this block
       /\ OrderOf(h1) <= DevCtx(f)             \* ... also after the deviation
       /\ Log([op |-> "deviate", p |-> p, b |-> 0 - 1, x |-> x, dt |-> DtName(dt), f |-> f, ctx |-> DevCtx(f)],
              <<IF Verify(h) = "ok" THEN "accept" ELSE "reject", Verify(h)>>)
    /\ UNCHANGED <<sc, blk, cache>>

\* poem.go CalcOrder through the calc-order cache
CalcOrderCall(b) ==
    /\ WithCache /\ b \in Ids \ {0}
    /\ LET hit == {c \in cache : c[1] = b}
           o   == IF hit # {} THEN (CHOOSE c \in hit : TRUE)[2] ELSE OrderOf(B(b)) IN
       /\ cache' = cache \cup {<<b, o>>}
       /\ Log([op |-> "calcorder", p |-> 0, b |-> b, x |-> 0, dt |-> "", f |-> IF hit # {} THEN "warm" ELSE "cold", ctx |-> 0], <<"order", o, B(b).n>>)
    /\ UNCHANGED <<sc, blk>>

\* process restart: the caches are gone, the database is not
Restart ==
    /\ WithCache /\ cache # {}
    /\ cache' = {}
    /\ Log([op |-> "restart", p |-> 0, b |-> 0, x |-> 0, dt |-> "", f |-> "", ctx |-> 0], <<"ok", 0, <<0, 0, 0>>>>)
    /\ UNCHANGED <<sc, blk>>

ExtNext ==
    /\ step < MaxOps
    /\ \/ \E p \in Ids, x \in IntrVals, dt \in DtVals : Extend(p, x, dt)
       \/ \E p \in Ids, x \in IntrVals, dt \in DtVals, f \in DevFields, delta \in {0 - 1, 1} : Deviate(p, x, dt, f, delta)
       \/ \E b \in Ids : CalcOrderCall(b)
       \/ Restart

\* ---- C09 as invariants over the block tree
Blocks == Ids \ {0}
\* every stored block is exactly what its parent's state derives for some seal and time (stated for the newest
\* block: older ones were the newest in a predecessor state and ancestors never change)
ChildEqualsDerived ==
    LET b == Len(blk) - 1 IN
    b > 0 => \E x \in IntrVals, dt \in DtVals : B(b) = Derive(B(b).p, x, dt)
\* no single-field deviation passes
DeviationRejected ==
    \A i \in DOMAIN hist : hist[i].op = "deviate" => hist[i].res[1] = "reject"
\* accumulated entropy strictly increases along every chain: the zone chain in the zone's accounting, the region and
\* prime chains in theirs
EntropyStrictlyIncreases ==
    \A b \in Blocks : /\ B(b).e > B(B(b).p).e
                      /\ \A c \in {P, R} : B(b).ord <= c => B(b).ed > B(DomHead(B(b).p, c)).ed
\* the recorded parent entropy of every context the block is coincident with is the entropy of that context's parent
ParentEntropyRecorded ==
    \A b \in Blocks : /\ B(b).pe[Z] = B(B(b).p).e
                      /\ \A c \in {P, R} : B(b).ord <= c => B(b).pe[c] = B(DomHead(B(b).p, c)).ed
\* numbers: one more than the context parent, in every context
NumbersConsecutive ==
    \A b \in Blocks : \A c \in {P, R, Z} : B(b).n[c] = B(DomHead(B(b).p, c)).n[c] + 1
PrimeTerminusIsLastPrime ==
    \A b \in Blocks : B(b).pt = DomHead(B(b).p, P) /\ B(b).ptn = B(DomHead(B(b).p, P)).n[P]
\* order: every answer CalcOrder ever gave for a block (through the cache, without it, after a restart) is the order
\* the block was stored with
OrderStable ==
    /\ \A c \in cache : c[1] \in Blocks => c[2] = B(c[1]).ord
    /\ (obs[1] = "order" => obs[2] = B(hist[Len(hist)].b).ord)
\* ... and that order is a function of the seal and the recorded deltas alone
OrderIsFunctionOfSealAndDeltas == \A b \in Blocks : B(b).ord = OrderOf(B(b))
\* the lemma behind EntropyStrictlyIncreases: every accepted seal has positive intrinsic entropy
IntrinsicPositive == \A b \in Blocks : B(b).intr > 0

(***************************************************************************)
Init ==
    /\ step = 0 /\ obs = <<"init">> /\ hist = <<>>
    /\ (IF Part = "seal" THEN SealInit /\ blk = <<>> /\ cache = {} ELSE ExtInit /\ sc = NoCase)
Next == IF Part = "seal" THEN SealNext ELSE ExtNext
Spec == Init /\ [][Next]_vars

\* emit every explored behaviour for replay on the implementation
EmitHist == PrintT("@@" \o ToJson(hist'))
=============================================================================
