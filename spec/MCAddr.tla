------------------------------ MODULE MCAddr ------------------------------
EXTENDS Addr
NAll == {"prime", "region", "zoneA", "zoneB"}
ZB3 == {"z00", "z01", "other"}
L2 == {"quai", "qi"}
PAll == {"bytes", "bytes20", "hex", "json", "text", "rlp", "proto", "big", "scan", "mixedcase", "txto", "txal", "etxsender"}
DAll == {"pubkey", "txsender", "create", "create2"}
MAll == {"AddBalance", "SubBalance", "SetBalance", "SetNonce", "SetCode", "SetState", "SetStorage", "CreateAccount"}
QL == {20, 19, 21, 0}
=============================================================================
