SPECIFICATION Spec
CONSTANTS
  Orders = {0, 1, 2}
  MaxCrashes = 1
  DomCommitsFirst = FALSE
INVARIANTS TypeOK Recoverable NoDomAheadOfSub HeadIsAppended
ACTION_CONSTRAINT EmitHist
CHECK_DEADLOCK FALSE
