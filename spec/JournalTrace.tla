--------------------------- MODULE JournalTrace ---------------------------
(***************************************************************************)
(* Trace validation for Journal.tla.  Every event logged by                *)
(* harness/cmd/journaldrv (one per StateDB call at the journal level, one  *)
(* per frame/operation step at the EVM level, each with the state observed *)
(* on the real code afterwards) must be the Journal action of that name    *)
(* with those arguments, and the observed state must be the state the      *)
(* specification defines.  Independently of the specification, the digest  *)
(* of the full concrete projection logged when a snapshot was taken (a     *)
(* frame was entered) must reappear after a revert to it: C12 evaluated on *)
(* the implementation's own states.                                        *)
(*                                                                         *)
(* Deviations do not stop TLC: they are printed ("@@" lines) and the rest  *)
(* of that trace, if any, is consumed without comparing it with the        *)
(* specification (its states have diverged); tools/props/C12.py turns      *)
(* every printed deviation into a finding.                                 *)
(***************************************************************************)
EXTENDS Journal

Acc(bal, nonce, code, stor, size) ==
    [ex |-> TRUE, bal |-> bal, nonce |-> nonce, code |-> code, stor |-> stor, size |-> size, dead |-> FALSE,
     tomb |-> FALSE, cst |-> stor]
Z1 == [s \in 1..1 |-> 0]
Z2 == [s \in 1..2 |-> 0]
None1 == [ex |-> FALSE, bal |-> 0, nonce |-> 0, code |-> 0, stor |-> Z1, size |-> 0, dead |-> FALSE, tomb |-> FALSE, cst |-> Z1]
None2 == [ex |-> FALSE, bal |-> 0, nonce |-> 0, code |-> 0, stor |-> Z2, size |-> 0, dead |-> FALSE, tomb |-> FALSE, cst |-> Z2]

\* universe "jt" of journaldrv (random journal-level traces)
GenT == <<Acc(5, 1, 1, <<1, 2>>, 2), Acc(3, 2, 1, <<0, 1>>, 1), Acc(4, 0, 0, Z2, 0), None2>>
NoLock4 == <<FALSE, FALSE, FALSE, FALSE>>
\* universe "evm" (same as MCJournal.GenE)
GenE == <<Acc(2, 1, 1, Z1, 0), Acc(1, 1, 1, <<1>>, 1), Acc(1, 1, 1, Z1, 0), Acc(0, 1, 1, Z1, 0), Acc(1, 1, 1, Z1, 0),
          Acc(1, 0, 0, Z1, 0), None1, None1, None1, None1>>
LockE == <<TRUE, TRUE, TRUE, TRUE, TRUE, FALSE, FALSE, FALSE, FALSE, FALSE>>
FrE == <<1, 2, 3, 4, 5>>
NewE == <<8, 9, 10>>
XferE == {6, 7}
\* universe "evml" (long EVM-level behaviours from TLC simulation)
GenEL == <<Acc(3, 1, 1, Z1, 0), Acc(1, 1, 1, <<1>>, 1), Acc(1, 1, 1, Z1, 0), Acc(0, 1, 1, Z1, 0), Acc(1, 1, 1, Z1, 0),
           Acc(2, 1, 1, <<2>>, 1), Acc(1, 1, 1, Z1, 0), Acc(1, 1, 1, Z1, 0),
           Acc(1, 0, 0, Z1, 0), None1, None1, None1, None1, None1>>
LockEL == <<TRUE, TRUE, TRUE, TRUE, TRUE, TRUE, TRUE, TRUE, FALSE, FALSE, FALSE, FALSE, FALSE, FALSE>>
FrEL == <<1, 2, 3, 4, 5, 6, 7, 8>>
NewEL == <<11, 12, 13, 14>>
XferEL == {9, 10}
FrNone == <<>>
NewNone == <<>>
XferNone == {}
AllOps == {"addbalance", "subbalance", "setbalance", "setnonce", "setcode", "setstate", "settransient", "suicide",
           "createaccount", "addlog", "addrefund", "subrefund", "addpreimage", "aladdr", "alslot", "snapshot", "revert",
           "push", "popok", "popsuicide", "popabort", "sstore", "tstore", "log", "xfer", "etx", "xcall", "claim", "txend"}
\* journal-level traces: the StateDB interface only (a transaction boundary may then come at any time, see BoundaryOk)
AllOpsJ == {"addbalance", "subbalance", "setbalance", "setnonce", "setcode", "setstate", "settransient", "suicide",
            "createaccount", "addlog", "addrefund", "subrefund", "addpreimage", "aladdr", "alslot", "snapshot", "revert",
            "txend", "blockend"}
AnyVals == 0..255
AnyAmts == 0..255

Trace == ndJsonDeserialize("journaltrace.ndjson")

VARIABLES l,       \* next trace line to consume
          skip,    \* the current trace has deviated from the specification: consume without comparing
          isaved   \* digests logged by the implementation at snapshot time, by snapshot id

tvars == <<vars, l, skip, isaved>>

Ev == Trace[l]
Is(name) == l <= Len(Trace) /\ Ev.op = name

AsSet(s) == {s[i] : i \in 1..Len(s)}
\* f: specified state, g: logged state.  EVM level: the refund counter is not modelled numerically and
\* the access list is bypassed by the harness (both are covered by the digests)
Conforms(f, g, lvl) ==
    /\ f.A = g.A /\ f.L = g.L /\ f.X = g.X /\ f.H = g.H
    /\ AsSet(f.P) = AsSet(g.P) /\ AsSet(f.T) = AsSet(g.T) /\ AsSet(f.M) = AsSet(g.M) /\ AsSet(f.D) = AsSet(g.D)
    /\ lvl = "j" => (f.R = g.R /\ AsSet(f.AA) = AsSet(g.AA) /\ AsSet(f.AS) = AsSet(g.AS))

Report(kind, exp) ==
    PrintT("@@" \o ToJson([kind |-> kind, line |-> l, trace |-> Ev.trace, op |-> Ev.op, lvl |-> Ev.lvl,
                           id |-> Ev.id, exp |-> exp, got |-> Ev.vis]))

\* implementation-only check: after a revert the logged digest equals the one logged at the snapshot
IsRevertEv == Ev.op \in {"revert", "popabort"}
ImplRestored == /\ IsRevertEv => (Ev.id + 1 \in 1..Len(isaved) /\ isaved[Ev.id + 1] = Ev.dg)
                /\ (Ev.op = "xcall" /\ Ev.s = 0) => Ev.pre = Ev.dg     \* a failed cross-zone transaction
TrackDigests ==
    /\ isaved' = IF Ev.op = "snapshot" THEN Append(isaved, Ev.dg)
                 ELSE IF Ev.op \in {"push", "xcall"} THEN Append(isaved, Ev.pre) ELSE isaved
    /\ (IF ImplRestored THEN TRUE ELSE Report("impl-revert", <<>>))

\* the spec action fires with the logged arguments; logged result and state are compared with the specified ones
Step(A) ==
    /\ ~skip
    /\ A
    /\ LET r == hist'[Len(hist')] IN
         r.op = Ev.op /\ r.a = Ev.a /\ r.s = Ev.s /\ r.v = Ev.v /\ r.id = Ev.id
    /\ l' = l + 1
    /\ TrackDigests
    /\ LET ok == Conforms(Flat(Vis'), Ev.vis, Ev.lvl) /\ obs' = Ev.res IN
         /\ (IF ok THEN TRUE ELSE Report("state", Flat(Vis')))
         /\ skip' = ~ok

\* (the driver stops logging a trace at its first deviation; should more events follow they are consumed unjudged)
Skipped ==
    /\ skip /\ l <= Len(Trace) /\ Ev.op # "tracereset"
    /\ l' = l + 1
    /\ UNCHANGED <<vars, skip, isaved>>

TraceInit == Init /\ l = 1 /\ skip = FALSE /\ isaved = <<>>

TraceReset ==
    /\ Is("tracereset")
    /\ st' = [acct |-> Genesis, refund |-> 0, logs |-> <<>>,
              alA |-> [a \in Addrs |-> FALSE], alS |-> [a \in Addrs |-> [s \in Slots |-> FALSE]],
              tst |-> [a \in Addrs |-> ZeroStor], preim |-> [p \in 1..1 |-> FALSE],
              pend |-> [a \in Addrs |-> FALSE], trie |-> Genesis]
    /\ ev' = [etx |-> <<>>, ldh |-> <<>>, ldm |-> [a \in Addrs |-> FALSE], bdel |-> [a \in Addrs |-> FALSE]]
    /\ jr' = <<>> /\ revs' = <<>> /\ nextId' = 0 /\ saved' = <<>>
    /\ cnt' = Cnt0
    /\ step' = 0 /\ obs' = <<"init">> /\ hist' = <<>>
    /\ l' = l + 1 /\ skip' = FALSE /\ isaved' = <<>>

KindName(k) == IF k = 1 THEN "call" ELSE IF k = 2 THEN "delegate" ELSE "create"

TraceNext ==
    \/ TraceReset
    \/ Skipped
    \/ Is("addbalance")    /\ Step(AddBalance(Ev.a, Ev.v))
    \/ Is("subbalance")    /\ Step(SubBalance(Ev.a, Ev.v))
    \/ Is("setbalance")    /\ Step(SetBalance(Ev.a, Ev.v))
    \/ Is("setnonce")      /\ Step(SetNonce(Ev.a))
    \/ Is("setcode")       /\ Step(SetCode(Ev.a, Ev.v))
    \/ Is("setstate")      /\ Step(SetState(Ev.a, Ev.s, Ev.v))
    \/ Is("settransient")  /\ Step(SetTransientState(Ev.a, Ev.s, Ev.v))
    \/ Is("suicide")       /\ Step(Suicide(Ev.a))
    \/ Is("createaccount") /\ Step(CreateAccount(Ev.a))
    \/ Is("addlog")        /\ Step(AddLog(Ev.a))
    \/ Is("addrefund")     /\ Step(AddRefund(Ev.v))
    \/ Is("subrefund")     /\ Step(SubRefund(Ev.v))
    \/ Is("addpreimage")   /\ Step(AddPreimage(Ev.a))
    \/ Is("aladdr")        /\ Step(AddAddressToAccessList(Ev.a))
    \/ Is("alslot")        /\ Step(AddSlotToAccessList(Ev.a, Ev.s))
    \/ Is("snapshot")      /\ Step(Snapshot)
    \/ Is("revert")        /\ Step(\E i \in 1..Len(revs) : revs[i].id = Ev.id /\ RevertToSnapshot(i))
    \/ Is("push")          /\ Step(Push(KindName(Ev.s), Ev.v))
    \/ Is("popok")         /\ Step(PopOk)
    \/ Is("popsuicide")    /\ Step(PopSuicide)
    \/ Is("popabort")      /\ Step(PopAbort(Ev.v))
    \/ Is("sstore")        /\ Step(SStore(Ev.s, Ev.v))
    \/ Is("tstore")        /\ Step(TStore(Ev.s, Ev.v))
    \/ Is("log")           /\ Step(EmitLog)
    \/ Is("xfer")          /\ Step(Xfer(Ev.a))
    \/ Is("etx")           /\ Step(Etx)
    \/ Is("xcall")         /\ Step(TopXCall(Ev.a, Ev.s = 1))
    \/ Is("claim")         /\ Step(Claim)
    \/ Is("txend")         /\ Step(TxBoundary)
    \/ Is("blockend")      /\ Step(BlockBoundary)

TraceSpec == TraceInit /\ [][TraceNext]_tvars

\* the whole trace was consumed (an event outside the interface contract stops the run)
TraceAccepted == TLCGet("stats").diameter - 1 = Len(Trace)
=============================================================================
