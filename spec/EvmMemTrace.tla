---------------------------- MODULE EvmMemTrace ----------------------------
(***************************************************************************)
(* Trace validation for EvmMem.tla.  harness/cmd/memdrv logs one event per *)
(* interpreter step of the real EVM (vm.Tracer.CaptureState, called after  *)
(* interpreter.Run charged the step's gas and resized memory):             *)
(*   [ev |-> "step", op, d (depth), mb / ma (frame memory before / after,  *)
(*    words), gb / ga (frame gas before / after charging), fg (gas the     *)
(*    frame was entered with), tg (gas left in the top-level frame)]       *)
(* "fault": the step aborted before mem.Resize; "tracereset": next program *)
(* (fresh EVM); "traceend": last line.                                     *)
(*                                                                         *)
(* Each step must be an Exec step of the opcode's class as given by the    *)
(* facts generated from the jump table (EvmMemFacts.tla): memory changes   *)
(* only as NewSize allows and at least MemCharge is paid.  The frames      *)
(* variable is driven from the logged values, so MemoryPaid /              *)
(* TotalMemoryPaid of EvmMem are evaluated on the IMPLEMENTATION's states. *)
(***************************************************************************)
EXTENDS EvmMem, EvmMemFacts

Trace == ndJsonDeserialize("evmmem.ndjson")

VARIABLES l,          \* next trace line
          mismatch,   \* first event that is not a step the spec allows for that opcode
          unpaid,     \* opcodes seen growing memory in a step that charged less than the expansion (whole trace)
          unpaidHere, \* the same, current program only
          topLeft,    \* gas left in the top-level frame (logged)
          stats       \* [steps, grew, faults, programs, broken]

tvars == <<vars, l, mismatch, unpaid, unpaidHere, topLeft, stats>>

FactByName == [n \in {f.name : f \in OpFacts} |-> ClassOf(CHOOSE f \in OpFacts : f.name = n)]

TraceInit ==
    /\ Init /\ l = 1 /\ mismatch = <<>> /\ unpaid = {} /\ unpaidHere = {} /\ topLeft = GasLimit
    /\ stats = [steps |-> 0, grew |-> 0, faults |-> 0, programs |-> 0, broken |-> 0]

Ev == Trace[l]
Is(name) == l <= Len(Trace) /\ Ev.ev = name

\* frames as they are when the interpreter reports depth d: deeper frames have returned,
\* a frame one deeper than the stack has just been entered (empty memory, entry gas fg)
AtDepth(d, fg) ==
    IF d <= Depth THEN SubSeq(frames, 1, d) ELSE Append(frames, NewFrame(fg))

Paid(fs) == \A i \in 1..Len(fs) : MemCost(fs[i].mem) <= fs[i].spent

TraceReset ==
    /\ Is("tracereset")
    /\ frames' = <<NewFrame(Ev.gas)>>
    /\ halted' = FALSE /\ step' = 0 /\ obs' = <<"init">> /\ hist' = <<>>
    /\ topLeft' = Ev.gas
    /\ unpaidHere' = {}
    /\ stats' = [stats EXCEPT !.programs = @ + 1]
    /\ l' = l + 1 /\ UNCHANGED <<mismatch, unpaid>>

TraceStep ==
    /\ Is("step")
    /\ LET e      == Ev
           d      == e.d
           base   == AtDepth(d, e.fg)
           k      == FactByName[e.op]
           paid   == e.gb - e.ga
           grew   == e.ma > e.mb
           \* the step as the specification defines it for this opcode class
           okShape == /\ d >= 1 /\ d <= Depth + 1
                      /\ e.mb = base[d].mem                    \* memory changes only in steps
                      /\ e.ma = NewSize(k, e.mb, e.ma)           \* grows only if the class has memorySize, never shrinks
                      /\ e.fg = base[d].limit /\ e.ga <= e.gb /\ e.gb <= e.fg
           okPaid  == paid >= MemCharge(k, e.mb, e.ma)          \* a charging class pays at least the expansion
           under   == grew /\ paid < MemCost(e.ma) - MemCost(e.mb)
           after   == [mem |-> e.ma, spent |-> e.fg - e.ga, limit |-> e.fg]
           fs      == [base EXCEPT ![d] = after]
       IN  /\ d >= 1 /\ d <= Depth + 1
           /\ frames' = fs
           /\ topLeft' = e.tg
           /\ mismatch' = IF mismatch = <<>> /\ ~(okShape /\ okPaid)
                          THEN <<l, e.op, IF okShape THEN "underpaid" ELSE "shape">> ELSE mismatch
           /\ unpaid' = IF under THEN unpaid \cup {e.op} ELSE unpaid
           /\ unpaidHere' = IF under THEN unpaidHere \cup {e.op} ELSE unpaidHere
           /\ stats' = [stats EXCEPT !.steps = @ + 1, !.grew = @ + (IF grew THEN 1 ELSE 0),
                                     !.broken = @ + (IF Paid(fs) THEN 0 ELSE 1)]
    /\ step' = step + 1 /\ obs' = <<"ok", Ev.ma, Ev.fg - Ev.ga>>
    /\ UNCHANGED <<halted, hist>>
    /\ l' = l + 1

\* the step failed before mem.Resize (out of gas, stack, invalid opcode, overflow, write protection)
\* or inside execute: memory is as before; the frame is about to end
TraceFault ==
    /\ Is("fault")
    /\ LET e == Ev
           d == e.d
           base == AtDepth(d, e.fg)
           ok == d >= 1 /\ d <= Depth + 1 /\ e.mb = base[d].mem /\ e.ma = e.mb
       IN  /\ d >= 1 /\ d <= Depth + 1
           /\ frames' = base
           /\ mismatch' = IF mismatch = <<>> /\ ~ok THEN <<l, e.op, "fault-changed-memory">> ELSE mismatch
    /\ stats' = [stats EXCEPT !.faults = @ + 1]
    /\ step' = step + 1 /\ obs' = <<"fault">>
    /\ UNCHANGED <<halted, hist, unpaid, unpaidHere, topLeft>>
    /\ l' = l + 1

\* last line: TLC reports what it saw on the implementation's states
TraceEnd ==
    /\ Is("traceend")
    /\ PrintT("@@" \o ToJson([unpaid |-> unpaid, stats |-> stats]))
    /\ l' = l + 1
    /\ UNCHANGED <<vars, mismatch, unpaid, unpaidHere, topLeft, stats>>

TraceNext == TraceReset \/ TraceStep \/ TraceFault \/ TraceEnd

TraceSpec == TraceInit /\ [][TraceNext]_tvars

----------------------------------------------------------------------------
\* every logged step is a step the specification allows for that opcode (per the generated facts)
TraceConforms == mismatch = <<>>

\* C15 on implementation states: as long as no step of this program grew memory without paying
\* (those are collected in `unpaid` and reported), what every frame holds is covered by what it
\* spent, and all live frames together by what the transaction spent so far
ImplMemoryPaid == unpaidHere = {} => MemoryPaid
ImplTotalMemoryPaid == unpaidHere = {} => SumMemCost(frames) <= frames[1].limit - topLeft

\* the whole trace was consumed
TraceAccepted == TLCGet("stats").diameter - 1 = Len(Trace)
=============================================================================
