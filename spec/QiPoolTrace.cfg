SPECIFICATION TraceSpec
CONSTANTS
  TxDefs <- TraceTxs
  GenDefs <- TraceGen
  BlockDefs <- TraceBlocks
  Cap <- TraceCap
  MinFee <- TraceMinFee
  Fused = FALSE
  WithWorker = TRUE
  MaxOps = 100000000
  MaxHeads = 100000000
  KeepHist = FALSE
  InactiveRefusedAtOnce = TRUE
INVARIANTS Conform ImplIndexesAgree ImplSizeLimit ImplFeeIsInputsMinusOutputs ImplPoolTxsOnceValid ImplAssembledBlockNeverDoubleSpends
POSTCONDITION TraceAccepted
CHECK_DEADLOCK FALSE
