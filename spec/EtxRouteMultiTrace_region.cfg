SPECIFICATION TraceSpec
CONSTANTS
  Ctx = 1
  Locs <- TraceLocs
  DestSeq <- TraceExp
  MaxBlocks = 100000
  ForkWindow = 100000
  ExpChoices <- TraceExp
  SubChoices <- TraceSub
  Canonical = FALSE
  MaxQueries = 100000
  RestartChoices <- TraceExp
  SeedCacheKey = FALSE
INVARIANTS StepConforms AtMostOnce OnlyAtDestination NoneLost NotEarly OnlyViaPrime OrderFixedByDom RequeryStable
POSTCONDITION TraceAccepted
CHECK_DEADLOCK FALSE
