SPECIFICATION Spec
CONSTANTS
  Nodes <- NAll
  ZoneBytes <- ZB3
  Ledgers <- L2
  Paths <- PAll
  DerivedPaths <- DAll
  Mutators <- MAll
  QiLens <- QL
  MaxOps = 3
VIEW view
INVARIANTS SameClassificationOnEveryPath ExactlyOneZoneAndLedger AccountsOnlyInZoneQuai UtxosOnlyLocalQi EtxsLeaveOrConvert CreateYieldsInZoneQuaiOrFails
ACTION_CONSTRAINT EmitHist
CHECK_DEADLOCK FALSE
