SPECIFICATION Spec
CONSTANTS
  EOAs <- E1
  Contracts <- K2
  InitBal <- BalReal12
  InitWq <- WqReal12
  InitLock <- Lock12
  LockVal = 1000000
  LowGas = 20000
  GasUnit = 700000
  MaxGasSteps = 2
  Prices <- P1
  IntrinsicGas = 21000
  TxGas = 21000
  Rent = 24914
  MinConv = 2000000
  TxValues <- RV01
  CallValues <- RV01
  Regimes <- RG
  Prefills <- PF0
  TxKinds <- TKCall
  OpKinds <- OKEtxClaim
  DestClasses <- DElig
  AmtClasses <- AZeroMin
  GlClasses <- GOk
  FeeClasses <- FOne
  AlClasses <- ALGood
  FrameKinds <- FKAll
  CallTargets <- CTK2F
  TxTargets <- TTK1
  Benefs <- BFK1
  WpOps <- WPAll
  MaxDepth = 2
  MaxFrameOps = 1
  MaxTx = 1
  UsedMode = "one"
  GrindFail = FALSE
VIEW view
INVARIANTS TypeOK NoNegative NoCreation ExactUnlessBurn EtxBacked ChargeWithinBounds FailedTxTouchesOnlyPayer FailedEtxTouchesNothing AllOrNothing StackDiscipline IndexFresh BlockOutboundIsConcatOfSurvivors
ACTION_CONSTRAINT EmitHist
CHECK_DEADLOCK FALSE
