SPECIFICATION Spec
CONSTANTS
  Outs <- O0
  MaxBlocks = 3
  MaxHeight = 3
  TrimDepth = 2
  MaxSteps = 20
  WithCrash = FALSE
  HeadInBatch = TRUE
  CrashInHeadWindow = TRUE
  WithTamper = FALSE
  SpendTrimCandidate = FALSE
VIEW view
ACTION_CONSTRAINT EmitHist
CHECK_DEADLOCK FALSE
