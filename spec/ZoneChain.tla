----------------------------- MODULE ZoneChain -----------------------------
(***************************************************************************)
(* The zone chain database of go-quai: a block tree, the flat (unversioned)*)
(* Qi UTXO key space, canonical number->hash index, head pointer, per-block*)
(* undo records and per-block commitments (multiset hash, set size), and   *)
(* the sequence of database writes by which HeaderChain.SetCurrentHeader   *)
(* extends, rolls back and rolls forward the chain.  One action per        *)
(* database write (individual puts, and atomic batch commits), so that a   *)
(* crash can be placed between any two of them.                            *)
(*                                                                         *)
(* Anchors: core/headerchain.go SetCurrentHeader/AppendBlock/loadLastState,*)
(* core/bodydb.go Append, core/state_processor.go Process/Apply,           *)
(* core/headerchain_validation.go Finalize/TrimBlock.                      *)
(* Decides C06 (commitment = content), C10 (reorg = fresh replay),         *)
(* C11 (crash recovery); C07's "rejected block leaves no trace".           *)
(***************************************************************************)
EXTENDS Integers, Sequences, FiniteSets, TLC, SequencesExt, Json

CONSTANTS Outs,        \* outpoint identifiers
          MaxBlocks,   \* bound on the number of mined blocks
          MaxHeight,   \* bound on block height
          TrimDepth,   \* outputs marked trimmable are trimmed TrimDepth blocks after creation
          MaxSteps,    \* bound on behaviour length
          WithCrash,           \* explore crashes at all
          HeadInBatch,         \* the block batch also carries the head pointer (go-quai since fix 1accffa2)
          CrashInHeadWindow,   \* also crash between a block's batch commit and its head-pointer write
          SpendTrimCandidate,  \* allow blocks that spend an output in the very block that trims it
          WithTamper           \* explore adversarial copies of blocks (C07)

Gen == 0   \* the genesis block id

\* Named deviation (a LEAD, never true of the code as it is): an atomic unit -- the per-block rollback batch, the block
\* batch -- is flushed midway once it has grown beyond ethdb.IdealBatchSize (the go-ethereum idiom
\* `if batch.ValueSize() > ethdb.IdealBatchSize { batch.Write(); batch.Reset() }`), i.e. it reaches the database as TWO
\* commits.  MCZoneChain_leadFlush.cfg (block batch) and MCZoneChain_leadFlushRollback.cfg (rollback batch) override these
\* definitions with TRUE; TLC must then find the crash between the two halves (NoHalfApply resp. Recoverable violated).
\* It says why both units have to stay single commits whatever their size; the binding (faultdb SizeFactor pass of
\* chaindrv crash) makes every size-triggered flush point of the real code fire.
FlushBlockBatchMidway == FALSE
FlushRollbackMidway == FALSE
FlushMidway == FlushBlockBatchMidway \/ FlushRollbackMidway

VARIABLES
  \* ---- the block tree (immutable once mined; lives in the candidate-body store)
  blocks,      \* id -> [parent, height, spent, created, trimmable]
  \* ---- database (survives a crash)
  dbUtxo,      \* set of live outpoints ('ut' records)
  dbCanon,     \* height -> block id or -1 (canonical hash index)
  dbHead,      \* head block pointer
  dbUndo,      \* block id -> [spent, created, trimmed] or "none" (written with the block batch)
  dbMu,        \* block id -> bag (Outs -> Int): the stored multiset commitment
  dbSize,      \* block id -> stored set size
  \* ---- volatile
  cur,         \* in-memory current header (-1 after a crash, before restart)
  todo,        \* remaining primitive writes of the running SetCurrentHeader
  aborted,     \* the running roll-forward hit an invalid block
  \* ---- history / observation (hidden by VIEW)
  interrupted, \* block whose batch was committed but whose head write was lost to a crash
  crashedEver,
  steps, hist

vars == <<blocks, dbUtxo, dbCanon, dbHead, dbUndo, dbMu, dbSize, cur, todo, aborted, interrupted, crashedEver, steps, hist>>
view == <<blocks, dbUtxo, dbCanon, dbHead, dbUndo, dbMu, dbSize, cur, todo, aborted, interrupted, crashedEver, steps>>

Ids == DOMAIN blocks
ZeroBag == [o \in Outs |-> 0]
BagOfSet(S) == [o \in Outs |-> IF o \in S THEN 1 ELSE 0]

----------------------------------------------------------------------------
\* ancestry and the DECLARATIVE meaning of a chain: replay from genesis
RECURSIVE Chain(_)
Chain(b) == IF b = Gen THEN <<Gen>> ELSE Append(Chain(blocks[b].parent), b)

AncestorAt(b, h) == LET c == Chain(b) IN IF h + 1 \in DOMAIN c THEN c[h + 1] ELSE -1

\* outputs a correct node trims while executing block b on state S (already without b's spends)
TrimSet(b, S) ==
    LET h == blocks[b].height IN
    IF h <= TrimDepth THEN {}
    ELSE LET a == AncestorAt(b, h - TrimDepth) IN blocks[a].trimmable \cap S

RECURSIVE ReplayUtxo(_)
ReplayUtxo(b) ==
    IF b = Gen THEN {}
    ELSE LET S0 == ReplayUtxo(blocks[b].parent)
             S1 == (S0 \cup blocks[b].created) \ blocks[b].spent
         IN  S1 \ TrimSet(b, S1)

EverCreated(b) == UNION {blocks[Chain(b)[i]].created : i \in 1..Len(Chain(b))}

\* a block is valid on its parent iff its inputs exist there (or are created by the block itself)
ValidOn(sp, cr, parent) ==
    /\ cr \cap EverCreated(parent) = {}
    /\ sp \subseteq (ReplayUtxo(parent) \cup cr)

----------------------------------------------------------------------------
Init ==
    /\ blocks = (Gen :> [parent |-> -1, height |-> 0, spent |-> {}, created |-> {}, trimmable |-> {}, honest |-> TRUE])
    /\ dbUtxo = {}
    /\ dbCanon = [h \in 0..MaxHeight |-> IF h = 0 THEN Gen ELSE -1]
    /\ dbHead = Gen
    /\ dbUndo = (Gen :> [spent |-> {}, created |-> {}, trimmed |-> {}])
    /\ dbMu = (Gen :> ZeroBag)
    /\ dbSize = (Gen :> 0)
    /\ cur = Gen /\ todo = <<>> /\ aborted = FALSE
    /\ interrupted = -1 /\ crashedEver = FALSE /\ steps = 0 /\ hist = <<>>

Log(rec) == /\ hist' = Append(hist, rec) /\ steps' = steps + 1

Idle == todo = <<>> /\ cur # -1

\* ---- a miner (possibly on another node) produces a block on any known parent
Mine(p, sp, cr, tr) ==
    /\ Idle
    /\ Cardinality(Ids) <= MaxBlocks
    /\ blocks[p].height < MaxHeight
    /\ ValidOn(sp, cr, p)
    /\ tr \subseteq cr
    /\ interrupted = -1
    /\ (IF SpendTrimCandidate \/ (blocks[p].height + 1 <= TrimDepth) THEN TRUE
        ELSE (sp \cap blocks[AncestorAt(p, blocks[p].height + 1 - TrimDepth)].trimmable) = {})
    /\ LET id == Cardinality(Ids) IN
       /\ blocks' = blocks @@ (id :> [parent |-> p, height |-> blocks[p].height + 1, spent |-> sp, created |-> cr, trimmable |-> tr, honest |-> TRUE])
       /\ Log([op |-> "mine", b |-> id, p |-> p, sp |-> sp, cr |-> cr, tr |-> tr])
    /\ UNCHANGED <<dbUtxo, dbCanon, dbHead, dbUndo, dbMu, dbSize, cur, todo, aborted, interrupted, crashedEver>>

\* ---- an adversary re-seals a copy of block b whose body or declared results deviate from re-execution
\*      (C07): same parent, same claimed effects, but validation (Process / ValidateState) will not reproduce them
Tamper(b) ==
    /\ Idle /\ b \in Ids /\ b # Gen /\ blocks[b].honest
    /\ Cardinality(Ids) <= MaxBlocks
    /\ interrupted = -1
    /\ LET id == Cardinality(Ids) IN
       /\ blocks' = blocks @@ (id :> [blocks[b] EXCEPT !.honest = FALSE])
       /\ Log([op |-> "tamper", b |-> id, p |-> blocks[b].parent, sp |-> {}, cr |-> {}, tr |-> {}])
    /\ UNCHANGED <<dbUtxo, dbCanon, dbHead, dbUndo, dbMu, dbSize, cur, todo, aborted, interrupted, crashedEver>>

\* ---- HeaderChain.SetCurrentHeader(target): plan the primitive writes
CommonAncestor(a, b) ==
    LET ca == Chain(a) cb == Chain(b)
        n == CHOOSE n \in 1..Len(ca) : /\ n <= Len(cb) /\ ca[n] = cb[n]
                                      /\ \A m \in (n + 1)..Len(ca) : m > Len(cb) \/ ca[m] # cb[m]
    IN ca[n]

RECURSIVE RollbackOps(_, _)
RollbackOps(b, stop) ==
    IF b = stop THEN <<>>
    ELSE (IF FlushRollbackMidway THEN << <<"rollbackflush", b>>, <<"rollbackrest", b>> >> ELSE << <<"rollback", b>> >>)
         \o RollbackOps(blocks[b].parent, stop)
RECURSIVE ForwardOps(_, _)
ForwardOps(b, stop) ==
    IF b = stop THEN <<>>
    ELSE ForwardOps(blocks[b].parent, stop)
         \o (IF FlushBlockBatchMidway THEN << <<"canon", b>>, <<"batchflush", b>>, <<"batch", b>>, <<"head", b>> >>
                             ELSE << <<"canon", b>>, <<"batch", b>>, <<"head", b>> >>)

SetHeadBegin(t) ==
    /\ Idle /\ t \in Ids /\ t # cur /\ interrupted = -1
    /\ LET ca == CommonAncestor(cur, t) IN
       todo' = RollbackOps(cur, ca) \o ForwardOps(t, ca)
    /\ aborted' = FALSE
    /\ Log([op |-> "sethead", b |-> t, p |-> cur, sp |-> {}, cr |-> {}, tr |-> {}])
    /\ UNCHANGED <<blocks, dbUtxo, dbCanon, dbHead, dbUndo, dbMu, dbSize, cur, interrupted, crashedEver>>

\* ---- primitive writes, in the order the code issues them
Op == Head(todo)

\* rawdb.WriteCanonicalHash(headerDb, ...) -- an individual put
WCanon ==
    /\ todo # <<>> /\ Op[1] = "canon"
    /\ IF aborted THEN UNCHANGED dbCanon   \* the code still writes and then deletes it again; net effect none
       ELSE dbCanon' = [dbCanon EXCEPT ![blocks[Op[2]].height] = Op[2]]
    /\ todo' = Tail(todo)
    /\ Log([op |-> "w_canon", b |-> Op[2], p |-> -1, sp |-> {}, cr |-> {}, tr |-> {}])
    /\ UNCHANGED <<blocks, dbUtxo, dbHead, dbUndo, dbMu, dbSize, cur, aborted, interrupted, crashedEver>>

\* BodyDb.Append: Process + ValidateState, then ONE atomic batch.Write with every effect of the block.
\* The processor reads inputs through the batch (pending view) over the database.
WBatch ==
    /\ todo # <<>> /\ Op[1] = "batch"
    /\ LET b == Op[2]
           bk == blocks[b]
           ok == /\ ~aborted
                 /\ bk.honest                    \* ValidateState: re-execution reproduces every declared result
                 /\ bk.spent \subseteq (dbUtxo \cup bk.created)
                 /\ dbHead = bk.parent
           S1 == (dbUtxo \cup bk.created) \ bk.spent
           \* TrimBlock looks the candidate up in the DATABASE (not in the block's pending view)
           cand == IF bk.height <= TrimDepth \/ dbCanon[bk.height - TrimDepth] = -1 THEN {}
                   ELSE blocks[dbCanon[bk.height - TrimDepth]].trimmable \cap dbUtxo
           pm == dbMu[bk.parent]
           mu1 == [o \in Outs |-> pm[o] + (IF o \in bk.created THEN 1 ELSE 0) - (IF o \in bk.spent THEN 1 ELSE 0)
                                  - (IF o \in cand THEN 1 ELSE 0)]
           sz1 == dbSize[bk.parent] + Cardinality(bk.created) - Cardinality(bk.spent) - Cardinality(cand)
       IN IF ok
          THEN /\ dbUtxo' = S1 \ cand
               /\ dbUndo' = (b :> [spent |-> bk.spent, created |-> bk.created, trimmed |-> cand]) @@ dbUndo
               /\ dbMu' = (b :> mu1) @@ dbMu
               /\ dbSize' = (b :> sz1) @@ dbSize
               /\ dbHead' = IF HeadInBatch THEN b ELSE dbHead
               /\ UNCHANGED <<aborted, dbCanon>>
          ELSE /\ aborted' = TRUE      \* batch dropped; canonical hash of that height deleted again
               /\ dbCanon' = IF aborted THEN dbCanon ELSE [dbCanon EXCEPT ![bk.height] = -1]
               /\ UNCHANGED <<dbUtxo, dbUndo, dbMu, dbSize, dbHead>>
    /\ todo' = Tail(todo)
    /\ Log([op |-> "w_batch", b |-> Op[2], p |-> -1, sp |-> {}, cr |-> {}, tr |-> {}])
    /\ UNCHANGED <<blocks, cur, interrupted, crashedEver>>

\* rawdb.WriteHeadBlockHash + currentHeader.Store
WHead ==
    /\ todo # <<>> /\ Op[1] = "head"
    /\ IF aborted THEN UNCHANGED <<dbHead, cur>>
       ELSE /\ dbHead' = Op[2] /\ cur' = Op[2]
    /\ todo' = Tail(todo)
    /\ Log([op |-> "w_head", b |-> Op[2], p |-> -1, sp |-> {}, cr |-> {}, tr |-> {}])
    /\ UNCHANGED <<blocks, dbUtxo, dbCanon, dbUndo, dbMu, dbSize, aborted, interrupted, crashedEver>>

\* one atomic batch per rolled-back block: delete canonical(h), re-create spent+trimmed,
\* delete created, head := parent, canonical(parent)
WRollback ==
    /\ todo # <<>> /\ Op[1] = "rollback"
    /\ LET b == Op[2] u == dbUndo[b] p == blocks[b].parent IN
       /\ dbUtxo' = (dbUtxo \cup u.spent \cup u.trimmed) \ u.created
       /\ dbCanon' = [dbCanon EXCEPT ![blocks[b].height] = -1, ![blocks[p].height] = p]
       /\ dbHead' = p /\ cur' = p
    /\ todo' = Tail(todo)
    /\ Log([op |-> "w_rollback", b |-> Op[2], p |-> -1, sp |-> {}, cr |-> {}, tr |-> {}])
    /\ UNCHANGED <<blocks, dbUndo, dbMu, dbSize, aborted, interrupted, crashedEver>>

\* ---- FlushMidway lead only: the two units above reaching the database in two commits each
\* first half of a rollback batch: canonical hash unset, spent + trimmed outputs re-created -- flushed; the rest (created
\* outputs deleted, head and canonical(parent) moved) follows in WRollbackRest
WRollbackFlush ==
    /\ todo # <<>> /\ Op[1] = "rollbackflush"
    /\ LET b == Op[2] u == dbUndo[b] IN
       /\ dbUtxo' = dbUtxo \cup u.spent \cup u.trimmed
       /\ dbCanon' = [dbCanon EXCEPT ![blocks[b].height] = -1]
    /\ todo' = Tail(todo)
    /\ Log([op |-> "w_rollback_flush", b |-> Op[2], p |-> -1, sp |-> {}, cr |-> {}, tr |-> {}])
    /\ UNCHANGED <<blocks, dbHead, dbUndo, dbMu, dbSize, cur, aborted, interrupted, crashedEver>>
WRollbackRest ==
    /\ todo # <<>> /\ Op[1] = "rollbackrest"
    /\ LET b == Op[2] u == dbUndo[b] p == blocks[b].parent IN
       /\ dbUtxo' = dbUtxo \ u.created
       /\ dbCanon' = [dbCanon EXCEPT ![blocks[p].height] = p]
       /\ dbHead' = p /\ cur' = p
    /\ todo' = Tail(todo)
    /\ Log([op |-> "w_rollback", b |-> Op[2], p |-> -1, sp |-> {}, cr |-> {}, tr |-> {}])
    /\ UNCHANGED <<blocks, dbUndo, dbMu, dbSize, aborted, interrupted, crashedEver>>
\* first half of a block batch: the outputs created so far are flushed while the block is still being processed
WBatchFlush ==
    /\ todo # <<>> /\ Op[1] = "batchflush"
    /\ LET bk == blocks[Op[2]] IN
       dbUtxo' = IF ~aborted /\ bk.honest /\ dbHead = bk.parent THEN dbUtxo \cup bk.created ELSE dbUtxo
    /\ todo' = Tail(todo)
    /\ Log([op |-> "w_batch_flush", b |-> Op[2], p |-> -1, sp |-> {}, cr |-> {}, tr |-> {}])
    /\ UNCHANGED <<blocks, dbCanon, dbHead, dbUndo, dbMu, dbSize, cur, aborted, interrupted, crashedEver>>

\* ---- crash between any two writes, and restart (HeaderChain.loadLastState)
InHeadWindow == todo # <<>> /\ Op[1] = "head" /\ ~aborted
Crash ==
    /\ WithCrash /\ cur # -1 /\ todo # <<>>
    /\ (CrashInHeadWindow \/ ~InHeadWindow)
    /\ crashedEver' = TRUE
    /\ interrupted' = IF InHeadWindow THEN Op[2] ELSE -1
    /\ cur' = -1 /\ todo' = <<>> /\ aborted' = FALSE
    /\ Log([op |-> "crash", b |-> -1, p |-> -1, sp |-> {}, cr |-> {}, tr |-> {}])
    /\ UNCHANGED <<blocks, dbUtxo, dbCanon, dbHead, dbUndo, dbMu, dbSize>>

Restart ==
    /\ cur = -1
    /\ cur' = dbHead
    /\ Log([op |-> "restart", b |-> dbHead, p |-> -1, sp |-> {}, cr |-> {}, tr |-> {}])
    /\ UNCHANGED <<blocks, dbUtxo, dbCanon, dbHead, dbUndo, dbMu, dbSize, todo, aborted, interrupted, crashedEver>>

Next ==
    /\ steps < MaxSteps
    /\ \/ \E p \in Ids, sp \in SUBSET Outs, cr \in SUBSET Outs, tr \in SUBSET Outs : Mine(p, sp, cr, tr)
       \/ \E t \in Ids : SetHeadBegin(t)
       \/ (WithTamper /\ \E b \in Ids : Tamper(b))
       \/ WCanon \/ WBatch \/ WHead \/ WRollback
       \/ (FlushMidway /\ (WRollbackFlush \/ WRollbackRest \/ WBatchFlush))
       \/ Crash \/ Restart

Spec == Init /\ [][Next]_vars

----------------------------------------------------------------------------
\* Properties.  "Quiescent" = no SetCurrentHeader in flight and the node is up.
Quiescent == Idle

\* C10: the stored state is exactly the state of the canonical branch replayed from genesis
ReorgEqualsFreshReplay ==
    (Quiescent /\ ~crashedEver) =>
                 /\ dbUtxo = ReplayUtxo(dbHead)
                 /\ cur = dbHead
                 /\ \A h \in 0..MaxHeight : dbCanon[h] = AncestorAt(dbHead, h)

\* C11: whatever the crash point, after restart the reported head's state is exactly present
Recoverable ==
    Quiescent => /\ dbUtxo = ReplayUtxo(dbHead)
                 /\ cur = dbHead
                 /\ \A h \in 0..blocks[dbHead].height : dbCanon[h] = AncestorAt(dbHead, h)
                 /\ dbMu[dbHead] = BagOfSet(dbUtxo)

\* C11, the three "No ..." clauses of the property, on the restarted node:
\* the stored outputs are the state of SOME block of the tree -- never a block's effects in part ...
NoHalfApply == Quiescent => \E b \in Ids : dbUtxo = ReplayUtxo(b)
\* ... never any of them twice: the commitment bag of the reported head counts every stored output exactly once ...
NoDoubleApply == Quiescent => /\ \A o \in Outs : dbMu[dbHead][o] \in {0, 1}
                              /\ dbMu[dbHead] = BagOfSet(dbUtxo)
\* ... and never applied without the head having advanced (or un-applied without the head having moved back)
NoApplyWithoutHeadAdvance == Quiescent => dbUtxo = ReplayUtxo(dbHead)

\* C06: header commitments describe the stored state exactly
CommitmentEqualsContent ==
    Quiescent => /\ dbMu[dbHead] = BagOfSet(dbUtxo)
                 /\ dbSize[dbHead] = Cardinality(dbUtxo)


\* a spend never happens twice along the canonical chain
RECURSIVE SpentAlong(_)
SpentAlong(b) == IF b = Gen THEN <<>> ELSE SpentAlong(blocks[b].parent) \o SetToSeq(blocks[b].spent)
SpentAtMostOnce == Quiescent => \A i, j \in DOMAIN SpentAlong(dbHead) : i # j => SpentAlong(dbHead)[i] # SpentAlong(dbHead)[j]

\* C07: a block whose contents deviate from re-execution never becomes canonical and is never applied ...
TamperedRejected == /\ blocks[dbHead].honest
                    /\ \A h \in 0..MaxHeight : dbCanon[h] # -1 /\ Quiescent => blocks[dbCanon[h]].honest
                    /\ \A b \in DOMAIN dbUndo : blocks[b].honest
\* ... and refusing it writes nothing to chain state (the step that aborts changes at most the canonical slot
\* it had just written itself)
RejectIsNoOp ==
    [][(aborted' /\ ~aborted) => /\ dbUtxo' = dbUtxo /\ dbHead' = dbHead /\ dbUndo' = dbUndo
                                 /\ dbMu' = dbMu /\ dbSize' = dbSize /\ cur' = cur]_vars

TypeOK == /\ dbUtxo \subseteq Outs /\ dbHead \in Ids

EmitHist == (todo' = <<>> /\ cur' # -1 /\ steps' >= 2) => PrintT("@@" \o ToJson(hist'))
=============================================================================
