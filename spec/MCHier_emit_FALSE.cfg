SPECIFICATION Spec
CONSTANTS
  MaxBlocks = 3
  GenesisExempt = FALSE
VIEW view
ACTION_CONSTRAINT EmitHist
INVARIANTS TerminiAreNearestCoincident ManifestsChainSegments AppendedDownwards RefLocal NoTwist
CHECK_DEADLOCK FALSE
