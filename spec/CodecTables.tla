--------------------------- MODULE CodecTables ---------------------------
(* GENERATED from `codecdrv tables` by tools/props/C14_tables.py -- do not edit by hand.            *)
(* Object types of the codec graph, their shape fields (name, domain, base value), the production  *)
(* codecs of every type and which of them decode addresses relative to the node location.          *)
TypeNames == <<"Header", "AuxPow", "WOHeader", "Receipt", "TxOut", "UtxoEntry", "Termini", "AuxTemplate", "P2PRequest", "P2PHashResponse", "Manifest", "QuaiTx", "QiTx", "ExtTx", "WOBlock", "WOHeaderView", "WOPEtx", "WOShare", "WOWorkShare", "PendingEtxs", "PendingEtxsRollup">>

FieldNames(t) ==
    CASE t = "Header" -> <<"extra", "bigs", "entropy", "number", "u16", "u8", "u64", "hashes">>
      [] t = "AuxPow" -> <<"chain", "auxSig", "branch", "auxpow2", "coinbase">>
      [] t = "WOHeader" -> <<"fork", "number", "difficulty", "data", "lock", "time", "nonce", "location", "coinbase", "hashes", "auxpow", "diffCount", "targets">>
      [] t = "Receipt" -> <<"status", "cumGas", "gasUsed", "logs", "logData", "topics", "contract", "txHash", "etxs">>
      [] t = "TxOut" -> <<"denom", "address", "lock">>
      [] t = "UtxoEntry" -> <<"denom", "address", "lock", "index">>
      [] t = "Termini" -> <<"dom", "sub">>
      [] t = "AuxTemplate" -> <<"chain", "u32", "coinbaseOut", "branch", "sigs", "auxpow2">>
      [] t = "P2PRequest" -> <<"kind", "id", "query", "loc">>
      [] t = "P2PHashResponse" -> <<"hash">>
      [] t = "Manifest" -> <<"n">>
      [] t = "QuaiTx" -> <<"to", "data", "value", "gasPrice", "gas", "nonce", "chainId", "accessList", "sig", "parentHash", "mixHash", "workNonce">>
      [] t = "QiTx" -> <<"data", "chainId", "nIn", "inIndex", "pubkey", "nOut", "denom", "outLock", "sig", "parentHash", "mixHash", "workNonce">>
      [] t = "ExtTx" -> <<"data", "value", "gas", "accessList", "etxIndex", "etxType", "toLedger", "sender">>
      [] t = "WOBlock" -> <<"hfork", "txs", "etxs", "uncles", "manifest", "interlink", "tx">>
      [] t = "WOHeaderView" -> <<"hfork", "txs", "etxs", "uncles", "manifest", "interlink", "tx">>
      [] t = "WOPEtx" -> <<"hfork", "txs", "etxs", "uncles", "manifest", "interlink", "tx">>
      [] t = "WOShare" -> <<"hfork", "txs", "etxs", "uncles", "manifest", "interlink", "tx">>
      [] t = "WOWorkShare" -> <<"hfork", "txs", "etxs", "uncles", "manifest", "interlink", "tx">>
      [] t = "PendingEtxs" -> <<"hfork", "etxs">>
      [] t = "PendingEtxsRollup" -> <<"hfork", "etxs">>

FieldDoms(t) ==
    CASE t = "Header" -> <<{"zero", "typ", "max"}, {"zero", "typ", "max"}, {"zero", "typ", "max"}, {"zero", "typ", "max"}, {"zero", "typ", "max"}, {"zero", "typ", "max"}, {"zero", "typ", "max"}, {"zero", "typ", "max"}>>
      [] t = "AuxPow" -> <<{"kawpow", "btc", "bch", "scrypt"}, {"absent", "zero", "typ"}, {"zero", "typ", "max"}, {"absent", "zero", "typ"}, {"zero", "typ"}>>
      [] t = "WOHeader" -> <<{"pre", "fork", "post"}, {"zero", "typ", "max"}, {"zero", "typ", "max"}, {"absent", "zero", "typ", "max"}, {"zero", "typ", "max"}, {"zero", "typ", "max"}, {"zero", "typ", "max"}, {"zero", "typ", "max"}, {"zero", "typ", "max"}, {"zero", "typ"}, {"absent", "kawpow", "btc", "scrypt"}, {"absent", "zero", "typ", "max"}, {"absent", "zero", "typ", "max"}>>
      [] t = "Receipt" -> <<{"zero", "typ", "max"}, {"zero", "typ", "max"}, {"zero", "typ", "max"}, {"zero", "typ", "max"}, {"absent", "zero", "typ", "max"}, {"zero", "typ", "max"}, {"zero", "typ"}, {"zero", "typ"}, {"zero", "typ"}>>
      [] t = "TxOut" -> <<{"zero", "typ", "max"}, {"absent", "zero", "typ", "max"}, {"absent", "zero", "typ", "max"}>>
      [] t = "UtxoEntry" -> <<{"zero", "typ", "max"}, {"absent", "zero", "typ", "max"}, {"absent", "zero", "typ", "max"}, {"zero", "typ", "max"}>>
      [] t = "Termini" -> <<{"zero", "typ"}, {"zero", "typ"}>>
      [] t = "AuxTemplate" -> <<{"kawpow", "btc", "bch", "scrypt"}, {"zero", "typ", "max"}, {"absent", "zero", "typ", "max"}, {"zero", "typ", "max"}, {"zero", "typ"}, {"absent", "zero", "typ"}>>
      [] t = "P2PRequest" -> <<{"block", "blocks", "header", "blockhash"}, {"zero", "typ", "max"}, {"hash", "zero", "typ", "max"}, {"zero", "region", "typ"}>>
      [] t = "P2PHashResponse" -> <<{"zero", "typ", "max"}>>
      [] t = "Manifest" -> <<{"zero", "typ", "max"}>>
      [] t = "QuaiTx" -> <<{"absent", "typ"}, {"absent", "zero", "typ", "max"}, {"zero", "typ", "max"}, {"zero", "typ", "max"}, {"zero", "typ", "max"}, {"zero", "typ", "max"}, {"zero", "typ", "max"}, {"zero", "typ", "max"}, {"zero", "typ"}, {"absent", "typ"}, {"absent", "typ"}, {"absent", "zero", "typ", "max"}>>
      [] t = "QiTx" -> <<{"absent", "zero", "typ", "max"}, {"zero", "typ", "max"}, {"typ", "max"}, {"zero", "typ", "max"}, {"typ", "max"}, {"zero", "typ", "max"}, {"zero", "typ", "max"}, {"absent", "zero", "typ", "max"}, {"zero", "typ"}, {"absent", "typ"}, {"absent", "typ"}, {"absent", "zero", "typ", "max"}>>
      [] t = "ExtTx" -> <<{"absent", "zero", "typ", "max"}, {"zero", "typ", "max"}, {"zero", "typ", "max"}, {"zero", "typ", "max"}, {"zero", "typ", "max"}, {"zero", "typ", "max"}, {"typ", "max"}, {"zero", "typ", "max"}>>
      [] t = "WOBlock" -> <<{"pre", "post"}, {"absent", "zero", "typ", "max"}, {"absent", "zero", "typ"}, {"absent", "zero", "typ"}, {"absent", "zero", "typ"}, {"absent", "zero", "typ"}, {"absent", "typ"}>>
      [] t = "WOHeaderView" -> <<{"pre", "post"}, {"absent", "zero", "typ", "max"}, {"absent", "zero", "typ"}, {"absent", "zero", "typ"}, {"absent", "zero", "typ"}, {"absent", "zero", "typ"}, {"absent", "typ"}>>
      [] t = "WOPEtx" -> <<{"pre", "post"}, {"absent", "zero", "typ", "max"}, {"absent", "zero", "typ"}, {"absent", "zero", "typ"}, {"absent", "zero", "typ"}, {"absent", "zero", "typ"}, {"absent", "typ"}>>
      [] t = "WOShare" -> <<{"pre", "post"}, {"absent", "zero", "typ", "max"}, {"absent", "zero", "typ"}, {"absent", "zero", "typ"}, {"absent", "zero", "typ"}, {"absent", "zero", "typ"}, {"absent", "typ"}>>
      [] t = "WOWorkShare" -> <<{"pre", "post"}, {"absent", "zero", "typ", "max"}, {"absent", "zero", "typ"}, {"absent", "zero", "typ"}, {"absent", "zero", "typ"}, {"absent", "zero", "typ"}, {"absent", "typ"}>>
      [] t = "PendingEtxs" -> <<{"pre", "post"}, {"zero", "typ", "max"}>>
      [] t = "PendingEtxsRollup" -> <<{"pre", "post"}, {"zero", "typ", "max"}>>

FieldBase(t) ==
    CASE t = "Header" -> <<"typ", "typ", "typ", "typ", "typ", "typ", "typ", "typ">>
      [] t = "AuxPow" -> <<"kawpow", "typ", "typ", "typ", "typ">>
      [] t = "WOHeader" -> <<"post", "typ", "typ", "typ", "typ", "typ", "typ", "typ", "typ", "typ", "kawpow", "typ", "typ">>
      [] t = "Receipt" -> <<"typ", "typ", "typ", "typ", "typ", "typ", "typ", "typ", "typ">>
      [] t = "TxOut" -> <<"typ", "typ", "typ">>
      [] t = "UtxoEntry" -> <<"typ", "typ", "typ", "typ">>
      [] t = "Termini" -> <<"typ", "typ">>
      [] t = "AuxTemplate" -> <<"kawpow", "typ", "typ", "typ", "typ", "typ">>
      [] t = "P2PRequest" -> <<"block", "typ", "hash", "typ">>
      [] t = "P2PHashResponse" -> <<"typ">>
      [] t = "Manifest" -> <<"typ">>
      [] t = "QuaiTx" -> <<"typ", "typ", "typ", "typ", "typ", "typ", "typ", "typ", "typ", "typ", "typ", "zero">>
      [] t = "QiTx" -> <<"typ", "typ", "typ", "typ", "typ", "typ", "typ", "typ", "typ", "absent", "absent", "absent">>
      [] t = "ExtTx" -> <<"typ", "typ", "typ", "typ", "typ", "typ", "typ", "typ">>
      [] t = "WOBlock" -> <<"post", "typ", "typ", "typ", "typ", "typ", "typ">>
      [] t = "WOHeaderView" -> <<"post", "typ", "typ", "typ", "typ", "typ", "typ">>
      [] t = "WOPEtx" -> <<"post", "typ", "typ", "typ", "typ", "typ", "typ">>
      [] t = "WOShare" -> <<"post", "typ", "typ", "typ", "typ", "typ", "typ">>
      [] t = "WOWorkShare" -> <<"post", "typ", "typ", "typ", "typ", "typ", "typ">>
      [] t = "PendingEtxs" -> <<"post", "typ">>
      [] t = "PendingEtxsRollup" -> <<"post", "typ">>

CodecsOf(t) ==
    CASE t = "Header" -> {"proto", "rpcjson"}
      [] t = "AuxPow" -> {"proto", "rpcjson"}
      [] t = "WOHeader" -> {"proto", "rpcjson"}
      [] t = "Receipt" -> {"db", "proto"}
      [] t = "TxOut" -> {"proto"}
      [] t = "UtxoEntry" -> {"db", "spent"}
      [] t = "Termini" -> {"db", "proto", "rpcjson"}
      [] t = "AuxTemplate" -> {"gossip"}
      [] t = "P2PRequest" -> {"p2p"}
      [] t = "P2PHashResponse" -> {"gossip", "p2p"}
      [] t = "Manifest" -> {"db", "proto"}
      [] t = "QuaiTx" -> {"json", "proto", "rlp", "rlpenv"}
      [] t = "QiTx" -> {"json", "proto", "rlp", "rlpenv"}
      [] t = "ExtTx" -> {"db", "json", "proto", "rlp", "rlpenv"}
      [] t = "WOBlock" -> {"db", "gossip", "p2p", "p2plist", "proto", "rpcjson"}
      [] t = "WOHeaderView" -> {"convert", "gossip", "p2p", "proto"}
      [] t = "WOPEtx" -> {"proto"}
      [] t = "WOShare" -> {"convert", "gossip", "proto"}
      [] t = "WOWorkShare" -> {"proto"}
      [] t = "PendingEtxs" -> {"db", "proto"}
      [] t = "PendingEtxsRollup" -> {"db", "proto"}

LocSensOf(t) ==
    CASE t = "Header" -> {"proto"}
      [] t = "AuxPow" -> {}
      [] t = "WOHeader" -> {"proto"}
      [] t = "Receipt" -> {"db", "proto"}
      [] t = "TxOut" -> {}
      [] t = "UtxoEntry" -> {}
      [] t = "Termini" -> {}
      [] t = "AuxTemplate" -> {}
      [] t = "P2PRequest" -> {}
      [] t = "P2PHashResponse" -> {}
      [] t = "Manifest" -> {}
      [] t = "QuaiTx" -> {"proto"}
      [] t = "QiTx" -> {"proto"}
      [] t = "ExtTx" -> {"proto"}
      [] t = "WOBlock" -> {"db", "gossip", "proto"}
      [] t = "WOHeaderView" -> {"gossip", "proto"}
      [] t = "WOPEtx" -> {"proto"}
      [] t = "WOShare" -> {"gossip", "proto"}
      [] t = "WOWorkShare" -> {"proto"}
      [] t = "PendingEtxs" -> {"db", "proto"}
      [] t = "PendingEtxsRollup" -> {"db", "proto"}

=============================================================================
