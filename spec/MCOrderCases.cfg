SPECIFICATION Spec
CONSTANTS
  MaxExp = 4
INVARIANTS TableOK PrimeWindowInsideRegionWindow OrderMonotone
ACTION_CONSTRAINT Emit
CHECK_DEADLOCK FALSE
