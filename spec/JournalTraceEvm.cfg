SPECIFICATION TraceSpec
CONSTANTS
  NAddr = 10
  NSlot = 1
  Vals <- AnyVals
  Amts <- AnyAmts
  Genesis <- GenE
  HasLock <- LockE
  Ops <- AllOps
  MaxMut = 1000000
  MaxSnap = 1000000
  MaxDepth = 1000
  MaxTx = 1000000
  FrameAddr <- FrE
  NewAddrs <- NewE
  XferTo <- XferE
  Benef = 6
INVARIANTS TypeOK AccessListWellFormed AlwaysRevertible
PROPERTIES RevertRestores SiblingsUntouched
POSTCONDITION TraceAccepted
CHECK_DEADLOCK FALSE
