SPECIFICATION Spec
CONSTANTS
  NAddr = 10
  NSlot = 1
  Vals <- V02
  Amts <- A01
  Genesis <- GenE
  HasLock <- LockE
  Ops <- OpsEM
  MaxMut = 2
  MaxSnap = 3
  MaxDepth = 2
  MaxTx = 2
  FrameAddr <- FrE
  NewAddrs <- NewE
  XferTo <- XferEM
  Benef = 6
VIEW view
INVARIANTS TypeOK AccessListWellFormed AlwaysRevertible
PROPERTIES RevertRestores SiblingsUntouched
ACTION_CONSTRAINT EmitHistMT
CHECK_DEADLOCK FALSE
