SPECIFICATION TraceSpec
CONSTANTS
  Types <- AllTypes
  MaxSteps = 1000000
  MaxDev = 0
INVARIANTS TraceNormIdempotent TraceNormPreservesIdentity
POSTCONDITION TraceAccepted
CHECK_DEADLOCK FALSE
