SPECIFICATION Spec
CONSTANTS
  TxDefs <- MCTxs
  GenDefs <- MCGen
  BlockDefs <- MCBlocks
  Cap = 2
  MinFee = 1
  Fused = TRUE
  WithWorker = FALSE
  MaxOps = 4
  MaxHeads = 2
  KeepHist = TRUE
  InactiveRefusedAtOnce = FALSE
INVARIANTS NoPanic
CHECK_DEADLOCK FALSE
