SPECIFICATION Spec
CONSTANTS
  Part = "ext"
  W = 8
  Kinds <- KNone
  MaxOps = 5
  MaxBlocks = 3
  IntrVals <- X3
  DtVals <- T2
  WithDeviations = FALSE
  WithCache = TRUE
INVARIANTS ChildEqualsDerived EntropyStrictlyIncreases ParentEntropyRecorded NumbersConsecutive PrimeTerminusIsLastPrime OrderStable OrderIsFunctionOfSealAndDeltas IntrinsicPositive
VIEW view
ACTION_CONSTRAINT EmitHist
CHECK_DEADLOCK FALSE
