SPECIFICATION Spec
CONSTANTS
  NA = 2
  MaxNonce = 2
  Prices <- P123
  InitBal <- BalAll3
  BalChoices <- BalSet2
  BodyPrices <- P2
  MaxBody = 1
  MaxBlocks = 2
  MaxReorg = 1
  Floors <- F2
  AccountSlots = 1
  GlobalSlots = 2
  AccountQueue = 2
  GlobalQueue = 2
  PriceBump = 60
  MaxOps = 4
  ChanCap = 1
  Fused = TRUE
  EvictAllOnly = TRUE
  KeepHist = FALSE
VIEW view
INVARIANTS TypeOK PendingQueueDisjoint IndexesAgree CapacityRespected
           PendingStartsAtStateNonce PendingAffordable PendingNonceAgrees LimitsRespected
PROPERTIES ReplacementNeedsBump HolesOnlyFromRefusedReinject
CHECK_DEADLOCK FALSE
