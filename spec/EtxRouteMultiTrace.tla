------------------------- MODULE EtxRouteMultiTrace -------------------------
(***************************************************************************)
(* Trace validation for EtxRouteMulti.tla on the logs of                   *)
(* harness/cmd/routedrv random: seeded, larger dominant block trees (forks,*)
(* an early 1 x 1 era, a rarely coincident location so that walks outgrow  *)
(* the 50-entry rollup cache, restarts) written to the database of a REAL  *)
(* region or prime Slice.  One "add" event per dominant block with what    *)
(* the real code handed down for it (CollectNewlyConfirmedEtxs for a block *)
(* of the node's own order, the stored inbound set through FilterToSub for *)
(* a block that came from the dominant chain) and the real CollectSubRollup*)
(* of it; "restart" = a new Slice on the same database; "query" = the real *)
(* CollectNewlyConfirmedEtxs called again for an existing block.  TLC      *)
(* rebuilds the tree from the log, recomputes every delivery from the      *)
(* declarative definition AND from the model of the coded walk, compares,  *)
(* and evaluates the C04 invariants on the LOGGED deliveries.              *)
(***************************************************************************)
EXTENDS EtxRouteMulti

Trace == ndJsonDeserialize("routetrace.ndjson")
VARIABLES l, mismatch
tvars == <<vars, l, mismatch>>

TraceLocs == {<<r, z>> : r \in 0..2, z \in 0..2}
TraceExp == {0}
TraceSub(id) == {1}

Decode(c) == <<c \div 1000, (c \div 100) % 10, (c \div 10) % 10, c % 10>>
Dec(s) == [i \in DOMAIN s |-> Decode(s[i])]

Fresh == /\ blocks = (Gen :> [parent |-> -1, loc |-> <<0, 0>>, order |-> 0, exp |-> 0, man |-> <<>>, inb |-> <<>>, raw |-> <<>>])
         /\ deliv = (Gen :> <<>>) /\ cache = <<>> /\ phase = "build" /\ restarted = FALSE /\ qlog = <<>>
TraceInit == Fresh /\ l = 1 /\ mismatch = <<>>
Ev == Trace[l]
Is(name) == l <= Len(Trace) /\ Ev.op = name
Note(m) == mismatch' = IF mismatch = <<>> THEN m ELSE mismatch

GenRec == [parent |-> -1, loc |-> <<0, 0>>, order |-> 0, exp |-> 0, man |-> <<>>, inb |-> <<>>, raw |-> <<>>]
TraceReset == /\ Is("tracereset")
              /\ blocks' = (Gen :> GenRec) /\ deliv' = (Gen :> <<>>) /\ cache' = <<>> /\ phase' = "build"
              /\ restarted' = FALSE /\ qlog' = <<>>
              /\ l' = l + 1 /\ UNCHANGED mismatch

TraceAdd ==
    /\ Is("add")
    /\ LET id == Ev.b
           man == [j \in DOMAIN Ev.man |-> Dec(Ev.man[j])]
           rec == [parent |-> Ev.p, loc |-> <<Ev.loc[1], Ev.loc[2]>>, order |-> Ev.order, exp |-> Ev.exp,
                   man |-> man, inb |-> Dec(Ev.inb), raw |-> man]
           B == blocks @@ (id :> rec)
           got == Dec(Ev.deliver)
           coded == IF Ev.order = Ctx THEN QueryB(B, <<>>, id, Ev.order).res ELSE FromDomB(B, id) IN
       /\ blocks' = B
       /\ deliv' = deliv @@ (id :> got)
       /\ Note(IF id # Cardinality(Ids) \/ Ev.p \notin Ids THEN <<l, "malformed-log">>
               ELSE IF Ev.err # "" THEN <<l, "error", Ev.err>>
               ELSE IF Dec(Ev.rollup) # SubRollupB(B, id) THEN <<l, "subrollup", SubRollupB(B, id), Dec(Ev.rollup)>>
               ELSE IF got # ExpectedB(B, id) THEN <<l, "deliver-vs-declarative", ExpectedB(B, id), got>>
               ELSE IF got # coded THEN <<l, "deliver-vs-coded-walk", coded, got>>
               ELSE <<>>)
    /\ l' = l + 1 /\ UNCHANGED <<cache, phase, restarted, qlog>>

TraceRestart == /\ Is("restart") /\ l' = l + 1 /\ UNCHANGED <<vars, mismatch>>

\* a repeated call must return what the first call returned (= the specified delivery), whatever the cache holds
TraceQuery ==
    /\ Is("query")
    /\ qlog' = <<[b |-> Ev.b, res |-> Dec(Ev.res)]>>
    /\ Note(IF Ev.b \notin Ids \ {Gen} THEN <<l, "malformed-log">>
            ELSE IF Ev.err # "" THEN <<l, "error", Ev.err>>
            ELSE IF Dec(Ev.res) # Expected(Ev.b) THEN <<l, "requery-vs-declarative", Expected(Ev.b), Dec(Ev.res)>>
            ELSE <<>>)
    /\ l' = l + 1 /\ UNCHANGED <<blocks, deliv, cache, phase, restarted>>

TraceNext == TraceReset \/ TraceAdd \/ TraceRestart \/ TraceQuery
TraceSpec == TraceInit /\ [][TraceNext]_tvars

StepConforms == mismatch = <<>>
RequeryStable == \A i \in DOMAIN qlog : qlog[i].b \in Ids => qlog[i].res = deliv[qlog[i].b]
TraceAccepted == TLCGet("stats").diameter - 1 = Len(Trace)
=============================================================================
