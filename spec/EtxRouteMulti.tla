---------------------------- MODULE EtxRouteMulti ----------------------------
(***************************************************************************)
(* Cross-chain transaction (ETX) routing of go-quai on a dominant chain    *)
(* with SEVERAL subordinate chains - the part of C04 that the deployed     *)
(* 1 region x 1 zone topology cannot exercise.  One dominant node is       *)
(* modelled at a time (constant Ctx): the REGION node of a region with     *)
(* several zones (Ctx = 1), or the PRIME node above several regions        *)
(* (Ctx = 0).  The code is the same for both (it switches on the node      *)
(* context), and so is the model:                                          *)
(*                                                                         *)
(*   blocks     the dominant block tree (forks included).  Every block is  *)
(*              a zone block that is coincident with this level: it has a  *)
(*              location <<region, zone>>, an order (0 prime, 1 region),   *)
(*              an expansion number, a manifest - the subordinate blocks   *)
(*              it confirms, each with the ETXs registered for it (region: *)
(*              PendingEtxs.OutboundEtxs of a zone block; prime:           *)
(*              PendingEtxsRollup.EtxsRollup of a region block) - and, at  *)
(*              region level for prime-order blocks, the inbound set prime *)
(*              handed down (rawdb inbound-ETX record written by Append).  *)
(*   An ETX is <<id, destRegion, destZone, kind>>, kind 0 standard,        *)
(*   1 coinbase, 2 conversion.                                             *)
(*                                                                         *)
(* Operators that MIRROR THE CODE (these are bound to the real functions   *)
(* by harness/cmd/routedrv):                                               *)
(*   FilterToSub      core/types/transaction.go Transactions.FilterToSub   *)
(*   SubRollup        core/headerchain.go HeaderChain.CollectSubRollup     *)
(*   Query / WalkLoop core/slice.go Slice.CollectNewlyConfirmedEtxs with   *)
(*                    hc.subRollupCache (variable cache) and its four      *)
(*                    exits: genesis, prime block whose expansion does not *)
(*                    include the location, same-sub block of order ==     *)
(*                    node context, and the rolldown branch                *)
(*   CrossPrime       the filter of Slice.Append (region) that decides     *)
(*                    which ETXs are handed up to prime                    *)
(*   FromDom          Slice.Append, order < nodeCtx: what the region hands *)
(*                    to the zone of a prime-order block                   *)
(* DECLARATIVE definition (from the property, no walk): Deliver(b) - every *)
(* ETX routed towards b's subordinate chain that was confirmed by the      *)
(* dominant chain after that chain's previous coincident block of this     *)
(* level, newest confirming block first.  The invariants say that what the *)
(* coded walk hands down (variable deliv) is the declarative set, and -    *)
(* independently of both - that along EVERY chain of the tree every ETX    *)
(* reaches its destination exactly once, at the first opportunity, nowhere *)
(* else, not before it was confirmed, in an order that depends on the      *)
(* dominant chain only, and that the cache never changes a result.         *)
(* Decides the multi-subordinate part of C04.                              *)
(***************************************************************************)
EXTENDS Integers, Sequences, FiniteSets, TLC, SequencesExt, Json

CONSTANTS Ctx,             \* node context of the modelled dominant node: 0 prime, 1 region
          Locs,            \* locations <<r, z>> whose blocks may appear in the tree
          DestSeq,         \* destination locations of the emission pattern, in emission order
          MaxBlocks,       \* blocks besides genesis
          ForkWindow,      \* the parent of a new block is among the last ForkWindow blocks
          ExpChoices,      \* expansion numbers a block may carry (monotone along a chain, changes only at prime-order blocks)
          SubChoices(_),   \* id -> set of manifest lengths the block may have
          Canonical,       \* TRUE: subordinate chains are introduced in index order (the chains of one level are interchangeable)
          MaxQueries,      \* repeated CollectNewlyConfirmedEtxs calls after the tree is complete
          RestartChoices,  \* {TRUE}: node restarted (cold caches) before the repeated calls; {FALSE}: warm; both
          SeedCacheKey     \* FALSE = the code; TRUE = the loop stores the parent's rollup under the CHILD's hash (lead config)

Gen == 0
Std == 0
Cb == 1
Conv == 2

VARIABLES blocks,    \* id -> [parent, loc, order, exp, man, inb, raw]
          deliv,     \* id -> what was handed to the subordinate chain of blocks[id].loc when the block was appended
          cache,     \* hc.subRollupCache: block id -> rollup stored under that block's hash
          phase,     \* "build" | "query"
          restarted, \* the query phase began with a restart
          qlog       \* repeated calls: sequence of [b, res]
vars == <<blocks, deliv, cache, phase, restarted, qlog>>
Ids == DOMAIN blocks

DestLoc(e) == <<e[2], e[3]>>
SubIdx(loc) == IF Ctx = 0 THEN loc[1] ELSE loc[2]
InSeq(e, s) == \E i \in DOMAIN s : s[i] = e
SeqSet(s) == {s[i] : i \in DOMAIN s}
NoDup(s) == \A i, j \in DOMAIN s : i # j => s[i] # s[j]

\* ---- common.GetHierarchySizeForExpansionNumber
RECURSIVE Regions(_), Zones(_)
Regions(e) == IF e <= 1 THEN 1 ELSE Regions(e - 1) + (IF e % 2 = 0 THEN 1 ELSE 0)
Zones(e) == IF e = 0 THEN 1 ELSE IF e = 1 THEN 2 ELSE Zones(e - 1) + (IF e % 2 = 1 THEN 1 ELSE 0)
\* a location exists under expansion e (indices count from 0)
Active(e, loc) == loc[1] < Regions(e) /\ loc[2] < Zones(e)
\* the walk's test, AS CODED: "blockLocation.Region() > int(regions) || blockLocation.Zone() > int(zones)"
\* (an index compared with a count using >: the first location outside the hierarchy is not excluded)
ExpExcludes(e, loc) == loc[1] > Regions(e) \/ loc[2] > Zones(e)

\* ---- Transactions.FilterToSub(slice, nodeCtx, order)
FilterToSub(s, slice, nodeCtx, order) ==
    SelectSeq(s, LAMBDA e :
        IF nodeCtx = 0 THEN e[2] = slice[1]
        ELSE IF nodeCtx = 1 THEN (IF order = 0 THEN DestLoc(e) = slice
                                  ELSE DestLoc(e) = slice /\ e[4] = Std)
        ELSE FALSE)

\* ---- Slice.Append (region): "to.Region() != sl.NodeLocation().Region() || IsConversionTx || IsCoinBaseTx"
CrossPrimePred(r, e) == e[2] # r \/ e[4] = Conv \/ e[4] = Cb
CrossPrime(r, s) == SelectSeq(s, LAMBDA e : CrossPrimePred(r, e))

\* ---- HeaderChain.CollectSubRollup: the ETXs registered for the manifest entries, in manifest order
SubRollupB(B, b) == FlattenSeq(B[b].man)
SubRollup(b) == SubRollupB(blocks, b)

\* ---- Slice.CollectNewlyConfirmedEtxs(block, blockOrder); c = subRollupCache.  Returns [res, cache].
LoopKey(child, parent) == IF SeedCacheKey THEN child ELSE parent
RECURSIVE WalkLoop(_, _, _, _, _, _)
WalkLoop(B, cur, bl, qo, acc, c) ==
    LET p == B[cur].parent IN
    IF p = Gen THEN [res |-> acc, cache |-> c]                                          \* IsGenesisHash(ancHash)
    ELSE IF B[p].order = 0 /\ ExpExcludes(B[p].exp, bl) THEN [res |-> acc, cache |-> c] \* slice not activated yet
    ELSE IF SubIdx(B[p].loc) = SubIdx(bl) /\ B[p].order = Ctx THEN [res |-> acc, cache |-> c] \* same sub, order == nodeCtx
    ELSE LET hit == p \in DOMAIN c
             ru == IF hit THEN c[p] ELSE SubRollupB(B, p)
             c2 == IF hit THEN c ELSE (LoopKey(cur, p) :> ru) @@ c
             \* rolldown: a prime block of ANOTHER zone passed on the way back: take what prime handed down for us
             roll == IF Ctx = 1 /\ B[p].order < Ctx /\ bl # B[p].loc
                     THEN FilterToSub(B[p].inb, bl, Ctx, 0) ELSE <<>>
         IN WalkLoop(B, p, bl, qo, acc \o roll \o FilterToSub(ru, bl, Ctx, qo), c2)

QueryB(B, c, b, qo) ==
    LET hit == b \in DOMAIN c
        ru == IF hit THEN c[b] ELSE SubRollupB(B, b)
        c1 == IF hit THEN c ELSE (b :> ru) @@ c
    IN WalkLoop(B, b, B[b].loc, qo, FilterToSub(ru, B[b].loc, Ctx, qo), c1)

\* ---- Slice.Append with order < nodeCtx (block came from the dominant chain): the inbound set is stored and
\*      "newInboundEtxs.FilterToSub(block.Location(), nodeCtx, order)" goes down
FromDomB(B, b) == FilterToSub(B[b].inb, B[b].loc, Ctx, B[b].order)

\* ------------------------------------------------------------------ DECLARATIVE definition
RECURSIVE ChainB(_, _)
ChainB(B, b) == IF b = Gen THEN <<Gen>> ELSE Append(ChainB(B, B[b].parent), b)
Chain(b) == ChainB(blocks, b)

\* an ETX confirmed by this level is routed BY this level to the subordinate chain of location loc
Routed(e, loc) == IF Ctx = 0 THEN e[2] = loc[1]                   \* prime: everything for the region
                  ELSE DestLoc(e) = loc /\ e[4] = Std             \* region: standard transfers of its own zones only
\* the previous coincident block of b's subordinate chain at this level
PrevCoincident(B, a, b) == a = Gen \/ (SubIdx(B[a].loc) = SubIdx(B[b].loc) /\ B[a].order = Ctx)

DeliverB(B, b) ==
    LET ch == ChainB(B, b)
        n == Len(ch)
        stops == {i \in 1..(n - 1) : PrevCoincident(B, ch[i], b)}
        k == CHOOSE i \in stops : \A j \in stops : j <= i
        mine(x) == SelectSeq(SubRollupB(B, x), LAMBDA e : Routed(e, B[b].loc))
        handed(x) == IF Ctx = 1 /\ B[x].order = 0 /\ B[x].loc # B[b].loc
                     THEN SelectSeq(B[x].inb, LAMBDA e : DestLoc(e) = B[b].loc) ELSE <<>>
        contrib(i) == IF i = n THEN mine(ch[i]) ELSE handed(ch[i]) \o mine(ch[i])
    IN FoldLeft(LAMBDA acc, m : acc \o contrib(n - m + 1), <<>>, [m \in 1..(n - k) |-> m])

\* what must go down when block b is appended
ExpectedB(B, b) == IF B[b].order = Ctx THEN DeliverB(B, b)
                   ELSE SelectSeq(B[b].inb, LAMBDA e : DestLoc(e) = B[b].loc)
Expected(b) == ExpectedB(blocks, b)

\* ------------------------------------------------------------------ the bounded tree generator
\* every subordinate block emits, towards every destination that exists under the block's expansion number:
\* a standard transfer (not to itself), a coinbase and a conversion
Pattern(origin, e, base) ==
    LET dests == SelectSeq(DestSeq, LAMBDA d : Active(e, d))
        cand == [i \in 1..(3 * Len(dests)) |-> LET d == dests[((i - 1) \div 3) + 1] IN <<base + i, d[1], d[2], (i - 1) % 3>>]
    IN SelectSeq(cand, LAMBDA x : ~(x[4] = Std /\ DestLoc(x) = origin))

NewBlock(id, p, loc, order, exp, nsub) ==
    LET raw == [j \in 1..nsub |-> Pattern(loc, exp, id * 1000 + j * 100)]
        man == IF Ctx = 0 THEN [j \in 1..nsub |-> CrossPrime(loc[1], raw[j])] ELSE raw
        inb == IF order < Ctx THEN SelectSeq(Pattern(<<99, 99>>, exp, id * 1000 + 900), LAMBDA e : e[2] = loc[1]) ELSE <<>>
    IN [parent |-> p, loc |-> loc, order |-> order, exp |-> exp, man |-> man, inb |-> inb, raw |-> raw]

Init == /\ \E e \in ExpChoices :
             blocks = (Gen :> [parent |-> -1, loc |-> <<0, 0>>, order |-> 0, exp |-> e, man |-> <<>>, inb |-> <<>>, raw |-> <<>>])
        /\ deliv = (Gen :> <<>>) /\ cache = <<>> /\ phase = "build" /\ restarted = FALSE /\ qlog = <<>>

\* Slice.Append of a new block at this level: a block of order == nodeCtx collects the newly confirmed ETXs itself,
\* a block of lower order arrives from the dominant chain together with its inbound set
AddBlock(p, loc, order, exp, nsub) ==
    LET id == Cardinality(Ids)
        B == blocks @@ (id :> NewBlock(id, p, loc, order, exp, nsub))
        q == QueryB(B, cache, id, order) IN
    /\ phase = "build" /\ id <= MaxBlocks
    /\ exp >= blocks[p].exp /\ (exp # blocks[p].exp => order = 0) /\ Active(exp, loc)
    /\ Canonical => \A s \in 0..(SubIdx(loc) - 1) : \E x \in Ids \ {Gen} : SubIdx(blocks[x].loc) = s
    /\ blocks' = B
    /\ deliv' = deliv @@ (id :> IF order = Ctx THEN q.res ELSE FromDomB(B, id))
    /\ cache' = IF order = Ctx THEN q.cache ELSE cache
    /\ UNCHANGED <<phase, restarted, qlog>>

Queryable == {b \in Ids \ {Gen} : blocks[b].order = Ctx}

\* the tree is complete; a restart empties every in-memory cache (the database keeps everything)
EndBuild(r) ==
    /\ phase = "build" /\ Cardinality(Ids) = MaxBlocks + 1
    /\ phase' = "query" /\ restarted' = r
    /\ cache' = IF r THEN <<>> ELSE cache
    /\ UNCHANGED <<blocks, deliv, qlog>>

\* CollectNewlyConfirmedEtxs called again for an existing block (append retried, fork re-appended after a restart ...)
Requery(b) ==
    /\ phase = "query" /\ Len(qlog) < MaxQueries
    /\ LET q == QueryB(blocks, cache, b, Ctx) IN
       /\ qlog' = Append(qlog, [b |-> b, res |-> q.res])
       /\ cache' = q.cache
    /\ UNCHANGED <<blocks, deliv, phase, restarted>>

Next == \/ \E p \in {x \in Ids : x + ForkWindow >= Cardinality(Ids)}, loc \in Locs, order \in 0..Ctx, exp \in ExpChoices :
              \E nsub \in SubChoices(Cardinality(Ids)) : AddBlock(p, loc, order, exp, nsub)
        \/ \E r \in RestartChoices : EndBuild(r)
        \/ \E b \in Queryable : Requery(b)
Spec == Init /\ [][Next]_vars

\* ------------------------------------------------------------------ C04 on every chain of the tree
Subs == {SubIdx(l) : l \in Locs}
Stream(h, s) == FoldLeft(LAMBDA acc, x : IF x # Gen /\ SubIdx(blocks[x].loc) = s THEN acc \o deliv[x] ELSE acc, <<>>, Chain(h))
EtxIds(s) == [i \in DOMAIN s |-> s[i][1]]
\* the block at which ETX e, confirmed (manifest) or handed down (inbound set) by chain block i, must go down
Takes(y, e) == blocks[y].order = Ctx /\ (IF Ctx = 0 THEN blocks[y].loc[1] = e[2] ELSE blocks[y].loc = DestLoc(e))
First(J) == CHOOSE j \in J : \A k \in J : j <= k

\* Every tree is built block by block and deliv never changes for an existing block, so it is enough to evaluate the
\* chain invariants for the chain that ends in the newest block, in the state in which it was added.
Newest == IF phase = "build" /\ Cardinality(Ids) > 1 THEN {Cardinality(Ids) - 1} ELSE {}
\* the coded walk hands down exactly the declaratively defined ETXs, in that order
WalkIsDefinedOn(H) == \A b \in H : deliv[b] = Expected(b)
\* delivered at most once to a subordinate chain along any dominant chain
AtMostOnceOn(H) == \A h \in H, s \in Subs : NoDup(EtxIds(Stream(h, s)))
\* never to a chain that is not its destination
OnlyAtDestinationOn(H) ==
    \A b \in H : \A i \in DOMAIN deliv[b] :
        IF Ctx = 0 THEN deliv[b][i][2] = blocks[b].loc[1] ELSE DestLoc(deliv[b][i]) = blocks[b].loc
\* none lost, and none late: it goes down with the FIRST block that can carry it
NoneLostOn(H) ==
    \A h \in H :
        LET ch == Chain(h)
            n == Len(ch) IN
        \A i \in 2..n :
            /\ \A e \in SeqSet(SubRollup(ch[i])) :
                   (Ctx = 0 \/ (e[4] = Std /\ e[2] = blocks[ch[i]].loc[1])) =>
                       LET J == {j \in i..n : Takes(ch[j], e)} IN
                       J # {} => InSeq(e, deliv[ch[First(J)]])
            /\ \A e \in SeqSet(blocks[ch[i]].inb) :
                   IF DestLoc(e) = blocks[ch[i]].loc THEN InSeq(e, deliv[ch[i]])
                   ELSE LET J == {j \in (i + 1)..n : Takes(ch[j], e)} IN
                        J # {} => InSeq(e, deliv[ch[First(J)]])
\* nothing unknown, nothing from another branch, nothing before the dominant chain confirmed it
NotEarlyOn(H) ==
    \A b \in H : \A e \in SeqSet(deliv[b]) :
        \E x \in SeqSet(Chain(b)) \ {Gen} : InSeq(e, SubRollup(x)) \/ InSeq(e, blocks[x].inb)
\* region level: whatever a region takes from its own zones' manifests is a standard transfer inside the region;
\* coinbases, conversions and transfers from other regions only ever arrive through prime's inbound sets
OnlyViaPrimeOn(H) ==
    Ctx = 1 => \A b \in H : \A e \in SeqSet(deliv[b]) :
        (\E x \in SeqSet(Chain(b)) \ {Gen} : InSeq(e, SubRollup(x))) => (e[4] = Std /\ e[2] = blocks[b].loc[1])
\* the order inside one delivery depends on the dominant chain only: newest confirming block first, inside a block
\* first what prime handed down, then the manifest, each in its recorded order
PosKey(ch, e) ==
    LET I == {i \in 2..Len(ch) : InSeq(e, SubRollup(ch[i])) \/ InSeq(e, blocks[ch[i]].inb)} IN
    IF I = {} THEN <<0, 0, 0>>
    ELSE LET i == CHOOSE i \in I : TRUE
             fromInb == InSeq(e, blocks[ch[i]].inb)
             lst == IF fromInb THEN blocks[ch[i]].inb ELSE SubRollup(ch[i])
         IN <<Len(ch) - i, IF fromInb THEN 0 ELSE 1, CHOOSE k \in DOMAIN lst : lst[k] = e>>
LexLess(a, b) == a[1] < b[1] \/ (a[1] = b[1] /\ (a[2] < b[2] \/ (a[2] = b[2] /\ a[3] < b[3])))
OrderFixedByDomOn(H) ==
    \A b \in H : \A i \in 1..(Len(deliv[b]) - 1) :
        LexLess(PosKey(Chain(b), deliv[b][i]), PosKey(Chain(b), deliv[b][i + 1]))
\* the two routes partition the ETXs of a region: a region keeps exactly what it does not hand up to prime
RoutesPartition ==
    \A b \in Newest : \A j \in DOMAIN blocks[b].raw : \A e \in SeqSet(blocks[b].raw[j]) :
        CrossPrimePred(blocks[b].loc[1], e) # (e[4] = Std /\ e[2] = blocks[b].loc[1])
\* prime level: a standard transfer between zones of one region never travels through prime
IntraRegionStaysBelowPrime ==
    Ctx = 0 => \A b \in Newest : \A e \in SeqSet(deliv[b]) :
        \A x \in SeqSet(Chain(b)) \ {Gen} : \A j \in DOMAIN blocks[x].raw :
            InSeq(e, blocks[x].raw[j]) => ~(e[4] = Std /\ e[2] = blocks[x].loc[1])
\* the cache only ever holds, under a block's hash, that block's own rollup ...
CacheCoherent == \A k \in DOMAIN cache : cache[k] = SubRollup(k)
\* ... so that a repeated call returns what the first call returned, whatever was called in between
CacheTransparent == \A i \in DOMAIN qlog : qlog[i].res = deliv[qlog[i].b]

WalkIsDefined == WalkIsDefinedOn(Newest)
AtMostOnce == AtMostOnceOn(Newest)
OnlyAtDestination == OnlyAtDestinationOn(Newest)
NoneLost == NoneLostOn(Newest)
NotEarly == NotEarlyOn(Newest)
OnlyViaPrime == OnlyViaPrimeOn(Newest)
OrderFixedByDom == OrderFixedByDomOn(Newest)

\* ------------------------------------------------------------------ behaviours for the replay on the real code
Complete == phase = "query" /\ (Len(qlog) = MaxQueries \/ Queryable = {})
\* ETXs are written as one integer id * 1000 + destRegion * 100 + destZone * 10 + kind
Code(e) == e[1] * 1000 + e[2] * 100 + e[3] * 10 + e[4]
Codes(s) == [i \in DOMAIN s |-> Code(s[i])]
BlockRec(b) ==
    LET ru == SubRollup(b) IN
    [id |-> b, p |-> blocks[b].parent, loc |-> blocks[b].loc, order |-> blocks[b].order, exp |-> blocks[b].exp,
     man |-> [j \in DOMAIN blocks[b].man |-> Codes(blocks[b].man[j])], inb |-> Codes(blocks[b].inb),
     \* function-level observations (CollectSubRollup, FilterToSub for the three orders): first block of every tree
     rollup |-> IF b = 1 THEN Codes(ru) ELSE <<>>,
     f |-> IF b = 1 THEN [o \in 1..3 |-> Codes(FilterToSub(ru, blocks[b].loc, Ctx, o - 1))] ELSE <<>>,
     deliver |-> Codes(deliv[b])]
HistRec == [ctx |-> Ctx, gexp |-> blocks[Gen].exp, blocks |-> [b \in 1..(Cardinality(Ids) - 1) |-> BlockRec(b)],
            restart |-> restarted, queries |-> [i \in DOMAIN qlog |-> [b |-> qlog[i].b, res |-> Codes(qlog[i].res)]]]
EmitHist == Complete' => PrintT("@@" \o ToJson(HistRec'))
=============================================================================
