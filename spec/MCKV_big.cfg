SPECIFICATION Spec
CONSTANTS
  Keys <- K4
  Vals <- V3
  IterPrefixes <- P3
  IterStarts <- S2
  Batches <- B2
  MaxOps = 5
  MaxBatch = 3
VIEW view
INVARIANTS TypeOK PendingOnlyWhenOn PendViewIsSuffixOfOps IterSorted
PROPERTIES WriteAppliesAllInOrder
CHECK_DEADLOCK FALSE
