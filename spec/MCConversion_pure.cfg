SPECIFICATION Spec
CONSTANTS
  ConvIds <- Ids2
  Amounts <- AmtsQ
  Slips <- SlipsQ
  Flow = 100
  Rates <- RatesA
  KQs <- KQsQ
  Denoms <- DenomsA
  TrimIdx = 3
  GasOuts <- GasA
  LockPeriod = 2
  MaxHeight = 5
  MaxOps = 0
  MinQuai = 20
  InitQuai = 4000
  InitQi = 4000
  CodeRefund = FALSE
  Increasings <- BoolAll
VIEW view
INVARIANTS RoundTripNeverGains GreedySplitExact CubicOnlyReduces
CHECK_DEADLOCK FALSE
