------------------------------- MODULE TxPool -------------------------------
(***************************************************************************)
(* The Quai-ledger transaction pool of go-quai (core/tx_pool.go,           *)
(* tx_list.go, tx_noncer.go) AS IT IS, for property C19.                   *)
(*                                                                         *)
(* A transaction is <<account, nonce, price>>; its cost is its price (gas  *)
(* limit and value are fixed by the harness: cost = price * 21000 * 1 gwei *)
(* and a balance b means b * 21000 gwei), so "affordable" is price <=      *)
(* balance.  Whether it was submitted as local or remote is a parameter of *)
(* the Add call, not of the transaction.                                   *)
(*                                                                         *)
(* The pool's indexes are ONE record-valued variable `pool`; every         *)
(* critical section under pool.mu is a function from pool records to the   *)
(* SET of possible successor records (set-valued where the code depends on *)
(* heap ties, map iteration order or wall-clock time).  The same           *)
(* functions are used by the design-level model (Next), by the fused       *)
(* schedule used to emit behaviours for replay (FNext) and by the trace    *)
(* specification TxPoolTrace.tla.                                          *)
(*                                                                         *)
(* Actions (Go function mirrored):                                         *)
(*   AddTx          TxPool.AddLocal / AddRemote -> addTxs -> add           *)
(*   SetGasPrice    TxPool.SetGasPrice                                     *)
(*   EvictLifetime  loop(): case <-evict.C                                 *)
(*   HeadEvent      loop(): case <-chainHeadCh -> requestReset (coalesced  *)
(*                  by scheduleReorgLoop) = RequestReset                   *)
(*   SendUnblock / LoopRecvPromote   reqPromoteCh (RequestPromote)         *)
(*   Tick, Launch   scheduleReorgLoop: ReorgFrequency ticker, launch       *)
(*   RunReorg       runReorg: reset (incl. re-injection of reorged-out     *)
(*                  transactions), promoteExecutables,                     *)
(*                  demoteUnexecutables, truncatePending, truncateQueue    *)
(* removeTx has no public entry point: it is the operator RemoveTx used by *)
(* add (discard), SetGasPrice, the eviction tick and truncateQueue.        *)
(*                                                                         *)
(* go-quai specifics modelled as they are (differences to go-ethereum):    *)
(*  - addTxs holds pool.mu for the whole call, including the send of the   *)
(*    promote request; a promote request does NOT launch a run, only the   *)
(*    ReorgFrequency ticker or a reset does: an executable transaction     *)
(*    sits in the queue until the next run;                                *)
(*  - the gas-price floor and the "underpriced when full" test apply to    *)
(*    local transactions too; equal price is not underpriced;              *)
(*  - truncateQueue does not spare local accounts and starts with the most *)
(*    recently active account;                                             *)
(*  - the eviction tick also drops whole pending lists;                    *)
(*  - removeTx removes BY NONCE from the pending list;                     *)
(*  - demoteUnexecutables only looks for a gap in FRONT of a pending list  *)
(*    (see HolesOnlyFromRefusedReinject: a known finding).                 *)
(* Not modelled: Qi transactions, the journal, poolLimiterGoroutine, the   *)
(* order inside the price heaps (which remote transactions a full pool     *)
(* discards is any set of the needed size; `priced` is the set of entries  *)
(* pushed since the last re-heap, an upper bound of the heaps' content).   *)
(* A quiescent point: no request outstanding and one full run completed    *)
(* after the last mutation (Quiescent).                                    *)
(***************************************************************************)
EXTENDS Integers, Sequences, FiniteSets, TLC, SequencesExt, Json

CONSTANTS NA,            \* accounts are 1..NA
          MaxNonce,      \* nonces are 0..MaxNonce
          Prices,        \* set of positive integers
          InitBal,       \* [Accts -> Nat]: balances at genesis
          BalChoices,    \* set of [Accts -> Nat]: balances a new block may establish
          BodyPrices,    \* prices of transactions a block may include
          MaxBody,       \* max number of transactions in a block body
          MaxBlocks,     \* max number of blocks ever created
          MaxReorg,      \* max number of blocks a head event may drop
          Floors,        \* values for SetGasPrice
          AccountSlots, GlobalSlots, AccountQueue, GlobalQueue, PriceBump,
          MaxOps,        \* bound on caller operations in a behaviour
          ChanCap,       \* capacity of reqPromoteCh in the protocol model
          Fused,         \* TRUE: canonical schedule (emission); FALSE: full protocol interleaving
          EvictAllOnly,  \* TRUE: the eviction tick evicts everything (what replay can force)
          KeepHist       \* FALSE: no history (liveness runs without VIEW)

Accts  == 1..NA
Nonces == 0..MaxNonce
Tx     == Accts \X Nonces \X Prices

VARIABLES pool,       \* the pool's indexes (record, see InitPool)
          chain,      \* the canonical chain: sequence of blocks [id, body, bal] after genesis
          nblocks,    \* number of blocks created so far (block ids)
          loopHead,   \* TxPool.loop(): `head`, the chain at the last head event
          resetReq,   \* scheduleReorgLoop: `reset` (coalesced)             [on, old, new]
          promoteCh,  \* reqPromoteCh: sequence of account sets
          blocked,    \* an addTxs caller blocked in the send, holding mu   [on, msg]
          dirty,      \* scheduleReorgLoop: `dirtyAccounts`
          launch,     \* scheduleReorgLoop: `launchNextRun`
          run,        \* a launched runReorg goroutine not yet through its critical section [on, reset, dirty]
          owed,       \* accounts with a promote request not yet served by a run
          mutated,    \* a caller changed the pool since the last completed run
          step, obs, hist

pvars == <<loopHead, resetReq, promoteCh, blocked, dirty, launch, run, owed, mutated>>
vars  == <<pool, chain, nblocks, pvars, step, obs, hist>>
view  == <<pool, chain, nblocks, pvars, step>>

----------------------------------------------------------------------------
\* ---------- small helpers
MinOf(S) == CHOOSE x \in S : \A y \in S : x <= y
MaxOf(S) == CHOOSE x \in S : \A y \in S : x >= y
RECURSIVE SumF(_, _)
SumF(f, S) == IF S = {} THEN 0 ELSE LET x == CHOOSE y \in S : TRUE IN f[x] + SumF(f, S \ {x})
LowestK(S, k) == {n \in S : Cardinality({m \in S : m < n}) < k}
PermsOf(S) == {s \in [1..Cardinality(S) -> S] : \A i, j \in 1..Cardinality(S) : i # j => s[i] # s[j]}
TxKey(t) == t[1] * 10000 + t[2] * 100 + t[3]

EmptyList   == [n \in Nonces |-> 0]
NoncesOf(l) == {n \in Nonces : l[n] # 0}
TxSet(a, l) == {<<a, n, l[n]>> : n \in NoncesOf(l)}
Without(l, S) == [n \in Nonces |-> IF n \in S THEN 0 ELSE l[n]]
Gaps(l) == LET ns == NoncesOf(l) IN IF ns = {} THEN {} ELSE (MinOf(ns)..MaxOf(ns)) \ ns

AllOf(P)   == P.loc \cup P.rem
Slots(P)   == Cardinality(AllOf(P))
PendTxs(P) == UNION {TxSet(a, P.pend[a]) : a \in Accts}
QueTxs(P)  == UNION {TxSet(a, P.que[a]) : a \in Accts}

\* txLookup.Remove / txLookup.Add + txPricedList.Put
DropAll(P, S) == [P EXCEPT !.loc = @ \ S, !.rem = @ \ S]
PutAll(P, tx, isLocal) ==
    IF isLocal THEN [P EXCEPT !.loc = @ \cup {tx}]
    ELSE [P EXCEPT !.rem = @ \cup {tx}, !.priced = @ \cup {tx}]

\* txList.Add: the replacement rule (tx_list.go)
Bumps(old, new) == new > old /\ new * 100 >= old * (100 + PriceBump)
ListAdd(l, n, p) ==
    IF l[n] # 0 /\ ~Bumps(l[n], p) THEN [ok |-> FALSE, old |-> 0, l |-> l]
    ELSE [ok |-> TRUE, old |-> l[n], l |-> [l EXCEPT ![n] = p]]

\* enqueueTx(hash, tx, local, addAll)
Enqueue(P, tx, isLocal, addAll) ==
    LET a == tx[1]  n == tx[2]  p == tx[3]
        r == ListAdd(P.que[a], n, p)
    IN  IF ~r.ok THEN [st |-> P, ok |-> FALSE, replaced |-> FALSE]
        ELSE LET P1 == [P EXCEPT !.que[a] = r.l]
                 P2 == IF r.old # 0 THEN DropAll(P1, {<<a, n, r.old>>}) ELSE P1
                 P3 == IF addAll THEN PutAll(P2, tx, isLocal) ELSE P2
             IN  [st |-> P3, ok |-> TRUE, replaced |-> r.old # 0]

\* "Internal shuffle": pending -> queue for the nonces S of account a, prices from list src
RECURSIVE EnqueueNonces(_, _, _, _)
EnqueueNonces(P, a, src, S) ==
    IF S = {} THEN P
    ELSE LET m == MinOf(S)
         IN  EnqueueNonces(Enqueue(P, <<a, m, src[m]>>, FALSE, FALSE).st, a, src, S \ {m})

\* removeTx(hash, _): the lookup entry goes; the pending list is searched BY NONCE first
RemoveTx(P, tx) ==
    IF tx \notin AllOf(P) THEN P
    ELSE LET a == tx[1]  n == tx[2]
             P1 == DropAll(P, {tx})
         IN  IF P1.pend[a][n] # 0
             THEN LET inv == {m \in NoncesOf(P1.pend[a]) : m > n}
                      P2  == [P1 EXCEPT !.pend[a] = [m \in Nonces |-> IF m >= n THEN 0 ELSE P1.pend[a][m]]]
                      P3  == EnqueueNonces(P2, a, P1.pend[a], inv)
                  IN  [P3 EXCEPT !.pn[a] = IF @ <= n THEN @ ELSE n]          \* setIfLower
             ELSE IF P1.que[a][n] # 0 THEN [P1 EXCEPT !.que[a][n] = 0] ELSE P1

RECURSIVE RemoveSet(_, _)
RemoveSet(P, S) ==
    IF S = {} THEN P
    ELSE LET t == CHOOSE x \in S : \A y \in S : TxKey(x) <= TxKey(y)
         IN  RemoveSet(RemoveTx(P, t), S \ {t})

----------------------------------------------------------------------------
\* ---------- add  (addTxs -> addTxsLocked -> add)
Validate(P, tx) ==
    LET a == tx[1]  n == tx[2]  p == tx[3]
    IN  IF p < P.floor THEN "underpriced"           \* applies to locals too
        ELSE IF P.sn[a] > n THEN "noncelow"
        ELSE IF P.bal[a] < p THEN "funds"
        ELSE "ok"

MigrateLocals(P) ==                                  \* txLookup.RemoteToLocals
    LET M == {t \in P.rem : t[1] \in P.locals}
    IN  [P EXCEPT !.rem = @ \ M, !.loc = @ \cup M]

AddRes(P, res, replaced, drop) == [st |-> P, res |-> res, replaced |-> replaced, drop |-> drop]

AddAfterRoom(P, tx, local, isLocal, drop) ==
    LET a == tx[1]  n == tx[2]  p == tx[3]
    IN  IF P.pend[a][n] # 0
        THEN \* nonce already pending: replace in place or refuse
             LET r == ListAdd(P.pend[a], n, p)
             IN  IF ~r.ok THEN AddRes(P, "replace", FALSE, drop)
                 ELSE AddRes(PutAll(DropAll([P EXCEPT !.pend[a] = r.l], {<<a, n, r.old>>}), tx, isLocal),
                             "ok", TRUE, drop)
        ELSE LET e == Enqueue(P, tx, isLocal, TRUE)
             IN  IF ~e.ok THEN AddRes(P, "replace", FALSE, drop)
                 ELSE LET P1 == e.st
                          P2 == IF local /\ a \notin P1.locals
                                THEN MigrateLocals([P1 EXCEPT !.locals = @ \cup {a}]) ELSE P1
                      IN  AddRes(P2, "ok", e.replaced, drop)

\* the set of possible results of add(tx, local); more than one only when the pool is full
\* (which remote transactions txPricedList.Discard returns depends on heap history and ties)
AddOutcomes(P, tx, local) ==
    IF tx \in AllOf(P) THEN {AddRes(P, "known", FALSE, {})}
    ELSE LET isLocal == local \/ tx[1] \in P.locals
             v == Validate(P, tx)
         IN  IF v # "ok" THEN {AddRes(P, v, FALSE, {})}
             ELSE IF Slots(P) + 1 > GlobalSlots + GlobalQueue
             THEN IF P.rem # {} /\ \A r \in P.rem : tx[3] < r[3]      \* txPricedList.Underpriced
                  THEN {AddRes(P, "underpriced", FALSE, {})}
                  ELSE LET need == Slots(P) - (GlobalSlots + GlobalQueue) + 1
                       IN  IF Cardinality(P.rem) < need THEN {AddRes(P, "overflow", FALSE, {})}
                           ELSE {AddAfterRoom(RemoveSet(P, D), tx, local, isLocal, D) :
                                    D \in {X \in SUBSET P.rem : Cardinality(X) = need}}
             ELSE {AddAfterRoom(P, tx, local, isLocal, {})}

\* the promote request addTxs sends for a single-transaction call ({} is sent too; nothing
\* is sent when the transaction was already known)
AddMsg(o, tx) == IF o.res = "ok" /\ ~o.replaced THEN {tx[1]} ELSE {}

----------------------------------------------------------------------------
\* ---------- SetGasPrice, eviction tick
SetGasOutcome(P, f) ==
    LET P1 == [P EXCEPT !.floor = f]
    IN  IF f > P.floor THEN RemoveSet(P1, {t \in P.rem : t[3] < f}) ELSE P1

\* loop(): case <-evict.C.  Sq: accounts whose heartbeat is older than Lifetime (whole queue
\* dropped); then Sp: accounts whose first pending transaction is older than Lifetime (whole
\* pending list dropped).  Time is abstracted: any Sq, Sp.
EvictOutcome(P, Sq, Sp) ==
    LET P1 == RemoveSet(P, UNION {TxSet(a, P.que[a]) : a \in Sq})
    IN  RemoveSet(P1, UNION {TxSet(a, P1.pend[a]) : a \in Sp})

----------------------------------------------------------------------------
\* ---------- runReorg
\* reset(): new state, fresh nonce tracker
ResetState(P, sn, bal) == [P EXCEPT !.sn = sn, !.bal = bal, !.pn = sn]

\* reinjection of reorged-out transactions: addTxsLocked(reinject, false), results ignored
RECURSIVE ReinjectStates(_, _)
ReinjectStates(P, txs) ==
    IF txs = <<>> THEN {P}
    ELSE UNION {ReinjectStates(o.st, Tail(txs)) : o \in AddOutcomes(P, Head(txs), FALSE)}

\* promoteTx
PromoteTx(P, a, n, p) ==
    LET r == ListAdd(P.pend[a], n, p)
    IN  IF ~r.ok THEN DropAll(P, {<<a, n, p>>})
        ELSE LET P1 == [P EXCEPT !.pend[a] = r.l, !.pn[a] = n + 1]
             IN  IF r.old # 0 THEN DropAll(P1, {<<a, n, r.old>>}) ELSE P1

RECURSIVE PromoteMany(_, _, _, _)
PromoteMany(P, a, src, S) ==
    IF S = {} THEN P
    ELSE LET m == MinOf(S) IN PromoteMany(PromoteTx(P, a, m, src[m]), a, src, S \ {m})

\* promoteExecutables, one account
PromoteAcct(P, a) ==
    IF NoncesOf(P.que[a]) = {} THEN P
    ELSE LET q0 == P.que[a]
             fw == {n \in NoncesOf(q0) : n < P.sn[a]}                     \* Forward(state nonce)
             q1 == Without(q0, fw)
             dr == {n \in NoncesOf(q1) : q1[n] > P.bal[a]}                \* Filter(balance)
             q2 == Without(q1, dr)
             P1 == DropAll([P EXCEPT !.que[a] = q2], {<<a, n, q0[n]>> : n \in fw \cup dr})
             ns == NoncesOf(q2)
             rd == IF ns = {} \/ MinOf(ns) > P1.pn[a] THEN {}               \* Ready(pending nonce)
                   ELSE {n \in ns : \A k \in MinOf(ns)..n : k \in ns}
             q3 == Without(q2, rd)
             P2 == PromoteMany([P1 EXCEPT !.que[a] = q3], a, q2, rd)
             cp == NoncesOf(q3) \ LowestK(NoncesOf(q3), AccountQueue)      \* Cap(AccountQueue)
         IN  DropAll([P2 EXCEPT !.que[a] = Without(q3, cp)], {<<a, n, q3[n]>> : n \in cp})

RECURSIVE PromoteAll(_, _)
PromoteAll(P, S) == IF S = {} THEN P ELSE LET a == MinOf(S) IN PromoteAll(PromoteAcct(P, a), S \ {a})

\* demoteUnexecutables, one account
DemoteAcct(P, a) ==
    IF NoncesOf(P.pend[a]) = {} THEN P
    ELSE LET l0  == P.pend[a]
             old == {n \in NoncesOf(l0) : n < P.sn[a]}
             l1  == Without(l0, old)
             dr  == {n \in NoncesOf(l1) : l1[n] > P.bal[a]}
             inv == IF dr = {} THEN {} ELSE {n \in NoncesOf(l1) \ dr : n > MinOf(dr)}    \* strict list
             l2  == Without(l1, dr \cup inv)
             P1  == DropAll([P EXCEPT !.pend[a] = l2], {<<a, n, l0[n]>> : n \in old \cup dr})
             P2  == EnqueueNonces(P1, a, l1, inv)
         IN  IF NoncesOf(l2) # {} /\ l2[P.sn[a]] = 0                        \* "gap in front"
             THEN EnqueueNonces([P2 EXCEPT !.pend[a] = EmptyList], a, l2, NoncesOf(l2))
             ELSE P2

RECURSIVE DemoteAll(_, _)
DemoteAll(P, S) == IF S = {} THEN P ELSE LET a == MinOf(S) IN DemoteAll(DemoteAcct(P, a), S \ {a})

Reheap(P) == [P EXCEPT !.priced = P.rem]                  \* txPricedList.SetBaseFee -> Reheap

\* truncatePending, transcribed on the per-account counts; `ord` is the order in which prque
\* pops the accounts above AccountSlots (largest first, ties unspecified)
PendCount(P) == [a \in Accts |-> Cardinality(NoncesOf(P.pend[a]))]
InSeq(s, x) == \E i \in 1..Len(s) : s[i] = x
DecAll(c, offs) == [a \in Accts |-> IF InSeq(offs, a) THEN c[a] - 1 ELSE c[a]]

RECURSIVE Equalize(_, _, _)
Equalize(c, offs, thr) ==
    IF SumF(c, Accts) > GlobalSlots /\ c[offs[Len(offs) - 1]] > thr
    THEN Equalize(DecAll(c, SubSeq(offs, 1, Len(offs) - 1)), offs, thr) ELSE c

RECURSIVE TpPhase1(_, _, _)
TpPhase1(c, rest, offs) ==
    IF SumF(c, Accts) > GlobalSlots /\ rest # <<>>
    THEN LET o == Head(rest)  offs2 == Append(offs, o)
             c2 == IF Len(offs2) > 1 THEN Equalize(c, offs2, c[o]) ELSE c
         IN  TpPhase1(c2, Tail(rest), offs2)
    ELSE [c |-> c, offs |-> offs]

RECURSIVE TpPhase2(_, _)
TpPhase2(c, offs) ==
    IF SumF(c, Accts) > GlobalSlots /\ offs # <<>> /\ c[offs[Len(offs)]] > AccountSlots
    THEN TpPhase2(DecAll(c, offs), offs) ELSE c

ApplyPendCounts(P, c) ==
    LET cut == [a \in Accts |-> NoncesOf(P.pend[a]) \ LowestK(NoncesOf(P.pend[a]), c[a])]
        P1  == [P EXCEPT !.pend = [a \in Accts |-> Without(P.pend[a], cut[a])],
                         !.pn   = [a \in Accts |-> IF cut[a] # {} /\ MinOf(cut[a]) < P.pn[a]
                                                   THEN MinOf(cut[a]) ELSE P.pn[a]]]
    IN  DropAll(P1, UNION {{<<a, n, P.pend[a][n]>> : n \in cut[a]} : a \in Accts})

TruncPendOutcomes(P) ==
    LET c == PendCount(P)
    IN  IF SumF(c, Accts) <= GlobalSlots THEN {P}
        ELSE LET sp == {a \in Accts : c[a] > AccountSlots}
                 ords == {s \in PermsOf(sp) : \A i, j \in 1..Len(s) : i < j => c[s[i]] >= c[s[j]]}
             IN  {LET ph == TpPhase1(c, ord, <<>>) IN ApplyPendCounts(P, TpPhase2(ph.c, ph.offs)) : ord \in ords}

\* truncateQueue: accounts by heartbeat, most recent first (time is abstracted: any order)
RECURSIVE TqWalk(_, _, _)
TqWalk(P, ord, drop) ==
    IF drop = 0 \/ ord = <<>> THEN P
    ELSE LET a == Head(ord)  ns == NoncesOf(P.que[a])  size == Cardinality(ns)
         IN  IF size <= drop THEN TqWalk(RemoveSet(P, TxSet(a, P.que[a])), Tail(ord), drop - size)
             ELSE RemoveSet(P, {<<a, n, P.que[a][n]>> : n \in ns \ LowestK(ns, size - drop)})

TruncQueueOutcomes(P) ==
    LET queued == Cardinality(QueTxs(P))
    IN  IF queued <= GlobalQueue THEN {P}
        ELSE {TqWalk(P, ord, queued - GlobalQueue) : ord \in PermsOf({a \in Accts : NoncesOf(P.que[a]) # {}})}

FixNonces(P) ==
    [P EXCEPT !.pn = [a \in Accts |-> IF NoncesOf(P.pend[a]) # {} THEN MaxOf(NoncesOf(P.pend[a])) + 1 ELSE P.pn[a]]]

\* everything after reset(): promoteExecutables, demoteUnexecutables, SetBaseFee, truncation, nonces
RunRestOutcomes(P, isReset, addrs) ==
    LET S1 == PromoteAll(P, addrs)
        S2 == IF isReset THEN Reheap(DemoteAll(S1, Accts)) ELSE S1
    IN  {FixNonces(S4) : S4 \in UNION {TruncQueueOutcomes(S3) : S3 \in TruncPendOutcomes(S2)}}

NoReset == [on |-> FALSE, sn |-> InitBal, bal |-> InitBal, reinject |-> <<>>]

RunOutcomes(P, rs, dirtyAddrs) ==
    IF rs.on
    THEN UNION {RunRestOutcomes(S, TRUE, {a \in Accts : NoncesOf(S.que[a]) # {}}) :
                   S \in ReinjectStates(ResetState(P, rs.sn, rs.bal), rs.reinject)}
    ELSE RunRestOutcomes(P, FALSE, dirtyAddrs)

----------------------------------------------------------------------------
\* ---------- the chain as the pool sees it through its blockChain interface
ChainNonce(ch) == [a \in Accts |-> Cardinality({<<i, j>> \in (1..Len(ch)) \X (1..MaxBody) :
                                                  j <= Len(ch[i].body) /\ ch[i].body[j][1] = a})]
ChainBal(ch) == IF ch = <<>> THEN InitBal ELSE ch[Len(ch)].bal
CommonLen(c1, c2) ==
    LET m == IF Len(c1) < Len(c2) THEN Len(c1) ELSE Len(c2)
    IN  MaxOf({k \in 0..m : \A i \in 1..k : c1[i].id = c2[i].id})
RECURSIVE RevBodies(_, _)                  \* bodies of ch[k+1..], head block first (the walk in reset())
RevBodies(ch, k) == IF Len(ch) <= k THEN <<>> ELSE ch[Len(ch)].body \o RevBodies(SubSeq(ch, 1, Len(ch) - 1), k)
ResetInfo(old, new) ==
    LET k   == CommonLen(old, new)
        inc == {new[i].body[j] : <<i, j>> \in {x \in ((k + 1)..Len(new)) \X (1..MaxBody) : x[2] <= Len(new[x[1]].body)}}
    IN  [on |-> TRUE, sn |-> ChainNonce(new), bal |-> ChainBal(new),
         reinject |-> SelectSeq(RevBodies(old, k), LAMBDA t : t \notin inc)]

\* block bodies valid on top of nonces snf: per account contiguous from its state nonce
RECURSIVE BodiesFrom(_, _)
BodiesFrom(snf, k) ==
    IF k = 0 THEN {<<>>}
    ELSE {<<>>} \cup UNION {{<<t>> \o rest : rest \in BodiesFrom([snf EXCEPT ![t[1]] = @ + 1], k - 1)} :
                               t \in {x \in Tx : x[2] = snf[x[1]] /\ x[3] \in BodyPrices}}

NewChain(k, body, bal) == Append(SubSeq(chain, 1, Len(chain) - k), [id |-> nblocks + 1, body |-> body, bal |-> bal])

----------------------------------------------------------------------------
\* ---------- observation / history
ListSeq(l) == [i \in 1..(MaxNonce + 1) |-> l[i - 1]]
Abs(P) == [pend |-> [a \in Accts |-> ListSeq(P.pend[a])], que |-> [a \in Accts |-> ListSeq(P.que[a])],
           loc |-> P.loc, rem |-> P.rem, pn |-> P.pn, sn |-> P.sn, bal |-> P.bal,
           floor |-> P.floor, locals |-> P.locals]

Log(rec) ==
    /\ obs'  = rec
    /\ hist' = IF KeepHist THEN Append(hist, rec) ELSE hist
St(P) == IF KeepHist THEN Abs(P) ELSE <<>>

InitPool == [pend |-> [a \in Accts |-> EmptyList], que |-> [a \in Accts |-> EmptyList],
             loc |-> {}, rem |-> {}, priced |-> {},
             pn |-> [a \in Accts |-> 0], sn |-> [a \in Accts |-> 0], bal |-> InitBal,
             floor |-> 1, locals |-> {}]

Off == [on |-> FALSE]
Init ==
    /\ pool = InitPool /\ chain = <<>> /\ nblocks = 0 /\ loopHead = <<>>
    /\ resetReq = [on |-> FALSE, old |-> <<>>, new |-> <<>>]
    /\ promoteCh = <<>> /\ blocked = [on |-> FALSE, msg |-> {}]
    /\ dirty = {} /\ launch = FALSE
    /\ run = [on |-> FALSE, reset |-> NoReset, dirty |-> {}]
    /\ owed = {} /\ mutated = FALSE
    /\ step = 0 /\ obs = [op |-> "init"] /\ hist = <<>>

----------------------------------------------------------------------------
\* ---------- callers (each takes pool.mu; blocked.on means a caller still holds it)
MuFree == ~blocked.on

\* TxPool.AddLocal / AddRemote with one transaction
AddTx(tx, local) ==
    /\ MuFree
    /\ LET outs == AddOutcomes(pool, tx, local) IN \E o \in outs :
        LET msg == AddMsg(o, tx) IN
        /\ pool' = o.st
        /\ owed' = owed \cup msg
        /\ IF o.res = "known" THEN UNCHANGED <<promoteCh, blocked>>
           ELSE IF Len(promoteCh) < ChanCap
                THEN promoteCh' = Append(promoteCh, msg) /\ UNCHANGED blocked
                ELSE blocked' = [on |-> TRUE, msg |-> msg] /\ UNCHANGED promoteCh
        /\ Log([op |-> "add", tx |-> tx, local |-> local, res |-> o.res, replaced |-> o.replaced,
                drop |-> o.drop, nalt |-> Cardinality(outs), st |-> St(o.st)])
    /\ mutated' = TRUE /\ step' = step + 1
    /\ UNCHANGED <<chain, nblocks, loopHead, resetReq, dirty, launch, run>>

SetGasPrice(f) ==
    /\ MuFree
    /\ pool' = SetGasOutcome(pool, f)
    /\ Log([op |-> "setgas", f |-> f, nalt |-> 1, st |-> St(pool')])
    /\ mutated' = TRUE /\ step' = step + 1
    /\ UNCHANGED <<chain, nblocks, loopHead, resetReq, promoteCh, blocked, dirty, launch, run, owed>>

EvictLifetime(Sq, Sp) ==
    /\ MuFree
    /\ pool' = EvictOutcome(pool, Sq, Sp)
    /\ Log([op |-> "evict", sq |-> Sq, sp |-> Sp, nalt |-> 1, st |-> St(pool')])
    /\ mutated' = TRUE /\ step' = step + 1
    /\ UNCHANGED <<chain, nblocks, loopHead, resetReq, promoteCh, blocked, dirty, launch, run, owed>>

\* a chain head event reaches loop(): requestReset(head, ev.Block); scheduleReorgLoop coalesces
HeadEvent(k, body, bal) ==
    /\ nblocks < MaxBlocks
    /\ chain' = NewChain(k, body, bal) /\ nblocks' = nblocks + 1
    /\ resetReq' = IF resetReq.on THEN [resetReq EXCEPT !.new = chain']
                   ELSE [on |-> TRUE, old |-> loopHead, new |-> chain']
    /\ loopHead' = chain' /\ launch' = TRUE
    /\ Log([op |-> "head", k |-> k, body |-> body, bal |-> bal, nalt |-> 1, st |-> St(pool)])
    /\ mutated' = TRUE /\ step' = step + 1
    /\ UNCHANGED <<pool, promoteCh, blocked, dirty, run, owed>>

----------------------------------------------------------------------------
\* ---------- the reorg loop (scheduleReorgLoop / runReorg)
SendUnblock ==
    /\ blocked.on /\ Len(promoteCh) < ChanCap
    /\ promoteCh' = Append(promoteCh, blocked.msg) /\ blocked' = [on |-> FALSE, msg |-> {}]
    /\ UNCHANGED <<pool, chain, nblocks, loopHead, resetReq, dirty, launch, run, owed, mutated, step, obs, hist>>

LoopRecvPromote ==
    /\ promoteCh # <<>>
    /\ dirty' = dirty \cup Head(promoteCh) /\ promoteCh' = Tail(promoteCh)
    /\ UNCHANGED <<pool, chain, nblocks, loopHead, resetReq, blocked, launch, run, owed, mutated, step, obs, hist>>

Tick ==
    /\ ~launch /\ launch' = TRUE
    /\ UNCHANGED <<pool, chain, nblocks, loopHead, resetReq, promoteCh, blocked, dirty, run, owed, mutated, step, obs, hist>>

Launch ==
    /\ launch /\ ~run.on
    /\ run' = [on |-> TRUE, dirty |-> dirty,
               reset |-> IF resetReq.on THEN ResetInfo(resetReq.old, resetReq.new) ELSE NoReset]
    /\ resetReq' = [on |-> FALSE, old |-> <<>>, new |-> <<>>] /\ dirty' = {} /\ launch' = FALSE
    /\ UNCHANGED <<pool, chain, nblocks, loopHead, promoteCh, blocked, owed, mutated, step, obs, hist>>

RunReorg ==
    /\ run.on /\ MuFree
    /\ LET outs == RunOutcomes(pool, run.reset, run.dirty) IN \E S \in outs :
        /\ pool' = S
        /\ Log([op |-> "run", reset |-> run.reset.on, dirty |-> run.dirty, reinject |-> run.reset.reinject,
                nalt |-> Cardinality(outs), st |-> St(S)])
    /\ run' = [on |-> FALSE, reset |-> NoReset, dirty |-> {}]
    /\ owed' = IF run.reset.on THEN {} ELSE owed \ run.dirty
    /\ mutated' = FALSE
    /\ UNCHANGED <<chain, nblocks, loopHead, resetReq, promoteCh, blocked, dirty, launch, step>>

Quiescent ==
    /\ ~resetReq.on /\ promoteCh = <<>> /\ ~blocked.on /\ dirty = {} /\ ~run.on /\ ~mutated

Callers ==
    \/ \E tx \in Tx, local \in BOOLEAN : AddTx(tx, local)
    \/ \E f \in Floors : SetGasPrice(f)
    \/ IF EvictAllOnly THEN EvictLifetime(Accts, Accts)
       ELSE \E Sq \in SUBSET Accts, Sp \in SUBSET Accts : EvictLifetime(Sq, Sp)
    \/ \E k \in 0..MaxReorg : k <= Len(chain) /\
          \E body \in BodiesFrom(ChainNonce(SubSeq(chain, 1, Len(chain) - k)), MaxBody), bal \in BalChoices :
             HeadEvent(k, body, bal)

Internal == SendUnblock \/ LoopRecvPromote \/ Tick \/ Launch \/ RunReorg

Next == (step < MaxOps /\ Callers) \/ Internal

----------------------------------------------------------------------------
\* ---------- the canonical schedule used to emit behaviours that a sequential driver can
\* force: requests are received at once, a tick or a head event is followed by its run
FAdd(tx, local) ==
    /\ LET outs == AddOutcomes(pool, tx, local) IN \E o \in outs :
        /\ pool' = o.st /\ dirty' = dirty \cup AddMsg(o, tx)
        /\ Log([op |-> "add", tx |-> tx, local |-> local, res |-> o.res, replaced |-> o.replaced,
                drop |-> o.drop, nalt |-> Cardinality(outs), st |-> St(o.st)])
    /\ UNCHANGED <<chain, nblocks, loopHead>>

FSetGas(f) ==
    /\ pool' = SetGasOutcome(pool, f)
    /\ Log([op |-> "setgas", f |-> f, nalt |-> 1, st |-> St(pool')])
    /\ UNCHANGED <<chain, nblocks, loopHead, dirty>>

FEvict(Sq, Sp) ==
    /\ pool' = EvictOutcome(pool, Sq, Sp)
    /\ Log([op |-> "evict", sq |-> Sq, sp |-> Sp, nalt |-> 1, st |-> St(pool')])
    /\ UNCHANGED <<chain, nblocks, loopHead, dirty>>

FTick ==
    /\ LET outs == RunOutcomes(pool, NoReset, dirty) IN \E S \in outs :
        /\ pool' = S
        /\ Log([op |-> "tick", dirty |-> dirty, nalt |-> Cardinality(outs), st |-> St(S)])
    /\ dirty' = {}
    /\ UNCHANGED <<chain, nblocks, loopHead>>

FHead(k, body, bal) ==
    /\ nblocks < MaxBlocks
    /\ chain' = NewChain(k, body, bal) /\ nblocks' = nblocks + 1 /\ loopHead' = chain'
    /\ LET rs == ResetInfo(loopHead, chain')
           outs == RunOutcomes(pool, rs, dirty) IN
       \E S \in outs :
        /\ pool' = S
        /\ Log([op |-> "head", k |-> k, body |-> body, bal |-> bal, reinject |-> rs.reinject,
                nalt |-> Cardinality(outs), st |-> St(S)])
    /\ dirty' = {}

FNext ==
    /\ step < MaxOps /\ step' = step + 1
    /\ UNCHANGED <<resetReq, promoteCh, blocked, launch, run, owed, mutated>>
    /\ \/ \E tx \in Tx, local \in BOOLEAN : FAdd(tx, local)
       \/ \E f \in Floors : FSetGas(f)
       \/ IF EvictAllOnly THEN FEvict(Accts, Accts)
          ELSE \E Sq \in SUBSET Accts, Sp \in SUBSET Accts : FEvict(Sq, Sp)
       \/ FTick
       \/ \E k \in 0..MaxReorg : k <= Len(chain) /\
             \E body \in BodiesFrom(ChainNonce(SubSeq(chain, 1, Len(chain) - k)), MaxBody), bal \in BalChoices :
                FHead(k, body, bal)

FQuiescent == dirty = {} /\ obs.op \in {"tick", "head", "init"}

Spec  == Init /\ [][IF Fused THEN FNext ELSE Next]_vars
\* Go's select chooses among ready cases at random, the ticker keeps firing, a runnable goroutine is
\* eventually scheduled: weak fairness of every internal step
FairSpec == Init /\ [][Next]_vars /\ WF_vars(SendUnblock) /\ WF_vars(LoopRecvPromote) /\ WF_vars(Tick)
                 /\ WF_vars(Launch) /\ WF_vars(RunReorg)

----------------------------------------------------------------------------
\* ---------- C19: the consistency invariants, as predicates on a pool record
\* (TxPoolTrace evaluates the same predicates on the implementation's snapshots)
PendingContiguousFromStateNonce_(P) ==
    \A a \in Accts : LET ns == NoncesOf(P.pend[a]) IN
        ns # {} => ns = P.sn[a]..(P.sn[a] + Cardinality(ns) - 1)
PendingContiguous_(P) == \A a \in Accts : Gaps(P.pend[a]) = {}           \* no holes
PendingStartsAtStateNonce_(P) ==
    \A a \in Accts : LET ns == NoncesOf(P.pend[a]) IN ns # {} => MinOf(ns) = P.sn[a]
PendingAffordable_(P) ==
    \A a \in Accts : \A n \in NoncesOf(P.pend[a]) : P.pend[a][n] <= P.bal[a]
PendingQueueDisjoint_(P) ==
    \A a \in Accts : NoncesOf(P.pend[a]) \cap NoncesOf(P.que[a]) = {}
IndexesAgree_(P) ==
    /\ P.loc \cap P.rem = {}
    /\ AllOf(P) = PendTxs(P) \cup QueTxs(P)
    /\ P.rem \subseteq P.priced
PendingNonceAgrees_(P) ==                      \* virtual nonce = first nonce after the pending list
    \A a \in Accts : LET ns == NoncesOf(P.pend[a]) IN
        P.pn[a] = IF ns = {} THEN P.pn[a] ELSE MaxOf(ns) + 1
NonceNotBelowState_(P) == \A a \in Accts : P.pn[a] >= P.sn[a]
LimitsRespected_(P) ==
    /\ Slots(P) <= GlobalSlots + GlobalQueue
    /\ (Cardinality(PendTxs(P)) <= GlobalSlots \/ \A a \in Accts : Cardinality(NoncesOf(P.pend[a])) <= AccountSlots)
    /\ Cardinality(QueTxs(P)) <= GlobalQueue
CapacityRespected_(P) == Slots(P) <= GlobalSlots + GlobalQueue

IsQ == IF Fused THEN FQuiescent ELSE Quiescent

\* at every state (every critical section leaves the indexes in agreement)
PendingQueueDisjoint == PendingQueueDisjoint_(pool)
IndexesAgree         == IndexesAgree_(pool)
PendingContiguous    == PendingContiguous_(pool)
CapacityRespected    == CapacityRespected_(pool)
\* at quiescent points
PendingContiguousFromStateNonce == IsQ => PendingContiguousFromStateNonce_(pool)
PendingStartsAtStateNonce       == IsQ => PendingStartsAtStateNonce_(pool)
PendingAffordable               == IsQ => PendingAffordable_(pool)
PendingNonceAgrees              == IsQ => PendingNonceAgrees_(pool)
LimitsRespected                 == IsQ => LimitsRespected_(pool)

\* a same-nonce replacement in the pending list or in the queue needs the price bump (a transaction
\* discarded to make room in a full pool is not replaced: its nonce may be taken at any price)
ReplacedOK(a, l1, l2, drop) ==
    \A n \in Nonces : (l1[n] # 0 /\ l2[n] # 0 /\ l1[n] # l2[n]) => (Bumps(l1[n], l2[n]) \/ <<a, n, l1[n]>> \in drop)
ReplacementNeedsBump ==
    [][obs'.op = "add" => \A a \in Accts : /\ ReplacedOK(a, pool.pend[a], pool'.pend[a], obs'.drop)
                                            /\ ReplacedOK(a, pool.que[a], pool'.que[a], obs'.drop)]_vars

\* KNOWN FINDING (reproduced on the real code, see known-findings.json): go-quai does NOT keep the
\* pending list free of holes.  demoteUnexecutables only looks for a gap in FRONT of the list; when a
\* reset lowers the state nonce (chain reorg) and one of the re-injected transactions is refused
\* (unaffordable at the new head, below the price floor, pool full of locals ...), the nonces below
\* it are promoted in front of the surviving pending transactions and a hole stays inside the list
\* (MCTxPool_gap.cfg makes TLC produce the shortest such behaviour).  The model therefore satisfies
\* PendingContiguous / PendingContiguousFromStateNonce only up to that cause, stated exactly here:
\* a hole can only appear in a reset run, at the nonce of a re-injected transaction that is not in
\* the pool afterwards.
HolesOnlyFromRefusedReinject ==
    [][\A a \in Accts : (Gaps(pool'.pend[a]) # {} /\ Gaps(pool.pend[a]) = {}) =>
          /\ obs'.op \in {"head", "run"}
          /\ \E i \in 1..Len(obs'.reinject) :
                LET t == obs'.reinject[i] IN t[1] = a /\ t[2] \in Gaps(pool'.pend[a]) /\ t \notin AllOf(pool')]_vars

TypeOK ==
    /\ pool.loc \subseteq Tx /\ pool.rem \subseteq Tx /\ pool.priced \subseteq Tx
    /\ \A a \in Accts : pool.pn[a] \in 0..(MaxNonce + 1) /\ pool.sn[a] \in 0..(MaxNonce + 1)
    /\ owed \subseteq Accts /\ dirty \subseteq Accts

\* request protocol: every promote / reset request is eventually served (FairSpec)
RequestEventuallyServed == \A a \in Accts : (a \in owed) ~> (a \notin owed)
ResetEventuallyServed   == resetReq.on ~> ~resetReq.on
SenderEventuallyUnblocked == blocked.on ~> ~blocked.on

EmitHist == PrintT("@@" \o ToJson(hist'))
\* simulation: complete walks only, one in 16 of the candidate last steps (keeps the output small)
EmitWalk == (step' = MaxOps /\ RandomElement(1..16) = 1) => PrintT("@@" \o ToJson(hist'))
\* prints the behaviour that leads to a pending list with a hole (used with MCTxPool_gap.cfg)
NoGapWitness == PendingContiguous_(pool) \/ (PrintT("@@" \o ToJson(hist)) /\ FALSE)
=============================================================================
