SPECIFICATION Spec
CONSTANTS
  Outs <- O1
  MaxBlocks = 1
  MaxHeight = 2
  TrimDepth = 2
  MaxSteps = 8
  WithCrash = TRUE
  HeadInBatch = FALSE
  CrashInHeadWindow = TRUE
  WithTamper = FALSE
  SpendTrimCandidate = FALSE
VIEW view
INVARIANTS Recoverable
CHECK_DEADLOCK FALSE
