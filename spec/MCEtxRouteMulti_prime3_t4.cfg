SPECIFICATION Spec
CONSTANTS
  Ctx = 0
  Locs <- Prime3Locs
  DestSeq <- Prime3Dests
  MaxBlocks = 4
  ForkWindow = 2
  ExpChoices <- ExpPrime3
  SubChoices <- SubAlt
  Canonical = TRUE
  MaxQueries = 1
  RestartChoices <- Cold
  SeedCacheKey = FALSE
INVARIANTS WalkIsDefined AtMostOnce OnlyAtDestination NoneLost NotEarly OnlyViaPrime OrderFixedByDom RoutesPartition IntraRegionStaysBelowPrime CacheCoherent CacheTransparent
ACTION_CONSTRAINT EmitHist
CHECK_DEADLOCK FALSE
