SPECIFICATION Spec
CONSTANTS
  NA = 1
  MaxNonce = 2
  Prices <- P12
  InitBal <- BalAll2
  BalChoices <- BalSet21
  BodyPrices <- P12
  MaxBody = 2
  MaxBlocks = 2
  MaxReorg = 1
  Floors <- FNone
  AccountSlots = 3
  GlobalSlots = 3
  AccountQueue = 3
  GlobalQueue = 3
  PriceBump = 60
  MaxOps = 6
  ChanCap = 1
  Fused = TRUE
  EvictAllOnly = TRUE
  KeepHist = TRUE
VIEW view
INVARIANTS NoGapWitness
CHECK_DEADLOCK FALSE
