SPECIFICATION TraceSpec
CONSTANTS
  NAddr = 4
  NSlot = 2
  Vals <- AnyVals
  Amts <- AnyAmts
  Genesis <- GenT
  HasLock <- NoLock4
  Ops <- AllOpsJ
  MaxMut = 1000000
  MaxSnap = 1000000
  MaxDepth = 1000
  MaxTx = 1000000
  FrameAddr <- FrNone
  NewAddrs <- NewNone
  XferTo <- XferNone
  Benef = 3
INVARIANTS TypeOK AccessListWellFormed AlwaysRevertible
PROPERTIES RevertRestores SiblingsUntouched
POSTCONDITION TraceAccepted
CHECK_DEADLOCK FALSE
