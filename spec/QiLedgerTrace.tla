--------------------------- MODULE QiLedgerTrace ---------------------------
(***************************************************************************)
(* Trace validation for QiLedger.tla.  harness/cmd/qidrv builds a seeded   *)
(* universe of Qi transactions (first trace line: their definitions and    *)
(* the genesis outputs), runs random episodes of blocks through the real   *)
(* core.ProcessQiTx on every storage back-end and logs each verdict, fee   *)
(* and committed UTXO set.  Every event must be the QiLedger action of     *)
(* that name and the logged observation must be the specified one.         *)
(***************************************************************************)
EXTENDS QiLedger

Trace == ndJsonDeserialize("qitrace.ndjson")
Defs == Trace[1]

TraceGenesis == [o \in {<<g[1], g[2]>> : g \in ToSet(Defs.genesis)} |->
                    LET g == CHOOSE g \in ToSet(Defs.genesis) : <<g[1], g[2]>> = o
                    IN [d |-> g[3], owner |-> g[4], lock |-> g[5]]]
TraceTxs == Defs.txs
TraceDV == (0 :> 1) @@ (1 :> 5) @@ (2 :> 10) @@ (3 :> 50) @@ (4 :> 100)

VARIABLES l, mismatch
tvars == <<vars, l, mismatch>>

TraceInit == Init /\ l = 2 /\ mismatch = <<>>
Ev == Trace[l]
Is(name) == l <= Len(Trace) /\ Ev.op = name

\* logged observation vs specified observation (sets arrive as JSON arrays)
Same(o) == IF o[1] = "utxo" THEN Ev.res[1] = "utxo" /\ ToSet(Ev.res[2]) = o[2] ELSE o = Ev.res

Step(A) ==
    /\ A
    /\ l' = l + 1
    /\ mismatch' = IF mismatch = <<>> /\ ~Same(obs')
                   THEN <<l, Ev.backend, Ev.op, Ev.t, Ev.res, obs'>> ELSE mismatch

TraceReset ==
    /\ Is("reset")
    /\ utxo' = Genesis /\ height' = 0 /\ inBlock' = FALSE /\ batch' = <<>> /\ nQi' = 0 /\ fees' = 0
    /\ spentLog' = <<>> /\ blockSpent' = <<>> /\ valueIn' = 0 /\ valueOut' = 0 /\ nblocks' = 0
    /\ obs' = <<"init">> /\ hist' = <<>>
    /\ l' = l + 1 /\ UNCHANGED mismatch

TraceNext ==
    \/ TraceReset
    \/ Is("begin")  /\ Step(BeginBlock)
    \/ Is("tx")     /\ Step(ProcessTx(Ev.t))
    \/ Is("commit") /\ Step(CommitBlock)

TraceSpec == TraceInit /\ [][TraceNext]_tvars

ObservationsConform == mismatch = <<>>
TraceAccepted == TLCGet("stats").diameter = Len(Trace)
=============================================================================
