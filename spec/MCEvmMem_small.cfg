SPECIFICATION Spec
CONSTANTS
  OpFacts <- SoundFacts
  Sizes <- SizesSmall
  ConstGas <- Const2
  OtherGas <- Other2
  Gives <- Gives2
  GasLimit = 6000
  MaxOps = 4
  MaxDepth = 2
VIEW view
INVARIANTS TypeOK MemoryPaid TotalMemoryPaid
PROPERTIES GrowthCharged
CHECK_DEADLOCK FALSE
