SPECIFICATION TraceSpec
CONSTANTS
  Part = "ext"
  W = 8
  Kinds = {}
  MaxOps = 100000000
  MaxBlocks = 100000000
  IntrVals = {}
  DtVals = {}
  WithDeviations = TRUE
  WithCache = TRUE
INVARIANTS ObservationsConform DeviationRejected EntropyStrictlyIncreases ParentEntropyRecorded NumbersConsecutive PrimeTerminusIsLastPrime OrderStable IntrinsicPositive
POSTCONDITION TraceAccepted
CHECK_DEADLOCK FALSE
