SPECIFICATION TraceSpec
CONSTANTS
  MaxBlocks = 100000
  MaxEmit = 100000
  MinInclusion = 5
INVARIANTS StepConforms CheckLast ExecOnce
POSTCONDITION TraceAccepted
CHECK_DEADLOCK FALSE
