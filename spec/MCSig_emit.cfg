SPECIFICATION Spec
CONSTANTS
  Keys <- K2
  Chains <- C2
  NodeChain = 1
  Locs <- L2
  Fields <- FAll
  QiCases <- QiCq
  QiSignSets <- QiSq
  Modes <- MBoth
  MaxOps = 4
VIEW view
INVARIANTS SenderIsSigner MutationChangesSenderOrFails MalformedRejected CacheNeverCrossesChainId PoolCacheKeyedByFullHash QiOnlyOwners
ACTION_CONSTRAINT EmitHist
CHECK_DEADLOCK FALSE
