------------------------------ MODULE EtxQueue ------------------------------
(***************************************************************************)
(* The destination queue of inbound cross-chain transactions inside a      *)
(* zone's state (core/state/statedb.go: etxTrie with index -> RLP(ETX)     *)
(* cells plus the "oldest" and "newest" index cells): PushETXs, PopETX,    *)
(* ReadETX, GetOldestIndex/GetNewestIndex, CommitEtxs + reopening the      *)
(* state at the committed ETX root.  A FIFO of ETX identities.  C04, queue *)
(* layer in isolation (empty queue, index growth past one byte, commit     *)
(* points).                                                                *)
(***************************************************************************)
EXTENDS Integers, Sequences, TLC, Json

CONSTANTS PushSizes, MaxOps

VARIABLES items,    \* the queue: sequence of ETX ids, oldest first
          base,     \* number of ETXs popped so far (= the oldest index)
          next,     \* next fresh ETX id
          nops, obs, hist
vars == <<items, base, next, nops, obs, hist>>
view == <<items, base, next, nops>>

Init == items = <<>> /\ base = 0 /\ next = 1 /\ nops = 0 /\ obs = <<"init">> /\ hist = <<>>
Log(rec, o) == obs' = o /\ hist' = Append(hist, rec @@ [res |-> o]) /\ nops' = nops + 1

\* StateDB.PushETXs(n fresh ETXs): appended behind everything queued; newest index advances by n
Push(n) ==
    /\ items' = items \o [i \in 1..n |-> next + i - 1]
    /\ next' = next + n /\ UNCHANGED base
    /\ Log([op |-> "push", n |-> n], <<"idx", base, base + Len(items) + n>>)

\* StateDB.PopETX: the oldest ETX, or nil on an empty queue (indices unchanged then)
Pop ==
    /\ IF items = <<>>
       THEN /\ UNCHANGED <<items, base>> /\ Log([op |-> "pop", n |-> 0], <<"nil", base, base>>)
       ELSE /\ items' = Tail(items) /\ base' = base + 1
            /\ Log([op |-> "pop", n |-> 0], <<"etx", Head(items), base + 1, base + Len(items)>>)
    /\ UNCHANGED next

\* pop everything (a block that empties the queue)
Drain ==
    /\ items' = <<>> /\ base' = base + Len(items) /\ UNCHANGED next
    /\ Log([op |-> "drain", n |-> Len(items)], <<"drained", items, base + Len(items)>>)

\* StateDB.ReadETX(oldest + k) for every k: the whole content in order
ReadAll ==
    /\ UNCHANGED <<items, base, next>>
    /\ Log([op |-> "readall", n |-> 0], <<"content", items, base, base + Len(items)>>)

\* CommitEtxs + trie database commit, then a NEW StateDB opened at the committed ETX root
CommitReopen ==
    /\ UNCHANGED <<items, base, next>>
    /\ Log([op |-> "reopen", n |-> 0], <<"content", items, base, base + Len(items)>>)

Next == /\ nops < MaxOps
        /\ \/ \E n \in PushSizes : Push(n)
           \/ Pop \/ Drain \/ ReadAll \/ CommitReopen
Spec == Init /\ [][Next]_vars

\* FIFO, exactly once: ids leave in the order they entered (ids are issued increasingly)
Fifo == \A i \in 1..Len(items) - 1 : items[i] < items[i + 1]
NothingLost == Len(items) + base = next - 1
EmitHist == PrintT("@@" \o ToJson(hist'))
=============================================================================
