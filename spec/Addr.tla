------------------------------- MODULE Addr -------------------------------
(***************************************************************************)
(* C16 - every address has one zone and one ledger, respected by all state.*)
(* A CASE TABLE WITH (tiny) STATE.  An address is abstracted to its class:  *)
(*   zone byte  "z00" (0x00, zone-0-0) | "z01" (0x01, zone-0-1) | "other"   *)
(*              (any other first byte: other region / zone not in the tree) *)
(*   ledger     "quai" (second byte <= 127) | "qi" (second byte > 127)      *)
(*   zero       all remaining bytes zero (covers common.Zero and            *)
(*              ZeroAddress(location), which IsInChainScope special-cases)  *)
(* a node is prime, region-0, zone-0-0 or zone-0-1, and an address value    *)
(* reaches the code through one of the construction Paths.                  *)
(*                                                                         *)
(* Classify   : what every constructor / decoder must answer                *)
(* Touch      : a state mutator that can create an account                  *)
(* EvmCall    : a value transfer through the EVM to an address class        *)
(* Create     : CREATE / CREATE2 whose derived address falls in a class     *)
(* QiOutput   : a Qi transaction output to an address class / length        *)
(*                                                                         *)
(* Anchors: common/address.go, internal_address.go, external_address.go,   *)
(* types.go (IsInChainScope), crypto/crypto.go, core/state/statedb.go      *)
(* createObject, core/vm/evm.go Create/Create2/GrindContract/Call,         *)
(* core/evm.go Transfer, core/state_processor.go ProcessQiTx.              *)
(***************************************************************************)
EXTENDS Integers, Sequences, FiniteSets, TLC, Json

CONSTANTS Nodes,      \* subset of {"prime", "region", "zoneA", "zoneB"}
          ZoneBytes,  \* {"z00", "z01", "other"}
          Ledgers,    \* {"quai", "qi"}
          Paths,      \* construction paths taking 20 address bytes
          DerivedPaths, \* paths deriving the address from a hash (pubkey, CREATE, CREATE2)
          Mutators,   \* exported StateDB mutators reaching createObject
          QiLens,     \* byte lengths of a Qi output's address field: 20 well-formed; 19, 21, 0 malformed
          MaxOps

VARIABLES node,      \* location of the node
          accounts,  \* address classes present in the account trie
          utxos,     \* address classes holding a UTXO created by this node
          etxs,      \* address classes targeted by an emitted ETX
          step, obs, hist

vars == <<node, accounts, utxos, etxs, step, obs, hist>>
view == <<node, accounts, utxos, etxs, step>>

Class(zb, led, zero) == <<zb, led, zero>>

IsZone(n) == n \in {"zoneA", "zoneB"}
OwnByte(n) == IF n = "zoneA" THEN "z00" ELSE IF n = "zoneB" THEN "z01" ELSE "none"

\* THE classification: internal iff the node is a zone chain and the first byte is its prefix;
\* the ledger is the high bit of the second byte; nothing else matters - in particular not the path
Internal(n, zb) == IsZone(n) /\ zb = OwnByte(n)
Canon(n, zb, led) == <<Internal(n, zb), led>>

Log(rec) ==
    /\ obs'  = rec
    /\ hist' = Append(hist, rec)
    /\ step' = step + 1

Init ==
    /\ node \in Nodes
    /\ accounts = {} /\ utxos = {} /\ etxs = {}
    /\ step = 0
    /\ obs = [op |-> "init"]
    /\ hist = <<[op |-> "init", node |-> node]>>

\* any constructor / decoder (common.BytesToAddress, Bytes20ToAddress, HexToAddress, UnmarshalJSON, UnmarshalText,
\* DecodeRLP, ProtoDecode, BigToAddress, Scan, a transaction's `to` after ProtoDecode, ... and the hash-derived
\* crypto.PubkeyBytesToAddress / CreateAddress / CreateAddress2)
Classify(path, zb, led, zero) ==
    /\ (path \in DerivedPaths) => ~zero
    /\ Log([op |-> "classify", path |-> path, zb |-> zb, led |-> led, zero |-> zero, res |-> Canon(node, zb, led)])
    /\ UNCHANGED <<node, accounts, utxos, etxs>>

\* StateDB.AddBalance / SubBalance / SetBalance / SetNonce / SetCode / SetState / SetStorage / CreateAccount
\* (createObject): an account may come into existence only for an in-zone Quai-ledger address
Touch(m, zb, led, zero) ==
    /\ LET ok == Internal(node, zb) /\ led = "quai"
       IN  /\ accounts' = IF ok THEN accounts \cup {Class(zb, led, zero)} ELSE accounts
           /\ Log([op |-> "touch", m |-> m, zb |-> zb, led |-> led, zero |-> zero, res |-> <<IF ok THEN "created" ELSE "refused">>])
    /\ UNCHANGED <<node, utxos, etxs>>

\* EVM.Call with value from a funded in-zone account (core.Transfer): credited only in-zone Quai
EvmCall(zb, led) ==
    /\ IsZone(node)
    /\ LET ok == Internal(node, zb) /\ led = "quai"
       IN  /\ accounts' = IF ok THEN accounts \cup {Class(zb, led, FALSE)} ELSE accounts
           /\ Log([op |-> "evmcall", zb |-> zb, led |-> led, res |-> <<IF ok THEN "created" ELSE "refused">>])
    /\ UNCHANGED <<node, utxos, etxs>>

\* EVM.Create2: the derived address is used as is - in-zone Quai or failure.
\* EVM.Create: an unsuitable derived address is ground (GrindContract) into an in-zone Quai one, or creation fails.
\* Either way: the new account's class is in-zone Quai, or nothing is created.
Create(kind, zb, led) ==
    /\ LET direct == Internal(node, zb) /\ led = "quai"
           r == IF ~IsZone(node) THEN "refused"
                ELSE IF direct THEN "created-at-derived"
                ELSE IF kind = "create2" THEN "refused" ELSE "ground-or-refused"
       IN  /\ accounts' = IF r = "refused" THEN accounts ELSE accounts \cup {Class(OwnByte(node), "quai", FALSE)}
           /\ Log([op |-> "create", kind |-> kind, zb |-> zb, led |-> led, res |-> <<r>>])
    /\ UNCHANGED <<node, utxos, etxs>>

\* ProcessQiTx output handling.  mode "plain": no data; "convert": data names a Qi->Quai conversion
QiOutcome(zb, led, len, mode) ==
    IF len # 20 THEN "refused"                                         \* not an address at all
    ELSE IF Internal(node, zb) /\ led = "qi" THEN "utxo"
    ELSE IF Internal(node, zb) /\ led = "quai" THEN (IF mode = "convert" THEN "conversion" ELSE "refused")
    ELSE IF led = "qi" THEN "etx"                                      \* foreign zone: leaves as an ETX, no local UTXO
    ELSE "refused"                                                      \* foreign Quai address: never

QiOutput(zb, led, len, mode) ==
    /\ IsZone(node)
    /\ LET r == QiOutcome(zb, led, len, mode)
       IN  /\ utxos' = IF r = "utxo" THEN utxos \cup {Class(zb, led, FALSE)} ELSE utxos
           /\ etxs'  = IF r \in {"etx", "conversion"} THEN etxs \cup {Class(zb, led, FALSE)} ELSE etxs
           /\ Log([op |-> "qiout", zb |-> zb, led |-> led, len |-> len, mode |-> mode, res |-> <<r>>])
    /\ UNCHANGED <<node, accounts>>

Next ==
    /\ step < MaxOps
    /\ \/ \E p \in Paths \cup DerivedPaths, zb \in ZoneBytes, led \in Ledgers, z \in BOOLEAN : Classify(p, zb, led, z)
       \/ \E m \in Mutators, zb \in ZoneBytes, led \in Ledgers, z \in BOOLEAN : Touch(m, zb, led, z)
       \/ \E zb \in ZoneBytes, led \in Ledgers : EvmCall(zb, led)
       \/ \E k \in {"create", "create2"}, zb \in ZoneBytes, led \in Ledgers : Create(k, zb, led)
       \/ \E zb \in ZoneBytes, led \in Ledgers, len \in QiLens, mode \in {"plain", "convert"} : QiOutput(zb, led, len, mode)

Spec == Init /\ [][Next]_vars

----------------------------------------------------------------------------
\* every path gives the canonical answer (hence all paths agree)
SameClassificationOnEveryPath ==
    obs.op = "classify" => obs.res = Canon(node, obs.zb, obs.led)

\* an address is internal for at most one zone node, and has exactly one ledger
ExactlyOneZoneAndLedger ==
    /\ \A zb \in ZoneBytes : Cardinality({n \in {"zoneA", "zoneB"} : Internal(n, zb)}) <= 1
    /\ \A zb \in ZoneBytes : ~Internal("prime", zb) /\ ~Internal("region", zb)
    /\ obs.op = "classify" => obs.res[2] \in Ledgers

AccountsOnlyInZoneQuai == \A c \in accounts : Internal(node, c[1]) /\ c[2] = "quai"
UtxosOnlyLocalQi       == \A c \in utxos : Internal(node, c[1]) /\ c[2] = "qi"
EtxsLeaveOrConvert     == \A c \in etxs : (~Internal(node, c[1]) /\ c[2] = "qi") \/ (Internal(node, c[1]) /\ c[2] = "quai")
CreateYieldsInZoneQuaiOrFails ==
    obs.op = "create" => (obs.res[1] = "refused" \/ (IsZone(node) /\ Class(OwnByte(node), "quai", FALSE) \in accounts))

EmitHist == PrintT("@@" \o ToJson(hist'))
=============================================================================
