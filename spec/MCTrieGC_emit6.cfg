SPECIFICATION Spec
CONSTANTS
  Keys <- K3
  Vals <- V2
  MaxOps = 6
  MaxRef = 2
  Ops <- OpsAll
  KeepHist = TRUE
  CountMetaRefs = TRUE
  UncacheAfterWrite = TRUE
  Prelude <- NoPrelude
VIEW view
INVARIANTS TypeOK ReferencedRootsHeld LiveRootsLoadable FlushedRootsSurviveReopen HandleBaseLoadable
ACTION_CONSTRAINT EmitHist
CHECK_DEADLOCK FALSE
