SPECIFICATION TraceSpec
CONSTANTS
  OpFacts <- Facts
  Sizes = {}
  ConstGas = {}
  OtherGas = {}
  Gives = {}
  GasLimit = 0
  MaxOps = 0
  MaxDepth = 0
INVARIANTS TraceConforms ImplMemoryPaid ImplTotalMemoryPaid
POSTCONDITION TraceAccepted
CHECK_DEADLOCK FALSE
