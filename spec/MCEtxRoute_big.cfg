SPECIFICATION Spec
CONSTANTS
  MaxBlocks = 5
  MaxEmit = 2
  MinInclusion = 1
VIEW view
INVARIANTS InboundIsDefined QueueIsDefined AtMostOnce OnlyEmitted OrderFixedByDom NoneLost NotEarly
CHECK_DEADLOCK FALSE
