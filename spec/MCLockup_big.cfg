SPECIFICATION Spec
CONSTANTS
  Miners <- M3
  QiMiners <- QiM
  NewAccounts <- NewM
  Contracts <- C1
  NoCode <- NC
  Depth <- DepthQ
  Mult <- MultQ
  BonusStart = 3
  Epoch = 2
  InclDepth = 1
  MaxBlocks = 6
  MaxHeight = 5
  BaseReward = 10
  Fee = 3
  WorkShares <- WS2
  WSMiner <- WSM
  WSNumber <- WSN
  WSWeight <- WSW
  WSByte <- WSB
  CheckAmounts = TRUE
  DeepForks = FALSE
  Profiles <- ProfQ
VIEW view
INVARIANTS TypeOK ShareRewardedAtMostOncePerChain RewardAmountIsFormula CreditExactlyAtUnlock CreditAmountExact ClaimOnlyOwnerAfterUnlockOnce ClaimAmountIsAccumulated
CHECK_DEADLOCK FALSE
