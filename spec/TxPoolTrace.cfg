SPECIFICATION TraceSpec
CONSTANTS
  NA = 3
  MaxNonce = 5
  Prices <- TPrices
  InitBal <- TBal
  BalChoices <- TBalSet
  BodyPrices <- TPrices
  MaxBody = 2
  MaxBlocks = 0
  MaxReorg = 0
  Floors <- TPrices
  AccountSlots = 2
  GlobalSlots = 4
  AccountQueue = 3
  GlobalQueue = 4
  PriceBump = 60
  MaxOps = 0
  ChanCap = 1
  Fused = FALSE
  EvictAllOnly = FALSE
  KeepHist = FALSE
INVARIANTS Conform ImplPendingQueueDisjoint ImplIndexesAgree ImplPendingContiguous ImplCapacityRespected
           ImplPricedWithinBound ImplReplacementNeedsBump
           ImplPendingFromStateNonce ImplPendingAffordable ImplPendingNonceAgrees ImplLimitsRespected
POSTCONDITION TraceAccepted
CHECK_DEADLOCK FALSE
