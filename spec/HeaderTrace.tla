---------------------------- MODULE HeaderTrace ----------------------------
(***************************************************************************)
(* Trace validation for the "ext" part of Header.tla (C09).                *)
(* harness/cmd/hdrdrv chains grows real prime/region/zone chains and logs  *)
(* one "extend" event per header the node accepted (abstract id, zone      *)
(* parent, order, numbers per context, prime terminus, total entropy as    *)
(* the zone / the dominant chains account it and the recorded parent       *)
(* entropies - all entropies as dense ranks of the real 2^-64-bit values,  *)
(* order preserving -, every answer CalcOrder gave: warm, repeated, other  *)
(* cores, cold core on a database copy, plus the driver oracle's verdict   *)
(* on the numeric field rules) and one "deviate" event per re-sealed       *)
(* single-field deviation with the node's verdict.  Every event must be    *)
(* the Header action of that name; the structural part of the expected     *)
(* child (numbers, prime terminus) is recomputed here by the spec's own    *)
(* operators; the C09 invariants are evaluated on the implementation's     *)
(* values.                                                                 *)
(***************************************************************************)
EXTENDS Header

Trace == ndJsonDeserialize("hdrtrace.ndjson")

VARIABLES l,         \* next trace line
          mismatch   \* first event whose observation differs from the specified one

tvars == <<vars, l, mismatch>>

TraceInit == Init /\ l = 1 /\ mismatch = <<>>

Ev == Trace[l]
\* like Log, but only the last record is kept (a trace is long; every record was judged when it was the last one)
TLog(rec, o) == obs' = o /\ hist' = <<rec @@ [res |-> o]>> /\ step' = step + 1
Is(name) == l <= Len(Trace) /\ Ev.op = name

TraceReset ==
    /\ Is("tracereset")
    /\ blk' = <<Genesis>> /\ cache' = {} /\ step' = 0 /\ obs' = <<"init">> /\ hist' = <<>>
    /\ l' = l + 1
    /\ UNCHANGED <<sc, mismatch>>

\* what the spec derives structurally for a child of p with order o
ExpectedNumbers(p) == <<B(DomHead(p, P)).n[P] + 1, B(DomHead(p, R)).n[R] + 1, B(p).n[Z] + 1>>

TraceExtend ==
    /\ Is("extend")
    /\ Ev.b = Len(blk) /\ Ev.p \in Ids
    /\ LET p == Ev.p
           o == Ev.ord + 1                               \* the code counts contexts from 0
           h == [Genesis EXCEPT !.p = p, !.ord = o, !.n = <<Ev.n[1], Ev.n[2], Ev.n[3]>>, !.pt = Ev.pt, !.ptn = Ev.ptn,
                                !.e = Ev.e, !.ed = Ev.ed, !.pe = <<Ev.pe[1], Ev.pe[2], Ev.pe[3]>>, !.intr = 1]
           answers == {<<Len(blk), Ev.co[i] + 1>> : i \in DOMAIN Ev.co} \cup {<<Len(blk), Ev.cold[i] + 1>> : i \in DOMAIN Ev.cold}
       IN /\ blk' = Append(blk, h)
          /\ cache' = cache \cup answers
          /\ mismatch' = IF mismatch # <<>> THEN mismatch
                         ELSE IF ~Ev.acc THEN <<l, "honest-header-rejected", Ev.b>>
                         ELSE IF ~Ev.ok THEN <<l, "derived-field-differs-from-oracle", Ev.b>>
                         ELSE IF h.n # ExpectedNumbers(p) THEN <<l, "numbers", h.n, ExpectedNumbers(p)>>
                         ELSE IF h.pt # PtOf(p) THEN <<l, "prime-terminus", h.pt, PtOf(p)>>
                         ELSE IF h.ptn # PtnOf(p) THEN <<l, "prime-terminus-number", h.ptn, PtnOf(p)>>
                         ELSE <<>>
          /\ TLog([op |-> "extend", p |-> p, b |-> Len(blk), x |-> 0, dt |-> Ev.dt, f |-> "", ctx |-> o], <<"accept", o, h.n>>)
    /\ l' = l + 1
    /\ UNCHANGED sc

\* all re-sealed single-field deviations of one child of p, each with the verdict of VerifyHeader at the rule's context
TraceDeviate ==
    /\ Is("deviate")
    /\ Ev.p \in Ids
    /\ LET bad == {i \in DOMAIN Ev.devs : Ev.devs[i].res # "reject"} IN
       /\ mismatch' = IF mismatch = <<>> /\ bad # {}
                      THEN <<l, "deviation-accepted", Ev.devs[CHOOSE i \in bad : TRUE].f, Ev.p>> ELSE mismatch
       /\ TLog([op |-> "deviate", p |-> Ev.p, b |-> 0 - 1, x |-> 0, dt |-> "", f |-> "", ctx |-> 0],
               <<IF bad = {} THEN "reject" ELSE "accept", Len(Ev.devs)>>)
    /\ l' = l + 1
    /\ UNCHANGED <<sc, blk, cache>>

TraceNext == TraceReset \/ TraceExtend \/ TraceDeviate
TraceSpec == TraceInit /\ [][TraceNext]_tvars

\* every observation equals the specified one (honest headers accepted and equal to the derivation; deviations rejected)
ObservationsConform == mismatch = <<>>

TraceAccepted == TLCGet("stats").diameter - 1 = Len(Trace)
=============================================================================
