SPECIFICATION Spec
CONSTANTS
  NAddr = 3
  NSlot = 2
  Vals <- V02
  Amts <- A01
  Genesis <- GenJ2
  HasLock <- NoLock3
  Ops <- OpsJ
  MaxMut = 3
  MaxSnap = 2
  MaxDepth = 2
  MaxTx = 0
  FrameAddr <- FrJ
  NewAddrs <- NoNew
  XferTo <- NoXfer
  Benef = 2
VIEW view
INVARIANTS TypeOK AccessListWellFormed AlwaysRevertible
PROPERTIES RevertRestores SiblingsUntouched
CHECK_DEADLOCK FALSE
