------------------------------ MODULE MCQiPool ------------------------------
(***************************************************************************)
(* Bounded universe for QiPool.tla.  The driver (harness/cmd/qipooldrv)    *)
(* receives these definitions as JSON (PrintDefs), builds real keys,       *)
(* outpoints, signed transactions and stub blocks from them.               *)
(* Denominations: 0 = 1 qit, 1 = 5, 2 = 10.                                *)
(***************************************************************************)
EXTENDS QiPool

O(d, to, id) == [den |-> d, to |-> to, id |-> id, zone |-> "local"]
OX(d, to, id) == [den |-> d, to |-> to, id |-> id, zone |-> "inactive"]
T(ins, keys, outs) == [ins |-> ins, keys |-> keys, outs |-> outs, chain |-> TRUE, sig |-> TRUE]

MCGen ==
    ("g1" :> [den |-> 2, owner |-> "k1", lock |-> 0]) @@
    ("g2" :> [den |-> 2, owner |-> "k2", lock |-> 0]) @@
    ("g3" :> [den |-> 1, owner |-> "k1", lock |-> 0]) @@
    ("g4" :> [den |-> 2, owner |-> "k2", lock |-> 2])

MCTxs ==
    ("t1"  :> T(<<"g1">>, <<"k1">>, <<O(1, "k3", "t1.0")>>)) @@                  \* fee 5
    ("t2"  :> T(<<"g1">>, <<"k1">>, <<O(0, "k3", "t2.0")>>)) @@                  \* fee 9, conflicts with t1
    ("t3"  :> T(<<"g1", "g1">>, <<"k1", "k1">>, <<O(2, "k3", "t3.0")>>)) @@      \* one outpoint named twice, fee 10
    ("t4"  :> T(<<"g4">>, <<"k2">>, <<O(1, "k3", "t4.0")>>)) @@                  \* input locked until height 2
    ("t5"  :> T(<<"g2">>, <<"k1">>, <<O(1, "k3", "t5.0")>>)) @@                  \* wrong owner
    ("t6"  :> T(<<"g2", "g3">>, <<"k2", "k1">>, <<O(2, "k3", "t6.0")>>)) @@      \* two owners (MuSig2), fee 5
    ("t7"  :> T(<<"g3">>, <<"k1">>, <<O(1, "k3", "t7.0")>>)) @@                  \* fee 0: below the minimum
    ("t8"  :> T(<<"g3">>, <<"k1">>, <<O(2, "k3", "t8.0")>>)) @@                  \* outputs > inputs
    ("t9"  :> T(<<"t1.0">>, <<"k3">>, <<O(0, "k1", "t9.0")>>)) @@                \* spends an output of t1, fee 4
    ("t10" :> [T(<<"g1">>, <<"k1">>, <<O(1, "k2", "t10.0")>>) EXCEPT !.chain = FALSE]) @@
    ("t11" :> [T(<<"g2">>, <<"k2">>, <<O(1, "k3", "t11.0")>>) EXCEPT !.sig = FALSE]) @@
    ("t12" :> T(<<"g2">>, <<"k2">>, <<OX(1, "k3", "t12.0")>>)) @@                \* output to an inactive zone (refused at once), otherwise valid; conflicts with t6
    ("t13" :> T(<<"g3">>, <<"k1">>, <<O(0, "k1", "t13.0")>>))                    \* output to the address of its own input

\* the transactions that take part in blocks, conflicts with them and re-injection (deeper behaviours on fewer transactions)
MCTxsReorg == [t \in {"t1", "t2", "t4", "t6", "t9", "t12"} |-> MCTxs[t]]

B(p, body) == [parent |-> p, body |-> body]
MCBlocks ==
    ("b0" :> B("none", <<>>)) @@
    ("b1" :> B("b0", <<"t1">>)) @@
    ("b2" :> B("b1", <<"t6">>)) @@
    ("c1" :> B("b0", <<"t2">>)) @@
    ("c2" :> B("c1", <<"t4">>))

\* the definitions, for the driver
PrintDefs == PrintT("@@" \o ToJson([defs |-> [txs |-> MCTxs, gen |-> MCGen, blocks |-> MCBlocks, cap |-> Cap, minfee |-> MinFee]]))
ASSUME PrintDefs
ASSUME ConstantsOK
=============================================================================
