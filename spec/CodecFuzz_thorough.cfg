SPECIFICATION Spec
CONSTANTS
  MaxDefects = 2
INVARIANTS TypeOK
CHECK_DEADLOCK FALSE
