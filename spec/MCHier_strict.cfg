SPECIFICATION Spec
CONSTANTS
  MaxBlocks = 4
  GenesisExempt = FALSE
VIEW view
INVARIANTS TerminiAreNearestCoincident ManifestsChainSegments AppendedDownwards RefLocal NoTwist
CHECK_DEADLOCK FALSE
