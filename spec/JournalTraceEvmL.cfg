SPECIFICATION TraceSpec
CONSTANTS
  NAddr = 14
  NSlot = 1
  Vals <- AnyVals
  Amts <- AnyAmts
  Genesis <- GenEL
  HasLock <- LockEL
  Ops <- AllOps
  MaxMut = 1000000
  MaxSnap = 1000000
  MaxDepth = 1000
  MaxTx = 1000000
  FrameAddr <- FrEL
  NewAddrs <- NewEL
  XferTo <- XferEL
  Benef = 9
INVARIANTS TypeOK AccessListWellFormed AlwaysRevertible
PROPERTIES RevertRestores SiblingsUntouched
POSTCONDITION TraceAccepted
CHECK_DEADLOCK FALSE
