# regenerates spec/MCEvmValue_*.cfg (the .cfg files are kept as static files; rerun after changing a universe): python3 spec/MCEvmValue_gencfg.py
INV = "TypeOK NoNegative NoCreation ExactUnlessBurn EtxBacked ChargeWithinBounds FailedTxTouchesOnlyPayer FailedEtxTouchesNothing AllOrNothing StackDiscipline IndexFresh BlockOutboundIsConcatOfSurvivors"
small = dict(EOAs="E2", Contracts="K2", InitBal="BalSmall22", InitWq="Wq22", InitLock="Lock22",
  LockVal="= 2", LowGas="= 1", GasUnit="= 1", MaxGasSteps="= 3", Prices="P12", IntrinsicGas="= 2", TxGas="= 2", Rent="= 1", MinConv="= 2",
  TxValues="V01", CallValues="V01", Regimes="RBG", Prefills="PF0", TxKinds="TKAll", OpKinds="OKNone",
  DestClasses="DAll", AmtClasses="AAll", GlClasses="GAll", FeeClasses="FAll", AlClasses="ALAll",
  FrameKinds="FKOld", CallTargets="AnyAcct", TxTargets="AnyAcct", Benefs="AnyAcct", WpOps="WPNone",
  MaxDepth="= 2", MaxFrameOps="= 1", MaxTx="= 1", UsedMode='= "all"', GrindFail="= TRUE")
real = dict(small, InitBal="BalReal22", InitWq="WqReal22", LockVal="= 1000000", LowGas="= 20000", GasUnit="= 700000", MaxGasSteps="= 2",
  Prices="P1", IntrinsicGas="= 21000", TxGas="= 21000", Rent="= 24914", MinConv="= 2000000", TxValues="RV01", CallValues="RV01",
  UsedMode='= "one"', GrindFail="= FALSE")
def cfg(name, base, over, emit=False, inv=INV):
    d = dict(base); d.update(over)
    lines = ["SPECIFICATION Spec", "CONSTANTS"]
    for k, v in d.items():
        lines.append("  %s %s" % (k, v if v.startswith("=") else "<- " + v))
    lines.append("VIEW view")
    lines.append("INVARIANTS " + inv)
    if emit:
        lines.append("ACTION_CONSTRAINT EmitHist")
    lines.append("CHECK_DEADLOCK FALSE")
    open("/verif/spec/" + name, "w").write("\n".join(lines) + "\n")

one1 = dict(EOAs="E1", Contracts="K1", InitBal="BalSmall11", InitWq="Wq11", InitLock="Lock11")
one1r = dict(EOAs="E1", Contracts="K1", InitBal="BalReal11", InitWq="WqReal11", InitLock="Lock11")
# ---- design level (small numbers)
cfg("MCEvmValue_frames_small.cfg", small, dict(MaxGasSteps="= 2", Prices="P1"))
cfg("MCEvmValue_frames_big.cfg", small, dict(MaxFrameOps="= 2", MaxGasSteps="= 2", Prices="P1", TxKinds="TKBasicIn"))
cfg("MCEvmValue_gas_small.cfg", small, dict(MaxGasSteps="= 5", Prices="P12", MaxDepth="= 1", MaxFrameOps="= 1", CallValues="V0", MaxTx="= 1", TxKinds="TKGas"))
cfg("MCEvmValue_ops_small.cfg", small, dict(one1, TxKinds="TKCallX", TxValues="V02", CallValues="V0", MaxGasSteps="= 2", Prices="P1", Regimes="RAll",
                                            Prefills="PFEdge", OpKinds="OKAll", MaxDepth="= 1", MaxFrameOps="= 1"))
# strict variants: TLC must find the counterexamples that became the named deviations
cfg("MCEvmValue_strict.cfg", small, dict(one1, TxKinds="TKCall", TxValues="V0", CallValues="V0", MaxGasSteps="= 2", Prices="P1", Regimes="RAll",
                                         Prefills="PFEdge", OpKinds="OKAll", MaxDepth="= 1", MaxFrameOps="= 1"), inv="AllOrNothingStrict")
cfg("MCEvmValue_strict_stack.cfg", small, dict(one1, TxKinds="TKCall", TxValues="V0", CallValues="V0", MaxGasSteps="= 2", Prices="P1", Regimes="RG",
                                         Prefills="PF0", OpKinds="OKEtx", MaxDepth="= 1", MaxFrameOps="= 1"), inv="StackDisciplineStrict")
# ---- conformance (real numbers): invariants checked AND every completed transaction emitted for replay
cfg("MCEvmValue_emit_frames_q.cfg", real, dict(EOAs="E1", Contracts="K2", InitBal="BalReal12", InitWq="WqReal12", InitLock="Lock12"), emit=True)
cfg("MCEvmValue_emit_frames.cfg", real, dict(), emit=True)
cfg("MCEvmValue_emit_ops.cfg", real, dict(one1r, TxKinds="TKCallX", TxValues="RV02", CallValues="RV0", Regimes="RAll", Prefills="PFEdge", OpKinds="OKAll",
                                          MaxDepth="= 1", MaxFrameOps="= 1"), emit=True)
cfg("MCEvmValue_emit_ops_big.cfg", real, dict(one1r, TxKinds="TKCall", TxValues="RV02", CallValues="RV0", Regimes="RBFG", Prefills="PF2", OpKinds="OKAll",
                                          MaxDepth="= 1", MaxFrameOps="= 2"), emit=True)
cfg("MCEvmValue_emit_f5.cfg", real, dict(one1r, TxKinds="TKCreate", TxValues="RV03", CallValues="RV0", Regimes="RG", OpKinds="OKEtx", DestClasses="DSome2",
                                         AmtClasses="ASome2", GlClasses="GOk", FeeClasses="FSome", AlClasses="ALSome", MaxDepth="= 1", MaxFrameOps="= 2"), emit=True)
cfg("MCEvmValue_emit_multi.cfg", real, dict(one1r, TxKinds="TKMulti", TxValues="RV03", CallValues="RV0",
                                            Regimes="RG", OpKinds="OKEtx", DestClasses="DSome2", AmtClasses="AMin", GlClasses="GOk", FeeClasses="FOne", AlClasses="ALSome",
                                            MaxDepth="= 1", MaxFrameOps="= 1", MaxTx="= 2"), emit=True)

# ---- frame kinds beyond CALL / CREATE: DELEGATECALL, CALLCODE, STATICCALL, CREATE2 (+ write protection), with an ETX / a lockup
# claim inside and every ending (STOP / REVERT / exceptional halt / SELFDESTRUCT / RETURN) of callee and caller
xsmall = dict(small, EOAs="E1", Contracts="K2", InitBal="BalSmall12", InitWq="Wq12", InitLock="Lock12", TxKinds="TKCall", TxValues="V01", CallValues="V01",
              MaxGasSteps="= 2", Prices="P1", Regimes="RG", OpKinds="OKEtxClaim", DestClasses="DElig", AmtClasses="AZeroMin", GlClasses="GOk",
              FeeClasses="FOne", AlClasses="ALGood", FrameKinds="FKAll", CallTargets="CTK2F", TxTargets="TTK1", Benefs="BFK1", WpOps="WPAll",
              MaxDepth="= 2", MaxFrameOps="= 1", GrindFail="= FALSE")
xreal = dict(real, EOAs="E1", Contracts="K2", InitBal="BalReal12", InitWq="WqReal12", InitLock="Lock12", TxKinds="TKCall", Regimes="RG",
             OpKinds="OKEtxClaim", DestClasses="DElig", AmtClasses="AZeroMin", GlClasses="GOk", FeeClasses="FOne", AlClasses="ALGood",
             FrameKinds="FKAll", CallTargets="CTK2F", TxTargets="TTK1", Benefs="BFK1", WpOps="WPAll", MaxDepth="= 2", MaxFrameOps="= 1")
cfg("MCEvmValue_xframes_small.cfg", xsmall, dict())
cfg("MCEvmValue_xframes_big.cfg", xsmall, dict(MaxDepth="= 3", CallTargets="CTK", WpOps="WPSome", AmtClasses="AZero"))
cfg("MCEvmValue_emit_xframes.cfg", xreal, dict(), emit=True)
# thorough: three frames deep (delegate inside call inside static ...), two operations per frame at depth 2
cfg("MCEvmValue_emit_xframes3.cfg", xreal, dict(MaxDepth="= 3", CallTargets="CTK", WpOps="WPSome", AmtClasses="AZero", TxValues="RV0"), emit=True)
cfg("MCEvmValue_emit_xframes_ops2.cfg", xreal, dict(MaxFrameOps="= 2", FrameKinds="FKNew", CallTargets="CTK2F", WpOps="WPSome", AmtClasses="AZero",
                                                    TxValues="RV0", CallValues="RV0", OpKinds="OKEtx"), emit=True)
# ---- the same coinbase lockup claimed twice: in one transaction and in two transactions of one block (one block batch)
cfg("MCEvmValue_emit_claim.cfg", real, dict(one1r, TxKinds="TKCall", TxValues="RV0", CallValues="RV0", Regimes="RBG", OpKinds="OKClaim", DestClasses="DElig",
                                            AmtClasses="AZero", GlClasses="GOk", FeeClasses="FOne", AlClasses="ALGood", FrameKinds="FKCallOnly",
                                            CallTargets="TTK1", TxTargets="TTK1", Benefs="BFK1F", MaxDepth="= 2", MaxFrameOps="= 2", MaxTx="= 2"), emit=True)

# ---- value-bearing calls to a precompiled contract (bn256ScalarMul) that succeed / fail by input / fail by gas: top-level and from frames
cfg("MCEvmValue_emit_precompile.cfg", real, dict(one1r, TxKinds="TKPre", TxValues="RV01", CallValues="RV01", Regimes="RG", OpKinds="OKNone", FrameKinds="FKPre",
                                                 CallTargets="TTK1", TxTargets="TTK1P", Benefs="BFK1", MaxDepth="= 2", MaxFrameOps="= 2"), emit=True)
