SPECIFICATION Spec
CONSTANTS
  Orders = {0, 1, 2}
  MaxCrashes = 2
  DomCommitsFirst = FALSE
VIEW view
INVARIANTS TypeOK Recoverable NoDomAheadOfSub HeadIsAppended
CHECK_DEADLOCK FALSE
