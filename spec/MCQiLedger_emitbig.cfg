SPECIFICATION Spec
CONSTANTS
  Genesis <- G
  Txs <- T
  DenomValue <- DV
  RYW = TRUE
  BaseFeeOn = FALSE
  MaxTxPerBlock = 4
  MaxBlocks = 3
VIEW view
ACTION_CONSTRAINT EmitHist
CHECK_DEADLOCK FALSE
