SPECIFICATION Spec
CONSTANTS
  PushSizes <- PS
  MaxOps = 5
VIEW view
INVARIANTS Fifo NothingLost
ACTION_CONSTRAINT EmitHist
CHECK_DEADLOCK FALSE
