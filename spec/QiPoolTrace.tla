---------------------------- MODULE QiPoolTrace ----------------------------
(***************************************************************************)
(* Trace validation for QiPool.tla.  harness/cmd/qipooldrv logs, per       *)
(* universe (definitions: qipooldefs.json), one event per critical section *)
(* of the real pool's Qi side with the pool's Qi content observed under    *)
(* pool.mu (verif snapshot accessor), in the order of the pool's own       *)
(* linearisation (hook sequence numbers):                                  *)
(*   add      one AddRemotes / AddLocals call (1..n Qi transactions)       *)
(*   remove   RemoveQiTxs of one hash                                      *)
(*   sethead  the chain switched its head (database + CurrentBlock)        *)
(*   feesync  what qiTxFees holds (feesGoroutine is asynchronous)          *)
(*   reset    a reset run of the pool (k head events merged)               *)
(*   asyncremove  a transaction left the pool on the worker's request       *)
(*   select   the Qi transactions the REAL worker put into the pending     *)
(*            block it assembled from this pool (mininet runs)             *)
(*   resync   the quiescent state after an untraced concurrent phase       *)
(* A trace file may hold several universes with disjoint identifiers (one  *)
(* block tree each); "tracereset" starts a fresh pool at the genesis block *)
(* it names.                                                               *)
(* Every event must be the QiPool action of that name; the observed        *)
(* result and pool content must be the specified ones (mismatch), and the  *)
(* invariants are evaluated on the IMPLEMENTATION's states (impl).         *)
(***************************************************************************)
EXTENDS QiPool

Trace == ndJsonDeserialize("qipooltrace.ndjson")
Defs == JsonDeserialize("qipooldefs.json").defs     \* a file of its own: TLC re-reads it whenever a constant is evaluated
TraceTxs == Defs.txs
TraceGen == Defs.gen
TraceBlocks == Defs.blocks
TraceCap == Defs.cap
TraceMinFee == Defs.minfee

ASSUME ConstantsOK

VARIABLES l,         \* next trace line
          mismatch,  \* first event whose observation differs from the specified one
          impl       \* the implementation's logged state: [pool, cache]

tvars == <<vars, l, mismatch, impl>>

Impl0 == [pool |-> <<>>, cache |-> {}]
TraceInit == Init /\ l = 1 /\ mismatch = <<>> /\ impl = Impl0

Ev == Trace[l]
Is(name) == l <= Len(Trace) /\ Ev.op = name

ImplPool(st)  == [i \in 1..Len(st.pool) |-> [tx |-> st.pool[i], fee |-> st.fees[i]]]
ImplCache(st) == {<<st.cache[i], st.cfees[i]>> : i \in 1..Len(st.cache)}
CachedTxs(c)  == {x[1] : x \in c}
InFlight(q)   == {q[i][1] : i \in 1..Len(q)}

Note(field, exp, got) == IF mismatch = <<>> THEN <<l, Ev.op, field, exp, got>> ELSE mismatch

\* the part of the logged state every event is compared on: qiPool (order, fees), head; the fee cache must be
\* explainable (nothing lost, nothing from nowhere) - its exact content is fixed by the feesync lines
Differs(st) ==
    IF [i \in 1..Len(pool') |-> pool'[i].tx] # st.pool THEN <<"qiPool", [i \in 1..Len(pool') |-> pool'[i].tx], st.pool>>
    ELSE IF [i \in 1..Len(pool') |-> pool'[i].fee] # st.fees THEN <<"fees", [i \in 1..Len(pool') |-> pool'[i].fee], st.fees>>
    ELSE IF chainHead' # st.head THEN <<"head", chainHead', st.head>>
    ELSE IF ~(CachedTxs(feeCache') \subseteq ToSet(st.cache)) THEN <<"feeCache-lost", CachedTxs(feeCache'), st.cache>>
    ELSE IF ~(ToSet(st.cache) \subseteq CachedTxs(feeCache') \cup InFlight(feeQ')) THEN <<"feeCache-unexplained", CachedTxs(feeCache') \cup InFlight(feeQ'), st.cache>>
    ELSE <<>>

Step(A, checkRes) ==
    /\ A
    /\ l' = l + 1
    /\ impl' = [pool |-> ImplPool(Ev.st), cache |-> ImplCache(Ev.st)]
    /\ mismatch' = IF checkRes /\ obs' # Ev.res THEN Note("result", obs', Ev.res)
                   ELSE IF Differs(Ev.st) # <<>> THEN Note(Differs(Ev.st)[1], Differs(Ev.st)[2], Differs(Ev.st)[3])
                   ELSE mismatch

TraceReset ==
    /\ Is("tracereset")
    /\ chainHead' = Ev.g /\ evHead' = Ev.g /\ evq' = <<>> /\ resetReq' = <<>>
    /\ pool' = <<>> /\ feeCache' = {} /\ feeQ' = <<>> /\ everValid' = {} /\ pendingRm' = {}
    /\ lastSel' = [head |-> Ev.g, sel |-> <<>>]
    /\ nheads' = 0 /\ step' = 0 /\ obs' = "init" /\ hist' = <<>>
    /\ l' = l + 1 /\ impl' = Impl0 /\ UNCHANGED mismatch

\* the chain has a new head: besides the head event for the pool, the node's worker builds a pending block on it at
\* once and asks for the removal of what it cannot include there (served at any later time)
TrSetHead ==
    /\ Is("sethead")
    /\ step < MaxOps
    /\ chainHead' = Ev.b /\ evq' = Append(evq, Ev.b) /\ nheads' = nheads + 1
    /\ pendingRm' = pendingRm \cup RemovalRequests(pool, Ev.b)
    /\ UNCHANGED <<evHead, resetReq, pool, feeCache, feeQ, everValid, lastSel>>
    /\ Log([op |-> "sethead", b |-> Ev.b], "ok")
    /\ l' = l + 1
    /\ impl' = [pool |-> ImplPool(Ev.st), cache |-> ImplCache(Ev.st)]
    /\ mismatch' = IF Differs(Ev.st) # <<>> THEN Note(Differs(Ev.st)[1], Differs(Ev.st)[2], Differs(Ev.st)[3]) ELSE mismatch

\* feesGoroutine moved the fees of the logged transactions from feesCh into qiTxFees
TrFeeSync ==
    /\ Is("feesync")
    /\ LET want  == ToSet(Ev.cache)
           moved == {x \in ToSet(feeQ) : x[1] \in want /\ ~IsCached(feeCache, x[1])}
       IN /\ feeCache' = feeCache \cup moved
          /\ feeQ' = SelectSeq(feeQ, LAMBDA x : x[1] \notin want)
          /\ mismatch' = IF CachedTxs(feeCache \cup moved) # want
                         THEN Note("feeCache", CachedTxs(feeCache \cup moved), Ev.cache)
                         ELSE IF Ev.full /\ SelectSeq(feeQ, LAMBDA x : x[1] \notin want) # <<>>
                         THEN Note("feeCache-quiescent", <<>>, SelectSeq(feeQ, LAMBDA x : x[1] \notin want))
                         ELSE mismatch
    /\ l' = l + 1
    /\ impl' = [impl EXCEPT !.cache = {<<Ev.cache[i], Ev.cfees[i]>> : i \in 1..Len(Ev.cache)}]
    /\ UNCHANGED <<chainHead, evHead, evq, resetReq, pool, everValid, pendingRm, lastSel, nheads, step, obs, hist>>

\* the request the pool served must be the one the specification derives (old head of the first merged event, new
\* head of the last): folded into the mismatch variable
TrResetChecked ==
    /\ Is("reset")
    /\ Reset(Ev.k)
    /\ l' = l + 1
    /\ impl' = [pool |-> ImplPool(Ev.st), cache |-> ImplCache(Ev.st)]
    /\ LET r == hist'[Len(hist')] IN
       mismatch' = IF r.old # Ev.old \/ r.new # Ev.new THEN Note("reset-request", <<r.old, r.new>>, <<Ev.old, Ev.new>>)
                   ELSE IF Differs(Ev.st) # <<>> THEN Note(Differs(Ev.st)[1], Differs(Ev.st)[2], Differs(Ev.st)[3])
                   ELSE mismatch

\* the real worker's selection must be the greedy pass of the specification over SOME admissible order; the
\* implementation's selection (not the specified one) becomes lastSel: AssembledBlockNeverDoubleSpends judges it
TrSelect ==
    /\ Is("select")
    /\ pendingRm' = pendingRm \cup RemovalRequests(pool, chainHead)
    /\ mismatch' = IF [i \in 1..Len(pool) |-> pool[i].tx] # Ev.st.pool
                   THEN Note("qiPool", [i \in 1..Len(pool) |-> pool[i].tx], Ev.st.pool)
                   ELSE IF ~SelectionPossible(pool, chainHead, Ev.sel) THEN Note("selection", "no admissible order yields it", Ev.sel)
                   ELSE mismatch
    /\ lastSel' = [head |-> chainHead, sel |-> Ev.sel]
    /\ l' = l + 1
    /\ impl' = [pool |-> ImplPool(Ev.st), cache |-> ImplCache(Ev.st)]
    /\ obs' = "ok" /\ step' = step + 1 /\ hist' = hist
    /\ UNCHANGED <<chainHead, evHead, evq, resetReq, pool, feeCache, feeQ, everValid, nheads>>

\* a removal nobody asked the pool for through its interface: invalidQiTxGoroutine serving the worker's
\* AsyncRemoveQiTxs.  The worker only asks for transactions it cannot include at the head even alone.
TrAsyncRemove ==
    /\ Is("asyncremove")
    /\ RemoveQi(Ev.tx)
    /\ l' = l + 1
    /\ impl' = [pool |-> ImplPool(Ev.st), cache |-> ImplCache(Ev.st)]
    /\ LET alone == WorkerVerdict(Ev.tx, LiveAt(chainHead), Num(chainHead) + 1, {})[1] IN
       mismatch' = IF alone \in {"ok", "double"} /\ Ev.tx \notin pendingRm
                   THEN Note("removal-of-includable-transaction", alone, Ev.tx)
                   ELSE IF Differs(Ev.st) # <<>> THEN Note(Differs(Ev.st)[1], Differs(Ev.st)[2], Differs(Ev.st)[3])
                   ELSE mismatch

\* transactions of the universe that are valid at some block: what an untraced phase can have admitted
ValidSomewhere == {t \in TxIds : \E b \in Blocks : Admit(t, LiveAt(b), Num(b)) = "ok"}

TrResync ==
    /\ Is("resync")
    /\ pool' = ImplPool(Ev.st) /\ feeCache' = ImplCache(Ev.st) /\ feeQ' = <<>>
    /\ chainHead' = Ev.st.head /\ evHead' = Ev.st.head /\ evq' = <<>> /\ resetReq' = <<>>
    \* what was admitted (or had its fee cached) without being traced passed the validation at some block
    /\ everValid' = everValid \cup ((PoolTxs(ImplPool(Ev.st)) \cup CachedTxs(ImplCache(Ev.st))) \cap ValidSomewhere)
    /\ pendingRm' = {} /\ lastSel' = [head |-> Ev.st.head, sel |-> <<>>]
    /\ l' = l + 1 /\ impl' = [pool |-> ImplPool(Ev.st), cache |-> ImplCache(Ev.st)]
    /\ obs' = "ok" /\ step' = step + 1 /\ hist' = hist
    /\ UNCHANGED <<nheads, mismatch>>

TraceNext ==
    \/ TraceReset
    \/ Is("add")     /\ Step(AddCall(Ev.txs), TRUE)
    \/ Is("remove")  /\ Step(RemoveQi(Ev.tx), TRUE)
    \/ TrSetHead
    \/ TrFeeSync
    \/ TrResetChecked
    \/ TrSelect
    \/ TrAsyncRemove
    \/ TrResync

TraceSpec == TraceInit /\ [][TraceNext]_tvars

\* conformance: every observation is the specified one
Conform == mismatch = <<>>
\* (a panic of a pool call is recovered and logged by the driver as the answer "panic": the specification never gives
\* that answer, so it is a mismatch here, and the driver reports the panic itself)

\* the properties, on the implementation's logged states
ImplIndexesAgree == IndexesAgreeOn(impl.pool, impl.cache)
ImplSizeLimit == SizeLimitOn(impl.pool)
ImplFeeIsInputsMinusOutputs == FeeIsInputsMinusOutputsOn(impl.pool, impl.cache)
ImplPoolTxsOnceValid == PoolTxsOnceValidOn(impl.pool)
ImplAssembledBlockNeverDoubleSpends == SelectionValid(lastSel.sel, lastSel.head)

TraceAccepted == TLCGet("stats").diameter - 1 = Len(Trace)
=============================================================================
