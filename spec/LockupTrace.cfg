SPECIFICATION TraceSpec
CONSTANTS
  Miners <- TMiners
  QiMiners <- TQi
  NewAccounts <- TNew
  Contracts <- TContracts
  NoCode <- TNoCode
  Depth <- TDepth
  Mult <- TMult
  BonusStart = 0
  Epoch = 4
  InclDepth = 3
  MaxBlocks = 100000
  MaxHeight = 100000
  BaseReward = 1
  Fee = 0
  WorkShares <- TWorkShares
  WSMiner <- TWSMiner
  WSNumber <- TWSNumber
  WSWeight <- TWSWeight
  WSByte <- TWSByte
  CheckAmounts = FALSE
  DeepForks = FALSE
  Profiles = {}
CONSTRAINT Collect
POSTCONDITION TraceAccepted
CHECK_DEADLOCK FALSE
