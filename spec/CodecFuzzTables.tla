------------------------- MODULE CodecFuzzTables -------------------------
(* GENERATED from `fuzzdrv fuzztables` by tools/props/C15_tables.py -- do not edit by hand.        *)
(* Input carriers of the node (one per production channel), the protobuf message types reachable  *)
(* inside a valid carrier, and the fields of every message type (from the generated descriptors). *)
Carriers == {"gossip-block", "gossip-header", "gossip-share", "gossip-share-scrypt", "gossip-share-btc", "gossip-block-consistent", "gossip-header-consistent", "gossip-share-consistent", "gossip-auxtemplate", "p2p-request", "p2p-response-block", "p2p-response-blocks", "p2p-response-header", "p2p-response-hash", "rpc-rawtx-quai", "rpc-rawtx-qi", "rpc-rawtx-ext", "rpc-minedheader", "rpc-rawworkshare", "rpc-subworkshare", "db-woheader", "db-wobody", "db-receipts", "db-pendingetxs", "db-pendingetxsrollup", "db-termini", "db-utxo", "db-inboundetxs", "db-manifest", "proto-header", "proto-auxpow"}

MsgsOf(k) ==
    CASE k = "gossip-block" -> {"block.ProtoAccessList", "block.ProtoAccessTuple", "block.ProtoAuxPow", "block.ProtoHeader", "block.ProtoManifest", "block.ProtoPowShareDiffAndCount", "block.ProtoTransaction", "block.ProtoTransactions", "block.ProtoWorkObject", "block.ProtoWorkObjectBlockView", "block.ProtoWorkObjectBody", "block.ProtoWorkObjectHeader", "block.ProtoWorkObjectHeaders", "common.ProtoAddress", "common.ProtoHash", "common.ProtoHashes", "common.ProtoLocation"}
      [] k = "gossip-header" -> {"block.ProtoAccessList", "block.ProtoAccessTuple", "block.ProtoAuxPow", "block.ProtoHeader", "block.ProtoManifest", "block.ProtoPowShareDiffAndCount", "block.ProtoTransaction", "block.ProtoTransactions", "block.ProtoWorkObject", "block.ProtoWorkObjectBody", "block.ProtoWorkObjectHeader", "block.ProtoWorkObjectHeaderView", "block.ProtoWorkObjectHeaders", "common.ProtoAddress", "common.ProtoHash", "common.ProtoHashes", "common.ProtoLocation"}
      [] k = "gossip-share" -> {"block.ProtoAccessList", "block.ProtoAccessTuple", "block.ProtoAuxPow", "block.ProtoHeader", "block.ProtoPowShareDiffAndCount", "block.ProtoTransaction", "block.ProtoTransactions", "block.ProtoWorkObject", "block.ProtoWorkObjectBody", "block.ProtoWorkObjectHeader", "block.ProtoWorkObjectShareView", "common.ProtoAddress", "common.ProtoHash", "common.ProtoLocation"}
      [] k = "gossip-share-scrypt" -> {"block.ProtoAccessList", "block.ProtoAccessTuple", "block.ProtoAuxPow", "block.ProtoHeader", "block.ProtoPowShareDiffAndCount", "block.ProtoTransaction", "block.ProtoTransactions", "block.ProtoWorkObject", "block.ProtoWorkObjectBody", "block.ProtoWorkObjectHeader", "block.ProtoWorkObjectShareView", "common.ProtoAddress", "common.ProtoHash", "common.ProtoLocation"}
      [] k = "gossip-share-btc" -> {"block.ProtoAccessList", "block.ProtoAccessTuple", "block.ProtoAuxPow", "block.ProtoHeader", "block.ProtoPowShareDiffAndCount", "block.ProtoTransaction", "block.ProtoTransactions", "block.ProtoWorkObject", "block.ProtoWorkObjectBody", "block.ProtoWorkObjectHeader", "block.ProtoWorkObjectShareView", "common.ProtoAddress", "common.ProtoHash", "common.ProtoLocation"}
      [] k = "gossip-block-consistent" -> {"block.ProtoAccessList", "block.ProtoAccessTuple", "block.ProtoAuxPow", "block.ProtoHeader", "block.ProtoManifest", "block.ProtoPowShareDiffAndCount", "block.ProtoTransaction", "block.ProtoTransactions", "block.ProtoWorkObject", "block.ProtoWorkObjectBlockView", "block.ProtoWorkObjectBody", "block.ProtoWorkObjectHeader", "block.ProtoWorkObjectHeaders", "common.ProtoAddress", "common.ProtoHash", "common.ProtoHashes", "common.ProtoLocation"}
      [] k = "gossip-header-consistent" -> {"block.ProtoAccessList", "block.ProtoAccessTuple", "block.ProtoAuxPow", "block.ProtoHeader", "block.ProtoManifest", "block.ProtoPowShareDiffAndCount", "block.ProtoTransaction", "block.ProtoTransactions", "block.ProtoWorkObject", "block.ProtoWorkObjectBody", "block.ProtoWorkObjectHeader", "block.ProtoWorkObjectHeaderView", "block.ProtoWorkObjectHeaders", "common.ProtoAddress", "common.ProtoHash", "common.ProtoHashes", "common.ProtoLocation"}
      [] k = "gossip-share-consistent" -> {"block.ProtoAccessList", "block.ProtoAccessTuple", "block.ProtoAuxPow", "block.ProtoHeader", "block.ProtoPowShareDiffAndCount", "block.ProtoTransaction", "block.ProtoTransactions", "block.ProtoWorkObject", "block.ProtoWorkObjectBody", "block.ProtoWorkObjectHeader", "block.ProtoWorkObjectShareView", "common.ProtoAddress", "common.ProtoHash", "common.ProtoLocation"}
      [] k = "gossip-auxtemplate" -> {"block.ProtoAuxTemplate"}
      [] k = "p2p-request" -> {"block.ProtoWorkObjectBlockView", "common.ProtoHash", "common.ProtoLocation", "quaiprotocol.QuaiMessage", "quaiprotocol.QuaiRequestMessage"}
      [] k = "p2p-response-block" -> {"block.ProtoAccessList", "block.ProtoAccessTuple", "block.ProtoAuxPow", "block.ProtoHeader", "block.ProtoManifest", "block.ProtoPowShareDiffAndCount", "block.ProtoTransaction", "block.ProtoTransactions", "block.ProtoWorkObject", "block.ProtoWorkObjectBlockView", "block.ProtoWorkObjectBody", "block.ProtoWorkObjectHeader", "block.ProtoWorkObjectHeaders", "common.ProtoAddress", "common.ProtoHash", "common.ProtoHashes", "common.ProtoLocation", "quaiprotocol.QuaiMessage", "quaiprotocol.QuaiResponseMessage"}
      [] k = "p2p-response-blocks" -> {"block.ProtoAccessList", "block.ProtoAccessTuple", "block.ProtoAuxPow", "block.ProtoHeader", "block.ProtoManifest", "block.ProtoPowShareDiffAndCount", "block.ProtoTransaction", "block.ProtoTransactions", "block.ProtoWorkObject", "block.ProtoWorkObjectBlockView", "block.ProtoWorkObjectBlocksView", "block.ProtoWorkObjectBody", "block.ProtoWorkObjectHeader", "block.ProtoWorkObjectHeaders", "common.ProtoAddress", "common.ProtoHash", "common.ProtoHashes", "common.ProtoLocation", "quaiprotocol.QuaiMessage", "quaiprotocol.QuaiResponseMessage"}
      [] k = "p2p-response-header" -> {"block.ProtoAccessList", "block.ProtoAccessTuple", "block.ProtoAuxPow", "block.ProtoHeader", "block.ProtoManifest", "block.ProtoPowShareDiffAndCount", "block.ProtoTransaction", "block.ProtoTransactions", "block.ProtoWorkObject", "block.ProtoWorkObjectBody", "block.ProtoWorkObjectHeader", "block.ProtoWorkObjectHeaderView", "block.ProtoWorkObjectHeaders", "common.ProtoAddress", "common.ProtoHash", "common.ProtoHashes", "common.ProtoLocation", "quaiprotocol.QuaiMessage", "quaiprotocol.QuaiResponseMessage"}
      [] k = "p2p-response-hash" -> {"common.ProtoHash", "common.ProtoLocation", "quaiprotocol.QuaiMessage", "quaiprotocol.QuaiResponseMessage"}
      [] k = "rpc-rawtx-quai" -> {"block.ProtoAccessList", "block.ProtoAccessTuple", "block.ProtoTransaction", "common.ProtoHash"}
      [] k = "rpc-rawtx-qi" -> {"block.ProtoOutPoint", "block.ProtoTransaction", "block.ProtoTxIn", "block.ProtoTxIns", "block.ProtoTxOut", "block.ProtoTxOuts", "common.ProtoHash"}
      [] k = "rpc-rawtx-ext" -> {"block.ProtoAccessList", "block.ProtoAccessTuple", "block.ProtoTransaction", "common.ProtoHash"}
      [] k = "rpc-minedheader" -> {"block.ProtoAuxPow", "block.ProtoHeader", "block.ProtoPowShareDiffAndCount", "block.ProtoWorkObject", "block.ProtoWorkObjectBody", "block.ProtoWorkObjectHeader", "common.ProtoAddress", "common.ProtoHash", "common.ProtoLocation"}
      [] k = "rpc-rawworkshare" -> {"block.ProtoAuxPow", "block.ProtoPowShareDiffAndCount", "block.ProtoWorkObjectHeader", "common.ProtoAddress", "common.ProtoHash", "common.ProtoLocation"}
      [] k = "rpc-subworkshare" -> {"block.ProtoAccessList", "block.ProtoAccessTuple", "block.ProtoAuxPow", "block.ProtoHeader", "block.ProtoPowShareDiffAndCount", "block.ProtoTransaction", "block.ProtoTransactions", "block.ProtoWorkObject", "block.ProtoWorkObjectBody", "block.ProtoWorkObjectHeader", "common.ProtoAddress", "common.ProtoHash", "common.ProtoLocation"}
      [] k = "db-woheader" -> {"block.ProtoAuxPow", "block.ProtoPowShareDiffAndCount", "block.ProtoWorkObjectHeader", "common.ProtoAddress", "common.ProtoHash", "common.ProtoLocation"}
      [] k = "db-wobody" -> {"block.ProtoAccessList", "block.ProtoAccessTuple", "block.ProtoAuxPow", "block.ProtoHeader", "block.ProtoManifest", "block.ProtoPowShareDiffAndCount", "block.ProtoTransaction", "block.ProtoTransactions", "block.ProtoWorkObjectBody", "block.ProtoWorkObjectHeader", "block.ProtoWorkObjectHeaders", "common.ProtoAddress", "common.ProtoHash", "common.ProtoHashes", "common.ProtoLocation"}
      [] k = "db-receipts" -> {"block.ProtoAccessList", "block.ProtoAccessTuple", "block.ProtoLogForStorage", "block.ProtoLogsForStorage", "block.ProtoReceiptForStorage", "block.ProtoReceiptsForStorage", "block.ProtoTransaction", "block.ProtoTransactions", "common.ProtoAddress", "common.ProtoHash"}
      [] k = "db-pendingetxs" -> {"block.ProtoAccessList", "block.ProtoAccessTuple", "block.ProtoAuxPow", "block.ProtoHeader", "block.ProtoPendingEtxs", "block.ProtoPowShareDiffAndCount", "block.ProtoTransaction", "block.ProtoTransactions", "block.ProtoWorkObject", "block.ProtoWorkObjectBody", "block.ProtoWorkObjectHeader", "common.ProtoAddress", "common.ProtoHash", "common.ProtoLocation"}
      [] k = "db-pendingetxsrollup" -> {"block.ProtoAccessList", "block.ProtoAccessTuple", "block.ProtoAuxPow", "block.ProtoHeader", "block.ProtoPendingEtxsRollup", "block.ProtoPowShareDiffAndCount", "block.ProtoTransaction", "block.ProtoTransactions", "block.ProtoWorkObject", "block.ProtoWorkObjectBody", "block.ProtoWorkObjectHeader", "common.ProtoAddress", "common.ProtoHash", "common.ProtoLocation"}
      [] k = "db-termini" -> {"block.ProtoTermini", "common.ProtoHash"}
      [] k = "db-utxo" -> {"block.ProtoTxOut"}
      [] k = "db-inboundetxs" -> {"block.ProtoAccessList", "block.ProtoAccessTuple", "block.ProtoTransaction", "block.ProtoTransactions", "common.ProtoHash"}
      [] k = "db-manifest" -> {"block.ProtoManifest", "common.ProtoHash"}
      [] k = "proto-header" -> {"block.ProtoHeader", "common.ProtoHash"}
      [] k = "proto-auxpow" -> {"block.ProtoAuxPow"}

FieldsOfMsg(m) ==
    CASE m = "block.ProtoAccessList" -> {"access_tuples"}
      [] m = "block.ProtoAccessTuple" -> {"address", "storage_key"}
      [] m = "block.ProtoAuxPow" -> {"chain_id", "header", "signature", "merkle_branch", "transaction", "signature_time", "auxpow2"}
      [] m = "block.ProtoAuxTemplate" -> {"chain_id", "prev_hash", "version", "bits", "signature_time", "height", "coinbase_out", "merkle_branch", "sigs", "aux_pow2"}
      [] m = "block.ProtoHeader" -> {"parent_hash", "uncle_hash", "evm_root", "tx_hash", "outbound_etx_hash", "etx_rollup_hash", "manifest_hash", "receipt_hash", "difficulty", "parent_entropy", "parent_delta_entropy", "parent_uncled_delta_entropy", "uncled_entropy", "number", "gas_limit", "gas_used", "base_fee", "location", "extra", "mix_hash", "nonce", "utxo_root", "etx_set_root", "efficiency_score", "threshold_count", "expansion_number", "etx_eligible_slices", "prime_terminus_hash", "interlink_root_hash", "state_limit", "state_used", "quai_state_size", "exchange_rate", "avg_tx_fees", "total_fees", "k_quai_discount", "conversion_flow_amount", "miner_difficulty", "prime_state_root", "region_state_root"}
      [] m = "block.ProtoLogForStorage" -> {"address", "topics", "data"}
      [] m = "block.ProtoLogsForStorage" -> {"logs"}
      [] m = "block.ProtoManifest" -> {"manifest"}
      [] m = "block.ProtoOutPoint" -> {"hash", "index"}
      [] m = "block.ProtoPendingEtxs" -> {"header", "outbound_etxs"}
      [] m = "block.ProtoPendingEtxsRollup" -> {"header", "etxs_rollup"}
      [] m = "block.ProtoPowShareDiffAndCount" -> {"difficulty", "count", "uncled"}
      [] m = "block.ProtoReceiptForStorage" -> {"post_state_or_status", "cumulative_gas_used", "logs", "tx_hash", "contract_address", "gas_used", "outbound_etxs"}
      [] m = "block.ProtoReceiptsForStorage" -> {"receipts"}
      [] m = "block.ProtoTermini" -> {"dom_termini", "sub_termini"}
      [] m = "block.ProtoTransaction" -> {"type", "to", "nonce", "value", "gas", "data", "chain_id", "gas_price", "access_list", "v", "r", "s", "originating_tx_hash", "etx_index", "tx_ins", "tx_outs", "signature", "etx_sender", "parent_hash", "mix_hash", "work_nonce", "etx_type"}
      [] m = "block.ProtoTransactions" -> {"transactions"}
      [] m = "block.ProtoTxIn" -> {"previous_out_point", "pub_key"}
      [] m = "block.ProtoTxIns" -> {"tx_ins"}
      [] m = "block.ProtoTxOut" -> {"denomination", "address", "lock"}
      [] m = "block.ProtoTxOuts" -> {"tx_outs"}
      [] m = "block.ProtoWorkObject" -> {"wo_header", "wo_body", "tx"}
      [] m = "block.ProtoWorkObjectBlockView" -> {"work_object"}
      [] m = "block.ProtoWorkObjectBlocksView" -> {"work_objects"}
      [] m = "block.ProtoWorkObjectBody" -> {"header", "transactions", "uncles", "outbound_etxs", "manifest", "interlink_hashes"}
      [] m = "block.ProtoWorkObjectHeader" -> {"header_hash", "parent_hash", "number", "difficulty", "tx_hash", "nonce", "location", "mix_hash", "time", "prime_terminus_number", "lock", "primary_coinbase", "data", "aux_pow", "scrypt_diff_and_count", "sha_diff_and_count", "sha_share_target", "scrypt_share_target", "kawpow_difficulty"}
      [] m = "block.ProtoWorkObjectHeaderView" -> {"work_object"}
      [] m = "block.ProtoWorkObjectHeaders" -> {"wo_headers"}
      [] m = "block.ProtoWorkObjectShareView" -> {"work_object"}
      [] m = "common.ProtoAddress" -> {"value"}
      [] m = "common.ProtoHash" -> {"value"}
      [] m = "common.ProtoHashes" -> {"hashes"}
      [] m = "common.ProtoLocation" -> {"value"}
      [] m = "quaiprotocol.QuaiMessage" -> {"request", "response"}
      [] m = "quaiprotocol.QuaiRequestMessage" -> {"id", "location", "hash", "number", "work_object_block", "work_object_blocks", "work_object_header", "block_hash", "aux_template"}
      [] m = "quaiprotocol.QuaiResponseMessage" -> {"id", "location", "work_object_header_view", "work_object_block_view", "work_object_blocks_view", "block_hash", "aux_template"}

=============================================================================
