----------------------------- MODULE MCTrieGC -----------------------------
EXTENDS TrieGC
\* three keys below two first symbols: contents that differ in <<2, 1>> only share the whole subtree below symbol 1
\* (extension + branch + two leaves); <<1, 1>> and <<1, 2>> with equal values are one and the same leaf node in the
\* 'hi' embedding (identical rest path and value): a node referenced twice by one parent
K3 == {<<1, 1>>, <<1, 2>>, <<2, 1>>}
K2 == {<<1, 1>>, <<2, 1>>}
V1 == {1}
V2 == {1, 2}
OpsAll   == {"update", "tcommit", "ref", "deref", "flush", "flushfail", "cap", "capfail", "open", "reopen"}
\* the garbage collector alone, deeper: several live roots, references dropped one by one
OpsGC    == {"update", "tcommit", "ref", "deref", "open"}
\* writing out, deeper
OpsFlush == {"update", "tcommit", "ref", "deref", "flush", "cap", "reopen"}
NoPrelude == <<>>
\* two keys below one symbol, committed: whatever follows builds on / next to a root with an inner subtree
PreAB == <<[op |-> "update", k |-> <<1, 1>>, v |-> 1], [op |-> "update", k |-> <<1, 2>>, v |-> 2], [op |-> "tcommit", k |-> <<>>, v |-> 0]>>
=============================================================================
