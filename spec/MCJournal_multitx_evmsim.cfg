SPECIFICATION Spec
CONSTANTS
  NAddr = 14
  NSlot = 1
  Vals <- V02
  Amts <- A01
  Genesis <- GenEL
  HasLock <- LockEL
  Ops <- OpsEM
  MaxMut = 12
  MaxSnap = 8
  MaxDepth = 4
  MaxTx = 3
  FrameAddr <- FrEL
  NewAddrs <- NewEL
  XferTo <- XferELM
  Benef = 9
VIEW view
INVARIANTS TypeOK AccessListWellFormed AlwaysRevertible
PROPERTIES RevertRestores SiblingsUntouched
ACTION_CONSTRAINT EmitHist
CHECK_DEADLOCK FALSE
