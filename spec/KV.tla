------------------------------- MODULE KV -------------------------------
(***************************************************************************)
(* The key-value database interface of go-quai (ethdb.Database /           *)
(* ethdb.Batch), as consensus code relies on it.  One action per public    *)
(* call.  Anchors: ethdb/database.go, ethdb/batch.go, ethdb/leveldb,       *)
(* ethdb/pebble, ethdb/memorydb, core/rawdb/table.go.                      *)
(*                                                                         *)
(* Keys are sequences over a small symbol alphabet (the harness maps a     *)
(* symbol to a byte, keeping the order), so prefix relations and byte      *)
(* order are those of the implementation.  Values are small naturals that  *)
(* the harness maps to byte strings (0 = the empty byte string).           *)
(*                                                                         *)
(* Decides C17; the pending-view semantics (SetPending/GetPending) are     *)
(* what C01/C13 rely on for intra-block double-spend detection.            *)
(***************************************************************************)
EXTENDS Integers, Sequences, FiniteSets, TLC, SequencesExt, Json

CONSTANTS Keys,      \* set of keys
          Vals,      \* set of values
          IterPrefixes,  \* iterator prefixes
          IterStarts,    \* iterator start suffixes
          Batches,   \* batch identifiers (positive integers)
          MaxOps,    \* bound on the number of calls in a behaviour
          MaxBatch   \* bound on the number of operations queued in one batch

Absent == -1   \* db[k] = Absent: no such key
Unset  == -2   \* pending view: key not written through this batch since SetPending
Tomb   == -1   \* pending view: key deleted through this batch

VARIABLES db,        \* committed content: Keys -> Vals \cup {Absent}
          bops,      \* per batch: sequence of <<"put"|"del", key, value>> in issue order
          bpendOn,   \* per batch: pending tracking enabled
          bpend,     \* per batch: Keys -> Vals \cup {Unset, Tomb}
          bwritten,  \* per batch: Write was called and Reset not yet (only Reset/GetPending allowed)
          step,      \* number of calls so far
          obs,       \* observable result of the last call (hidden by VIEW)
          hist       \* sequence of call records with results (hidden by VIEW)

vars == <<db, bops, bpendOn, bpend, bwritten, step, obs, hist>>
view == <<db, bops, bpendOn, bpend, bwritten, step>>

----------------------------------------------------------------------------
\* byte order on keys
RECURSIVE LexLess(_, _)
LexLess(a, b) ==
    IF a = <<>> THEN b # <<>>
    ELSE IF b = <<>> THEN FALSE
    ELSE IF a[1] < b[1] THEN TRUE
    ELSE IF a[1] > b[1] THEN FALSE
    ELSE LexLess(Tail(a), Tail(b))
LexLE(a, b) == a = b \/ LexLess(a, b)

\* the pairs an iterator over (prefix p, start s) yields, in order
IterResult(d, p, s) ==
    LET lo == p \o s
        S  == {k \in Keys : d[k] # Absent /\ IsPrefix(p, k) /\ LexLE(lo, k)}
        ks == SetToSortSeq(S, LexLess)
    IN  [i \in 1..Len(ks) |-> <<ks[i], d[ks[i]]>>]

\* effect of one queued batch operation on a database image / on a batch
DbApply(d, o) == [d EXCEPT ![o[2]] = IF o[1] = "put" THEN o[3] ELSE Absent]
BatchApply(st, o) ==
    [ops  |-> Append(st.ops, o),
     on   |-> st.on,
     pend |-> IF st.on THEN [st.pend EXCEPT ![o[2]] = IF o[1] = "put" THEN o[3] ELSE Tomb]
              ELSE st.pend]

EmptyPend == [k \in Keys |-> Unset]

Rec(op, b, k, v, p, s, t) == [op |-> op, b |-> b, k |-> k, v |-> v, p |-> p, s |-> s, t |-> t]

Log(rec, o) ==
    /\ obs'  = o
    /\ hist' = Append(hist, rec @@ [res |-> o])
    /\ step' = step + 1

OK == <<"ok">>
----------------------------------------------------------------------------
Init ==
    /\ db = [k \in Keys |-> Absent]
    /\ bops = [b \in Batches |-> <<>>]
    /\ bpendOn = [b \in Batches |-> FALSE]
    /\ bpend = [b \in Batches |-> EmptyPend]
    /\ bwritten = [b \in Batches |-> FALSE]
    /\ step = 0
    /\ obs = <<"init">>
    /\ hist = <<>>

\* ---- direct database calls
Put(k, v) ==
    /\ db' = [db EXCEPT ![k] = v]
    /\ UNCHANGED <<bops, bpendOn, bpend, bwritten>>
    /\ Log(Rec("put", 0, k, v, <<>>, <<>>, 0), OK)

Delete(k) ==
    /\ db' = [db EXCEPT ![k] = Absent]
    /\ UNCHANGED <<bops, bpendOn, bpend, bwritten>>
    /\ Log(Rec("del", 0, k, 0, <<>>, <<>>, 0), OK)

Get(k) ==
    /\ UNCHANGED <<db, bops, bpendOn, bpend, bwritten>>
    /\ Log(Rec("get", 0, k, 0, <<>>, <<>>, 0),
           IF db[k] = Absent THEN <<"notfound">> ELSE <<"val", db[k]>>)

Has(k) ==
    /\ UNCHANGED <<db, bops, bpendOn, bpend, bwritten>>
    /\ Log(Rec("has", 0, k, 0, <<>>, <<>>, 0), <<"has", db[k] # Absent>>)

\* ethdb.Compacter.Compact(nil, nil): maintenance of the store (flush + merge of its internal structures, on disk engines);
\* it must be invisible through the interface - whatever tombstones / overwritten versions the engine keeps internally
Compact ==
    /\ UNCHANGED <<db, bops, bpendOn, bpend, bwritten>>
    /\ Log(Rec("compact", 0, <<>>, 0, <<>>, <<>>, 0), OK)

Iterate(p, s) ==
    /\ UNCHANGED <<db, bops, bpendOn, bpend, bwritten>>
    /\ Log(Rec("iter", 0, <<>>, 0, p, s, 0), <<"iter", IterResult(db, p, s)>>)

\* ---- batch calls
Usable(b) == ~bwritten[b]

BPut(b, k, v) ==
    /\ Usable(b) /\ Len(bops[b]) < MaxBatch
    /\ LET st == BatchApply([ops |-> bops[b], on |-> bpendOn[b], pend |-> bpend[b]], <<"put", k, v>>)
       IN  /\ bops'  = [bops EXCEPT ![b] = st.ops]
           /\ bpend' = [bpend EXCEPT ![b] = st.pend]
    /\ UNCHANGED <<db, bpendOn, bwritten>>
    /\ Log(Rec("bput", b, k, v, <<>>, <<>>, 0), OK)

BDelete(b, k) ==
    /\ Usable(b) /\ Len(bops[b]) < MaxBatch
    /\ LET st == BatchApply([ops |-> bops[b], on |-> bpendOn[b], pend |-> bpend[b]], <<"del", k, 0>>)
       IN  /\ bops'  = [bops EXCEPT ![b] = st.ops]
           /\ bpend' = [bpend EXCEPT ![b] = st.pend]
    /\ UNCHANGED <<db, bpendOn, bwritten>>
    /\ Log(Rec("bdel", b, k, 0, <<>>, <<>>, 0), OK)

\* SetPending(flag): (re)starts the pending view empty; tracks from now on iff flag
BSetPending(b, flag) ==
    /\ Usable(b)
    /\ bpendOn' = [bpendOn EXCEPT ![b] = flag]
    /\ bpend'   = [bpend EXCEPT ![b] = EmptyPend]
    /\ UNCHANGED <<db, bops, bwritten>>
    /\ Log(Rec("setpending", b, <<>>, IF flag THEN 1 ELSE 0, <<>>, <<>>, 0), OK)

\* GetPending(k) -> (deleted, value-or-nil)
BGetPending(b, k) ==
    /\ UNCHANGED <<db, bops, bpendOn, bpend, bwritten>>
    /\ Log(Rec("getpending", b, k, 0, <<>>, <<>>, 0),
           \* the API returns (deleted, value-or-nil): a pending put of the EMPTY value is not distinguishable from
           \* "nothing pending" (goleveldb's batch replay even hands the empty value over as nil), so both read Absent
           IF bpend[b][k] = Unset \/ bpend[b][k] = 0 THEN <<"pend", FALSE, Absent>>
           ELSE IF bpend[b][k] = Tomb THEN <<"pend", TRUE, Absent>>
           ELSE <<"pend", FALSE, bpend[b][k]>>)

\* Write: every queued operation, in issue order, atomically; the pending view ends
BWrite(b) ==
    /\ Usable(b)
    /\ db' = FoldLeft(DbApply, db, bops[b])
    /\ bwritten' = [bwritten EXCEPT ![b] = TRUE]
    /\ bpendOn'  = [bpendOn EXCEPT ![b] = FALSE]
    /\ bpend'    = [bpend EXCEPT ![b] = EmptyPend]
    /\ UNCHANGED bops
    /\ Log(Rec("write", b, <<>>, 0, <<>>, <<>>, 0), OK)

BReset(b) ==
    /\ bops'     = [bops EXCEPT ![b] = <<>>]
    /\ bwritten' = [bwritten EXCEPT ![b] = FALSE]
    /\ bpendOn'  = [bpendOn EXCEPT ![b] = FALSE]
    /\ bpend'    = [bpend EXCEPT ![b] = EmptyPend]
    /\ UNCHANGED db
    /\ Log(Rec("reset", b, <<>>, 0, <<>>, <<>>, 0), OK)

\* ValueSize is only specified for an empty batch (back-ends count differently otherwise)
BSizeEmpty(b) ==
    /\ Usable(b) /\ bops[b] = <<>>
    /\ UNCHANGED <<db, bops, bpendOn, bpend, bwritten>>
    /\ Log(Rec("size", b, <<>>, 0, <<>>, <<>>, 0), <<"size", 0>>)

\* Replay into the database (t = 0) or into another batch (t = its id)
\* The SOURCE batch may already have been written: a batch keeps its operations until Reset, and trie.Database.Commit relies on
\* it (batch.Write(); batch.Replay(uncacher); batch.Reset()).
BReplay(b, t) ==
    /\ t # b
    /\ IF t = 0
       THEN /\ db' = FoldLeft(DbApply, db, bops[b])
            /\ UNCHANGED <<bops, bpend>>
       ELSE /\ Usable(t) /\ Len(bops[t]) + Len(bops[b]) <= MaxBatch
            /\ LET st == FoldLeft(BatchApply, [ops |-> bops[t], on |-> bpendOn[t], pend |-> bpend[t]], bops[b])
               IN  /\ bops'  = [bops EXCEPT ![t] = st.ops]
                   /\ bpend' = [bpend EXCEPT ![t] = st.pend]
            /\ UNCHANGED db
    /\ UNCHANGED <<bpendOn, bwritten>>
    /\ Log(Rec("replay", b, <<>>, 0, <<>>, <<>>, t), OK)

Next ==
    /\ step < MaxOps
    /\ \/ \E k \in Keys, v \in Vals : Put(k, v)
       \/ \E k \in Keys : Delete(k) \/ Get(k) \/ Has(k)
       \/ Compact
       \/ \E p \in IterPrefixes, s \in IterStarts : Iterate(p, s)
       \/ \E b \in Batches :
            \/ \E k \in Keys, v \in Vals : BPut(b, k, v)
            \/ \E k \in Keys : BDelete(b, k) \/ BGetPending(b, k)
            \/ \E f \in BOOLEAN : BSetPending(b, f)
            \/ BWrite(b) \/ BReset(b) \/ BSizeEmpty(b)
            \/ \E t \in Batches \cup {0} : BReplay(b, t)

Spec == Init /\ [][Next]_vars

----------------------------------------------------------------------------
\* Design-level properties (checked by TLC on the model; on implementation traces the
\* same formulas are evaluated over logged observations by KVTrace).

TypeOK ==
    /\ db \in [Keys -> Vals \cup {Absent}]
    /\ \A b \in Batches : bpend[b] \in [Keys -> Vals \cup {Unset, Tomb}]

\* a batch that does not track pending never reports anything
PendingOnlyWhenOn == \A b \in Batches : ~bpendOn[b] => bpend[b] = EmptyPend

\* read-your-writes: with tracking on, the view of a key is the LAST queued operation on it
\* since tracking started
LastOp(ops, k) ==
    LET idx == {i \in 1..Len(ops) : ops[i][2] = k}
    IN  IF idx = {} THEN Unset
        ELSE LET o == ops[CHOOSE i \in idx : \A j \in idx : j <= i]
             IN IF o[1] = "put" THEN o[3] ELSE Tomb

\* if tracking has been on for the whole life of the batch content, pending = last queued op
\* (trackedAll is established by the history: SetPending(TRUE) issued on an empty batch)
PendViewIsSuffixOfOps ==
    \A b \in Batches : \A k \in Keys :
        bpend[b][k] # Unset => \E i \in 1..Len(bops[b]) : bops[b][i][2] = k

\* atomicity/ordering: the committed image after Write equals folding the ops over the image before
\* (action property, stated on the last history record)
WriteAppliesAllInOrder ==
    [][\A b \in Batches : (bwritten'[b] /\ ~bwritten[b]) => db' = FoldLeft(DbApply, db, bops[b])]_vars

\* the iterator yields keys in strictly ascending byte order, all live, all with the prefix
IterSorted ==
    obs[1] = "iter" =>
        LET r == obs[2] IN
        /\ \A i \in 1..Len(r) - 1 : LexLess(r[i][1], r[i + 1][1])
        /\ \A i \in 1..Len(r) : db[r[i][1]] = r[i][2]

\* emit every explored behaviour for replay on the implementation
EmitHist == PrintT("@@" \o ToJson(hist'))
=============================================================================
