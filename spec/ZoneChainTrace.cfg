SPECIFICATION TraceSpec
CONSTANTS
  Outs <- TraceOuts
  MaxBlocks = 100000
  MaxHeight <- TraceMaxHeight
  TrimDepth = 4
  MaxSteps = 100000000
  WithCrash = FALSE
  HeadInBatch = TRUE
  CrashInHeadWindow = FALSE
  WithTamper = FALSE
  SpendTrimCandidate = TRUE
INVARIANTS TamperedRejected ImageConforms AcceptedBlocksValid ReorgEqualsFreshReplay CommitmentEqualsContent SpentAtMostOnce
CONSTRAINT HighWater
POSTCONDITION TraceAccepted
CHECK_DEADLOCK FALSE
