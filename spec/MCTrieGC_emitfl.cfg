SPECIFICATION Spec
CONSTANTS
  Keys <- K3
  Vals <- V2
  MaxOps = 7
  MaxRef = 2
  Ops <- OpsFlush
  KeepHist = TRUE
  CountMetaRefs = TRUE
  UncacheAfterWrite = TRUE
  Prelude <- PreAB
VIEW view
INVARIANTS TypeOK ReferencedRootsHeld LiveRootsLoadable FlushedRootsSurviveReopen HandleBaseLoadable
ACTION_CONSTRAINT EmitHist
CHECK_DEADLOCK FALSE
