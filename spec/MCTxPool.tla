----------------------------- MODULE MCTxPool -----------------------------
EXTENDS TxPool
\* constant values for the TLC configurations of TxPool.tla
BalAll3  == [a \in Accts |-> 3]
BalLow1  == [a \in Accts |-> IF a = 1 THEN 1 ELSE 3]
BalSet1  == {BalAll3}
BalSet2  == {BalAll3, BalLow1}
P12      == {1, 2}
P123     == {1, 2, 3}
P2       == {2}
F12      == {1, 2}
F2       == {2}
P1       == {1}
FNone    == {}
\* targeted configuration for the pending-list hole after a reorg (MCTxPool_gap.cfg)
BalAll2  == [a \in Accts |-> 2]
BalAll1  == [a \in Accts |-> 1]
BalSet21 == {BalAll2, BalAll1}
=============================================================================
