----------------------------- MODULE MCTxPool -----------------------------
EXTENDS TxPool
\* constant values for the TLC configurations of TxPool.tla
BalAll3  == [a \in Accts |-> 3]
BalLow1  == [a \in Accts |-> IF a = 1 THEN 1 ELSE 3]
BalSet1  == {BalAll3}
BalSet2  == {BalAll3, BalLow1}
P12      == {1, 2}
P123     == {1, 2, 3}
P2       == {2}
F12      == {1, 2}
F2       == {2}
=============================================================================
