--------------------------- MODULE TxPoolTrace ---------------------------
(***************************************************************************)
(* Trace validation for TxPool.tla.  harness/cmd/pooldrv logs one event    *)
(* per critical section of the real core.TxPool (verif hook, called with   *)
(* pool.mu held, numbered per pool) together with a snapshot of the pool's *)
(* indexes taken at that moment.  For every event TLC computes the set of  *)
(* successor states the specification allows for that critical section     *)
(* (TxPool!AddOutcomes, SetGasOutcome, EvictOutcome, ResetState,           *)
(* RunRestOutcomes) and requires the implementation's snapshot to be one   *)
(* of them (Conform); the C19 invariants are evaluated on the              *)
(* implementation's snapshots (`impl`), the quiescent ones on the          *)
(* snapshots the driver marks quiescent (no call in flight, no promote or  *)
(* reset request unserved, taken at the end of a run).                     *)
(* Scenarios are concatenated, separated by "tracereset" events.           *)
(***************************************************************************)
EXTENDS TxPool

Trace == ndJsonDeserialize("pooltrace.ndjson")

\* constants of TxPoolTrace.cfg (the universe and limits harness/cmd/pooldrv random uses)
TPrices == 1..4
TBal    == [a \in Accts |-> 4]
TBalSet == {TBal}

VARIABLES l,         \* next trace line
          mismatch,  \* first event whose snapshot is not an allowed successor
          impl,      \* the implementation's pool record after the last event
          implq,     \* the driver marked that snapshot quiescent
          inrun,     \* between reorgbegin and reorg
          refused,   \* transactions the current run re-injected (accepted or not)
          holed,     \* accounts whose pending list has the known reorg hole (see known-findings.json)
          badbump    \* first add() decision that contradicts the price-bump rule

tvars == <<vars, l, mismatch, impl, implq, inrun, refused, holed, badbump>>

Ev == Trace[l]
Is(name) == l <= Len(Trace) /\ Ev.op = name

SeqFn(s)   == [a \in Accts |-> s[a]]
ListFn(s)  == [n \in Nonces |-> s[n + 1]]
ImplPool(e) ==
    [pend |-> [a \in Accts |-> ListFn(e.st.pend[a])], que |-> [a \in Accts |-> ListFn(e.st.que[a])],
     loc |-> ToSet(e.st.loc), rem |-> ToSet(e.st.rem), priced |-> ToSet(e.st.priced),
     pn |-> SeqFn(e.st.pn), sn |-> SeqFn(e.st.sn), bal |-> SeqFn(e.st.bal),
     floor |-> e.st.floor, locals |-> ToSet(e.st.locals)]
Core(P) == [pend |-> P.pend, que |-> P.que, loc |-> P.loc, rem |-> P.rem, pn |-> P.pn, sn |-> P.sn,
            bal |-> P.bal, floor |-> P.floor, locals |-> P.locals]

\* the event is explained by one of the candidate successor states (else: record, adopt the snapshot)
Follow(cands) ==
    LET im    == ImplPool(Ev)
        match == {c \in cands : Core(c) = Core(im)}
    IN  /\ pool' = IF match # {} THEN CHOOSE c \in match : TRUE ELSE im
        /\ mismatch' = IF mismatch = <<>> /\ match = {}
                       THEN <<l, Ev.op, Ev.seq, Cardinality(cands),
                              IF cands = {} THEN <<>> ELSE Abs(CHOOSE c \in cands : TRUE), Abs(im)>>
                       ELSE mismatch
        /\ impl' = im /\ implq' = Ev.q
        /\ l' = l + 1
        /\ UNCHANGED <<chain, nblocks, pvars, step, obs, hist>>

KeepHoles(extra) == holed' = {a \in holed \cup extra : Gaps(ImplPool(Ev).pend[a]) # {}}

TraceInit ==
    /\ Init /\ l = 1 /\ mismatch = <<>> /\ impl = InitPool /\ implq = FALSE
    /\ inrun = FALSE /\ refused = {} /\ holed = {} /\ badbump = <<>>

TraceReset ==
    /\ Is("tracereset")
    /\ pool' = [InitPool EXCEPT !.bal = SeqFn(Ev.bal)]
    /\ impl' = pool' /\ implq' = FALSE /\ inrun' = FALSE /\ refused' = {} /\ holed' = {}
    /\ l' = l + 1
    /\ UNCHANGED <<chain, nblocks, pvars, step, obs, hist, mismatch, badbump>>

\* runReorg took pool.mu (the snapshot still shows the state before reset()); if the run carries a
\* reset, reset() installs the new head's state next
ReorgBegin ==
    /\ Is("reorgbegin")
    /\ LET im == ImplPool(Ev)
           ok == Core(pool) = Core(im)
           p0 == IF ok THEN pool ELSE im
       IN  /\ pool' = IF Ev.reset THEN ResetState(p0, SeqFn(Ev.sn), SeqFn(Ev.bal)) ELSE p0
           /\ mismatch' = IF mismatch = <<>> /\ ~ok THEN <<l, Ev.op, Ev.seq, 1, Abs(pool), Abs(im)>> ELSE mismatch
           /\ impl' = im /\ implq' = FALSE
    /\ l' = l + 1
    /\ inrun' = TRUE /\ refused' = {} /\ KeepHoles({})
    /\ UNCHANGED <<chain, nblocks, pvars, step, obs, hist, badbump>>

\* add(tx, local) returned (from addTxs, or from the re-injection inside reset())
AddEv ==
    /\ Is("add")
    /\ LET tx == <<Ev.tx[1], Ev.tx[2], Ev.tx[3]>>
           outs == {o \in AddOutcomes(pool, tx, Ev.local) : o.res = Ev.res /\ o.replaced = Ev.replaced}
           old0 == IF impl.pend[tx[1]][tx[2]] # 0 THEN impl.pend[tx[1]][tx[2]] ELSE impl.que[tx[1]][tx[2]]
           old  == IF <<tx[1], tx[2], old0>> \in ToSet(Ev.removed) THEN 0 ELSE old0
           bad  == \/ Ev.res = "ok" /\ old # 0 /\ old # tx[3] /\ ~Bumps(old, tx[3])
                   \/ Ev.res = "ok" /\ (old # 0) # Ev.replaced
                   \/ Ev.res = "replace" /\ (old = 0 \/ Bumps(old, tx[3]))
       IN  /\ Follow({o.st : o \in outs})
           /\ refused' = IF inrun THEN refused \cup {tx} ELSE refused
           /\ badbump' = IF badbump = <<>> /\ bad THEN <<l, tx, old, Ev.res>> ELSE badbump
    /\ KeepHoles({}) /\ UNCHANGED inrun

SetGasEv ==
    /\ Is("setgas")
    /\ Follow({SetGasOutcome(pool, Ev.f)})
    /\ KeepHoles({}) /\ UNCHANGED <<inrun, refused, badbump>>

EvictEv ==
    /\ Is("evict")
    /\ Follow({EvictOutcome(pool, Sq, Sp) : Sq \in SUBSET Accts, Sp \in SUBSET Accts})
    /\ KeepHoles({}) /\ UNCHANGED <<inrun, refused, badbump>>

\* the end of runReorg's critical section.  Known finding: a reset that lowers the state nonce and
\* loses one of the re-injected transactions (refused, or evicted again) leaves a hole inside the
\* pending list (TxPool!HolesOnlyFromRefusedReinject states the same condition on the model).
ReorgEv ==
    /\ Is("reorg")
    /\ Follow(RunRestOutcomes(pool, Ev.reset,
                 IF Ev.reset THEN {a \in Accts : NoncesOf(pool.que[a]) # {}} ELSE ToSet(Ev.addrs)))
    /\ KeepHoles(IF Ev.reset
                 THEN {a \in Accts : \E t \in refused : t[1] = a /\ t[2] \in Gaps(ImplPool(Ev).pend[a])
                                                        /\ t \notin AllOf(ImplPool(Ev))} ELSE {})
    /\ inrun' = FALSE /\ UNCHANGED <<refused, badbump>>

\* poolLimiterGoroutine (30 s period): not modelled; the snapshot is adopted
LimiterEv ==
    /\ (Is("limiter1") \/ Is("limiter2"))
    /\ Follow({ImplPool(Ev)})
    /\ KeepHoles({}) /\ UNCHANGED <<inrun, refused, badbump>>

TraceNext == TraceReset \/ ReorgBegin \/ AddEv \/ SetGasEv \/ EvictEv \/ ReorgEv \/ LimiterEv

TraceSpec == TraceInit /\ [][TraceNext]_tvars

----------------------------------------------------------------------------
\* conformance: every critical section of the implementation is a step of the specification
Conform == mismatch = <<>>
\* C19 evaluated on the implementation's snapshots
ImplPendingQueueDisjoint == PendingQueueDisjoint_(impl)
ImplIndexesAgree         == IndexesAgree_(impl)
ImplPendingContiguous    == \A a \in Accts \ holed : Gaps(impl.pend[a]) = {}
ImplCapacityRespected    == CapacityRespected_(impl)
ImplPricedWithinBound    == impl.priced \subseteq pool.priced \/ mismatch # <<>>
ImplReplacementNeedsBump == badbump = <<>>
ImplPendingFromStateNonce ==
    implq => \A a \in Accts \ holed : LET ns == NoncesOf(impl.pend[a]) IN ns # {} => MinOf(ns) = impl.sn[a]
ImplPendingAffordable    == implq => PendingAffordable_(impl)
ImplPendingNonceAgrees   == implq => PendingNonceAgrees_(impl)
ImplLimitsRespected      == implq => LimitsRespected_(impl)

TraceAccepted == TLCGet("stats").diameter - 1 = Len(Trace)
=============================================================================
