SPECIFICATION Spec
CONSTANTS
  TxDefs <- MCTxs
  GenDefs <- MCGen
  BlockDefs <- MCBlocks
  Cap = 2
  MinFee = 1
  Fused = TRUE
  WithWorker = FALSE
  MaxOps = 4
  MaxHeads = 2
  KeepHist = TRUE
  InactiveRefusedAtOnce = TRUE
INVARIANTS PoolTxsSpendable
CHECK_DEADLOCK FALSE
