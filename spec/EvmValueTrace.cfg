SPECIFICATION TraceSpec
CONSTANTS
  EOAs <- TraceEOAs
  Contracts <- TraceContracts
  InitBal <- ZeroBal
  InitWq <- ZeroBal
  InitLock <- NoLock
  LockVal = 1000000
  LowGas = 20000
  GasUnit = 500000
  MaxGasSteps = 6
  Prices <- Anything
  IntrinsicGas = 21000
  TxGas = 21000
  Rent = 24914
  MinConv = 2000000
  TxValues <- Anything
  CallValues <- Anything
  Regimes <- Anything
  Prefills <- Anything
  TxKinds <- AllTxKinds
  OpKinds <- AllOpKinds
  DestClasses <- Anything
  AmtClasses <- Anything
  GlClasses <- Anything
  FeeClasses <- Anything
  AlClasses <- Anything
  FrameKinds <- AllFrameKinds
  CallTargets <- Anything
  TxTargets <- Anything
  Benefs <- Anything
  WpOps <- Anything
  MaxDepth = 1000
  MaxFrameOps = 1000000
  MaxTx = 1000000
  UsedMode = "all"
  GrindFail = TRUE
INVARIANTS ObservationsConform NoNegative NoCreation ExactUnlessBurn EtxBacked ChargeWithinBounds FailedTxTouchesOnlyPayer FailedEtxTouchesNothing AllOrNothing StackDiscipline IndexFresh BlockOutboundIsConcatOfSurvivors
POSTCONDITION TraceAccepted
CHECK_DEADLOCK FALSE
