SPECIFICATION Spec
CONSTANTS
  Orders = {0, 1, 2}
  MaxCrashes = 1
  DomCommitsFirst = TRUE
VIEW view
INVARIANTS Recoverable
CHECK_DEADLOCK FALSE
