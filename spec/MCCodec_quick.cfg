SPECIFICATION Spec
CONSTANTS
  Types <- AllTypes
  MaxSteps = 4
  MaxDev = 1
VIEW view
INVARIANTS TypeOK NormIdempotent NormPreservesIdentity NormPreservesWellFormed MutableFieldsAreHashed
ACTION_CONSTRAINT EmitHist
CHECK_DEADLOCK FALSE
