SPECIFICATION Spec
CONSTANTS
  ConvIds <- Ids2
  Amounts <- AmtsQ
  Slips <- SlipsQ
  Flow = 100
  Rates <- RatesQ
  KQs <- KQsQ
  Denoms <- DenomsA
  TrimIdx = 3
  GasOuts <- GasQ
  LockPeriod = 2
  MaxHeight = 4
  MaxOps = 3
  MinQuai = 20
  InitQuai = 4000
  InitQi = 4000
  CodeRefund = FALSE
  Increasings <- BoolAll
VIEW view
ACTION_CONSTRAINT EmitHist
CHECK_DEADLOCK FALSE
