---------------------------- MODULE CodecTrace ----------------------------
(***************************************************************************)
(* Trace validation for Codec.tla (code -> spec): harness/cmd/codecdrv     *)
(* random logs one event per step of seeded random paths over FULLY random *)
(* shapes (every field drawn from its domain), with what the real code     *)
(* did.  Every event must be the Codec action of that name; the logged     *)
(* observation is compared with the specified outcome (Norm, hash          *)
(* invariance, byte stability, determinism, hash sensitivity).  All        *)
(* disagreements are collected in mism and printed as they are met;         *)
(* after a disagreement the rest of that trace is skipped (the real object *)
(* and the specified one have diverged).                                   *)
(***************************************************************************)
EXTENDS Codec

AllTypes == {TypeNames[i] : i \in 1..Len(TypeNames)}
Trace == ndJsonDeserialize("codectrace.ndjson")

VARIABLES l,      \* next trace line
          alive,  \* the current trace is still being followed
          mism    \* sequence of <<line, what>> disagreements

tvars == <<vars, l, alive, mism>>

Ev == Trace[l]
Is(name) == l <= Len(Trace) /\ Ev.op = name

NoObs == Rec("none", "", "", "", "", <<>>, <<>>, <<>>, Exp(TRUE, TRUE, TRUE, TRUE, FALSE))

TraceInit ==
    /\ typ = TypeNames[1] /\ shape = FieldBase(TypeNames[1]) /\ rep = "mem" /\ warm = FALSE /\ step = 0
    /\ obs = NoObs /\ hist = <<>>
    /\ l = 1 /\ alive = FALSE /\ mism = <<>>

FlagW(what, want) ==
    /\ PrintT("@@" \o ToJson([line |-> l, what |-> what, want |-> want]))
    /\ mism' = Append(mism, <<l, what>>) /\ alive' = FALSE
Flag(what) == FlagW(what, <<>>)
Fine == UNCHANGED mism /\ alive' = TRUE

InDomain(t, sh) == Len(sh) = N(t) /\ \A i \in 1..N(t) : sh[i] \in FieldDoms(t)[i]

\* a new trace: any well-formed shape of any type
TStart ==
    /\ Is("start")
    /\ Ev.type \in AllTypes /\ InDomain(Ev.type, Ev.shape) /\ WellFormed(Ev.type, Ev.shape)
    /\ typ' = Ev.type /\ shape' = Ev.shape /\ rep' = "mem" /\ warm' = FALSE /\ step' = 0
    /\ obs' = NoObs /\ hist' = <<>>
    /\ l' = l + 1
    /\ IF Ev.obs.err # "ok" THEN Flag("start-" \o Ev.obs.err) ELSE Fine

Skip ==   \* events of a trace that has already diverged
    /\ l <= Len(Trace) /\ Ev.op # "start" /\ ~alive
    /\ l' = l + 1
    /\ UNCHANGED <<vars, alive, mism>>

TEnc ==
    /\ Is("enc") /\ alive
    /\ Encode(Ev.codec)
    /\ l' = l + 1
    /\ IF Ev.obs.err # "ok" THEN Flag("enc-" \o Ev.obs.err)
       ELSE IF ~Ev.obs.det THEN Flag("nondeterministic-encode")
       ELSE Fine

TDec ==
    /\ Is("dec") /\ alive
    /\ Decode(Ev.codec, Ev.loc)
    /\ l' = l + 1
    /\ IF Ev.obs.err # "ok" THEN Flag("dec-" \o Ev.obs.err)
       ELSE IF Ev.obs.shape # shape' THEN FlagW("class-mismatch", shape')
       ELSE IF ~Ev.obs.valsEqual THEN Flag("value-changed")
       ELSE IF ~Ev.obs.hashSame THEN Flag("hash-changed")
       ELSE IF obs'.exp.bytesStable /\ ~Ev.obs.bytesStable THEN Flag("bytes-unstable")
       ELSE Fine

TWarm ==
    /\ Is("warm") /\ alive
    /\ Warm
    /\ l' = l + 1
    /\ IF Ev.obs.err # "ok" THEN Flag("hash-" \o Ev.obs.err) ELSE Fine

TMutate ==
    /\ Is("mutate") /\ alive
    /\ MutateConsensusField(Ev.field)
    /\ l' = l + 1
    /\ IF Ev.obs.err # "ok" THEN Flag("mutate-" \o Ev.obs.err)
       ELSE IF Ev.obs.stale THEN Flag("stale-hash")
       ELSE IF obs'.exp.hashChanged /\ ~Ev.obs.hashChanged THEN Flag("hash-ignores-field")
       ELSE IF ~obs'.exp.hashChanged /\ Ev.obs.hashChanged THEN Flag("hash-changed-unexpected")
       ELSE Fine

TraceNext == TStart \/ Skip \/ TEnc \/ TDec \/ TWarm \/ TMutate

TraceSpec == TraceInit /\ [][TraceNext]_tvars

\* the design invariants, evaluated on the implementation's (specified-equal) states
TraceNormIdempotent == alive => NormIdempotent
TraceNormPreservesIdentity == alive => NormPreservesIdentity

\* the whole trace was consumed; print every disagreement for the checker
TraceAccepted ==
    TLCGet("stats").diameter - 1 = Len(Trace)
=============================================================================
