SPECIFICATION TraceSpec
CONSTANTS
  Genesis <- TraceGenesis
  Txs <- TraceTxs
  DenomValue <- TraceDV
  RYW = TRUE
  BaseFeeOn = FALSE
  MaxTxPerBlock = 1000
  MaxBlocks = 100000
INVARIANTS ObservationsConform SpentAtMostOnce NoValueFromNothing OutputsOnlyLocalQi
POSTCONDITION TraceAccepted
CHECK_DEADLOCK FALSE
