---------------------------- MODULE MCQiLedger ----------------------------
EXTENDS QiLedger
\* denominations 0,1,2 = 1, 5, 10 qits (the real ratios of the three smallest Qi denominations)
DV == (0 :> 1) @@ (1 :> 5) @@ (2 :> 10)

G == (<<"g1", 0>> :> [d |-> 2, owner |-> "A", lock |-> 0]) @@
     (<<"g2", 0>> :> [d |-> 2, owner |-> "A", lock |-> 0]) @@
     (<<"g3", 0>> :> [d |-> 1, owner |-> "B", lock |-> 0]) @@
     (<<"g4", 0>> :> [d |-> 2, owner |-> "A", lock |-> 5])

In(o, k) == [o |-> o, key |-> k]
Out(d, to) == [d |-> d, to |-> to]
Tx(ins, outs, sig, chain) == [ins |-> ins, outs |-> outs, sig |-> sig, chain |-> chain]

\* valid base transactions and one deviation each; a few double deviations that interact through shared state
T == ("t1"  :> Tx(<<In(<<"g1", 0>>, "A")>>, <<Out(1, "qi:C"), Out(1, "qi:D")>>, "ok", "ours")) @@      \* split 10 -> 5+5
     ("t2"  :> Tx(<<In(<<"g1", 0>>, "A")>>, <<Out(2, "qi:C")>>, "ok", "ours")) @@                        \* same input as t1
     ("t3"  :> Tx(<<In(<<"g1", 0>>, "A"), In(<<"g1", 0>>, "A")>>, <<Out(2, "qi:C"), Out(2, "qi:D")>>, "ok", "ours")) @@ \* same outpoint twice
     ("t4"  :> Tx(<<In(<<"g2", 0>>, "B")>>, <<Out(1, "qi:C")>>, "ok", "ours")) @@                        \* wrong key
     ("t5"  :> Tx(<<In(<<"g4", 0>>, "A")>>, <<Out(1, "qi:C")>>, "ok", "ours")) @@                        \* locked
     ("t6"  :> Tx(<<In(<<"g3", 0>>, "B")>>, <<Out(2, "qi:C")>>, "ok", "ours")) @@                        \* 5 -> 10
     ("t7"  :> Tx(<<In(<<"t1", 1>>, "C")>>, <<Out(0, "qi:D"), Out(0, "qi:E")>>, "ok", "ours")) @@        \* spends an output of t1
     ("t8"  :> Tx(<<In(<<"g2", 0>>, "A")>>, <<Out(1, "qi:A")>>, "ok", "ours")) @@                        \* output to an input address
     ("t9"  :> Tx(<<In(<<"g2", 0>>, "A")>>, <<Out(1, "qi:C")>>, "bad", "ours")) @@                       \* signature by other keys
     ("t10" :> Tx(<<In(<<"g2", 0>>, "A")>>, <<Out(1, "qi:C")>>, "ok", "other")) @@                       \* other chain id
     ("t11" :> Tx(<<In(<<"g3", 0>>, "B"), In(<<"t1", 2>>, "D")>>, <<Out(2, "qi:C")>>, "ok", "ours")) @@  \* merges 5+5 into 10
     ("t12" :> Tx(<<In(<<"g2", 0>>, "A")>>, <<Out(1, "qi:C")>>, "ok", "ours")) @@                        \* valid, fee 5
     ("t13" :> Tx(<<In(<<"g2", 0>>, "A")>>, <<Out(1, "quai:C")>>, "ok", "ours")) @@                      \* Quai address without conversion data
     ("t14" :> Tx(<<In(<<"g2", 0>>, "A")>>, <<Out(1, "zoneB:C")>>, "ok", "ours")) @@                     \* output to another zone (ETX)
     ("t15" :> Tx(<<In(<<"g2", 0>>, "A"), In(<<"g3", 0>>, "B")>>, <<Out(2, "qi:C"), Out(0, "qi:D")>>, "ok", "ours")) @@ \* two owners (MuSig2)
     ("t16" :> Tx(<<In(<<"g2", 0>>, "A"), In(<<"g4", 0>>, "A")>>, <<Out(2, "qi:C"), Out(2, "qi:D")>>, "ok", "ours")) @@ \* second input still locked
     ("t17" :> Tx(<<In(<<"g3", 0>>, "B"), In(<<"g2", 0>>, "B")>>, <<Out(2, "qi:C")>>, "ok", "ours"))                     \* own output first, then a FOREIGN output under the same (own) key; aggregate of (B, B) is valid

\* the constants above, as JSON for the driver (so that the specification stays the single source)
GKey(o) == o[1] \o ":" \o ToString(o[2])
DefsJson == ToJson([txs |-> T,
                    genesis |-> [k \in {GKey(o) : o \in DOMAIN G} |-> G[CHOOSE o \in DOMAIN G : GKey(o) = k]]])
ASSUME PrintT("@@DEFS" \o DefsJson)
=============================================================================
