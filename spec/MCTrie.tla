------------------------------ MODULE MCTrie ------------------------------
EXTENDS Trie
\* key sets: prefix-related keys (value in a branch), shared prefixes of length 1 and 2 (extension
\* nodes), siblings under one branch, the empty key
K5 == {<<1>>, <<1, 2>>, <<1, 2, 1>>, <<1, 2, 3>>, <<3, 1>>}
K6 == {<<1>>, <<1, 2>>, <<1, 2, 1>>, <<1, 2, 3>>, <<3, 1, 1>>, <<3, 1, 2>>}
K8 == {<<>>, <<1>>, <<1, 2>>, <<1, 2, 1>>, <<1, 2, 3>>, <<3, 1, 1>>, <<3, 1, 2>>, <<2, 2, 2>>}
\* all keys of length exactly 3 below two first symbols: prefix-free (StackTrie applies everywhere)
K7 == {<<1>>, <<1, 1, 1>>, <<1, 1, 2>>, <<1, 2, 1>>, <<2, 1>>, <<2, 1, 1>>, <<3, 3, 3>>}
F6 == {<<1, 1, 1>>, <<1, 1, 2>>, <<1, 2, 1>>, <<2, 1, 1>>, <<2, 3, 3>>, <<3, 3, 3>>}
RECURSIVE SeqsUpTo(_)
SeqsUpTo(n) == IF n = 0 THEN {<<>>}
               ELSE LET S == SeqsUpTo(n - 1) IN S \cup {Append(s, x) : s \in S, x \in 1..NSym}
KAll2 == SeqsUpTo(2) \ {<<>>}
KAll3 == SeqsUpTo(3) \ {<<>>}
OpsAll == {"update", "delete", "get", "prove", "hash", "commit", "reload", "stack", "verify", "corrupt", "copy", "swap"}
OpsNoCopy == OpsAll \ {"copy", "swap"}
\* two handles: modifications through one while the other is alive (nodes shared in memory), commit replaces nodes
OpsCopy == {"update", "delete", "commit", "copy", "swap"}
KC == {<<1, 1, 1>>, <<1, 1, 2>>, <<1, 2>>, <<2, 1>>}
V1 == {1}
V2 == {1, 2}
CA == {<<1>>, <<1, 2>>, <<3, 3>>}
C7 == {<<1>>, <<1, 1, 2>>, <<2, 1>>}
C8 == {<<>>, <<1, 2>>, <<3, 1, 2>>}
=============================================================================
