SPECIFICATION TraceSpec
CONSTANTS
  NSym = 3
  Keys <- TraceKeys
  Vals <- TraceVals
  CheckKeys <- TraceCheck
  MaxOps = 1000000
  Ops <- TraceOps
  KeepHist = FALSE
INVARIANTS ObservationsConform Canonical GetMatchesContent OtherCanonical CommitReloadPreserves ProofComplete AbsenceProvable ProofSound StackTrieEqualsTrie
POSTCONDITION TraceAccepted
CHECK_DEADLOCK FALSE
