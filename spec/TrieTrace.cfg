SPECIFICATION TraceSpec
CONSTANTS
  NSym = 3
  Keys <- TraceKeys
  Vals <- TraceVals
  CheckKeys <- TraceCheck
  MaxOps = 1000000
  KeepHist = FALSE
INVARIANTS ObservationsConform Canonical GetMatchesContent CommitReloadPreserves ProofComplete AbsenceProvable ProofSound StackTrieEqualsTrie
POSTCONDITION TraceAccepted
CHECK_DEADLOCK FALSE
