--------------------------- MODULE MCEtxRouteMulti ---------------------------
(* Bounded instances of EtxRouteMulti: a region with three zones (expansion 3: 2 x 3, the other region only as a     *)
(* destination) and prime above two regions with two zones each (expansion 2: 2 x 2).                                *)
EXTENDS EtxRouteMulti

RegionLocs == {<<0, 0>>, <<0, 1>>, <<0, 2>>}
RegionDests == << <<0, 0>>, <<0, 1>>, <<0, 2>>, <<1, 0>> >>
PrimeLocs == {<<0, 0>>, <<0, 1>>, <<1, 0>>, <<1, 1>>}
PrimeDests == << <<0, 0>>, <<0, 1>>, <<1, 0>>, <<1, 1>> >>
Prime3Locs == {<<0, 0>>, <<1, 0>>, <<2, 0>>, <<2, 1>>}
Prime3Dests == << <<0, 0>>, <<1, 0>>, <<2, 0>>, <<2, 1>> >>
ExpRegion == {0, 3}
ExpRegionHi == {3}
ExpPrime == {0, 2}
ExpPrimeHi == {2}
ExpPrime3 == {0, 4}
SubAlt(id) == {1 + (id % 2)}
SubOne(id) == {1}
SubBoth(id) == {1, 2}
Cold == {TRUE}
Warm == {FALSE}
ColdOrWarm == {TRUE, FALSE}
=============================================================================
