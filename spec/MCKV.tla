------------------------------ MODULE MCKV ------------------------------
EXTENDS KV
\* quick: three prefix-related keys, two values, two batches
\* symbols 1..4 stand for the bytes 00, 61, 62, ff (harness/cmd/kvdrv): <<2, 4>> = 61 ff is a prefix ending in ff with the
\* live key <<3>> = 62 right behind its true upper bound
K3 == {<<2>>, <<2, 4>>, <<3>>}
K4 == {<<2>>, <<2, 4>>, <<3>>, <<1, 1>>}
V2 == {0, 1}
V3 == {0, 1, 2}
P2 == {<<>>, <<2>>, <<2, 4>>}
P3 == {<<>>, <<2>>, <<2, 4>>, <<1>>}
S2 == {<<>>, <<4>>}
B1 == {1}
B2 == {1, 2}
=============================================================================
