------------------------------ MODULE TrieGC ------------------------------
(***************************************************************************)
(* The node database behind go-quai's tries (trie.Database, trie/          *)
(* database.go) as the state code uses it: Trie.Commit moves the nodes of  *)
(* a trie into the database's memory cache, Reference / Dereference of a   *)
(* root against the meta root (common.Hash{}) keep it alive or let the     *)
(* garbage collector take it, Database.Commit(root) / Cap write to disk.   *)
(* Clause of C18: the root of a trie "survives commit and reload from the  *)
(* database".                                                              *)
(*                                                                         *)
(* The specification is about the INTERFACE.  A committed root is          *)
(* identified by its CONTENT (a root hash is a function of the content, -> *)
(* Trie.tla): two commits of equal content are the same root and the same  *)
(* nodes, and contents that share keys share nodes.  What must hold:       *)
(*   a root stays completely loadable (trie.New + every key readable,      *)
(*   exactly its content) from the moment Trie.Commit returned it until    *)
(*   the LAST of its references has been dropped (as many Dereference as   *)
(*   Reference calls), and for ever once Database.Commit(root) / Cap(0)    *)
(*   returned nil - also through a fresh trie.Database on the same disk.   *)
(*   A failed disk write leaves everything loadable that was.              *)
(* Everything else (a root never referenced and dereferenced, a root whose *)
(* last reference is gone) is unspecified: it may or may not load.         *)
(*                                                                         *)
(* Two layers: the contract (ghost variables refs, held, flushed: what the *)
(* caller was promised) and a minimal mechanism (cached, cnt, disk: what a *)
(* reference-counting database keeps).  The invariants say the mechanism   *)
(* honours the contract; two switches turn known ways of breaking it on    *)
(* (lead configurations: TLC must find the violation).  The internal       *)
(* per-node parent counters of trie/database.go are deliberately NOT       *)
(* modelled: node sharing is exercised by replaying every behaviour on the *)
(* real database (harness/cmd/triedrv gc).                                 *)
(***************************************************************************)
EXTENDS Integers, Sequences, FiniteSets, TLC, SequencesExt, Json

CONSTANTS Keys,              \* keys of the model (sequences over 1..3, as in Trie.tla)
          Vals,              \* non-empty values (positive integers)
          MaxOps,            \* bound on the number of calls in a behaviour
          MaxRef,            \* bound on outstanding references per root
          KeepHist,          \* record the call history (to emit behaviours)
          Ops,               \* names of the calls enabled in this model
          Prelude,           \* emitting models: the first calls of every behaviour are these (<<>>: none), the rest is free
          CountMetaRefs,     \* mechanism: every Reference(root, meta root) is counted (trie/database.go reference():
                             \*   "If the reference already exists, only duplicate for roots")
          UncacheAfterWrite  \* mechanism: nodes leave the memory cache only after the disk write succeeded
                             \*   (Database.Cap / Database.Commit: "only uncaching existing data when the database write finalizes")

NoVal == 0
Empty == [k \in Keys |-> NoVal]

VARIABLES h,        \* content of the trie handle the caller works on (trie.Trie / trie.SecureTrie)
          base,     \* content of the root the handle was opened at / last committed as: its unmodified nodes are
                    \*   not written again by Trie.Commit, they have to be in the database already
          refs,     \* contract: known root (content) -> outstanding Reference(root, {}) calls; DOMAIN = roots ever committed
          held,     \* contract: roots the memory cache owes the caller (committed, last reference not yet dropped)
          flushed,  \* contract: roots for which Database.Commit / Cap returned nil
          cached,   \* mechanism: roots whose trie is in the memory cache
          cnt,      \* mechanism: root -> references the database counted
          disk,     \* mechanism: roots whose trie is on disk
          step, obs, hist

vars == <<h, base, refs, held, flushed, cached, cnt, disk, step, obs, hist>>
view == <<h, base, refs, held, flushed, cached, cnt, disk, step>>

Known == DOMAIN refs

\* byte order on keys (the harness embedding of symbols is monotone)
RECURSIVE LexLess(_, _)
LexLess(a, b) ==
    IF a = <<>> THEN b # <<>>
    ELSE IF b = <<>> THEN FALSE
    ELSE IF a[1] < b[1] THEN TRUE
    ELSE IF a[1] > b[1] THEN FALSE
    ELSE LexLess(Tail(a), Tail(b))

\* a content as the sorted sequence of its <<key, value>> pairs (what the harness is told / logs)
ContentSeq(cn) ==
    LET ks == SetToSortSeq({k \in Keys : cn[k] # NoVal}, LexLess) IN [i \in 1..Len(ks) |-> <<ks[i], cn[ks[i]]>>]
ContentSeqs(S) == LET s == SetToSeq(S) IN [i \in 1..Len(s) |-> ContentSeq(s[i])]

\* contract: must root c load completely?  (the empty trie has no nodes: it always loads)
MustSet(hd, fl) == hd \cup fl \cup {Empty}
Must(c) == c \in MustSet(held, flushed)
\* mechanism: does it?
Loadable(c) == c = Empty \/ c \in cached \/ c \in disk

----------------------------------------------------------------------------
Rec(op, c) == [op |-> op, k |-> <<>>, v |-> 0, c |-> ContentSeq(c)]

\* every call record carries the specified result, the handle's content after the call and the specified
\* observation of the database after the call: roots that must load from the live database (must), roots that
\* must load through a fresh trie.Database on the same disk (disk), known roots about which nothing is promised (may);
\* bm: the root the handle builds on is still promised (else the handle is dead: its reads and updates may fail)
Log(rec, o) ==
    /\ obs'  = o
    /\ hist' = IF KeepHist
               THEN Append(hist, rec @@ [res  |-> o, h |-> ContentSeq(h'), bm |-> base' \in MustSet(held', flushed'),
                                          must |-> ContentSeqs(MustSet(held', flushed') \cap DOMAIN refs'),
                                          disk |-> ContentSeqs(flushed'),
                                          may  |-> ContentSeqs(DOMAIN refs' \ MustSet(held', flushed'))])
               ELSE hist
    /\ step' = step + 1
On(name) == name \in Ops
OK  == <<"ok">>
ERR == <<"err">>

Init ==
    /\ h = Empty /\ base = Empty
    /\ refs = (Empty :> 0) /\ cnt = (Empty :> 0)
    /\ held = {} /\ flushed = {} /\ cached = {} /\ disk = {}
    /\ step = 0 /\ obs = <<"init">> /\ hist = <<>>

\* Trie.TryUpdate(key, value) on the handle (an empty value deletes): nothing reaches the database
Update(k, v) ==
    /\ v # h[k]
    /\ h' = [h EXCEPT ![k] = v]
    /\ UNCHANGED <<base, refs, held, flushed, cached, cnt, disk>>
    /\ Log([op |-> "update", k |-> k, v |-> v, c |-> <<>>], OK)

\* Trie.Commit(onleaf): the modified nodes of the handle enter the memory cache (database.insert), unmodified ones are
\* expected to be there already - so the root the handle is based on has to be alive.  No reference yet: the caller
\* references the returned root next (StateProcessor: Reference(root, common.Hash{})).
TCommit ==
    /\ Must(base)
    /\ refs' = IF h \in Known THEN refs ELSE refs @@ (h :> 0)
    /\ cnt'  = IF h \in Known THEN cnt  ELSE cnt  @@ (h :> 0)
    /\ held' = held \cup {h}
    /\ cached' = cached \cup {h}
    /\ base' = h
    /\ UNCHANGED <<h, flushed, disk>>
    /\ Log(Rec("tcommit", h), <<"root", ContentSeq(h)>>)       \* the root returned is the root of exactly this content

\* Database.Reference(root(c), common.Hash{})
Ref(c) ==
    /\ c \in Known /\ Must(c) /\ refs[c] < MaxRef
    /\ refs' = [refs EXCEPT ![c] = @ + 1]
    /\ cnt'  = IF c \in cached /\ (CountMetaRefs \/ cnt[c] = 0) THEN [cnt EXCEPT ![c] = @ + 1] ELSE cnt
    /\ UNCHANGED <<h, base, held, flushed, cached, disk>>
    /\ Log(Rec("ref", c), OK)

\* Database.Dereference(root(c)): the garbage collector may take the trie when the last reference goes
Deref(c) ==
    /\ c \in Known /\ refs[c] > 0
    /\ refs' = [refs EXCEPT ![c] = @ - 1]
    /\ held' = IF refs[c] = 1 THEN held \ {c} ELSE held
    /\ cnt'  = [cnt EXCEPT ![c] = IF @ > 0 THEN @ - 1 ELSE 0]
    /\ cached' = IF cnt'[c] = 0 THEN cached \ {c} ELSE cached
    /\ UNCHANGED <<h, base, flushed, disk>>
    /\ Log(Rec("deref", c), OK)

\* Database.Commit(root(c), false, nil) returns nil: the whole trie is on disk (and leaves the memory cache)
Flush(c) ==
    /\ c \in Known /\ Must(c)
    /\ flushed' = flushed \cup {c}
    /\ disk' = IF Loadable(c) THEN disk \cup {c} ELSE disk     \* a trie that is not there is not written - and Commit still succeeds
    /\ cached' = cached \ {c}
    /\ cnt' = [cnt EXCEPT ![c] = 0]
    /\ UNCHANGED <<h, base, refs, held>>
    /\ Log(Rec("flush", c), OK)

\* Database.Commit(root(c)) while the disk refuses the write: an error, and nothing is lost
FlushFail(c) ==
    /\ c \in Known /\ Must(c)
    /\ cached' = IF UncacheAfterWrite THEN cached ELSE cached \ {c}
    /\ UNCHANGED <<h, base, refs, held, flushed, cnt, disk>>
    /\ Log(Rec("flushfail", c), ERR)

\* Database.Cap(0): every node of the memory cache is written out
Cap ==
    /\ flushed' = flushed \cup held
    /\ disk' = disk \cup cached
    /\ cached' = {}
    /\ cnt' = [c \in Known |-> 0]
    /\ UNCHANGED <<h, base, refs, held>>
    /\ Log(Rec("cap", Empty), OK)

CapFail ==
    /\ cached' = IF UncacheAfterWrite THEN cached ELSE {}
    /\ UNCHANGED <<h, base, refs, held, flushed, cnt, disk>>
    /\ Log(Rec("capfail", Empty), ERR)

\* trie.New(root(c), db) for a root that must be there, every key read: the caller goes on with this handle
\* (uncommitted changes of the old one are gone)
Open(c) ==
    /\ c \in Known /\ Must(c) /\ ~(h = c /\ base = c)
    /\ h' = c /\ base' = c
    /\ UNCHANGED <<refs, held, flushed, cached, cnt, disk>>
    /\ Log(Rec("open", c), <<"content", ContentSeq(c)>>)

\* the process restarts: a fresh trie.Database on the same disk, all references and the memory cache are gone
Reopen ==
    /\ h' = Empty /\ base' = Empty
    /\ refs' = [c \in Known |-> 0] /\ cnt' = [c \in Known |-> 0]
    /\ held' = {} /\ cached' = {}
    /\ UNCHANGED <<flushed, disk>>
    /\ Log(Rec("reopen", Empty), OK)

Next ==
    /\ step < MaxOps
    /\ \/ \E k \in Keys, v \in Vals \cup {NoVal} : On("update") /\ Update(k, v)
       \/ (On("tcommit") /\ TCommit)
       \/ \E c \in Known : \/ (On("ref") /\ Ref(c)) \/ (On("deref") /\ Deref(c)) \/ (On("flush") /\ Flush(c))
                           \/ (On("flushfail") /\ FlushFail(c)) \/ (On("open") /\ Open(c))
       \/ (On("cap") /\ Cap) \/ (On("capfail") /\ CapFail) \/ (On("reopen") /\ Reopen)

Spec == Init /\ [][Next]_vars

----------------------------------------------------------------------------
TypeOK ==
    /\ h \in [Keys -> Vals \cup {NoVal}] /\ base \in [Keys -> Vals \cup {NoVal}]
    /\ \A c \in Known : refs[c] \in 0..MaxRef /\ cnt[c] \in 0..MaxRef
    /\ DOMAIN cnt = Known
    /\ held \subseteq Known /\ flushed \subseteq Known /\ cached \subseteq Known /\ disk \subseteq Known

\* a reference is only ever held on a root the contract covers
ReferencedRootsHeld == \A c \in Known : refs[c] > 0 => Must(c)

\* a root with an outstanding reference (or committed and not yet released, or flushed) is completely loadable
LiveRootsLoadable == \A c \in Known : (refs[c] > 0 \/ Must(c)) => Loadable(c)

\* a root reported as written is on disk: a fresh trie.Database on the same disk opens it
FlushedRootsSurviveReopen == \A c \in flushed : c = Empty \/ c \in disk

\* what the handle builds on is there when it commits
HandleBaseLoadable == Must(base) => Loadable(base)

\* emit every explored behaviour for replay on the implementation; with a prelude only the behaviours that begin
\* with it are explored (needs KeepHist): depth is spent where roots are alive side by side
Guided == step < Len(Prelude) =>
              LET r == hist'[step + 1] p == Prelude[step + 1] IN r.op = p.op /\ r.k = p.k /\ r.v = p.v
EmitHist == Guided /\ PrintT("@@" \o ToJson(hist'))
=============================================================================
