SPECIFICATION Spec
CONSTANTS
  Ctx = 1
  Locs <- RegionLocs
  DestSeq <- RegionDests
  MaxBlocks = 4
  ForkWindow = 2
  ExpChoices <- ExpRegion
  SubChoices <- SubAlt
  Canonical = FALSE
  MaxQueries = 1
  RestartChoices <- Cold
  SeedCacheKey = FALSE
INVARIANTS WalkIsDefined AtMostOnce OnlyAtDestination NoneLost NotEarly OnlyViaPrime OrderFixedByDom RoutesPartition IntraRegionStaysBelowPrime CacheCoherent CacheTransparent
ACTION_CONSTRAINT EmitHist
CHECK_DEADLOCK FALSE
