SPECIFICATION Spec
CONSTANTS
  NA = 2
  MaxNonce = 1
  Prices <- P12
  InitBal <- BalAll3
  BalChoices <- BalSet2
  BodyPrices <- P2
  MaxBody = 1
  MaxBlocks = 2
  MaxReorg = 1
  Floors <- F2
  AccountSlots = 1
  GlobalSlots = 1
  AccountQueue = 1
  GlobalQueue = 1
  PriceBump = 60
  MaxOps = 2
  ChanCap = 1
  Fused = FALSE
  EvictAllOnly = FALSE
  KeepHist = FALSE
VIEW view
INVARIANTS TypeOK PendingQueueDisjoint IndexesAgree CapacityRespected
           PendingStartsAtStateNonce PendingAffordable PendingNonceAgrees LimitsRespected
PROPERTIES ReplacementNeedsBump HolesOnlyFromRefusedReinject
CHECK_DEADLOCK TRUE
