SPECIFICATION Spec
CONSTANTS
  OpFacts <- AllFacts
  Sizes <- SizesSmall
  ConstGas <- Const2
  OtherGas <- Other1
  Gives <- Gives2
  GasLimit = 6000
  MaxOps = 3
  MaxDepth = 2
VIEW view
INVARIANTS TypeOK MemoryPaid
CHECK_DEADLOCK FALSE
