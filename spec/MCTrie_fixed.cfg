SPECIFICATION Spec
CONSTANTS
  NSym = 3
  Keys <- F6
  Vals <- V2
  CheckKeys <- F6
  MaxOps = 5
  Ops <- OpsAll
  KeepHist = FALSE
VIEW view
INVARIANTS TypeOK Canonical GetMatchesContent OtherCanonical CommitReloadPreserves ProofComplete AbsenceProvable EmptyTrieHasNoProof ProofSound CorruptedProofRejectedOrSameValue StackTrieEqualsTrie
CHECK_DEADLOCK FALSE
