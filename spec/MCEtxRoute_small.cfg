SPECIFICATION Spec
CONSTANTS
  MaxBlocks = 4
  MaxEmit = 1
  MinInclusion = 1
VIEW view
INVARIANTS InboundIsDefined QueueIsDefined AtMostOnce OnlyEmitted OrderFixedByDom NoneLost NotEarly
CHECK_DEADLOCK FALSE
