----------------------------- MODULE CodecFuzz -----------------------------
(***************************************************************************)
(* The defect lattice of C15(a).  For every input carrier of the node      *)
(* (gossip payloads, p2p request/response frames, raw RPC submissions,     *)
(* database records) and every protobuf message type that occurs inside a  *)
(* valid carrier, TLC enumerates every assignment that marks at most       *)
(* MaxDefects fields of that message as                                    *)
(*   missing   -- the field is not on the wire,                            *)
(*   truncated -- bytes cut in half / a list one element short / a         *)
(*                sub-message with only its first field / an integer 0,    *)
(*   oversized -- bytes of 33, 65 or 70000 bytes / a list with 300         *)
(*                elements / an all-ones integer,                          *)
(*   wrongkind -- a value of another kind: an out-of-range tag, bytes of   *)
(*                another width, an empty sub-message, a sibling oneof,    *)
(* all other fields present and valid.  harness/cmd/codecdrv (fuzz)        *)
(* applies each assignment to valid instances through protobuf reflection  *)
(* and feeds the bytes to every production entry point of the carrier.     *)
(* Specified outcome of every case, for every entry point: Outcome below.  *)
(***************************************************************************)
EXTENDS Integers, Sequences, FiniteSets, TLC, Json, CodecFuzzTables

CONSTANT MaxDefects

Defects == {"missing", "truncated", "oversized", "wrongkind"}

VARIABLES carrier, msg, assign, emitted
vars == <<carrier, msg, assign, emitted>>

FieldSets(F) ==
    IF MaxDefects = 0 THEN {{}}
    ELSE IF MaxDefects = 1 THEN {{}} \cup {{f} : f \in F}
    ELSE {{}} \cup {{f, g} : f \in F, g \in F}

Init ==
    \E k \in Carriers : \E m \in MsgsOf(k) : \E S \in FieldSets(FieldsOfMsg(m)) : \E a \in [S -> Defects] :
        /\ carrier = k /\ msg = m /\ assign = a /\ emitted = FALSE

\* the property C15(a) for one input: the entry point terminates with a value or an error
Outcome == {"value", "error"}

Emit ==
    /\ ~emitted
    /\ emitted' = TRUE
    /\ PrintT("@@" \o ToJson([carrier |-> carrier, msg |-> msg, defects |-> assign]))
    /\ UNCHANGED <<carrier, msg, assign>>

Next == Emit
Spec == Init /\ [][Next]_vars

TypeOK ==
    /\ carrier \in Carriers /\ msg \in MsgsOf(carrier)
    /\ DOMAIN assign \subseteq FieldsOfMsg(msg)
    /\ Cardinality(DOMAIN assign) <= MaxDefects
    /\ \A f \in DOMAIN assign : assign[f] \in Defects
=============================================================================
