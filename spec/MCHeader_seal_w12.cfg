SPECIFICATION Spec
CONSTANTS
  Part = "seal"
  W = 12
  Kinds <- KAll
  MaxOps = 2
  MaxBlocks = 0
  IntrVals <- X3
  DtVals <- T3
  WithDeviations = FALSE
  WithCache = FALSE
INVARIANTS AcceptIffHashLeTarget ShareAcceptedOnlyIfHashLeTarget SealCoversEveryConsensusField OutsideFieldsNotSealed NoSealReuse AuxPowBindsSealHash
VIEW view
ACTION_CONSTRAINT EmitHist
CHECK_DEADLOCK FALSE
