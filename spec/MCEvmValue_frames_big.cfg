SPECIFICATION Spec
CONSTANTS
  EOAs <- E2
  Contracts <- K2
  InitBal <- BalSmall22
  InitWq <- Wq22
  InitLock <- Lock22
  LockVal = 2
  LowGas = 1
  GasUnit = 1
  MaxGasSteps = 2
  Prices <- P1
  IntrinsicGas = 2
  TxGas = 2
  Rent = 1
  MinConv = 2
  TxValues <- V01
  CallValues <- V01
  Regimes <- RBG
  Prefills <- PF0
  TxKinds <- TKBasicIn
  OpKinds <- OKNone
  DestClasses <- DAll
  AmtClasses <- AAll
  GlClasses <- GAll
  FeeClasses <- FAll
  AlClasses <- ALAll
  FrameKinds <- FKOld
  CallTargets <- AnyAcct
  TxTargets <- AnyAcct
  Benefs <- AnyAcct
  WpOps <- WPNone
  MaxDepth = 2
  MaxFrameOps = 2
  MaxTx = 1
  UsedMode = "all"
  GrindFail = TRUE
VIEW view
INVARIANTS TypeOK NoNegative NoCreation ExactUnlessBurn EtxBacked ChargeWithinBounds FailedTxTouchesOnlyPayer FailedEtxTouchesNothing AllOrNothing StackDiscipline IndexFresh BlockOutboundIsConcatOfSurvivors
CHECK_DEADLOCK FALSE
