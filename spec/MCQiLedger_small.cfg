SPECIFICATION Spec
CONSTANTS
  Genesis <- G
  Txs <- T
  DenomValue <- DV
  RYW = TRUE
  BaseFeeOn = FALSE
  MaxTxPerBlock = 3
  MaxBlocks = 2
VIEW view
INVARIANTS SpentAtMostOnce NoValueFromNothing OutputsOnlyLocalQi
CHECK_DEADLOCK FALSE
