---------------------------- MODULE EtxRouteTrace ----------------------------
(***************************************************************************)
(* Trace validation for EtxRoute.tla on the traces of harness/cmd/chaindrv *)
(* (the same files ZoneChainTrace.tla reads): for every block the real     *)
(* node mined and appended - on any branch - the driver logs its order,    *)
(* the ETXs it emits (identity = originating tx hash + index, conversion   *)
(* flag), the inbound ETXs it executes, the inbound set the dominant chain *)
(* made available with it (rawdb.ReadInboundEtxs) and the destination      *)
(* queue read from the state opened at the block's EVM/ETX roots.  Each    *)
(* must equal what the specification derives from the block tree.          *)
(***************************************************************************)
EXTENDS EtxRoute

Trace == ndJsonDeserialize("zctrace.ndjson")
VARIABLES l, mismatch
tvars == <<vars, l, mismatch>>
TraceInit == Init /\ l = 1 /\ mismatch = <<>>
Ev == Trace[l]

Skip == /\ l <= Len(Trace) /\ Ev.op # "mine"
        /\ l' = l + 1 /\ UNCHANGED <<vars, mismatch>>

TraceMine ==
    /\ l <= Len(Trace) /\ Ev.op = "mine"
    /\ LET id == Ev.b
           emit == [i \in DOMAIN Ev.etx_emit |-> <<Ev.etx_emit[i][1], Ev.etx_emit[i][2]>>]
           av == queue[Ev.p] \o InboundI(Ev.p) IN
       /\ blocks' = blocks @@ (id :> [parent |-> Ev.p, order |-> Ev.order, emit |-> emit, exec |-> Ev.etx_exec])
       /\ Accumulate(id, Ev.p, Ev.order, emit)
       /\ queue' = queue @@ (id :> IF Len(Ev.etx_exec) <= Len(av) THEN SubSeq(av, Len(Ev.etx_exec) + 1, Len(av)) ELSE <<>>)
       /\ mismatch' =
            IF mismatch # <<>> THEN mismatch
            ELSE IF ~ExecValid(Ev.p, Ev.etx_exec) THEN <<l, "executed-not-queue-prefix", Ev.etx_exec, av>>
            ELSE IF Ev.etx_altered # <<>> THEN <<l, "etx-altered-or-unknown", Ev.etx_altered>>
            ELSE IF ~Ev.etx_queue_ok THEN <<l, "queue-not-readable-at-committed-root">>
            ELSE <<>>
    /\ l' = l + 1 /\ UNCHANGED <<nextEtx, hist>>

\* comparisons that need the new block in the tree are made on the state after the step
CheckLast ==
    mismatch = <<>> /\ l > 1 /\ Trace[l - 1].op = "mine" =>
        LET e == Trace[l - 1] IN
        /\ InboundI(e.b) = e.etx_inbound
        /\ queue[e.b] = e.etx_queue

\* nothing is executed twice along the chain that ends in the new block
ExecOnce ==
    l > 1 /\ Trace[l - 1].op = "mine" => NoDup(ExecAlong(Trace[l - 1].b))

TraceNext == Skip \/ TraceMine
TraceSpec == TraceInit /\ [][TraceNext]_tvars

StepConforms == mismatch = <<>>
TraceAccepted == TLCGet("stats").diameter - 1 = Len(Trace)
=============================================================================
