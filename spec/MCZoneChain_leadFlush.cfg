SPECIFICATION Spec
CONSTANTS
  Outs <- O2
  MaxBlocks = 1
  MaxHeight = 2
  TrimDepth = 2
  MaxSteps = 8
  WithCrash = TRUE
  HeadInBatch = TRUE
  CrashInHeadWindow = TRUE
  WithTamper = FALSE
  SpendTrimCandidate = FALSE
  FlushBlockBatchMidway <- MCTrue
VIEW view
INVARIANTS NoHalfApply
CHECK_DEADLOCK FALSE
