SPECIFICATION Spec
CONSTANTS
  NAddr = 14
  NSlot = 1
  Vals <- V02
  Amts <- A01
  Genesis <- GenEL
  HasLock <- LockEL
  Ops <- OpsES
  MaxMut = 10
  MaxSnap = 7
  MaxDepth = 4
  MaxTx = 0
  FrameAddr <- FrEL
  NewAddrs <- NewEL
  XferTo <- XferEL
  Benef = 9
VIEW view
INVARIANTS TypeOK AccessListWellFormed AlwaysRevertible
PROPERTIES RevertRestores SiblingsUntouched
ACTION_CONSTRAINT EmitHist
CHECK_DEADLOCK FALSE
