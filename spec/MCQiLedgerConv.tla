---------------------------- MODULE MCQiLedgerConv ----------------------------
(* The Qi ledger with a non-zero base fee and Qi->Quai conversion transactions (BaseFeeOn = TRUE):                     *)
(* conversion outputs are aggregated into one ETX and are not stored, they count as handed out (so the fee is          *)
(* inputs - stored - sent - converted), all of them name one recipient, and a transaction without a fee is refused.   *)
EXTENDS QiLedger
DV == (0 :> 1) @@ (1 :> 5) @@ (2 :> 10)

G == (<<"g1", 0>> :> [d |-> 2, owner |-> "A", lock |-> 0]) @@
     (<<"g2", 0>> :> [d |-> 2, owner |-> "A", lock |-> 0]) @@
     (<<"g3", 0>> :> [d |-> 1, owner |-> "B", lock |-> 0]) @@
     (<<"g4", 0>> :> [d |-> 2, owner |-> "B", lock |-> 0])

In(o, k) == [o |-> o, key |-> k]
Out(d, to) == [d |-> d, to |-> to]
Tx(ins, outs, sig, chain) == [ins |-> ins, outs |-> outs, sig |-> sig, chain |-> chain, data |-> ""]
TxC(ins, outs, sig, chain) == [ins |-> ins, outs |-> outs, sig |-> sig, chain |-> chain, data |-> "conv"]

T == ("c1"  :> TxC(<<In(<<"g1", 0>>, "A")>>, <<Out(1, "quai:C"), Out(0, "qi:D")>>, "ok", "ours")) @@                  \* 10 -> convert 5, keep 1, fee 4
     ("c2"  :> TxC(<<In(<<"g2", 0>>, "A")>>, <<Out(1, "quai:C"), Out(0, "quai:C"), Out(0, "quai:C")>>, "ok", "ours")) @@ \* three conversion outputs, one recipient; fee 3
     ("c3"  :> TxC(<<In(<<"g2", 0>>, "A")>>, <<Out(1, "quai:C"), Out(0, "quai:D")>>, "ok", "ours")) @@                 \* two recipients
     ("c4"  :> TxC(<<In(<<"g3", 0>>, "B")>>, <<Out(1, "quai:C")>>, "ok", "ours")) @@                                   \* converts everything: no fee
     ("c5"  :> TxC(<<In(<<"g3", 0>>, "B")>>, <<Out(0, "quai:C"), Out(0, "quai:C"), Out(0, "qi:E")>>, "ok", "ours")) @@ \* 5 -> convert 2, keep 1, fee 2
     ("c6"  :> TxC(<<In(<<"g4", 0>>, "B")>>, <<Out(1, "quai:C"), Out(1, "quai:C"), Out(0, "qi:E")>>, "ok", "ours")) @@ \* converted + stored exceed the input
     ("c7"  :> TxC(<<In(<<"g4", 0>>, "B")>>, <<Out(1, "quai:C"), Out(0, "zoneB:D"), Out(0, "qi:E")>>, "ok", "ours")) @@ \* conversion + output to another zone
     ("c8"  :> TxC(<<In(<<"c1", 2>>, "D"), In(<<"g3", 0>>, "B")>>, <<Out(1, "quai:C")>>, "ok", "ours")) @@             \* spends c1's stored output; fee 1
     ("c9"  :> TxC(<<In(<<"g1", 0>>, "A")>>, <<Out(1, "quai:C"), Out(0, "qi:D")>>, "bad", "ours")) @@                  \* conversion with a foreign signature
     ("n1"  :> Tx(<<In(<<"g2", 0>>, "A")>>, <<Out(1, "qi:C")>>, "ok", "ours")) @@                                      \* plain, fee 5
     ("n2"  :> Tx(<<In(<<"g1", 0>>, "A")>>, <<Out(1, "qi:C"), Out(1, "qi:D")>>, "ok", "ours")) @@                      \* plain split without a fee
     ("n3"  :> Tx(<<In(<<"g4", 0>>, "B")>>, <<Out(1, "quai:C"), Out(0, "qi:E")>>, "ok", "ours"))                       \* Quai address WITHOUT conversion data

GKey(o) == o[1] \o ":" \o ToString(o[2])
DefsJson == ToJson([txs |-> T,
                    genesis |-> [k \in {GKey(o) : o \in DOMAIN G} |-> G[CHOOSE o \in DOMAIN G : GKey(o) = k]]])
ASSUME PrintT("@@DEFS" \o DefsJson)
=============================================================================
