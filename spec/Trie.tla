------------------------------- MODULE Trie -------------------------------
(***************************************************************************)
(* The Merkle-Patricia trie of go-quai (trie.Trie / trie.SecureTrie /      *)
(* trie.StackTrie) as consensus code relies on it.  Decides C18.           *)
(* Anchors: trie/trie.go (insert, delete, tryGet), trie/hasher.go,         *)
(* trie/committer.go, trie/database.go, trie/proof.go (Prove, VerifyProof),*)
(* trie/stacktrie.go (insert), core/types/hashing.go (DeriveSha).          *)
(*                                                                         *)
(* Keys are sequences over a tiny nibble alphabet 1..NSym; the harness     *)
(* embeds a symbol as a fixed nibble pattern so that abstract shared       *)
(* prefixes are real shared nibble prefixes.  Values are small positive    *)
(* integers (the harness maps them to short = embedded or long = hashed    *)
(* byte strings); NoVal = 0 is the empty value, i.e. "delete"/"absent".    *)
(*                                                                         *)
(* A node is a record [t, p, v, c]:                                        *)
(*   E  empty            L  leaf(path p, value v)                          *)
(*   X  extension(path p # <<>>, child c[1] which is a branch)             *)
(*   B  branch(children c[1..NSym], value v or NoVal)  (go: fullNode,      *)
(*      value = Children[16])                                              *)
(* go-quai's shortNode is L (key ends with the terminator nibble) or X.    *)
(* The "hash" of a node is abstracted as the structural identity of the    *)
(* (canonical) node: two tries have the same root hash iff their root      *)
(* nodes are equal values.  A database / a proof is a SET of nodes that    *)
(* can be looked up by that identity.                                      *)
(***************************************************************************)
EXTENDS Integers, Sequences, FiniteSets, TLC, SequencesExt, Json

CONSTANTS NSym,       \* alphabet = 1..NSym
          Keys,       \* set of keys (sequences over 1..NSym) of the model
          Vals,       \* set of non-empty values (positive integers)
          CheckKeys,  \* keys the proof invariants quantify over (subset of Keys)
          MaxOps,     \* bound on the number of calls in a behaviour
          KeepHist,   \* record the call history (needed to emit behaviours; off for trace validation)
          Ops         \* names of the calls enabled in this model

NoVal  == 0     \* empty value / absent
Reject == -1    \* VerifyProof returned an error

VARIABLES root,       \* the live trie (trie.Trie.root), a node
          content,    \* ghost: the mapping the caller believes is stored, Keys -> Vals \cup {NoVal}
          store,      \* nodes written to the trie.Database by Commit (looked up by identity)
          committed,  \* Commit was called at least once
          croot,      \* root returned by the last Commit
          ccontent,   \* ghost: content at the last Commit
          oroot,      \* a second handle on the trie made by Trie.Copy (SecureTrie.Copy, state.Database.CopyTrie): its root
          ocontent,   \* ghost: the mapping the holder of the second handle believes is stored
          hasother,   \* Copy was called
          step, obs, hist

vars == <<root, content, store, committed, croot, ccontent, oroot, ocontent, hasother, step, obs, hist>>
view == <<root, content, store, committed, croot, ccontent, oroot, ocontent, hasother, step>>

----------------------------------------------------------------------------
\* node constructors
E            == [t |-> "E", p |-> <<>>, v |-> NoVal, c |-> <<>>]
Leaf(p, v)   == [t |-> "L", p |-> p,    v |-> v,     c |-> <<>>]
Ext(p, ch)   == [t |-> "X", p |-> p,    v |-> NoVal, c |-> <<ch>>]
Branch(c, v) == [t |-> "B", p |-> <<>>, v |-> v,     c |-> c]
Frozen(n)    == [t |-> "H", p |-> <<>>, v |-> NoVal, c |-> <<n>>]   \* StackTrie: hashedNode
PanicNode    == [t |-> "P", p |-> <<>>, v |-> NoVal, c |-> <<>>]    \* StackTrie: panic()
EmptyKids    == [s \in 1..NSym |-> E]

Take(s, n) == SubSeq(s, 1, n)
Drop(s, n) == SubSeq(s, n + 1, Len(s))
MaxOf(S)   == CHOOSE x \in S : \A y \in S : y <= x

\* prefixLen (trie/encoding.go)
Cpl(a, b) ==
    LET m == IF Len(a) < Len(b) THEN Len(a) ELSE Len(b)
    IN  MaxOf({i \in 0..m : \A j \in 1..i : a[j] = b[j]})

WithPrefix(pre, n) == IF pre = <<>> THEN n ELSE Ext(pre, n)

\* byte order on keys (the embedding of symbols is monotone)
RECURSIVE LexLess(_, _)
LexLess(a, b) ==
    IF a = <<>> THEN b # <<>>
    ELSE IF b = <<>> THEN FALSE
    ELSE IF a[1] < b[1] THEN TRUE
    ELSE IF a[1] > b[1] THEN FALSE
    ELSE LexLess(Tail(a), Tail(b))

----------------------------------------------------------------------------
\* trie.insert.  ro/rn: what remains of the old path / of the new key after the common prefix.
\* The branch created where they differ holds the old entry (as child oldNode, or as the branch
\* value if ro is empty) and the new one.
MkBranch(ro, oldNode, oldVal, rn, newVal) ==
    LET k1 == IF ro = <<>> THEN EmptyKids ELSE [EmptyKids EXCEPT ![ro[1]] = oldNode]
        k2 == IF rn = <<>> THEN k1 ELSE [k1 EXCEPT ![rn[1]] = Leaf(Tail(rn), newVal)]
        bv == IF ro = <<>> THEN oldVal ELSE IF rn = <<>> THEN newVal ELSE NoVal
    IN  Branch(k2, bv)

RECURSIVE Ins(_, _, _)
Ins(n, k, v) ==
    CASE n.t = "E" -> Leaf(k, v)
      [] n.t = "L" ->
            IF n.p = k THEN Leaf(k, v)                       \* whole key matches: replace the value
            ELSE LET m  == Cpl(k, n.p)
                     ro == Drop(n.p, m)
                 IN  WithPrefix(Take(k, m),
                        MkBranch(ro, IF ro = <<>> THEN E ELSE Leaf(Tail(ro), n.v), n.v, Drop(k, m), v))
      [] n.t = "X" ->
            LET m == Cpl(k, n.p) IN
            IF m = Len(n.p) THEN Ext(n.p, Ins(n.c[1], Drop(k, m), v))
            ELSE LET ro == Drop(n.p, m)                      \* never empty here
                     on == IF Len(ro) = 1 THEN n.c[1] ELSE Ext(Tail(ro), n.c[1])
                 IN  WithPrefix(Take(k, m), MkBranch(ro, on, NoVal, Drop(k, m), v))
      [] n.t = "B" ->
            IF k = <<>> THEN Branch(n.c, v)
            ELSE Branch([n.c EXCEPT ![k[1]] = Ins(n.c[k[1]], Tail(k), v)], n.v)

\* trie.delete: the canonical collapse rules.
\* A branch left with a single entry becomes a short node; short-in-short is merged.
Collapse(b) ==
    LET live == {i \in 1..NSym : b.c[i].t # "E"} IN
    IF Cardinality(live) + (IF b.v # NoVal THEN 1 ELSE 0) # 1 THEN b
    ELSE IF live = {} THEN Leaf(<<>>, b.v)                   \* pos = 16: one-nibble short node holding the value
    ELSE LET i == CHOOSE i \in live : TRUE
             ch == b.c[i]
         IN  CASE ch.t = "L" -> Leaf(<<i>> \o ch.p, ch.v)    \* child is a short node: prepend the nibble
               [] ch.t = "X" -> Ext(<<i>> \o ch.p, ch.c[1])
               [] ch.t = "B" -> Ext(<<i>>, ch)               \* otherwise a one-nibble short node

RECURSIVE Del(_, _)
Del(n, k) ==
    CASE n.t = "E" -> n
      [] n.t = "L" -> IF n.p = k THEN E ELSE n
      [] n.t = "X" ->
            IF ~IsPrefix(n.p, k) THEN n                      \* don't replace n on mismatch
            ELSE LET ch == Del(n.c[1], Drop(k, Len(n.p))) IN
                 IF ch = n.c[1] THEN n
                 ELSE (CASE ch.t = "L" -> Leaf(n.p \o ch.p, ch.v)     \* merge shortNode{shortNode}
                         [] ch.t = "X" -> Ext(n.p \o ch.p, ch.c[1])
                         [] ch.t = "B" -> Ext(n.p, ch))
      [] n.t = "B" ->
            IF k = <<>> THEN (IF n.v = NoVal THEN n ELSE Collapse(Branch(n.c, NoVal)))
            ELSE LET ch == Del(n.c[k[1]], Tail(k)) IN
                 IF ch = n.c[k[1]] THEN n
                 ELSE Collapse(Branch([n.c EXCEPT ![k[1]] = ch], n.v))

\* trie.tryGet
RECURSIVE Lookup(_, _)
Lookup(n, k) ==
    CASE n.t = "E" -> NoVal
      [] n.t = "L" -> IF n.p = k THEN n.v ELSE NoVal
      [] n.t = "X" -> IF IsPrefix(n.p, k) THEN Lookup(n.c[1], Drop(k, Len(n.p))) ELSE NoVal
      [] n.t = "B" -> IF k = <<>> THEN n.v ELSE Lookup(n.c[k[1]], Tail(k))

----------------------------------------------------------------------------
\* The canonical trie of a set of <<key, value>> pairs, defined from the content alone
\* (yellow paper, appendix D: c(J, i)); independent of Ins/Del.
RECURSIVE Build(_)
Build(S) ==
    IF S = {} THEN E
    ELSE IF Cardinality(S) = 1 THEN (LET e == CHOOSE e \in S : TRUE IN Leaf(e[1], e[2]))
    ELSE LET any == (CHOOSE e \in S : TRUE)[1]
             m   == MaxOf({i \in 0..Len(any) : \A e \in S : Len(e[1]) >= i /\ Take(e[1], i) = Take(any, i)})
         IN  IF m > 0
             THEN Ext(Take(any, m), Build({<<Drop(e[1], m), e[2]>> : e \in S}))
             ELSE Branch([s \in 1..NSym |->
                            Build({<<Tail(e[1]), e[2]>> : e \in {x \in S : x[1] # <<>> /\ x[1][1] = s}})],
                         IF \E e \in S : e[1] = <<>> THEN (CHOOSE e \in S : e[1] = <<>>)[2] ELSE NoVal)

Live(cn)  == {k \in Keys : cn[k] # NoVal}
Pairs(cn) == {<<k, cn[k]>> : k \in Live(cn)}
\* the content as a sorted sequence of <<key, value>> (what the harness is told / logs)
ContentSeq(cn) ==
    LET ks == SetToSortSeq(Live(cn), LexLess) IN [i \in 1..Len(ks) |-> <<ks[i], cn[ks[i]]>>]

----------------------------------------------------------------------------
\* committer.Commit / Database.node: every node of the trie is written; reading back
\* needs every node on the way.
RECURSIVE SubNodes(_)
SubNodes(n) ==
    IF n.t = "E" THEN {}
    ELSE {n} \cup UNION {SubNodes(n.c[i]) : i \in DOMAIN n.c}

RECURSIVE Loadable(_, _)
Loadable(S, n) == n.t = "E" \/ (n \in S /\ \A i \in DOMAIN n.c : Loadable(S, n.c[i]))

MissingNode == [t |-> "M", p |-> <<>>, v |-> NoVal, c |-> <<>>]

----------------------------------------------------------------------------
\* Trie.Prove: the nodes on the path to k, in order (ends with the node proving absence)
RECURSIVE ProofPath(_, _)
ProofPath(n, k) ==
    CASE n.t = "E" -> <<>>
      [] n.t = "L" -> <<n>>
      [] n.t = "X" -> IF IsPrefix(n.p, k) THEN <<n>> \o ProofPath(n.c[1], Drop(k, Len(n.p))) ELSE <<n>>
      [] n.t = "B" -> IF k = <<>> THEN <<n>> ELSE <<n>> \o ProofPath(n.c[k[1]], Tail(k))
      [] OTHER -> <<>>

ProofSet(n, k) == {ProofPath(n, k)[i] : i \in 1..Len(ProofPath(n, k))}
Kinds(n, k)    == [i \in 1..Len(ProofPath(n, k)) |-> ProofPath(n, k)[i].t]

\* trie.VerifyProof(rootHash = identity of `want`, key k, proofDb P):
\* a value, NoVal (absence proven) or Reject (a needed node is not in P)
RECURSIVE Ver(_, _, _)
Ver(want, k, P) ==
    IF want \notin P THEN Reject                                  \* "proof node missing"
    ELSE CASE want.t = "L" -> IF want.p = k THEN want.v ELSE NoVal
           [] want.t = "X" -> IF IsPrefix(want.p, k) THEN Ver(want.c[1], Drop(k, Len(want.p)), P) ELSE NoVal
           [] want.t = "B" -> IF k = <<>> THEN want.v
                              ELSE IF want.c[k[1]].t = "E" THEN NoVal
                              ELSE Ver(want.c[k[1]], Tail(k), P)
           [] OTHER -> Reject

\* an adversary replaces (alter) or withholds (drop) the i-th node of a proof; an altered node has
\* another identity (hash), so it can only be found under that other identity
Altered(n) == [n EXCEPT !.v = IF n.v = NoVal THEN 1 ELSE n.v + 1]
Corrupted(path, i, kind) ==
    LET rest == {path[j] : j \in (1..Len(path)) \ {i}}
    IN  IF kind = "drop" THEN rest ELSE rest \cup {Altered(path[i])}
CorruptKinds == {"drop", "alter"}

----------------------------------------------------------------------------
\* trie.StackTrie.insert: keys must arrive in ascending order; on moving to a younger sibling the
\* elder subtree is hashed (Frozen) and can no longer be modified; a key that is a prefix of
\* another (value in a branch) or an existing key is not supported (index panic / panic()).
RECURSIVE StIns(_, _, _)
StIns(n, k, v) ==
    CASE n.t = "E" -> Leaf(k, v)
      [] n.t = "L" ->
            LET m == Cpl(k, n.p) IN
            IF m >= Len(n.p) \/ m >= Len(k) THEN PanicNode
            ELSE WithPrefix(Take(k, m),
                    Branch([[EmptyKids EXCEPT ![n.p[m + 1]] = Frozen(Leaf(Drop(n.p, m + 1), n.v))]
                                       EXCEPT ![k[m + 1]]   = Leaf(Drop(k, m + 1), v)], NoVal))
      [] n.t = "X" ->
            LET m == Cpl(k, n.p) IN
            IF m = Len(n.p) THEN Ext(n.p, StIns(n.c[1], Drop(k, m), v))
            ELSE IF m >= Len(k) THEN PanicNode
            ELSE LET old == IF m < Len(n.p) - 1 THEN Ext(Drop(n.p, m + 1), n.c[1]) ELSE n.c[1] IN
                 WithPrefix(Take(k, m),
                    Branch([[EmptyKids EXCEPT ![n.p[m + 1]] = Frozen(old)]
                                       EXCEPT ![k[m + 1]]   = Leaf(Drop(k, m + 1), v)], NoVal))
      [] n.t = "B" ->
            IF k = <<>> THEN PanicNode
            ELSE LET idx   == k[1]
                     elder == {i \in 1..(idx - 1) : n.c[i].t # "E"}
                     kids  == IF elder = {} THEN n.c
                              ELSE [n.c EXCEPT ![MaxOf(elder)] = IF @.t = "H" THEN @ ELSE Frozen(@)]
                 IN  Branch([kids EXCEPT ![idx] = StIns(n.c[idx], Tail(k), v)], NoVal)
      [] OTHER -> PanicNode                                       \* "trying to insert into hash"

RECURSIVE HasPanic(_)
HasPanic(n) == n.t = "P" \/ \E i \in DOMAIN n.c : HasPanic(n.c[i])

RECURSIVE Unfreeze(_)
Unfreeze(n) ==
    IF n.t = "H" THEN Unfreeze(n.c[1])
    ELSE [n EXCEPT !.c = [i \in DOMAIN n.c |-> Unfreeze(n.c[i])]]

\* DeriveSha / VerifyRangeProof(nil proof): ordered insertion of the whole content
StackOf(cn) ==
    LET ks == SetToSortSeq(Live(cn), LexLess)
    IN  FoldLeft(LAMBDA acc, k : StIns(acc, k, cn[k]), E, ks)

PrefixFree(cn) == \A k1, k2 \in Live(cn) : k1 # k2 => ~IsPrefix(k1, k2)
StackAgrees(cn, n) == LET s == StackOf(cn) IN ~HasPanic(s) /\ Unfreeze(s) = n

----------------------------------------------------------------------------
Rec(op, k, v, k2, i, kind) == [op |-> op, k |-> k, v |-> v, k2 |-> k2, i |-> i, kind |-> kind]

\* every call record carries the specified result and the specified content after the call - of the handle the
\* call was made on (c) and of the other handle (oc; ho = there is one): a call on one handle never changes what the
\* other one holds
LogBase(rec, o) ==
    /\ obs'  = o
    /\ hist' = IF KeepHist
               THEN Append(hist, rec @@ [res |-> o, c |-> ContentSeq(content'), oc |-> ContentSeq(ocontent'), ho |-> hasother'])
               ELSE hist
    /\ step' = step + 1
Log(rec, o) == UNCHANGED <<oroot, ocontent, hasother>> /\ LogBase(rec, o)
On(name) == name \in Ops

OK == <<"ok">>

Init ==
    /\ root = E
    /\ content = [k \in Keys |-> NoVal]
    /\ store = {}
    /\ committed = FALSE
    /\ croot = E
    /\ ccontent = [k \in Keys |-> NoVal]
    /\ oroot = E /\ ocontent = [k \in Keys |-> NoVal] /\ hasother = FALSE
    /\ step = 0
    /\ obs = <<"init">>
    /\ hist = <<>>

\* Trie.TryUpdate(key, value): an empty value deletes
Update(k, v) ==
    /\ root' = IF v = NoVal THEN Del(root, k) ELSE Ins(root, k, v)
    /\ content' = [content EXCEPT ![k] = v]
    /\ UNCHANGED <<store, committed, croot, ccontent>>
    /\ Log(Rec("update", k, v, <<>>, 0, ""), OK)

\* Trie.TryDelete(key)
Delete(k) ==
    /\ root' = Del(root, k)
    /\ content' = [content EXCEPT ![k] = NoVal]
    /\ UNCHANGED <<store, committed, croot, ccontent>>
    /\ Log(Rec("delete", k, 0, <<>>, 0, ""), OK)

\* Trie.TryGet(key)
Get(k) ==
    /\ UNCHANGED <<root, content, store, committed, croot, ccontent>>
    /\ Log(Rec("get", k, 0, <<>>, 0, ""), <<"val", Lookup(root, k)>>)

\* Trie.Hash(): the observation is what the root may depend on - the content, nothing else
Hash ==
    /\ UNCHANGED <<root, content, store, committed, croot, ccontent>>
    /\ Log(Rec("hash", <<>>, 0, <<>>, 0, ""), <<"hash", ContentSeq(content)>>)

\* Trie.Commit(nil) (+ Database.Commit(root)): all nodes reach the database.  (The database is
\* content-addressed, so nodes of earlier commits that it still holds are irrelevant to any reader
\* of this root; the model keeps the nodes of the last commit only.)
Commit ==
    /\ store' = SubNodes(root)
    /\ committed' = TRUE
    /\ croot' = root
    /\ ccontent' = content
    /\ UNCHANGED <<root, content>>
    /\ Log(Rec("commit", <<>>, 0, <<>>, 0, ""), OK)

\* trie.New(lastCommittedRoot, db): uncommitted changes are gone, committed content is back
Reload ==
    /\ committed
    /\ root' = IF Loadable(store, croot) THEN croot ELSE MissingNode
    /\ content' = ccontent
    /\ UNCHANGED <<store, committed, croot, ccontent>>
    /\ Log(Rec("reload", <<>>, 0, <<>>, 0, ""), OK)

\* Trie.Prove(k) then VerifyProof(root, k, proof): value (NoVal: absence) and node kinds on the path
Prove(k) ==
    /\ UNCHANGED <<root, content, store, committed, croot, ccontent>>
    /\ Log(Rec("prove", k, 0, <<>>, 0, ""), <<"proof", Ver(root, k, ProofSet(root, k)), Kinds(root, k)>>)

\* the proof produced for k is presented for another key k2
VerifyOther(k, k2) ==
    /\ k # k2
    /\ UNCHANGED <<root, content, store, committed, croot, ccontent>>
    /\ Log(Rec("verify", k, 0, k2, 0, ""), <<"ver", Ver(root, k2, ProofSet(root, k))>>)

\* the i-th node of the proof for k is withheld or altered
CorruptProof(k, i, kind) ==
    /\ i \in 1..Len(ProofPath(root, k))
    /\ UNCHANGED <<root, content, store, committed, croot, ccontent>>
    /\ Log(Rec("corrupt", k, 0, <<>>, i, kind), <<"ver", Ver(root, k, Corrupted(ProofPath(root, k), i, kind))>>)

\* StackTrie fed with the content in key order (only specified for prefix-free key sets)
StackBuild ==
    /\ PrefixFree(content)
    /\ UNCHANGED <<root, content, store, committed, croot, ccontent>>
    /\ Log(Rec("stack", <<>>, 0, <<>>, 0, ""), <<"stack", StackAgrees(content, root)>>)

\* Trie.Copy(): a second, independent handle on the same content; the two share every node in memory
\* (copy-on-write), and from here on each is modified on its own
Copy ==
    /\ oroot' = root /\ ocontent' = content /\ hasother' = TRUE
    /\ UNCHANGED <<root, content, store, committed, croot, ccontent>>
    /\ LogBase(Rec("copy", <<>>, 0, <<>>, 0, ""), OK)

\* the caller goes on with the other handle
Swap ==
    /\ hasother
    /\ root' = oroot /\ content' = ocontent /\ oroot' = root /\ ocontent' = content
    /\ UNCHANGED <<hasother, store, committed, croot, ccontent>>
    /\ LogBase(Rec("swap", <<>>, 0, <<>>, 0, ""), OK)

MaxPath == 1 + MaxOf({Len(k) : k \in Keys} \cup {0})

Next ==
    /\ step < MaxOps
    /\ \/ \E k \in Keys, v \in Vals \cup {NoVal} : On("update") /\ Update(k, v)
       \/ \E k \in Keys : (On("delete") /\ Delete(k)) \/ (On("get") /\ Get(k)) \/ (On("prove") /\ Prove(k))
       \/ (On("hash") /\ Hash) \/ (On("commit") /\ Commit) \/ (On("reload") /\ Reload) \/ (On("stack") /\ StackBuild)
       \/ (On("copy") /\ Copy) \/ (On("swap") /\ Swap)
       \/ \E k \in CheckKeys, k2 \in CheckKeys : On("verify") /\ VerifyOther(k, k2)
       \/ \E k \in CheckKeys, i \in 1..MaxPath, kind \in CorruptKinds : On("corrupt") /\ CorruptProof(k, i, kind)

Spec == Init /\ [][Next]_vars

----------------------------------------------------------------------------
\* C18 at design level.

TypeOK ==
    /\ content \in [Keys -> Vals \cup {NoVal}]
    /\ ccontent \in [Keys -> Vals \cup {NoVal}]
    /\ root.t \in {"E", "L", "X", "B"}

\* structure = Build(content) after every operation: the root is a function of the content alone,
\* whatever the order and history of inserts, updates and deletes
Canonical == root = Build(Pairs(content))

GetMatchesContent == \A k \in Keys : Lookup(root, k) = content[k]

\* ... and so is the other handle's, whatever was done through the first one since the copy
OtherCanonical == hasother => (oroot = Build(Pairs(ocontent)) /\ \A k \in Keys : Lookup(oroot, k) = ocontent[k])

\* what Commit wrote can be read back completely and is the trie of the content at commit time
CommitReloadPreserves ==
    committed => (Loadable(store, croot) /\ croot = Build(Pairs(ccontent)))

\* a proof for a present key yields exactly the stored value
ProofComplete ==
    \A k \in CheckKeys : content[k] # NoVal => Ver(root, k, ProofSet(root, k)) = content[k]
\* a proof for an absent key proves absence (a non-empty trie; the empty trie has no nodes, so
\* there is nothing to present: VerifyProof reports "proof node 0 missing")
AbsenceProvable ==
    \A k \in CheckKeys : (content[k] = NoVal /\ root # E) => Ver(root, k, ProofSet(root, k)) = NoVal
EmptyTrieHasNoProof ==
    root = E => \A k \in CheckKeys : ProofPath(root, k) = <<>> /\ Ver(root, k, {}) = Reject
\* no proof verifies for a different value, whatever key it was produced for
ProofSound ==
    \A k \in CheckKeys, k2 \in CheckKeys : Ver(root, k2, ProofSet(root, k)) \in {Reject, content[k2]}
CorruptedProofRejectedOrSameValue ==
    \A k \in CheckKeys : \A i \in 1..Len(ProofPath(root, k)) : \A kind \in CorruptKinds :
        Ver(root, k, Corrupted(ProofPath(root, k), i, kind)) \in {Reject, content[k]}
\* the streaming hasher agrees with the full trie
StackTrieEqualsTrie == PrefixFree(content) => StackAgrees(content, root)

\* emit every explored behaviour for replay on the implementation
EmitHist == PrintT("@@" \o ToJson(hist'))
=============================================================================
