SPECIFICATION Spec
CONSTANTS
  Miners <- M3
  QiMiners <- QiM
  NewAccounts <- NewM
  Contracts <- C1
  NoCode <- NC
  Depth <- DepthQ
  Mult <- MultQ
  BonusStart = 3
  Epoch = 2
  InclDepth = 1
  MaxBlocks = 5
  MaxHeight = 4
  BaseReward = 10
  Fee = 3
  WorkShares <- WS1
  WSMiner <- WSM
  WSNumber <- WSN
  WSWeight <- WSW
  WSByte <- WSB
  CheckAmounts = TRUE
  DeepForks = FALSE
  Profiles <- ProfQ
VIEW view
ACTION_CONSTRAINT EmitHist
CHECK_DEADLOCK FALSE
