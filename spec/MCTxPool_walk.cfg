SPECIFICATION Spec
CONSTANTS
  NA = 2
  MaxNonce = 2
  Prices <- P123
  InitBal <- BalAll3
  BalChoices <- BalSet2
  BodyPrices <- P12
  MaxBody = 2
  MaxBlocks = 4
  MaxReorg = 1
  Floors <- F12
  AccountSlots = 1
  GlobalSlots = 2
  AccountQueue = 2
  GlobalQueue = 2
  PriceBump = 60
  MaxOps = 10
  ChanCap = 1
  Fused = TRUE
  EvictAllOnly = TRUE
  KeepHist = TRUE
ACTION_CONSTRAINT EmitWalk
INVARIANTS TypeOK PendingQueueDisjoint IndexesAgree CapacityRespected
           PendingStartsAtStateNonce PendingAffordable PendingNonceAgrees LimitsRespected
PROPERTIES ReplacementNeedsBump HolesOnlyFromRefusedReinject
CHECK_DEADLOCK FALSE
