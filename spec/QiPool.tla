------------------------------- MODULE QiPool -------------------------------
(***************************************************************************)
(* The Qi (UTXO) side of go-quai's transaction pool and the worker's       *)
(* selection of Qi transactions from it, as the code is.                   *)
(* Anchors: core/tx_pool.go (addTxs, addQiTxs,                             *)
(* addQiTxsWithoutValidationLocked, RemoveQiTxs, removeQiTxsLocked, reset, *)
(* loop / scheduleReorgLoop, feesGoroutine, invalidQiTxGoroutine,          *)
(* QiPoolPending), core/state_processor.go (ValidateQiTxInputs,            *)
(* ValidateQiTxOutputsAndSignature), core/worker.go (fillTransactions,     *)
(* commitTransactions, processQiTx), core/types/transaction.go             *)
(* (NewTransactionsByPriceAndNonce).                                       *)
(*                                                                         *)
(* What the code keeps: qiPool, an LRU (hash -> transaction + miner fee)   *)
(* of configured capacity; qiTxFees, a cache hash -> fee filled            *)
(* asynchronously through feesCh; nothing else (no index by outpoint).     *)
(* Consequences that this module states instead of assuming:               *)
(*  - two pooled transactions may name the same outpoint (no conflict      *)
(*    rule: both are kept; NoTwoPooledTxsConflict does NOT hold);          *)
(*  - a pooled transaction's inputs need not be unspent at the head        *)
(*    (PoolTxsSpendable does NOT hold): a block only removes the           *)
(*    transactions it CONTAINS (by hash, and only when the reset is a      *)
(*    plain one-block extension), a reorg re-injects reorged-out           *)
(*    transactions WITHOUT validation when their fee is still cached, and  *)
(*    a transaction naming one outpoint twice is admitted (its inputs are  *)
(*    summed with multiplicity);                                           *)
(*  - what does hold: every pooled transaction passed the full validation  *)
(*    against the unspent set of some head earlier (PoolTxsOnceValid), the *)
(*    indexes agree, the size limit holds, the recorded fee is inputs      *)
(*    minus outputs, and the WORKER refuses, per assembled block, every    *)
(*    transaction whose input is missing, locked or already named in the   *)
(*    block (AssembledBlockNeverDoubleSpends) - the part of C01 that the   *)
(*    mempool path owes.                                                   *)
(***************************************************************************)
EXTENDS Integers, Sequences, FiniteSets, TLC, SequencesExt, Json

CONSTANTS TxDefs,     \* tx id -> [ins: Seq(outpoint id), keys: Seq(key id), outs: Seq([den, to, id, zone]), chain: BOOLEAN, sig: BOOLEAN]
          GenDefs,    \* genesis outpoint id -> [den, owner, lock]
          BlockDefs,  \* block id -> [parent: block id | "none", body: Seq(tx id)]
          Cap,        \* TxPoolConfig.QiPoolSize
          MinFee,     \* smallest fee (qits) that covers base fee * gas in the harness' chain parameters
          Fused,      \* TRUE: the fee cache is filled within the adding critical section (canonical schedule)
          WithWorker, \* TRUE: WorkerSelect / AsyncRemove enabled
          MaxOps,     \* bound on the number of steps
          MaxHeads,   \* bound on the number of head changes
          KeepHist,   \* TRUE: hist is the whole behaviour (emission); FALSE: only the last record (long traces)
          InactiveRefusedAtOnce  \* TRUE: the code as it is since fix 20862e4b; FALSE: the pre-fix code (lead configuration only)

TxIds  == DOMAIN TxDefs
Blocks == DOMAIN BlockDefs
Genesis == CHOOSE b \in Blocks : BlockDefs[b].parent = "none"      \* the model-checking universes have one tree

\* value of a denomination in qits (core/types/utxo.go Denominations; the driver asserts the table)
Val(d) == CASE d = 0 -> 1 [] d = 1 -> 5 [] d = 2 -> 10 [] d = 3 -> 50 [] d = 4 -> 100
            [] d = 5 -> 500 [] d = 6 -> 1000 [] d = 7 -> 5000 [] d = 8 -> 10000 [] OTHER -> 20000

VARIABLES chainHead,  \* head of the chain = what pool.chain.CurrentBlock() and pool.db show
          evHead,     \* `head` of TxPool.loop: the block of the last ChainHeadEvent it handled
          evq,        \* ChainHeadEvents announced and not yet handled by loop (chainHeadCh)
          resetReq,   \* scheduleReorgLoop's pending reset: <<>> or <<old, new>>
          pool,       \* qiPool: sequence of [tx, fee], oldest first (LRU order)
          feeCache,   \* qiTxFees: set of <<tx, fee>>
          feeQ,       \* feesCh
          everValid,  \* history: transactions that passed a full validation by this pool
          pendingRm,  \* hashes handed to AsyncRemoveQiTxs and not yet removed
          lastSel,    \* last worker selection: [head, sel]
          nheads, step, obs, hist

vars == <<chainHead, evHead, evq, resetReq, pool, feeCache, feeQ, everValid, pendingRm, lastSel, nheads, step, obs, hist>>
view == <<chainHead, evHead, evq, resetReq, pool, feeCache, feeQ, everValid, pendingRm, lastSel, nheads, step>>

----------------------------------------------------------------------------
\* static attributes of outpoints (an outpoint id determines denomination, owner and lock for ever)
CreatedOuts == UNION {{[tx |-> t, i |-> i] : i \in 1..Len(TxDefs[t].outs)} : t \in TxIds}
OutRec(c) == TxDefs[c.tx].outs[c.i]
LocalCreated == {c \in CreatedOuts : OutRec(c).zone = "local"}
\* evaluated once (constant): outpoint id -> attributes
AttrMap == [o \in (DOMAIN GenDefs) \cup {OutRec(c).id : c \in LocalCreated} |->
              IF o \in DOMAIN GenDefs THEN GenDefs[o]
              ELSE LET c == CHOOSE c \in LocalCreated : OutRec(c).id = o
                   IN [den |-> OutRec(c).den, owner |-> OutRec(c).to, lock |-> 0]]
KnownOut(o) == o \in DOMAIN AttrMap
Attr(o) == IF KnownOut(o) THEN AttrMap[o] ELSE [den |-> 0, owner |-> "nobody", lock |-> 0]      \* an outpoint that never exists

RECURSIVE SumSeq(_)
SumSeq(s) == IF s = <<>> THEN 0 ELSE Head(s) + SumSeq(Tail(s))
InSumMap  == [t \in TxIds |-> SumSeq([i \in 1..Len(TxDefs[t].ins) |-> Val(Attr(TxDefs[t].ins[i]).den)])]   \* with multiplicity, as the code sums
OutSumMap == [t \in TxIds |-> SumSeq([i \in 1..Len(TxDefs[t].outs) |-> Val(TxDefs[t].outs[i].den)])]
InSum(t)  == InSumMap[t]
OutSum(t) == OutSumMap[t]
Fee(t)    == InSum(t) - OutSum(t)
Ins(t)    == ToSet(TxDefs[t].ins)

\* chain: number, unspent set of the universe's outpoints at a block
RECURSIVE NumRec(_)
NumRec(b) == IF BlockDefs[b].parent = "none" THEN 0 ELSE NumRec(BlockDefs[b].parent) + 1
NumMap == [b \in Blocks |-> NumRec(b)]
Num(b) == NumMap[b]
ApplyTx(live, t) == (live \ Ins(t)) \cup {TxDefs[t].outs[i].id : i \in {j \in 1..Len(TxDefs[t].outs) : TxDefs[t].outs[j].zone = "local"}}
RECURSIVE ApplyBody(_, _)
ApplyBody(live, body) == IF body = <<>> THEN live ELSE ApplyBody(ApplyTx(live, Head(body)), Tail(body))
RECURSIVE LiveRec(_)
LiveRec(b) == IF BlockDefs[b].parent = "none" THEN DOMAIN GenDefs
              ELSE ApplyBody(LiveRec(BlockDefs[b].parent), BlockDefs[b].body)
LiveMap == [b \in Blocks |-> LiveRec(b)]
LiveAt(b) == LiveMap[b]

Lowest(S) == CHOOSE x \in S : \A y \in S : x <= y

----------------------------------------------------------------------------
\* ValidateQiTxInputs + ValidateQiTxOutputsAndSignature, in code order, against the chain head
InputVerdict(t, i, live, h) ==
    LET o == TxDefs[t].ins[i] IN
    IF o \notin live THEN "missing"                            \* rawdb.GetUTXO == nil
    ELSE IF Attr(o).lock > h THEN "locked"                     \* utxo.Lock > currentHeader.Number
    ELSE IF TxDefs[t].keys[i] # Attr(o).owner THEN "owner"     \* address of the pubkey != utxo.Address
    ELSE "ok"

\* an output address equal to an input key's address or to an earlier output's address
DupAddr(t) ==
    LET outs == TxDefs[t].outs IN
    \E j \in 1..Len(outs) : \/ outs[j].to \in ToSet(TxDefs[t].keys)
                            \/ \E k \in 1..(j - 1) : outs[k].to = outs[j].to

HasInactiveOut(t) == \E j \in 1..Len(TxDefs[t].outs) : TxDefs[t].outs[j].zone = "inactive"

Validate(t, live, h) ==
    LET n   == Len(TxDefs[t].ins)
        bad == {i \in 1..n : InputVerdict(t, i, live, h) # "ok"}
    IN  IF n = 0 THEN "noinputs"
        ELSE IF ~TxDefs[t].chain THEN "chainid"
        ELSE IF bad # {} THEN InputVerdict(t, Lowest(bad), live, h)
        ELSE IF DupAddr(t) THEN "dupaddr"
        ELSE IF OutSum(t) > InSum(t) THEN "value"
        ELSE IF Fee(t) < MinFee THEN "fee"
        ELSE IF ~TxDefs[t].sig THEN "sig"
        ELSE "ok"

----------------------------------------------------------------------------
\* the LRU (hashicorp/golang-lru/v2): Add appends as newest and evicts the oldest beyond Cap; Get moves to newest
PoolTxs(p)  == {p[i].tx : i \in 1..Len(p)}
InPool(p, t) == t \in PoolTxs(p)
Without(p, t) == SelectSeq(p, LAMBDA e : e.tx # t)
Bump(p, t)  == LET e == CHOOSE e \in ToSet(p) : e.tx = t IN Append(Without(p, t), e)
LruAdd(p, e) == LET q == Append(Without(p, e.tx), e) IN IF Len(q) > Cap THEN Tail(q) ELSE q
CachedFee(c, t) == (CHOOSE x \in c : x[1] = t)[2]
IsCached(c, t)  == \E x \in c : x[1] = t

Abs == [pool |-> [i \in 1..Len(pool) |-> pool[i].tx], fees |-> [i \in 1..Len(pool) |-> pool[i].fee],
        cache |-> {x[1] : x \in feeCache}, head |-> chainHead]
AbsNext == [pool |-> [i \in 1..Len(pool') |-> pool'[i].tx], fees |-> [i \in 1..Len(pool') |-> pool'[i].fee],
            cache |-> {x[1] : x \in feeCache'}, head |-> chainHead']

Log(rec, o) ==
    /\ obs'  = o
    /\ hist' = IF KeepHist THEN Append(hist, rec @@ [res |-> o, st |-> AbsNext]) ELSE <<rec @@ [res |-> o, st |-> AbsNext]>>
    /\ step' = step + 1

\* the fee of an accepted transaction travels through feesCh into qiTxFees (ContainsOrAdd)
FeeSent(c, q, t, f) == IF Fused THEN <<(IF IsCached(c, t) THEN c ELSE c \cup {<<t, f>>}), q>>
                       ELSE <<c, Append(q, <<t, f>>)>>

----------------------------------------------------------------------------
Init ==
    /\ chainHead = Genesis /\ evHead = Genesis /\ evq = <<>> /\ resetReq = <<>>
    /\ pool = <<>> /\ feeCache = {} /\ feeQ = <<>> /\ everValid = {} /\ pendingRm = {}
    /\ lastSel = [head |-> Genesis, sel |-> <<>>]
    /\ nheads = 0 /\ step = 0 /\ obs = "init" /\ hist = <<>>

\* TxPool.addTxs -> addQiTxs for the Qi transactions ts of one call (AddRemotes / AddLocals), under pool.mu:
\*  1. addTxs looks every transaction up with qiPool.Get: a known one is answered ErrAlreadyKnown and its recency
\*     is refreshed;  2. addQiTxs goes through the others in order: a transaction with an output to a zone that is
\*     not active is refused at once ("inactive", before any input is looked at), the rest is validated;  3. it adds
\*     the accepted ones in order.  addQiTxs returns one error per refused transaction and nothing for an accepted
\*     one; addTxs writes the errors into the free result slots in order (so in a call with several transactions an
\*     error can sit in the slot of another transaction - outside C19's text, not modelled: "batch").
\* InactiveRefusedAtOnce = FALSE keeps the code as it was before fix 20862e4b (spec-drift guard,
\* MCQiPool_leadpanic.cfg): the inactive-zone error was appended WITHOUT `continue` - the transaction went on to
\* the validation and, if valid, into the pool ("inactive" = pooled although an error is reported); a refused one
\* yielded TWO errors for ONE result slot, addTxs indexed past the end of its result slice and panicked (after
\* the accepted ones were pooled; in general: more errors than free slots).
RECURSIVE BumpAll(_, _)
BumpAll(p, ts) == IF ts = <<>> THEN p ELSE BumpAll((IF InPool(p, Head(ts)) THEN Bump(p, Head(ts)) ELSE p), Tail(ts))
RECURSIVE AddAll(_, _)
\* s = <<pool, feeCache, feeQ>>
AddAll(s, ts) == IF ts = <<>> THEN s
                 ELSE LET t  == Head(ts)
                          fs == FeeSent(s[2], s[3], t, Fee(t))
                      IN AddAll(<<LruAdd(s[1], [tx |-> t, fee |-> Fee(t)]), fs[1], fs[2]>>, Tail(ts))

Admit(t, live, h) == IF InactiveRefusedAtOnce /\ HasInactiveOut(t) THEN "inactive" ELSE Validate(t, live, h)

AddOutcome(p, c, q, ts, live, h) ==
    LET known == SelectSeq(ts, LAMBDA t : InPool(p, t))
        fresh == SelectSeq(ts, LAMBDA t : ~InPool(p, t))
        v     == [t \in ToSet(fresh) |-> Admit(t, live, h)]
        acc   == SelectSeq(fresh, LAMBDA t : v[t] = "ok")
        nerr  == Cardinality({i \in 1..Len(fresh) : v[fresh[i]] # "ok"})
                 + (IF InactiveRefusedAtOnce THEN 0 ELSE Cardinality({i \in 1..Len(fresh) : HasInactiveOut(fresh[i])}))
        s     == AddAll(<<BumpAll(p, known), c, q>>, acc)
        res   == IF nerr > Len(fresh) THEN "panic"                       \* pre-fix code only
                 ELSE IF Len(ts) # 1 THEN "batch"
                 ELSE IF known # <<>> THEN "known"
                 ELSE IF ~InactiveRefusedAtOnce /\ HasInactiveOut(ts[1]) THEN "inactive"
                 ELSE v[ts[1]]
    IN [pool |-> s[1], cache |-> s[2], q |-> s[3], acc |-> ToSet(acc), res |-> res]

AddCall(ts) ==
    /\ step < MaxOps
    /\ UNCHANGED <<chainHead, evHead, evq, resetReq, pendingRm, lastSel, nheads>>
    /\ LET o == AddOutcome(pool, feeCache, feeQ, ts, LiveAt(chainHead), Num(chainHead)) IN
       /\ Assert(InactiveRefusedAtOnce => o.res # "panic", "a call of the pool's interface panics in the model of the current code")
       /\ pool' = o.pool /\ feeCache' = o.cache /\ feeQ' = o.q
       /\ everValid' = everValid \cup o.acc
       /\ Log([op |-> "add", tx |-> ts[1], txs |-> ts], o.res)

AddQi(t) == AddCall(<<t>>)

\* feesGoroutine
FeeDrain ==
    /\ ~Fused /\ feeQ # <<>> /\ step < MaxOps
    /\ feeCache' = IF IsCached(feeCache, Head(feeQ)[1]) THEN feeCache ELSE feeCache \cup {Head(feeQ)}
    /\ feeQ' = Tail(feeQ)
    /\ UNCHANGED <<chainHead, evHead, evq, resetReq, pool, everValid, pendingRm, lastSel, nheads>>
    /\ Log([op |-> "feedrain", tx |-> Head(feeQ)[1]], "ok")

\* TxPool.RemoveQiTxs({t}) (directly, or from invalidQiTxGoroutine)
RemoveQi(t) ==
    /\ step < MaxOps
    /\ pool' = Without(pool, t)
    /\ pendingRm' = pendingRm \ {t}
    /\ UNCHANGED <<chainHead, evHead, evq, resetReq, feeCache, feeQ, everValid, lastSel, nheads>>
    /\ Log([op |-> "remove", tx |-> t], IF InPool(pool, t) THEN "removed" ELSE "absent")

\* the chain makes b its head: database and CurrentBlock switch, a ChainHeadEvent is on its way
SetHead(b) ==
    /\ step < MaxOps /\ nheads < MaxHeads        \* b = chainHead: the chain announces its head once more
    /\ chainHead' = b /\ evq' = Append(evq, b) /\ nheads' = nheads + 1
    /\ UNCHANGED <<evHead, resetReq, pool, feeCache, feeQ, everValid, pendingRm, lastSel>>
    /\ Log([op |-> "sethead", b |-> b], "ok")

\* TxPool.loop takes the first k events off chainHeadCh; scheduleReorgLoop merges them into one request
\* (old head of the first, new head of the last)
Coalesce(req, old, new) == IF req = <<>> THEN <<old, new>> ELSE <<req[1], new>>

\* reset(old, new): the transactions to re-inject, in the code's order (walk of the old branch, head first)
RECURSIVE Walk(_, _, _, _)
Walk(rem, add, disc, inc) ==
    IF Num(rem) > Num(add) THEN Walk(BlockDefs[rem].parent, add, disc \o BlockDefs[rem].body, inc)
    ELSE IF Num(add) > Num(rem) THEN Walk(rem, BlockDefs[add].parent, disc, inc \o BlockDefs[add].body)
    ELSE IF rem # add THEN Walk(BlockDefs[rem].parent, BlockDefs[add].parent, disc \o BlockDefs[rem].body, inc \o BlockDefs[add].body)
    ELSE <<disc, inc>>
Reinject(old, new) == LET w == Walk(old, new, <<>>, <<>>) IN SelectSeq(w[1], LAMBDA t : t \notin ToSet(w[2]))

\* addQiTxsWithoutValidationLocked, one transaction: state = <<pool, feeCache, feeQ, everValid>>
ReinjectOne(s, t, live, h) ==
    IF InPool(s[1], t) THEN <<Bump(s[1], t), s[2], s[3], s[4]>>
    ELSE IF IsCached(s[2], t) THEN <<LruAdd(s[1], [tx |-> t, fee |-> CachedFee(s[2], t)]), s[2], s[3], s[4]>>   \* NOT validated
    ELSE IF Validate(t, live, h) = "ok"
         THEN LET fs == FeeSent(s[2], s[3], t, Fee(t)) IN <<LruAdd(s[1], [tx |-> t, fee |-> Fee(t)]), fs[1], fs[2], s[4] \cup {t}>>
    ELSE s
RECURSIVE ReinjectAll(_, _, _, _)
ReinjectAll(s, ts, live, h) == IF ts = <<>> THEN s ELSE ReinjectAll(ReinjectOne(s, Head(ts), live, h), Tail(ts), live, h)

RECURSIVE WithoutAll(_, _)
WithoutAll(p, ts) == IF ts = <<>> THEN p ELSE WithoutAll(Without(p, Head(ts)), Tail(ts))

ResetKind(old, new) == IF old = BlockDefs[new].parent THEN "extend" ELSE "reorg"

\* deliver the first k announced heads and run the reset (runReorg -> reset) under pool.mu
Reset(k) ==
    /\ step < MaxOps /\ k \in 1..Len(evq)
    /\ evHead' = evq[k] /\ evq' = SubSeq(evq, k + 1, Len(evq)) /\ resetReq' = <<>>
    /\ UNCHANGED <<chainHead, pendingRm, lastSel, nheads>>
    /\ LET req  == Coalesce(resetReq, evHead, evq[k])
           old  == req[1]
           new  == req[2]
           kind == ResetKind(old, new)
           p1   == IF kind = "extend" THEN WithoutAll(pool, BlockDefs[new].body) ELSE pool   \* removeQiTxsLocked
           rj   == IF kind = "extend" THEN <<>> ELSE Reinject(old, new)
           s    == ReinjectAll(<<p1, feeCache, feeQ, everValid>>, rj, LiveAt(chainHead), Num(chainHead))
       IN /\ pool' = s[1] /\ feeCache' = s[2] /\ feeQ' = s[3] /\ everValid' = s[4]
          /\ Log([op |-> "reset", k |-> k, old |-> old, new |-> new, kind |-> kind, rj |-> rj], "ok")

----------------------------------------------------------------------------
\* The worker: fillTransactions -> QiPoolPending -> NewTransactionsByPriceAndNonce (stable sort by fee per gas,
\* ties in LRU order) -> commitTransactions -> processQiTx with env.deletedUtxos.
\* state of the pass: [del: outpoints marked spent, sel: included so far, rm: to remove]
\* processQiTx marks input after input; a failure at input i leaves inputs 1..i-1 marked.
RECURSIVE ProcIns(_, _, _, _, _)
ProcIns(t, i, live, h, del) ==
    IF i > Len(TxDefs[t].ins) THEN <<"ok", del>>
    ELSE LET o == TxDefs[t].ins[i] IN
         IF o \notin live THEN <<"missing", del>>
         ELSE IF Attr(o).lock > h THEN <<"locked", del>>
         ELSE IF o \in del THEN <<"double", del>>
         ELSE ProcIns(t, i + 1, live, h, del \cup {o})

\* the checks after the inputs that can fail for a transaction the pool once admitted: none depends on
\* the chain (owner, signature and chain id are NOT re-checked by the worker)
WorkerVerdict(t, live, h, del) ==
    LET r == ProcIns(t, 1, live, h, del) IN
    IF ~TxDefs[t].chain THEN <<"chainid", del>>
    ELSE IF r[1] # "ok" THEN r
    ELSE IF OutSum(t) > InSum(t) THEN <<"value", r[2]>>
    ELSE IF Fee(t) < MinFee THEN <<"fee", r[2]>>
    ELSE r

RECURSIVE Greedy(_, _, _, _)
Greedy(ord, live, h, acc) ==
    IF ord = <<>> THEN acc
    ELSE LET t == Head(ord)
             r == WorkerVerdict(t, live, h, acc.del)
         IN Greedy(Tail(ord), live, h,
                   IF r[1] = "ok" THEN [del |-> r[2], sel |-> Append(acc.sel, t), rm |-> acc.rm]
                   ELSE IF r[1] = "double" THEN [del |-> r[2], sel |-> acc.sel, rm |-> acc.rm]         \* skipped, stays pooled
                   ELSE [del |-> r[2], sel |-> acc.sel, rm |-> acc.rm \cup {t}])                          \* AsyncRemoveQiTxs

\* orders the sort can produce: a permutation of the pooled transactions in which, among transactions of the
\* same shape (same gas), a higher fee never comes later and equal fees keep the LRU order
Shape(t) == <<Len(TxDefs[t].ins), Len(TxDefs[t].outs)>>
PosIn(p, t) == CHOOSE i \in 1..Len(p) : p[i].tx = t
FeeIn(p, t) == p[PosIn(p, t)].fee
OrderOK(p, ord) ==
    \A i, j \in 1..Len(ord) : (i < j /\ Shape(ord[i]) = Shape(ord[j])) =>
        \/ FeeIn(p, ord[i]) > FeeIn(p, ord[j])
        \/ (FeeIn(p, ord[i]) = FeeIn(p, ord[j]) /\ PosIn(p, ord[i]) < PosIn(p, ord[j]))
Orders(p) == {ord \in {[i \in 1..Len(p) |-> p[f[i]].tx] : f \in Permutations(1..Len(p))} : OrderOK(p, ord)}

Selection(p, ord, head) == Greedy(ord, LiveAt(head), Num(head) + 1, [del |-> {}, sel |-> <<>>, rm |-> {}])

\* "sel is the selection of the greedy pass over SOME admissible order", decided without enumerating the orders
\* (they are the linear extensions of Prio): transactions are placed one at a time, only a Prio-minimal one may come
\* next, an included one must be the next element of sel; a state is (placed, marked outpoints, matched prefix)
Prio(p, a, b) == Shape(a) = Shape(b) /\ (FeeIn(p, a) > FeeIn(p, b) \/ (FeeIn(p, a) = FeeIn(p, b) /\ PosIn(p, a) < PosIn(p, b)))
MinimalTxs(p, placed) == {t \in PoolTxs(p) \ placed : \A u \in PoolTxs(p) \ placed : ~Prio(p, u, t)}
SelSucc(p, s, live, h, sel) ==
    LET ok(t)   == WorkerVerdict(t, live, h, s.del)[1] = "ok"
        cand    == {t \in MinimalTxs(p, s.placed) : ok(t) => (s.k < Len(sel) /\ sel[s.k + 1] = t)}
    IN {[placed |-> s.placed \cup {t}, del |-> WorkerVerdict(t, live, h, s.del)[2], k |-> IF ok(t) THEN s.k + 1 ELSE s.k] : t \in cand}
RECURSIVE SelExplore(_, _, _, _, _, _)
SelExplore(p, S, n, live, h, sel) ==
    IF n = 0 \/ S = {} THEN S
    ELSE SelExplore(p, UNION {SelSucc(p, s, live, h, sel) : s \in S}, n - 1, live, h, sel)
SelectionPossible(p, head, sel) ==
    \E s \in SelExplore(p, {[placed |-> {}, del |-> {}, k |-> 0]}, Len(p), LiveAt(head), Num(head) + 1, sel) : s.k = Len(sel)
\* what the worker asks to remove does not depend on the order: the verdicts other than "ok" and "double" do not
\* look at the marked outpoints
RemovalRequests(p, head) == {t \in PoolTxs(p) : WorkerVerdict(t, LiveAt(head), Num(head) + 1, {})[1] \notin {"ok", "double"}}

WorkerSelect ==
    /\ WithWorker /\ step < MaxOps /\ pool # <<>>
    /\ UNCHANGED <<chainHead, evHead, evq, resetReq, pool, feeCache, feeQ, everValid, nheads>>
    /\ \E ord \in Orders(pool) :
         LET g == Selection(pool, ord, chainHead) IN
         /\ Assert(SelectionPossible(pool, chainHead, g.sel) /\ g.rm = RemovalRequests(pool, chainHead),
                   "the two formulations of the worker's selection disagree")
         /\ lastSel' = [head |-> chainHead, sel |-> g.sel]
         /\ pendingRm' = pendingRm \cup g.rm
         /\ Log([op |-> "select", ord |-> ord, sel |-> g.sel, rm |-> g.rm], "ok")

\* invalidQiTxGoroutine -> RemoveQiTxs
AsyncRemove == WithWorker /\ \E t \in pendingRm : RemoveQi(t)

Next ==
    \/ \E t \in TxIds : AddQi(t)
    \/ \E t \in PoolTxs(pool) : RemoveQi(t)
    \/ \E b \in Blocks : SetHead(b)
    \/ \E k \in 1..Len(evq) : Reset(k)
    \/ FeeDrain
    \/ WorkerSelect
    \/ AsyncRemove

Spec == Init /\ [][Next]_vars

----------------------------------------------------------------------------
\* Properties (C19: indexes agree, limits hold; C01: an assembled block never double-spends)

\* one entry per transaction; the fee recorded with an entry and the cached fee are the transaction's fee
IndexesAgreeOn(p, c) ==
    /\ \A i, j \in 1..Len(p) : p[i].tx = p[j].tx => i = j
    /\ \A x, y \in c : x[1] = y[1] => x = y
    /\ \A i \in 1..Len(p) : IsCached(c, p[i].tx) => CachedFee(c, p[i].tx) = p[i].fee
IndexesAgree == IndexesAgreeOn(pool, feeCache)

SizeLimitOn(p) == Len(p) <= Cap
SizeLimit == SizeLimitOn(pool)

FeeIsInputsMinusOutputsOn(p, c) ==
    /\ \A i \in 1..Len(p) : p[i].fee = Fee(p[i].tx)
    /\ \A x \in c : x[2] = Fee(x[1])
FeeIsInputsMinusOutputs == FeeIsInputsMinusOutputsOn(pool, feeCache)

\* the weak form of "pooled transactions are spendable" that the code guarantees (a cached fee, which lets a
\* reorged-out transaction back in without validation, also stems from a validation)
PoolTxsOnceValidOn(p) == PoolTxs(p) \subseteq everValid
PoolTxsOnceValid == PoolTxsOnceValidOn(pool) /\ {x[1] : x \in feeCache} \subseteq everValid

\* the block the worker assembles: every input exists and is unlocked at the block's height, no outpoint is
\* named twice (inside a transaction or across transactions), every transaction is one only its owners can
\* have signed for this chain, and none spends more than its inputs
SelectionValid(sel, head) ==
    LET live == LiveAt(head) h == Num(head) + 1 IN
    /\ \A i \in 1..Len(sel) :
         LET t == sel[i] IN
         /\ TxDefs[t].chain /\ TxDefs[t].sig
         /\ \A a \in 1..Len(TxDefs[t].ins) :
              LET o == TxDefs[t].ins[a] IN
              /\ o \in live /\ Attr(o).lock <= h /\ TxDefs[t].keys[a] = Attr(o).owner
              /\ \A b \in 1..Len(TxDefs[t].ins) : TxDefs[t].ins[b] = o => a = b
         /\ OutSum(t) <= InSum(t)
    /\ \A i, j \in 1..Len(sel) : i # j => Ins(sel[i]) \cap Ins(sel[j]) = {}
AssembledBlockNeverDoubleSpends == SelectionValid(lastSel.sel, lastSel.head)

\* no call of the pool's interface panics: holds since fix 20862e4b; MCQiPool_leadpanic.cfg (InactiveRefusedAtOnce =
\* FALSE) must still make TLC find the counterexample in the model of the pre-fix code
NoPanic == obs # "panic"
\* NOT properties of the code (lead configurations: TLC must find the counterexamples)
NoTwoPooledTxsConflict == \A i, j \in 1..Len(pool) : i # j => Ins(pool[i].tx) \cap Ins(pool[j].tx) = {}
PoolTxsSpendable == \A i \in 1..Len(pool) : Ins(pool[i].tx) \subseteq LiveAt(chainHead)

\* sanity of the constants: bodies are sequentially valid blocks, created outpoint ids are unique
RECURSIVE BodyValid(_, _, _)
BodyValid(live, h, body) ==
    IF body = <<>> THEN TRUE
    ELSE /\ Validate(Head(body), live, h) = "ok"
         /\ \A a, b \in 1..Len(TxDefs[Head(body)].ins) : TxDefs[Head(body)].ins[a] = TxDefs[Head(body)].ins[b] => a = b
         /\ BodyValid(ApplyTx(live, Head(body)), h, Tail(body))
ConstantsOK ==
    /\ \A b \in Blocks : BlockDefs[b].parent # "none" => BlockDefs[b].parent \in Blocks
    \* block processing compares locks with the block's own number
    /\ \A b \in Blocks : BlockDefs[b].parent # "none" => BodyValid(LiveAt(BlockDefs[b].parent), Num(b), BlockDefs[b].body)
    /\ \A c, d \in CreatedOuts : (OutRec(c).id = OutRec(d).id) => c = d
    /\ \A c \in CreatedOuts : OutRec(c).id \notin DOMAIN GenDefs
    /\ \A t \in TxIds : Len(TxDefs[t].ins) = Len(TxDefs[t].keys)

EmitHist == PrintT("@@" \o ToJson(hist'))
=============================================================================
