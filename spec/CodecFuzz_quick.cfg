SPECIFICATION Spec
CONSTANTS
  MaxDefects = 1
INVARIANTS TypeOK
CHECK_DEADLOCK FALSE
