----------------------------- MODULE MCEvmMem -----------------------------
(* Model-checking constants for EvmMem.tla.  Facts come from EvmMemFacts.tla, which
   tools/props/C15_mem.py regenerates from the real jump table on every run. *)
EXTENDS EvmMem, EvmMemFacts

AllFacts   == Facts
SoundFacts == Sound(Facts)          \* opcodes whose memory growth is charged, per the measured facts

\* words; MemCost: 1 -> 3, 2 -> 6, 32 -> 98, 724 -> 3195, 1024 -> 5120
SizesSmall == {0, 1, 2, 32, 1024}
SizesBig   == {0, 1, 2, 31, 32, 33, 724, 1024}
Const1     == {0}
Const2     == {0, 3}
Other1     == {0}
Other2     == {0, 8}
Gives2     == {0, 100, 3500}
Gives3     == {0, 100, 3500, 6000}

\* TLC evaluates which opcodes of the REAL table break MemoryPaid; python reads this line
ASSUME PrintT("@@" \o ToJson([unmetered |-> Unmetered(Facts),
                               sound     |-> Cardinality(Sound(Facts)),
                               total     |-> Cardinality(Facts),
                               classes   |-> Cardinality(Classes(Facts)),
                               withMemSize |-> {f.name : f \in {g \in Facts : g.hasMemSize}}]))
=============================================================================
