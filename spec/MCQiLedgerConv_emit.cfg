SPECIFICATION Spec
CONSTANTS
  Genesis <- G
  Txs <- T
  DenomValue <- DV
  RYW = TRUE
  BaseFeeOn = TRUE
  MaxTxPerBlock = 3
  MaxBlocks = 2
VIEW view
INVARIANTS SpentAtMostOnce NoValueFromNothing OutputsOnlyLocalQi
ACTION_CONSTRAINT EmitHist
CHECK_DEADLOCK FALSE
