SPECIFICATION Spec
CONSTANTS
  Part = "ext"
  W = 8
  Kinds <- KNone
  MaxOps = 4
  MaxBlocks = 4
  IntrVals <- X4
  DtVals <- T3
  WithDeviations = FALSE
  WithCache = FALSE
INVARIANTS ChildEqualsDerived EntropyStrictlyIncreases ParentEntropyRecorded NumbersConsecutive PrimeTerminusIsLastPrime OrderStable OrderIsFunctionOfSealAndDeltas IntrinsicPositive
VIEW view
CHECK_DEADLOCK FALSE
