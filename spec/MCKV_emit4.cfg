SPECIFICATION Spec
CONSTANTS
  Keys <- K3
  Vals <- V2
  IterPrefixes <- P2
  IterStarts <- S2
  Batches <- B2
  MaxOps = 4
  MaxBatch = 2
VIEW view
ACTION_CONSTRAINT EmitHist
CHECK_DEADLOCK FALSE
