---------------------------- MODULE MCEtxEligible ----------------------------
EXTENDS EtxEligible
\* first and last location, neighbours inside one byte of the field, across a byte boundary, across regions
L6 == {<<0, 0>>, <<0, 1>>, <<0, 7>>, <<0, 8>>, <<1, 0>>, <<15, 15>>}
=============================================================================
