------------------------------- MODULE Codec -------------------------------
(***************************************************************************)
(* The codec graph of go-quai (C14, and the shape lattice C15a draws       *)
(* from).                                                                  *)
(*                                                                         *)
(* Nodes are representations of an object: "mem" (the Go value) and one    *)
(* node per production codec of the object's type (proto bytes, the RLP    *)
(* typed-transaction bytes and their RLP envelope, JSON, the JSON-RPC map, *)
(* a rawdb record, a p2p request/response frame, a gossip payload).  Edges *)
(* are the production functions: Encode(c) : mem -> c and                  *)
(* Decode(c, loc) : c -> mem.  The tables (types, shape fields, domains,   *)
(* base values, codecs) are in CodecTables.tla, generated from the driver  *)
(* and cross-checked on every run.                                         *)
(*                                                                         *)
(* An object is abstracted to its SHAPE: for every optional or             *)
(* width-sensitive field one of "absent" (nil), "zero" (empty / 0), "typ", *)
(* "max" (all ones of the field's width, > 64 KiB for byte strings), or an *)
(* enumerated tag (fork epoch, donor chain, request kind).  What a round   *)
(* trip is allowed to change is written down once, as Norm: representation *)
(* equivalences only (nil vs empty byte string, nil vs 0 for a lock        *)
(* height, compressed vs uncompressed public key, fields that do not exist *)
(* on the wire before the KawPow fork, body parts a view does not carry).  *)
(* Anything else the real code changes is a violation of C14.              *)
(*                                                                         *)
(* Anchors: core/types/{transaction,qi_tx,quai_tx,external_tx,block,wo,    *)
(* receipt,utxo,auxpow,transaction_marshalling,gen_header_json}.go,        *)
(* core/rawdb/accessors_chain.go, p2p/pb/proto_services.go.                *)
(***************************************************************************)
EXTENDS Integers, Sequences, FiniteSets, TLC, SequencesExt, Json, CodecTables

CONSTANTS Types,      \* the object types explored
          MaxSteps,   \* bound on the path length (Apply / Warm / Mutate steps)
          MaxDev      \* a start shape deviates from the base shape in at most MaxDev fields

VARIABLES typ,        \* object type
          shape,      \* current abstract content (sequence aligned with FieldNames(typ))
          rep,        \* "mem" or the codec whose bytes we hold
          warm,       \* Hash() has been called on the in-memory object (memoised hash populated)
          step,
          obs,        \* specified outcome of the last step (hidden by VIEW)
          hist        \* the behaviour so far, with the specified outcome of every step (hidden by VIEW)

vars == <<typ, shape, rep, warm, step, obs, hist>>
view == <<typ, shape, rep, warm, step>>

A == "absent"   Z == "zero"   T == "typ"   M == "max"

N(t) == Len(FieldNames(t))
Idx(t, f) == CHOOSE i \in 1..N(t) : FieldNames(t)[i] = f
Has(t, f) == \E i \in 1..N(t) : FieldNames(t)[i] = f
Val(t, sh, f) == sh[Idx(t, f)]

TxTypes  == {"QuaiTx", "QiTx", "ExtTx"}
WOViews  == {"WOBlock", "WOHeaderView", "WOPEtx", "WOShare", "WOWorkShare"}
BodyLists == {"txs", "etxs", "uncles", "manifest", "interlink"}
ForkFields == {"auxpow", "diffCount", "targets"}   \* exist on the wire from the KawPow fork on
WireCodecs == {"proto", "gossip", "p2p", "p2plist", "db", "convert"}

----------------------------------------------------------------------------
(* Well-formed objects (the quantifier of C14 ranges over these).          *)
WellFormed(t, sh) ==
    /\ (t = "WOHeader") =>
          \* from the fork on the share fields are mandatory; after the transition period so is the AuxPow
          /\ (Val(t, sh, "fork") # "pre" => (Val(t, sh, "diffCount") # A /\ Val(t, sh, "targets") # A))
          /\ (Val(t, sh, "fork") = "post" => Val(t, sh, "auxpow") # A)
    /\ t = "QiTx" =>      \* per-output fields are unobservable without outputs
          (Val(t, sh, "nOut") = Z => (Val(t, sh, "denom") = T /\ Val(t, sh, "outLock") = T))
    /\ t = "Receipt" =>   \* per-log fields are unobservable without logs
          (Val(t, sh, "logs") = Z => (Val(t, sh, "logData") = T /\ Val(t, sh, "topics") = T))

----------------------------------------------------------------------------
(* Norm: the only differences a Decode(Encode(x)) may introduce.           *)
NormF(t, c, f, v, sh) ==
    CASE \* a nil byte string and an empty one are the same transaction payload (the Qi JSON form omits a
         \* nil payload and restores it as nil)
         t \in TxTypes /\ f = "data" /\ v = A /\ <<t, c>> # <<"QiTx", "json">>   -> Z
         \* a nil lock height means "unlocked", the same as 0
      [] t \in {"QiTx", "TxOut", "UtxoEntry"} /\ f \in {"outLock", "lock"} /\ v = A -> Z
         \* the wire carries compressed public keys, memory holds them uncompressed
      [] t = "QiTx" /\ c = "proto" /\ f = "pubkey" /\ v = T                     -> M
         \* WorkObjectHeader.data is a plain (non-optional) proto bytes field: empty is not transmitted;
         \* JSON hex strings cannot express nil
      [] t = "WOHeader" /\ c = "proto" /\ f = "data" /\ v = Z                   -> A
      [] t = "WOHeader" /\ c = "rpcjson" /\ f = "data" /\ v = A                 -> Z
         \* before the KawPow fork the share/AuxPow fields are not part of the header encoding
      [] t = "WOHeader" /\ c = "proto" /\ f \in ForkFields /\ Val(t, sh, "fork") = "pre" -> A
         \* work-object views: what a view does not carry comes back nil, what it carries comes back
         \* non-nil (possibly empty)
      [] t = "WOPEtx" /\ (f \in BodyLists \/ f = "tx")                          -> A
      [] t = "WOShare" /\ f \in {"etxs", "uncles", "manifest", "interlink"}     -> A
      [] t = "WOShare" /\ f = "txs" /\ v = A                                    -> Z
      [] t = "WOWorkShare" /\ f \in {"txs", "etxs", "manifest", "interlink"}    -> A
      [] t = "WOWorkShare" /\ f = "uncles" /\ v = A                             -> Z
      [] t = "WOHeaderView" /\ c = "convert" /\ f \in {"txs", "manifest", "interlink"} -> Z
      [] t \in {"WOBlock", "WOHeaderView"} /\ c \in WireCodecs /\ f \in BodyLists /\ v = A -> Z
         \* the JSON-RPC map always renders the uncle list
      [] t = "WOBlock" /\ c = "rpcjson" /\ f = "uncles" /\ v = A                -> Z
         \* the database stores header and body; the attached transaction is not persisted
      [] t = "WOBlock" /\ c = "db" /\ f = "tx"                                  -> A
         \* receipts: log data is a plain proto bytes field (empty = absent)
      [] t = "Receipt" /\ c \in {"proto", "db"} /\ f = "logData" /\ v = Z       -> A
         \* the JSON-RPC map renders byte strings as hex: nil becomes empty
      [] t = "AuxPow" /\ c = "rpcjson" /\ f \in {"auxSig", "auxpow2"} /\ v = A  -> Z
      [] OTHER                                                                   -> v

Norm(t, c, sh) == [i \in 1..N(t) |-> NormF(t, c, FieldNames(t)[i], sh[i], sh)]

\* Decode(Encode(x)) re-encodes to the same bytes, except where the decode view is narrower than the
\* encode view by construction (a block record read back as a work-share view)
BytesStable(t, c) == <<t, c>> \notin {<<"WOWorkShare", "proto">>}

----------------------------------------------------------------------------
(* Identity.  HashKey(t, sh) abstracts what the object's hash commits to:  *)
(* two shapes instantiated with the same concrete values have equal hashes *)
(* iff their keys are equal.                                               *)
HasHash(t) == t \in TxTypes \cup WOViews \cup {"Header", "WOHeader", "UtxoEntry", "AuxTemplate", "PendingEtxs", "PendingEtxsRollup"}

\* from the KawPow fork on, a header that carries an AuxPow is identified by that AuxPow alone (the donor
\* header commits to the seal hash): WorkObjectHeader.Hash -> WoCustomPowHash
CustomPow(t, sh) == t = "WOHeader" /\ Val(t, sh, "fork") # "pre" /\ Val(t, sh, "auxpow") # A

HKeyF(t, f, v, sh) ==
    CASE t \in TxTypes /\ f = "data" /\ v = A                                -> Z
      [] t \in {"QiTx", "UtxoEntry"} /\ f \in {"outLock", "lock"} /\ v = A    -> Z
      [] t = "UtxoEntry" /\ f = "address" /\ v = A                            -> Z
      [] t = "QiTx" /\ f = "pubkey"                                           -> T   \* same key either way
      [] t = "WOHeader" /\ CustomPow(t, sh) /\ f # "auxpow"                    -> "-"
      [] t = "WOHeader" /\ f = "data" /\ v = Z                                -> A
      [] t = "WOHeader" /\ f \in ForkFields /\ Val(t, sh, "fork") = "pre"     -> "-"
      [] t \in WOViews \cup {"PendingEtxs", "PendingEtxsRollup"} /\ f # "hfork" -> "-"  \* hash = header hashes
      [] t = "AuxTemplate" /\ f = "sigs"                                      -> "-"  \* signed message excludes the signatures
      [] OTHER                                                                -> v

HashKey(t, sh) == IF HasHash(t) THEN [i \in 1..N(t) |-> HKeyF(t, FieldNames(t)[i], sh[i], sh)] ELSE <<>>

\* consensus fields that have a public mutator; mutating keeps the class "typ"
MutableOf(t) ==
    CASE t = "QuaiTx"   -> {"to"}              \* SetValue / SetEtxType are ETX-only (they panic on a Quai tx)
      [] t = "ExtTx"    -> {"value", "etxType"}
      [] t = "Header"   -> {"bigs", "entropy", "number", "u16", "u8", "u64", "hashes", "extra"}
      [] t = "WOHeader" -> {"number", "difficulty", "data", "lock", "time", "nonce", "hashes"}
      [] OTHER          -> {}

HashSensitive(t, sh, f) == HKeyF(t, f, T, sh) # "-"

----------------------------------------------------------------------------
(* Start shapes: the base shape with at most MaxDev fields set to another  *)
(* value of their domain.                                                  *)
AllVals(t) == UNION {FieldDoms(t)[i] : i \in 1..N(t)}
DevSets(t) == {S \in SUBSET (1..N(t)) : Cardinality(S) <= MaxDev}
ShapesOf(t) ==
    LET base == FieldBase(t)
        raw  == UNION { { [i \in 1..N(t) |-> IF i \in S THEN alt[i] ELSE base[i]] :
                          alt \in {a \in [S -> AllVals(t)] : \A i \in S : a[i] \in FieldDoms(t)[i] /\ a[i] # base[i]} } :
                        S \in DevSets(t) }
    IN  {sh \in raw : WellFormed(t, sh)}

Exp(ok, hs, bs, det, hc) == [ok |-> ok, hashSame |-> hs, bytesStable |-> bs, det |-> det, hashChanged |-> hc]
Rec(op, t, c, l, f, fs, sh, hk, e) ==
    [op |-> op, type |-> t, codec |-> c, loc |-> l, field |-> f, fields |-> fs, shape |-> sh, hkey |-> hk, exp |-> e]

Log(rec) ==
    /\ obs'  = rec
    /\ hist' = Append(hist, rec)
    /\ step' = step + 1

Init ==
    \E t \in Types : \E sh \in ShapesOf(t) :
        /\ typ = t /\ shape = sh /\ rep = "mem" /\ warm = FALSE /\ step = 0
        /\ obs = Rec("start", t, "", "", "", FieldNames(t), sh, HashKey(t, sh), Exp(TRUE, TRUE, TRUE, TRUE, FALSE))
        /\ hist = <<obs>>

\* x.ProtoEncode + proto.Marshal / MarshalBinary / rlp.Encode / MarshalJSON / rawdb.Write* / pb.Encode*
\* specified: succeeds, and encoding the same object twice gives the same bytes (EncodeDeterministic)
Encode(c) ==
    /\ rep = "mem" /\ c \in CodecsOf(typ)
    /\ rep' = c
    /\ UNCHANGED <<typ, shape, warm>>
    /\ Log(Rec("enc", typ, c, "", "", <<>>, <<>>, <<>>, Exp(TRUE, TRUE, TRUE, TRUE, FALSE)))

\* proto.Unmarshal + x.ProtoDecode(loc) / UnmarshalBinary / rlp.Decode / UnmarshalJSON / rawdb.Read* / pb.Decode*
\* specified: succeeds; the object equals Norm of what was encoded, whatever node location decodes it; its
\* hash is the hash before; re-encoding gives the bytes that were decoded
Decode(c, l) ==
    /\ rep = c /\ c # "mem"
    /\ l = "home" \/ (l = "other" /\ c \in LocSensOf(typ))
    /\ rep' = "mem"
    /\ shape' = Norm(typ, c, shape)
    /\ warm' = FALSE            \* a decoded object has never been hashed
    /\ UNCHANGED typ
    /\ Log(Rec("dec", typ, c, l, "", <<>>, shape', <<>>, Exp(TRUE, TRUE, BytesStable(typ, c), TRUE, FALSE)))

\* x.Hash(): populates the memoised hash
Warm ==
    /\ rep = "mem" /\ ~warm /\ HasHash(typ)
    /\ warm' = TRUE
    /\ UNCHANGED <<typ, shape, rep>>
    /\ Log(Rec("warm", typ, "", "", "", <<>>, <<>>, <<>>, Exp(TRUE, TRUE, TRUE, TRUE, FALSE)))

\* a public setter changes consensus field f (Transaction.SetValue/SetTo/SetEtxType, Header.SetX,
\* WorkObjectHeader.SetX); specified: the hash changes iff the hash commits to f -- warm cache or not
MutateConsensusField(f) ==
    /\ rep = "mem" /\ f \in MutableOf(typ) /\ Val(typ, shape, f) = T
    /\ warm' = TRUE             \* the driver reads the hash after the mutation
    /\ UNCHANGED <<typ, shape, rep>>
    /\ Log(Rec("mutate", typ, "", "", f, <<>>, <<>>, <<>>, Exp(TRUE, TRUE, TRUE, TRUE, HashSensitive(typ, shape, f))))

Next ==
    /\ step < MaxSteps
    /\ \/ \E c \in CodecsOf(typ) : Encode(c)
       \/ \E c \in CodecsOf(typ), l \in {"home", "other"} : Decode(c, l)
       \/ Warm
       \/ \E f \in MutableOf(typ) : MutateConsensusField(f)

Spec == Init /\ [][Next]_vars

----------------------------------------------------------------------------
(* Design-level properties, checked by TLC on every reachable state.       *)
TypeOK ==
    /\ typ \in Types
    /\ rep \in {"mem"} \cup CodecsOf(typ)
    /\ Len(shape) = N(typ)

\* Encode(Decode(b)) = b for produced b needs Norm to be a projection
NormIdempotent ==
    \A c \in CodecsOf(typ) : Norm(typ, c, Norm(typ, c, shape)) = Norm(typ, c, shape)

\* the hash is invariant along every path: no normalisation touches what the hash commits to
NormPreservesIdentity ==
    \A c \in CodecsOf(typ) : HashKey(typ, Norm(typ, c, shape)) = HashKey(typ, shape)

\* a normalised object is again a well-formed object of the type
NormPreservesWellFormed ==
    \A c \in CodecsOf(typ) : WellFormed(typ, Norm(typ, c, shape))

\* DistinctFieldsDistinctHash at design level: every mutable consensus field is committed to by the hash,
\* except under the AuxPow identity rule
MutableFieldsAreHashed ==
    \A f \in MutableOf(typ) : Val(typ, shape, f) = T => (HashSensitive(typ, shape, f) \/ CustomPow(typ, shape))

\* emit every explored behaviour for replay on the implementation
EmitHist == PrintT("@@" \o ToJson(hist'))
=============================================================================
