SPECIFICATION Spec
CONSTANTS
  NAddr = 2
  NSlot = 1
  Vals <- V02
  Amts <- A01
  Genesis <- GenK
  HasLock <- NoLock2
  Ops <- OpsJ
  MaxMut = 4
  MaxSnap = 2
  MaxDepth = 2
  MaxTx = 0
  FrameAddr <- FrJ
  NewAddrs <- NoNew
  XferTo <- NoXfer
  Benef = 2
VIEW view
INVARIANTS TypeOK AccessListWellFormed AlwaysRevertible
PROPERTIES RevertRestores SiblingsUntouched
CHECK_DEADLOCK FALSE
