----------------------------- MODULE KVTrace -----------------------------
(***************************************************************************)
(* Trace validation for KV.tla: every event logged by harness/cmd/kvdrv    *)
(* (one per interface call, per back-end, with the observed result) must   *)
(* be the KV action of that name with those arguments, and the observed    *)
(* result must be the result the specification defines.  Traces of several *)
(* back-ends and runs are concatenated, separated by "tracereset" events.  *)
(***************************************************************************)
EXTENDS KV

RECURSIVE SeqsUpTo(_)
SeqsUpTo(n) == IF n = 0 THEN {<<>>}
               ELSE LET S == SeqsUpTo(n - 1) IN S \cup {Append(s, x) : s \in S, x \in 1..4}
TraceKeys == SeqsUpTo(3) \ {<<>>}
TraceVals == 0..5
TraceBatches == {1, 2}

Trace == ndJsonDeserialize("kvtrace.ndjson")

VARIABLES l,         \* next trace line to consume
          mismatch   \* first event whose observed result differs from the specified one

tvars == <<vars, l, mismatch>>

TraceInit == Init /\ l = 1 /\ mismatch = <<>>

Ev == Trace[l]
Is(name) == l <= Len(Trace) /\ Ev.op = name

\* the spec action fires with the logged arguments; the logged result is compared with obs'
Step(A) ==
    /\ A
    /\ l' = l + 1
    /\ mismatch' = IF mismatch = <<>> /\ obs' # Ev.res
                   THEN <<l, Ev.backend, Ev.op, Ev.res, obs'>> ELSE mismatch

TraceReset ==
    /\ Is("tracereset")
    /\ db' = [k \in Keys |-> Absent]
    /\ bops' = [b \in Batches |-> <<>>]
    /\ bpendOn' = [b \in Batches |-> FALSE]
    /\ bpend' = [b \in Batches |-> EmptyPend]
    /\ bwritten' = [b \in Batches |-> FALSE]
    /\ step' = 0 /\ obs' = <<"init">> /\ hist' = <<>>
    /\ l' = l + 1 /\ UNCHANGED mismatch

TraceNext ==
    \/ TraceReset
    \/ Is("put")        /\ Step(Put(Ev.k, Ev.v))
    \/ Is("del")        /\ Step(Delete(Ev.k))
    \/ Is("get")        /\ Step(Get(Ev.k))
    \/ Is("has")        /\ Step(Has(Ev.k))
    \/ Is("compact")    /\ Step(Compact)
    \/ Is("iter")       /\ Step(Iterate(Ev.p, Ev.s))
    \/ Is("bput")       /\ Step(BPut(Ev.b, Ev.k, Ev.v))
    \/ Is("bdel")       /\ Step(BDelete(Ev.b, Ev.k))
    \/ Is("setpending") /\ Step(BSetPending(Ev.b, Ev.v = 1))
    \/ Is("getpending") /\ Step(BGetPending(Ev.b, Ev.k))
    \/ Is("write")      /\ Step(BWrite(Ev.b))
    \/ Is("reset")      /\ Step(BReset(Ev.b))
    \/ Is("size")       /\ Step(BSizeEmpty(Ev.b))
    \/ Is("replay")     /\ Step(BReplay(Ev.b, Ev.t))

TraceSpec == TraceInit /\ [][TraceNext]_tvars

\* C17 on implementation states: every observation equals the specified one
ObservationsConform == mismatch = <<>>

\* the whole trace was consumed (an event outside the interface contract stops the run)
TraceAccepted == TLCGet("stats").diameter - 1 = Len(Trace)
=============================================================================
