SPECIFICATION TraceSpec
CONSTANTS
  ConvIds <- TraceIds
  Amounts = {10000}
  Slips = {0}
  Flow = 1
  Rates = {1}
  KQs = {0}
  Denoms <- TraceDenoms
  TrimIdx = 0
  GasOuts = {0}
  LockPeriod = 3
  MaxHeight = 100000
  MaxOps = 100000000
  MinQuai = 0
  InitQuai = 1000000000
  InitQi = 1000000000
  CodeRefund = FALSE
  Increasings = {FALSE}
CONSTRAINT Collect
POSTCONDITION TraceAccepted
CHECK_DEADLOCK FALSE
