SPECIFICATION Spec
CONSTANTS
  NSym = 3
  Keys <- K7
  Vals <- V2
  CheckKeys <- C7
  MaxOps = 3
  Ops <- OpsNoCopy
  KeepHist = TRUE
VIEW view
ACTION_CONSTRAINT EmitHist
CHECK_DEADLOCK FALSE
