SPECIFICATION Spec
CONSTANTS
  ConvIds <- Ids3
  Amounts <- AmtsA
  Slips <- SlipsA
  Flow = 100
  Rates <- RatesB
  KQs <- KQsA
  Denoms <- DenomsA
  TrimIdx = 3
  GasOuts <- GasQ
  LockPeriod = 2
  MaxHeight = 5
  MaxOps = 4
  MinQuai = 20
  InitQuai = 4000
  InitQi = 4000
  CodeRefund = FALSE
  Increasings <- BoolAll
VIEW view
ACTION_CONSTRAINT EmitHist
CHECK_DEADLOCK FALSE
