// Package chain: scenario helpers on top of mininet — database scans (projection of the real chain
// database onto the abstract state of spec/ZoneChain.tla), wallets, transaction submission.
package chain

import (
	"bytes"
	"encoding/binary"
	"encoding/hex"
	"fmt"
	"math/big"
	"sort"

	"github.com/dominant-strategies/go-quai/common"
	"github.com/dominant-strategies/go-quai/core/rawdb"
	"github.com/dominant-strategies/go-quai/core/types"
	"github.com/dominant-strategies/go-quai/crypto/multiset"
	"github.com/dominant-strategies/go-quai/ethdb"
)

type Utxo struct {
	TxHash common.Hash
	Index  uint16
	Denom  uint8
	Addr   []byte
	Lock   uint64
	Raw    []byte
	Entry  *types.UtxoEntry
}

func (u Utxo) Key() string { return fmt.Sprintf("%x:%d", u.TxHash[:], u.Index) }

type Lockup struct {
	Key          []byte
	Raw          []byte
	Owner, Miner common.Address
	LockupByte   byte
	Epoch        uint32
	Balance      *big.Int
	UnlockHeight uint32
	Elements     uint16
	Delegate     common.Address
}

type State struct {
	Utxos   map[string]Utxo
	Lockups map[string]Lockup // keyed by hex of db key
}

// ScanState reads every 'ut' and 'cl' record straight from the database (no go-quai bookkeeping).
func ScanState(db ethdb.Database, loc common.Location) (*State, error) {
	st := &State{Utxos: map[string]Utxo{}, Lockups: map[string]Lockup{}}
	it := db.NewIterator(rawdb.UtxoPrefix, nil)
	for it.Next() {
		k := it.Key()
		if len(k) != rawdb.UtxoKeyLength {
			continue
		}
		h, idx, err := rawdb.ReverseUtxoKey(k)
		if err != nil {
			return nil, err
		}
		e := rawdb.GetUTXO(db, h, idx)
		if e == nil {
			return nil, fmt.Errorf("undecodable utxo record %x", k)
		}
		lock := uint64(0)
		if e.Lock != nil {
			lock = e.Lock.Uint64()
		}
		u := Utxo{TxHash: h, Index: idx, Denom: e.Denomination, Addr: common.CopyBytes(e.Address), Lock: lock, Raw: common.CopyBytes(it.Value()), Entry: e}
		st.Utxos[u.Key()] = u
	}
	it.Release()
	if err := it.Error(); err != nil {
		return nil, err
	}
	it = db.NewIterator(rawdb.CoinbaseLockupPrefix, nil)
	for it.Next() {
		k := it.Key()
		if len(k) != rawdb.CoinbaseLockupKeyLength {
			continue
		}
		data := it.Value()
		if len(data) != 38 && len(data) != 58 {
			return nil, fmt.Errorf("lockup record %x has length %d", k, len(data))
		}
		owner, miner, lb, epoch, err := rawdb.ReverseCoinbaseLockupKey(k, loc)
		if err != nil {
			return nil, err
		}
		l := Lockup{Key: common.CopyBytes(k), Raw: common.CopyBytes(data), Owner: owner, Miner: miner, LockupByte: lb, Epoch: epoch,
			Balance: new(big.Int).SetBytes(data[:32]), UnlockHeight: binary.BigEndian.Uint32(data[32:36]), Elements: binary.BigEndian.Uint16(data[36:38]), Delegate: common.Zero}
		if len(data) == 58 {
			l.Delegate = common.BytesToAddress(data[38:], loc)
		}
		st.Lockups[hex.EncodeToString(k)] = l
	}
	it.Release()
	return st, it.Error()
}

// Commitment recomputes, from scratch, the multiset hash and the size the header must commit to.
func (s *State) Commitment() (common.Hash, uint64) {
	ms := multiset.New()
	for _, u := range s.Utxos {
		ms.Add(types.UTXOHash(u.TxHash, u.Index, u.Entry).Bytes())
	}
	for _, l := range s.Lockups {
		ms.Add(types.CoinbaseLockupHash(l.Owner, l.Miner, l.Delegate, l.LockupByte, l.Epoch, l.Balance, l.UnlockHeight, l.Elements).Bytes())
	}
	return ms.Hash(), uint64(len(s.Utxos) + len(s.Lockups))
}

// Digest is a canonical string of the whole scanned state (for equality between nodes / runs).
func (s *State) Digest() string {
	var keys []string
	for k, u := range s.Utxos {
		keys = append(keys, "u"+k+"="+hex.EncodeToString(u.Raw))
	}
	for k, l := range s.Lockups {
		keys = append(keys, "l"+k+"="+hex.EncodeToString(l.Raw))
	}
	sort.Strings(keys)
	h := common.Hash{}
	var buf bytes.Buffer
	for _, k := range keys {
		buf.WriteString(k)
		buf.WriteByte('\n')
	}
	h = types.RlpHash(buf.Bytes())
	return h.Hex()
}

// Diff returns keys only in a, only in b, and keys whose raw records differ.
func Diff(a, b *State) (onlyA, onlyB, changed []string) {
	for k, u := range a.Utxos {
		if v, ok := b.Utxos[k]; !ok {
			onlyA = append(onlyA, "ut:"+k)
		} else if !bytes.Equal(u.Raw, v.Raw) {
			changed = append(changed, "ut:"+k)
		}
	}
	for k := range b.Utxos {
		if _, ok := a.Utxos[k]; !ok {
			onlyB = append(onlyB, "ut:"+k)
		}
	}
	for k, l := range a.Lockups {
		if v, ok := b.Lockups[k]; !ok {
			onlyA = append(onlyA, "cl:"+k)
		} else if !bytes.Equal(l.Raw, v.Raw) {
			changed = append(changed, "cl:"+k)
		}
	}
	for k := range b.Lockups {
		if _, ok := a.Lockups[k]; !ok {
			onlyB = append(onlyB, "cl:"+k)
		}
	}
	sort.Strings(onlyA)
	sort.Strings(onlyB)
	sort.Strings(changed)
	return
}

// Canon reads the canonical number->hash mapping and head pointer straight from the database.
func Canon(db ethdb.Database, max uint64) (map[uint64]common.Hash, common.Hash) {
	m := map[uint64]common.Hash{}
	for n := uint64(0); n <= max; n++ {
		h := rawdb.ReadCanonicalHash(db, n)
		if h != (common.Hash{}) {
			m[n] = h
		}
	}
	return m, rawdb.ReadHeadBlockHash(db)
}
