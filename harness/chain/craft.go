package chain

import (
	"fmt"
	"math/big"
	"regexp"

	"github.com/dominant-strategies/go-quai/core/types"
	"github.com/dominant-strategies/go-quai/trie"
	"verifharness/mininet"
	"verifharness/wallet"
)

// Blocks a PEER could produce but the local worker never does.  The worker looks Qi inputs up in the database only, so it
// never puts a transaction into a block that spends an output created earlier in the SAME block; block processing
// (core.ProcessQiTx through the batch's pending view) accepts such blocks.  craft takes the block the worker assembled,
// appends further transactions to its body and recomputes the header commitments by running the node's own
// StateProcessor.Process on the parent state (what any miner does when it assembles: the commitments are whatever
// execution yields; they are not what is judged here - that the block is ACCEPTED and what it does to the database is).

var remoteLocal = regexp.MustCompile(`invalid (avgTxFees|totalFees) used \(remote: (\d+) local: (\d+)\)`)

// craft inserts extra behind the transaction `after`: a block must list its transactions by non-increasing gas price, so
// every position from there to the end is tried until the block executes.
func (r *Runner) craft(honest *types.WorkObject, extra []*types.Transaction) (*types.WorkObject, error) {
	first := -1
	for i, tx := range honest.Transactions() {
		if tx.Hash() == r.craftNeeds {
			first = i + 1
		}
	}
	if first < 0 {
		return nil, fmt.Errorf("anchor transaction not in the block")
	}
	var last error
	for pos := first; pos <= len(honest.Transactions()); pos++ {
		wo, err := r.craftAt(honest, extra, pos)
		if err == nil {
			return wo, nil
		}
		last = err
	}
	return nil, last
}

func (r *Runner) craftAt(honest *types.WorkObject, extra []*types.Transaction, pos int) (*types.WorkObject, error) {
	n := r.E.Net
	wo, err := mininet.RoundTrip(honest, mininet.ZoneLoc)
	if err != nil {
		return nil, err
	}
	txs := append(types.Transactions{}, wo.Transactions()[:pos]...)
	txs = append(txs, extra...)
	txs = append(txs, wo.Transactions()[pos:]...)
	wo.Body().SetTransactions(txs)
	wo.Header().SetTxHash(types.DeriveSha(wo.Transactions(), trie.NewStackTrie(nil)))
	z := n.ZoneCore()
	for round := 0; round < 6; round++ {
		wo.WorkObjectHeader().SetHeaderHash(wo.Header().Hash())
		rb := &recBatch{Batch: n.DBs[mininet.Zone].NewBatch()}
		receipts, etxs, _, statedb, gas, st, _, ms, _, err := z.Processor().Process(wo, rb)
		if err != nil {
			if m := remoteLocal.FindStringSubmatch(err.Error()); m != nil {
				v, _ := new(big.Int).SetString(m[3], 10)
				if m[1] == "avgTxFees" {
					wo.Header().SetAvgTxFees(v)
				} else {
					wo.Header().SetTotalFees(v)
				}
				continue
			}
			return nil, fmt.Errorf("crafted block does not execute: %w", err)
		}
		h := wo.Header()
		h.SetGasUsed(gas)
		h.SetStateUsed(st)
		h.SetReceiptHash(types.DeriveSha(types.Receipts(receipts), trie.NewStackTrie(nil)))
		h.SetEVMRoot(statedb.IntermediateRoot(true))
		h.SetQuaiStateSize(statedb.GetQuaiTrieSize())
		h.SetUTXORoot(ms.Hash())
		h.SetEtxSetRoot(statedb.ETXRoot())
		h.SetOutboundEtxHash(types.DeriveSha(types.Transactions(etxs), trie.NewStackTrie(nil)))
		wo.Body().SetOutboundEtxs(etxs)
		wo.WorkObjectHeader().SetHeaderHash(wo.Header().Hash())
		if _, err := n.Seal(wo, mininet.Zone, 1<<24); err != nil {
			return nil, err
		}
		return mininet.RoundTrip(wo, mininet.ZoneLoc)
	}
	return nil, fmt.Errorf("crafted block: fee fields did not settle")
}

// MineChained mines, on abstract block parent, a zone block that contains a Qi transaction tx1 (taken by the worker from the
// pool) AND a transaction tx2 spending an output tx1 creates (appended by craft).  ok = false when no suitable output exists.
func (r *Runner) MineChained(parent int) (id int, ok bool, err error) {
	e := r.E
	if r.head() != parent {
		if err := r.SetHead(parent, true); err != nil {
			return -1, false, err
		}
	}
	var src Utxo
	var owner wallet.Key
	found := false
	for _, k := range e.Qi {
		sp, _ := e.Spendable(k)
		for _, u := range sp {
			if u.Denom >= 2 && u.Denom > types.MaxTrimDenomination { // not an output the trimming of this very block could touch
				src, owner, found = u, k, true
				break
			}
		}
		if found {
			break
		}
	}
	if !found {
		return -1, false, nil
	}
	var dst, third wallet.Key
	for _, k := range e.Qi {
		if string(k.Addr.Bytes()) != string(owner.Addr.Bytes()) {
			dst = k
			break
		}
	}
	for _, k := range e.Qi {
		if string(k.Addr.Bytes()) != string(dst.Addr.Bytes()) && string(k.Addr.Bytes()) != string(owner.Addr.Bytes()) {
			third = k
		}
	}
	tx1, err := wallet.QiTx(e.Signer, e.ChainID, []wallet.In{{Out: types.OutPoint{TxHash: src.TxHash, Index: src.Index}, Key: owner}},
		[]types.TxOut{{Denomination: src.Denom - 1, Address: dst.Addr.Bytes()}}, nil, nil)
	if err != nil {
		return -1, false, err
	}
	if err := e.AddTx(tx1); err != nil {
		return -1, false, nil
	}
	tx2, err := wallet.QiTx(e.Signer, e.ChainID, []wallet.In{{Out: types.OutPoint{TxHash: tx1.Hash(), Index: 0}, Key: dst}},
		[]types.TxOut{{Denomination: src.Denom - 2, Address: third.Addr.Bytes()}}, nil, nil)
	if err != nil {
		return -1, false, err
	}
	r.craftExtra, r.craftNeeds, r.craftAdversarial = []*types.Transaction{tx2}, tx1.Hash(), false
	if r.R.Intn(3) == 0 && src.Denom >= 3 {
		// adversarial: a third transaction spends the SAME same-block output again (to another address); no node may execute this
		tx3, err := wallet.QiTx(e.Signer, e.ChainID, []wallet.In{{Out: types.OutPoint{TxHash: tx1.Hash(), Index: 0}, Key: dst}},
			[]types.TxOut{{Denomination: src.Denom - 3, Address: owner.Addr.Bytes()}}, nil, nil)
		if err == nil {
			r.craftExtra, r.craftAdversarial = []*types.Transaction{tx2, tx3}, true
		}
	}
	defer func() { r.craftExtra, r.craftAdversarial = nil, false }()
	id, err = r.MineOn(parent, mininet.Zone)
	if err != nil {
		return -1, false, err
	}
	if !r.crafted {
		return id, false, nil // the worker did not include tx1: an ordinary block was mined
	}
	r.Events[len(r.Events)-1]["chained"] = true
	r.Chained++
	return id, true, nil
}

// OfferConversions hands n small Quai->Qi conversions (plain transfers to own-zone Qi addresses) to the pool.
func (r *Runner) OfferConversions(n int) int {
	e := r.E
	ok := 0
	for i := 0; i < n; i++ {
		from := e.Quai[r.R.Intn(len(e.Quai))]
		to := e.Qi[r.R.Intn(len(e.Qi))].Addr
		amt := new(big.Int).Mul(big.NewInt(int64(30+r.R.Intn(30))), big.NewInt(1e18)) // well above the minimum conversion amount
		tx, err := wallet.QuaiTx(e.Signer, e.ChainID, from, r.stateNonce(from)+r.quaiNonce[from.Addr], &to, amt, 400000, r.gasPrice(), nil)
		if err != nil {
			continue
		}
		if err := e.AddTx(tx); err == nil {
			r.quaiNonce[from.Addr]++
			ok++
		}
	}
	return ok
}
