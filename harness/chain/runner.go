package chain

import (
	"encoding/hex"
	"encoding/json"
	"fmt"
	"math/big"
	"math/rand"
	"os"
	"sort"

	"github.com/dominant-strategies/go-quai/common"
	"github.com/dominant-strategies/go-quai/core/rawdb"
	"github.com/dominant-strategies/go-quai/core/types"
	"github.com/dominant-strategies/go-quai/crypto"
	"github.com/dominant-strategies/go-quai/params"
	"verifharness/mininet"
	"verifharness/wallet"
)

// Runner drives a MiniNet through mine / fork / sethead steps with random real content and records,
// after every step, the projection of the zone database onto the abstract state of spec/ZoneChain.tla.
type Runner struct {
	E              *Env
	R              *rand.Rand
	ids            map[string]int // entry (utxo / lockup record) -> abstract id
	names          []string
	Blocks         []BlockInfo // abstract block id -> info (0 = genesis)
	byHash         map[common.Hash]int
	Events         []map[string]interface{}
	Prev           *State
	quaiNonce      map[common.Address]uint64
	Verbose        bool
	Verbose2       bool
	Problems       []Problem // native (non-TLC) property violations found while running
	Mined          map[int]*mininet.Mined
	Followers      []*mininet.Net
	FollowerNames  []string
	ReexecProcs    []int // GOMAXPROCS values for re-execution before insertion (nil = off)
	Reexecs        int
	FollowerChecks int
	FreshReplays   int
	Adversarial    int
	FailingTxs     int
	etxIDs         map[string]int
	etxEmitted     map[int]etxRec
	IndexChecks    int
	DomCanonChecks int
	ReceiptEtxChecks int
	convSeen          map[string][]string
	SiblingConvChecks int
	craftExtra     []*types.Transaction
	craftNeeds     common.Hash
	crafted        bool
	craftAdversarial   bool
	DoubleSpendRefused int // adversarial peer-style blocks (same-block output spent twice) the node refused to execute
	SlotCalls      int // calls to the storage contract offered to the pool
	Chained        int // blocks with a same-block chained Qi spend that were accepted
}

type Problem struct {
	Kind string                 `json:"kind"`
	Info map[string]interface{} `json:"info"`
}

type BlockInfo struct {
	Hash   common.Hash
	Parent int
	Height uint64
	Order  int
	PHash  common.Hash // prime head to use when this block is the zone head
	RHash  common.Hash // region head
}

func NewRunner(e *Env, seed int64) (*Runner, error) {
	r := &Runner{E: e, R: rand.New(rand.NewSource(seed)), ids: map[string]int{}, byHash: map[common.Hash]int{}, quaiNonce: map[common.Address]uint64{}}
	g := e.Net.Gen
	r.Blocks = append(r.Blocks, BlockInfo{Hash: g, Parent: -1, PHash: g, RHash: g})
	r.byHash[g] = 0
	st, err := ScanState(e.Net.DBs[mininet.Zone], mininet.ZoneLoc)
	if err != nil {
		return nil, err
	}
	r.Prev = st
	return r, nil
}

func (r *Runner) id(entry string) int {
	if v, ok := r.ids[entry]; ok {
		return v
	}
	v := len(r.names) + 1
	r.ids[entry] = v
	r.names = append(r.names, entry)
	return v
}

func entrySet(st *State) map[string]bool {
	m := map[string]bool{}
	for k, u := range st.Utxos {
		m["u"+k+"="+hex.EncodeToString(u.Raw)] = true
	}
	for k, l := range st.Lockups {
		m["l"+k+"="+hex.EncodeToString(l.Raw)] = true
	}
	return m
}

func (r *Runner) abstractSet(m map[string]bool) []int {
	out := make([]int, 0, len(m))
	for k := range m {
		out = append(out, r.id(k))
	}
	sort.Ints(out)
	return out
}

func (r *Runner) head() int { return r.byHash[r.E.Net.ZoneCore().CurrentHeader().Hash()] }

// observe scans the database and returns the common part of every event
func (r *Runner) observe() (map[string]interface{}, *State, error) {
	db := r.E.Net.DBs[mininet.Zone]
	st, err := ScanState(db, mininet.ZoneLoc)
	if err != nil {
		return nil, nil, err
	}
	hd := r.E.Net.ZoneCore().CurrentHeader()
	root, size := st.Commitment()
	canonMap, dbHead := Canon(db, hd.NumberU64(common.ZONE_CTX)+8)
	canon := []int{}
	for h := uint64(0); h <= hd.NumberU64(common.ZONE_CTX)+8; h++ {
		if x, ok := canonMap[h]; ok {
			if id, known := r.byHash[x]; known {
				canon = append(canon, id)
			} else {
				canon = append(canon, -2)
			}
		} else {
			break
		}
	}
	above := 0
	for h := range canonMap {
		if h > hd.NumberU64(common.ZONE_CTX) {
			above++
		}
	}
	headID, ok := r.byHash[dbHead]
	if !ok {
		headID = -2
	}
	storedSize := rawdb.ReadUTXOSetSize(db, hd.Hash())
	if hd.NumberU64(common.ZONE_CTX) == 0 {
		storedSize = 0
	}
	rootOK := root == hd.UTXORoot()
	if hd.NumberU64(common.ZONE_CTX) == 0 {
		rootOK = len(st.Utxos)+len(st.Lockups) == 0
	}
	ev := map[string]interface{}{
		"utxo": r.abstractSet(entrySet(st)), "head": headID, "mem_head": r.head(), "canon": canon, "canon_above_head": above,
		"root_ok": rootOK, "size_ok": size == storedSize,
	}
	// the dominant chains reorganise too when the zone head moves to a block confirmed by other region / prime blocks: at every
	// level the canonical number->hash index must be exactly the ancestry of that level's head (walked through the parent
	// pointers of the headers themselves), with nothing above the head
	for _, ctx := range []int{mininet.Prime, mininet.Region} {
		c := r.E.Net.Cores[ctx]
		ddb := r.E.Net.DBs[ctx]
		h := c.CurrentHeader()
		if h == nil {
			continue
		}
		r.DomCanonChecks++
		top := h.NumberU64(ctx)
		for k := uint64(1); k <= 6; k++ {
			if x := rawdb.ReadCanonicalHash(ddb, top+k); x != (common.Hash{}) {
				r.Problems = append(r.Problems, Problem{"dom-canonical-index-differs", map[string]interface{}{"level": ctx, "height": top + k, "what": "entry above the head", "event": len(r.Events)}})
				break
			}
		}
		for steps := 0; h != nil && h.NumberU64(ctx) > 0 && steps < 400; steps++ {
			if x := rawdb.ReadCanonicalHash(ddb, h.NumberU64(ctx)); x != h.Hash() {
				r.Problems = append(r.Problems, Problem{"dom-canonical-index-differs", map[string]interface{}{"level": ctx, "height": h.NumberU64(ctx), "head_height": top,
					"what": "canonical entry is not the head's ancestor at that height", "entry_empty": x == (common.Hash{}), "event": len(r.Events)}})
				break
			}
			h = c.GetHeaderByHash(h.ParentHash(ctx))
		}
	}
	if r.E.Net.Opt.IndexAddressUtxos {
		// the per-address index must list exactly the unspent outputs of each address (derived from the 'ut' scan itself)
		idx, err := ScanAddrIndex(db)
		if err != nil {
			return nil, nil, err
		}
		r.IndexChecks++
		if d := DiffIndex(idx, st.IndexOf()); len(d) > 0 {
			if len(d) > 6 {
				d = d[:6]
			}
			r.Problems = append(r.Problems, Problem{"address-index-differs-from-utxo-set", map[string]interface{}{"head": headID, "event": len(r.Events), "diff": d}})
		}
	}
	return ev, st, nil
}

// ---------------------------------------------------------------- content

func (r *Runner) gasPrice() *big.Int {
	ph, err := r.E.Net.Pending()
	if err != nil || ph.BaseFee() == nil {
		return big.NewInt(params.GWei)
	}
	return new(big.Int).Mul(ph.BaseFee(), big.NewInt(2))
}

func (r *Runner) stateNonce(k wallet.Key) uint64 {
	st, err := r.E.Net.ZoneCore().Processor().State()
	if err != nil {
		return 0
	}
	ia, _ := k.Addr.InternalAddress()
	return st.GetNonce(ia)
}

// Fund converts Quai into Qi for every Qi key (plain transfers to own-zone Qi addresses).
func (r *Runner) Fund(amountQuai int64) error {
	nonce := r.stateNonce(r.E.Quai[0])
	for i, k := range r.E.Qi {
		to := k.Addr
		amt := new(big.Int).Mul(big.NewInt(amountQuai+int64(7*i)), big.NewInt(params.Ether))
		tx, err := wallet.QuaiTx(r.E.Signer, r.E.ChainID, r.E.Quai[0], nonce, &to, amt, 400000, r.gasPrice(), nil)
		if err != nil {
			return err
		}
		if err := r.E.AddTx(tx); err != nil {
			return fmt.Errorf("funding tx: %w", err)
		}
		nonce++
	}
	return nil
}

// RandomContent submits up to n random transactions to the real pool (rejections are fine).
func (r *Runner) RandomContent(n int) (submitted int) {
	e := r.E
	used := map[string]bool{}
	for i := 0; i < n; i++ {
		switch x := r.R.Intn(10); {
		case x < 7: // Qi spend
			k := e.Qi[r.R.Intn(len(e.Qi))]
			sp, err := e.Spendable(k)
			if r.Verbose {
				fmt.Println("DBG spendable", len(sp), err, "height", e.Height())
			}
			if err != nil || len(sp) == 0 {
				continue
			}
			var cand []Utxo
			for _, u := range sp {
				// outputs of denomination <= MaxTrimDenomination are left to be trimmed: spending one in exactly the block that
				// trims it triggers known finding C06 spend-at-trim-depth, which would mask the rest of the run
				if !used[u.Key()] && u.Denom > types.MaxTrimDenomination {
					cand = append(cand, u)
				}
			}
			if len(cand) == 0 {
				continue
			}
			u := cand[r.R.Intn(len(cand))]
			used[u.Key()] = true
			ins := []wallet.In{{Out: types.OutPoint{TxHash: u.TxHash, Index: u.Index}, Key: k}}
			total := new(big.Int).Set(types.Denominations[u.Denom])
			// sometimes a second input owned by another key (MuSig2 path)
			if r.R.Intn(4) == 0 {
				k2 := e.Qi[r.R.Intn(len(e.Qi))]
				if string(k2.Addr.Bytes()) != string(k.Addr.Bytes()) {
					sp2, _ := e.Spendable(k2)
					for _, u2 := range sp2 {
						if !used[u2.Key()] && u2.Denom > types.MaxTrimDenomination {
							used[u2.Key()] = true
							ins = append(ins, wallet.In{Out: types.OutPoint{TxHash: u2.TxHash, Index: u2.Index}, Key: k2})
							total.Add(total, types.Denominations[u2.Denom])
							break
						}
					}
				}
			}
			// outputs: strictly smaller denominations to other keys, at most half of the input value
			budget := new(big.Int).Div(total, big.NewInt(2))
			var outs []types.TxOut
			inAddrs := map[string]bool{}
			for _, in := range ins {
				inAddrs[string(in.Key.Addr.Bytes())] = true
			}
			perm := r.R.Perm(len(e.Qi))
			for _, pi := range perm {
				if len(outs) >= 1+r.R.Intn(3) {
					break
				}
				ok := e.Qi[pi]
				if inAddrs[string(ok.Addr.Bytes())] {
					continue
				}
				maxD := int(u.Denom) - 1
				if maxD < 0 {
					break
				}
				d := uint8(r.R.Intn(maxD + 1))
				if types.Denominations[d].Cmp(budget) > 0 {
					continue
				}
				budget.Sub(budget, types.Denominations[d])
				outs = append(outs, types.TxOut{Denomination: d, Address: ok.Addr.Bytes()})
			}
			if len(outs) == 0 {
				continue
			}
			// adversarial variant (1 in 8): the same outpoint named twice, signed by the owner for both slots, outputs worth
			// up to twice the input. The pool may take it or not; the worker must never build an invalid block from it.
			if len(ins) == 1 && r.R.Intn(8) == 0 {
				ins = append(ins, ins[0])
				extra := e.Qi[perm[len(perm)-1]]
				if !inAddrs[string(extra.Addr.Bytes())] && u.Denom >= 1 {
					dup := false
					for _, o := range outs {
						if string(o.Address) == string(extra.Addr.Bytes()) {
							dup = true
						}
					}
					if !dup {
						outs = append(outs, types.TxOut{Denomination: u.Denom - 1, Address: extra.Addr.Bytes()})
					}
				}
				r.Adversarial++
			}
			tx, err := wallet.QiTx(e.Signer, e.ChainID, ins, outs, nil, nil)
			if err != nil {
				continue
			}
			if err := e.AddTx(tx); err == nil {
				submitted++
			} else if r.Verbose {
				fmt.Println("qi tx rejected by pool:", err)
			}
		case x < 9 && e.SlotContract != nil && len(e.Quai) > 2 && r.R.Intn(2) == 0: // storage: set / clear / re-read one slot across blocks
			from := e.Quai[1]
			arg := make([]byte, 32)
			if r.SlotCalls%2 == 0 { // set, clear, set, clear ...: every set after a clear re-reads the cleared slot
				arg[31] = byte(1 + r.R.Intn(200))
			}
			tx, err := wallet.QuaiTx(e.Signer, e.ChainID, from, r.stateNonce(from)+r.quaiNonce[from.Addr], e.SlotContract, big.NewInt(0), 120000, r.gasPrice(), arg)
			if err != nil {
				continue
			}
			if err := e.AddTx(tx); err == nil {
				submitted++
				r.quaiNonce[from.Addr]++
				r.SlotCalls++
			}
		case x < 9: // Quai transfer
			from := e.Quai[r.R.Intn(len(e.Quai))]
			to := e.Quai[r.R.Intn(len(e.Quai))].Addr
			tx, err := wallet.QuaiTx(e.Signer, e.ChainID, from, r.stateNonce(from)+r.quaiNonce[from.Addr], &to, big.NewInt(int64(1+r.R.Intn(1000000))), 30000, r.gasPrice(), nil)
			if err != nil {
				continue
			}
			if err := e.AddTx(tx); err == nil {
				submitted++
				r.quaiNonce[from.Addr]++
			}
		case x == 9 && r.R.Intn(2) == 0: // a transaction that is includable but FAILS in the EVM: creation whose init code reverts
			from := e.Quai[r.R.Intn(len(e.Quai))]
			nonce := r.stateNonce(from) + r.quaiNonce[from.Addr]
			var code []byte
			var caddr common.Address
			for salt := 0; ; salt++ {
				code = []byte{0x60, 0x00, 0x60, 0x00, 0xfd, byte(salt >> 8), byte(salt)}
				caddr = crypto.CreateAddress(from.Addr, nonce, code, mininet.ZoneLoc)
				if _, err := caddr.InternalAndQuaiAddress(); err == nil {
					break
				}
			}
			inner := &types.QuaiTx{ChainID: e.ChainID, Nonce: nonce, GasPrice: r.gasPrice(), Gas: 300000, To: nil, Value: big.NewInt(0), Data: code,
				AccessList: types.AccessList{{Address: caddr}}}
			tx, err := types.SignTx(types.NewTx(inner), e.Signer, from.Priv)
			if err != nil {
				continue
			}
			if err := e.AddTx(tx); err == nil {
				submitted++
				r.quaiNonce[from.Addr]++
				r.FailingTxs++
			}
		default: // small Quai -> Qi conversion
			from := e.Quai[r.R.Intn(len(e.Quai))]
			to := e.Qi[r.R.Intn(len(e.Qi))].Addr
			amt := new(big.Int).Mul(big.NewInt(int64(1+r.R.Intn(5))), big.NewInt(params.Ether))
			tx, err := wallet.QuaiTx(e.Signer, e.ChainID, from, r.stateNonce(from)+r.quaiNonce[from.Addr], &to, amt, 400000, r.gasPrice(), nil)
			if err != nil {
				continue
			}
			if err := e.AddTx(tx); err == nil {
				submitted++
				r.quaiNonce[from.Addr]++
			}
		}
	}
	return
}

// ---------------------------------------------------------------- steps

// SetHead switches the three chains to the heads recorded for abstract block b and logs the result.
func (r *Runner) SetHead(b int, log bool) error {
	bi := r.Blocks[b]
	err := r.E.Net.SetHead(bi.PHash, bi.RHash, bi.Hash)
	r.quaiNonce = map[common.Address]uint64{}
	ev, st, oerr := r.observe()
	if oerr != nil {
		return oerr
	}
	r.Prev = st
	if err != nil && r.Verbose2 {
		z := r.E.Net.ZoneCore()
		for h := uint64(1); h <= z.CurrentHeader().NumberU64(2)+12; h++ {
			blk := z.GetBlockByNumber(h)
			if blk == nil {
				continue
			}
			for i, etx := range blk.Body().ExternalTransactions() {
				if _, e2 := etx.To().InternalAddress(); e2 != nil {
					fmt.Printf("DEBUG bad etx: block h=%d hash=%x idx=%d type=%d to=%x toLoc=%v err=%v coinbase=%v conv=%v\n", h, blk.Hash().Bytes()[:4], i, etx.EtxType(), etx.To().Bytes(), etx.To().Location(), e2, types.IsCoinBaseTx(etx), types.IsConversionTx(etx))
				}
			}
		}
	}
	if log {
		ev["op"] = "sethead"
		ev["b"] = b
		ev["err"] = err != nil
		if err != nil {
			ev["errmsg"] = err.Error()
		}
		r.Events = append(r.Events, ev)
	}
	for fi, f := range r.Followers {
		if ferr := f.SetHead(bi.PHash, bi.RHash, bi.Hash); (ferr != nil) != (err != nil) {
			r.Problems = append(r.Problems, Problem{"follower-sethead-differs", map[string]interface{}{"block": b, "follower": r.FollowerNames[fi], "leader_err": fmt.Sprint(err), "follower_err": fmt.Sprint(ferr)}})
			continue
		}
		r.compareFollower(fi, b, st)
	}
	return err
}

// MineOn mines one block on abstract block `parent` (switching head there first if needed).
func (r *Runner) MineOn(parent int, wantOrder int) (int, error) {
	if r.head() != parent {
		if err := r.SetHead(parent, true); err != nil {
			return -1, fmt.Errorf("sethead before mine: %w", err)
		}
	}
	before := r.Prev
	n := r.E.Net
	if err := n.Refill(); err != nil {
		return -1, fmt.Errorf("refill pending header: %w", err)
	}
	ph, err := n.Pending()
	if err != nil {
		return -1, err
	}
	if ph.ParentHash(common.ZONE_CTX) != r.Blocks[parent].Hash {
		// a failed head switch left a stale pending header behind: rebuild it on the real head
		if err := r.SetHead(parent, true); err != nil {
			return -1, fmt.Errorf("cannot rebuild pending header on head: %w", err)
		}
		before = r.Prev
		if ph, err = n.Pending(); err != nil {
			return -1, err
		}
		if ph.ParentHash(common.ZONE_CTX) != r.Blocks[parent].Hash {
			return -1, fmt.Errorf("pending header is not built on the current head")
		}
	}
	if _, err := n.Seal(ph, wantOrder, 1<<22); err != nil {
		return -1, err
	}
	m, err := n.Assemble(ph)
	if err != nil {
		return -1, err
	}
	r.crafted = false
	if len(r.craftExtra) > 0 && m.Order == mininet.Zone {
		has := false
		for _, tx := range m.Blocks[mininet.Zone].Transactions() {
			if tx.Hash() == r.craftNeeds {
				has = true
			}
		}
		if has {
			cw, err := r.craft(m.Blocks[mininet.Zone], r.craftExtra)
			if err != nil && !r.craftAdversarial {
				return -1, fmt.Errorf("craft: %w", err)
			}
			if err != nil {
				// the adversarial variant (two transactions spending the same same-block output) does not execute: as it must be;
				// the worker's own block is mined instead
				r.DoubleSpendRefused++
			} else {
				m = &mininet.Mined{Order: mininet.Zone, Hash: cw.Hash()}
				m.Blocks[mininet.Zone] = cw
				r.crafted = true
			}
		}
	}
	r.dbgAddrs("after-assemble", m.Blocks[mininet.Zone])
	if len(r.ReexecProcs) > 0 {
		r.Reexecute(len(r.Blocks), m.Blocks[mininet.Zone], r.ReexecProcs)
	}
	r.dbgAddrs("after-reexec", m.Blocks[mininet.Zone])
	if err := n.Insert(m); err != nil {
		r.Problems = append(r.Problems, Problem{"own-block-rejected", map[string]interface{}{"block": len(r.Blocks), "err": err.Error()}})
		return -1, fmt.Errorf("insert: %w", err)
	}
	if err := n.Advance(m); err != nil {
		r.Problems = append(r.Problems, Problem{"own-block-rejected", map[string]interface{}{"block": len(r.Blocks), "err": err.Error()}})
		return -1, fmt.Errorf("advance: %w", err)
	}
	r.quaiNonce = map[common.Address]uint64{}
	zb := m.Blocks[mininet.Zone]
	pb := r.Blocks[parent]
	bi := BlockInfo{Hash: m.Hash, Parent: parent, Height: zb.NumberU64(common.ZONE_CTX), Order: m.Order, PHash: pb.PHash, RHash: pb.RHash}
	if m.Order <= mininet.Prime {
		bi.PHash = m.Hash
	}
	if m.Order <= mininet.Region {
		bi.RHash = m.Hash
	}
	id := len(r.Blocks)
	r.Blocks = append(r.Blocks, bi)
	r.byHash[m.Hash] = id
	ev, after, err := r.observe()
	if err != nil {
		return -1, err
	}
	// delta of this block, learned from database scans (independent of the node's undo records)
	a, b := entrySet(before), entrySet(after)
	inputs := map[string]bool{}
	madeHere := map[string]bool{} // outputs created by an earlier transaction of this very block (peer-made blocks may spend them)
	named := map[string]int{}
	for _, tx := range zb.Transactions() {
		if tx.Type() == types.QiTxType {
			for _, in := range tx.TxIn() {
				key := fmt.Sprintf("%x:%d", in.PreviousOutPoint.TxHash[:], in.PreviousOutPoint.Index)
				named[key]++
				if named[key] == 2 {
					r.Problems = append(r.Problems, Problem{"accepted-block-spends-output-twice", map[string]interface{}{"block": id, "outpoint": key, "created_in_same_block": madeHere[key]}})
				}
				if madeHere[key] {
					if _, still := after.Utxos[key]; still {
						r.Problems = append(r.Problems, Problem{"spent-output-still-present", map[string]interface{}{"block": id, "outpoint": key, "created_in_same_block": true}})
					}
					continue
				}
				inputs[key] = true
			}
			h := tx.Hash()
			for i := range tx.TxOut() {
				madeHere[fmt.Sprintf("%x:%d", h[:], i)] = true
			}
		}
	}
	sp, tr, cr, tm := map[string]bool{}, map[string]bool{}, map[string]bool{}, map[string]bool{}
	for k := range a {
		if !b[k] {
			if k[0] == 'u' {
				key := k[1 : len(k)-len(k[indexByte(k, '='):])]
				if inputs[key] {
					sp[k] = true
				} else {
					tr[k] = true
				}
			} else {
				sp[k] = true
			}
		}
	}
	for k := range b {
		if !a[k] {
			cr[k] = true
		}
	}
	for key, u := range after.Utxos {
		k := "u" + key + "=" + hex.EncodeToString(u.Raw)
		if cr[k] && u.Denom <= types.MaxTrimDenomination && u.Lock == 0 {
			tm[k] = true
		}
	}
	// every Qi input named by the block must have existed before and be gone now
	for key := range inputs {
		if _, ok := before.Utxos[key]; !ok {
			r.Problems = append(r.Problems, Problem{"accepted-block-spends-missing-output", map[string]interface{}{"block": id, "outpoint": key}})
		}
		if _, ok := after.Utxos[key]; ok {
			r.Problems = append(r.Problems, Problem{"spent-output-still-present", map[string]interface{}{"block": id, "outpoint": key}})
		}
	}
	// "the outbound set committed by a block is exactly the set recorded by its successful operations, in execution order": the
	// receipts the node STORED for the block (validator side, one EVM shared by all transactions) list, per transaction, the ETXs
	// it emitted; concatenated they must be the block's committed outbound list up to the protocol's own coinbase ETXs at its end
	if rcs := r.E.Net.ZoneCore().Processor().GetReceiptsByHash(m.Hash); rcs != nil {
		var rec []common.Hash
		for _, rc := range rcs {
			for _, e := range rc.OutboundEtxs {
				rec = append(rec, e.Hash())
			}
		}
		var com []common.Hash
		for _, e := range zb.OutboundEtxs() {
			if !types.IsCoinBaseTx(e) {
				com = append(com, e.Hash())
			}
		}
		r.ReceiptEtxChecks++
		if fmt.Sprint(rec) != fmt.Sprint(com) {
			r.Problems = append(r.Problems, Problem{"receipts-do-not-record-the-committed-outbound-set", map[string]interface{}{"block": id, "recorded": len(rec), "committed_non_coinbase": len(com)}})
		}
	}
	ev["op"] = "mine"
	ev["b"] = id
	ev["p"] = parent
	ev["h"] = bi.Height
	ev["order"] = m.Order
	ev["sp"] = r.abstractSet(sp)
	ev["tr"] = r.abstractSet(tr)
	ev["cr"] = r.abstractSet(cr)
	ev["tm"] = r.abstractSet(tm)
	ev["ntx"] = len(zb.Transactions())
	netx, nconv := 0, 0
	for _, etx := range zb.Body().ExternalTransactions() {
		netx++
		if types.IsConversionTx(etx) {
			nconv++
		}
	}
	ev["inbound_etx"] = netx
	ev["inbound_conv"] = nconv
	ev["outbound_etx"] = len(zb.OutboundEtxs())
	r.etxEvent(ev, zb)
	r.Events = append(r.Events, ev)
	r.Prev = after
	if r.Mined == nil {
		r.Mined = map[int]*mininet.Mined{}
	}
	r.Mined[id] = m
	r.dbgAddrs("after-insert", m.Blocks[mininet.Zone])
	r.dbgAddrs("cache-after-insert", r.E.Net.ZoneCore().GetBlockByHash(m.Hash))
	defer func() { r.dbgAddrs("cache-after-followers", r.E.Net.ZoneCore().GetBlockByHash(m.Hash)) }()
	for fi, f := range r.Followers {
		if err := importBlock(f, m); err != nil {
			r.Problems = append(r.Problems, Problem{"follower-rejects-block", map[string]interface{}{"block": id, "follower": r.FollowerNames[fi], "err": err.Error()}})
			continue
		}
		r.compareFollower(fi, id, after)
	}
	return id, nil
}

func indexByte(s string, c byte) int {
	for i := 0; i < len(s); i++ {
		if s[i] == c {
			return i
		}
	}
	return len(s)
}

// ResetNonces forgets the Quai nonces handed out for transactions that are still in the pool (call it after the
// node was restarted or the head moved without the Runner's MineOn/SetHead).
func (r *Runner) ResetNonces() { r.quaiNonce = map[common.Address]uint64{} }

// Blocks2Head returns the abstract id of the zone's current in-memory head.
func (r *Runner) Blocks2Head() int { return r.head() }

func (r *Runner) NumEntries() int { return len(r.names) }

// importBlock feeds a block mined elsewhere to another node, as gossip would.
func importBlock(f *mininet.Net, m *mininet.Mined) error {
	cp := &mininet.Mined{Order: m.Order, Hash: m.Hash}
	for ctx := mininet.Zone; ctx >= m.Order; ctx-- {
		b, err := mininet.RoundTrip(m.Blocks[ctx], mininet.Locs[ctx])
		if err != nil {
			return err
		}
		cp.Blocks[ctx] = b
	}
	if err := f.Insert(cp); err != nil {
		return err
	}
	return f.Advance(cp)
}

func (r *Runner) compareFollower(fi, id int, leader *State) {
	f := r.Followers[fi]
	st, err := ScanState(f.DBs[mininet.Zone], mininet.ZoneLoc)
	if err != nil {
		r.Problems = append(r.Problems, Problem{"follower-scan-failed", map[string]interface{}{"err": err.Error()}})
		return
	}
	r.FollowerChecks++
	lh, fh := r.E.Net.ZoneCore().CurrentHeader().Hash(), f.ZoneCore().CurrentHeader().Hash()
	if st.Digest() != leader.Digest() || lh != fh {
		a, b, c := Diff(leader, st)
		r.Problems = append(r.Problems, Problem{"follower-state-differs", map[string]interface{}{"block": id, "follower": r.FollowerNames[fi], "only_leader": a, "only_follower": b, "changed": c, "leader_head": lh.Hex(), "follower_head": fh.Hex()}})
	}
}

// FreshReplay boots a brand-new node, feeds it only the canonical chain of the leader, and compares
// the complete database image (C10: reorg result == state of a node that only saw the winner).
func (r *Runner) FreshReplay(tag string) error {
	opt := r.E.Net.Opt
	opt.Backend, opt.Dir, opt.ZoneDB, opt.WrapZoneDB, opt.WrapDB = "memory", "", nil, nil, nil
	f, err := mininet.New(opt)
	if err != nil {
		return err
	}
	defer f.Close()
	var chainIDs []int
	for b := r.head(); b > 0; b = r.Blocks[b].Parent {
		chainIDs = append([]int{b}, chainIDs...)
	}
	for _, b := range chainIDs {
		if err := importBlock(f, r.Mined[b]); err != nil {
			r.Problems = append(r.Problems, Problem{"fresh-node-rejects-canonical-block", map[string]interface{}{"block": b, "err": err.Error(), "tag": tag}})
			return nil
		}
	}
	st, err := ScanState(f.DBs[mininet.Zone], mininet.ZoneLoc)
	if err != nil {
		return err
	}
	leader, err := ScanState(r.E.Net.DBs[mininet.Zone], mininet.ZoneLoc)
	if err != nil {
		return err
	}
	r.FreshReplays++
	if st.Digest() != leader.Digest() {
		a, b, c := Diff(leader, st)
		r.Problems = append(r.Problems, Problem{"reorged-node-differs-from-fresh-node", map[string]interface{}{"tag": tag, "head": r.head(), "only_reorged": a, "only_fresh": b, "changed": c}})
	}
	lc, lh := Canon(r.E.Net.DBs[mininet.Zone], r.E.Height()+8)
	fc, fh := Canon(f.DBs[mininet.Zone], r.E.Height()+8)
	if lh != fh || fmt.Sprint(lc) != fmt.Sprint(fc) {
		r.Problems = append(r.Problems, Problem{"reorged-node-canonical-index-differs", map[string]interface{}{"tag": tag, "leader": fmt.Sprint(lc), "fresh": fmt.Sprint(fc)}})
	}
	return nil
}

func (r *Runner) dbgAddrs(tag string, blk *types.WorkObject) {
	if !r.Verbose2 || blk == nil {
		return
	}
	for i, etx := range blk.Body().ExternalTransactions() {
		if _, e2 := etx.To().InternalAddress(); e2 != nil {
			fmt.Printf("DEBUG2 %s: block h=%d idx=%d type=%d bad address\n", tag, blk.NumberU64(2), i, etx.EtxType())
			return
		}
	}
}

// WarmUp brings the chain to a state with spendable Qi outputs for every key: genesis allocations are
// credited in block 1, a prime block activates the exchange controller, Quai->Qi conversions are
// confirmed by the next prime block, executed in the following zone block and unlock a few blocks later.
func (r *Runner) WarmUp() (int, error) {
	head := 0
	var err error
	step := func(order int) {
		if err == nil {
			head, err = r.MineOn(head, order)
		}
	}
	step(-1)
	step(mininet.Prime)
	if err != nil {
		return head, err
	}
	if err = r.Fund(40); err != nil {
		return head, err
	}
	if r.E.OwnerContract != nil {
		dep := r.E.Quai[len(r.E.Quai)-1]
		// go-quai requires the address of the contract to be created in the transaction's access list
		inner := &types.QuaiTx{ChainID: r.E.ChainID, Nonce: 0, GasPrice: r.gasPrice(), Gas: 2000000, To: nil, Value: big.NewInt(0), Data: r.E.OwnerInit,
			AccessList: types.AccessList{{Address: *r.E.OwnerContract}}}
		tx, terr := types.SignTx(types.NewTx(inner), r.E.Signer, dep.Priv)
		if terr != nil {
			return head, terr
		}
		if terr = r.E.AddTx(tx); terr != nil {
			return head, fmt.Errorf("deploying the lockup-owner contract: %w", terr)
		}
	}
	if r.E.SlotContract != nil && len(r.E.Quai) > 2 {
		inner := &types.QuaiTx{ChainID: r.E.ChainID, Nonce: 0, GasPrice: r.gasPrice(), Gas: 2000000, To: nil, Value: big.NewInt(0), Data: r.E.SlotInit,
			AccessList: types.AccessList{{Address: *r.E.SlotContract}}}
		tx, terr := types.SignTx(types.NewTx(inner), r.E.Signer, r.E.Quai[1].Priv)
		if terr != nil {
			return head, terr
		}
		if terr = r.E.AddTx(tx); terr != nil {
			return head, fmt.Errorf("deploying the storage contract: %w", terr)
		}
	}
	step(-1)
	step(mininet.Prime)
	for i := 0; i < 40 && err == nil; i++ {
		step(-1)
		ready := true
		for _, k := range r.E.Qi {
			if sp, _ := r.E.Spendable(k); len(sp) == 0 {
				ready = false
			}
		}
		if ready && i >= 3 {
			return head, err
		}
	}
	if err != nil {
		return head, err
	}
	return head, fmt.Errorf("warm-up: not every key has spendable Qi outputs at height %d", r.E.Height())
}

// LogTamper records that an adversarial copy of block `of` (re-sealed, hash h) was offered on the current head
// and what the node did with it; the copy gets the next abstract block id.
func (r *Runner) LogTamper(of int, h common.Hash, mutation string, accepted, imageUnchanged bool) error {
	ob := r.Blocks[of]
	id := len(r.Blocks)
	r.Blocks = append(r.Blocks, BlockInfo{Hash: h, Parent: ob.Parent, Height: ob.Height, Order: ob.Order, PHash: ob.PHash, RHash: ob.RHash})
	r.byHash[h] = id
	ev, st, err := r.observe()
	if err != nil {
		return err
	}
	r.Prev = st
	ev["op"] = "tamper"
	ev["b"] = id
	ev["of"] = of
	ev["mutation"] = mutation
	ev["accepted"] = accepted
	ev["image_unchanged"] = imageUnchanged
	r.Events = append(r.Events, ev)
	return nil
}

func (r *Runner) WriteEvents(path string) error {
	f, err := os.Create(path)
	if err != nil {
		return err
	}
	defer f.Close()
	enc := json.NewEncoder(f)
	for _, ev := range r.Events {
		if err := enc.Encode(ev); err != nil {
			return err
		}
	}
	return nil
}

// ---- cross-chain transactions (spec/EtxRoute.tla): identity = (originating tx hash, index)

type etxRec struct {
	id    int
	conv  bool
	typ   uint64
	value string
	to    string
}

func (r *Runner) etxID(tx *types.Transaction) int {
	k := fmt.Sprintf("%x:%d", tx.OriginatingTxHash().Bytes(), tx.ETXIndex())
	if r.etxIDs == nil {
		r.etxIDs = map[string]int{}
		r.etxEmitted = map[int]etxRec{}
	}
	if v, ok := r.etxIDs[k]; ok {
		return v
	}
	v := len(r.etxIDs) + 1
	r.etxIDs[k] = v
	return v
}

func (r *Runner) etxEvent(ev map[string]interface{}, zb *types.WorkObject) {
	emit := [][]int{}
	for _, e := range zb.OutboundEtxs() {
		id := r.etxID(e)
		conv := 0
		if types.IsConversionTx(e) {
			conv = 1
		}
		if _, seen := r.etxEmitted[id]; !seen {
			r.etxEmitted[id] = etxRec{id, conv == 1, e.EtxType(), e.Value().String(), e.To().Hex()}
		}
		emit = append(emit, []int{id, conv})
	}
	exec := []int{}
	altered := []int{}
	check := func(e *types.Transaction) int {
		id := r.etxID(e)
		if rec, ok := r.etxEmitted[id]; ok {
			same := rec.to == e.To().Hex()
			if !rec.conv {
				same = same && rec.value == e.Value().String() && rec.typ == e.EtxType()
			} else if e.EtxType() != uint64(types.ConversionType) && e.EtxType() != uint64(types.ConversionRevertType) {
				same = false
			}
			if !same {
				altered = append(altered, id)
			}
		} else {
			altered = append(altered, -id) // executed / delivered but never emitted by a block this node has seen
		}
		return id
	}
	for _, e := range zb.Body().ExternalTransactions() {
		exec = append(exec, check(e))
	}
	inbound := []int{}
	convVals := []string{}
	for _, e := range rawdb.ReadInboundEtxs(r.E.Net.DBs[mininet.Zone], zb.Hash()) {
		id := check(e)
		inbound = append(inbound, id)
		if t := e.EtxType(); t == uint64(types.ConversionType) || t == uint64(types.ConversionRevertType) {
			convVals = append(convVals, fmt.Sprintf("%d:%d:%s", id, e.EtxType(), e.Value().String()))
		}
	}
	// Repricing of conversions is a function of the prime parent and of the set confirmed: two prime blocks on the SAME parent that
	// confirm the SAME set must hand down identical values (the dominant chain reprices a COPY of what its rollup caches hold - a
	// second pass over the same cached rollup must start from the original amounts again)
	if len(convVals) > 0 {
		if pi, ok := r.byHash[zb.ParentHash(common.ZONE_CTX)]; ok {
			key := fmt.Sprintf("%x|%v", r.Blocks[pi].PHash.Bytes(), inbound)
			if r.convSeen == nil {
				r.convSeen = map[string][]string{}
			}
			if prev, seen := r.convSeen[key]; seen {
				r.SiblingConvChecks++
				if fmt.Sprint(prev) != fmt.Sprint(convVals) {
					r.Problems = append(r.Problems, Problem{"conversion-repriced-differently-by-sibling-prime-block", map[string]interface{}{"block": len(r.Blocks) - 1,
						"first": prev, "second": convVals}})
				}
			} else {
				r.convSeen[key] = convVals
			}
		}
	}
	queue := []int{}
	queueOK := true
	st, err := r.E.Net.ZoneCore().Processor().StateAt(zb.EVMRoot(), zb.EtxSetRoot(), zb.QuaiStateSize())
	if err != nil {
		queueOK = false
	} else {
		oldest, e1 := st.GetOldestIndex()
		newest, e2 := st.GetNewestIndex()
		if e1 != nil || e2 != nil {
			queueOK = false
		} else {
			for i := new(big.Int).Set(oldest); i.Cmp(newest) < 0 && len(queue) < 10000; i.Add(i, big.NewInt(1)) {
				e, err := st.ReadETX(i)
				if err != nil || e == nil {
					queueOK = false
					break
				}
				queue = append(queue, check(e))
			}
		}
		if st.ETXRoot() != zb.EtxSetRoot() {
			queueOK = false
		}
	}
	ev["etx_emit"] = emit
	ev["etx_exec"] = exec
	ev["etx_inbound"] = inbound
	ev["etx_queue"] = queue
	ev["etx_queue_ok"] = queueOK
	ev["etx_altered"] = altered
}

// TrimSpend tries to realise the TLC lead MCZoneChain_leadF7: a small, unlocked output is created in block H and
// spent in exactly the block (H + depth) whose execution also trims the outputs created at H.
func (r *Runner) TrimSpend(depth uint64) (bool, error) {
	e := r.E
	var src Utxo
	var owner wallet.Key
	found := false
	for _, k := range e.Qi {
		sp, _ := e.Spendable(k)
		for _, u := range sp {
			if u.Denom >= 6 {
				src, owner, found = u, k, true
				break
			}
		}
		if found {
			break
		}
	}
	if !found {
		if r.Verbose2 {
			fmt.Println("trimspend: no source output")
		}
		return false, nil
	}
	var dst wallet.Key
	for _, k := range e.Qi {
		if string(k.Addr.Bytes()) != string(owner.Addr.Bytes()) {
			dst = k
			break
		}
	}
	tx1, err := wallet.QiTx(e.Signer, e.ChainID, []wallet.In{{Out: types.OutPoint{TxHash: src.TxHash, Index: src.Index}, Key: owner}},
		[]types.TxOut{{Denomination: 3, Address: dst.Addr.Bytes()}}, nil, nil)
	if err != nil {
		return false, err
	}
	if err := e.AddTx(tx1); err != nil {
		if r.Verbose2 {
			fmt.Println("trimspend: tx1 rejected:", err)
		}
		return false, nil
	}
	head, err := r.MineOn(r.head(), -1)
	if err != nil {
		return false, err
	}
	created := e.Height()
	if rawdb.GetUTXO(e.Net.DBs[mininet.Zone], tx1.Hash(), 0) == nil {
		return false, nil // not included
	}
	for e.Height() < created+depth-1 {
		if head, err = r.MineOn(head, -1); err != nil {
			return false, err
		}
	}
	var third wallet.Key
	for _, k := range e.Qi {
		if string(k.Addr.Bytes()) != string(dst.Addr.Bytes()) {
			third = k
		}
	}
	tx2, err := wallet.QiTx(e.Signer, e.ChainID, []wallet.In{{Out: types.OutPoint{TxHash: tx1.Hash(), Index: 0}, Key: dst}},
		[]types.TxOut{{Denomination: 2, Address: third.Addr.Bytes()}}, nil, nil)
	if err != nil {
		return false, err
	}
	if err := e.AddTx(tx2); err != nil {
		if r.Verbose2 {
			fmt.Println("trimspend: tx2 rejected:", err)
		}
		return false, nil
	}
	if _, err = r.MineOn(head, -1); err != nil {
		return false, err
	}
	ev := r.Events[len(r.Events)-1]
	ev["trimspend"] = true
	spentNow := rawdb.GetUTXO(e.Net.DBs[mininet.Zone], tx1.Hash(), 0) == nil
	return spentNow && e.Height() == created+depth, nil
}

// LockupEntries counts the distinct 'cl' record versions observed over the whole run.
func (r *Runner) LockupEntries() int {
	n := 0
	for _, k := range r.names {
		if len(k) > 0 && k[0] == 'l' {
			n++
		}
	}
	return n
}
