package chain

import (
	"bytes"
	"encoding/hex"
	"fmt"
	"runtime"
	"sort"

	"github.com/dominant-strategies/go-quai/core/types"
	"github.com/dominant-strategies/go-quai/crypto"
	"github.com/dominant-strategies/go-quai/ethdb"
	"github.com/dominant-strategies/go-quai/rlp"
	"github.com/dominant-strategies/go-quai/trie"
	"verifharness/mininet"
)

// recBatch records every operation staged by block processing; nothing is ever written.
type recBatch struct {
	ethdb.Batch
	ops []string
}

func (b *recBatch) Put(k, v []byte) error {
	b.ops = append(b.ops, "P"+hex.EncodeToString(k)+"="+hex.EncodeToString(crypto.Keccak256(v)))
	return b.Batch.Put(k, v)
}
func (b *recBatch) Delete(k []byte) error {
	b.ops = append(b.ops, "D"+hex.EncodeToString(k))
	return b.Batch.Delete(k)
}

// Fingerprint of one execution of StateProcessor.Process on the current (parent) database image.
type ExecPrint struct {
	Err      string
	Receipts string
	Etxs     string
	Gas      uint64
	State    uint64
	SetSize  uint64
	MuHash   string
	EvmRoot  string
	EtxRoot  string
	Unlocks  string
	Ops      string // order-insensitive digest of staged db operations (undo-record values excluded, see below)
}

func (r *Runner) execOnce(zb *types.WorkObject) ExecPrint {
	z := r.E.Net.ZoneCore()
	rb := &recBatch{Batch: r.E.Net.DBs[mininet.Zone].NewBatch()}
	receipts, etxs, _, statedb, gas, st, size, ms, unlocks, err := z.Processor().Process(zb, rb)
	if err != nil {
		return ExecPrint{Err: err.Error()}
	}
	var p ExecPrint
	var buf bytes.Buffer
	for _, rc := range receipts {
		b, _ := rlp.EncodeToBytes((*types.ReceiptForStorage)(rc))
		buf.Write(b)
		fmt.Fprintf(&buf, "|%d|%d|%x|%d;", rc.Status, rc.GasUsed, rc.TxHash, len(rc.OutboundEtxs))
	}
	p.Receipts = hex.EncodeToString(crypto.Keccak256(buf.Bytes()))
	p.Etxs = types.DeriveSha(types.Transactions(etxs), trie.NewStackTrie(nil)).Hex()
	p.Gas, p.State, p.SetSize = gas, st, size
	p.MuHash = ms.Hash().Hex()
	p.EvmRoot = statedb.IntermediateRoot(true).Hex()
	p.EtxRoot = statedb.ETXRoot().Hex()
	p.Unlocks = fmt.Sprint(unlocks)
	// keys of the per-block undo records hold lists whose internal order is documented as unordered
	// (trimmed list, created keys sorted unstably); compare those by key only
	ops := make([]string, 0, len(rb.ops))
	for _, o := range rb.ops {
		k := o
		if i := indexByte(o, '='); i < len(o) {
			keyHex := o[1:i]
			kb, _ := hex.DecodeString(keyHex)
			if bytes.HasPrefix(kb, []byte("tutxo")) || bytes.HasPrefix(kb, []byte("cutxo")) || bytes.HasPrefix(kb, []byte("sutxo")) || bytes.HasPrefix(kb, []byte("dcl")) {
				k = o[:i]
			}
		}
		ops = append(ops, k)
	}
	sort.Strings(ops)
	p.Ops = hex.EncodeToString(crypto.Keccak256([]byte(fmt.Sprint(ops))))
	return p
}

// Reexecute runs Process several times on the parent image under different scheduler settings and
// reports any difference (C06 determinism); the block's own header commitments are compared too.
func (r *Runner) Reexecute(id int, zb *types.WorkObject, procs []int) {
	old := runtime.GOMAXPROCS(0)
	defer runtime.GOMAXPROCS(old)
	var first ExecPrint
	for i, p := range procs {
		runtime.GOMAXPROCS(p)
		if i%2 == 1 {
			runtime.GC() // colder caches
		}
		fp := r.execOnce(zb)
		r.Reexecs++
		if i == 0 {
			first = fp
			if fp.Err != "" {
				z := r.E.Net.ZoneCore()
				dbg := []string{}
				for h := uint64(0); h <= zb.NumberU64(2); h++ {
					ch := z.GetCanonicalHash(h)
					dbg = append(dbg, fmt.Sprintf("%d:%x:%v:%v", h, ch[:3], z.GetBlock(ch, h) != nil, z.GetTerminiByHash(ch) != nil))
				}
				r.Problems = append(r.Problems, Problem{"own-block-fails-reexecution", map[string]interface{}{"block": id, "err": fp.Err, "h": zb.NumberU64(2), "parent": zb.ParentHash(2).Hex(), "cur": z.CurrentHeader().Hash().Hex(), "canon": dbg}})
				return
			}
			if fp.MuHash != zb.UTXORoot().Hex() || fp.EvmRoot != zb.EVMRoot().Hex() || fp.EtxRoot != zb.EtxSetRoot().Hex() || fp.Gas != zb.GasUsed() {
				r.Problems = append(r.Problems, Problem{"reexecution-differs-from-header", map[string]interface{}{"block": id, "exec": fp,
					"hdr_utxo": zb.UTXORoot().Hex(), "hdr_evm": zb.EVMRoot().Hex(), "hdr_etx": zb.EtxSetRoot().Hex(), "hdr_gas": zb.GasUsed()}})
			}
			continue
		}
		if fp != first {
			r.Problems = append(r.Problems, Problem{"nondeterministic-execution", map[string]interface{}{"block": id, "gomaxprocs": p, "first": first, "this": fp}})
		}
	}
}
