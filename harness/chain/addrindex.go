package chain

import (
	"encoding/hex"
	"fmt"
	"sort"

	"github.com/dominant-strategies/go-quai/common"
	"github.com/dominant-strategies/go-quai/core/rawdb"
	"github.com/dominant-strategies/go-quai/ethdb"
)

// AddrIndex is the node's per-address index of unspent Qi outputs (ChainConfig.IndexAddressUtxos): the records
// "auwh"+address, decoded with the node's own reader, as address -> sorted list of "txhash:index/denomination".
type AddrIndex map[string][]string

// ScanAddrIndex reads every address-index record straight from the database.
func ScanAddrIndex(db ethdb.Database) (AddrIndex, error) {
	out := AddrIndex{}
	it := db.NewIterator(rawdb.AddressUtxosWithoutHeightPrefix, nil)
	defer it.Release()
	for it.Next() {
		k := it.Key()
		if len(k) != len(rawdb.AddressUtxosWithoutHeightPrefix)+common.AddressLength {
			continue
		}
		var a [20]byte
		copy(a[:], k[len(rawdb.AddressUtxosWithoutHeightPrefix):])
		ops, err := rawdb.ReadAddressUTXOs(db, a)
		if err != nil {
			return nil, fmt.Errorf("address index record of %x: %v", a, err)
		}
		var l []string
		for _, o := range ops {
			l = append(l, fmt.Sprintf("%x:%d/%d", o.TxHash[:], o.Index, o.Denomination))
		}
		sort.Strings(l)
		out[hex.EncodeToString(a[:])] = l
	}
	return out, it.Error()
}

// IndexOf derives what the index must be from the scanned outputs themselves: every unspent output under its owner.
func (s *State) IndexOf() AddrIndex {
	out := AddrIndex{}
	for _, u := range s.Utxos {
		a := hex.EncodeToString(u.Addr)
		out[a] = append(out[a], fmt.Sprintf("%x:%d/%d", u.TxHash[:], u.Index, u.Denom))
	}
	for a := range out {
		sort.Strings(out[a])
	}
	return out
}

// DiffIndex lists the differences between the stored index and the derived one (empty lists count as absent).
func DiffIndex(stored, derived AddrIndex) []string {
	var d []string
	seen := map[string]bool{}
	for a, l := range stored {
		seen[a] = true
		w := derived[a]
		d = append(d, diffLists(a, l, w)...)
	}
	for a, w := range derived {
		if !seen[a] {
			d = append(d, diffLists(a, nil, w)...)
		}
	}
	sort.Strings(d)
	return d
}

func diffLists(a string, have, want []string) []string {
	var d []string
	h, w := map[string]int{}, map[string]int{}
	for _, x := range have {
		h[x]++
	}
	for _, x := range want {
		w[x]++
	}
	for x, n := range h {
		if n > 1 {
			d = append(d, "index lists "+x+" "+fmt.Sprint(n)+" times for "+a)
		}
		if w[x] == 0 {
			d = append(d, "index has "+x+" for "+a+" which is not an unspent output of that address")
		}
	}
	for x := range w {
		if h[x] == 0 {
			d = append(d, "index lacks unspent output "+x+" of "+a)
		}
	}
	return d
}
