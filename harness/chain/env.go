package chain

import (
	"errors"
	"fmt"
	"math/big"
	"sort"
	"time"

	"github.com/dominant-strategies/go-quai/common"
	"github.com/dominant-strategies/go-quai/core/types"
	"github.com/dominant-strategies/go-quai/crypto"
	"github.com/dominant-strategies/go-quai/params"
	orderedmap "github.com/wk8/go-ordered-map/v2"
	"verifharness/mininet"
	"verifharness/wallet"
)

// FastParams compresses protocol time scales so that lockups, trimming, epochs and the exchange-rate
// controller are reached within a few blocks. Configuration only — no source change.
func FastParams() {
	params.TimeToStartTx = 0
	params.ControllerKickInBlock = 1
	// make Qi cheap relative to Quai so that conversions of a few Quai yield every denomination
	params.ExchangeRate = big.NewInt(221077819000)
	params.ConversionLockPeriod = 3
	params.LockupByteToBlockDepth = [4]uint64{3, 5, 7, 9}
	params.CoinbaseEpochBlocks = 4
	params.CoinbaseLockupPrecompileKickInHeight = 0
	for d := range types.TrimDepths {
		types.TrimDepths[d] = uint64(4 + int(d))
	}
}

// OwnerContractInit is init code that deploys the one-byte runtime STOP; junk after it grinds the create address.
var ownerContractInit = []byte{0x60, 0x01, 0x60, 0x0c, 0x60, 0x00, 0x39, 0x60, 0x01, 0x60, 0x00, 0xf3, 0x00}

// slotContractInit deploys a contract that records what it READS and then writes its argument:
//   slot1 := SLOAD(0); slot0 := calldata[0:32]
// A state read that is served from a stale cache (snapshot layer, warm object) instead of the committed trie changes slot1,
// hence the state root: nodes with different cache histories then disagree about the same block.
var slotContractInit = []byte{0x60, 0x0d, 0x60, 0x0c, 0x60, 0x00, 0x39, 0x60, 0x0d, 0x60, 0x00, 0xf3,
	0x60, 0x00, 0x54, 0x60, 0x01, 0x55, 0x60, 0x00, 0x35, 0x60, 0x00, 0x55, 0x00}

type Env struct {
	SlotInit     []byte          // init code of the storage contract (always deployed during warm-up by Quai[1], nonce 0)
	SlotContract *common.Address // its pre-computed address
	Net     *mininet.Net
	Signer  types.Signer
	ChainID *big.Int
	Quai    []wallet.Key
	Qi      []wallet.Key
	nonces  map[common.Address]uint64
	OwnerInit     []byte          // init code of the lockup-owner contract (EnvOptions.Lockups)
	OwnerContract *common.Address // its (pre-computed) address
}

type EnvOptions struct {
	Net         mininet.Options
	NQuai, NQi  int
	Seed        uint64
	QuaiFunding *big.Int
	Lockups     bool // deploy a lockup-owner contract during warm-up and let the miner's coinbases be held by it
}

func Boot(o EnvOptions) (*Env, error) {
	e := &Env{nonces: map[common.Address]uint64{}}
	if o.NQuai == 0 {
		o.NQuai = 3
	}
	if o.NQi == 0 {
		o.NQi = 4
	}
	if o.QuaiFunding == nil {
		o.QuaiFunding = new(big.Int).Mul(big.NewInt(1000), big.NewInt(params.Ether))
	}
	for i := 0; i < o.NQuai; i++ {
		e.Quai = append(e.Quai, wallet.Grind(o.Seed*1000+uint64(i), false, mininet.ZoneLoc))
	}
	for i := 0; i < o.NQi; i++ {
		e.Qi = append(e.Qi, wallet.Grind(o.Seed*1000+500+uint64(i), true, mininet.ZoneLoc))
	}
	for _, k := range e.Quai {
		acc := params.GenesisAccount{Address: k.Addr, BalanceSchedule: orderedmap.New[uint64, *big.Int]()}
		acc.BalanceSchedule.Set(0, new(big.Int).Set(o.QuaiFunding))
		o.Net.GenAllocs = append(o.Net.GenAllocs, acc)
	}
	if o.Lockups {
		// the contract is created by Quai[last] with nonce 0; grind the init code so that the create address is an in-zone Quai address
		dep := e.Quai[len(e.Quai)-1]
		for salt := 0; ; salt++ {
			code := append(append([]byte{}, ownerContractInit...), byte(salt>>16), byte(salt>>8), byte(salt))
			a := crypto.CreateAddress(dep.Addr, 0, code, mininet.ZoneLoc)
			if _, err := a.InternalAndQuaiAddress(); err == nil {
				e.OwnerInit, e.OwnerContract = code, &a
				break
			}
		}
		o.Net.LockupContract = e.OwnerContract
	}
	for salt := 0; ; salt++ {
		code := append(append([]byte{}, slotContractInit...), byte(salt>>16), byte(salt>>8), byte(salt))
		a := crypto.CreateAddress(e.Quai[1].Addr, 0, code, mininet.ZoneLoc)
		if _, err := a.InternalAndQuaiAddress(); err == nil {
			e.SlotInit, e.SlotContract = code, &a
			break
		}
	}
	if (o.Net.QuaiCoinbase == common.Address{}) {
		o.Net.QuaiCoinbase = e.Quai[0].Addr
	}
	if (o.Net.QiCoinbase == common.Address{}) {
		o.Net.QiCoinbase = e.Qi[0].Addr
	}
	n, err := mininet.New(o.Net)
	if err != nil {
		return nil, err
	}
	e.Net = n
	e.ChainID = n.ChainCfg[mininet.Zone].ChainID
	e.Signer = types.NewSigner(e.ChainID, mininet.ZoneLoc)
	return e, nil
}

func (e *Env) Height() uint64 { return e.Net.ZoneCore().CurrentHeader().NumberU64(common.ZONE_CTX) }

// Spendable lists the outputs owned by k that a transaction in the NEXT block may spend.
func (e *Env) Spendable(k wallet.Key) ([]Utxo, error) {
	st, err := ScanState(e.Net.DBs[mininet.Zone], mininet.ZoneLoc)
	if err != nil {
		return nil, err
	}
	// the pool validates inputs against the CURRENT head (one block stricter than block processing)
	next := e.Height()
	var out []Utxo
	for _, u := range st.Utxos {
		if string(u.Addr) == string(k.Addr.Bytes()) && u.Lock <= next {
			out = append(out, u)
		}
	}
	sort.Slice(out, func(i, j int) bool { return out[i].Key() < out[j].Key() })
	return out, nil
}

// AddTx hands a transaction to the real pool and waits until it is visible to the worker.
func (e *Env) AddTx(tx *types.Transaction) error {
	pool := e.Net.ZoneCore().TxPool()
	var err error
	if tx.Type() == types.QuaiTxType {
		e.waitPoolAtHead(tx)
	}
	if tx.Type() == types.QiTxType {
		errs := pool.AddRemotesSync([]*types.Transaction{tx})
		err = errs[0]
	} else {
		err = pool.AddLocal(tx)
	}
	if err != nil {
		return err
	}
	deadline := time.Now().Add(2 * time.Second)
	for time.Now().Before(deadline) {
		if tx.Type() == types.QiTxType {
			for _, t := range pool.QiPoolPending() {
				if t.Tx().Hash() == tx.Hash() {
					return nil
				}
			}
		} else {
			pend, _ := pool.TxPoolPending()
			for _, txs := range pend {
				for _, t := range txs {
					if t.Hash() == tx.Hash() {
						return nil
					}
				}
			}
		}
		time.Sleep(time.Millisecond)
	}
	return errors.New("transaction accepted by the pool but never became pending")
}

// waitPoolAtHead: the pool follows the chain head asynchronously (its reorg loop resets pool.currentState some time after
// the head event); a transaction validated against the previous head's state is refused for reasons that have nothing to
// do with the scenario (balance not yet credited, nonce already used).  Wait until the pool's view of the sender equals
// the head state (bounded; on timeout the transaction is offered anyway).
func (e *Env) waitPoolAtHead(tx *types.Transaction) {
	from, err := types.Sender(e.Signer, tx)
	if err != nil {
		return
	}
	ia, err := from.InternalAddress()
	if err != nil {
		return
	}
	pool := e.Net.ZoneCore().TxPool()
	deadline := time.Now().Add(5 * time.Second)
	for time.Now().Before(deadline) {
		st, err := e.Net.ZoneCore().Processor().State()
		if err != nil {
			return
		}
		snap := pool.VerifSnapshot(ia)
		pb, ok := snap.StateBalances[ia]
		if ok && pb != nil && pb.Cmp(st.GetBalance(ia)) == 0 && snap.StateNonces[ia] == st.GetNonce(ia) {
			return
		}
		time.Sleep(2 * time.Millisecond)
	}
}

func (e *Env) NextNonce(k wallet.Key) uint64 {
	n := e.nonces[k.Addr]
	e.nonces[k.Addr] = n + 1
	return n
}

func (e *Env) String() string {
	return fmt.Sprintf("env height=%d", e.Height())
}
