// Package conv: helpers shared by harness/cmd/convdrv (C20) and harness/cmd/rewdrv (C13): a light
// scenario runner on top of mininet (mine on any parent with a forced order, with an optional edit of
// the pending header before it is sealed; head switches) and the independent arithmetic oracle
// (literal math/big transcriptions of the protocol formulas — never calls into consensus/misc or
// params for a value that is being judged).
package conv

import (
	"fmt"
	"time"

	"github.com/dominant-strategies/go-quai/common"
	"github.com/dominant-strategies/go-quai/core/types"
	"verifharness/chain"
	"verifharness/mininet"
)

type Block struct {
	Hash   common.Hash
	Parent int
	Height uint64
	Order  int
	PHash  common.Hash // prime head when this block is the zone head
	RHash  common.Hash // region head
	M      *mininet.Mined
}

// Sim keeps the tree of blocks mined so far (abstract ids, 0 = genesis).
type Sim struct {
	E      *chain.Env
	Blocks []Block
	byHash map[common.Hash]int
	// EditPending, if set, may modify the pending header (data field, ...) before it is sealed.
	EditPending func(ph *types.WorkObject)
}

func NewSim(e *chain.Env) *Sim {
	g := e.Net.Gen
	s := &Sim{E: e, byHash: map[common.Hash]int{}}
	s.Blocks = append(s.Blocks, Block{Hash: g, Parent: -1, PHash: g, RHash: g})
	s.byHash[g] = 0
	return s
}

func (s *Sim) Head() int {
	id, ok := s.byHash[s.E.Net.ZoneCore().CurrentHeader().Hash()]
	if !ok {
		return -1
	}
	return id
}

func (s *Sim) ID(h common.Hash) (int, bool) { id, ok := s.byHash[h]; return id, ok }

// SetHead switches prime/region/zone heads to the ones recorded for block b.
func (s *Sim) SetHead(b int) error {
	bi := s.Blocks[b]
	return s.E.Net.SetHead(bi.PHash, bi.RHash, bi.Hash)
}

// MineOn mines one block on abstract block parent (switching heads first if necessary); wantOrder
// is mininet.Prime/Region/Zone or -1 for "whatever the nonce search finds first".
func (s *Sim) MineOn(parent int, wantOrder int) (int, error) {
	n := s.E.Net
	if s.Head() != parent {
		if err := s.SetHead(parent); err != nil {
			return -1, fmt.Errorf("sethead before mine: %w", err)
		}
	}
	if err := n.Refill(); err != nil {
		return -1, fmt.Errorf("refill: %w", err)
	}
	ph, err := n.Pending()
	if err != nil {
		return -1, err
	}
	if ph.ParentHash(common.ZONE_CTX) != s.Blocks[parent].Hash {
		if err := s.SetHead(parent); err != nil {
			return -1, fmt.Errorf("cannot rebuild pending header: %w", err)
		}
		if err := n.Refill(); err != nil {
			return -1, err
		}
		if ph, err = n.Pending(); err != nil {
			return -1, err
		}
		if ph.ParentHash(common.ZONE_CTX) != s.Blocks[parent].Hash {
			return -1, fmt.Errorf("pending header is not built on the requested parent")
		}
	}
	if s.EditPending != nil {
		// the pending block's body is kept under the seal hash of its header: register the edited header the
		// way the node does for a miner-specific coinbase (Slice.SetBestPh -> AddPendingWorkObjectBody)
		for try := 0; ; try++ {
			s.EditPending(ph)
			want := ph.WorkObjectHeader().SealHash()
			n.ZoneCore().Slice().SetBestPh(ph)
			if ph, err = n.Pending(); err != nil {
				return -1, err
			}
			// a background pending-header update may have replaced the edited header: edit again
			chk := types.CopyWorkObject(ph)
			s.EditPending(chk)
			if chk.WorkObjectHeader().SealHash() == ph.WorkObjectHeader().SealHash() && ph.ParentHash(common.ZONE_CTX) == s.Blocks[parent].Hash {
				_ = want
				break
			}
			if try > 20 {
				return -1, fmt.Errorf("edited pending header keeps being replaced")
			}
			time.Sleep(10 * time.Millisecond)
		}
	}
	if _, err := n.Seal(ph, wantOrder, 1<<22); err != nil {
		return -1, err
	}
	m, err := n.Assemble(ph)
	if err != nil {
		return -1, err
	}
	if err := n.Insert(m); err != nil {
		return -1, fmt.Errorf("insert: %w", err)
	}
	if err := n.Advance(m); err != nil {
		return -1, fmt.Errorf("advance: %w", err)
	}
	pb := s.Blocks[parent]
	zb := m.Blocks[mininet.Zone]
	bi := Block{Hash: m.Hash, Parent: parent, Height: zb.NumberU64(common.ZONE_CTX), Order: m.Order, PHash: pb.PHash, RHash: pb.RHash, M: m}
	if m.Order <= mininet.Prime {
		bi.PHash = m.Hash
	}
	if m.Order <= mininet.Region {
		bi.RHash = m.Hash
	}
	id := len(s.Blocks)
	s.Blocks = append(s.Blocks, bi)
	s.byHash[m.Hash] = id
	return id, nil
}

// Chain returns the ids from genesis (excluded) to b (included).
func (s *Sim) Chain(b int) []int {
	var out []int
	for x := b; x > 0; x = s.Blocks[x].Parent {
		out = append([]int{x}, out...)
	}
	return out
}

// AncestorAt returns the ancestor of b at the given height (or -1).
func (s *Sim) AncestorAt(b int, height uint64) int {
	for x := b; x >= 0; x = s.Blocks[x].Parent {
		if s.Blocks[x].Height == height {
			return x
		}
		if x == 0 {
			break
		}
	}
	return -1
}

// ZoneBlock returns the zone view of abstract block b as stored by the node.
func (s *Sim) ZoneBlock(b int) *types.WorkObject {
	if b == 0 {
		return s.E.Net.ZoneCore().GetBlockByHash(s.Blocks[0].Hash)
	}
	return s.Blocks[b].M.Blocks[mininet.Zone]
}
