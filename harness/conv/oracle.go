package conv

// Independent arithmetic oracle: literal math/big transcriptions of the protocol formulas that the
// checks C20 and C13 judge.  Nothing here calls consensus/misc, core or params functions for a value
// that is being judged; only protocol *constants* are read from params (so that configuration set by
// the harness is honoured) and common.LogBig (binary logarithm in 2^-64 fixed point) is used as a
// trusted numeric primitive.

import (
	"errors"
	"math/big"
	"sort"

	"github.com/dominant-strategies/go-quai/common"
	"github.com/dominant-strategies/go-quai/params"
)

var (
	big0     = big.NewInt(0)
	big1     = big.NewInt(1)
	big2e64  = new(big.Int).Lsh(big.NewInt(1), 64)
	big10    = big.NewInt(10)
	big100   = big.NewInt(100)
	bigKQMul = big.NewInt(100000)
)

// Denoms are the Qi denominations in qits, index = denomination byte (protocol table).
var Denoms = []int64{1, 5, 10, 50, 100, 500, 1000, 5000, 10000, 20000, 100000, 1000000, 10000000, 100000000, 1000000000}

const MaxTrimDenom = 5

// Rate is the pair the protocol uses to translate between the ledgers at one header: the Quai and
// the Qi block reward for (exchange rate, miner difficulty).
type Rate struct {
	QuaiPerBlock *big.Int // CalculateQuaiReward
	QiPerBlock   *big.Int // CalculateQiReward
}

// oneOverKqi: hashes per qit at zone block `number`.
func oneOverKqi(number uint64) *big.Int {
	base := big.NewInt(26000000)
	if number > params.QiActivationBlock {
		base = big.NewInt(8000000000)
	}
	doubling := (365 * params.BlocksPerDay * 269) / 100
	if number > 2*doubling {
		return new(big.Int).Mul(base, big.NewInt(4))
	}
	cnt := number / doubling
	rem := number % doubling
	x := new(big.Int).Mul(new(big.Int).SetUint64(doubling+rem), base)
	x.Mul(x, new(big.Int).Exp(big.NewInt(2), new(big.Int).SetUint64(cnt), nil))
	return x.Div(x, new(big.Int).SetUint64(doubling))
}

var ErrForkUnsupported = errors.New("oracle: reward formulas after the KawPow fork are not transcribed")

// NewRate: reward pair for a header with zone number `number`, prime terminus number `pt`,
// difficulty `diff` and exchange rate `xr`.  Pre-KawPow-fork formulas only.
func NewRate(number, pt uint64, diff, xr *big.Int) (Rate, error) {
	if pt >= params.KawPowForkBlock {
		return Rate{}, ErrForkUnsupported
	}
	quai := new(big.Int).Mul(xr, common.LogBig(diff))
	quai.Quo(quai, big2e64)
	if quai.Sign() == 0 {
		quai = big.NewInt(1)
	}
	qi := new(big.Int).Quo(diff, oneOverKqi(number))
	if qi.Sign() == 0 {
		qi = big.NewInt(1)
	}
	return Rate{quai, qi}, nil
}

// QiToQuai = floor(quaiReward * qi / qiReward)
func (r Rate) QiToQuai(qi *big.Int) *big.Int {
	x := new(big.Int).Mul(r.QuaiPerBlock, qi)
	return x.Quo(x, r.QiPerBlock)
}

// QuaiToQi = floor(qiReward * quai / quaiReward)
func (r Rate) QuaiToQi(quai *big.Int) *big.Int {
	x := new(big.Int).Mul(r.QiPerBlock, quai)
	return x.Quo(x, r.QuaiPerBlock)
}

// CubicDiscount: discounted total for a block whose running conversion volume (in Quai) is `value`
// against the moving-average flow `mean`: (1 - 20bp) below the mean, 0 beyond ten times the mean,
// value*(1 - (value/(10*mean))^3 - 0.001) in between.  big.Float arithmetic with the default
// precision rules of the protocol implementation language (literal transcription).
func CubicDiscount(valueInt, meanInt *big.Int) *big.Int {
	value := new(big.Float).SetInt(valueInt)
	mean := new(big.Float).SetInt(meanInt)
	ten := new(big.Float).Mul(mean, new(big.Float).SetInt64(10))
	minD := new(big.Float).Mul(value, new(big.Float).Sub(new(big.Float).SetUint64(10000), new(big.Float).SetUint64(20)))
	minD = new(big.Float).Quo(minD, new(big.Float).SetUint64(10000))
	var res *big.Float
	if value.Cmp(mean) <= 0 {
		res = minD
	} else if value.Cmp(ten) > 0 {
		res = new(big.Float).SetInt64(0)
	} else {
		n := new(big.Float).Quo(value, ten)
		n2 := new(big.Float).Mul(n, n)
		n3 := new(big.Float).Mul(n2, n)
		n3 = new(big.Float).Add(n3, new(big.Float).Quo(new(big.Float).SetInt64(1), new(big.Float).SetInt64(1000)))
		d := new(big.Float).Sub(new(big.Float).SetInt64(1), n3)
		d = new(big.Float).Mul(d, new(big.Float).SetInt(valueInt))
		if d.Sign() < 0 {
			d = new(big.Float).SetInt64(0)
		}
		res = d
	}
	out, _ := res.Int(nil)
	return out
}

// ConvIn is one conversion ETX as it reaches the prime chain.
type ConvIn struct {
	ToQi  bool     // destination ledger is Qi (Quai -> Qi conversion)
	Value *big.Int // origin units
	Slip  int      // basis points from the first two data bytes; -1 = unspecified
}

type ConvOut struct {
	Revert   bool
	Pre      *big.Int // value in origin units after discounts / floor (second pass)
	Value    *big.Int // destination units at the new rate (Revert: the original value)
	Implied  *big.Int // destination units the new rate implies for the undiscounted original
	FloorPre *big.Int // 10% of the original (origin units)
	SlipMin  *big.Int // original * (1 - slip) (origin units)
	FirstPre *big.Int // first-pass value the slip test saw
	ZeroValue bool    // reverted because the repriced value is zero
}

func effSlip(s int) *big.Int {
	if s < 0 {
		return new(big.Int).Set(params.MaxSlip)
	}
	v := big.NewInt(int64(s))
	if v.Cmp(params.MaxSlip) > 0 {
		return new(big.Int).Set(params.MaxSlip)
	}
	if v.Cmp(params.MinSlip) < 0 {
		return new(big.Int).Set(params.MinSlip)
	}
	return v
}

// Reprice: the prime chain's treatment of the conversions confirmed by one prime block, in arrival
// order `in`.  cur: rate pair at the prime block's own header; nw: rate pair with the newly computed
// exchange rate; flow: header conversion flow amount; kq: header k-Quai discount (per 100000);
// increasing: exchange rate above the one MinerDifficultyWindow prime blocks earlier; swapArgs: the
// pre-ConversionSlipChangeBlock argument order of the cubic discount.
// Returns per-input outcomes (same indexing as `in`), the total volume that counted (Quai) and the
// realized volume (Quai).
func Reprice(in []ConvIn, cur, nw Rate, flow, kq *big.Int, increasing, swapArgs bool) ([]ConvOut, *big.Int, *big.Int) {
	n := len(in)
	idx := make([]int, n)
	for i := range idx {
		idx[i] = i
	}
	sort.SliceStable(idx, func(a, b int) bool { return effSlip(in[idx[a]].Slip).Cmp(effSlip(in[idx[b]].Slip)) > 0 })
	cubic := func(total *big.Int) *big.Int {
		if swapArgs {
			return CubicDiscount(flow, total)
		}
		return CubicDiscount(total, flow)
	}
	inQuai := func(c ConvIn) *big.Int {
		if c.ToQi {
			return new(big.Int).Set(c.Value)
		}
		return cur.QiToQuai(c.Value)
	}
	pre := func(c ConvIn, total *big.Int) *big.Int {
		disc := cubic(total)
		afterK := new(big.Int).Mul(disc, new(big.Int).Sub(bigKQMul, kq))
		afterK.Div(afterK, bigKQMul)
		v := new(big.Int).Mul(c.Value, disc)
		v.Div(v, total)
		getsK := (c.ToQi && increasing) || (!c.ToQi && !increasing)
		if getsK && disc.Sign() != 0 {
			v.Mul(v, afterK)
			v.Div(v, disc)
		}
		fl := new(big.Int).Mul(c.Value, big10)
		fl.Div(fl, big100)
		if v.Cmp(fl) < 0 {
			v = fl
		}
		return v
	}
	out := make([]ConvOut, n)
	actual := new(big.Int)
	kept := make([]bool, n)
	for _, i := range idx {
		c := in[i]
		if c.Value.Sign() <= 0 {
			continue
		}
		temp := new(big.Int).Add(actual, inQuai(c))
		slipMin := new(big.Int).Mul(c.Value, new(big.Int).Sub(params.SlipAmountRange, effSlip(c.Slip)))
		slipMin.Div(slipMin, params.SlipAmountRange)
		out[i].SlipMin = slipMin
		out[i].FloorPre = new(big.Int).Div(new(big.Int).Mul(c.Value, big10), big100)
		v := pre(c, temp)
		out[i].FirstPre = v
		if v.Cmp(slipMin) < 0 {
			out[i].Revert = true
			out[i].Value = new(big.Int).Set(c.Value)
		} else {
			kept[i] = true
			actual = temp
		}
	}
	total := new(big.Int)
	for i, c := range in {
		if kept[i] {
			total.Add(total, inQuai(c))
		}
	}
	realized := new(big.Int)
	for i, c := range in {
		if !kept[i] {
			continue
		}
		p := pre(c, total)
		out[i].Pre = p
		// the second pass stores the value translated at the header's own rate; a conversion whose value is
		// zero at that point is the one the revert marking picks up ("value zero => revert with the original")
		var atHeaderRate *big.Int
		if c.ToQi {
			realized.Add(realized, p)
			atHeaderRate = cur.QuaiToQi(p)
			out[i].Value = nw.QuaiToQi(p)
			out[i].Implied = nw.QuaiToQi(c.Value)
		} else {
			atHeaderRate = cur.QiToQuai(p)
			realized.Add(realized, atHeaderRate)
			out[i].Value = nw.QiToQuai(p)
			out[i].Implied = nw.QiToQuai(c.Value)
		}
		if atHeaderRate.Sign() == 0 {
			out[i].Revert = true
			out[i].Value = new(big.Int).Set(c.Value)
			out[i].ZeroValue = true
		}
	}
	return out, total, realized
}

// GreedyDenoms: number of outputs per denomination that make up `v` qits, largest first.
func GreedyDenoms(v *big.Int) []uint64 {
	out := make([]uint64, len(Denoms))
	rem := new(big.Int).Set(v)
	for d := len(Denoms) - 1; d >= 0; d-- {
		den := big.NewInt(Denoms[d])
		q, r := new(big.Int).QuoRem(rem, den, new(big.Int))
		out[d] = q.Uint64()
		rem = r
	}
	return out
}

// MintPlan: the outputs a destination mints for `v` qits with `gas` units left for outputs
// (`perOut` each) considering only denominations > minDenomExcl (-1 = all), largest first, at most
// 65535 outputs.  Returns the multiset (denomination -> count) and the sum.
func MintPlan(v *big.Int, gas, perOut uint64, minDenomExcl int) (map[uint8]uint64, *big.Int) {
	g := GreedyDenoms(v)
	res := map[uint8]uint64{}
	sum := new(big.Int)
	n := uint64(0)
	for d := len(Denoms) - 1; d > minDenomExcl; d-- {
		for j := uint64(0); j < g[d]; j++ {
			if gas < perOut || n >= 65535 {
				return res, sum
			}
			gas -= perOut
			res[uint8(d)]++
			sum.Add(sum, big.NewInt(Denoms[d]))
			n++
		}
	}
	return res, sum
}

// NewAccountFee: fee deducted from a locked credit when the recipient account does not exist yet.
func NewAccountFee(parentQuaiStateSize *big.Int) *big.Int {
	levels := big.NewInt(0)
	if parentQuaiStateSize != nil && parentQuaiStateSize.Cmp(big1) > 0 {
		levels = common.LogBig(parentQuaiStateSize)
	}
	levels = new(big.Int).Div(levels, big.NewInt(4))
	num := new(big.Int).Mul(levels, big.NewInt(25000))
	den := new(big.Int).Mul(big.NewInt(5), big2e64)
	gas := new(big.Int).Div(num, den)
	return gas.Mul(gas, big.NewInt(params.InitialBaseFee))
}

// CoinbaseValueWithLockup: reward after the lockup bonus for `lockupByte` at zone height `number`.
func CoinbaseValueWithLockup(value *big.Int, lockupByte uint8, number uint64) *big.Int {
	if lockupByte == 0 || number < 2*params.BlocksPerMonth {
		return new(big.Int).Set(value)
	}
	tbl := [4][2]int64{{0, 0}, {103500, 100218}, {110000, 100625}, {125000, 101562}}
	year := number / params.BlocksPerYear
	var mult int64
	switch {
	case year == 0:
		mult = tbl[lockupByte][0]
	case year > 4:
		mult = tbl[lockupByte][1]
	default:
		c := tbl[lockupByte][0]
		a := tbl[lockupByte][1] - tbl[lockupByte][0]
		b := int64(4 * params.BlocksPerYear)
		x := int64(number) - int64(params.BlocksPerYear)
		mult = (a*x + b*c) / b
	}
	v := new(big.Int).Mul(value, big.NewInt(mult))
	return v.Div(v, big.NewInt(100000))
}
