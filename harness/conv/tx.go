package conv

import (
	"math/big"

	"github.com/dominant-strategies/go-quai/common"
	"github.com/dominant-strategies/go-quai/core/types"
	"verifharness/wallet"
)

// QuaiTxAL: a signed Quai transaction with an access list (contract creation needs the address of
// the new contract in it; calls into the lockup precompile need the precompile's address).
func QuaiTxAL(signer types.Signer, chainID *big.Int, k wallet.Key, nonce uint64, to *common.Address, value *big.Int, gas uint64, gasPrice *big.Int, data []byte, al []common.Address) (*types.Transaction, error) {
	var list types.AccessList
	for _, a := range al {
		list = append(list, types.AccessTuple{Address: a})
	}
	inner := &types.QuaiTx{ChainID: chainID, Nonce: nonce, GasPrice: gasPrice, Gas: gas, To: to, Value: value, Data: data, AccessList: list}
	return types.SignTx(types.NewTx(inner), signer, k.Priv)
}
