// triedrv binds spec/Trie.tla to the real go-quai Merkle-Patricia trie (C18).
//
//	triedrv replay -in behaviours.ndjson -out result.json [-seed S] [-bits 1|8] [-corrupt N]
//	    every behaviour (a JSON array of call records carrying the spec's expected result and the
//	    spec's content after the call) is executed on trie.Trie / trie.SecureTrie in several
//	    flavours (key embedding x value size x lazy/eager x dirty-cache/disk reopen); every
//	    observation is compared with the spec and with independent oracles (see oracle.go).
//	triedrv random -seed S -n N -depth D -out traces.ndjson
//	    seeded long call sequences over a larger key universe; one event per call with the
//	    observed abstract result, validated by spec/TrieTrace.tla.
//	triedrv derive -seed S -n N
//	    types.DeriveSha with a StackTrie hasher vs a trie.Trie hasher vs the reference root.
package main

import (
	"bufio"
	"bytes"
	"encoding/json"
	"flag"
	"fmt"
	"io"
	"math/rand"
	"os"
	"reflect"
	"sort"
	"sync"

	"github.com/dominant-strategies/go-quai/common"
	"github.com/dominant-strategies/go-quai/core/rawdb"
	"github.com/dominant-strategies/go-quai/core/types"
	"github.com/dominant-strategies/go-quai/ethdb"
	"github.com/dominant-strategies/go-quai/log"
	"github.com/dominant-strategies/go-quai/trie"
)

// ---------------------------------------------------------------- records

type Pair struct {
	K []int
	V int
}

func (p *Pair) UnmarshalJSON(b []byte) error {
	var raw [2]json.RawMessage
	if err := json.Unmarshal(b, &raw); err != nil {
		return err
	}
	if err := json.Unmarshal(raw[0], &p.K); err != nil {
		return err
	}
	return json.Unmarshal(raw[1], &p.V)
}
func (p Pair) MarshalJSON() ([]byte, error) {
	k := p.K
	if k == nil {
		k = []int{}
	}
	return json.Marshal([]interface{}{k, p.V})
}

type Rec struct {
	Op   string        `json:"op"`
	K    []int         `json:"k"`
	V    int           `json:"v"`
	K2   []int         `json:"k2"`
	I    int           `json:"i"`
	Kind string        `json:"kind"`
	Res  []interface{} `json:"res"`
	C    []Pair        `json:"c"`
	OC   []Pair        `json:"oc"` // content of the other handle (Trie.Copy) after the call
	HO   bool          `json:"ho"` // there is another handle
}

func ks(k []int) string { return fmt.Sprint(k) }

func contentMap(c []Pair) map[string]int {
	m := map[string]int{}
	for _, p := range c {
		m[ks(p.K)] = p.V
	}
	return m
}

// ---------------------------------------------------------------- flavours

type flavor struct {
	Name   string
	Secure bool   // trie.SecureTrie (keys hashed) instead of trie.Trie
	Emb    string // hi | mix | long
	Val    string // small | large | mixed
	Eager  bool   // read every key and hash after every call (else only what the call needs)
	Disk   bool   // Commit also flushes the trie.Database to the key-value store; reopen from a new trie.Database
}

// every node is stored by hash and the embedding preserves the abstract structure:
// the verifier's outcome is exactly the specified one
func (f flavor) exact() bool { return !f.Secure && f.Emb == "hi" && f.Val == "large" }

// branch/leaf kinds on a path are those of the abstract trie
func (f flavor) shape() bool { return !f.Secure && f.Emb == "hi" }

var flavors = []flavor{
	{"raw-hi-small-lazy-mem", false, "hi", "small", false, false},
	{"raw-hi-large-eager-disk", false, "hi", "large", true, true},
	{"raw-mix-mixed-lazy-disk", false, "mix", "mixed", false, true},
	{"raw-long-small-eager-mem", false, "long", "small", true, false},
	{"sec-hi-small-lazy-disk", true, "hi", "small", false, true},
	{"sec-mix-large-eager-mem", true, "mix", "large", true, false},
}

type keymap struct {
	chunk  [4][]byte
	suffix []byte
}

// symbol -> bytes, monotone in the symbol.  hi: the symbol is the high nibble, the low nibble is
// constant (absorbed into the following short node: abstract structure preserved).  mix: symbols
// 1 and 2 share the high nibble.  long: 11-byte chunks sharing 10 bytes, plus a 21-byte suffix
// shared by all keys (long extension and leaf paths; leaves always >= 32 bytes).
func newKeymap(emb string, seed int64) *keymap {
	km := &keymap{}
	switch emb {
	case "hi":
		km.chunk = [4][]byte{nil, {0x07}, {0x87}, {0xf7}}
	case "mix":
		km.chunk = [4][]byte{nil, {0x00}, {0x01}, {0x10}}
	case "long":
		r := rand.New(rand.NewSource(seed*1000003 + 18))
		common := make([]byte, 10)
		r.Read(common)
		for s := 1; s <= 3; s++ {
			km.chunk[s] = append(append([]byte{}, common...), byte(0x20+s*0x3f))
		}
		km.suffix = make([]byte, 21)
		r.Read(km.suffix)
	default:
		panic("embedding " + emb)
	}
	return km
}

func (km *keymap) bytes(k []int) []byte {
	out := []byte{}
	for _, s := range k {
		out = append(out, km.chunk[s]...)
	}
	return append(out, km.suffix...)
}

func valBytes(mode string, v int) []byte {
	if v == 0 {
		return nil
	}
	small := mode == "small" || (mode == "mixed" && v%2 == 1)
	if small {
		return bytes.Repeat([]byte{byte(0x40 + v)}, 1+v%3)
	}
	b := make([]byte, 33+7*v)
	for i := range b {
		b[i] = byte(v*31 + i*7)
	}
	b[0] = byte(0x80 + v)
	return b
}

func valAbs(mode string, b []byte) int {
	if len(b) == 0 {
		return 0
	}
	for v := 1; v <= 40; v++ {
		if bytes.Equal(valBytes(mode, v), b) {
			return v
		}
	}
	return -99
}

// ---------------------------------------------------------------- instance

type TrieI interface {
	TryGet(key []byte) ([]byte, error)
	TryUpdate(key, value []byte) error
	TryDelete(key []byte) error
	Hash() common.Hash
	Commit(onleaf trie.LeafCallback) (common.Hash, error)
	Prove(key []byte, fromLevel uint, proofDb ethdb.KeyValueWriter) error
}

type inst struct {
	fl        flavor
	km        *keymap
	disk      ethdb.Database
	tdb       *trie.Database
	t         TrieI
	o         TrieI // the other handle (made by Copy); nil before the first copy
	odb       *trie.Database // the trie.Database the other handle writes to (a handle stays with the database it was opened on)
	croot     common.Hash
	committed bool
	uni       [][]int
	rng       *rand.Rand
	opt       *options
	checks    int
}

type options struct {
	cleanCache bool // disk flavours: trie.Database with a clean-node cache (reads go through the cache + decodeNode)
	bits       int  // corrupted bits per proof byte (1 = one seeded bit, 8 = all)
	corruptMax int  // exhaustive corruption for the first N distinct contents per flavour
	seed       int64
}

func openTrie(secure bool, root common.Hash, db *trie.Database) (TrieI, error) {
	if secure {
		return trie.NewSecure(root, db)
	}
	return trie.New(root, db)
}

func newInst(fl flavor, uni [][]int, opt *options, salt int64) *inst {
	in := &inst{fl: fl, km: newKeymap(fl.Emb, opt.seed), uni: uni, opt: opt}
	in.disk = rawdb.NewMemoryDatabase(log.Global)
	in.tdb = in.newTrieDB()
	t, err := openTrie(fl.Secure, common.Hash{}, in.tdb)
	must(err)
	in.t = t
	in.rng = rand.New(rand.NewSource(opt.seed*7919 + salt))
	return in
}

func (in *inst) newTrieDB() *trie.Database {
	if in.opt.cleanCache && in.fl.Disk {
		return trie.NewDatabaseWithConfig(in.disk, &trie.Config{Cache: 1, Preimages: true})
	}
	return trie.NewDatabase(in.disk)
}

// key for the trie API
func (in *inst) akey(k []int) []byte { return in.km.bytes(k) }

// key as stored in the trie (what Prove/VerifyProof and the reference root see)
func (in *inst) tkey(k []int) []byte {
	b := in.km.bytes(k)
	if in.fl.Secure {
		return keccak(b)
	}
	return b
}
func (in *inst) val(v int) []byte { return valBytes(in.fl.Val, v) }
func (in *inst) abs(b []byte) int { return valAbs(in.fl.Val, b) }
func (in *inst) fresh() TrieI {
	t, err := openTrie(in.fl.Secure, common.Hash{}, trie.NewDatabase(rawdb.NewMemoryDatabase(log.Global)))
	must(err)
	return t
}

type Viol struct {
	Cat    string      `json:"cat"`
	Detail string      `json:"detail"`
	Exp    interface{} `json:"expected,omitempty"`
	Got    interface{} `json:"got,omitempty"`
}

func viol(cat, format string, a ...interface{}) *Viol {
	return &Viol{Cat: cat, Detail: fmt.Sprintf(format, a...)}
}

func (in *inst) get(k []int) (int, *Viol) {
	b, err := in.t.TryGet(in.akey(k))
	if err != nil {
		return -98, viol("get-error", "TryGet(%v): %v", k, err)
	}
	return in.abs(b), nil
}

func (in *inst) getAll(content map[string]int) *Viol {
	for _, k := range in.uni {
		v, e := in.get(k)
		if e != nil {
			return e
		}
		if v != content[ks(k)] {
			return &Viol{Cat: "get-vs-content", Detail: fmt.Sprintf("Get(%v)", k), Exp: content[ks(k)], Got: v}
		}
	}
	in.checks += len(in.uni)
	return nil
}

type kvb struct{ k, v []byte }

func (in *inst) concrete(c []Pair) []kvb {
	out := make([]kvb, 0, len(c))
	for _, p := range c {
		out = append(out, kvb{in.tkey(p.K), in.val(p.V)})
	}
	sort.Slice(out, func(i, j int) bool { return bytes.Compare(out[i].k, out[j].k) < 0 })
	return out
}

// one registry per flavour family: content <-> root must be a bijection over everything ever seen
type registry struct {
	mu     sync.Mutex
	byCont map[string]common.Hash
	byRoot map[common.Hash]string
}

var registries sync.Map

func regFor(fl flavor) *registry {
	key := fmt.Sprint(fl.Secure, fl.Emb, fl.Val)
	r, _ := registries.LoadOrStore(key, &registry{byCont: map[string]common.Hash{}, byRoot: map[common.Hash]string{}})
	return r.(*registry)
}

// the root hash h observed for abstract content c: history independence and independent reference
func (in *inst) checkRoot(h common.Hash, c []Pair) *Viol {
	// (1) fresh trie, content inserted in sorted order; (2) in a seeded random order
	for _, mode := range []string{"sorted", "random"} {
		ft := in.fresh()
		ps := append([]Pair{}, c...)
		if mode == "random" {
			in.rng.Shuffle(len(ps), func(i, j int) { ps[i], ps[j] = ps[j], ps[i] })
		} else {
			sort.Slice(ps, func(i, j int) bool { return bytes.Compare(in.akey(ps[i].K), in.akey(ps[j].K)) < 0 })
		}
		for _, p := range ps {
			if err := ft.TryUpdate(in.akey(p.K), in.val(p.V)); err != nil {
				return viol("rebuild-error", "%v", err)
			}
		}
		if g := ft.Hash(); g != h {
			return &Viol{Cat: "root-vs-rebuilt", Detail: "fresh trie from the content in " + mode + " order", Exp: g.Hex(), Got: h.Hex()}
		}
	}
	// (3) another history: foreign keys inserted and removed again, values overwritten, hashing in between
	{
		ft := in.fresh()
		cm := contentMap(c)
		var extra [][]int
		for _, k := range in.uni {
			if _, ok := cm[ks(k)]; !ok && in.rng.Intn(4) == 0 {
				extra = append(extra, k)
			}
		}
		for _, k := range extra {
			ft.TryUpdate(in.akey(k), in.val(1+in.rng.Intn(3)))
		}
		ps := append([]Pair{}, c...)
		in.rng.Shuffle(len(ps), func(i, j int) { ps[i], ps[j] = ps[j], ps[i] })
		for _, p := range ps {
			ft.TryUpdate(in.akey(p.K), in.val(1+p.V%3))
		}
		if in.rng.Intn(2) == 0 {
			ft.Hash()
		}
		for i, k := range extra {
			if i%2 == 0 {
				ft.TryDelete(in.akey(k))
			} else {
				ft.TryUpdate(in.akey(k), nil)
			}
		}
		for _, p := range ps {
			ft.TryUpdate(in.akey(p.K), in.val(p.V))
		}
		if g := ft.Hash(); g != h {
			return &Viol{Cat: "root-vs-rebuilt", Detail: "fresh trie with another history (foreign keys inserted and deleted, values overwritten)", Exp: g.Hex(), Got: h.Hex()}
		}
	}
	// (4) the yellow-paper definition, computed without any trie code
	if g := refRoot(in.concrete(c)); g != h {
		return &Viol{Cat: "root-vs-reference", Detail: "root differs from the yellow-paper root of the content", Exp: g.Hex(), Got: h.Hex()}
	}
	// (5) content <-> root is a bijection
	cj, _ := json.Marshal(c)
	r := regFor(in.fl)
	r.mu.Lock()
	defer r.mu.Unlock()
	if old, ok := r.byCont[string(cj)]; ok && old != h {
		return &Viol{Cat: "root-not-function-of-content", Detail: "same content, different root: " + string(cj), Exp: old.Hex(), Got: h.Hex()}
	}
	if old, ok := r.byRoot[h]; ok && old != string(cj) {
		return &Viol{Cat: "root-collision", Detail: "different contents, same root", Exp: old, Got: string(cj)}
	}
	r.byCont[string(cj)] = h
	r.byRoot[h] = string(cj)
	in.checks += 5
	return nil
}

func (in *inst) commit(c []Pair) *Viol {
	h := in.t.Hash()
	// the state code commits with a leaf callback (nodes travel through the committer's channel and
	// goroutine), everything else without: the disk flavours take the first path
	var onleaf trie.LeafCallback
	leaves := 0
	if in.fl.Disk {
		onleaf = func(_ [][]byte, _ []byte, leaf []byte, parent common.Hash) error {
			leaves++
			return nil
		}
	}
	root, err := in.t.Commit(onleaf)
	if err != nil {
		return viol("commit-error", "%v", err)
	}
	if root != h {
		return &Viol{Cat: "commit-root", Detail: "Commit returned another root than Hash", Exp: h.Hex(), Got: root.Hex()}
	}
	db2 := in.tdb
	if in.fl.Disk {
		if err := in.tdb.Commit(root, false, nil); err != nil {
			return viol("commit-error", "Database.Commit: %v", err)
		}
		db2 = in.newTrieDB()
	}
	in.croot, in.committed = root, true
	// reopen a second trie at the committed root and read everything back
	t2, err := openTrie(in.fl.Secure, root, db2)
	if err != nil {
		return viol("reopen-error", "trie.New(committed root): %v", err)
	}
	cm := contentMap(c)
	for _, k := range in.uni {
		b, err := t2.TryGet(in.akey(k))
		if err != nil {
			return viol("reopen-error", "TryGet(%v) after reopen: %v", k, err)
		}
		if in.abs(b) != cm[ks(k)] {
			return &Viol{Cat: "reopen-content", Detail: fmt.Sprintf("Get(%v) after commit+reopen", k), Exp: cm[ks(k)], Got: in.abs(b)}
		}
	}
	if g := t2.Hash(); g != root {
		return &Viol{Cat: "reopen-root", Detail: "Hash of the reopened trie", Exp: root.Hex(), Got: g.Hex()}
	}
	// a trie reopened at the committed root (nothing loaded yet) must stay canonical when modified:
	// delete one key (the collapse has to load the remaining sibling), re-insert it
	for n := 0; n < 3 && n < len(c); n++ {
		p := c[in.rng.Intn(len(c))]
		t3, err := openTrie(in.fl.Secure, root, db2)
		if err != nil {
			return viol("reopen-error", "trie.New(committed root): %v", err)
		}
		if err := t3.TryDelete(in.akey(p.K)); err != nil {
			return viol("reopen-error", "TryDelete(%v) on the reopened trie: %v", p.K, err)
		}
		rest := []Pair{}
		for _, q := range c {
			if ks(q.K) != ks(p.K) {
				rest = append(rest, q)
			}
		}
		if g, w := t3.Hash(), refRoot(in.concrete(rest)); g != w {
			return &Viol{Cat: "root-vs-reference", Detail: fmt.Sprintf("reopened trie after deleting %v", p.K), Exp: w.Hex(), Got: g.Hex()}
		}
		t3.TryUpdate(in.akey(p.K), in.val(p.V))
		if g := t3.Hash(); g != root {
			return &Viol{Cat: "root-vs-rebuilt", Detail: fmt.Sprintf("reopened trie after deleting and re-inserting %v", p.K), Exp: root.Hex(), Got: g.Hex()}
		}
	}
	in.checks += len(in.uni) + 3
	return nil
}

func (in *inst) reload() *Viol {
	db := in.tdb
	if in.fl.Disk {
		db = in.newTrieDB()
		in.tdb = db
	}
	t, err := openTrie(in.fl.Secure, in.croot, db)
	if err != nil {
		return viol("reopen-error", "trie.New(committed root): %v", err)
	}
	in.t = t
	return nil
}

// ---- proofs

type proof struct {
	root  common.Hash
	nodes map[string][]byte // hash -> blob, as delivered by Prove
	order [][]byte          // the blobs in path order (independent walk)
	kinds string            // B/X/L kinds on the path incl. embedded nodes (independent walk)
}

func (in *inst) prove(k []int) (*proof, *Viol) {
	pl := newProofList()
	root := in.t.Hash()
	if err := in.t.Prove(in.tkey(k), 0, pl); err != nil {
		return nil, viol("prove-error", "Prove(%v): %v", k, err)
	}
	p := &proof{root: root, nodes: pl.m}
	// content-addressing is the contract between prover and verifier
	for h, blob := range p.nodes {
		if string(keccak(blob)) != h {
			return nil, viol("proof-node-key", "Prove stored a node under a key that is not its hash")
		}
	}
	_, p.kinds, p.order, _ = walkProof(root, keyNibbles(in.tkey(k)), p.nodes)
	return p, nil
}

// VerifyProof outcome in abstract form: -1 rejected, 0 absence proven, v value
func (in *inst) verify(root common.Hash, k []int, nodes map[string][]byte) int {
	val, err := trie.VerifyProof(root, in.tkey(k), mapReader(nodes))
	if err != nil {
		return -1
	}
	return in.abs(val)
}

func noX(kinds string) string {
	out := []byte{}
	for i := 0; i < len(kinds); i++ {
		if kinds[i] != 'X' {
			out = append(out, kinds[i])
		}
	}
	return string(out)
}

// completeness / absence / soundness over a key set, against the expected content
func (in *inst) checkProofs(c []Pair, keys [][]int) *Viol {
	cm := contentMap(c)
	for _, k := range keys {
		p, e := in.prove(k)
		if e != nil {
			return e
		}
		got := in.verify(p.root, k, p.nodes)
		want := cm[ks(k)]
		if len(c) == 0 {
			want = -1 // the empty trie has no nodes: nothing to present
		}
		if got != want {
			cat := "proof-complete"
			if cm[ks(k)] == 0 {
				cat = "proof-absence"
			}
			return &Viol{Cat: cat, Detail: fmt.Sprintf("VerifyProof(root, %v, Prove(%v))", k, k), Exp: want, Got: got}
		}
		// second opinion: the driver's own verifier on the same proof
		wv, _, _, werr := walkProof(p.root, keyNibbles(in.tkey(k)), p.nodes)
		w := in.abs(wv)
		if werr != nil {
			w = -1
		}
		if w != got {
			return &Viol{Cat: "proof-vs-walker", Detail: fmt.Sprintf("independent verifier disagrees for %v", k), Exp: w, Got: got}
		}
		for _, k2 := range keys {
			g := in.verify(p.root, k2, p.nodes)
			if g != -1 && g != cm[ks(k2)] {
				return &Viol{Cat: "proof-sound", Detail: fmt.Sprintf("proof for %v verified for %v with a value that is not stored", k, k2), Exp: cm[ks(k2)], Got: g}
			}
		}
		in.checks += 2 + len(keys)
	}
	return nil
}

// every single-bit (bits=8) or one seeded bit per byte (bits=1) corruption of every proof node:
// the verifier must fail or still return the stored value
func (in *inst) corruptAll(c []Pair, keys [][]int) *Viol {
	cm := contentMap(c)
	for _, k := range keys {
		p, e := in.prove(k)
		if e != nil {
			return e
		}
		want := cm[ks(k)]
		work := map[string][]byte{}
		for h, b := range p.nodes {
			work[h] = b
		}
		for h, blob := range p.nodes {
			delete(work, h)
			// withheld node
			if g := in.verify(p.root, k, work); g != -1 && g != want {
				return &Viol{Cat: "proof-corrupt", Detail: fmt.Sprintf("proof for %v with a node withheld", k), Exp: want, Got: g}
			}
			mut := append([]byte{}, blob...)
			for i := range mut {
				for bit := 0; bit < 8; bit++ {
					if in.opt.bits < 8 && bit != (i*5+int(in.opt.seed))%8 {
						continue
					}
					mut[i] ^= 1 << uint(bit)
					mh := string(keccak(mut))
					work[mh] = mut
					g := in.verify(p.root, k, work)
					delete(work, mh)
					mut[i] ^= 1 << uint(bit)
					in.checks++
					if g != -1 && g != want {
						return &Viol{Cat: "proof-corrupt", Detail: fmt.Sprintf("proof for %v, node %x.. byte %d bit %d flipped", k, []byte(h)[:4], i, bit), Exp: want, Got: g}
					}
				}
			}
			work[h] = blob
		}
	}
	return nil
}

// the spec's CorruptProof(k, i, kind): node (i-1 mod n) of the path withheld or altered
func (in *inst) corruptOne(k []int, i int, kind string, cm map[string]int) (int, *Viol) {
	p, e := in.prove(k)
	if e != nil {
		return 0, e
	}
	if len(p.order) == 0 {
		return -1, nil
	}
	j := (i - 1) % len(p.order)
	work := map[string][]byte{}
	for h, b := range p.nodes {
		work[h] = b
	}
	blob := p.order[j]
	delete(work, string(keccak(blob)))
	if kind == "alter" {
		other := in.val(1 + (cm[ks(k)]+1)%3)
		mut := alterValue(blob, other)
		if mut == nil || bytes.Equal(mut, blob) {
			mut = append([]byte{}, blob...)
			mut[len(mut)-1] ^= 0x01
		}
		work[string(keccak(mut))] = mut
	}
	return in.verify(p.root, k, work), nil
}

// range proofs (keys of equal length only, i.e. the secure flavours and single-length contents)
func (in *inst) checkRange(c []Pair) *Viol {
	kv := in.concrete(c)
	if len(kv) == 0 {
		return nil
	}
	for _, e := range kv {
		if len(e.k) != len(kv[0].k) || len(e.k) == 0 {
			return nil
		}
	}
	root := in.t.Hash()
	keys := make([][]byte, len(kv))
	vals := make([][]byte, len(kv))
	for i, e := range kv {
		keys[i], vals[i] = e.k, e.v
	}
	// whole content, no edge proofs
	if _, err := trie.VerifyRangeProof(root, keys[0], keys[len(keys)-1], keys, vals, nil); err != nil {
		return viol("range-proof", "whole content without edge proofs rejected: %v", err)
	}
	lo := in.rng.Intn(len(kv))
	hi := lo + in.rng.Intn(len(kv)-lo)
	pl := newProofList()
	if err := in.t.Prove(keys[lo], 0, pl); err != nil {
		return viol("prove-error", "%v", err)
	}
	if err := in.t.Prove(keys[hi], 0, pl); err != nil {
		return viol("prove-error", "%v", err)
	}
	more, err := trie.VerifyRangeProof(root, keys[lo], keys[hi], keys[lo:hi+1], vals[lo:hi+1], mapReader(pl.m))
	if err != nil {
		return viol("range-proof", "honest range [%d,%d] of %d rejected: %v", lo, hi, len(kv), err)
	}
	if more != (hi < len(kv)-1) {
		return &Viol{Cat: "range-proof", Detail: "hasMore flag", Exp: hi < len(kv)-1, Got: more}
	}
	// an altered value inside the range must be rejected
	j := lo + in.rng.Intn(hi-lo+1)
	bad := append([][]byte{}, vals[lo:hi+1]...)
	bad[j-lo] = append(append([]byte{}, bad[j-lo]...), 0x01)
	if _, err := trie.VerifyRangeProof(root, keys[lo], keys[hi], keys[lo:hi+1], bad, mapReader(pl.m)); err == nil {
		return viol("range-proof", "range with an altered value accepted")
	}
	// an omitted inner element must be rejected
	if hi-lo >= 2 {
		m := lo + 1 + in.rng.Intn(hi-lo-1)
		k2 := append(append([][]byte{}, keys[lo:m]...), keys[m+1:hi+1]...)
		v2 := append(append([][]byte{}, vals[lo:m]...), vals[m+1:hi+1]...)
		if _, err := trie.VerifyRangeProof(root, keys[lo], keys[hi], k2, v2, mapReader(pl.m)); err == nil {
			return viol("range-proof", "range with an omitted element accepted")
		}
	}
	in.checks += 4
	return nil
}

// StackTrie fed with the content in key order
func (in *inst) stackAgrees(c []Pair) (bool, *Viol) {
	kv := in.concrete(c)
	st := trie.NewStackTrie(nil)
	for _, e := range kv {
		if err := st.TryUpdate(e.k, e.v); err != nil {
			return false, viol("stacktrie-error", "%v", err)
		}
	}
	sh := st.Hash()
	in.checks++
	if w := refRoot(kv); sh != w {
		return false, &Viol{Cat: "stacktrie-vs-reference", Detail: "StackTrie root differs from the yellow-paper root", Exp: w.Hex(), Got: sh.Hex()}
	}
	return sh == in.t.Hash(), nil
}

func concretePrefixFree(kv []kvb) bool {
	for i := 0; i+1 < len(kv); i++ {
		if bytes.HasPrefix(kv[i+1].k, kv[i].k) {
			return false
		}
	}
	return true
}

// ---------------------------------------------------------------- one call

// copyOf = Trie.Copy / SecureTrie.Copy: a second handle sharing every in-memory node with the first
func copyOf(t TrieI) TrieI {
	switch x := t.(type) {
	case *trie.Trie:
		cp := *x // what SecureTrie.Copy does with the Trie it embeds
		return &cp
	case *trie.SecureTrie:
		return x.Copy()
	}
	panic("copyOf: unknown trie type")
}

// checkOther: what the OTHER handle holds is what its holder put there (oc), whatever was done through the first one.
// Reads always; the root (which caches hashes in the shared nodes) only when asked - so that both a hashed and a
// never-hashed second handle are exercised.
func (in *inst) checkOther(oc []Pair, withRoot bool) (v *Viol) {
	if in.o == nil {
		return nil
	}
	defer func() {
		if x := recover(); x != nil {
			v = viol("panic", "reading the other handle: %v", x)
		}
	}()
	in.t, in.o, in.tdb, in.odb = in.o, in.t, in.odb, in.tdb
	defer func() { in.t, in.o, in.tdb, in.odb = in.o, in.t, in.odb, in.tdb }()
	if e := in.getAll(contentMap(oc)); e != nil {
		e.Cat = "other-handle-" + e.Cat
		return e
	}
	if withRoot {
		if e := in.checkRoot(in.t.Hash(), oc); e != nil {
			e.Cat = "other-handle-" + e.Cat
			return e
		}
		for _, p := range oc {
			pr, e := in.prove(p.K)
			if e != nil {
				e.Cat = "other-handle-" + e.Cat
				return e
			}
			if g := in.verify(pr.root, p.K, pr.nodes); g != p.V {
				return &Viol{Cat: "other-handle-proof", Detail: fmt.Sprintf("proof for %v produced by the other handle", p.K), Exp: p.V, Got: g}
			}
		}
	}
	return nil
}

// exec performs one call record on the instance.  c is the content the caller (spec or model)
// expects AFTER the call.  Returns the observed abstract result and the first failed check.
func (in *inst) exec(r *Rec, c []Pair) (res []interface{}, v *Viol) {
	res, v = in.exec1(r, c)
	if v == nil && in.o != nil {
		v = in.checkOther(r.OC, in.fl.Eager || r.Op == "hash" || r.Op == "swap")
	}
	return
}

func (in *inst) exec1(r *Rec, c []Pair) (res []interface{}, v *Viol) {
	defer func() {
		if x := recover(); x != nil {
			res, v = []interface{}{"panic"}, viol("panic", "%s(%v): %v", r.Op, r.K, x)
		}
	}()
	cm := contentMap(c)
	ok := []interface{}{"ok"}
	after := func() *Viol {
		if in.fl.Eager {
			if e := in.getAll(cm); e != nil {
				return e
			}
			return in.checkRoot(in.t.Hash(), c)
		}
		return nil
	}
	switch r.Op {
	case "update", "delete":
		var err error
		if r.Op == "delete" {
			err = in.t.TryDelete(in.akey(r.K))
		} else {
			v := in.val(r.V)
			if r.V == 0 && in.rng.Intn(2) == 0 {
				v = []byte{} // an empty value deletes, nil or not
			}
			err = in.t.TryUpdate(in.akey(r.K), v)
		}
		if err != nil {
			return ok, viol("update-error", "%s(%v): %v", r.Op, r.K, err)
		}
		g, e := in.get(r.K)
		if e != nil {
			return ok, e
		}
		if g != cm[ks(r.K)] {
			return ok, &Viol{Cat: "get-vs-content", Detail: fmt.Sprintf("Get(%v) right after %s", r.K, r.Op), Exp: cm[ks(r.K)], Got: g}
		}
		return ok, after()
	case "get":
		g, e := in.get(r.K)
		if e != nil {
			return []interface{}{"val", g}, e
		}
		return []interface{}{"val", g}, nil
	case "hash":
		return []interface{}{"hash", c}, in.checkRoot(in.t.Hash(), c)
	case "commit":
		if e := in.commit(c); e != nil {
			return ok, e
		}
		return ok, after()
	case "reload":
		if e := in.reload(); e != nil {
			return ok, e
		}
		return ok, after()
	case "prove":
		p, e := in.prove(r.K)
		if e != nil {
			return []interface{}{"proof", -1, ""}, e
		}
		return []interface{}{"proof", in.verify(p.root, r.K, p.nodes), noX(p.kinds)}, nil
	case "verify":
		p, e := in.prove(r.K)
		if e != nil {
			return []interface{}{"ver", -1}, e
		}
		return []interface{}{"ver", in.verify(p.root, r.K2, p.nodes)}, nil
	case "corrupt":
		g, e := in.corruptOne(r.K, r.I, r.Kind, cm)
		return []interface{}{"ver", g}, e
	case "stack":
		eq, e := in.stackAgrees(c)
		return []interface{}{"stack", eq}, e
	case "copy":
		in.o, in.odb = copyOf(in.t), in.tdb
		return ok, after()
	case "swap":
		if in.o == nil {
			return ok, viol("driver", "swap without a second handle")
		}
		in.t, in.o, in.tdb, in.odb = in.o, in.t, in.odb, in.tdb
		return ok, after()
	}
	return []interface{}{"unknown-op"}, viol("driver", "unknown op %q", r.Op)
}

func num(x interface{}) int {
	switch t := x.(type) {
	case float64:
		return int(t)
	case int:
		return t
	}
	return -12345
}

func kindsOf(x interface{}) string {
	s := ""
	if l, ok := x.([]interface{}); ok {
		for _, e := range l {
			s += fmt.Sprint(e)
		}
	}
	return s
}

// conform: is the observed result the specified one (same rule as Conform in spec/TrieTrace.tla)
func conform(fl flavor, r *Rec, got []interface{}, cm map[string]int) bool {
	exp := r.Res
	switch r.Op {
	case "update", "delete", "commit", "reload", "copy", "swap":
		return len(got) == 1 && got[0] == "ok"
	case "get":
		return num(got[1]) == num(exp[1])
	case "hash":
		return true // the content in the record is the input of the root oracles
	case "prove":
		if num(got[1]) != num(exp[1]) {
			return false
		}
		return !fl.shape() || noX(kindsOf(exp[2])) == got[2].(string)
	case "verify":
		if fl.exact() {
			return num(got[1]) == num(exp[1])
		}
		return num(got[1]) == -1 || num(got[1]) == cm[ks(r.K2)]
	case "corrupt":
		return num(got[1]) == num(exp[1])
	case "stack":
		return got[1] == exp[1]
	}
	return false
}

// ---------------------------------------------------------------- replay

type Violation struct {
	Flavor    string      `json:"flavor"`
	Behaviour int         `json:"behaviour"`
	Step      int         `json:"step"`
	Op        string      `json:"op"`
	Cat       string      `json:"cat"`
	Detail    string      `json:"detail"`
	Expected  interface{} `json:"expected"`
	Got       interface{} `json:"got"`
	Trace     []Rec       `json:"behaviour_ops"`
}

func universe(maxLen int) [][]int {
	out := [][]int{{}}
	var rec func(cur []int)
	rec = func(cur []int) {
		if len(cur) > 0 {
			out = append(out, append([]int{}, cur...))
		}
		if len(cur) == maxLen {
			return
		}
		for s := 1; s <= 3; s++ {
			rec(append(append([]int{}, cur...), s))
		}
	}
	rec(nil)
	return out
}

var probeKeys = [][]int{{}, {1}, {2}, {1, 1}, {1, 2}, {3, 3, 3}, {1, 1, 1}, {1, 1, 3}, {2, 1, 2}}

func interesting(beh []Rec, c []Pair) [][]int {
	seen := map[string]bool{}
	var out [][]int
	add := func(k []int) {
		if !seen[ks(k)] {
			seen[ks(k)] = true
			out = append(out, k)
		}
	}
	for _, p := range c {
		add(p.K)
	}
	for _, r := range beh {
		if r.Op != "hash" && r.Op != "commit" && r.Op != "reload" && r.Op != "stack" {
			add(r.K)
		}
		if r.Op == "verify" {
			add(r.K2)
		}
	}
	for _, k := range probeKeys {
		add(k)
	}
	return out
}

var corruptSeen sync.Map // flavour|content -> done
var corruptCount sync.Map

// final oracle at the end of a behaviour, on the content the spec says is stored
func (in *inst) final(beh []Rec, c []Pair) (v *Viol) {
	defer func() {
		if x := recover(); x != nil {
			v = viol("panic", "final checks: %v", x)
		}
	}()
	cm := contentMap(c)
	if e := in.getAll(cm); e != nil {
		return e
	}
	h := in.t.Hash()
	if e := in.checkRoot(h, c); e != nil {
		return e
	}
	keys := interesting(beh, c)
	if e := in.checkProofs(c, keys); e != nil {
		return e
	}
	if kv := in.concrete(c); concretePrefixFree(kv) {
		eq, e := in.stackAgrees(c)
		if e != nil {
			return e
		}
		if !eq {
			return &Viol{Cat: "stacktrie-vs-trie", Detail: "StackTrie root differs from the trie root"}
		}
	}
	if e := in.checkRange(c); e != nil {
		return e
	}
	cj, _ := json.Marshal(c)
	ckey := in.fl.Name + "|" + string(cj)
	if _, done := corruptSeen.LoadOrStore(ckey, true); !done {
		cnt, _ := corruptCount.LoadOrStore(in.fl.Name, new(int64))
		mu.Lock()
		n := *(cnt.(*int64))
		*(cnt.(*int64)) = n + 1
		mu.Unlock()
		if int(n) < in.opt.corruptMax {
			if e := in.corruptAll(c, keys); e != nil {
				return e
			}
		}
	}
	// before and after Commit + reopen
	if e := in.commit(c); e != nil {
		return e
	}
	if g := in.t.Hash(); g != h {
		return &Viol{Cat: "commit-root", Detail: "root changed by Commit", Exp: h.Hex(), Got: g.Hex()}
	}
	if e := in.getAll(cm); e != nil {
		return e
	}
	return nil
}

var mu sync.Mutex

func readBehaviours(path string) [][]Rec {
	f, err := os.Open(path)
	must(err)
	defer f.Close()
	sc := bufio.NewScanner(f)
	sc.Buffer(make([]byte, 1<<20), 1<<26)
	var behs [][]Rec
	for sc.Scan() {
		if len(bytes.TrimSpace(sc.Bytes())) == 0 {
			continue
		}
		var beh []Rec
		if err := json.Unmarshal(sc.Bytes(), &beh); err != nil {
			must(fmt.Errorf("behaviour %d: %v", len(behs), err))
		}
		behs = append(behs, beh)
	}
	must(sc.Err())
	return behs
}

func cmdReplay(args []string) {
	fs := flag.NewFlagSet("replay", flag.ExitOnError)
	inp := fs.String("in", "", "behaviours ndjson")
	out := fs.String("out", "", "result json")
	seed := fs.Int64("seed", 1, "")
	bits := fs.Int("bits", 1, "corrupted bits per proof byte: 1 or 8")
	corruptMax := fs.Int("corrupt", 200, "exhaustive proof corruption for the first N distinct contents per flavour")
	maxViol := fs.Int("maxviol", 40, "")
	workers := fs.Int("workers", 16, "")
	only := fs.String("flavor", "", "run a single flavour")
	fs.Parse(args)
	log.Global.SetOutput(io.Discard)
	behs := readBehaviours(*inp)
	opt := &options{bits: *bits, corruptMax: *corruptMax, seed: *seed}
	uni := universe(3)
	type stat struct{ Behaviours, Calls, Checks, Violations int }
	stats := map[string]*stat{}
	for _, fl := range flavors {
		stats[fl.Name] = &stat{}
	}
	opCount := map[string]int{}
	for _, beh := range behs {
		for _, r := range beh {
			opCount[r.Op]++
		}
	}
	var viols []Violation
	jobs := make(chan int, 1024)
	var wg sync.WaitGroup
	for w := 0; w < *workers; w++ {
		wg.Add(1)
		go func() {
			defer wg.Done()
			for bi := range jobs {
				beh := behs[bi]
				for fi, fl := range flavors {
					if *only != "" && fl.Name != *only {
						continue
					}
					in := newInst(fl, uni, opt, int64(bi*16+fi))
					var bad *Viol
					step, calls := 0, 0
					var c []Pair
					for i := range beh {
						r := &beh[i]
						c = r.C
						got, v := in.exec(r, r.C)
						calls++
						if v == nil && !conform(fl, r, got, contentMap(r.C)) {
							gj, _ := json.Marshal(got)
							v = &Viol{Cat: "spec-vs-impl", Detail: "observed result of " + r.Op + " differs from the specified one", Exp: r.Res, Got: json.RawMessage(gj)}
						}
						if v != nil {
							bad, step = v, i
							break
						}
					}
					if bad == nil {
						if v := in.final(beh, c); v != nil {
							bad, step = v, len(beh)
						}
					}
					if bad == nil && in.o != nil && len(beh) > 0 {
						// ... and the other handle is still a complete, canonical trie of its own content
						if v := in.checkOther(beh[len(beh)-1].OC, true); v != nil {
							bad, step = v, len(beh)
						}
					}
					mu.Lock()
					st := stats[fl.Name]
					st.Behaviours++
					st.Calls += calls
					st.Checks += in.checks
					if bad != nil {
						st.Violations++
						if len(viols) < *maxViol {
							op := "final"
							if step < len(beh) {
								op = beh[step].Op
							}
							viols = append(viols, Violation{fl.Name, bi, step, op, bad.Cat, bad.Detail, bad.Exp, bad.Got, beh})
						}
					}
					mu.Unlock()
				}
			}
		}()
	}
	for bi := range behs {
		jobs <- bi
	}
	close(jobs)
	wg.Wait()
	res := map[string]interface{}{"behaviours": len(behs), "flavors": stats, "violations": viols, "ops": opCount}
	b, _ := json.MarshalIndent(res, "", " ")
	must(os.WriteFile(*out, b, 0o644))
}

// ---------------------------------------------------------------- random traces for TrieTrace.tla

func cmdRandom(args []string) {
	fs := flag.NewFlagSet("random", flag.ExitOnError)
	seed := fs.Int64("seed", 1, "")
	n := fs.Int("n", 18, "traces")
	depth := fs.Int("depth", 150, "calls per trace")
	out := fs.String("out", "", "trace ndjson")
	fs.Parse(args)
	log.Global.SetOutput(io.Discard)
	opt := &options{bits: 1, corruptMax: 0, seed: *seed, cleanCache: true}
	uni := universe(4)
	var fixed3 [][]int
	for _, k := range uni {
		if len(k) == 3 {
			fixed3 = append(fixed3, k)
		}
	}
	w, err := os.Create(*out)
	must(err)
	bw := bufio.NewWriter(w)
	enc := json.NewEncoder(bw)
	r := rand.New(rand.NewSource(*seed))
	events, failed := 0, 0
	opCount := map[string]int{}
	profiles := []string{"prefix", "fixed", "burst"}
	for t := 0; t < *n; t++ {
		fl := flavors[t%len(flavors)]
		profile := profiles[(t/len(flavors)+t)%len(profiles)]
		keys := uni
		if profile == "fixed" {
			keys = fixed3
		}
		in := newInst(fl, uni, opt, int64(1000+t))
		model := map[string]Pair{}
		omodel := map[string]Pair{} // what the other handle holds
		hasOther := false
		cmodel := map[string]Pair{}
		committed := false
		sinceHash := 0
		contentOf := func(m map[string]Pair) []Pair {
			c := make([]Pair, 0, len(m))
			for _, p := range m {
				c = append(c, p)
			}
			sort.Slice(c, func(i, j int) bool { return lexLess(c[i].K, c[j].K) })
			return c
		}
		content := func() []Pair { return contentOf(model) }
		pick := func(existing bool) []int {
			if existing && len(model) > 0 {
				c := content()
				return c[r.Intn(len(c))].K
			}
			return keys[r.Intn(len(keys))]
		}
		emit := func(rec *Rec, ok bool, fail string) {
			if rec.OC == nil {
				rec.OC = []Pair{}
			}
			ev := map[string]interface{}{"op": rec.Op, "k": nz(rec.K), "v": rec.V, "k2": nz(rec.K2), "i": rec.I, "kind": rec.Kind,
				"res": rec.Res, "ok": ok, "fail": fail, "oc": rec.OC, "ho": rec.HO, "flavor": fl.Name, "trace": t, "exact": fl.exact(), "shape": fl.shape()}
			enc.Encode(ev)
		}
		emit(&Rec{Op: "tracereset", Res: []interface{}{"init"}}, true, "")
		for i := 0; i < *depth; i++ {
			rec := &Rec{K: []int{}, K2: []int{}}
			x := r.Intn(100)
			if profile == "burst" {
				// >= 100 modifications between two hashings: the parallel hasher
				if sinceHash < 105 {
					x = r.Intn(56)
				} else {
					x = 70
				}
			}
			y := r.Intn(100)
			switch {
			case profile != "burst" && y < 3:
				rec.Op = "copy"
			case profile != "burst" && y < 8 && hasOther:
				rec.Op = "swap"
			case x < 40:
				rec.Op, rec.K, rec.V = "update", pick(r.Intn(3) == 0), 1+r.Intn(5)
			case x < 46:
				rec.Op, rec.K, rec.V = "update", pick(r.Intn(4) != 0), 0
			case x < 56:
				rec.Op, rec.K = "delete", pick(r.Intn(4) != 0)
			case x < 66:
				rec.Op, rec.K = "get", pick(r.Intn(2) == 0)
			case x < 74:
				rec.Op = "hash"
			case x < 79:
				rec.Op = "commit"
			case x < 82:
				if !committed {
					continue
				}
				rec.Op = "reload"
			case x < 89:
				rec.Op, rec.K = "prove", pick(r.Intn(2) == 0)
			case x < 94:
				rec.Op, rec.K, rec.K2 = "verify", pick(r.Intn(2) == 0), pick(r.Intn(2) == 0)
				if ks(rec.K) == ks(rec.K2) {
					continue
				}
			case x < 97:
				rec.Op, rec.K, rec.I, rec.Kind = "corrupt", pick(r.Intn(2) == 0), 1+r.Intn(5), []string{"drop", "alter"}[r.Intn(2)]
			default:
				if !abstractPrefixFree(model) {
					continue
				}
				rec.Op = "stack"
			}
			// the model is a plain map; TLC re-derives it from the spec and compares (hash events, get results)
			switch rec.Op {
			case "update":
				if rec.V == 0 {
					delete(model, ks(rec.K))
				} else {
					model[ks(rec.K)] = Pair{rec.K, rec.V}
				}
				sinceHash++
			case "delete":
				delete(model, ks(rec.K))
				sinceHash++
			case "commit":
				cmodel = map[string]Pair{}
				for k, p := range model {
					cmodel[k] = p
				}
				committed = true
				sinceHash = 0
			case "reload":
				model = map[string]Pair{}
				for k, p := range cmodel {
					model[k] = p
				}
				sinceHash = 0
			case "hash", "prove", "verify", "corrupt", "stack":
				sinceHash = 0
			case "copy":
				omodel = map[string]Pair{}
				for k, p := range model {
					omodel[k] = p
				}
				hasOther = true
			case "swap":
				model, omodel = omodel, model
			}
			rec.OC, rec.HO = contentOf(omodel), hasOther
			if rec.Op == "corrupt" {
				// the spec defines CorruptProof for an index on the abstract path; driver and trace spec both
				// take the logged index modulo the length of their path (non-empty trie: path non-empty)
				if len(model) == 0 {
					continue
				}
			}
			c := content()
			got, v := in.exec(rec, c)
			rec.Res = got
			events++
			opCount[rec.Op]++
			if v != nil {
				failed++
				emit(rec, false, v.Cat+": "+v.Detail)
				break
			}
			emit(rec, true, "")
		}
	}
	bw.Flush()
	w.Close()
	b, _ := json.Marshal(map[string]interface{}{"traces": *n, "events": events, "failed_checks": failed, "ops": opCount})
	fmt.Println(string(b))
}

func nz(k []int) []int {
	if k == nil {
		return []int{}
	}
	return k
}

func lexLess(a, b []int) bool {
	for i := 0; i < len(a) && i < len(b); i++ {
		if a[i] != b[i] {
			return a[i] < b[i]
		}
	}
	return len(a) < len(b)
}

func abstractPrefixFree(m map[string]Pair) bool {
	for _, p := range m {
		for _, q := range m {
			if len(p.K) < len(q.K) && reflect.DeepEqual(p.K, q.K[:len(p.K)]) {
				return false
			}
		}
	}
	return true
}

// ---------------------------------------------------------------- DeriveSha

type blobList [][]byte

func (l blobList) Len() int                           { return len(l) }
func (l blobList) EncodeIndex(i int, b *bytes.Buffer) { b.Write(l[i]) }

func cmdDerive(args []string) {
	fs := flag.NewFlagSet("derive", flag.ExitOnError)
	seed := fs.Int64("seed", 1, "")
	n := fs.Int("n", 200, "lists")
	fs.Parse(args)
	log.Global.SetOutput(io.Discard)
	r := rand.New(rand.NewSource(*seed))
	sizes := []int{0, 1, 2, 3, 15, 16, 17, 126, 127, 128, 129, 130, 255, 256, 257}
	type mm struct {
		Len      int    `json:"len"`
		ItemMax  int    `json:"item_max"`
		Stack    string `json:"stacktrie"`
		Trie     string `json:"trie"`
		Ref      string `json:"reference"`
		ListSeed int64  `json:"list_seed"`
	}
	var mism []mm
	items := 0
	for i := 0; i < *n; i++ {
		ls := r.Int63()
		lr := rand.New(rand.NewSource(ls))
		var ln int
		if i < len(sizes) {
			ln = sizes[i]
		} else if lr.Intn(3) == 0 {
			ln = sizes[lr.Intn(len(sizes))]
		} else {
			ln = lr.Intn(700)
		}
		imax := []int{1, 3, 31, 40, 300}[lr.Intn(5)]
		l := make(blobList, ln)
		var kv []kvb
		for j := range l {
			l[j] = make([]byte, 1+lr.Intn(imax))
			lr.Read(l[j])
			kv = append(kv, kvb{rlpUint(uint64(j)), l[j]})
		}
		items += ln
		sort.Slice(kv, func(a, b int) bool { return bytes.Compare(kv[a].k, kv[b].k) < 0 })
		hs := types.DeriveSha(l, trie.NewStackTrie(nil))
		ht := types.DeriveSha(l, new(trie.Trie))
		hr := refRoot(kv)
		if hs != ht || hs != hr {
			mism = append(mism, mm{ln, imax, hs.Hex(), ht.Hex(), hr.Hex(), ls})
		}
	}
	b, _ := json.Marshal(map[string]interface{}{"lists": *n, "items": items, "mismatches": mism})
	fmt.Println(string(b))
}

func must(err error) {
	if err != nil {
		fmt.Fprintln(os.Stderr, "triedrv fatal:", err)
		os.Exit(3)
	}
}

func main() {
	if len(os.Args) < 2 {
		fmt.Fprintln(os.Stderr, "usage: triedrv replay|random|derive|gc|gcrandom ...")
		os.Exit(2)
	}
	switch os.Args[1] {
	case "replay":
		cmdReplay(os.Args[2:])
	case "random":
		cmdRandom(os.Args[2:])
	case "derive":
		cmdDerive(os.Args[2:])
	case "gc":
		cmdGC(os.Args[2:])
	case "gcrandom":
		cmdGCRandom(os.Args[2:])
	default:
		os.Exit(2)
	}
}
