package main

// Independent oracles for C18: nothing in this file calls the trie package.
//
//   refRoot    the Merkle-Patricia root of a key/value set, transcribed from the yellow paper
//              (appendix D: hex-prefix encoding, n(J,i), c(J,i)) with its own RLP encoder
//   walkProof  a proof verifier working directly on the RLP of the proof nodes; also reports the
//              node kinds on the path (incl. nodes embedded in their parent) and the stored
//              nodes in path order

import (
	"bytes"
	"errors"
	"fmt"

	"github.com/dominant-strategies/go-quai/common"
	"github.com/dominant-strategies/go-quai/crypto"
	"github.com/dominant-strategies/go-quai/log"
	"github.com/dominant-strategies/go-quai/rlp"
)

func keccak(b []byte) []byte { return crypto.Keccak256(b) }

// ---- RLP encoding (yellow paper appendix B)

func rlpLen(base byte, n int) []byte {
	if n < 56 {
		return []byte{base + byte(n)}
	}
	var be []byte
	for x := n; x > 0; x >>= 8 {
		be = append([]byte{byte(x)}, be...)
	}
	return append([]byte{base + 55 + byte(len(be))}, be...)
}

func rlpStr(b []byte) []byte {
	if len(b) == 1 && b[0] < 0x80 {
		return []byte{b[0]}
	}
	return append(rlpLen(0x80, len(b)), b...)
}

func rlpList(items ...[]byte) []byte {
	var payload []byte
	for _, it := range items {
		payload = append(payload, it...)
	}
	return append(rlpLen(0xc0, len(payload)), payload...)
}

func rlpUint(x uint64) []byte {
	var be []byte
	for ; x > 0; x >>= 8 {
		be = append([]byte{byte(x)}, be...)
	}
	return rlpStr(be)
}

// ---- hex-prefix encoding (appendix C)

func keyNibbles(k []byte) []byte {
	out := make([]byte, 0, 2*len(k))
	for _, b := range k {
		out = append(out, b>>4, b&15)
	}
	return out
}

func hexPrefix(nib []byte, leaf bool) []byte {
	flag := byte(0)
	if leaf {
		flag = 2
	}
	var out []byte
	if len(nib)%2 == 1 {
		out = append(out, (flag+1)<<4|nib[0])
		nib = nib[1:]
	} else {
		out = append(out, flag<<4)
	}
	for i := 0; i < len(nib); i += 2 {
		out = append(out, nib[i]<<4|nib[i+1])
	}
	return out
}

func hexPrefixDecode(c []byte) (nib []byte, leaf bool, err error) {
	if len(c) == 0 {
		return nil, false, errors.New("empty compact path")
	}
	flag := c[0] >> 4
	if flag > 3 {
		return nil, false, errors.New("bad compact flag")
	}
	leaf = flag&2 != 0
	if flag&1 == 1 {
		nib = append(nib, c[0]&15)
	}
	for _, b := range c[1:] {
		nib = append(nib, b>>4, b&15)
	}
	return nib, leaf, nil
}

// ---- the trie of a set of pairs (appendix D)

type refItem struct {
	nib []byte
	val []byte
}

// c(J, i): the RLP of the node representing the items, all of which share their first i nibbles
func refNode(items []refItem, i int) []byte {
	if len(items) == 0 {
		return rlpStr(nil)
	}
	if len(items) == 1 {
		return rlpList(rlpStr(hexPrefix(items[0].nib[i:], true)), rlpStr(items[0].val))
	}
	// longest common prefix beyond i
	j := i
	for {
		ok := true
		for _, it := range items {
			if len(it.nib) <= j || it.nib[j] != items[0].nib[j] {
				ok = false
				break
			}
		}
		if !ok {
			break
		}
		j++
	}
	if j > i {
		return rlpList(rlpStr(hexPrefix(items[0].nib[i:j], false)), refRef(items, j))
	}
	var elems [][]byte
	for n := byte(0); n < 16; n++ {
		var sub []refItem
		for _, it := range items {
			if len(it.nib) > i && it.nib[i] == n {
				sub = append(sub, it)
			}
		}
		if len(sub) == 0 {
			elems = append(elems, rlpStr(nil))
		} else {
			elems = append(elems, refRef(sub, i+1))
		}
	}
	v := rlpStr(nil)
	for _, it := range items {
		if len(it.nib) == i {
			v = rlpStr(it.val)
		}
	}
	elems = append(elems, v)
	return rlpList(elems...)
}

// n(J, i): the node itself if shorter than 32 bytes, else its hash
func refRef(items []refItem, i int) []byte {
	enc := refNode(items, i)
	if len(enc) < 32 {
		return enc
	}
	return rlpStr(keccak(enc))
}

func refRoot(kv []kvb) common.Hash {
	items := make([]refItem, 0, len(kv))
	for _, e := range kv {
		if len(e.v) == 0 {
			continue
		}
		items = append(items, refItem{keyNibbles(e.k), e.v})
	}
	return common.BytesToHash(keccak(refNode(items, 0)))
}

// ---- proof walking

var errMissing = errors.New("proof node missing")

func listItems(b []byte) ([][]byte, error) {
	content, rest, err := rlp.SplitList(b)
	if err != nil {
		return nil, err
	}
	if len(rest) != 0 {
		return nil, errors.New("trailing bytes")
	}
	var out [][]byte
	for len(content) > 0 {
		_, _, r, err := rlp.Split(content)
		if err != nil {
			return nil, err
		}
		out = append(out, content[:len(content)-len(r)])
		content = r
	}
	return out, nil
}

// walkProof follows key (nibbles, no terminator) from the node stored under root.
// val == nil && err == nil: absence proven.
func walkProof(root common.Hash, key []byte, nodes map[string][]byte) (val []byte, kinds string, order [][]byte, err error) {
	cur, ok := nodes[string(root[:])]
	if !ok {
		return nil, "", nil, errMissing
	}
	order = append(order, cur)
	for {
		items, e := listItems(cur)
		if e != nil {
			return nil, kinds, order, e
		}
		var child []byte
		switch len(items) {
		case 17:
			kinds += "B"
			if len(key) == 0 {
				v, _, e := rlp.SplitString(items[16])
				if e != nil {
					return nil, kinds, order, e
				}
				if len(v) == 0 {
					return nil, kinds, order, nil
				}
				return v, kinds, order, nil
			}
			child, key = items[key[0]], key[1:]
		case 2:
			c, _, e := rlp.SplitString(items[0])
			if e != nil {
				return nil, kinds, order, e
			}
			path, leaf, e := hexPrefixDecode(c)
			if e != nil {
				return nil, kinds, order, e
			}
			if leaf {
				kinds += "L"
				if !bytes.Equal(path, key) {
					return nil, kinds, order, nil
				}
				v, _, e := rlp.SplitString(items[1])
				if e != nil {
					return nil, kinds, order, e
				}
				return v, kinds, order, nil
			}
			kinds += "X"
			if !bytes.HasPrefix(key, path) {
				return nil, kinds, order, nil
			}
			child, key = items[1], key[len(path):]
		default:
			return nil, kinds, order, fmt.Errorf("node with %d items", len(items))
		}
		k, content, _, e := rlp.Split(child)
		if e != nil {
			return nil, kinds, order, e
		}
		if k == rlp.List {
			cur = child // node embedded in its parent
			continue
		}
		if len(content) == 0 {
			return nil, kinds, order, nil // no child: absence
		}
		if len(content) != 32 {
			return nil, kinds, order, errors.New("bad child reference")
		}
		next, ok := nodes[string(content)]
		if !ok {
			return nil, kinds, order, errMissing
		}
		order = append(order, next)
		cur = next
	}
}

// alterValue re-encodes a stored leaf / branch node with another value; nil if the node holds none
func alterValue(blob, other []byte) []byte {
	items, err := listItems(blob)
	if err != nil {
		return nil
	}
	switch len(items) {
	case 17:
		if v, _, _ := rlp.SplitString(items[16]); len(v) == 0 {
			return nil
		}
		items[16] = rlpStr(other)
	case 2:
		c, _, err := rlp.SplitString(items[0])
		if err != nil {
			return nil
		}
		if _, leaf, err := hexPrefixDecode(c); err != nil || !leaf {
			return nil
		}
		items[1] = rlpStr(other)
	default:
		return nil
	}
	return rlpList(items...)
}

// ---- minimal ethdb views for proofs

type proofList struct{ m map[string][]byte }

func newProofList() *proofList             { return &proofList{m: map[string][]byte{}} }
func (p *proofList) Put(k, v []byte) error { p.m[string(k)] = append([]byte{}, v...); return nil }
func (p *proofList) Delete(k []byte) error { delete(p.m, string(k)); return nil }
func (p *proofList) Logger() *log.Logger   { return log.Global }

type mapReader map[string][]byte

func (m mapReader) Has(k []byte) (bool, error) { _, ok := m[string(k)]; return ok, nil }
func (m mapReader) Get(k []byte) ([]byte, error) {
	if v, ok := m[string(k)]; ok {
		return v, nil
	}
	return nil, errors.New("not found")
}
func (m mapReader) Location() common.Location { return common.Location{0, 0} }
func (m mapReader) Logger() *log.Logger       { return log.Global }
