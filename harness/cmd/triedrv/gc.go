// triedrv gc / gcrandom bind spec/TrieGC.tla to the real trie.Database (trie/database.go): the memory cache that
// Trie.Commit fills, the meta-root references that keep a committed root alive (Reference / Dereference and the
// reference-counting garbage collector behind them) and the two ways to disk (Database.Commit(root), Cap).
//
//	triedrv gc -in behaviours.ndjson -out result.json [-seed S] [-flavor F]
//	    every behaviour (a JSON array of call records carrying the spec's result and the spec's observation of the
//	    database after the call: roots that must load, roots that must load from disk alone, roots about which
//	    nothing is promised) is executed on a trie.Database over a memory key-value store, with the raw and the
//	    secure trie; after EVERY call every known root is opened and read completely, through the live database and
//	    through a fresh trie.Database on the same store.
//	triedrv gcrandom -seed S -n N -depth D -out traces.ndjson
//	    seeded long call sequences (many roots, the same content committed again and again, restarts, failing disk
//	    writes); one event per call with what loaded afterwards, validated by spec/TrieGCTrace.tla.
//
// A root is identified by its content; its hash is computed by the yellow-paper reference (oracle.go), never taken from
// the code under test (Trie.Commit's return value is compared with it).
package main

import (
	"bufio"
	"encoding/json"
	"errors"
	"flag"
	"fmt"
	"io"
	"math/rand"
	"os"
	"sort"
	"sync"

	"github.com/dominant-strategies/go-quai/common"
	"github.com/dominant-strategies/go-quai/core/rawdb"
	"github.com/dominant-strategies/go-quai/ethdb"
	"github.com/dominant-strategies/go-quai/log"
	"github.com/dominant-strategies/go-quai/trie"
)

type GRec struct {
	Op   string        `json:"op"`
	K    []int         `json:"k"`
	V    int           `json:"v"`
	C    []Pair        `json:"c"`
	Res  []interface{} `json:"res"`
	H    []Pair        `json:"h"`    // content of the handle after the call
	BM   bool          `json:"bm"`   // the root the handle builds on is still promised after the call
	Must [][]Pair      `json:"must"` // roots that must load completely from the live trie.Database
	Disk [][]Pair      `json:"disk"` // roots that must load through a fresh trie.Database on the same store
	May  [][]Pair      `json:"may"`  // known roots about which nothing is promised
}

type gcFlavor struct {
	Name     string
	Secure   bool
	Emb      string // hi | mix | long  (see newKeymap)
	Val      string // small | large | mixed
	Onleaf   bool   // Trie.Commit with a leaf callback: nodes reach the database through the committer's goroutine
	Rehandle bool   // after Trie.Commit the caller goes on with trie.New(root) (as state.New does) instead of the handle
}

var gcFlavors = []gcFlavor{
	{"gc-raw-hi-large", false, "hi", "large", false, false},          // every leaf a node of its own; equal-valued siblings are ONE node
	{"gc-raw-long-small-rehandle", false, "long", "small", false, true}, // long shared extensions, leaves hashed because of their paths
	{"gc-raw-mix-small", false, "mix", "small", false, false},         // everything embedded in few nodes: the root counts
	{"gc-sec-hi-large-onleaf", true, "hi", "large", true, true},       // secure trie, preimages, leaf callback
	{"gc-sec-mix-mixed", true, "mix", "mixed", false, false},
}

// ---------------------------------------------------------------- a store whose batch writes can be made to fail

var errInjected = errors.New("injected disk write error")

type failDB struct {
	ethdb.Database
	armed  bool
	from   int // the from-th batch write of the armed call fails, and every later one
	writes int
	fired  bool
}

func (d *failDB) NewBatch() ethdb.Batch { return &failBatch{Batch: d.Database.NewBatch(), d: d} }

type failBatch struct {
	ethdb.Batch
	d *failDB
}

func (b *failBatch) Write() error {
	if b.d.armed {
		b.d.writes++
		if b.d.writes >= b.d.from {
			b.d.fired = true
			return errInjected
		}
	}
	return b.Batch.Write()
}

// ---------------------------------------------------------------- instance

type gcInst struct {
	fl     gcFlavor
	km     *keymap
	disk   *failDB
	tdb    *trie.Database
	t      TrieI
	uni    [][]int
	rng    *rand.Rand
	checks int
	probes int
	roots  map[string]common.Hash
}

func newGCInst(fl gcFlavor, uni [][]int, seed, salt int64) *gcInst {
	g := &gcInst{fl: fl, km: newKeymap(fl.Emb, seed), uni: uni, roots: map[string]common.Hash{}}
	g.disk = &failDB{Database: rawdb.NewMemoryDatabase(log.Global)}
	g.tdb = trie.NewDatabase(g.disk)
	t, err := openTrie(fl.Secure, common.Hash{}, g.tdb)
	must(err)
	g.t = t
	g.rng = rand.New(rand.NewSource(seed*7919 + salt))
	return g
}

func (g *gcInst) akey(k []int) []byte { return g.km.bytes(k) }
func (g *gcInst) tkey(k []int) []byte {
	b := g.km.bytes(k)
	if g.fl.Secure {
		return keccak(b)
	}
	return b
}
func (g *gcInst) val(v int) []byte { return valBytes(g.fl.Val, v) }

func ckey(c []Pair) string {
	b, _ := json.Marshal(c)
	return string(b)
}

// the root of a content: the yellow-paper reference, no trie code involved
func (g *gcInst) rootOf(c []Pair) common.Hash {
	k := ckey(c)
	if h, ok := g.roots[k]; ok {
		return h
	}
	kv := make([]kvb, 0, len(c))
	for _, p := range c {
		kv = append(kv, kvb{g.tkey(p.K), g.val(p.V)})
	}
	h := refRoot(kv)
	g.roots[k] = h
	return h
}

// probe opens root(c) on db and reads every key of the universe.  loaded: every read succeeded.  A trie that loads
// but holds something else than c is a violation whatever the specification says about c.
func (g *gcInst) probe(db *trie.Database, c []Pair) (loaded bool, why string, v *Viol) {
	defer func() {
		if x := recover(); x != nil {
			loaded, why, v = false, fmt.Sprint(x), viol("panic", "opening / reading root of %s: %v", ckey(c), x)
		}
	}()
	g.probes++
	root := g.rootOf(c)
	t, err := openTrie(g.fl.Secure, root, db)
	if err != nil {
		return false, err.Error(), nil
	}
	cm := contentMap(c)
	for _, k := range g.uni {
		b, err := t.TryGet(g.akey(k))
		if err != nil {
			return false, fmt.Sprintf("Get(%v): %v", k, err), nil
		}
		if got := valAbs(g.fl.Val, b); got != cm[ks(k)] {
			return true, "", &Viol{Cat: "gc-wrong-content", Detail: fmt.Sprintf("root of %s opened, Get(%v)", ckey(c), k), Exp: cm[ks(k)], Got: got}
		}
	}
	if h := t.Hash(); h != root {
		return true, "", &Viol{Cat: "gc-wrong-content", Detail: "Hash of the opened trie of " + ckey(c), Exp: root.Hex(), Got: h.Hex()}
	}
	return true, "", nil
}

// observe: what loads after a call, compared with what the specification promises
func (g *gcInst) observe(must, disk, may [][]Pair) *Viol {
	for _, c := range must {
		ok, why, v := g.probe(g.tdb, c)
		if v != nil {
			return v
		}
		if !ok {
			return &Viol{Cat: "gc-live-root-lost", Detail: "a root that is still referenced (or committed and never released, or flushed) does not load from the trie database: " + ckey(c) + ": " + why,
				Exp: "loads", Got: why}
		}
	}
	if len(disk) > 0 {
		fresh := trie.NewDatabase(g.disk)
		for _, c := range disk {
			ok, why, v := g.probe(fresh, c)
			if v != nil {
				return v
			}
			if !ok {
				return &Viol{Cat: "gc-flushed-root-not-on-disk", Detail: "a root reported as written does not load through a fresh trie.Database on the same store: " + ckey(c) + ": " + why,
					Exp: "loads", Got: why}
			}
		}
	}
	for _, c := range may {
		if _, _, v := g.probe(g.tdb, c); v != nil {
			return v
		}
	}
	g.checks += len(must) + len(disk) + len(may)
	return nil
}

func (g *gcInst) armed(from int, f func() error) (err error, fired bool) {
	g.disk.armed, g.disk.from, g.disk.writes, g.disk.fired = true, from, 0, false
	defer func() { g.disk.armed = false }()
	err = f()
	return err, g.disk.fired
}

// exec performs one call.  baseOK: the root the handle builds on was promised BEFORE the call (else the handle is
// dead and what happens to it is nobody's business).  Returns the abstract result.
func (g *gcInst) exec(r *GRec, baseOK bool) (res []interface{}, v *Viol) {
	defer func() {
		if x := recover(); x != nil {
			res, v = []interface{}{"panic"}, viol("panic", "%s: %v", r.Op, x)
		}
	}()
	ok := []interface{}{"ok"}
	switch r.Op {
	case "update":
		var err error
		if r.V == 0 && g.rng.Intn(2) == 0 {
			err = g.t.TryDelete(g.akey(r.K))
		} else {
			err = g.t.TryUpdate(g.akey(r.K), g.val(r.V))
		}
		if err != nil && baseOK {
			return ok, viol("gc-live-root-lost", "update(%v) on a handle whose root is alive: %v", r.K, err)
		}
		return ok, nil
	case "tcommit":
		if !baseOK {
			return ok, viol("driver", "tcommit on a dead handle")
		}
		var onleaf trie.LeafCallback
		if g.fl.Onleaf {
			onleaf = func(_ [][]byte, _ []byte, _ []byte, _ common.Hash) error { return nil }
		}
		root, err := g.t.Commit(onleaf)
		if err != nil {
			return []interface{}{"error"}, viol("commit-error", "Trie.Commit: %v", err)
		}
		if w := g.rootOf(r.C); root != w {
			return []interface{}{"root", "other"}, &Viol{Cat: "commit-root", Detail: "Trie.Commit returned another root than the reference root of the content", Exp: w.Hex(), Got: root.Hex()}
		}
		if g.fl.Rehandle {
			t, err := openTrie(g.fl.Secure, root, g.tdb)
			if err != nil {
				return []interface{}{"root", r.C}, viol("gc-live-root-lost", "trie.New(root just committed): %v", err)
			}
			g.t = t
		}
		return []interface{}{"root", r.C}, nil
	case "ref":
		g.tdb.Reference(g.rootOf(r.C), common.Hash{})
		return ok, nil
	case "deref":
		g.tdb.Dereference(g.rootOf(r.C))
		return ok, nil
	case "flush":
		if err := g.tdb.Commit(g.rootOf(r.C), false, nil); err != nil {
			return []interface{}{"err"}, viol("flush-error", "Database.Commit: %v", err)
		}
		return ok, nil
	case "flushfail":
		err, fired := g.armed(1+g.rng.Intn(2), func() error { return g.tdb.Commit(g.rootOf(r.C), false, nil) })
		return g.failRes(err, fired, "Database.Commit")
	case "cap":
		if err := g.tdb.Cap(0); err != nil {
			return []interface{}{"err"}, viol("flush-error", "Database.Cap: %v", err)
		}
		return ok, nil
	case "capfail":
		err, fired := g.armed(1, func() error { return g.tdb.Cap(0) })
		return g.failRes(err, fired, "Database.Cap")
	case "open":
		t, err := openTrie(g.fl.Secure, g.rootOf(r.C), g.tdb)
		if err != nil {
			return []interface{}{"missing"}, viol("gc-live-root-lost", "trie.New(root of %s): %v", ckey(r.C), err)
		}
		cm := contentMap(r.C)
		for _, k := range g.uni {
			b, err := t.TryGet(g.akey(k))
			if err != nil {
				return []interface{}{"missing"}, viol("gc-live-root-lost", "Get(%v) on the opened root of %s: %v", k, ckey(r.C), err)
			}
			if got := valAbs(g.fl.Val, b); got != cm[ks(k)] {
				return []interface{}{"content", "other"}, &Viol{Cat: "gc-wrong-content", Detail: fmt.Sprintf("Get(%v) on the opened root of %s", k, ckey(r.C)), Exp: cm[ks(k)], Got: got}
			}
		}
		if g.rng.Intn(2) == 0 { // go on with the handle that has everything loaded, or with a lazy one
			t, _ = openTrie(g.fl.Secure, g.rootOf(r.C), g.tdb)
		}
		g.t = t
		return []interface{}{"content", r.C}, nil
	case "reopen":
		g.tdb = trie.NewDatabase(g.disk)
		t, err := openTrie(g.fl.Secure, common.Hash{}, g.tdb)
		if err != nil {
			return ok, viol("driver", "empty trie: %v", err)
		}
		g.t = t
		return ok, nil
	}
	return []interface{}{"unknown-op"}, viol("driver", "unknown op %q", r.Op)
}

// a call during which the store refused a write must report it (and, says the observation that follows, lose nothing);
// a call during which the injected failure never came into play simply succeeded, which promises more, not less
func (g *gcInst) failRes(err error, fired bool, what string) ([]interface{}, *Viol) {
	switch {
	case fired && err == nil:
		return []interface{}{"ok"}, viol("write-error-swallowed", "%s returned nil although the store refused a batch write", what)
	case !fired && err != nil:
		return []interface{}{"err"}, viol("flush-error", "%s: %v", what, err)
	case !fired:
		return []interface{}{"ok"}, nil
	}
	return []interface{}{"err"}, nil
}

func gcConform(r *GRec, got []interface{}) bool {
	if len(got) == 0 || len(r.Res) == 0 {
		return false
	}
	if (r.Op == "flushfail" || r.Op == "capfail") && got[0] == "ok" {
		return true // the failure was not reached: see failRes
	}
	return got[0] == r.Res[0]
}

// ---------------------------------------------------------------- replay

type GViolation struct {
	Flavor    string      `json:"flavor"`
	Behaviour int         `json:"behaviour"`
	Step      int         `json:"step"`
	Op        string      `json:"op"`
	Cat       string      `json:"cat"`
	Detail    string      `json:"detail"`
	Expected  interface{} `json:"expected"`
	Got       interface{} `json:"got"`
	Trace     []GRec      `json:"behaviour_ops"`
}

func gcUniverse(behs [][]GRec) [][]int {
	seen := map[string]bool{}
	var out [][]int
	for _, b := range behs {
		for _, r := range b {
			if r.Op == "update" && !seen[ks(r.K)] {
				seen[ks(r.K)] = true
				out = append(out, r.K)
			}
		}
	}
	sort.Slice(out, func(i, j int) bool { return lexLess(out[i], out[j]) })
	return out
}

// the hashed nodes of the trie of a content (coverage only: which calls hit nodes shared between live roots)
func (g *gcInst) nodeSet(c []Pair, cache map[string]map[common.Hash]bool) map[common.Hash]bool {
	k := ckey(c)
	if s, ok := cache[k]; ok {
		return s
	}
	db := trie.NewDatabase(rawdb.NewMemoryDatabase(log.Global))
	t, err := openTrie(g.fl.Secure, common.Hash{}, db)
	must(err)
	for _, p := range c {
		t.TryUpdate(g.akey(p.K), g.val(p.V))
	}
	t.Commit(nil)
	s := map[common.Hash]bool{}
	for _, h := range db.Nodes() {
		s[h] = true
	}
	cache[k] = s
	return s
}

func cmdGC(args []string) {
	fs := flag.NewFlagSet("gc", flag.ExitOnError)
	inp := fs.String("in", "", "behaviours ndjson")
	out := fs.String("out", "", "result json")
	seed := fs.Int64("seed", 1, "")
	maxViol := fs.Int("maxviol", 40, "")
	workers := fs.Int("workers", 16, "")
	only := fs.String("flavor", "", "run a single flavour")
	fs.Parse(args)
	log.Global.SetOutput(io.Discard)
	var behs [][]GRec
	{
		f, err := os.Open(*inp)
		must(err)
		sc := bufio.NewScanner(f)
		sc.Buffer(make([]byte, 1<<20), 1<<26)
		for sc.Scan() {
			if len(sc.Bytes()) < 2 {
				continue
			}
			var beh []GRec
			if err := json.Unmarshal(sc.Bytes(), &beh); err != nil {
				must(fmt.Errorf("behaviour %d: %v", len(behs), err))
			}
			behs = append(behs, beh)
		}
		must(sc.Err())
		f.Close()
	}
	uni := gcUniverse(behs)
	type stat struct{ Behaviours, Calls, Checks, Probes, Violations, SharedDerefs, SameRootTwice, DeadHandleCalls int }
	stats := map[string]*stat{}
	for _, fl := range gcFlavors {
		stats[fl.Name] = &stat{}
	}
	opCount := map[string]int{}
	for _, beh := range behs {
		for _, r := range beh {
			opCount[r.Op]++
		}
	}
	var viols []GViolation
	var lock sync.Mutex
	jobs := make(chan int, 1024)
	var wg sync.WaitGroup
	for w := 0; w < *workers; w++ {
		wg.Add(1)
		go func() {
			defer wg.Done()
			nodeCache := map[string]map[string]map[common.Hash]bool{}
			for bi := range jobs {
				beh := behs[bi]
				for fi, fl := range gcFlavors {
					if *only != "" && fl.Name != *only {
						continue
					}
					if nodeCache[fl.Name] == nil {
						nodeCache[fl.Name] = map[string]map[common.Hash]bool{}
					}
					g := newGCInst(fl, uni, *seed, int64(bi*16+fi))
					var bad *Viol
					step, calls, shared, twice, dead := 0, 0, 0, 0, 0
					baseOK := true
					commits := map[string]int{}
					for i := range beh {
						r := &beh[i]
						got, v := g.exec(r, baseOK)
						calls++
						if !baseOK {
							dead++
						}
						if v == nil && !gcConform(r, got) {
							gj, _ := json.Marshal(got)
							v = &Viol{Cat: "spec-vs-impl", Detail: "observed result of " + r.Op + " differs from the specified one", Exp: r.Res, Got: json.RawMessage(gj)}
						}
						if v == nil {
							v = g.observe(r.Must, r.Disk, r.May)
						}
						if v != nil {
							bad, step = v, i
							break
						}
						baseOK = r.BM
						switch r.Op {
						case "tcommit":
							commits[ckey(r.C)]++
							if commits[ckey(r.C)] == 2 {
								twice++
							}
						case "deref": // does the released root share nodes with a root that must stay?
							mine := g.nodeSet(r.C, nodeCache[fl.Name])
						outer:
							for _, c := range r.Must {
								if ckey(c) == ckey(r.C) || len(c) == 0 {
									continue
								}
								for h := range g.nodeSet(c, nodeCache[fl.Name]) {
									if mine[h] {
										shared++
										break outer
									}
								}
							}
						}
					}
					lock.Lock()
					st := stats[fl.Name]
					st.Behaviours++
					st.Calls += calls
					st.Checks += g.checks
					st.Probes += g.probes
					st.SharedDerefs += shared
					st.SameRootTwice += twice
					st.DeadHandleCalls += dead
					if bad != nil {
						st.Violations++
						if len(viols) < *maxViol {
							viols = append(viols, GViolation{fl.Name, bi, step, beh[step].Op, bad.Cat, bad.Detail, bad.Exp, bad.Got, beh})
						}
					}
					lock.Unlock()
				}
			}
		}()
	}
	for bi := range behs {
		jobs <- bi
	}
	close(jobs)
	wg.Wait()
	res := map[string]interface{}{"behaviours": len(behs), "flavors": stats, "violations": viols, "ops": opCount}
	b, _ := json.MarshalIndent(res, "", " ")
	must(os.WriteFile(*out, b, 0o644))
}

// ---------------------------------------------------------------- random traces for TrieGCTrace.tla

// the caller's bookkeeping: only used to stay inside the interface contract (which calls are allowed now);
// the verdict on what must load comes from TLC (TrieGCTrace.tla), which re-derives all of it from the spec
type gcModel struct {
	h       map[string]Pair
	base    string
	refs    map[string]int
	held    map[string]bool
	flushed map[string]bool
	known   []string          // in order of first commit; index = id - 1 (id 0 is the empty content)
	byKey   map[string][]Pair // content key -> content
}

func sortedContent(m map[string]Pair) []Pair {
	c := make([]Pair, 0, len(m))
	for _, p := range m {
		c = append(c, p)
	}
	sort.Slice(c, func(i, j int) bool { return lexLess(c[i].K, c[j].K) })
	return c
}

func (m *gcModel) must(k string) bool { return k == "[]" || m.held[k] || m.flushed[k] }

func cmdGCRandom(args []string) {
	fs := flag.NewFlagSet("gcrandom", flag.ExitOnError)
	seed := fs.Int64("seed", 1, "")
	n := fs.Int("n", 10, "traces")
	depth := fs.Int("depth", 150, "calls per trace")
	out := fs.String("out", "", "trace ndjson")
	fs.Parse(args)
	log.Global.SetOutput(io.Discard)
	w, err := os.Create(*out)
	must(err)
	bw := bufio.NewWriter(w)
	enc := json.NewEncoder(bw)
	r := rand.New(rand.NewSource(*seed))
	events, failed := 0, 0
	opCount := map[string]int{}
	maxKnown, sameAgain, multiRef := 0, 0, 0
	universes := [][][]int{
		{{1, 1}, {1, 2}, {2, 1}, {2, 2}},
		{{1, 1}, {1, 2}, {1, 3}, {2, 1}, {3, 1, 1}, {3, 1, 2}},
		{{1}, {1, 1}, {1, 1, 2}, {2}, {2, 3}},
	}
	for t := 0; t < *n; t++ {
		fl := gcFlavors[t%len(gcFlavors)]
		uni := universes[(t/len(gcFlavors)+t)%len(universes)]
		nvals := 2 + t%2
		g := newGCInst(fl, uni, *seed, int64(5000+t))
		m := &gcModel{h: map[string]Pair{}, base: "[]", refs: map[string]int{}, held: map[string]bool{}, flushed: map[string]bool{},
			byKey: map[string][]Pair{"[]": {}}}
		ids := map[string]int{"[]": 0}
		emit := func(rec *GRec, id int, okIDs, dokIDs []int, ok bool, fail string) {
			if rec.C == nil {
				rec.C = []Pair{}
			}
			enc.Encode(map[string]interface{}{"op": rec.Op, "k": nz(rec.K), "v": rec.V, "c": rec.C, "res": rec.Res, "id": id,
				"lok": okIDs, "dok": dokIDs, "ok": ok, "fail": fail, "flavor": fl.Name, "trace": t})
		}
		emit(&GRec{Op: "tracereset", Res: []interface{}{"init"}}, 0, []int{}, []int{}, true, "")
		// the calls the contract allows now, with weights
		pickKnown := func(pred func(k string) bool) (string, bool) {
			var cand []string
			for _, k := range m.known {
				if pred(k) {
					cand = append(cand, k)
				}
			}
			if len(cand) == 0 {
				return "", false
			}
			// prefer recent roots: they share most with what is alive
			if r.Intn(3) > 0 && len(cand) > 3 {
				cand = cand[len(cand)-3:]
			}
			return cand[r.Intn(len(cand))], true
		}
		var queue []*GRec // calls already decided (a touch-and-restore sequence: the same content is committed again)
		for i := 0; i < *depth; i++ {
			rec := &GRec{K: []int{}}
			hk := ckey(sortedContent(m.h))
			x := r.Intn(100)
			if len(queue) > 0 {
				rec, queue = queue[0], queue[1:]
				x = -1
				if rec.Op == "tcommit" {
					if !m.must(m.base) {
						continue
					}
					rec.C = sortedContent(m.h)
				}
			}
			switch {
			case x < 0:
			case x < 30:
				rec.Op, rec.K = "update", uni[r.Intn(len(uni))]
				cur := m.h[ks(rec.K)].V
				rec.V = r.Intn(nvals + 1)
				if rec.V == cur { // the specification has no no-op updates
					rec.V = (cur + 1) % (nvals + 1)
				}
			case x < 46:
				if !m.must(m.base) {
					continue
				}
				rec.Op, rec.C = "tcommit", sortedContent(m.h)
			case x < 60:
				k, ok := pickKnown(func(k string) bool { return m.must(k) })
				if !ok {
					continue
				}
				rec.Op, rec.C = "ref", m.byKey[k]
			case x < 74:
				k, ok := pickKnown(func(k string) bool { return m.refs[k] > 0 })
				if !ok {
					continue
				}
				rec.Op, rec.C = "deref", m.byKey[k]
			case x < 78:
				k, ok := pickKnown(func(k string) bool { return m.must(k) })
				if !ok {
					continue
				}
				rec.Op, rec.C = "flush", m.byKey[k]
			case x < 81:
				k, ok := pickKnown(func(k string) bool { return m.must(k) })
				if !ok {
					continue
				}
				rec.Op, rec.C = "flushfail", m.byKey[k]
			case x < 83:
				rec.Op = "cap"
			case x < 85:
				rec.Op = "capfail"
			case x < 92:
				k, ok := pickKnown(func(k string) bool { return m.must(k) && !(k == hk && k == m.base) })
				if !ok {
					continue
				}
				rec.Op, rec.C = "open", m.byKey[k]
			case x < 98:
				// the same content once more: touch a key, put the old value back, commit, reference
				if len(m.h) == 0 || !m.must(m.base) {
					continue
				}
				c := sortedContent(m.h)
				p := c[r.Intn(len(c))]
				rec.Op, rec.K, rec.V = "update", p.K, 1+p.V%nvals
				queue = append(queue, &GRec{Op: "update", K: p.K, V: p.V}, &GRec{Op: "tcommit", K: []int{}})
			default:
				rec.Op = "reopen"
			}
			// execute
			baseOK := m.must(m.base)
			got, v := g.exec(rec, baseOK)
			if (rec.Op == "flushfail" || rec.Op == "capfail") && v == nil && got[0] == "ok" {
				rec.Op = rec.Op[:len(rec.Op)-4] // the injected failure was never reached: the call simply succeeded
			}
			rec.Res = got
			id := 0
			// bookkeeping
			switch rec.Op {
			case "update":
				if rec.V == 0 {
					delete(m.h, ks(rec.K))
				} else {
					m.h[ks(rec.K)] = Pair{rec.K, rec.V}
				}
			case "tcommit":
				k := ckey(rec.C)
				if _, ok := ids[k]; !ok {
					m.known = append(m.known, k)
					m.byKey[k] = rec.C
					ids[k] = len(m.known)
				} else if k != "[]" {
					sameAgain++
				}
				id = ids[k]
				m.held[k] = true
				m.base = k
			case "ref":
				m.refs[ckey(rec.C)]++
				if m.refs[ckey(rec.C)] > 1 {
					multiRef++
				}
			case "deref":
				k := ckey(rec.C)
				m.refs[k]--
				if m.refs[k] == 0 {
					delete(m.held, k)
				}
			case "flush":
				m.flushed[ckey(rec.C)] = true
			case "cap":
				for k := range m.held {
					m.flushed[k] = true
				}
			case "open":
				m.h = map[string]Pair{}
				for _, p := range rec.C {
					m.h[ks(p.K)] = p
				}
				m.base = ckey(rec.C)
			case "reopen":
				m.h, m.base, m.refs, m.held = map[string]Pair{}, "[]", map[string]int{}, map[string]bool{}
			}
			if len(m.known) > maxKnown {
				maxKnown = len(m.known)
			}
			// what loads now: every known root, through the live database and through a fresh one on the same store
			okIDs, dokIDs := []int{}, []int{}
			if v == nil {
				fresh := trie.NewDatabase(g.disk)
				for _, k := range m.known {
					ok, _, pv := g.probe(g.tdb, m.byKey[k])
					if pv != nil {
						v = pv
						break
					}
					if ok {
						okIDs = append(okIDs, ids[k])
					}
					ok, _, pv = g.probe(fresh, m.byKey[k])
					if pv != nil {
						v = pv
						break
					}
					if ok {
						dokIDs = append(dokIDs, ids[k])
					}
				}
			}
			events++
			opCount[rec.Op]++
			if v != nil {
				failed++
				emit(rec, id, okIDs, dokIDs, false, v.Cat+": "+v.Detail)
				break
			}
			emit(rec, id, okIDs, dokIDs, true, "")
		}
	}
	bw.Flush()
	w.Close()
	b, _ := json.Marshal(map[string]interface{}{"traces": *n, "events": events, "failed_checks": failed, "ops": opCount,
		"max_known_roots": maxKnown, "same_content_committed_again": sameAgain, "refs_beyond_first": multiRef})
	fmt.Println(string(b))
}
