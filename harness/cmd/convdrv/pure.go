package main

// Pure-function exploration: the unit-conversion helpers of consensus/misc and the denomination
// split, on large random values, against the math/big transcription in harness/conv and against the
// algebraic facts the property states (a round trip never gains; denominations add up).

import (
	"encoding/json"
	"flag"
	"fmt"
	"math/big"
	"math/rand"

	"github.com/dominant-strategies/go-quai/common"
	"github.com/dominant-strategies/go-quai/consensus/misc"
	"github.com/dominant-strategies/go-quai/core/types"
	"github.com/dominant-strategies/go-quai/params"
	"verifharness/chain"
	"verifharness/conv"
)

func randBig(r *rand.Rand, maxBits int) *big.Int {
	bits := 1 + r.Intn(maxBits)
	x := new(big.Int).Rand(r, new(big.Int).Lsh(big.NewInt(1), uint(bits)))
	return x
}

func cmdPure(args []string) {
	fs := flag.NewFlagSet("pure", flag.ExitOnError)
	seed := fs.Int64("seed", 1, "")
	n := fs.Int("n", 20000, "")
	fs.Parse(args)
	chain.FastParams()
	r := rand.New(rand.NewSource(*seed))
	var problems []Problem
	add := func(kind string, kv ...interface{}) {
		if len(problems) < 40 {
			m := map[string]interface{}{}
			for i := 0; i+1 < len(kv); i += 2 {
				m[kv[i].(string)] = fmt.Sprint(kv[i+1])
			}
			problems = append(problems, Problem{kind, m})
		}
	}
	evals, nontrivial := 0, 0
	distinct := map[string]bool{}
	var samples []map[string]interface{}
	for i := 0; i < *n; i++ {
		// a header with random difficulty / number; exchange rate across 40 orders of magnitude
		wo := types.EmptyWorkObject(common.ZONE_CTX)
		number := uint64(r.Int63n(1 << uint(1+r.Intn(30))))
		wo.WorkObjectHeader().SetNumber(new(big.Int).SetUint64(number))
		wo.WorkObjectHeader().SetPrimeTerminusNumber(big.NewInt(int64(r.Intn(1000))))
		diff := new(big.Int).Add(randBig(r, 70), big.NewInt(2))
		xr := new(big.Int).Add(randBig(r, 80), big.NewInt(1))
		rate, err := conv.NewRate(number, wo.PrimeTerminusNumber().Uint64(), diff, xr)
		if err != nil {
			panic(err)
		}
		x := randBig(r, 100)
		if i%7 == 0 {
			x = big.NewInt(r.Int63n(2000))
		}
		// implementation
		q2i := misc.QuaiToQi(wo, xr, diff, x)
		i2q := misc.QiToQuai(wo, xr, diff, x)
		evals += 2
		// transcription
		if q2i.Cmp(rate.QuaiToQi(x)) != 0 {
			add("QuaiToQi-differs-from-floor-formula", "x", x, "have", q2i, "want", rate.QuaiToQi(x), "quaiReward", rate.QuaiPerBlock, "qiReward", rate.QiPerBlock)
		}
		if i2q.Cmp(rate.QiToQuai(x)) != 0 {
			add("QiToQuai-differs-from-floor-formula", "x", x, "have", i2q, "want", rate.QiToQuai(x), "quaiReward", rate.QuaiPerBlock, "qiReward", rate.QiPerBlock)
		}
		// round trips on the implementation's own outputs
		back1 := misc.QiToQuai(wo, xr, diff, q2i)
		back2 := misc.QuaiToQi(wo, xr, diff, i2q)
		evals += 2
		if back1.Cmp(x) > 0 {
			add("round-trip-gains-quai", "x", x, "qi", q2i, "back", back1)
		}
		if back2.Cmp(x) > 0 {
			add("round-trip-gains-qi", "x", x, "quai", i2q, "back", back2)
		}
		if back1.Cmp(x) < 0 || back2.Cmp(x) < 0 {
			nontrivial++
		}
		distinct[fmt.Sprintf("%d/%d/%d", x.BitLen()/8, rate.QuaiPerBlock.BitLen()/8, rate.QiPerBlock.BitLen()/8)] = true
		// monotonicity (a larger amount never converts to less)
		y := new(big.Int).Add(x, randBig(r, 40))
		if misc.QuaiToQi(wo, xr, diff, y).Cmp(q2i) < 0 || misc.QiToQuai(wo, xr, diff, y).Cmp(i2q) < 0 {
			add("conversion-not-monotone", "x", x, "y", y)
		}
		// denominations
		v := randBig(r, 50)
		if i%3 == 0 {
			v = big.NewInt(r.Int63n(100000))
		}
		den := misc.FindMinDenominations(v)
		evals++
		sum := new(big.Int)
		cnt := uint64(0)
		for d, c := range den {
			if int(d) >= len(conv.Denoms) {
				add("denomination-out-of-range", "d", d)
				continue
			}
			sum.Add(sum, new(big.Int).Mul(big.NewInt(conv.Denoms[d]), new(big.Int).SetUint64(c)))
			cnt += c
		}
		if sum.Cmp(v) != 0 {
			add("denominations-do-not-add-up", "value", v, "sum", sum)
		}
		g := conv.GreedyDenoms(v)
		for d := range g {
			if den[uint8(d)] != g[d] {
				add("denominations-differ-from-greedy-split", "value", v, "denom", d, "have", den[uint8(d)], "want", g[d])
				break
			}
		}
		// cubic discount: implementation vs transcription, and "only reduces"
		mean := new(big.Int).Add(randBig(r, 90), big.NewInt(1))
		tot := new(big.Int).Add(randBig(r, 94), big.NewInt(1))
		if i%2 == 0 { // within [mean, 10*mean]
			tot = new(big.Int).Add(mean, new(big.Int).Rand(r, new(big.Int).Mul(mean, big.NewInt(9))))
		}
		cd, _ := misc.ApplyCubicDiscount(tot, mean).Int(nil)
		evals++
		if cd.Cmp(conv.CubicDiscount(tot, mean)) != 0 {
			add("cubic-discount-differs-from-formula", "total", tot, "mean", mean, "have", cd, "want", conv.CubicDiscount(tot, mean))
		}
		if cd.Cmp(tot) > 0 || cd.Sign() < 0 {
			add("cubic-discount-increases-or-negative", "total", tot, "mean", mean, "have", cd)
		}
		if len(samples) < 4 && i%977 == 3 {
			samples = append(samples, map[string]interface{}{"x": x.String(), "quaiReward": rate.QuaiPerBlock.String(), "qiReward": rate.QiPerBlock.String(),
				"QuaiToQi": q2i.String(), "back": back1.String(), "value": v.String(), "n_outputs": cnt})
		}
		_ = params.Ether
	}
	b, _ := json.Marshal(map[string]interface{}{"evaluations": evals, "distinct_nontrivial": nontrivial, "shape_classes": len(distinct), "problems": problems, "samples": samples})
	fmt.Println(string(b))
}
