package main

import (
	"fmt"
	"math/big"
	"os"

	"github.com/dominant-strategies/go-quai/common"
	"github.com/dominant-strategies/go-quai/core/rawdb"
	"github.com/dominant-strategies/go-quai/core/types"
	"github.com/dominant-strategies/go-quai/params"
	"verifharness/chain"
	"verifharness/conv"
	"verifharness/mininet"
	"verifharness/wallet"
)

func ether(n int64) *big.Int { return new(big.Int).Mul(big.NewInt(n), big.NewInt(params.Ether)) }

func dumpBlock(s *conv.Sim, id int) {
	b := s.Blocks[id]
	zb := s.ZoneBlock(id)
	fmt.Printf("== block %d h=%d order=%d txs=%d etxs(in)=%d outbound=%d primeTerminus=%d\n", id, b.Height, b.Order, len(zb.Transactions()), len(zb.Body().ExternalTransactions()), len(zb.OutboundEtxs()), zb.PrimeTerminusNumber().Uint64())
	for i, tx := range zb.Transactions() {
		if tx.Type() == types.ExternalTxType {
			fmt.Printf("   tx[%d] ETX type=%d val=%s gas=%d to=%x orig=%x:%d data=%x\n", i, tx.EtxType(), tx.Value(), tx.Gas(), tx.To().Bytes()[:4], tx.OriginatingTxHash().Bytes()[:4], tx.ETXIndex(), tx.Data())
		} else {
			fmt.Printf("   tx[%d] type=%d hash=%x\n", i, tx.Type(), tx.Hash().Bytes()[:4])
		}
	}
	for i, tx := range zb.OutboundEtxs() {
		fmt.Printf("   out[%d] ETX type=%d val=%s gas=%d to=%x orig=%x:%d data=%x\n", i, tx.EtxType(), tx.Value(), tx.Gas(), tx.To().Bytes()[:4], tx.OriginatingTxHash().Bytes()[:4], tx.ETXIndex(), tx.Data())
	}
	if b.Order == mininet.Prime {
		pb := b.M.Blocks[mininet.Prime]
		fmt.Printf("   PRIME #%d rate=%s kq=%s flow=%s minerDiff=%s\n", pb.NumberU64(common.PRIME_CTX), pb.ExchangeRate(), pb.KQuaiDiscount(), pb.ConversionFlowAmount(), pb.MinerDifficulty())
		for ctx := 0; ctx < 3; ctx++ {
			in := rawdb.ReadInboundEtxs(s.E.Net.DBs[ctx], b.Hash)
			for i, tx := range in {
				fmt.Printf("   inbound@%d[%d] type=%d val=%s gas=%d orig=%x:%d\n", ctx, i, tx.EtxType(), tx.Value(), tx.Gas(), tx.OriginatingTxHash().Bytes()[:4], tx.ETXIndex())
			}
		}
	}
}

func cmdProbe(args []string) {
	chain.FastParams()
	params.StartingConversionFlowAmount = ether(100)
	params.MinConversionFlowAmount = ether(10)
	params.ConversionSlipChangeBlock = 0
	params.MinerDifficultyWindow = 2
	e, err := chain.Boot(chain.EnvOptions{Net: mininet.Options{Quiet: true, MinerPreference: 0}, Seed: 1})
	if err != nil {
		fmt.Println("boot", err)
		os.Exit(3)
	}
	defer e.Net.Close()
	s := conv.NewSim(e)
	head := 0
	mine := func(order int) {
		id, err := s.MineOn(head, order)
		if err != nil {
			fmt.Println("mine:", err)
			os.Exit(3)
		}
		head = id
		dumpBlock(s, id)
	}
	pat := "zpTzp------p-----"
	if len(args) > 0 {
		pat = args[0]
	}
	nonce := uint64(0)
	for _, c := range pat {
		switch c {
		case 'z':
			mine(mininet.Zone)
		case 'r':
			mine(mininet.Region)
		case 'p':
			mine(mininet.Prime)
		case '-':
			mine(-1)
		case 'T':
			gp := big.NewInt(2 * params.GWei)
			if ph, err := e.Net.Pending(); err == nil && ph.BaseFee() != nil {
				gp = new(big.Int).Mul(ph.BaseFee(), big.NewInt(2))
			}
			for i, data := range [][]byte{nil, {0, 30}, {0x01, 0xf4}, {0x23, 0x28}} {
				to := e.Qi[i%len(e.Qi)].Addr
				tx, err := wallet.QuaiTx(e.Signer, e.ChainID, e.Quai[1], nonce, &to, ether(int64(20+i)), 400000, gp, data)
				nonce++
				if err != nil {
					fmt.Println(err)
				}
				if err := e.AddTx(tx); err != nil {
					fmt.Println("addtx", i, err)
				}
			}
		}
		sc, _ := chain.ScanState(e.Net.DBs[mininet.Zone], mininet.ZoneLoc)
		tot := map[string]*big.Int{}
		for _, u := range sc.Utxos {
			k := fmt.Sprintf("%x/lock%d", u.Addr[:4], u.Lock)
			if tot[k] == nil {
				tot[k] = new(big.Int)
			}
			tot[k].Add(tot[k], types.Denominations[u.Denom])
		}
		if len(tot) > 0 {
			fmt.Println("   utxo totals:", tot)
		}
	}
}
