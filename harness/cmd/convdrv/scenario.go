package main

// Scenario engine of convdrv: real conversions of both directions on the in-process network, a full
// per-block accounting of every tracked Quai account and Qi address (every balance change / created
// or deleted output must be explained by an event the independent oracle expects), and the event log
// that spec/ConversionTrace.tla validates.

import (
	"bytes"
	"encoding/binary"
	"fmt"
	"math/big"
	"math/rand"
	"sort"
	"strings"
	"time"

	"github.com/dominant-strategies/go-quai/common"
	"github.com/dominant-strategies/go-quai/core/rawdb"
	"github.com/dominant-strategies/go-quai/core/types"
	"github.com/dominant-strategies/go-quai/crypto"
	"github.com/dominant-strategies/go-quai/params"
	"verifharness/chain"
	"verifharness/conv"
	"verifharness/mininet"
	"verifharness/wallet"
)

type Problem struct {
	Kind string                 `json:"kind"`
	Info map[string]interface{} `json:"info"`
}

// Conv is one conversion followed from the origin to its outcome.
type Conv struct {
	ID      int
	Dir     string // "q2i" | "i2q"
	Via     string // "transfer" | "opcode" | "qitx"
	Amount  *big.Int
	Slip    int // -1 unspecified
	AmtCls  string
	GasCls  string
	Sender  common.Address // Quai account debited / Qi owner
	To      common.Address
	Refund  common.Address // i2q: Qi address named in the data field
	TxHash  common.Hash
	TxValue *big.Int // q2i: value carried by the user's transaction
	GasPrice *big.Int
	Inputs  []chain.Utxo // i2q: consumed outputs
	Change  []types.TxOut

	State   string // submitted, emitted, confirmed, executed, done
	EtxIdx  uint16
	EtxGas  uint64
	EmitH   uint64
	PrimeID int // abstract block id of the confirming prime block
	Oracle  *conv.ConvOut
	ObsType uint64
	ObsVal  *big.Int
	DestH   uint64
	EtxHash common.Hash
	Outcome string // minted | lockedquai | refunded
	Credit  *big.Int
	CreditH uint64
	Lock    uint64
	NOut    int
	ExpMint *big.Int
	NewAcct bool
	Want    string
}

type quaiExpect struct {
	delta *big.Int
	why   []string
}

type Engine struct {
	S        *conv.Sim
	E        *chain.Env
	R        *rand.Rand
	Convs    []*Conv
	byTx     map[common.Hash]*Conv
	Events   []map[string]interface{}
	Problems []Problem
	Head     int
	SwapArgs bool

	trackedQuai map[common.Address]string // address -> name
	balances    map[common.Address]*big.Int
	trackedQi   map[string]string // address bytes -> name
	utxos       map[string]chain.Utxo
	sched       map[uint64][]*Conv // height -> i2q conversions credited by the redemption of that height
	Converter   common.Address
	nonces      map[common.Address]uint64
	senders     []wallet.Key
	recipients  []wallet.Key
	qiKeys      []wallet.Key
	freshCount  uint64
	creditWrong map[int]bool
	exists      map[common.Address]bool // existence of tracked Quai accounts after the previous block
	qiRefunds   []*Conv                 // reverted Qi->Quai conversions executed in the block being observed
	Stats       map[string]int
	Verbose     bool
	buffering   bool
	buf         []map[string]interface{}
	credited    []map[string]interface{} // credits observed in the block being observed
}

func (g *Engine) problem(kind string, kv ...interface{}) {
	m := map[string]interface{}{}
	for i := 0; i+1 < len(kv); i += 2 {
		m[kv[i].(string)] = fmt.Sprint(kv[i+1])
	}
	g.Problems = append(g.Problems, Problem{kind, m})
}

func (g *Engine) ev(op string, kv ...interface{}) {
	m := map[string]interface{}{"op": op}
	for i := 0; i+1 < len(kv); i += 2 {
		m[kv[i].(string)] = kv[i+1]
	}
	if g.buffering {
		g.buf = append(g.buf, m)
		return
	}
	g.Events = append(g.Events, m)
}

func fatalf(f string, a ...interface{}) {
	panic(driverError(fmt.Sprintf(f, a...)))
}

type driverError string

func (g *Engine) gasPrice() *big.Int {
	ph, err := g.E.Net.Pending()
	if err != nil || ph.BaseFee() == nil {
		return big.NewInt(params.GWei)
	}
	return new(big.Int).Mul(ph.BaseFee(), big.NewInt(2))
}

func (g *Engine) stateBalance(a common.Address) *big.Int {
	st, err := g.E.Net.ZoneCore().Processor().State()
	if err != nil {
		fatalf("state: %v", err)
	}
	ia, err := a.InternalAddress()
	if err != nil {
		fatalf("internal address: %v", err)
	}
	return new(big.Int).Set(st.GetBalance(ia))
}

func (g *Engine) stateExists(a common.Address) bool {
	st, err := g.E.Net.ZoneCore().Processor().State()
	if err != nil {
		fatalf("state: %v", err)
	}
	ia, _ := a.InternalAddress()
	return st.Exist(ia)
}

func (g *Engine) nextNonce(k wallet.Key) uint64 {
	if _, ok := g.nonces[k.Addr]; !ok {
		st, _ := g.E.Net.ZoneCore().Processor().State()
		ia, _ := k.Addr.InternalAddress()
		g.nonces[k.Addr] = st.GetNonce(ia)
	}
	n := g.nonces[k.Addr]
	g.nonces[k.Addr] = n + 1
	return n
}

func (g *Engine) trackQuai(a common.Address, name string) {
	if _, ok := g.trackedQuai[a]; !ok {
		g.trackedQuai[a] = name
		g.balances[a] = g.stateBalance(a)
		g.exists[a] = g.stateExists(a)
	}
}

func (g *Engine) trackQi(a common.Address, name string) { g.trackedQi[string(a.Bytes())] = name }

// mine one block and run the per-block accounting
func (g *Engine) mine(order int) int {
	id, err := g.S.MineOn(g.Head, order)
	if err != nil {
		g.problem("own-block-rejected", "err", err, "parent", g.Head)
		fatalf("mine: %v", err)
	}
	g.Head = id
	g.nonces = map[common.Address]uint64{}
	g.observe(id)
	return id
}

func convKey(h common.Hash, idx uint16) string { return fmt.Sprintf("%x:%d", h[:], idx) }

// observe: explain everything block `id` did to the tracked accounts / addresses.
func (g *Engine) observe(id int) {
	b := g.S.Blocks[id]
	zb := g.S.ZoneBlock(id)
	h := b.Height
	receipts := g.E.Net.ZoneCore().GetReceiptsByHash(b.Hash)
	txs := zb.Transactions()
	if len(receipts) != len(txs) {
		fatalf("block %d: %d receipts for %d transactions", id, len(receipts), len(txs))
	}
	expQuai := map[common.Address]*quaiExpect{}
	addQ := func(a common.Address, d *big.Int, why string) {
		e := expQuai[a]
		if e == nil {
			e = &quaiExpect{delta: new(big.Int)}
			expQuai[a] = e
		}
		e.delta.Add(e.delta, d)
		e.why = append(e.why, why)
	}
	expCreated := map[string]string{} // utxo key -> why (outputs the oracle expects this block to create)
	expDeleted := map[string]string{}
	g.buffering, g.buf, g.credited = true, nil, []map[string]interface{}{}
	g.qiRefunds = nil

	// 1. redemption of conversions executed LockPeriod blocks ago (runs before the transactions)
	for _, c := range g.sched[h] {
		val := new(big.Int).Set(c.ObsVal)
		credit := val
		if !g.exists[c.To] {
			c.NewAcct = true
			parent := g.S.ZoneBlock(b.Parent)
			fee := conv.NewAccountFee(parent.QuaiStateSize())
			if val.Cmp(fee) >= 0 {
				credit = new(big.Int).Sub(val, fee)
				g.exists[c.To] = true
			} else {
				credit = new(big.Int)
				g.Stats["credit_below_account_fee"]++
			}
			g.Stats["credit_to_new_account"]++
		}
		addQ(c.To, credit, fmt.Sprintf("redeem conv %d", c.ID))
		c.Credit, c.CreditH, c.State = credit, h, "done"
	}

	// 2. transactions of the block in order
	for i, tx := range txs {
		rc := receipts[i]
		switch tx.Type() {
		case types.QuaiTxType:
			c := g.byTx[tx.Hash()]
			if c == nil {
				continue // deployments / funding: sender accounts of those are synced below
			}
			fee := new(big.Int).Mul(new(big.Int).SetUint64(rc.GasUsed), tx.GasPrice())
			debit := new(big.Int).Add(tx.Value(), fee)
			ok := rc.Status == types.ReceiptStatusSuccessful
			if !ok {
				// a refused conversion costs only the fee
				addQ(c.Sender, new(big.Int).Neg(fee), fmt.Sprintf("failed tx of conv %d", c.ID))
				c.State = "refused"
				g.Stats["refused_at_origin"]++
				if c.Want != "" {
					g.Stats["spec_predictions_compared"]++
					if c.Want != "refused" {
						g.problem("outcome-kind-differs-from-specification", "conv", c.ID, "want", c.Want, "have", "refused")
					}
				}
				g.ev("refused", "id", c.ID, "h", int(h))
				continue
			}
			addQ(c.Sender, new(big.Int).Neg(debit), fmt.Sprintf("debit conv %d", c.ID))
			// the ETX must be emitted with exactly the converted amount
			var etx *types.Transaction
			for _, o := range zb.OutboundEtxs() {
				if o.OriginatingTxHash() == tx.Hash() && o.EtxType() == types.ConversionType {
					if etx != nil {
						g.problem("conversion-emitted-twice", "conv", c.ID)
					}
					etx = o
				}
			}
			if etx == nil {
				g.problem("debited-without-etx", "conv", c.ID, "via", c.Via)
				c.State = "lost"
				continue
			}
			c.State, c.EtxIdx, c.EtxGas, c.EmitH = "emitted", etx.ETXIndex(), etx.Gas(), h
			if etx.Value().Cmp(c.Amount) != 0 {
				g.problem("etx-value-differs-from-debited-amount", "conv", c.ID, "etx", etx.Value(), "amount", c.Amount)
			}
			g.ev("debit", "id", c.ID, "dir", c.Dir, "via", c.Via, "slip", c.Slip, "h", int(h), "amt", 10000, "once", true)
		case types.QiTxType:
			c := g.byTx[tx.Hash()]
			if c == nil {
				continue
			}
			for _, in := range c.Inputs {
				expDeleted[in.Key()] = fmt.Sprintf("input of conv %d", c.ID)
			}
			for oi, o := range tx.TxOut() {
				a := common.BytesToAddress(o.Address, mininet.ZoneLoc)
				if a.IsInQiLedgerScope() {
					expCreated[fmt.Sprintf("%x:%d", tx.Hash().Bytes(), oi)] = fmt.Sprintf("change of conv %d", c.ID)
				}
			}
			var etx *types.Transaction
			for _, o := range zb.OutboundEtxs() {
				if o.OriginatingTxHash() == tx.Hash() && o.EtxType() == types.ConversionType {
					if etx != nil {
						g.problem("conversion-emitted-twice", "conv", c.ID)
					}
					etx = o
				}
			}
			if etx == nil {
				g.problem("debited-without-etx", "conv", c.ID, "via", c.Via)
				c.State = "lost"
				continue
			}
			c.State, c.EtxIdx, c.EtxGas, c.EmitH = "emitted", etx.ETXIndex(), etx.Gas(), h
			if etx.Value().Cmp(c.Amount) != 0 {
				g.problem("etx-value-differs-from-debited-amount", "conv", c.ID, "etx", etx.Value(), "amount", c.Amount)
			}
			g.ev("debit", "id", c.ID, "dir", c.Dir, "via", c.Via, "slip", c.Slip, "h", int(h), "amt", 10000, "once", true)
		case types.ExternalTxType:
			if tx.EtxType() != types.ConversionType && tx.EtxType() != types.ConversionRevertType {
				continue
			}
			c := g.byTx[tx.OriginatingTxHash()]
			if c == nil {
				continue
			}
			if c.State != "confirmed" {
				g.problem("conversion-executed-in-unexpected-state", "conv", c.ID, "state", c.State, "h", h)
				continue
			}
			c.State, c.DestH, c.EtxHash = "executed", h, tx.Hash()
			g.execute(c, tx, rc, h, addQ, expCreated)
		}
	}

	// 3. compare Quai balances
	addrs := make([]common.Address, 0, len(g.trackedQuai))
	for a := range g.trackedQuai {
		addrs = append(addrs, a)
	}
	sort.Slice(addrs, func(i, j int) bool { return bytes.Compare(addrs[i].Bytes(), addrs[j].Bytes()) < 0 })
	untracked := map[common.Address]bool{}
	for _, tx := range txs {
		if tx.Type() == types.QuaiTxType && g.byTx[tx.Hash()] == nil {
			if from, err := types.Sender(g.E.Signer, tx); err == nil {
				untracked[from] = true
			}
			if tx.To() != nil {
				untracked[*tx.To()] = true
			}
		}
	}
	for _, a := range addrs {
		now := g.stateBalance(a)
		if untracked[a] {
			g.balances[a] = now
			continue
		}
		want := new(big.Int).Set(g.balances[a])
		why := []string{}
		if e := expQuai[a]; e != nil {
			want.Add(want, e.delta)
			why = e.why
		}
		if now.Cmp(want) != 0 {
			diff := new(big.Int).Sub(now, want)
			kind := "quai-balance-unexplained"
			g.problem(kind, "account", g.trackedQuai[a], "h", h, "have_minus_expected", diff, "expected_events", why)
			g.classifyQuaiMismatch(a, h, diff)
		}
		g.balances[a] = now
		g.exists[a] = g.stateExists(a)
	}
	for a, e := range expQuai {
		if _, ok := g.trackedQuai[a]; !ok {
			fatalf("expectation for untracked account %x: %v", a.Bytes(), e.why)
		}
	}

	// 4. compare Qi outputs of tracked addresses
	st, err := chain.ScanState(g.E.Net.DBs[mininet.Zone], mininet.ZoneLoc)
	if err != nil {
		fatalf("scan: %v", err)
	}
	cur := map[string]chain.Utxo{}
	for k, u := range st.Utxos {
		if _, ok := g.trackedQi[string(u.Addr)]; ok {
			cur[k] = u
		}
	}
	refundSum := map[int]*big.Int{}
	for k, u := range cur {
		if _, ok := g.utxos[k]; !ok {
			attributed := false
			for _, c := range g.qiRefunds {
				if u.TxHash == c.EtxHash && bytes.Equal(u.Addr, c.Refund.Bytes()) {
					if refundSum[c.ID] == nil {
						refundSum[c.ID] = new(big.Int)
					}
					refundSum[c.ID].Add(refundSum[c.ID], big.NewInt(conv.Denoms[u.Denom]))
					if u.Lock != c.Lock {
						g.problem("qi-refund-lock-differs", "conv", c.ID, "lock", u.Lock, "want", c.Lock)
					}
					attributed = true
				}
			}
			if attributed {
				continue
			}
			if _, exp := expCreated[k]; !exp {
				g.problem("qi-output-unexplained", "owner", g.trackedQi[string(u.Addr)], "h", h, "key", k[:12], "denom", u.Denom, "lock", u.Lock)
			}
			delete(expCreated, k)
		}
	}
	for k, why := range expCreated {
		g.problem("qi-output-missing", "h", h, "key", k[:12], "why", why)
	}
	for k, u := range g.utxos {
		if _, ok := cur[k]; !ok {
			if _, exp := expDeleted[k]; !exp {
				g.problem("qi-output-vanished", "owner", g.trackedQi[string(u.Addr)], "h", h, "key", k[:12], "denom", u.Denom)
			}
			delete(expDeleted, k)
		}
	}
	for k, why := range expDeleted {
		g.problem("qi-input-not-consumed", "h", h, "key", k[:12], "why", why)
	}
	g.utxos = cur
	for _, c := range g.qiRefunds {
		sum := refundSum[c.ID]
		if sum == nil {
			sum = new(big.Int)
		}
		c.Credit, c.CreditH = sum, h
		if sum.Cmp(c.Amount) != 0 {
			_, gasLimited := conv.MintPlan(c.ObsVal, c.EtxGas, params.CallValueTransferGas, conv.MaxTrimDenom)
			_, noGas := conv.MintPlan(c.ObsVal, 1<<62, params.CallValueTransferGas, conv.MaxTrimDenom)
			class := "other"
			switch {
			case sum.Cmp(gasLimited) == 0 && gasLimited.Cmp(noGas) < 0:
				class = "etx-gas-exhausted"
			case sum.Cmp(noGas) == 0:
				class = "denominations-up-to-0.5-qi-dropped"
			}
			g.problem("qi-refund-differs-from-original", "conv", c.ID, "class", class, "refunded", sum, "original", c.Amount, "etx_gas", c.EtxGas, "amtcls", c.AmtCls, "gascls", c.GasCls)
		}
		g.ev("refund", "id", c.ID, "h", int(h), "amt", floorBP(sum, c.Amount), "lock", int(c.Lock))
	}

	// 5. events for the redemptions of this height (after the balance comparison established them)
	for _, c := range g.sched[h] {
		bp := 0
		if c.Oracle != nil && c.Oracle.Implied != nil && c.Oracle.Implied.Sign() > 0 {
			bp = ceilBP(c.Credit, c.Oracle.Implied)
		}
		g.credited = append(g.credited, map[string]interface{}{"id": c.ID, "credit": bp, "exact": !g.creditWrong[c.ID]})
	}
	g.buffering = false
	g.Events = append(g.Events, map[string]interface{}{"op": "tick", "h": int(h), "credited": g.credited})
	g.Events = append(g.Events, g.buf...)
	g.buf = nil

	// 6. a prime block confirms the conversions emitted before the previous region block
	if b.Order == mininet.Prime {
		g.confirm(id)
	}
}

func ceilBP(x, of *big.Int) int {
	if of.Sign() == 0 {
		return 0
	}
	n := new(big.Int).Mul(x, big.NewInt(10000))
	q, r := new(big.Int).QuoRem(n, of, new(big.Int))
	if r.Sign() > 0 {
		q.Add(q, big.NewInt(1))
	}
	if !q.IsInt64() || q.Int64() > 1000000 {
		return 1000000
	}
	return int(q.Int64())
}

func floorBP(x, of *big.Int) int {
	if of.Sign() == 0 {
		return 0
	}
	n := new(big.Int).Mul(x, big.NewInt(10000))
	q := n.Quo(n, of)
	if !q.IsInt64() || q.Int64() > 1000000 {
		return 1000000
	}
	return int(q.Int64())
}

// classifyQuaiMismatch attributes an unexplained balance change to a conversion if it can.
func (g *Engine) classifyQuaiMismatch(a common.Address, h uint64, diff *big.Int) {
	for _, c := range g.Convs {
		if c.Dir == "i2q" && c.To == a && c.ObsVal != nil && c.State != "done" && c.DestH != 0 {
			if diff.Cmp(c.ObsVal) == 0 && h < c.DestH+params.ConversionLockPeriod {
				g.problem("credit-before-lock", "conv", c.ID, "h", h, "unlock", c.DestH+params.ConversionLockPeriod)
				g.credited = append(g.credited, map[string]interface{}{"id": c.ID, "credit": ceilBP(diff, c.Oracle.Implied), "exact": false})
			}
		}
		if c.Dir == "i2q" && c.To == a && c.CreditH == h && diff.Sign() != 0 {
			g.problem("credit-amount-differs", "conv", c.ID, "h", h, "have_minus_expected", diff)
			g.creditWrong[c.ID] = true
		}
	}
}

// execute: the destination zone block includes the (repriced or reverted) conversion ETX.
func (g *Engine) execute(c *Conv, tx *types.Transaction, rc *types.Receipt, h uint64, addQ func(common.Address, *big.Int, string), expCreated map[string]string) {
	lock := h + params.ConversionLockPeriod
	if tx.EtxType() != c.ObsType || tx.Value().Cmp(c.ObsVal) != 0 {
		g.problem("executed-etx-differs-from-confirmed", "conv", c.ID, "type", tx.EtxType(), "value", tx.Value())
	}
	implied := big.NewInt(1)
	if c.Oracle != nil && c.Oracle.Implied != nil {
		implied = c.Oracle.Implied
	}
	switch {
	case tx.EtxType() == types.ConversionType && c.Dir == "q2i":
		// denominations while the ETX gas lasts, locked for the conversion lock period
		if tx.Gas() < params.TxGas {
			c.Outcome, c.Credit = "minted", new(big.Int)
			g.ev("mint", "id", c.ID, "h", int(h), "sum", 0, "lock", int(lock), "all", false, "dust_ok", true)
			return
		}
		plan, sum := conv.MintPlan(tx.Value(), tx.Gas()-params.TxGas, params.CallValueTransferGas, -1)
		n := 0
		idx := uint16(0)
		for d := len(conv.Denoms) - 1; d >= 0; d-- {
			for j := uint64(0); j < plan[uint8(d)]; j++ {
				expCreated[fmt.Sprintf("%x:%d", tx.Hash().Bytes(), idx)] = fmt.Sprintf("mint of conv %d denom %d lock %d", c.ID, d, lock)
				idx++
				n++
			}
		}
		c.Outcome, c.Credit, c.Lock, c.NOut, c.State = "minted", sum, lock, n, "done"
		c.CreditH = h
		all := sum.Cmp(tx.Value()) == 0
		g.Stats["minted"]++
		if !all {
			g.Stats["minted_truncated_by_gas"]++
		}
		g.ev("mint", "id", c.ID, "h", int(h), "sum", ceilBP(sum, implied), "lock", int(lock), "all", all, "dust_ok", sum.Cmp(tx.Value()) <= 0)
	case tx.EtxType() == types.ConversionType && c.Dir == "i2q":
		c.Outcome = "lockedquai"
		g.sched[lock] = append(g.sched[lock], c)
		g.Stats["lockedquai"]++
		g.ev("lockquai", "id", c.ID, "h", int(h), "unlock", int(lock))
	case tx.EtxType() == types.ConversionRevertType && c.Dir == "q2i":
		addQ(c.Sender, tx.Value(), fmt.Sprintf("refund conv %d", c.ID))
		c.Outcome, c.Credit, c.CreditH, c.State = "refunded", new(big.Int).Set(tx.Value()), h, "done"
		g.Stats["refunded_quai"]++
		g.ev("refund", "id", c.ID, "h", int(h), "amt", ceilBP(tx.Value(), c.Amount), "lock", int(h))
	case tx.EtxType() == types.ConversionRevertType && c.Dir == "i2q":
		// PROPERTY: the original amount comes back on the Qi ledger.  The outputs actually created are
		// attributed below (any output whose transaction hash is the ETX hash and whose owner is the
		// refund address); their sum is judged against the original.
		c.Outcome, c.State = "refunded", "done"
		c.Lock = lock
		g.qiRefunds = append(g.qiRefunds, c)
		g.Stats["refunded_qi"]++
	}
}

// confirm: prime block `id` has repriced the conversions it confirmed; compare with the oracle.
func (g *Engine) confirm(id int) {
	b := g.S.Blocks[id]
	pb := b.M.Blocks[mininet.Prime]
	orig := rawdb.ReadInboundEtxs(g.E.Net.DBs[mininet.Prime], b.Hash)
	after := rawdb.ReadInboundEtxs(g.E.Net.DBs[mininet.Zone], b.Hash)
	pnum := pb.NumberU64(common.PRIME_CTX)
	var in []conv.ConvIn
	var ids []string
	for _, e := range orig {
		if e.EtxType() != types.ConversionType {
			continue
		}
		slip := -1
		if len(e.Data()) > 1 {
			slip = int(binary.BigEndian.Uint16(e.Data()[:2]))
		}
		in = append(in, conv.ConvIn{ToQi: e.To().IsInQiLedgerScope(), Value: new(big.Int).Set(e.Value()), Slip: slip})
		ids = append(ids, convKey(e.OriginatingTxHash(), e.ETXIndex()))
	}
	if len(in) == 0 {
		return
	}
	if pnum <= params.ControllerKickInBlock {
		return
	}
	cur, err := conv.NewRate(pb.WorkObjectHeader().NumberU64(), pb.PrimeTerminusNumber().Uint64(), pb.MinerDifficulty(), pb.ExchangeRate())
	if err != nil {
		fatalf("oracle: %v", err)
	}
	// protocol rule: the exchange rate stays at the configured value until TokenChoiceSetSize prime
	// blocks after the controller kick-in
	if pnum >= params.ControllerKickInBlock+params.TokenChoiceSetSize {
		fatalf("oracle does not transcribe the exchange-rate controller beyond its warm-up window")
	}
	newXR := new(big.Int).Set(params.ExchangeRate)
	nw, _ := conv.NewRate(pb.WorkObjectHeader().NumberU64(), pb.PrimeTerminusNumber().Uint64(), pb.MinerDifficulty(), newXR)
	increasing := false
	if pnum > params.MinerDifficultyWindow {
		prev := g.E.Net.PrimeCore().GetBlockByNumber(pnum - params.MinerDifficultyWindow)
		if prev == nil {
			fatalf("prime block %d not found", pnum-params.MinerDifficultyWindow)
		}
		increasing = pb.ExchangeRate().Cmp(prev.ExchangeRate()) > 0
	}
	swap := !(pnum > params.ConversionSlipChangeBlock)
	outs, total, _ := conv.Reprice(in, cur, nw, pb.ConversionFlowAmount(), pb.KQuaiDiscount(), increasing, swap)
	obs := map[string]*types.Transaction{}
	for _, e := range after {
		if e.EtxType() == types.ConversionType || e.EtxType() == types.ConversionRevertType {
			k := convKey(e.OriginatingTxHash(), e.ETXIndex())
			if obs[k] != nil {
				g.problem("conversion-delivered-twice", "key", k[:12])
			}
			obs[k] = e
		}
	}
	g.Stats["prime_blocks_with_conversions"]++
	var idsEv []int
	outcome := []map[string]interface{}{}
	for i, k := range ids {
		o := outs[i]
		e := obs[k]
		var c *Conv
		for _, x := range g.Convs {
			if x.State == "emitted" && convKey(x.TxHash, x.EtxIdx) == k {
				c = x
			}
		}
		if e == nil {
			g.problem("conversion-lost-at-prime", "key", k[:12])
			continue
		}
		revert := e.EtxType() == types.ConversionRevertType
		dir := "i2q"
		if in[i].ToQi {
			dir = "q2i"
		}
		regime := "postfork"
		if swap {
			regime = "prefork"
		}
		sig := []interface{}{"regime", regime, "dir", dir, "prime", pnum, "kq", pb.KQuaiDiscount(), "increasing", increasing, "slip", in[i].Slip, "orig", in[i].Value, "flow", pb.ConversionFlowAmount(), "total", total}
		if c != nil {
			sig = append(sig, "conv", c.ID, "via", c.Via, "amtcls", c.AmtCls)
		}
		oracleEq := revert == o.Revert && e.Value().Cmp(o.Value) == 0
		if revert != o.Revert {
			g.problem("revert-decision-differs-from-protocol-rule", append(sig, "have_revert", revert, "want_revert", o.Revert, "first_pass", o.FirstPre, "slip_min", o.SlipMin)...)
		} else if e.Value().Cmp(o.Value) != 0 {
			if revert {
				g.problem("refund-is-not-the-original-amount", append(sig, "have", e.Value(), "want", o.Value)...)
			} else {
				g.problem("repriced-value-differs-from-protocol-formula", append(sig, "have", e.Value(), "want", o.Value, "pre", o.Pre)...)
			}
		}
		// bounds of the property itself (independent of the exact formula)
		leImplied, geFloor, slipOK := true, true, true
		valBP, floorBPv := 0, 0
		if !revert {
			var implied, floorDest *big.Int
			tenth := new(big.Int).Div(new(big.Int).Mul(in[i].Value, big.NewInt(10)), big.NewInt(100))
			if in[i].ToQi {
				implied, floorDest = nw.QuaiToQi(in[i].Value), nw.QuaiToQi(tenth)
			} else {
				implied, floorDest = nw.QiToQuai(in[i].Value), nw.QiToQuai(tenth)
			}
			leImplied = e.Value().Cmp(implied) <= 0
			geFloor = e.Value().Cmp(floorDest) >= 0
			if !leImplied {
				g.problem("credit-exceeds-rate-implied-amount", append(sig, "have", e.Value(), "implied", implied)...)
			}
			if !geFloor {
				g.problem("credit-below-protocol-floor", append(sig, "have", e.Value(), "floor", floorDest)...)
			}
			if o.Pre != nil && o.SlipMin != nil && !o.Revert && o.Pre.Cmp(o.SlipMin) < 0 {
				slipOK = false
				g.Stats["slip_bound_exceeded_but_credited"]++
			}
			valBP, floorBPv = ceilBP(e.Value(), implied), floorBP(floorDest, implied)
			if o.FloorPre != nil && o.Pre != nil && o.Pre.Cmp(o.FloorPre) == 0 {
				g.Stats["floor_applied"]++
			}
		} else {
			valBP = ceilBP(e.Value(), in[i].Value)
			g.Stats["reverted"]++
		}
		if c != nil {
			oc := o
			c.State, c.PrimeID, c.Oracle, c.ObsType, c.ObsVal = "confirmed", id, &oc, uint64(e.EtxType()), new(big.Int).Set(e.Value())
			if c.Oracle.Implied == nil {
				c.Oracle.Implied = new(big.Int).Set(in[i].Value)
			}
			idsEv = append(idsEv, c.ID)
			kind := "priced"
			if revert {
				kind = "revert"
			}
			if c.Want != "" {
				g.Stats["spec_predictions_compared"]++
				if c.Want != kind {
					g.problem("outcome-kind-differs-from-specification", append(sig, "want", c.Want, "have", kind)...)
				}
			}
			outcome = append(outcome, map[string]interface{}{"id": c.ID, "kind": kind, "val": valBP, "floor": floorBPv, "oracle_eq": oracleEq, "le_implied": leImplied, "ge_floor": geFloor, "slip_ok": slipOK})
		}
	}
	g.ev("reprice", "h", int(b.Height), "prime", int(pnum), "ids", idsEv, "out", outcome, "kq", int(pb.KQuaiDiscount().Int64()), "inc", increasing)
}

// ---------------------------------------------------------------- submission

// addTx hands a transaction to the pool; the pool follows the chain head asynchronously, so a
// submission right after a new block may still be judged against the previous state: retry briefly.
func (g *Engine) addTx(tx *types.Transaction) error {
	var err error
	for dl := time.Now().Add(3 * time.Second); time.Now().Before(dl); time.Sleep(5 * time.Millisecond) {
		err = g.E.AddTx(tx)
		if err == nil || !(strings.Contains(err.Error(), "insufficient funds") || strings.Contains(err.Error(), "nonce")) {
			return err
		}
	}
	return err
}

// pendingTxRoot: transaction root of the pending block after a synchronous refill from the pool.
func (g *Engine) pendingTxRoot() common.Hash {
	if err := g.E.Net.Refill(); err != nil {
		fatalf("refill: %v", err)
	}
	ph, err := g.E.Net.Pending()
	if err != nil {
		fatalf("pending: %v", err)
	}
	// the pending header carries the body's commitments: any of them changes when a transaction joins
	return types.RlpHash([]interface{}{ph.TxHash(), ph.WorkObjectHeader().HeaderHash(), ph.GasUsed(), ph.EVMRoot(), ph.UTXORoot(), ph.OutboundEtxHash()})
}

// forget drops a conversion that the worker refused to include.
func (g *Engine) forget(c *Conv) {
	delete(g.byTx, c.TxHash)
	g.Convs = g.Convs[:len(g.Convs)-1]
	g.Events = g.Events[:len(g.Events)-1]
	h := c.TxHash
	g.E.Net.ZoneCore().TxPool().RemoveQiTxs([]*common.Hash{&h})
}

func slipData(slip int) []byte {
	if slip < 0 {
		return nil
	}
	return []byte{byte(slip >> 8), byte(slip)}
}

func (g *Engine) submitTransfer(from wallet.Key, to common.Address, amount *big.Int, slip int, gas uint64, amtCls, gasCls string) *Conv {
	gp := g.gasPrice()
	tx, err := wallet.QuaiTx(g.E.Signer, g.E.ChainID, from, g.nextNonce(from), &to, amount, gas, gp, slipData(slip))
	if err != nil {
		fatalf("sign: %v", err)
	}
	if err := g.addTx(tx); err != nil {
		fatalf("pool rejected conversion transfer: %v", err)
	}
	c := &Conv{ID: len(g.Convs) + 1, Dir: "q2i", Via: "transfer", Amount: new(big.Int).Set(amount), Slip: slip, Sender: from.Addr, To: to, TxHash: tx.Hash(), TxValue: amount, GasPrice: gp, State: "submitted", AmtCls: amtCls, GasCls: gasCls}
	g.Convs = append(g.Convs, c)
	g.byTx[tx.Hash()] = c
	g.trackQuai(from.Addr, "sender")
	g.trackQi(to, "qi-recipient")
	g.ev("submit", "id", c.ID, "dir", c.Dir, "via", c.Via, "slip", slip, "amtcls", amtCls, "gascls", gasCls)
	return c
}

// submitOpcode: the converter contract executes CONVERT(to, amount, etxGas) with the value sent along.
func (g *Engine) submitOpcode(from wallet.Key, to common.Address, amount *big.Int, etxGas uint64, amtCls string) *Conv {
	gp := g.gasPrice()
	fee := new(big.Int).Mul(gp, new(big.Int).SetUint64(etxGas))
	val := new(big.Int).Add(amount, fee)
	data := make([]byte, 96)
	copy(data[12:32], to.Bytes())
	amount.FillBytes(data[32:64])
	new(big.Int).SetUint64(etxGas).FillBytes(data[64:96])
	conv_ := g.Converter
	tx, err := wallet.QuaiTx(g.E.Signer, g.E.ChainID, from, g.nextNonce(from), &conv_, val, 200000, gp, data)
	if err != nil {
		fatalf("sign: %v", err)
	}
	if err := g.addTx(tx); err != nil {
		fatalf("pool rejected converter call: %v", err)
	}
	c := &Conv{ID: len(g.Convs) + 1, Dir: "q2i", Via: "opcode", Amount: new(big.Int).Set(amount), Slip: -1, Sender: from.Addr, To: to, TxHash: tx.Hash(), TxValue: val, GasPrice: gp, State: "submitted", AmtCls: amtCls, GasCls: "opcode"}
	g.Convs = append(g.Convs, c)
	g.byTx[tx.Hash()] = c
	g.trackQuai(from.Addr, "sender")
	g.trackQuai(g.Converter, "converter-contract")
	g.trackQi(to, "qi-recipient")
	g.ev("submit", "id", c.ID, "dir", c.Dir, "via", c.Via, "slip", -1, "amtcls", amtCls, "gascls", "opcode")
	return c
}

// submitQi: Qi -> Quai conversion: outputs of denominations `denoms` to the own-zone Quai address `to`,
// data = slip (2 bytes) ++ refund address; fee = `fee` qits; the rest returns as change to `change`.
func (g *Engine) submitQi(owner wallet.Key, ins []chain.Utxo, denoms []uint8, to common.Address, slip int, refund common.Address, change wallet.Key, feeQits int64, amtCls, gasCls string) (*Conv, error) {
	var wins []wallet.In
	total := new(big.Int)
	for _, u := range ins {
		wins = append(wins, wallet.In{Out: types.OutPoint{TxHash: u.TxHash, Index: u.Index}, Key: owner})
		total.Add(total, big.NewInt(conv.Denoms[u.Denom]))
	}
	amount := new(big.Int)
	var outs []types.TxOut
	for _, d := range denoms {
		outs = append(outs, types.TxOut{Denomination: d, Address: to.Bytes()})
		amount.Add(amount, big.NewInt(conv.Denoms[d]))
	}
	rest := new(big.Int).Sub(total, amount)
	rest.Sub(rest, big.NewInt(feeQits))
	if rest.Sign() < 0 {
		return nil, fmt.Errorf("inputs too small")
	}
	if gasCls == "tight" {
		rest = new(big.Int) // exact-fee mode: the caller chose the outputs so that inputs - outputs is the fee
	}
	// change: one output per greedy denomination would need distinct addresses; use a single change
	// output of the largest denomination that fits and leave the remainder as additional fee
	var changeOuts []types.TxOut
	for d := len(conv.Denoms) - 1; d >= 0; d-- {
		if big.NewInt(conv.Denoms[d]).Cmp(rest) <= 0 {
			changeOuts = append(changeOuts, types.TxOut{Denomination: uint8(d), Address: change.Addr.Bytes()})
			break
		}
	}
	outs = append(outs, changeOuts...)
	s := slip
	if s < 0 {
		s = 0xffff // the data field is mandatory for this direction; 0xffff is clamped to the maximum
	}
	data := append([]byte{byte(s >> 8), byte(s)}, refund.Bytes()...)
	tx, err := wallet.QiTx(g.E.Signer, g.E.ChainID, wins, outs, data, nil)
	if err != nil {
		return nil, err
	}
	if err := g.E.AddTx(tx); err != nil {
		return nil, err
	}
	c := &Conv{ID: len(g.Convs) + 1, Dir: "i2q", Via: "qitx", Amount: amount, Slip: s, Sender: owner.Addr, To: to, Refund: refund, TxHash: tx.Hash(), Inputs: ins, Change: changeOuts, State: "submitted", AmtCls: amtCls, GasCls: gasCls}
	g.Convs = append(g.Convs, c)
	g.byTx[tx.Hash()] = c
	g.trackQi(owner.Addr, "qi-owner")
	g.trackQi(refund, "qi-refund")
	g.trackQi(change.Addr, "qi-change")
	g.trackQuai(to, "quai-recipient")
	g.ev("submit", "id", c.ID, "dir", c.Dir, "via", c.Via, "slip", s, "amtcls", amtCls, "gascls", gasCls)
	return c, nil
}

// deployConverter deploys the CONVERT wrapper (hand-assembled):
//   runtime: PUSH1 0x40 CALLDATALOAD  PUSH1 0x20 CALLDATALOAD  PUSH1 0 CALLDATALOAD  GAS  CONVERT
//            PUSH1 0x12 JUMPI  PUSH1 0 DUP1 REVERT  JUMPDEST STOP        (reverts when CONVERT reports failure)
func (g *Engine) deployConverter(from wallet.Key) {
	runtime := []byte{0x60, 0x40, 0x35, 0x60, 0x20, 0x35, 0x60, 0x00, 0x35, 0x5a, 0xf8, 0x60, 0x12, 0x57, 0x60, 0x00, 0x80, 0xfd, 0x5b, 0x00}
	init := []byte{0x60, byte(len(runtime)), 0x80, 0x60, 0x0b, 0x60, 0x00, 0x39, 0x60, 0x00, 0xf3}
	code := append(init, runtime...)
	nonce := g.nextNonce(from)
	var addr common.Address
	for salt := uint32(0); ; salt++ {
		c := append(append([]byte{}, code...), byte(salt>>16), byte(salt>>8), byte(salt))
		addr = crypto.CreateAddress(from.Addr, nonce, c, mininet.ZoneLoc)
		if _, err := addr.InternalAndQuaiAddress(); err == nil {
			code = c
			break
		}
	}
	tx, err := conv.QuaiTxAL(g.E.Signer, g.E.ChainID, from, nonce, nil, big.NewInt(0), 400000, g.gasPrice(), code, []common.Address{addr})
	if err != nil {
		fatalf("sign: %v", err)
	}
	if err := g.addTx(tx); err != nil {
		fatalf("deploy converter: %v", err)
	}
	g.Converter = addr
}
