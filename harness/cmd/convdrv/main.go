// convdrv — C20: real Quai<->Qi conversions on the in-process prime/region/zone network, judged by an
// independent math/big oracle (harness/conv) and logged for spec/ConversionTrace.tla.
//
//   convdrv random -seed N -rounds R -out trace.ndjson [-prefork] [-shapes file]   chain scenarios
//   convdrv pure   -seed N -n K                                                     unit-conversion helpers
//   convdrv probe  <pattern>                                                        debugging aid
package main

import (
	"bufio"
	"encoding/json"
	"flag"
	"fmt"
	"math/big"
	"math/rand"
	"os"
	"time"

	"github.com/dominant-strategies/go-quai/common"
	"github.com/dominant-strategies/go-quai/params"
	"verifharness/chain"
	"verifharness/conv"
	"verifharness/mininet"
	"verifharness/wallet"
)

// Item is one conversion of a batch (a batch = the conversions confirmed by one prime block).
type Item struct {
	Dir  string `json:"dir"`  // q2i | i2q
	Via  string `json:"via"`  // transfer | opcode | qitx
	Amt  string `json:"amt"`  // min | dust | typical | big | huge
	Slip int    `json:"slip"` // basis points, -1 unspecified
	Gas  string `json:"gas"`  // ample | tight
	Units int   `json:"units,omitempty"` // replay: amount in percent of the flow average (overrides the class)
	Want string `json:"want,omitempty"` // replay: outcome kind the specification predicts ("" = not compared)
}

func setParams(prefork bool) {
	chain.FastParams()
	params.StartingConversionFlowAmount = ether(200)
	params.MinConversionFlowAmount = ether(50)
	params.MinerDifficultyWindow = 2
	if prefork {
		params.ConversionSlipChangeBlock = 1 << 40
	} else {
		params.ConversionSlipChangeBlock = 0
	}
}

func (g *Engine) pendingFlow() *big.Int {
	ph, err := g.E.Net.Pending()
	if err != nil || ph.ConversionFlowAmount() == nil || ph.ConversionFlowAmount().Sign() == 0 {
		return new(big.Int).Set(params.StartingConversionFlowAmount)
	}
	return new(big.Int).Set(ph.ConversionFlowAmount())
}

func (g *Engine) quaiAmount(cls string, flow *big.Int) *big.Int {
	pct := func(p int64) *big.Int { x := new(big.Int).Mul(flow, big.NewInt(p)); return x.Div(x, big.NewInt(100)) }
	var a *big.Int
	switch cls {
	case "belowmin":
		return new(big.Int).Sub(params.MinQuaiConversionAmount, big.NewInt(1+g.R.Int63n(1000)))
	case "min":
		a = new(big.Int).Set(params.MinQuaiConversionAmount)
	case "dust":
		a = new(big.Int).Add(params.MinQuaiConversionAmount, big.NewInt(1+g.R.Int63n(999999999)))
	case "typical":
		a = pct(5 + g.R.Int63n(40))
	case "big":
		a = pct(150 + g.R.Int63n(500))
	case "huge":
		a = pct(1050 + g.R.Int63n(300))
	default:
		fatalf("amount class %q", cls)
	}
	a.Add(a, big.NewInt(g.R.Int63n(1000)))
	if a.Cmp(params.MinQuaiConversionAmount) < 0 {
		a = new(big.Int).Set(params.MinQuaiConversionAmount)
	}
	return a
}

// runBatch submits the batch, mines  zone(emit) region prime(confirm)  and then zone blocks until every
// confirmed conversion of the batch has been executed.
func (g *Engine) runBatch(items []Item) {
	flow := g.pendingFlow()
	usedSender, usedOwner := map[int]bool{}, map[int]bool{}
	var batch []*Conv
	next := g.E.Height() + 1
	for _, it := range items {
		switch it.Dir {
		case "q2i":
			si := -1
			for k := range g.senders {
				j := (k + g.R.Intn(len(g.senders))) % len(g.senders)
				if !usedSender[j] {
					si = j
					break
				}
			}
			if si < 0 {
				continue
			}
			usedSender[si] = true
			from := g.senders[si]
			to := g.qiKeys[g.R.Intn(len(g.qiKeys))].Addr
			amt := g.quaiAmount(it.Amt, flow)
			if it.Units > 0 {
				amt = new(big.Int).Div(new(big.Int).Mul(flow, big.NewInt(int64(it.Units))), big.NewInt(100))
				if amt.Cmp(params.MinQuaiConversionAmount) < 0 {
					amt = new(big.Int).Set(params.MinQuaiConversionAmount)
				}
			}
			if it.Via == "opcode" {
				etxGas := uint64(300000)
				if it.Gas == "tight" {
					etxGas = params.TxGas + 2*params.CallValueTransferGas
				}
				batch = append(batch, g.submitOpcode(from, to, amt, etxGas, it.Amt))
				batch[len(batch)-1].Want = it.Want
			} else {
				gas := uint64(420000)
				if it.Gas == "tight" {
					// intrinsic + ETX emission + destination base + room for 1..3 outputs
					gas = 21000 + 64 + params.ETXGas + params.TxGas + uint64(1+g.R.Intn(3))*params.CallValueTransferGas
				}
				batch = append(batch, g.submitTransfer(from, to, amt, it.Slip, gas, it.Amt, it.Gas))
				batch[len(batch)-1].Want = it.Want
			}
		case "i2q":
			// an owner key with spendable outputs
			var owner wallet.Key
			var sp []chain.Utxo
			oi := -1
			for k := range g.qiKeys {
				j := (k + g.R.Intn(len(g.qiKeys))) % len(g.qiKeys)
				if usedOwner[j] {
					continue
				}
				var cand []chain.Utxo
				for _, u := range g.utxos {
					if string(u.Addr) == string(g.qiKeys[j].Addr.Bytes()) && u.Lock <= next {
						cand = append(cand, u)
					}
				}
				if len(cand) > 0 {
					oi, owner, sp = j, g.qiKeys[j], cand
					break
				}
			}
			if oi < 0 {
				g.Stats["i2q_skipped_no_spendable_qi"]++
				continue
			}
			usedOwner[oi] = true
			sortUtxos(sp)
			// fee in qits: the minimum is (intrinsic + conversion gas) * base fee translated to Qi; "ample"
			// leaves plenty of gas to the ETX, "tight" tries fees from small upwards until the pool accepts
			var ins []chain.Utxo
			var denoms []uint8
			switch it.Amt {
			case "dust", "min":
				// the smallest outputs owned: up to three of them, converted in full minus the fee
				ins = []chain.Utxo{sp[len(sp)-1]} // largest pays the fee
				cnt := 0
				for _, u := range sp {
					if cnt < 3 && u.Key() != ins[0].Key() && u.Denom <= 6 {
						ins = append(ins, u)
						denoms = append(denoms, u.Denom)
						cnt++
					}
				}
				if len(denoms) == 0 {
					denoms = []uint8{0, 1, 2}
				}
			case "huge", "big":
				// everything the owner has, converted as the greedy denominations of 80% of the total
				ins = sp
				if len(ins) > 40 {
					ins = ins[len(ins)-40:]
				}
				tot := new(big.Int)
				for _, u := range ins {
					tot.Add(tot, big.NewInt(conv.Denoms[u.Denom]))
				}
				part := int64(80)
				if it.Amt == "big" {
					part = 40
				}
				tgt := new(big.Int).Div(new(big.Int).Mul(tot, big.NewInt(part)), big.NewInt(100))
				gd := conv.GreedyDenoms(tgt)
				for d := len(gd) - 1; d >= 0 && len(denoms) < 24; d-- {
					for j := uint64(0); j < gd[d] && len(denoms) < 24; j++ {
						denoms = append(denoms, uint8(d))
					}
				}
			default: // typical: one mid-sized output converted as two or three denominations
				u := sp[len(sp)/2+g.R.Intn(len(sp)-len(sp)/2)]
				ins = []chain.Utxo{u}
				if u.Denom >= 2 {
					denoms = []uint8{u.Denom - 1}
					if u.Denom >= 3 && g.R.Intn(2) == 0 {
						denoms = append(denoms, u.Denom-2)
					}
					if g.R.Intn(2) == 0 {
						denoms = append(denoms, uint8(g.R.Intn(4))) // some dust along
					}
				} else {
					ins = append(ins, sp[len(sp)-1])
					denoms = []uint8{u.Denom}
				}
			}
			to := g.recipients[g.R.Intn(len(g.recipients))].Addr
			if g.R.Intn(5) == 0 {
				g.freshCount++
				to = wallet.Grind(900000+g.freshCount*7919+uint64(g.R.Intn(1000)), false, mininet.ZoneLoc).Addr
			}
			refund := g.qiKeys[(oi+1)%len(g.qiKeys)].Addr
			change := g.qiKeys[(oi+2)%len(g.qiKeys)]
			fees := []int64{4000, 1500}
			var c *Conv
			var err error
			if it.Gas == "tight" {
				// exact-fee mode: one input, every output goes to the conversion, the fee is raised qit by qit
				// until the pool accepts: the ETX then carries (almost) no gas
				in1 := ins[:1]
				for _, u := range sp { // sorted ascending: the smallest output that can carry the fee
					if u.Denom >= 7 {
						in1 = []chain.Utxo{u}
						break
					}
				}
				v := conv.Denoms[in1[0].Denom]
				err = fmt.Errorf("no fee accepted")
				before := g.pendingTxRoot()
				for f := int64(1); f <= 900 && f < v && err != nil; f++ {
					gd := conv.GreedyDenoms(big.NewInt(v - f))
					var dn []uint8
					for d := len(gd) - 1; d >= 0; d-- {
						for j := uint64(0); j < gd[d]; j++ {
							dn = append(dn, uint8(d))
						}
					}
					if len(dn) == 0 || len(dn) > 60 {
						continue
					}
					c, err = g.submitQi(owner, in1, dn, to, it.Slip, refund, change, f, it.Amt, it.Gas)
					if err == nil && g.pendingTxRoot() == before {
						// accepted by the pool but not by the block builder: fee still too small
						g.forget(c)
						c, err = nil, fmt.Errorf("not included (fee %d of input %d, %d outputs)", f, v, len(dn))
					}
				}
			} else {
				b4 := g.pendingTxRoot()
				for _, f := range fees {
					c, err = g.submitQi(owner, ins, denoms, to, it.Slip, refund, change, f, it.Amt, it.Gas)
					if err == nil {
						break
					}
				}
				if err == nil && g.pendingTxRoot() == b4 {
					// accepted by the pool, refused by the block builder (e.g. fee below the base fee)
					g.forget(c)
					c, err = nil, fmt.Errorf("not included by the block builder")
				}
			}
			if err != nil {
				g.Stats["i2q_rejected_by_pool"]++
				if g.Verbose || os.Getenv("CONVDRV_DEBUG") != "" {
					fmt.Fprintln(os.Stderr, "i2q rejected:", err, it, len(ins), len(denoms))
				}
				usedOwner[oi] = false
				continue
			}
			c.Want = it.Want
			batch = append(batch, c)
		}
	}
	// conversions of an earlier batch still waiting in the pool would join this batch's prime block
	split := false
	inBatch := map[*Conv]bool{}
	for _, c := range batch {
		inBatch[c] = true
	}
	for _, c := range g.Convs {
		if c.State == "submitted" && !inBatch[c] {
			split = true
		}
	}
	g.mine(mininet.Zone)
	for _, c := range batch {
		if c.State == "submitted" {
			// left in the pool by the block builder (block full, fee order): it may still be included later
			g.Stats["not_in_next_block"]++
			split = true
		}
	}
	planned := 0
	for _, it := range items {
		if it.Want != "" {
			planned++
		}
	}
	have := 0
	for _, c := range batch {
		if c.Want != "" {
			have++
		}
	}
	if split || have != planned {
		// the specification predicted the outcome kinds of THIS batch confirmed by ONE prime block: not what happens now
		for _, c := range batch {
			if c.Want != "" && c.Want != "refused" {
				c.Want = ""
				g.Stats["predictions_dropped_batch_not_as_planned"]++
			}
		}
	}
	g.mine(mininet.Region)
	g.mine(mininet.Prime)
	for i := 0; i < 6; i++ {
		pendingExec := false
		for _, c := range batch {
			if c.State == "confirmed" {
				pendingExec = true
			}
		}
		if !pendingExec {
			break
		}
		g.mine(mininet.Zone)
	}
	for _, c := range batch {
		if c.State == "emitted" || c.State == "confirmed" {
			// included a block later than planned (pool lag): a later prime block / zone block takes care of it
			g.Stats["late_in_pipeline"]++
		}
	}
}

func sortUtxos(u []chain.Utxo) {
	for i := 1; i < len(u); i++ {
		for j := i; j > 0 && (u[j].Denom < u[j-1].Denom || (u[j].Denom == u[j-1].Denom && u[j].Key() < u[j-1].Key())); j-- {
			u[j], u[j-1] = u[j-1], u[j]
		}
	}
}

var slipChoices = []int{-1, 30, 1, 500, 100, 9000, 20000, 35, 2500}

func (g *Engine) randomBatch(round int) []Item {
	n := 2 + g.R.Intn(5)
	var items []Item
	for i := 0; i < n; i++ {
		it := Item{Dir: "q2i", Via: "transfer", Gas: "ample", Slip: slipChoices[g.R.Intn(len(slipChoices))]}
		if round > 0 && g.R.Intn(2) == 0 {
			it.Dir, it.Via = "i2q", "qitx"
		}
		switch x := g.R.Intn(20); {
		case x < 2:
			it.Amt = "min"
		case x < 5:
			it.Amt = "dust"
		case x < 13:
			it.Amt = "typical"
		case x < 17:
			it.Amt = "big"
		default:
			it.Amt = "huge"
		}
		if it.Dir == "q2i" && g.R.Intn(5) == 0 {
			it.Via = "opcode"
			it.Slip = -1
		}
		if g.R.Intn(5) == 0 {
			it.Gas = "tight"
			if it.Dir == "i2q" && g.R.Intn(2) == 0 {
				it.Slip = 30
			}
		}
		items = append(items, it)
	}
	return items
}

func cmdRandom(args []string) {
	fs := flag.NewFlagSet("random", flag.ExitOnError)
	seed := fs.Int64("seed", 1, "")
	rounds := fs.Int("rounds", 4, "")
	out := fs.String("out", "", "trace ndjson")
	prefork := fs.Bool("prefork", false, "cubic discount argument order before ConversionSlipChangeBlock")
	shapes := fs.String("shapes", "", "ndjson: one list of batches per line (TLC-generated scenario classes)")
	verbose := fs.Bool("v", false, "")
	fs.Parse(args)

	var scen [][][]Item
	if *shapes != "" {
		f, err := os.Open(*shapes)
		if err != nil {
			fmt.Fprintln(os.Stderr, err)
			os.Exit(3)
		}
		sc := bufio.NewScanner(f)
		sc.Buffer(make([]byte, 1<<20), 1<<24)
		for sc.Scan() {
			var one [][]Item
			if err := json.Unmarshal(sc.Bytes(), &one); err != nil {
				fmt.Fprintln(os.Stderr, "bad shape:", err)
				os.Exit(3)
			}
			scen = append(scen, one)
		}
		f.Close()
	} else {
		scen = append(scen, nil)
	}
	driverErr := ""
	var all []map[string]interface{}
	var problems []Problem
	stats := map[string]int{}
	nconv, nblocks := 0, 0
	var samples []map[string]interface{}
	for si, batches := range scen {
		g, derr := runScenario(*seed*1000+int64(si), *prefork, *rounds, batches, *verbose)
		if derr != "" {
			// the node stopped cooperating (own block rejected, ...): keep what was observed so far
			fmt.Fprintln(os.Stderr, "driver error:", derr)
			driverErr = derr
			if g == nil {
				os.Exit(3)
			}
		}
		if driverErr != "" && len(g.Problems) == 0 {
			os.Exit(3)
		}
		all = append(all, map[string]interface{}{"op": "tracereset"})
		all = append(all, g.Events...)
		for _, p := range g.Problems {
			p.Info["scenario"] = fmt.Sprint(si)
			problems = append(problems, p)
		}
		for k, v := range g.Stats {
			stats[k] += v
		}
		nconv += len(g.Convs)
		nblocks += len(g.S.Blocks) - 1
		for _, c := range g.Convs {
			if len(samples) < 6 && c.Oracle != nil {
				samples = append(samples, c.summary())
			}
			stats["state_"+c.State]++
		}
		if driverErr != "" {
			break
		}
	}
	if *out != "" {
		w, err := os.Create(*out)
		if err != nil {
			fmt.Fprintln(os.Stderr, err)
			os.Exit(3)
		}
		bw := bufio.NewWriter(w)
		enc := json.NewEncoder(bw)
		for _, ev := range all {
			enc.Encode(ev)
		}
		bw.Flush()
		w.Close()
	}
	sum := map[string]interface{}{"scenarios": len(scen), "events": len(all), "conversions": nconv, "blocks": nblocks, "problems": problems, "stats": stats, "samples": samples, "prefork": *prefork, "driver_error": driverErr}
	b, _ := json.Marshal(sum)
	fmt.Println(string(b))
}

func (c *Conv) summary() map[string]interface{} {
	m := map[string]interface{}{"id": c.ID, "dir": c.Dir, "via": c.Via, "amount": c.Amount.String(), "slip": c.Slip, "amtcls": c.AmtCls, "gascls": c.GasCls,
		"etx_gas": c.EtxGas, "emitted_h": c.EmitH, "state": c.State, "outcome": c.Outcome, "dest_h": c.DestH, "credit_h": c.CreditH}
	if c.ObsVal != nil {
		m["etx_value_after_prime"] = c.ObsVal.String()
		m["etx_type_after_prime"] = c.ObsType
	}
	if c.Oracle != nil && c.Oracle.Implied != nil {
		m["rate_implied"] = c.Oracle.Implied.String()
	}
	if c.Credit != nil {
		m["credited_or_refunded"] = c.Credit.String()
	}
	return m
}

func runScenario(seed int64, prefork bool, rounds int, batches [][]Item, verbose bool) (g *Engine, derr string) {
	setParams(prefork)
	e, err := chain.Boot(chain.EnvOptions{Net: mininet.Options{Quiet: !verbose, MinerPreference: 0}, Seed: uint64(seed), NQuai: 14, NQi: 10,
		QuaiFunding: ether(1000000)})
	if err != nil {
		return nil, "boot: " + err.Error()
	}
	defer e.Net.Close()
	g = &Engine{S: conv.NewSim(e), E: e, R: rand.New(rand.NewSource(seed)), byTx: map[common.Hash]*Conv{}, trackedQuai: map[common.Address]string{},
		balances: map[common.Address]*big.Int{}, trackedQi: map[string]string{}, utxos: map[string]chain.Utxo{}, sched: map[uint64][]*Conv{},
		nonces: map[common.Address]uint64{}, Stats: map[string]int{}, exists: map[common.Address]bool{}, creditWrong: map[int]bool{}, SwapArgs: prefork, Verbose: verbose}
	defer func() {
		if r := recover(); r != nil {
			if de, ok := r.(driverError); ok {
				derr = string(de)
				return
			}
			panic(r)
		}
	}()
	// Quai[0] / Qi[0] are the miner's coinbases and never take part in a conversion
	for dl := time.Now().Add(5 * time.Second); time.Now().Before(dl); time.Sleep(2 * time.Millisecond) {
		if e.Net.PrimeCore().Slice().ReadBestPh() != nil && e.Net.RegionCore().Slice().ReadBestPh() != nil && e.Net.ZoneCore().Slice().ReadBestPh() != nil {
			break
		}
	}
	g.senders = e.Quai[1:9]
	g.recipients = e.Quai[9:]
	g.qiKeys = e.Qi[1:]
	g.mine(mininet.Zone)
	g.mine(mininet.Prime) // prime block 1: the controller kicks in
	g.deployConverter(e.Quai[1])
	deployed := false
	for i := 0; i < 4 && !deployed; i++ {
		g.mine(mininet.Zone)
		st, _ := e.Net.ZoneCore().Processor().State()
		ia, _ := g.Converter.InternalAddress()
		deployed = len(st.GetCode(ia)) != 0
	}
	if !deployed {
		hb := g.S.Blocks[g.Head]
		for i, rc := range e.Net.ZoneCore().GetReceiptsByHash(hb.Hash) {
			fmt.Fprintf(os.Stderr, "receipt %d status=%d gasUsed=%d contract=%x\n", i, rc.Status, rc.GasUsed, rc.ContractAddress.Bytes())
		}
		pend, _ := e.Net.ZoneCore().TxPoolPending()
		fatalf("converter contract was not deployed at %x (pool pending accounts: %d)", g.Converter.Bytes(), len(pend))
	}
	if batches == nil {
		for r := 0; r < rounds; r++ {
			if r == 2 {
				// a Qi->Quai conversion with the minimum slip and an (almost) gas-less ETX next to a volume
				// beyond ten times the flow average: the protocol refuses it
				g.runBatch([]Item{{Dir: "i2q", Via: "qitx", Amt: "typical", Slip: 30, Gas: "tight"}, {Dir: "q2i", Via: "transfer", Amt: "huge", Slip: -1, Gas: "ample"},
					{Dir: "i2q", Via: "qitx", Amt: "dust", Slip: 30, Gas: "ample"}})
				continue
			}
			g.runBatch(g.randomBatch(r))
		}
	} else {
		for _, b := range batches {
			g.runBatch(b)
		}
	}
	// drain the pipeline (conversions that were included later than planned), then let every lock period run out
	for try := 0; try < 3; try++ {
		inflight := false
		for _, c := range g.Convs {
			if c.State == "emitted" || c.State == "confirmed" || (c.State == "submitted" && try == 0) {
				inflight = true
			}
		}
		if !inflight {
			break
		}
		g.mine(mininet.Zone)
		g.mine(mininet.Region)
		g.mine(mininet.Prime)
		g.mine(mininet.Zone)
		g.mine(mininet.Zone)
	}
	for i := uint64(0); i < params.ConversionLockPeriod+1; i++ {
		g.mine(-1)
	}
	for _, c := range g.Convs {
		switch c.State {
		case "done", "refused", "submitted":
		default:
			g.problem("conversion-without-outcome", "conv", c.ID, "state", c.State, "dir", c.Dir, "via", c.Via)
		}
	}
	return g, ""
}

func main() {
	if len(os.Args) < 2 {
		fmt.Fprintln(os.Stderr, "usage: convdrv probe|random|pure ...")
		os.Exit(2)
	}
	switch os.Args[1] {
	case "probe":
		cmdProbe(os.Args[2:])
	case "random":
		cmdRandom(os.Args[2:])
	case "pure":
		cmdPure(os.Args[2:])
	default:
		fmt.Fprintln(os.Stderr, "unknown subcommand")
		os.Exit(2)
	}
}
