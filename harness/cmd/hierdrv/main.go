// hierdrv replays behaviours of spec/Hier.tla on a real in-process prime/region/zone hierarchy: every step
// builds a block from three INDEPENDENTLY chosen heads (zone parent, region parent, prime parent), seals it for
// the order the behaviour asks for and offers it to the node; the node's verdict, the termini it records at each
// level (core/slice.go pcrc) and the manifests (HeaderChain.CalculateManifest, sub-manifests committed by the
// dominant views of the block) are compared with the specification's.
//
//	hierdrv replay -in behaviours.ndjson -out result.json -base 0|1
//
// base 0: the behaviour starts at the real genesis block (specification constant GenesisExempt = TRUE);
// base 1: the behaviour starts at a freshly mined PRIME-order block (no genesis exemption applies: GenesisExempt = FALSE).
package main

import (
	"bufio"
	"encoding/json"
	"flag"
	"fmt"
	"os"
	"strings"
	"time"

	"github.com/dominant-strategies/go-quai/common"
	"github.com/dominant-strategies/go-quai/core/rawdb"
	"github.com/dominant-strategies/go-quai/core/types"
	"verifharness/chain"
	"verifharness/mininet"
)

type step struct {
	Op      string `json:"op"`
	B       int    `json:"b"`
	Order   int    `json:"order"`
	Zp      int    `json:"zp"`
	Rp      int    `json:"rp"`
	Pp      int    `json:"pp"`
	Verdict string `json:"verdict"`
	TzDom   int    `json:"tzdom"`
	TrDom   int    `json:"trdom"`
	Zman    []int  `json:"zman"`
	SubmanR []int  `json:"submanR"`
	SubmanP []int  `json:"submanP"`
}

type mismatch struct {
	Behaviour int    `json:"behaviour"`
	Step      int    `json:"step"`
	Kind      string `json:"kind"`
	Want      string `json:"want"`
	Got       string `json:"got"`
	Detail    string `json:"detail,omitempty"`
}

func fatal(code int, a ...interface{}) {
	fmt.Fprintln(os.Stderr, a...)
	os.Exit(code)
}

type world struct {
	n    *mininet.Net
	hash map[int]common.Hash
	id   map[common.Hash]int
}

func (w *world) name(h common.Hash) int {
	if v, ok := w.id[h]; ok {
		return v
	}
	return -99
}

func (w *world) names(m types.BlockManifest) []int {
	out := []int{}
	for _, h := range m {
		out = append(out, w.name(h))
	}
	return out
}

func ints(a []int) string { return strings.Trim(strings.Join(strings.Fields(fmt.Sprint(a)), ","), "[]") }

// classify maps the node's refusal onto the specification's verdict classes.
func classify(err error) string {
	if err == nil {
		return "ok"
	}
	s := err.Error()
	switch {
	case strings.Contains(s, "termini do not match"):
		return "terminus"
	default:
		return "other: " + s
	}
}

func main() {
	if len(os.Args) < 2 || os.Args[1] != "replay" {
		fatal(2, "usage: hierdrv replay -in f -out f -base 0|1")
	}
	fs := flag.NewFlagSet("replay", flag.ExitOnError)
	in := fs.String("in", "", "behaviours (ndjson, one history per line)")
	out := fs.String("out", "", "result json")
	base := fs.Int("base", 0, "0: start at genesis; 1: start at a fresh prime-order block")
	verbose := fs.Bool("v", false, "")
	limit := fs.Int("limit", 0, "")
	fs.Parse(os.Args[2:])
	chain.FastParams()

	f, err := os.Open(*in)
	if err != nil {
		fatal(3, err)
	}
	var behaviours [][]step
	sc := bufio.NewScanner(f)
	sc.Buffer(make([]byte, 1<<20), 1<<26)
	for sc.Scan() {
		var b []step
		if err := json.Unmarshal(sc.Bytes(), &b); err != nil {
			fatal(3, "bad behaviour:", err)
		}
		behaviours = append(behaviours, b)
		if *limit > 0 && len(behaviours) >= *limit {
			break
		}
	}
	f.Close()

	var mism []mismatch
	stats := map[string]int{}
	var samples []map[string]interface{}
	var n *mininet.Net
	boot := func() {
		if n != nil {
			n.Close()
		}
		n, err = mininet.New(mininet.Options{Quiet: !*verbose, MinerPreference: 0.5})
		if err != nil {
			fatal(3, "boot:", err)
		}
	}
	boot()
	defer func() { n.Close() }()
	var lastBase common.Hash
	baseFailures := 0

	for bi, beh := range behaviours {
		w := &world{n: n, hash: map[int]common.Hash{}, id: map[common.Hash]int{}}
		if *base == 0 {
			if bi > 0 {
				boot()
				w.n = n
			}
			w.hash[0], w.id[n.Gen] = n.Gen, 0
		} else {
			// a fresh prime-order block on top of the current heads is the behaviour's origin
			if (lastBase == common.Hash{}) {
				lastBase = n.Gen
			}
			if err := n.SetHead(lastBase, lastBase, lastBase); err != nil {
				fatal(3, "base sethead:", err)
			}
			m, err := n.MineOne(mininet.Prime)
			if err != nil {
				// a prime-order block on consistent heads (prime = region = zone head = the previous origin) is the simplest
				// consistent block there is: the node refusing it is a wrong verdict, not a harness failure
				baseFailures++
				mism = append(mism, mismatch{Behaviour: bi, Step: -1, Kind: "verdict", Want: "ok", Got: classify(err), Detail: "origin block (prime order) on consistent heads: " + err.Error()})
				if baseFailures >= 3 {
					break
				}
				boot()
				lastBase = common.Hash{}
				continue
			}
			w.hash[0], w.id[m.Hash] = m.Hash, 0
			lastBase = m.Hash
		}
		aborted := false
		for si, s := range beh {
			if aborted {
				break
			}
			add := func(kind, want, got, detail string) {
				mism = append(mism, mismatch{Behaviour: bi, Step: si, Kind: kind, Want: want, Got: got, Detail: detail})
			}
			// parents: the behaviour's choice where the block's order makes the level matter, the current head otherwise
			z := w.hash[s.Zp]
			r, p := w.hash[0], w.hash[0]
			if s.Order <= 1 {
				r = w.hash[s.Rp]
			}
			if s.Order == 0 {
				p = w.hash[s.Pp]
			}
			err := n.SetHead(p, r, z)
			for try := 0; err != nil && strings.Contains(err.Error(), "best ph is nil") && try < 200; try++ {
				time.Sleep(5 * time.Millisecond) // the genesis pending header is still propagating through the levels after boot
				err = n.SetHead(p, r, z)
			}
			if err != nil {
				// the node cannot even build a pending header on this combination of heads
				stats["unrealised-sethead"]++
				if s.Verdict == "ok" {
					add("pending-header", "ok", "sethead: "+err.Error(), "")
				}
				aborted = true
				continue
			}
			ph, err := n.Pending()
			if err != nil {
				fatal(3, "pending:", err)
			}
			if _, err := n.Seal(ph, s.Order, 1<<24); err != nil {
				fatal(3, "seal:", err)
			}
			var m *mininet.Mined
			func() {
				defer func() {
					if r := recover(); r != nil {
						err = fmt.Errorf("panic: %v", r)
					}
				}()
				m, err = n.Assemble(ph)
				if err == nil {
					err = n.Insert(m)
				}
			}()
			got := classify(err)
			want := s.Verdict
			if want != "ok" {
				want = "terminus"
			}
			stats["steps"]++
			stats["verdict-"+got[:minInt(len(got), 8)]]++
			if got != want {
				add("verdict", s.Verdict, got, fmt.Sprintf("order=%d zp=%d rp=%d pp=%d", s.Order, s.Zp, s.Rp, s.Pp))
				aborted = true // the rest of the behaviour depends on this block
				continue
			}
			if err != nil {
				// refused as specified: nothing of it may be recorded as appended
				for ctx := mininet.Zone; ctx >= s.Order; ctx-- {
					if t := rawdb.ReadTermini(n.DBs[ctx], ph.Hash()); t != nil {
						add("refused-block-has-termini", "none", fmt.Sprintf("level %d", ctx), "")
					}
				}
				continue
			}
			w.hash[s.B], w.id[m.Hash] = m.Hash, s.B
			// termini
			tz := rawdb.ReadTermini(n.DBs[mininet.Zone], m.Hash)
			if tz == nil {
				add("zone-termini", fmt.Sprint(s.TzDom), "missing", "")
			} else if g := w.name(tz.DomTerminus(mininet.ZoneLoc)); g != s.TzDom {
				add("zone-dom-terminus", fmt.Sprint(s.TzDom), fmt.Sprint(g), "")
			}
			if s.Order <= 1 {
				tr := rawdb.ReadTermini(n.DBs[mininet.Region], m.Hash)
				if tr == nil {
					add("region-termini", fmt.Sprint(s.TrDom), "missing", "")
				} else {
					if g := w.name(tr.DomTerminus(mininet.RegionLoc)); g != s.TrDom {
						add("region-dom-terminus", fmt.Sprint(s.TrDom), fmt.Sprint(g), "")
					}
					if g := w.name(tr.SubTerminiAtIndex(0)); g != s.B {
						add("region-sub-terminus", fmt.Sprint(s.B), fmt.Sprint(g), "")
					}
				}
			}
			if s.Order == 0 {
				tp := rawdb.ReadTermini(n.DBs[mininet.Prime], m.Hash)
				if tp == nil {
					add("prime-termini", fmt.Sprint(s.B), "missing", "")
				} else if g := w.name(tp.SubTerminiAtIndex(0)); g != s.B {
					add("prime-sub-terminus", fmt.Sprint(s.B), fmt.Sprint(g), "")
				}
			}
			// manifests
			if g := w.names(rawdb.ReadManifest(n.DBs[mininet.Zone], m.Hash)); ints(g) != ints(s.Zman) {
				add("zone-manifest", ints(s.Zman), ints(g), "")
			}
			if s.Order <= 1 {
				if g := w.names(m.Blocks[mininet.Region].Manifest()); ints(g) != ints(s.SubmanR) {
					add("region-view-sub-manifest", ints(s.SubmanR), ints(g), "")
				}
			}
			if s.Order == 0 {
				if g := w.names(m.Blocks[mininet.Prime].Manifest()); ints(g) != ints(s.SubmanP) {
					add("prime-view-sub-manifest", ints(s.SubmanP), ints(g), "")
				}
			}
			stats["blocks-appended"]++
		}
		if len(samples) < 3 {
			samples = append(samples, map[string]interface{}{"behaviour": beh})
		}
	}
	res := map[string]interface{}{"behaviours": len(behaviours), "base": *base, "stats": stats, "mismatches": mism, "samples": samples}
	b, _ := json.Marshal(res)
	if *out != "" {
		os.WriteFile(*out, b, 0o644)
	}
	fmt.Printf("{\"behaviours\":%d,\"mismatches\":%d,\"steps\":%d}\n", len(behaviours), len(mism), stats["steps"])
}

func minInt(a, b int) int {
	if a < b {
		return a
	}
	return b
}
