package main

import (
	"fmt"
	"math/big"
	"math/rand"
	"strings"

	"github.com/dominant-strategies/go-quai/common"
	"github.com/dominant-strategies/go-quai/core/state"
	"github.com/dominant-strategies/go-quai/core/types"
)

// Step = one record of the spec's `hist` (or one trace event)
type Step struct {
	Op  string        `json:"op"`
	A   int           `json:"a"`
	S   int           `json:"s"`
	V   int64         `json:"v"`
	ID  int           `json:"id"`
	Res []interface{} `json:"res"`
	Vis *FlatVis      `json:"vis,omitempty"`
}

// Finding = one deviation of the real code.  Kind "revert-not-restored": the state after a revert differs
// from the state captured at the snapshot (the property oracle, independent of spec and journal);
// "spec-mismatch": the observed abstract state differs from the one the spec defines for that step.
type Finding struct {
	Level     string      `json:"level"`
	Kind      string      `json:"kind"`
	At        string      `json:"at"`
	Diff      string      `json:"diff"`
	Cause     string      `json:"cause"`
	Accounts  []int       `json:"accounts,omitempty"`
	Universe  string      `json:"universe"`
	Behaviour int         `json:"behaviour"`
	StepIdx   int         `json:"step"`
	Expected  interface{} `json:"expected,omitempty"`
	Got       interface{} `json:"got,omitempty"`
	Detail    string      `json:"detail,omitempty"`
	Steps     []Step      `json:"steps"`
}

var thash = common.BytesToHash([]byte{0xc1, 0x2c})

// journalSession executes StateDB calls one by one on a real StateDB
type journalSession struct {
	w      *World
	s      *state.StateDB
	r      *resolver
	realID map[int]int
	snapP  map[int]*Proj
	snapAt map[int]int
	tx     int // transactions finalised so far on this StateDB (index of the running one)
	nsnap  int // Snapshot calls so far (the spec numbers snapshots per behaviour)
	idBase int // revision ids of a re-opened StateDB start at 0 again: spec id = real id + idBase
}

func newJournalSession(w *World) *journalSession {
	s := w.NewState()
	s.Prepare(txHash(0), 0)
	return &journalSession{w: w, s: s, r: newResolver(w.U), realID: map[int]int{}, snapP: map[int]*Proj{}, snapAt: map[int]int{}}
}

func hasOp(steps []Step, op string) bool {
	for _, st := range steps {
		if st.Op == op {
			return true
		}
	}
	return false
}

func (js *journalSession) do(i int, st *Step) (res []interface{}) {
	defer func() {
		if x := recover(); x != nil {
			res = []interface{}{"panic", fmt.Sprint(x)}
		}
	}()
	s := js.s
	ok := []interface{}{"ok"}
	var ia common.InternalAddress
	var full common.Address
	if st.A >= 1 && st.A <= js.w.U.NAddr {
		full = addrOf(st.A)
		ia = iaddr(full)
	}
	switch st.Op {
	case "addbalance":
		s.AddBalance(ia, big.NewInt(st.V))
	case "subbalance":
		s.SubBalance(ia, big.NewInt(st.V))
	case "setbalance":
		s.SetBalance(ia, big.NewInt(st.V))
	case "setnonce":
		s.SetNonce(ia, uint64(st.V))
	case "setcode":
		s.SetCode(ia, codeTable[int(st.V)])
	case "setstate":
		s.SetState(ia, slotKey(st.S), slotVal(st.V))
	case "settransient":
		s.SetTransientState(ia, slotKey(st.S), slotVal(st.V))
	case "suicide":
		return []interface{}{"bool", s.Suicide(ia)}
	case "createaccount":
		s.CreateAccount(ia)
	case "addlog":
		s.AddLog(&types.Log{Address: full, Topics: []common.Hash{slotKey(i + 1)}, Data: []byte{byte(i)}, BlockNumber: 7})
	case "addrefund":
		s.AddRefund(uint64(st.V))
	case "subrefund":
		s.SubRefund(uint64(st.V))
	case "addpreimage":
		s.AddPreimage(preimHash(st.A), []byte{byte(st.A)})
	case "aladdr":
		s.AddAddressToAccessList(ia.Bytes20())
	case "alslot":
		s.AddSlotToAccessList(ia.Bytes20(), slotKey(st.S))
	case "snapshot":
		id := s.Snapshot()
		js.realID[st.ID] = id
		js.nsnap++
		return []interface{}{"id", float64(id + js.idBase)}
	case "txend":
		// between two transactions of a block, core/state_processor.go: applyTransaction ends with
		// statedb.Finalize(true); Process prepares the next transaction with statedb.Prepare(hash, index)
		s.Finalize(true)
		js.tx++
		s.Prepare(txHash(js.tx), js.tx)
	case "blockend":
		// end of the block: Commit (Finalize + IntermediateRoot + write-out); the next block opens a new StateDB
		// at the committed root
		root, err := s.Commit(true)
		if err != nil {
			return []interface{}{"commit-error", err.Error()}
		}
		ns, err := js.w.StateAt(root, s.GetQuaiTrieSize())
		if err != nil {
			return []interface{}{"reopen-error", err.Error()}
		}
		js.s = ns
		js.tx = 0
		js.idBase = js.nsnap
		ns.Prepare(txHash(0), 0)
	case "revert":
		id, known := js.realID[st.ID]
		if !known {
			return []interface{}{"unknown-snapshot", float64(st.ID)}
		}
		s.RevertToSnapshot(id)
	default:
		return []interface{}{"unknown-op", st.Op}
	}
	return ok
}

func sameRes(a, b []interface{}) bool { return fmt.Sprint(a) == fmt.Sprint(b) }

// causeOf names the specific mechanism behind a deviation class when the reverted span shows it
func causeJournal(class string, accts []int, span []Step) string {
	if class == "acct.size" || class == "acct.size.committed" {
		for _, st := range span {
			if st.Op == "suicide" || st.Op == "popsuicide" {
				for _, a := range accts {
					if a == st.A {
						return "suicide-in-reverted-span"
					}
				}
			}
		}
	}
	return ""
}

// assignCauses: per deviation class the specific mechanism, if the reverted span shows one.  The state
// commitment (root, trie size) is derived from the other fields: it inherits their cause when unique.
func assignCauses(classes []string, accts map[string][]int, causeFn func(class string, accts []int) string) map[string]string {
	out := map[string]string{}
	uniq := map[string]bool{}
	for _, c := range classes {
		if c == "root" || c == "triesize" {
			continue
		}
		out[c] = causeFn(c, accts[c])
		if strings.HasPrefix(c, "acct.") { // the commitment is a function of the accounts only
			uniq[out[c]] = true
		}
	}
	for _, c := range classes {
		if c == "root" || c == "triesize" {
			out[c] = ""
			if len(uniq) == 1 {
				for k := range uniq {
					out[c] = k
				}
			}
		}
	}
	return out
}

// runJournal executes one behaviour; expectations (Res, Vis) present => compared.  Returns the findings
// of the first deviating step and the observed events up to it (for trace validation).
func runJournal(w *World, bi int, steps []Step, wantEvents bool) (fs []Finding, events []map[string]interface{}, nrev int) {
	if hasOp(steps, "blockend") {
		w = buildWorld(w.U) // Commit writes into the state database: not on the world shared by the workers
	}
	js := newJournalSession(w)
	u := w.U
	for i := range steps {
		st := steps[i]
		res := js.do(i, &st)
		p := project(js.s, js.r, nil)
		got := p.flat(u)
		if wantEvents {
			events = append(events, map[string]interface{}{"op": st.Op, "a": st.A, "s": st.S, "v": st.V, "id": st.ID,
				"res": res, "vis": got, "dg": p.digest(), "lvl": "j"})
		}
		var here []Finding
		mk := func(kind, class, cause string, accts []int, exp, gotv interface{}, detail string) {
			here = append(here, Finding{Level: "journal", Kind: kind, At: st.Op, Diff: class, Cause: cause, Accounts: accts,
				Universe: u.Name, Behaviour: bi, StepIdx: i, Expected: exp, Got: gotv, Detail: detail, Steps: steps[:i+1]})
		}
		seen := map[string]bool{}
		switch st.Op {
		case "snapshot":
			js.snapP[st.ID] = p
			js.snapAt[st.ID] = i
		case "revert":
			if sp, ok := js.snapP[st.ID]; ok {
				nrev++
				classes, accts := diffProj(sp, p)
				span := steps[js.snapAt[st.ID]+1 : i]
				causes := assignCauses(classes, accts, func(c string, ac []int) string { return causeJournal(c, ac, span) })
				for _, c := range classes {
					seen[c] = true
					mk("revert-not-restored", c, causes[c], accts[c], sp.brief(c), p.brief(c),
						fmt.Sprintf("state after RevertToSnapshot(%d) differs from the state captured at Snapshot", st.ID))
				}
			}
		}
		if st.Res != nil && !sameRes(st.Res, res) {
			mk("spec-mismatch", "result", "", nil, st.Res, res, "return value")
		}
		if st.Vis != nil {
			for _, c := range diffFlat(u, st.Vis, got, false) {
				if !seen[c] {
					mk("spec-mismatch", c, "", nil, st.Vis, got, "observed abstract state differs from the specified one")
				}
			}
		}
		if len(here) > 0 {
			// the states have diverged: the rest of this behaviour is not judged (the same steps are
			// covered by behaviours that do not deviate before them)
			fs = append(fs, here...)
			return
		}
	}
	return
}

// ---- seeded random call sequences over the larger universe "jt" (trace validation by JournalTrace.tla)

func genJournalTrace(w *World, rnd *rand.Rand, n, maxDepth int, avoidKnown bool) []Step {
	// The generator consults the live implementation state only for the preconditions the interface
	// contract imposes (no negative balance, no negative refund, CreateAccount only where evm.create
	// would call it); the oracle is the spec, evaluated by TLC on the logged events.
	js := newJournalSession(w)
	u := w.U
	var steps []Step
	var live []int
	nextID := 0
	pickA := func() int { return 1 + rnd.Intn(u.NAddr) }
	pickS := func() int { return 1 + rnd.Intn(u.NSlot) }
	for len(steps) < n {
		st := Step{}
		a := pickA()
		ia := iaddr(addrOf(a))
		switch x := rnd.Intn(104); {
		case x >= 103:
			// end of the block: Commit, re-open at the new root (every live snapshot dies)
			st = Step{Op: "blockend"}
			live = live[:0]
		case x >= 100:
			// end of the transaction: Finalize(true) + Prepare (every live snapshot dies)
			st = Step{Op: "txend"}
			live = live[:0]
		case x < 8:
			st = Step{Op: "addbalance", A: a, V: int64(rnd.Intn(3))}
		case x < 14:
			v := int64(rnd.Intn(3))
			if big64(js.s.GetBalance(ia)) < v {
				continue
			}
			st = Step{Op: "subbalance", A: a, V: v}
		case x < 17:
			st = Step{Op: "setbalance", A: a, V: int64(rnd.Intn(4))}
		case x < 23:
			st = Step{Op: "setnonce", A: a, V: int64(js.s.GetNonce(ia)) + 1}
		case x < 28:
			st = Step{Op: "setcode", A: a, V: int64([]int{0, 2, 3}[rnd.Intn(3)])}
		case x < 40:
			st = Step{Op: "setstate", A: a, S: pickS(), V: int64(rnd.Intn(4))}
		case x < 47:
			st = Step{Op: "settransient", A: a, S: pickS(), V: int64(rnd.Intn(3))}
		case x < 51:
			// known finding (suicide zeroes the storage-size counter without a journal entry): half of the
			// traces stay clear of it so that the rest of the trace is still compared step by step
			if avoidKnown && js.s.GetSize(ia).Sign() != 0 {
				continue
			}
			st = Step{Op: "suicide", A: a}
		case x < 55:
			if js.s.GetNonce(ia) != 0 || len(js.s.GetCode(ia)) != 0 {
				continue
			}
			st = Step{Op: "createaccount", A: a}
		case x < 59:
			st = Step{Op: "addlog", A: a}
		case x < 62:
			st = Step{Op: "addrefund", V: int64(1 + rnd.Intn(3))}
		case x < 64:
			v := int64(1 + rnd.Intn(2))
			if int64(js.s.GetRefund()) < v {
				continue
			}
			st = Step{Op: "subrefund", V: v}
		case x < 66:
			st = Step{Op: "addpreimage", A: 1}
		case x < 70:
			st = Step{Op: "aladdr", A: a}
		case x < 75:
			st = Step{Op: "alslot", A: a, S: pickS()}
		case x < 88:
			if len(live) >= maxDepth {
				continue
			}
			st = Step{Op: "snapshot", ID: nextID}
			live = append(live, nextID)
			nextID++
		default:
			if len(live) == 0 {
				continue
			}
			k := len(live) - 1
			if rnd.Intn(4) == 0 {
				k = rnd.Intn(len(live))
			}
			st = Step{Op: "revert", ID: live[k]}
			live = live[:k]
		}
		js.do(len(steps), &st)
		steps = append(steps, st)
	}
	// close the trace: unwind every live snapshot, innermost first, so that every snapshot is judged
	for len(live) > 0 {
		k := len(live) - 1
		steps = append(steps, Step{Op: "revert", ID: live[k]})
		live = live[:k]
	}
	return steps
}
