package main

import (
	"encoding/binary"
	"fmt"
	"math/big"
	"time"

	"github.com/dominant-strategies/go-quai/common"
	"github.com/dominant-strategies/go-quai/core"
	"github.com/dominant-strategies/go-quai/core/state"
	"github.com/dominant-strategies/go-quai/core/vm"
	"github.com/dominant-strategies/go-quai/params"
)

// Level (b): a behaviour of the EVM part of spec/Journal.tla (frames Push/Pop*, in-frame operations) is
// compiled into real bytecode - one contract per call/delegatecall frame, init code for create frames -
// and executed by vm.EVM.Call on a real StateDB.  After every abstract step the code executes the marker
// `PC POP`; a vm.Tracer takes the projection there, so there is one observation per step.

const (
	opSTOP, opKECCAK, opPOP, opMSTORE, opSSTORE, opJUMP, opPC, opGAS, opJUMPDEST, opTSTORE = 0x00, 0x20, 0x50, 0x52, 0x55, 0x56, 0x58, 0x5a, 0x5b, 0x5d
	opCODECOPY, opLOG0, opCREATE, opCALL, opRETURN, opDELEGATECALL, opETX, opREVERT, opINVALID, opSELFDESTRUCT = 0x39, 0xa0, 0xf0, 0xf1, 0xf3, 0xf4, 0xf6, 0xfd, 0xfe, 0xff
)

type asm struct {
	b      []byte
	fix    []int // positions of 2-byte placeholders, one per data blob
	datas  [][]byte
	nmarks int
}

func (a *asm) op(o ...byte) { a.b = append(a.b, o...) }
func (a *asm) push1(v byte) { a.b = append(a.b, 0x60, v) }
func (a *asm) push2(v int)  { a.b = append(a.b, 0x61, byte(v>>8), byte(v)) }
func (a *asm) push8(v uint64) {
	a.b = append(a.b, 0x67)
	a.b = binary.BigEndian.AppendUint64(a.b, v)
}
func (a *asm) push20(ad common.Address) { a.b = append(append(a.b, 0x73), ad.Bytes()...) }
func (a *asm) push32(w []byte)          { a.b = append(append(a.b, 0x7f), w...) }
func (a *asm) mark()                    { a.op(opPC, opPOP); a.nmarks++ }
func (a *asm) zeros(n int) {
	for i := 0; i < n; i++ {
		a.push1(0)
	}
}
func (a *asm) finish() []byte {
	for i, d := range a.datas {
		off := len(a.b)
		a.b[a.fix[i]] = byte(off >> 8)
		a.b[a.fix[i]+1] = byte(off)
		a.b = append(a.b, d...)
	}
	return a.b
}

type frame struct {
	kind     int // 1 call, 2 delegate, 3 create
	ctx      int
	creator  int
	value    int64
	codeAddr int
	depth    int
	pushStep int
	popStep  int
	pop      *Step
	items    []item
	hasChild bool
}
type item struct {
	st    *Step
	child *frame
}

// completeFrames closes the frames a behaviour leaves open (behaviours emitted at a failed inner frame)
// with a normal return each; the added steps carry no expectation.
func completeFrames(steps []Step) []Step {
	depth, ended := 0, false
	for _, st := range steps {
		switch st.Op {
		case "push":
			depth++
		case "popok", "popsuicide", "popabort":
			depth--
			ended = depth == 0
		}
	}
	if ended || depth <= 0 {
		return steps
	}
	out := append([]Step(nil), steps...)
	for ; depth > 0; depth-- {
		out = append(out, Step{Op: "popok", ID: -1})
	}
	return out
}

// txSeg = one transaction of a behaviour: its frame tree and the steps [first, last] it covers; txend = index of
// the "txend" step that follows it (-1: none)
type txSeg struct {
	root        *frame
	first, last int
	txend       int
}

// parseTxs splits a behaviour at its "txend" steps and builds the frame tree of every transaction.  The n-th frame
// pushed in the BEHAVIOUR runs the contract FrameAddr[n] (the spec counts frames per behaviour, not per transaction).
func parseTxs(u *Universe, steps []Step) ([]*txSeg, error) {
	var segs []*txSeg
	var stack []*frame
	var cur *txSeg
	npush := 0
	for i := range steps {
		st := &steps[i]
		if st.Op == "txend" {
			if cur == nil || len(stack) != 0 || cur.txend >= 0 {
				return nil, fmt.Errorf("txend at step %d outside the end of a transaction", i)
			}
			cur.txend = i
			cur = nil
			continue
		}
		if cur != nil && cur.root != nil && len(stack) == 0 {
			return nil, fmt.Errorf("step %d after the end of the transaction", i)
		}
		switch st.Op {
		case "push":
			if npush >= len(u.FrameAddr) && st.S != 3 {
				return nil, fmt.Errorf("more frames than frame contracts")
			}
			f := &frame{kind: st.S, ctx: st.A, value: st.V, depth: len(stack) + 1, pushStep: i, popStep: -1}
			if st.S != 3 {
				f.codeAddr = u.FrameAddr[npush]
			}
			npush++
			if len(stack) == 0 {
				if cur != nil || st.S != 1 {
					return nil, fmt.Errorf("bad root frame")
				}
				cur = &txSeg{root: f, first: i, last: -1, txend: -1}
				segs = append(segs, cur)
			} else {
				p := stack[len(stack)-1]
				f.creator = p.ctx
				p.items = append(p.items, item{st: st, child: f})
				p.hasChild = true
			}
			stack = append(stack, f)
		case "popok", "popsuicide", "popabort":
			if len(stack) == 0 {
				return nil, fmt.Errorf("pop without frame at step %d", i)
			}
			f := stack[len(stack)-1]
			f.pop, f.popStep = st, i
			stack = stack[:len(stack)-1]
			if len(stack) == 0 {
				cur.last = i
			}
		default:
			if len(stack) == 0 {
				return nil, fmt.Errorf("operation outside a frame at step %d", i)
			}
			f := stack[len(stack)-1]
			f.items = append(f.items, item{st: st})
		}
	}
	if len(segs) == 0 || len(stack) != 0 {
		return nil, fmt.Errorf("behaviour does not end with the end of a transaction")
	}
	return segs, nil
}

func childGas(depth int) uint64 { return uint64(1) << uint(60-6*(depth-1)) }

func claimInput() []byte {
	in := make([]byte, 64)
	copy(in[0:20], minerAddr.Bytes())
	copy(in[20:40], claimToAddr.Bytes())
	in[40] = lockByte
	binary.BigEndian.PutUint32(in[41:45], lockEpoch)
	binary.BigEndian.PutUint64(in[45:53], params.TxGas)
	return in
}

// assemble returns the code of frame f; codes of nested call/delegate frames are stored in `codes`
func assemble(u *Universe, f *frame, codes map[int][]byte) []byte {
	a := &asm{}
	a.mark() // observation of the push step
	for _, it := range f.items {
		st := it.st
		if it.child != nil {
			c := it.child
			code := assemble(u, c, codes)
			gas := childGas(c.depth)
			if c.pop.Op == "popabort" && c.pop.V == 3 && !c.hasChild {
				gas = 1000000 // leaf frame that really runs out of gas
			}
			switch c.kind {
			case 1:
				codes[c.codeAddr] = code
				a.zeros(4)
				a.push1(byte(c.value))
				a.push20(addrOf(c.codeAddr))
				a.push8(gas)
				a.op(opCALL, opPOP)
			case 2:
				codes[c.codeAddr] = code
				a.zeros(4)
				a.push20(addrOf(c.codeAddr))
				a.push8(gas)
				a.op(opDELEGATECALL, opPOP)
			case 3:
				a.push2(len(code))
				a.b = append(a.b, 0x61, 0, 0)
				a.fix = append(a.fix, len(a.b)-2)
				a.datas = append(a.datas, code)
				a.push1(0)
				a.op(opCODECOPY)
				a.push2(len(code))
				a.push1(0)
				a.push1(byte(c.value))
				a.op(opCREATE, opPOP)
			}
			a.mark() // observation of the child's pop step
			continue
		}
		switch st.Op {
		case "sstore":
			a.push1(byte(st.V))
			a.push1(byte(st.S))
			a.op(opSSTORE)
		case "tstore":
			a.push1(byte(st.V))
			a.push1(byte(st.S))
			a.op(opTSTORE)
		case "log":
			a.zeros(2)
			a.op(opLOG0)
		case "xfer":
			a.zeros(4)
			a.push1(1)
			a.push20(addrOf(st.A))
			a.op(opGAS, opCALL, opPOP)
		case "etx":
			a.zeros(6)
			a.push2(int(params.TxGas))
			a.push1(1)
			a.push20(extAddr)
			a.push1(0)
			a.op(opETX, opPOP)
		case "claim":
			in := claimInput()
			a.push32(in[0:32])
			a.push1(0)
			a.op(opMSTORE)
			a.push32(in[32:64])
			a.push1(32)
			a.op(opMSTORE)
			a.zeros(2)
			a.push1(53)
			a.zeros(2)
			a.push20(vm.LockupContractAddresses[[2]byte{0, 0}])
			a.op(opGAS, opCALL, opPOP)
		}
		a.mark()
	}
	switch f.pop.Op {
	case "popok":
		if f.kind == 3 {
			a.push1(1)
			a.push2(0x7000) // memory the program never writes
			a.op(opRETURN)  // one zero byte of runtime code = codeTable[3]
		} else {
			a.op(opSTOP)
		}
	case "popsuicide":
		a.push20(addrOf(u.Benef))
		a.op(opSELFDESTRUCT)
	case "popabort":
		switch f.pop.V {
		case 1:
			a.zeros(2)
			a.op(opREVERT)
		case 2:
			a.op(opINVALID)
		case 3:
			if f.kind != 3 && !f.hasChild && f.depth > 1 {
				// burn the (limited) gas of this leaf frame: keccak over 64 KiB in a loop
				start := len(a.b)
				a.op(opJUMPDEST)
				a.push2(0xffff)
				a.push1(0)
				a.op(opKECCAK, opPOP)
				a.push2(start)
				a.op(opJUMP)
			} else {
				// memory expansion that no gas can pay for
				ff := make([]byte, 32)
				for i := range ff {
					ff[i] = 0xff
				}
				a.push1(0)
				a.push32(ff)
				a.op(opMSTORE)
			}
		case 4:
			a.push2(0x6000) // 24 KiB of code: 4.9M gas to store, the transaction has 4M
			a.push1(0)
			a.op(opRETURN)
		}
	}
	return a.finish()
}

type obsTracer struct {
	run *evmRun
}

func (t *obsTracer) CaptureStart(env *vm.EVM, from common.Address, to common.Address, create bool, input []byte, gas uint64, value *big.Int) {
}
func (t *obsTracer) CaptureState(env *vm.EVM, pc uint64, op vm.OpCode, gas, cost uint64, scope *vm.ScopeContext, rData []byte, depth int, err error, nodeLocation common.Location) {
	if op == vm.PC && err == nil {
		t.run.observe(scope)
	}
}
func (t *obsTracer) CaptureFault(env *vm.EVM, pc uint64, op vm.OpCode, gas, cost uint64, scope *vm.ScopeContext, depth int, err error) {
}
func (t *obsTracer) CaptureEnd(output []byte, gasUsed uint64, tm time.Duration, err error) {}

type evmRun struct {
	w     *World
	steps []Step
	r     *resolver
	sl    *sideLists
	obs   []*Proj
	evm   *vm.EVM
	s     *state.StateDB
}

func (er *evmRun) observe(scope *vm.ScopeContext) {
	k := len(er.obs)
	if k < len(er.steps) && er.steps[k].Op == "push" && er.steps[k].S == 3 && scope != nil {
		a := er.steps[k].A
		if a >= 1 && a <= er.w.U.NAddr && !er.r.bound[a-1] {
			er.r.bind(a, scope.Contract.Address())
		}
	}
	er.obs = append(er.obs, project(er.s, er.r, er.sl))
}

var chainCfg = func() *params.ChainConfig {
	c := *params.TestChainConfig
	c.Location = common.Location{0, 0}
	return &c
}()

func blockCtx() vm.BlockContext {
	return vm.BlockContext{
		CanTransfer:         core.CanTransfer,
		Transfer:            core.Transfer,
		GetHash:             func(uint64) common.Hash { return common.Hash{} },
		CheckIfEtxEligible:  func(_ common.Hash, to common.Location) bool { return !to.Equal(closedLoc) },
		PrimaryCoinbase:     minerAddr,
		GasLimit:            1 << 62,
		BlockNumber:         big.NewInt(3500000),
		Time:                big.NewInt(1700000000),
		Difficulty:          big.NewInt(1),
		BaseFee:             big.NewInt(0),
		QuaiStateSize:       big.NewInt(1 << 20),
		PrimeTerminusNumber: 2000000,
	}
}
