package main

import (
	"fmt"
	"math/big"

	"github.com/dominant-strategies/go-quai/common"
	"github.com/dominant-strategies/go-quai/core/types"
	"github.com/dominant-strategies/go-quai/core/vm"
	"github.com/dominant-strategies/go-quai/ethdb"
)

func (p *Proj) digestNoRoot() string {
	q := *p
	q.Root, q.TrieSize = "", ""
	return q.digest()
}

// cloneBefore returns the state a frame must restore on failure: the observation before the frame was
// entered; for a create frame with the creator's nonce already incremented (evm.create bumps it before
// taking the snapshot, as in go-ethereum).
func cloneBefore(before *Proj, f *frame) *Proj {
	q := *before
	q.Acct = append([]AcctP(nil), before.Acct...)
	if f.kind == 3 && f.creator >= 1 {
		q.Acct[f.creator-1].Nonce++
	}
	return &q
}

func causeEvm(class string, accts []int, f *frame, span []Step) string {
	if f.pop.Op == "popabort" && f.pop.V == 4 {
		return "code-store-oog"
	}
	if class == "lockup.record" {
		for _, st := range span {
			if st.Op == "claim" {
				return "claim-in-reverted-span"
			}
		}
	}
	return causeJournal(class, accts, span)
}

func collectFrames(f *frame, out map[int]*frame) {
	out[f.popStep] = f
	for _, it := range f.items {
		if it.child != nil {
			collectFrames(it.child, out)
		}
	}
}

// evmExec = one executed EVM-level behaviour (one or more transactions on one StateDB / EVM / block batch)
// with everything needed to judge it
type evmExec struct {
	er       *evmRun
	segs     []*txSeg
	pre      *Proj
	callErrs []error // per executed transaction
	callErr  error   // of the last executed transaction
	panicked interface{}
	batch    ethdb.Batch
	ret      []byte
	execEnd  int // index of the last step that was executed (a transaction that goes off the rails stops the run)
}

// txHash: hash of the k-th transaction of the behaviour (StateDB.Prepare, TxContext.Hash)
func txHash(k int) common.Hash {
	if k == 0 {
		return thash
	}
	return common.BytesToHash([]byte{0xc1, 0x2c, byte(k)})
}

func execEvm(w *World, steps []Step) (*evmExec, error) {
	u := w.U
	segs, err := parseTxs(u, steps)
	if err != nil {
		return nil, err
	}
	codes := map[int][]byte{}
	for _, sg := range segs {
		codes[sg.root.codeAddr] = assemble(u, sg.root, codes)
	}
	s := w.NewState()
	r := newResolver(u)
	for k, c := range codes {
		s.SetCode(iaddr(addrOf(k)), c)
		r.codes[k] = c
	}
	s.Finalize(true)
	s.Prepare(txHash(0), 0)
	s.ConfigureAccessListChecks(false)
	batch := w.Raw.NewBatch()
	batch.SetPending(true)
	er := &evmRun{w: w, steps: steps, r: r, s: s}
	evm := vm.NewEVM(blockCtx(), vm.TxContext{Origin: senderAddr, GasPrice: big.NewInt(0), Hash: txHash(0)}, s, chainCfg,
		vm.Config{Debug: true, Tracer: &obsTracer{er}}, batch)
	er.evm = evm
	hashO := map[common.Hash]int{}
	for a := 1; a <= u.NAddr; a++ {
		if u.HasLock[a-1] {
			hashO[types.CoinbaseLockupHash(addrOf(a), minerAddr, common.Zero, lockByte, lockEpoch, big.NewInt(lockBalance), lockHeight, lockElems)] = a
		}
	}
	er.sl = &sideLists{evm: evm, batch: batch, raw: w.Raw, hashO: hashO}
	x := &evmExec{er: er, segs: segs, batch: batch}
	x.pre = project(s, r, er.sl)
	for k, sg := range segs {
		gas := uint64(1) << 60
		for _, st := range steps[sg.first : sg.last+1] {
			if st.Op == "popabort" && st.V == 4 {
				gas = 4000000
			}
		}
		var callErr error
		func() {
			defer func() { x.panicked = recover() }()
			x.ret, _, _, callErr = evm.Call(vm.AccountRef(senderAddr), addrOf(sg.root.codeAddr), nil, gas, new(big.Int))
		}()
		x.callErrs = append(x.callErrs, callErr)
		x.callErr = callErr
		x.execEnd = sg.last
		if x.panicked != nil {
			break
		}
		offRails := len(er.obs) != sg.last // one observation per step before the root frame's end
		if callErr != nil {
			evm.UndoCoinbasesDeleted() // core/state_processor.go applyTransaction, failed transaction
		}
		er.obs = append(er.obs, project(s, r, er.sl))
		if offRails || sg.txend < 0 {
			break
		}
		// between two transactions of a block (core/state_processor.go): TransitionDb has handed the ETX cache to the
		// result, applyTransaction finalises the state; the next transaction is prepared and the EVM reset
		evm.ETXCache = make([]*types.Transaction, 0)
		s.Finalize(true)
		s.Prepare(txHash(k+1), k+1)
		evm.Reset(vm.TxContext{Origin: senderAddr, GasPrice: big.NewInt(0), Hash: txHash(k + 1)}, s)
		er.obs = append(er.obs, project(s, r, er.sl))
		x.execEnd = sg.txend
	}
	return x, nil
}

// runTopXCall executes the one-step behaviour "a transaction to a Quai address in another zone" (spec action
// TopXCall): evm.Call(origin, foreign address, value 1).  S = 1: the destination zone may receive ETXs.
func runTopXCall(w *World, bi int, steps []Step, wantEvents bool) (fs []Finding, events []map[string]interface{}, nrev int, err error) {
	u := w.U
	st := steps[0]
	if len(steps) != 1 || st.A < 1 || st.A > u.NAddr {
		return nil, nil, 0, fmt.Errorf("xcall is a whole transaction")
	}
	s := w.NewState()
	r := newResolver(u)
	s.Finalize(true)
	s.Prepare(thash, 0)
	s.ConfigureAccessListChecks(false)
	batch := w.Raw.NewBatch()
	batch.SetPending(true)
	evm := vm.NewEVM(blockCtx(), vm.TxContext{Origin: addrOf(st.A), GasPrice: big.NewInt(0), Hash: thash}, s, chainCfg, vm.Config{}, batch)
	sl := &sideLists{evm: evm, batch: batch, raw: w.Raw, hashO: map[common.Hash]int{}}
	pre := project(s, r, sl)
	// the recipient as this zone's node decodes it from the transaction (an external address here)
	to := common.BytesToAddress(extAddrClosed.Bytes(), loc)
	if st.S == 1 {
		to = common.BytesToAddress(extAddr.Bytes(), loc)
	}
	var callErr error
	var panicked interface{}
	func() {
		defer func() { panicked = recover() }()
		_, _, _, callErr = evm.Call(vm.AccountRef(addrOf(st.A)), to, nil, uint64(1)<<40, big.NewInt(st.V))
	}()
	post := project(s, r, sl)
	mkf := func(kind, class, cause string, accts []int, exp, got interface{}, detail string) Finding {
		return Finding{Level: "evm", Kind: kind, At: fmt.Sprintf("xcall(%d)", st.S), Diff: class, Cause: cause, Accounts: accts, Universe: u.Name,
			Behaviour: bi, StepIdx: 0, Expected: exp, Got: got, Detail: detail, Steps: steps}
	}
	if panicked != nil {
		return []Finding{mkf("panic", "panic", "", nil, nil, fmt.Sprint(panicked), "evm.Call panicked")}, nil, 0, nil
	}
	got := post.flat(u)
	seen := map[string]bool{}
	if st.S != 1 {
		nrev++
		classes, accts := diffProj(pre, post)
		for _, c := range classes {
			seen[c] = true
			fs = append(fs, mkf("revert-not-restored", c, "failed-cross-zone-call", accts[c], pre.brief(c), post.brief(c),
				"state after the failed transaction to a zone that cannot receive ETXs differs from the state before it"))
		}
	}
	if (callErr != nil) != (st.S != 1) {
		fs = append(fs, mkf("spec-mismatch", "control-flow", "", nil, st.S != 1, fmt.Sprint(callErr), "outcome of the top-level call"))
	}
	if st.Vis != nil {
		for _, c := range diffFlat(u, st.Vis, got, true) {
			if !seen[c] {
				fs = append(fs, mkf("spec-mismatch", c, "", nil, st.Vis, got, "observed abstract state differs from the specified one"))
			}
		}
	}
	if wantEvents {
		res := "ok"
		if callErr != nil {
			res = "fail"
		}
		events = append(events, map[string]interface{}{"op": st.Op, "a": st.A, "s": st.S, "v": st.V, "id": st.ID, "res": []interface{}{res},
			"vis": got, "dg": post.digestNoRoot(), "lvl": "e", "pre": pre.digestNoRoot()})
	}
	return
}

// runEvm executes one EVM-level behaviour.  Findings of the first deviating step, trace events.
func runEvm(w *World, bi int, steps []Step, wantEvents bool) (fs []Finding, events []map[string]interface{}, nrev int, err error) {
	if len(steps) > 0 && steps[0].Op == "xcall" {
		return runTopXCall(w, bi, steps, wantEvents)
	}
	u := w.U
	nspec := len(steps)
	steps = completeFrames(steps)
	x, err := execEvm(w, steps)
	if err != nil {
		return nil, nil, 0, err
	}
	er, pre, panicked := x.er, x.pre, x.panicked
	frames := map[int]*frame{}
	segEnd := map[int]int{} // index of a transaction's last step -> transaction number
	for k, sg := range x.segs {
		collectFrames(sg.root, frames)
		segEnd[sg.last] = k
	}

	mkf := func(i int, kind, class, cause string, accts []int, exp, got interface{}, detail string) Finding {
		at := steps[i].Op
		if at == "popabort" {
			at = fmt.Sprintf("popabort(%d)", steps[i].V)
		}
		return Finding{Level: "evm", Kind: kind, At: at, Diff: class, Cause: cause, Accounts: accts, Universe: u.Name,
			Behaviour: bi, StepIdx: i, Expected: exp, Got: got, Detail: detail, Steps: steps[:i+1]}
	}
	if panicked != nil {
		fs = append(fs, mkf(x.execEnd, "panic", "panic", "", nil, nil, fmt.Sprint(panicked), "evm.Call panicked"))
		return
	}
	for i := range steps {
		st := steps[i]
		if i >= len(er.obs) || (i == x.execEnd && len(er.obs) != x.execEnd+1) {
			fs = append(fs, mkf(i, "spec-mismatch", "control-flow", "", nil, x.execEnd+1, len(er.obs),
				fmt.Sprintf("the program produced %d observations for %d steps (a frame ended where the spec does not end it); call errors: %v", len(er.obs), x.execEnd+1, x.callErrs)))
			return
		}
		p := er.obs[i]
		got := p.flat(u)
		ev := map[string]interface{}{"op": st.Op, "a": st.A, "s": st.S, "v": st.V, "id": st.ID, "res": []interface{}{"ok"},
			"vis": got, "dg": p.digestNoRoot(), "lvl": "e", "pre": ""}
		var here []Finding
		seen := map[string]bool{}
		if st.Op == "push" {
			// the state this frame must leave behind if it fails
			f := (*frame)(nil)
			for _, fr := range frames {
				if fr.pushStep == i {
					f = fr
				}
			}
			before := pre
			if i > 0 {
				before = er.obs[i-1]
			}
			ev["pre"] = cloneBefore(before, f).digestNoRoot()
		}
		if st.Op == "popabort" {
			f := frames[i]
			before := pre
			if f.pushStep > 0 {
				before = er.obs[f.pushStep-1]
			}
			nrev++
			classes, accts := diffProj(cloneBefore(before, f), p)
			span := steps[f.pushStep+1 : i]
			causes := assignCauses(classes, accts, func(c string, ac []int) string { return causeEvm(c, ac, f, span) })
			for _, c := range classes {
				if f.kind == 3 && (c == "root" || c == "triesize") {
					continue // the creator's nonce increment legitimately changes the commitment
				}
				seen[c] = true
				here = append(here, mkf(i, "revert-not-restored", c, causes[c], accts[c], cloneBefore(before, f).brief(c), p.brief(c),
					fmt.Sprintf("state after the failed %s frame (snapshot %d) differs from the state before it was entered", []string{"", "call", "delegatecall", "create"}[f.kind], st.ID)))
			}
		}
		if k, ok := segEnd[i]; ok && k < len(x.callErrs) {
			wantErr := st.Op == "popabort"
			if (x.callErrs[k] != nil) != wantErr {
				here = append(here, mkf(i, "spec-mismatch", "control-flow", "", nil, wantErr, fmt.Sprint(x.callErrs[k]), "outcome of the top-level call"))
			}
		}
		if st.Vis != nil {
			for _, c := range diffFlat(u, st.Vis, got, true) {
				if !seen[c] {
					here = append(here, mkf(i, "spec-mismatch", c, "", nil, st.Vis, got, "observed abstract state differs from the specified one"))
				}
			}
		}
		if wantEvents && i < nspec {
			events = append(events, ev)
		}
		if len(here) > 0 {
			fs = append(fs, here...)
			return
		}
	}
	return
}
