package main

import (
	"encoding/json"
	"flag"
	"fmt"
	"math/big"
	"os"

	"github.com/dominant-strategies/go-quai/core/rawdb"
)

// The minimal programs behind the deviations listed in /verif/known-findings.json, executed on fresh
// databases, with the concrete values observed on the real code (evidence; the verdicts come from replay).

func lockupState(w *World, x *evmExec, owner int) map[string]interface{} {
	bal, h, el, _ := rawdb.ReadCoinbaseLockup(w.Raw, x.batch, addrOf(owner), minerAddr, lockByte, lockEpoch)
	out := map[string]interface{}{"visible_through_batch": h != 0, "balance": bal.String(), "unlock_height": h, "elements": el,
		"etx_cache_len": len(x.er.evm.ETXCache), "deleted_hashes_len": len(x.er.evm.CoinbaseDeletedHashes), "deleted_map_len": len(x.er.evm.CoinbasesDeleted)}
	must(x.batch.Write())
	raw, _ := w.Raw.Get(rawdb.CoinbaseLockupKey(addrOf(owner), minerAddr, lockByte, lockEpoch))
	out["present_in_database_after_batch_write"] = len(raw) != 0
	return out
}

func cmdScenario(args []string) {
	fs := flag.NewFlagSet("scenario", flag.ExitOnError)
	out := fs.String("out", "", "")
	fs.Parse(args)
	rep := map[string]interface{}{}
	u := universes()["evm"]

	// F4a: K1 calls K2; K2 claims its coinbase lockup through the lockup precompile, then REVERTs; K1 returns normally.
	{
		w := buildWorld(u)
		steps := []Step{{Op: "push", A: 1, S: 1}, {Op: "push", A: 2, S: 1, ID: 1}, {Op: "claim", A: 2}, {Op: "popabort", A: 2, V: 1, ID: 1}, {Op: "popok", A: 1}}
		x, err := execEvm(w, steps)
		must(err)
		r := lockupState(w, x, 2)
		r["program"] = "tx -> K1: CALL K2 { CALL lockup.claim(miner,to,0,epoch 1) ; REVERT } ; STOP"
		r["tx_error"] = fmt.Sprint(x.callErr)
		r["expected"] = "the inner frame reverted, the transaction succeeded and carries no ETX: the lockup (balance 7) must still exist"
		rep["F4_inner_frame_reverts_after_claim"] = r
	}
	// F4b: the transaction's only frame claims and then fails (INVALID): applyTransaction calls UndoCoinbasesDeleted
	{
		w := buildWorld(u)
		steps := []Step{{Op: "push", A: 1, S: 1}, {Op: "claim", A: 1}, {Op: "popabort", A: 1, V: 2}}
		x, err := execEvm(w, steps)
		must(err)
		r := lockupState(w, x, 1)
		r["program"] = "tx -> K1: CALL lockup.claim(...) ; INVALID   (then evm.UndoCoinbasesDeleted as in applyTransaction)"
		r["tx_error"] = fmt.Sprint(x.callErr)
		r["expected"] = "failed transaction: the lockup must still exist"
		rep["F4_whole_transaction_fails_after_claim"] = r
	}
	// F5: create whose init code stores, logs, receives value and then cannot pay for its 24 KiB of code
	{
		w := buildWorld(u)
		steps := []Step{{Op: "push", A: 1, S: 1}, {Op: "push", A: 8, S: 3, V: 1, ID: 1}, {Op: "sstore", A: 8, S: 1, V: 2}, {Op: "log", A: 8},
			{Op: "popabort", A: 8, V: 4, ID: 1}, {Op: "popok", A: 1}}
		x, err := execEvm(w, steps)
		must(err)
		p := x.er.obs[len(x.er.obs)-1]
		c := p.Acct[7]
		rep["F5_create_code_store_out_of_gas"] = map[string]interface{}{
			"program":  "tx (4M gas) -> K1: CREATE(value 1){ SSTORE(1,2); LOG0; RETURN 24576 bytes } ; STOP",
			"tx_error": fmt.Sprint(x.callErr),
			"created_account": map[string]interface{}{"exists": c.Ex, "nonce": c.Nonce, "balance": c.Bal, "slot1": c.Stor[0], "code_len": c.CodeLen,
				"address": fmt.Sprintf("%x", x.er.r.addr[7].Bytes())},
			"logs_kept": len(p.Logs), "creator_balance": p.Acct[0].Bal,
			"expected": "create failed with ErrCodeStoreOutOfGas (CREATE pushes 0): account, value transfer, storage and log of the failed frame must be gone",
		}
	}
	// suicide-size: SELFDESTRUCT inside a frame whose parent fails; then the surviving contract clears a slot
	{
		w := buildWorld(u)
		steps := []Step{{Op: "push", A: 1, S: 1}, {Op: "push", A: 2, S: 1, ID: 1}, {Op: "popsuicide", A: 2, ID: 1}, {Op: "popabort", A: 1, V: 1}}
		x, err := execEvm(w, steps)
		must(err)
		s := x.er.s
		k2 := iaddr(addrOf(2))
		r := map[string]interface{}{
			"program":         "tx -> K1: CALL K2 { SELFDESTRUCT } ; REVERT      (K2 has one committed storage slot, size counter 1)",
			"tx_error":        fmt.Sprint(x.callErr),
			"size_before":     x.pre.Acct[1].Size,
			"size_after":      s.GetSize(k2).String(),
			"suicided_after":  s.HasSuicided(k2),
			"slot1_after":     hash64(s.GetState(k2, slotKey(1))),
			"expected":        "the failed transaction leaves K2 untouched: size counter 1",
			"follow_up":       "next transaction in the block: K2 clears its slot (SetState(K2, 1, 0)); IntermediateRoot",
		}
		s.Finalize(true)
		s.SetState(k2, slotKey(1), slotVal(0))
		func() {
			defer func() {
				if p := recover(); p != nil {
					r["follow_up_result"] = "panic: " + fmt.Sprint(p)
				}
			}()
			root := s.IntermediateRoot(true)
			r["follow_up_result"] = "root " + root.Hex() + " size " + s.GetSize(k2).String()
		}()
		rep["suicide_size_counter_not_journaled"] = r
	}
	// the same at the StateDB interface
	{
		w := buildWorld(universes()["j1"])
		s := w.NewState()
		a1 := iaddr(addrOf(1))
		before := new(big.Int).Set(s.GetSize(a1))
		id := s.Snapshot()
		s.Suicide(a1)
		s.RevertToSnapshot(id)
		rep["suicide_size_counter_statedb"] = map[string]interface{}{"calls": "Snapshot; Suicide(a1); RevertToSnapshot", "size_before": before.String(), "size_after": s.GetSize(a1).String()}
	}
	b, _ := json.MarshalIndent(rep, "", " ")
	if *out != "" {
		must(os.WriteFile(*out, b, 0o644))
	} else {
		fmt.Println(string(b))
	}
}
