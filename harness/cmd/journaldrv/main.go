// journaldrv binds spec/Journal.tla to the real journaled state of go-quai (C12).
//
//	journaldrv replay -level journal|evm -universe U -in behaviours.ndjson -out result.json [-trace t.ndjson -tracemod K]
//	    Every behaviour (JSON array of the spec's hist records: call, specified result, specified visible
//	    state) is executed on the real code - level journal: state.StateDB mutators, Snapshot,
//	    RevertToSnapshot; level evm: compiled to bytecode and run by vm.EVM.Call - and after every step
//	    the projection of the real state is compared (a) with the spec's state, (b) at every revert with
//	    the projection captured when the snapshot was taken / before the frame was entered.
//	journaldrv random -seed S -n N -len L -depth D -out trace.ndjson
//	    seeded long random call sequences on a real StateDB over a larger universe, one event per call
//	    with the observed state, for validation by spec/JournalTrace.tla.
//	journaldrv scenario -out report.json
//	    the minimal programs behind the known findings, with the concrete values observed.
package main

import (
	"bufio"
	"encoding/json"
	"flag"
	"fmt"
	"io"
	"math/rand"
	"os"
	"sort"
	"sync"

	"github.com/dominant-strategies/go-quai/core/vm"
	"github.com/dominant-strategies/go-quai/log"
)

func must(err error) {
	if err != nil {
		fmt.Fprintln(os.Stderr, "journaldrv fatal:", err)
		os.Exit(3)
	}
}

func readBehaviours(path string) [][]Step {
	f, err := os.Open(path)
	must(err)
	defer f.Close()
	sc := bufio.NewScanner(f)
	sc.Buffer(make([]byte, 1<<20), 1<<28)
	var out [][]Step
	for sc.Scan() {
		if len(sc.Bytes()) == 0 {
			continue
		}
		var b []Step
		if err := json.Unmarshal(sc.Bytes(), &b); err != nil {
			must(fmt.Errorf("behaviour %d: %v", len(out), err))
		}
		out = append(out, b)
	}
	must(sc.Err())
	return out
}

func sigOf(f *Finding) string { return f.Level + "|" + f.Kind + "|" + f.Diff + "|" + f.Cause }

func cmdReplay(args []string) {
	fs := flag.NewFlagSet("replay", flag.ExitOnError)
	level := fs.String("level", "journal", "journal|evm")
	uni := fs.String("universe", "j1", "")
	in := fs.String("in", "", "")
	out := fs.String("out", "", "")
	trace := fs.String("trace", "", "write implementation traces (ndjson)")
	tracemod := fs.Int("tracemod", 1, "log every K-th behaviour only")
	maxfind := fs.Int("maxfind", 3, "findings kept per signature")
	workers := fs.Int("workers", 8, "")
	fs.Parse(args)
	u := universes()[*uni]
	if u == nil {
		must(fmt.Errorf("unknown universe %s", *uni))
	}
	w := buildWorld(u)
	behs := readBehaviours(*in)
	type result struct {
		fs     []Finding
		events []map[string]interface{}
		nrev   int
		err    error
	}
	results := make([]result, len(behs))
	var wg sync.WaitGroup
	ch := make(chan int, 1024)
	for k := 0; k < *workers; k++ {
		wg.Add(1)
		go func() {
			defer wg.Done()
			for bi := range ch {
				want := *trace != "" && bi%*tracemod == 0
				var r result
				if *level == "evm" {
					r.fs, r.events, r.nrev, r.err = runEvm(w, bi, behs[bi], want)
				} else {
					r.fs, r.events, r.nrev = runJournal(w, bi, behs[bi], want)
				}
				results[bi] = r
			}
		}()
	}
	for bi := range behs {
		ch <- bi
	}
	close(ch)
	wg.Wait()
	sigCount := map[string]int{}
	kept := map[string]int{}
	findings := []Finding{}
	deviations := [][]interface{}{}
	ops := map[string]int{}
	steps, nrev, clean, broken := 0, 0, 0, []string{}
	var tw *bufio.Writer
	if *trace != "" {
		f, err := os.Create(*trace)
		must(err)
		defer f.Close()
		tw = bufio.NewWriter(f)
		defer tw.Flush()
	}
	ntr := 0
	for bi, r := range results {
		if r.err != nil {
			if len(broken) < 5 {
				broken = append(broken, fmt.Sprintf("behaviour %d: %v", bi, r.err))
			}
			continue
		}
		for _, st := range behs[bi] {
			ops[st.Op]++
		}
		steps += len(behs[bi])
		nrev += r.nrev
		if len(r.fs) == 0 {
			clean++
		}
		for i := range r.fs {
			s := sigOf(&r.fs[i])
			sigCount[s]++
			deviations = append(deviations, []interface{}{bi, r.fs[i].StepIdx, s})
			if kept[s] < *maxfind {
				kept[s]++
				findings = append(findings, r.fs[i])
			}
		}
		if tw != nil && len(r.events) > 0 {
			writeTrace(tw, u.Name, bi, r.events)
			ntr++
		}
	}
	// shortest reproductions first
	sort.SliceStable(findings, func(i, j int) bool { return len(findings[i].Steps) < len(findings[j].Steps) })
	res := map[string]interface{}{"level": *level, "universe": u.Name, "behaviours": len(behs), "clean": clean, "steps": steps,
		"reverts_judged": nrev, "signatures": sigCount, "findings": findings, "deviations": deviations, "ops": ops, "broken": broken, "traces": ntr}
	b, _ := json.MarshalIndent(res, "", " ")
	must(os.WriteFile(*out, b, 0o644))
}

func writeTrace(tw *bufio.Writer, uni string, n int, events []map[string]interface{}) {
	enc := json.NewEncoder(tw)
	enc.Encode(map[string]interface{}{"op": "tracereset", "a": 0, "s": 0, "v": 0, "id": 0, "res": []interface{}{"init"}, "u": uni, "trace": n,
		"vis": (&Proj{}).flat(&Universe{}), "dg": "", "lvl": "", "pre": ""})
	for _, ev := range events {
		ev["trace"] = n
		if _, ok := ev["pre"]; !ok {
			ev["pre"] = ""
		}
		enc.Encode(ev)
	}
}

func cmdRandom(args []string) {
	fs := flag.NewFlagSet("random", flag.ExitOnError)
	seed := fs.Int64("seed", 1, "")
	n := fs.Int("n", 20, "traces")
	ln := fs.Int("len", 300, "calls per trace")
	depth := fs.Int("depth", 5, "max live snapshots")
	out := fs.String("out", "", "")
	res := fs.String("res", "", "result json (findings of the snapshot/revert oracle)")
	fs.Parse(args)
	u := universes()["jt"]
	w := buildWorld(u)
	rnd := rand.New(rand.NewSource(*seed))
	f, err := os.Create(*out)
	must(err)
	defer f.Close()
	tw := bufio.NewWriter(f)
	defer tw.Flush()
	total, nrev := 0, 0
	sigCount := map[string]int{}
	findings := []Finding{}
	deviations := [][]interface{}{}
	for t := 0; t < *n; t++ {
		// (a world of its own per trace: block boundaries commit into the state database)
		steps := genJournalTrace(buildWorld(u), rnd, *ln, *depth, t%2 == 0)
		fsx, events, nr := runJournal(w, t, steps, true)
		nrev += nr
		total += len(events)
		for i := range fsx {
			s := sigOf(&fsx[i])
			deviations = append(deviations, []interface{}{t, fsx[i].StepIdx, s})
			if sigCount[s] == 0 {
				findings = append(findings, fsx[i])
			}
			sigCount[s]++
		}
		writeTrace(tw, u.Name, t, events)
	}
	b, _ := json.MarshalIndent(map[string]interface{}{"traces": *n, "events": total, "reverts_judged": nrev, "signatures": sigCount, "findings": findings, "deviations": deviations}, "", " ")
	if *res != "" {
		must(os.WriteFile(*res, b, 0o644))
	}
	fmt.Printf("{\"traces\":%d,\"events\":%d,\"reverts_judged\":%d}\n", *n, total, nrev)
}

func main() {
	if len(os.Args) < 2 {
		fmt.Fprintln(os.Stderr, "usage: journaldrv replay|random|scenario ...")
		os.Exit(2)
	}
	log.Global.SetOutput(io.Discard)
	vm.InitializePrecompiles(loc)
	switch os.Args[1] {
	case "replay":
		cmdReplay(os.Args[2:])
	case "random":
		cmdRandom(os.Args[2:])
	case "scenario":
		cmdScenario(os.Args[2:])
	default:
		os.Exit(2)
	}
}
