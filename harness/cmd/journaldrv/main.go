package main

import (
	"fmt"
	"io"
	"math/big"
	"time"

	"github.com/dominant-strategies/go-quai/common"
	"github.com/dominant-strategies/go-quai/core/rawdb"
	"github.com/dominant-strategies/go-quai/core/state"
	"github.com/dominant-strategies/go-quai/log"
)

func main() {
	log.Global.SetOutput(io.Discard)
	loc := common.Location{0, 0}
	mk := func(b byte) common.InternalAddress {
		bs := make([]byte, 20)
		bs[1] = 0x10
		bs[19] = b
		ia, err := common.BytesToAddress(bs, loc).InternalAndQuaiAddress()
		if err != nil {
			panic(err)
		}
		return ia
	}
	db := state.NewDatabase(rawdb.NewMemoryDatabase(log.Global))
	edb := state.NewDatabase(rawdb.NewMemoryDatabase(log.Global))
	s, err := state.New(common.Hash{}, common.Hash{}, new(big.Int), db, edb, nil, loc, log.Global)
	if err != nil {
		panic(err)
	}
	a1, a2 := mk(1), mk(2)
	s.SetBalance(a1, big.NewInt(5))
	s.SetCode(a1, []byte{0})
	s.SetNonce(a1, 1)
	s.SetState(a1, common.BigToHash(big.NewInt(1)), common.BigToHash(big.NewInt(1)))
	s.SetBalance(a2, big.NewInt(3))
	root, err := s.Commit(true)
	fmt.Println("root", root, err, "size", s.GetQuaiTrieSize())
	if err := db.TrieDB().Commit(root, false, nil); err != nil {
		fmt.Println("triedb commit", err)
	}
	s2, err := state.New(root, common.Hash{}, s.GetQuaiTrieSize(), db, edb, nil, loc, log.Global)
	if err != nil {
		panic(err)
	}
	fmt.Println("a1 size", s2.GetSize(a1), "bal", s2.GetBalance(a1), "st", s2.GetState(a1, common.BigToHash(big.NewInt(1))))
	id := s2.Snapshot()
	r0 := s2.Copy().IntermediateRoot(true)
	s2.Suicide(a1)
	s2.RevertToSnapshot(id)
	fmt.Println("after revert: a1 size", s2.GetSize(a1), "bal", s2.GetBalance(a1), "suicided", s2.HasSuicided(a1))
	r1 := s2.Copy().IntermediateRoot(true)
	fmt.Println("roots equal", r0 == r1, r0, r1)
	t := time.Now()
	for i := 0; i < 1000; i++ {
		c := s2.Copy()
		c.IntermediateRoot(true)
	}
	fmt.Println("copy+root", time.Since(t)/1000)
	// negative size?
	s2.SetState(a1, common.BigToHash(big.NewInt(1)), common.Hash{})
	func() {
		defer func() { fmt.Println("recover:", recover()) }()
		c := s2.Copy()
		fmt.Println("root after clearing slot", c.IntermediateRoot(true), "size", c.GetSize(a1))
	}()
}
