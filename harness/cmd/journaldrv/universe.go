package main

import (
	"fmt"
	"math/big"

	"github.com/dominant-strategies/go-quai/common"
	"github.com/dominant-strategies/go-quai/core/rawdb"
	"github.com/dominant-strategies/go-quai/core/state"
	"github.com/dominant-strategies/go-quai/ethdb"
	"github.com/dominant-strategies/go-quai/log"
)

var loc = common.Location{0, 0}

// GenAcct mirrors one entry of the Genesis constant of spec/MCJournal.tla / spec/JournalTrace.tla.
type GenAcct struct {
	Ex    bool
	Bal   int64
	Nonce uint64
	Code  int
	Stor  []int64
	Size  int64
}

// Universe = the constants of one model configuration (must mirror the .tla constant of the same name).
type Universe struct {
	Name    string
	NAddr   int
	NSlot   int
	Gen     []GenAcct // index a-1
	HasLock []bool
	// EVM level
	FrameAddr []int
	NewAddrs  []int
	Benef     int
	Ext       bool // EVM level universe
}

func acc(bal int64, nonce uint64, code int, stor []int64, size int64) GenAcct {
	return GenAcct{true, bal, nonce, code, stor, size}
}

func universes() map[string]*Universe {
	z1 := []int64{0}
	z2 := []int64{0, 0}
	m := map[string]*Universe{}
	// GenJ1 / GenJ2 of MCJournal.tla
	m["j1"] = &Universe{Name: "j1", NAddr: 3, NSlot: 1,
		Gen:     []GenAcct{acc(2, 1, 1, []int64{1}, 1), acc(1, 0, 0, z1, 0), {Stor: z1}},
		HasLock: []bool{false, false, false}}
	m["j2"] = &Universe{Name: "j2", NAddr: 3, NSlot: 2,
		Gen:     []GenAcct{acc(2, 1, 1, []int64{1, 0}, 1), acc(1, 0, 0, z2, 0), {Stor: z2}},
		HasLock: []bool{false, false, false}}
	// GenT of JournalTrace.tla: two contracts with committed storage, a plain account, an absent one
	m["jt"] = &Universe{Name: "jt", NAddr: 4, NSlot: 2,
		Gen: []GenAcct{acc(5, 1, 1, []int64{1, 2}, 2), acc(3, 2, 1, []int64{0, 1}, 1), acc(4, 0, 0, z2, 0), {Stor: z2}},
		HasLock: []bool{false, false, false, false}}
	// GenE of MCJournal.tla
	m["evm"] = &Universe{Name: "evm", NAddr: 10, NSlot: 1, Ext: true,
		Gen: []GenAcct{acc(2, 1, 1, z1, 0), acc(1, 1, 1, []int64{1}, 1), acc(1, 1, 1, z1, 0), acc(0, 1, 1, z1, 0), acc(1, 1, 1, z1, 0),
			acc(1, 0, 0, z1, 0), {Stor: z1}, {Stor: z1}, {Stor: z1}, {Stor: z1}},
		HasLock:   []bool{true, true, true, true, true, false, false, false, false, false},
		FrameAddr: []int{1, 2, 3, 4, 5}, NewAddrs: []int{8, 9, 10}, Benef: 6}
	// GenEL of JournalTrace.tla (long EVM behaviours from TLC simulation): K1..K8, E = 9, N = 10, C1..C4 = 11..14
	m["evml"] = &Universe{Name: "evml", NAddr: 14, NSlot: 1, Ext: true,
		Gen: []GenAcct{acc(3, 1, 1, z1, 0), acc(1, 1, 1, []int64{1}, 1), acc(1, 1, 1, z1, 0), acc(0, 1, 1, z1, 0), acc(1, 1, 1, z1, 0),
			acc(2, 1, 1, []int64{2}, 1), acc(1, 1, 1, z1, 0), acc(1, 1, 1, z1, 0),
			acc(1, 0, 0, z1, 0), {Stor: z1}, {Stor: z1}, {Stor: z1}, {Stor: z1}, {Stor: z1}},
		HasLock:   []bool{true, true, true, true, true, true, true, true, false, false, false, false, false, false},
		FrameAddr: []int{1, 2, 3, 4, 5, 6, 7, 8}, NewAddrs: []int{11, 12, 13, 14}, Benef: 9}
	return m
}

// ---- abstract <-> concrete

// address of abstract account a (valid in-zone Quai address for location {0,0})
func addrOf(a int) common.Address {
	b := make([]byte, 20)
	b[0] = 0x00
	b[1] = 0x10
	b[18] = 0xc1
	b[19] = byte(a)
	return common.BytesToAddress(b, loc)
}

func iaddr(a common.Address) common.InternalAddress {
	ia, err := a.InternalAndQuaiAddress()
	if err != nil {
		panic(fmt.Sprintf("address %x not internal: %v", a.Bytes(), err))
	}
	return ia
}

func slotKey(s int) common.Hash   { return common.BigToHash(big.NewInt(int64(s))) }
func slotVal(v int64) common.Hash { return common.BigToHash(big.NewInt(v)) }

var codeTable = map[int][]byte{0: nil, 1: {0x5b, 0x01}, 2: {0x5b, 0x02, 0x02}, 3: {0x00}}

func codeID(b []byte) int {
	for id, c := range codeTable {
		if string(c) == string(b) {
			return id
		}
	}
	return -1
}

// sender of the top-level call, the miner that owns the lockups' rewards, the ETX destination (zone 0,1)
var (
	senderAddr = func() common.Address {
		b := make([]byte, 20)
		b[1] = 0x20
		b[19] = 0xee
		return common.BytesToAddress(b, loc)
	}()
	minerAddr = func() common.Address {
		b := make([]byte, 20)
		b[1] = 0x21
		b[19] = 0xaa
		return common.BytesToAddress(b, loc)
	}()
	claimToAddr = func() common.Address {
		b := make([]byte, 20)
		b[1] = 0x22
		b[19] = 0xbb
		return common.BytesToAddress(b, loc)
	}()
	// a zone that is not (yet) eligible to receive ETXs, and a Quai address in it
	closedLoc     = common.Location{0, 2}
	extAddrClosed = func() common.Address {
		b := make([]byte, 20)
		b[0] = 0x02
		b[1] = 0x23
		b[19] = 0xcd
		return common.BytesToAddress(b, common.Location{0, 2})
	}()
	extAddr = func() common.Address {
		b := make([]byte, 20)
		b[0] = 0x01
		b[1] = 0x23
		b[19] = 0xcc
		return common.BytesToAddress(b, common.Location{0, 1})
	}()
)

const (
	lockByte    = byte(0)
	lockEpoch   = uint32(1)
	lockBalance = int64(7)
	lockHeight  = uint32(100)
	lockElems   = uint16(1)
)

// World = committed pre-state of a universe: one raw database, the genesis root.
type World struct {
	U        *Universe
	Raw      ethdb.Database
	DB       state.Database
	EtxDB    state.Database
	Root     common.Hash
	TrieSize *big.Int
}

func buildWorld(u *Universe) *World {
	raw := rawdb.NewMemoryDatabase(log.Global)
	db := state.NewDatabase(raw)
	edb := state.NewDatabase(rawdb.NewMemoryDatabase(log.Global))
	s, err := state.New(common.Hash{}, common.Hash{}, new(big.Int), db, edb, nil, loc, log.Global)
	must(err)
	for i, g := range u.Gen {
		if !g.Ex {
			continue
		}
		a := iaddr(addrOf(i + 1))
		s.SetBalance(a, big.NewInt(g.Bal))
		s.SetNonce(a, g.Nonce)
		if g.Code != 0 {
			s.SetCode(a, codeTable[g.Code])
		}
		for k, v := range g.Stor {
			if v != 0 {
				s.SetState(a, slotKey(k+1), slotVal(v))
			}
		}
	}
	if u.Ext {
		s.SetBalance(iaddr(senderAddr), big.NewInt(1000000))
	}
	root, err := s.Commit(true)
	must(err)
	must(db.TrieDB().Commit(root, false, nil))
	w := &World{U: u, Raw: raw, DB: db, EtxDB: edb, Root: root, TrieSize: new(big.Int).Set(s.GetQuaiTrieSize())}
	// check the committed size counters against the universe definition (they are computed by the code)
	chk := w.NewState()
	for i, g := range u.Gen {
		if got := chk.GetSize(iaddr(addrOf(i + 1))).Int64(); got != g.Size {
			must(fmt.Errorf("universe %s: genesis size of account %d is %d, universe says %d", u.Name, i+1, got, g.Size))
		}
	}
	for i, h := range u.HasLock {
		if h {
			_, err := rawdb.WriteCoinbaseLockup(raw, addrOf(i+1), minerAddr, lockByte, lockEpoch, big.NewInt(lockBalance), lockHeight, lockElems, common.Zero)
			must(err)
		}
	}
	return w
}

// StateAt opens a new StateDB at a root committed into this world's database
func (w *World) StateAt(root common.Hash, trieSize *big.Int) (*state.StateDB, error) {
	return state.New(root, common.Hash{}, new(big.Int).Set(trieSize), w.DB, w.EtxDB, nil, loc, log.Global)
}

func (w *World) NewState() *state.StateDB {
	s, err := state.New(w.Root, common.Hash{}, new(big.Int).Set(w.TrieSize), w.DB, w.EtxDB, nil, loc, log.Global)
	must(err)
	return s
}
