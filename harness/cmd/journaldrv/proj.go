package main

import (
	"crypto/sha256"
	"encoding/hex"
	"encoding/json"
	"fmt"
	"math"
	"math/big"
	"sort"
	"strings"

	"github.com/dominant-strategies/go-quai/common"
	"github.com/dominant-strategies/go-quai/core/rawdb"
	"github.com/dominant-strategies/go-quai/core/state"
	"github.com/dominant-strategies/go-quai/core/types"
	"github.com/dominant-strategies/go-quai/core/vm"
	"github.com/dominant-strategies/go-quai/ethdb"
)

// ---- the projection: everything the property talks about, read through the public getters only

type AcctP struct {
	Ex    bool
	Bal   int64
	Nonce uint64
	Code  int
	Size  int64
	Dead  bool
	Stor  []int64
	// extras: compared only between a snapshot and the state after reverting to it
	Empty     bool
	CodeHash  string
	CodeLen   int
	Committed []string
	SizeCopy  int64 // size counter after IntermediateRoot on a copy
}

type LogP struct {
	Addr    int
	Topics  []string
	Data    string
	Index   uint
	TxHash  string
	TxIndex uint
}

type Proj struct {
	Acct   []AcctP
	Refund uint64
	Logs   []LogP
	Preim  []int
	AA     []int
	AS     [][2]int
	T      [][3]int64
	X      [][2]int // ETXCache: (1 = ETX opcode, 2 = lockup claim, else 100+type), sender
	H      []int    // CoinbaseDeletedHashes -> owner
	M      []int    // CoinbasesDeleted keys -> owner
	D      []int    // owners whose lockup record is not visible through the batch any more
	// extras
	Root     string
	TrieSize string
}

// resolver maps abstract account numbers to concrete addresses (created contracts are bound at run time)
type resolver struct {
	u     *Universe
	addr  []common.Address // index a-1; zero value = unbound
	bound []bool
	back  map[common.AddressBytes]int
	codes map[int][]byte // per-behaviour code of frame contracts (abstract code id 1)
}

func newResolver(u *Universe) *resolver {
	r := &resolver{u: u, addr: make([]common.Address, u.NAddr), bound: make([]bool, u.NAddr), back: map[common.AddressBytes]int{}, codes: map[int][]byte{}}
	isNew := map[int]bool{}
	for _, a := range u.NewAddrs {
		isNew[a] = true
	}
	for a := 1; a <= u.NAddr; a++ {
		if isNew[a] {
			continue
		}
		r.bind(a, addrOf(a))
	}
	return r
}

func (r *resolver) bind(a int, ad common.Address) {
	// CREATE derives the address from the creator's nonce: when a failed frame undid the nonce increment, the
	// next CREATE of that creator lands on the address of the (undone) earlier one.  The spec names every
	// created contract afresh, so the older name stops denoting this address.
	if old, ok := r.back[ad.Bytes20()]; ok && old != a {
		r.bound[old-1] = false
		r.addr[old-1] = common.Address{}
	}
	r.addr[a-1] = ad
	r.bound[a-1] = true
	r.back[ad.Bytes20()] = a
}

func (r *resolver) abs(ad common.Address) int {
	if a, ok := r.back[ad.Bytes20()]; ok {
		return a
	}
	return -1
}

func big64(b *big.Int) int64 {
	if b == nil {
		return 0
	}
	if b.IsInt64() {
		return b.Int64()
	}
	if b.Sign() < 0 {
		return math.MinInt64
	}
	return math.MaxInt64
}

func hash64(h common.Hash) int64 { return big64(h.Big()) }

type sideLists struct {
	evm   *vm.EVM
	batch ethdb.Batch
	raw   ethdb.Database
	hashO map[common.Hash]int // lockup hash -> owner
}

func project(s *state.StateDB, r *resolver, sl *sideLists) (p *Proj) {
	p = &Proj{}
	u := r.u
	defer func() {
		if x := recover(); x != nil {
			p.Root = "panic:" + fmt.Sprint(x)
		}
	}()
	var cp *state.StateDB
	func() {
		defer func() {
			if x := recover(); x != nil {
				p.Root = "panic:" + fmt.Sprint(x)
				if strings.Contains(p.Root, "cannot encode negative") {
					// which account is encoded first depends on map order: keep the message address-free
					p.Root = "panic:rlp: cannot encode negative *big.Int (storage-size counter below zero)"
				}
				cp = nil
			}
		}()
		cp = s.Copy()
		p.Root = cp.IntermediateRoot(true).Hex()
		p.TrieSize = cp.GetQuaiTrieSize().String()
	}()
	for a := 1; a <= u.NAddr; a++ {
		ap := AcctP{Stor: make([]int64, u.NSlot), Committed: make([]string, u.NSlot)}
		{
			// an address a CREATE frame has not produced yet reads like any absent account
			full := r.addr[a-1]
			if !r.bound[a-1] {
				full = addrOf(200 + a)
			}
			ia := iaddr(full)
			ap.Ex = s.Exist(ia)
			ap.Bal = big64(s.GetBalance(ia))
			ap.Nonce = s.GetNonce(ia)
			code := s.GetCode(ia)
			ap.Code = codeID(code)
			if fc, ok := r.codes[a]; ok && len(code) > 0 && string(fc) == string(code) {
				ap.Code = 1
			}
			ap.CodeLen = s.GetCodeSize(ia)
			ap.CodeHash = s.GetCodeHash(ia).Hex()
			ap.Size = big64(s.GetSize(ia))
			ap.Dead = s.HasSuicided(ia)
			ap.Empty = s.Empty(ia)
			for k := 1; k <= u.NSlot; k++ {
				ap.Stor[k-1] = hash64(s.GetState(ia, slotKey(k)))
				ap.Committed[k-1] = s.GetCommittedState(ia, slotKey(k)).Hex()
				if v := hash64(s.GetTransientState(ia, slotKey(k))); v != 0 {
					p.T = append(p.T, [3]int64{int64(a), int64(k), v})
				}
				if _, ok := s.SlotInAccessList(ia.Bytes20(), slotKey(k)); ok {
					p.AS = append(p.AS, [2]int{a, k})
				}
			}
			if s.AddressInAccessList(ia.Bytes20()) {
				p.AA = append(p.AA, a)
			}
			if cp != nil {
				ap.SizeCopy = big64(cp.GetSize(ia))
			}
		}
		p.Acct = append(p.Acct, ap)
	}
	p.Refund = s.GetRefund()
	// StateDB.Logs() walks a map keyed by transaction hash: order by the block-wide log index
	logs := s.Logs()
	sort.SliceStable(logs, func(i, j int) bool { return logs[i].Index < logs[j].Index })
	for _, l := range logs {
		lp := LogP{Addr: r.abs(l.Address), Data: hex.EncodeToString(l.Data), Index: l.Index, TxHash: l.TxHash.Hex(), TxIndex: l.TxIndex}
		for _, t := range l.Topics {
			lp.Topics = append(lp.Topics, t.Hex())
		}
		p.Logs = append(p.Logs, lp)
	}
	pre := s.Preimages()
	for i := 1; i <= 1; i++ {
		if _, ok := pre[preimHash(i)]; ok {
			p.Preim = append(p.Preim, i)
		}
	}
	if sl != nil {
		for _, etx := range sl.evm.ETXCache {
			k := 100 + int(etx.EtxType())
			switch etx.EtxType() {
			case types.DefaultType:
				k = 1
			case types.CoinbaseLockupType:
				k = 2
			}
			p.X = append(p.X, [2]int{k, r.abs(etx.ETXSender())})
		}
		for _, h := range sl.evm.CoinbaseDeletedHashes {
			o, ok := sl.hashO[*h]
			if !ok {
				o = -1
			}
			p.H = append(p.H, o)
		}
		for key := range sl.evm.CoinbasesDeleted {
			owner, _, _, _, err := rawdb.ReverseCoinbaseLockupKey(key[:], loc)
			o := -1
			if err == nil {
				o = r.abs(owner)
			}
			p.M = append(p.M, o)
		}
		sort.Ints(p.M)
		for a := 1; a <= u.NAddr; a++ {
			if u.HasLock[a-1] {
				_, h, _, _ := rawdb.ReadCoinbaseLockup(sl.raw, sl.batch, r.addr[a-1], minerAddr, lockByte, lockEpoch)
				if h == 0 {
					p.D = append(p.D, a)
				}
			}
		}
	}
	return p
}

func preimHash(i int) common.Hash { return common.BigToHash(big.NewInt(int64(0xabc000 + i))) }

func (p *Proj) digest() string {
	b, _ := json.Marshal(p)
	h := sha256.Sum256(b)
	return hex.EncodeToString(h[:10])
}

// ---- the abstract state, in the sparse encoding Flat(...) of Journal.tla

type FlatVis struct {
	A  [][]int64 `json:"A"`
	R  int64     `json:"R"`
	L  []int     `json:"L"`
	P  []int     `json:"P"`
	AA []int     `json:"AA"`
	AS [][]int   `json:"AS"`
	T  [][]int64 `json:"T"`
	X  [][]int   `json:"X"`
	H  []int     `json:"H"`
	M  []int     `json:"M"`
	D  []int     `json:"D"`
}

func b2i(b bool) int64 {
	if b {
		return 1
	}
	return 0
}

func genRow(a int, g GenAcct) []int64 {
	row := []int64{int64(a), b2i(g.Ex), g.Bal, int64(g.Nonce), int64(g.Code), g.Size, 0}
	return append(row, g.Stor...)
}

// observed projection -> Flat
func (p *Proj) flat(u *Universe) *FlatVis {
	f := &FlatVis{A: [][]int64{}, L: []int{}, P: []int{}, AA: []int{}, AS: [][]int{}, T: [][]int64{}, X: [][]int{}, H: []int{}, M: []int{}, D: []int{}}
	for i, ap := range p.Acct {
		row := []int64{int64(i + 1), b2i(ap.Ex), ap.Bal, int64(ap.Nonce), int64(ap.Code), ap.Size, b2i(ap.Dead)}
		row = append(row, ap.Stor...)
		if !eq64(row, genRow(i+1, u.Gen[i])) {
			f.A = append(f.A, row)
		}
	}
	f.R = int64(p.Refund)
	for _, l := range p.Logs {
		f.L = append(f.L, l.Addr)
	}
	f.P = append(f.P, p.Preim...)
	f.AA = append(f.AA, p.AA...)
	for _, x := range p.AS {
		f.AS = append(f.AS, []int{x[0], x[1]})
	}
	for _, x := range p.T {
		f.T = append(f.T, []int64{x[0], x[1], x[2]})
	}
	for _, x := range p.X {
		f.X = append(f.X, []int{x[0], x[1]})
	}
	f.H = append(f.H, p.H...)
	f.M = append(f.M, p.M...)
	f.D = append(f.D, p.D...)
	return f
}

func eq64(a, b []int64) bool {
	if len(a) != len(b) {
		return false
	}
	for i := range a {
		if a[i] != b[i] {
			return false
		}
	}
	return true
}

// dense account rows of a Flat (genesis rows for the accounts it does not list)
func (f *FlatVis) rows(u *Universe) [][]int64 {
	out := make([][]int64, u.NAddr)
	for i := range out {
		out[i] = genRow(i+1, u.Gen[i])
	}
	for _, r := range f.A {
		if len(r) > 0 && r[0] >= 1 && int(r[0]) <= u.NAddr {
			out[r[0]-1] = r
		}
	}
	return out
}

func setOf[T any](xs []T) string {
	ss := make([]string, len(xs))
	for i, x := range xs {
		ss[i] = fmt.Sprint(x)
	}
	sort.Strings(ss)
	return strings.Join(ss, ";")
}

var acctField = []string{"", "acct.ex", "acct.bal", "acct.nonce", "acct.code", "acct.size", "acct.dead"}

// diffFlat lists the field classes in which two abstract states differ.  evm level: the refund counter is
// not modelled numerically by the spec and the access list is bypassed, both are covered by the
// snapshot/revert oracle on the concrete projection instead.
func diffFlat(u *Universe, exp, got *FlatVis, evmLevel bool) []string {
	d := map[string]bool{}
	er, gr := exp.rows(u), got.rows(u)
	for i := range er {
		for k := 1; k < len(er[i]) && k < len(gr[i]); k++ {
			if er[i][k] != gr[i][k] {
				if k < len(acctField) {
					d[acctField[k]] = true
				} else {
					d["acct.stor"] = true
				}
			}
		}
		if len(er[i]) != len(gr[i]) {
			d["acct.shape"] = true
		}
	}
	if !evmLevel {
		if exp.R != got.R {
			d["refund"] = true
		}
		if setOf(exp.AA) != setOf(got.AA) || setOf(exp.AS) != setOf(got.AS) {
			d["accesslist"] = true
		}
	}
	if fmt.Sprint(exp.L) != fmt.Sprint(got.L) {
		d["logs"] = true
	}
	if setOf(exp.P) != setOf(got.P) {
		d["preimages"] = true
	}
	if setOf(exp.T) != setOf(got.T) {
		d["transient"] = true
	}
	if fmt.Sprint(exp.X) != fmt.Sprint(got.X) {
		d["etxcache"] = true
	}
	if fmt.Sprint(exp.H) != fmt.Sprint(got.H) {
		d["lockup.hashes"] = true
	}
	if setOf(exp.M) != setOf(got.M) {
		d["lockup.map"] = true
	}
	if setOf(exp.D) != setOf(got.D) {
		d["lockup.record"] = true
	}
	return keys(d)
}

func keys(d map[string]bool) []string {
	out := []string{}
	for k := range d {
		out = append(out, k)
	}
	sort.Strings(out)
	return out
}

// diffProj compares two concrete projections field class by field class (the property oracle: state
// captured at the snapshot vs state after the revert).  Per-account details name the account.
func diffProj(a, b *Proj) (classes []string, accts map[string][]int) {
	d := map[string]bool{}
	accts = map[string][]int{}
	mark := func(c string, acct int) {
		d[c] = true
		if acct > 0 {
			accts[c] = append(accts[c], acct)
		}
	}
	for i := range a.Acct {
		x, y := a.Acct[i], b.Acct[i]
		if x.Ex != y.Ex {
			mark("acct.ex", i+1)
		}
		if x.Bal != y.Bal {
			mark("acct.bal", i+1)
		}
		if x.Nonce != y.Nonce {
			mark("acct.nonce", i+1)
		}
		if x.Code != y.Code || x.CodeHash != y.CodeHash || x.CodeLen != y.CodeLen {
			mark("acct.code", i+1)
		}
		if x.Size != y.Size {
			mark("acct.size", i+1)
		}
		// no commitment could be computed (IntermediateRoot panicked): reported as class "root" only
		nocommit := strings.HasPrefix(a.Root, "panic:") || strings.HasPrefix(b.Root, "panic:")
		if x.SizeCopy != y.SizeCopy && !nocommit {
			mark("acct.size.committed", i+1)
		}
		if x.Dead != y.Dead {
			mark("acct.dead", i+1)
		}
		if !eq64(x.Stor, y.Stor) {
			mark("acct.stor", i+1)
		}
		if fmt.Sprint(x.Committed) != fmt.Sprint(y.Committed) {
			mark("acct.committed", i+1)
		}
		if x.Empty != y.Empty {
			mark("acct.empty", i+1)
		}
	}
	if a.Refund != b.Refund {
		mark("refund", 0)
	}
	if fmt.Sprint(a.Logs) != fmt.Sprint(b.Logs) {
		mark("logs", 0)
	}
	if fmt.Sprint(a.Preim) != fmt.Sprint(b.Preim) {
		mark("preimages", 0)
	}
	if setOf(a.AA) != setOf(b.AA) || setOf(a.AS) != setOf(b.AS) {
		mark("accesslist", 0)
	}
	if setOf(a.T) != setOf(b.T) {
		mark("transient", 0)
	}
	if fmt.Sprint(a.X) != fmt.Sprint(b.X) {
		mark("etxcache", 0)
	}
	if fmt.Sprint(a.H) != fmt.Sprint(b.H) {
		mark("lockup.hashes", 0)
	}
	if setOf(a.M) != setOf(b.M) {
		mark("lockup.map", 0)
	}
	if setOf(a.D) != setOf(b.D) {
		mark("lockup.record", 0)
	}
	if a.Root != b.Root {
		mark("root", 0)
	}
	if a.TrieSize != b.TrieSize && !(strings.HasPrefix(a.Root, "panic:") || strings.HasPrefix(b.Root, "panic:")) {
		mark("triesize", 0)
	}
	return keys(d), accts
}

// brief: the part of a projection relevant to one deviation class (for the replay file)
func (p *Proj) brief(class string) interface{} {
	switch {
	case class == "root" || class == "triesize":
		return map[string]interface{}{"root": p.Root, "triesize": p.TrieSize, "acct": p.Acct}
	case strings.HasPrefix(class, "acct."):
		return p.Acct
	case class == "refund":
		return p.Refund
	case class == "logs":
		return p.Logs
	case class == "accesslist":
		return map[string]interface{}{"addresses": p.AA, "slots": p.AS}
	case class == "transient":
		return p.T
	case class == "preimages":
		return p.Preim
	default:
		return map[string]interface{}{"etxcache": p.X, "deleted_hashes": p.H, "deleted_map": p.M, "lockups_gone": p.D}
	}
}
