// sigdrv binds spec/Sig.tla to the real signature / sender code of go-quai (C03).
//
//	sigdrv replay -in behaviours.ndjson -out result.json -seed S -inst N [-pool=true]
//	    every behaviour emitted by TLC (JSON array of call records, each with the outcome CLASS the
//	    specification defines) is instantiated N times with seeded random keys, chain ids, field values
//	    (random or single-bit-flipped alternatives), malformed-signature variants and construction paths,
//	    executed on the real types.SignTx / types.Sender / SignerV1 / tx.Hash / crypto.ValidateSignatureValues /
//	    core.TxPool / Transaction.AsMessageWithSender / core.ProcessQiTx / core.ValidateQiTx*, and every
//	    observed class is compared with the specified one.
//	sigdrv sweep -seed S -n N -out result.json
//	    for N random signed transactions: EVERY single-bit flip of R||S||V and of each signed field's
//	    encoding (spec edge Sign -> Mutate(f)|MutateSig(bitflip) -> QuerySender: never the signer).
package main

import (
	"bytes"
	"crypto/ecdsa"
	"encoding/binary"
	"encoding/json"
	"errors"
	"flag"
	"fmt"
	"io"
	"math/big"
	"math/rand"
	"os"
	"runtime"
	"runtime/debug"
	"runtime/pprof"
	"sort"
	"strings"
	"sync"

	"github.com/btcsuite/btcd/btcec/v2"
	"github.com/btcsuite/btcd/btcec/v2/schnorr"
	"github.com/btcsuite/btcd/btcec/v2/schnorr/musig2"
	"github.com/dominant-strategies/go-quai/common"
	"github.com/dominant-strategies/go-quai/consensus"
	"github.com/dominant-strategies/go-quai/core"
	"github.com/dominant-strategies/go-quai/core/rawdb"
	"github.com/dominant-strategies/go-quai/core/types"
	"github.com/dominant-strategies/go-quai/crypto"
	"github.com/dominant-strategies/go-quai/ethdb"
	"github.com/dominant-strategies/go-quai/log"
	"golang.org/x/crypto/sha3"
)

var (
	secpN, _  = new(big.Int).SetString("fffffffffffffffffffffffffffffffebaaedce6af48a03bbfd25e8cd0364141", 16)
	secpHalfN = new(big.Int).Rsh(secpN, 1)
	locOf     = map[int]common.Location{1: {0, 0}, 2: {0, 1}}
	nodeLoc   = common.Location{0, 0}
)

func must(err error) {
	if err != nil {
		fmt.Fprintln(os.Stderr, "sigdrv fatal:", err)
		os.Exit(3)
	}
}

// ---------------------------------------------------------------- behaviours

type Rec struct {
	Op     string        `json:"op"`
	Mode   string        `json:"mode,omitempty"`
	Chain  int           `json:"chain,omitempty"`
	Owners []int         `json:"owners,omitempty"`
	Pubs   []int         `json:"pubs,omitempty"`
	K      int           `json:"k,omitempty"`
	C      int           `json:"c,omitempty"`
	L      int           `json:"l,omitempty"`
	F      string        `json:"f,omitempty"`
	V      int           `json:"v,omitempty"`
	Cls    string        `json:"cls,omitempty"`
	Ks     []int         `json:"ks,omitempty"`
	Res    []interface{} `json:"res,omitempty"`
}

func resStr(r []interface{}) string {
	parts := make([]string, len(r))
	for i, x := range r {
		switch v := x.(type) {
		case float64:
			parts[i] = fmt.Sprint(int(v))
		default:
			parts[i] = fmt.Sprint(v)
		}
	}
	return strings.Join(parts, ",")
}

type Mismatch struct {
	Behaviour int    `json:"behaviour"`
	Inst      int    `json:"inst"`
	Seed      int64  `json:"seed"`
	Step      int    `json:"step"`
	Op        string `json:"op"`
	Kind      string `json:"kind"`
	Expected  string `json:"expected"`
	Got       string `json:"got"`
	Detail    string `json:"detail"`
	Beh       []Rec  `json:"beh"`
}

// ---------------------------------------------------------------- independent oracles

// address of a public key by the protocol formula: last 20 bytes of keccak256(X || Y)
func addrOf(pub *ecdsa.PublicKey) (a [20]byte) {
	var xy [64]byte
	pub.X.FillBytes(xy[:32])
	pub.Y.FillBytes(xy[32:])
	h := sha3.NewLegacyKeccak256()
	h.Write(xy[:])
	copy(a[:], h.Sum(nil)[12:])
	return a
}

func uncompressed(pub *ecdsa.PublicKey) []byte {
	out := make([]byte, 65)
	out[0] = 4
	pub.X.FillBytes(out[1:33])
	pub.Y.FillBytes(out[33:])
	return out
}

func newKey(r *rand.Rand) *ecdsa.PrivateKey {
	for {
		var d [32]byte
		r.Read(d[:])
		k, err := crypto.ToECDSA(d[:])
		if err == nil {
			return k
		}
	}
}

// a key whose address lies in zone `loc` and in the given ledger (qi: second byte > 127); the search
// derives public keys with btcec (fast), the protocol formula gives the address
func groundKey(r *rand.Rand, loc common.Location, qi bool) *ecdsa.PrivateKey {
	for {
		var d [32]byte
		r.Read(d[:])
		_, pub := btcec.PrivKeyFromBytes(d[:])
		u := pub.SerializeUncompressed()
		h := sha3.NewLegacyKeccak256()
		h.Write(u[1:])
		a := h.Sum(nil)[12:]
		if a[0] == loc.BytePrefix() && (a[1] > 127) == qi {
			if k, err := crypto.ToECDSA(d[:]); err == nil {
				return k
			}
		}
	}
}

// ---------------------------------------------------------------- random field values

func randBig(r *rand.Rand) *big.Int {
	switch r.Intn(6) {
	case 0:
		return big.NewInt(0)
	case 1:
		return big.NewInt(int64(r.Intn(1000)))
	case 2:
		return new(big.Int).SetUint64(r.Uint64())
	default:
		b := make([]byte, 1+r.Intn(32))
		r.Read(b)
		return new(big.Int).SetBytes(b)
	}
}

func randU64(r *rand.Rand) uint64 {
	switch r.Intn(4) {
	case 0:
		return uint64(r.Intn(3))
	case 1:
		return uint64(r.Intn(1 << 20))
	default:
		return r.Uint64()
	}
}

func randBytes(r *rand.Rand, max int) []byte {
	n := 0
	if r.Intn(4) != 0 {
		n = 1 + r.Intn(max)
	}
	b := make([]byte, n)
	r.Read(b)
	return b
}

func randAL(r *rand.Rand) types.AccessList {
	al := types.AccessList{}
	for i, n := 0, r.Intn(3); i < n; i++ {
		var a [20]byte
		r.Read(a[:])
		t := types.AccessTuple{Address: common.Bytes20ToAddress(a, nodeLoc), StorageKeys: []common.Hash{}}
		for j, m := 0, r.Intn(3); j < m; j++ {
			var h common.Hash
			r.Read(h[:])
			t.StorageKeys = append(t.StorageKeys, h)
		}
		al = append(al, t)
	}
	return al
}

// canonical byte encodings used to (a) decide that two concrete values differ and (b) flip single bits
func encU64(v uint64) []byte { b := make([]byte, 8); binary.BigEndian.PutUint64(b, v); return b }
func encTo(a *common.Address) []byte {
	if a == nil {
		return nil
	}
	return append([]byte{1}, a.Bytes()...)
}
func encAL(al types.AccessList) []byte {
	var b bytes.Buffer
	for _, t := range al {
		b.WriteByte(0xA1)
		b.Write(t.Address.Bytes())
		for _, k := range t.StorageKeys {
			b.WriteByte(0xA2)
			b.Write(k[:])
		}
	}
	return b.Bytes()
}

type fieldVal struct {
	u64  uint64
	big  *big.Int
	to   *common.Address
	data []byte
	al   types.AccessList
}

func (v fieldVal) enc(f string) []byte {
	switch f {
	case "nonce", "gas":
		return encU64(v.u64)
	case "price", "value", "chain":
		return v.big.Bytes()
	case "to":
		return encTo(v.to)
	case "data":
		return v.data
	}
	return encAL(v.al)
}

func randField(r *rand.Rand, f string) fieldVal {
	switch f {
	case "nonce", "gas":
		return fieldVal{u64: randU64(r)}
	case "price", "value":
		return fieldVal{big: randBig(r)}
	case "to":
		if r.Intn(4) == 0 {
			return fieldVal{to: nil}
		}
		var a [20]byte
		r.Read(a[:])
		ad := common.Bytes20ToAddress(a, nodeLoc)
		return fieldVal{to: &ad}
	case "data":
		return fieldVal{data: randBytes(r, 80)}
	}
	return fieldVal{al: randAL(r)}
}

// the value v with exactly one bit of its encoding flipped (bit < 0: random position); ok=false if the
// value has no bits to flip (nil recipient, empty data, empty access list)
func flipField(r *rand.Rand, f string, v fieldVal, bit int) (fieldVal, bool) {
	pick := func(n int) int {
		if bit >= 0 {
			return bit
		}
		return r.Intn(n)
	}
	switch f {
	case "nonce", "gas":
		return fieldVal{u64: v.u64 ^ (1 << uint(pick(64)))}, true
	case "price", "value":
		i := pick(256)
		x := new(big.Int).Set(v.big)
		x.SetBit(x, i, x.Bit(i)^1)
		return fieldVal{big: x}, true
	case "to":
		if v.to == nil {
			return v, false
		}
		b := append([]byte{}, v.to.Bytes()...)
		i := pick(160)
		b[i/8] ^= 1 << uint(i%8)
		ad := common.BytesToAddress(b, nodeLoc)
		return fieldVal{to: &ad}, true
	case "data":
		if len(v.data) == 0 {
			return v, false
		}
		b := append([]byte{}, v.data...)
		i := pick(len(b) * 8)
		b[i/8] ^= 1 << uint(i%8)
		return fieldVal{data: b}, true
	}
	if len(v.al) == 0 {
		return v, false
	}
	// access list: flip a bit of an address or of a storage key
	al := make(types.AccessList, len(v.al))
	nbits := 0
	for i, t := range v.al {
		al[i] = types.AccessTuple{Address: t.Address, StorageKeys: append([]common.Hash{}, t.StorageKeys...)}
		nbits += 160 + 256*len(t.StorageKeys)
	}
	i := pick(nbits)
	for ti := range al {
		if i < 160 {
			b := append([]byte{}, al[ti].Address.Bytes()...)
			b[i/8] ^= 1 << uint(i%8)
			al[ti].Address = common.BytesToAddress(b, nodeLoc)
			return fieldVal{al: al}, true
		}
		i -= 160
		for ki := range al[ti].StorageKeys {
			if i < 256 {
				al[ti].StorageKeys[ki][i/8] ^= 1 << uint(i%8)
				return fieldVal{al: al}, true
			}
			i -= 256
		}
	}
	return v, false
}

func fieldBits(f string, v fieldVal) int {
	switch f {
	case "nonce", "gas":
		return 64
	case "price", "value":
		return 256
	case "to":
		if v.to == nil {
			return 0
		}
		return 160
	case "data":
		return len(v.data) * 8
	}
	n := 0
	for _, t := range v.al {
		n += 160 + 256*len(t.StorageKeys)
	}
	return n
}

// a structurally different alternative (not a bit flip): grow / shrink / reorder
func altField(r *rand.Rand, f string, v fieldVal) fieldVal {
	for {
		var w fieldVal
		switch {
		case f == "data" && r.Intn(3) == 0:
			w = fieldVal{data: append(append([]byte{}, v.data...), byte(r.Intn(256)))} // one byte appended (incl. 0x00)
		case f == "data" && len(v.data) > 0 && r.Intn(3) == 0:
			w = fieldVal{data: append([]byte{}, v.data[:len(v.data)-1]...)}
		case f == "al" && len(v.al) > 0 && r.Intn(3) == 0:
			w = fieldVal{al: append(types.AccessList{}, v.al[:len(v.al)-1]...)}
		case f == "al" && len(v.al) > 1 && r.Intn(3) == 0:
			w = fieldVal{al: append(append(types.AccessList{}, v.al[1:]...), v.al[0])}
		case f == "al" && len(v.al) > 0 && r.Intn(3) == 0:
			// move a storage key from "key of tuple i" to "an extra tuple": same bytes, different structure
			al := append(types.AccessList{}, v.al...)
			al = append(al, types.AccessTuple{Address: al[0].Address, StorageKeys: []common.Hash{}})
			w = fieldVal{al: al}
		case f == "to" && v.to != nil && r.Intn(4) == 0:
			w = fieldVal{to: nil}
		default:
			w = randField(r, f)
		}
		if !bytes.Equal(w.enc(f), v.enc(f)) {
			return w
		}
	}
}

// ---------------------------------------------------------------- shared environment

type env struct {
	quaiKeys []*ecdsa.PrivateKey // in-zone Quai-ledger keys (pool scenarios need an internal sender)
	qiKeys   []*ecdsa.PrivateKey // in-zone Qi-ledger keys (UTXO owners)
	pools    chan *poolEnv
	usePool  bool
}

func newEnv(seed int64, usePool bool, workers int) *env {
	r := rand.New(rand.NewSource(seed*7919 + 17))
	e := &env{usePool: usePool}
	for i := 0; i < 6; i++ {
		e.quaiKeys = append(e.quaiKeys, groundKey(r, nodeLoc, false))
	}
	for i := 0; i < 9; i++ {
		e.qiKeys = append(e.qiKeys, groundKey(r, nodeLoc, true))
	}
	if usePool {
		e.pools = make(chan *poolEnv, workers)
		for i := 0; i < workers; i++ {
			e.pools <- nil // created lazily
		}
	}
	return e
}

// ---------------------------------------------------------------- Quai instantiation

var quaiFields = []string{"nonce", "gas", "price", "to", "value", "data", "al"}

type quaiInst struct {
	e     *env
	r     *rand.Rand
	keys  map[int]*ecdsa.PrivateKey
	addr  map[int][20]byte
	chain [3]*big.Int
	vals  map[string][2]fieldVal
	how   map[string]string // how the alternative value was made
	abs   map[string]int    // abstract payload: field -> value index ("chain" -> 0,1,2)

	sigK     int
	sigD     string
	sigCls   string
	sigVar   string
	V, R, S  *big.Int
	obj      *types.Transaction // the live object (its sender cache is part of the state)
	wireErr  error              // the network decoder refused the current (payload, signature)
	cacheAbs string             // bookkeeping for class counting only

	txHashes  map[string]common.Hash
	sigHashes map[string]common.Hash
	pool      *poolEnv
	poolMode  bool
	lastSH    common.Hash
	lastTH    common.Hash
}

func newQuaiInst(e *env, r *rand.Rand, poolMode bool) *quaiInst {
	q := &quaiInst{e: e, r: r, keys: map[int]*ecdsa.PrivateKey{}, addr: map[int][20]byte{}, vals: map[string][2]fieldVal{},
		how: map[string]string{}, abs: map[string]int{}, txHashes: map[string]common.Hash{}, sigHashes: map[string]common.Hash{}, poolMode: poolMode}
	if poolMode {
		p := r.Perm(len(e.quaiKeys))
		q.keys[1], q.keys[2] = e.quaiKeys[p[0]], e.quaiKeys[p[1]]
	} else {
		q.keys[1], q.keys[2] = newKey(r), newKey(r)
	}
	for k, key := range q.keys {
		q.addr[k] = addrOf(&key.PublicKey)
	}
	// chain ids: 0 = unspecified, A, B (B random, or A with one bit flipped, or A+1)
	q.chain[0] = big.NewInt(0)
	for {
		a := randBig(r)
		if a.Sign() == 0 {
			continue
		}
		var b *big.Int
		switch r.Intn(3) {
		case 0:
			b = new(big.Int).Add(a, big.NewInt(1))
		case 1:
			i := r.Intn(a.BitLen() + 8)
			b = new(big.Int).SetBit(new(big.Int).Set(a), i, a.Bit(i)^1)
		default:
			b = randBig(r)
		}
		if b.Sign() != 0 && b.Cmp(a) != 0 {
			q.chain[1], q.chain[2] = a, b
			break
		}
	}
	for _, f := range quaiFields {
		v0 := randField(r, f)
		if poolMode { // the pool must be able to admit the honest transaction
			switch f {
			case "gas":
				v0 = fieldVal{u64: 200000 + uint64(r.Intn(1000000))}
			case "price":
				v0 = fieldVal{big: big.NewInt(int64(1 + r.Intn(1000)))}
			case "value":
				v0 = fieldVal{big: big.NewInt(int64(r.Intn(1000)))}
			case "data", "al":
				v0 = fieldVal{data: []byte{}, al: types.AccessList{}}
			}
		}
		var v1 fieldVal
		how := "random"
		if r.Intn(2) == 0 {
			if w, ok := flipField(r, f, v0, -1); ok {
				v1, how = w, "bitflip"
			}
		}
		if how == "random" {
			v1 = altField(r, f, v0)
		}
		if poolMode { // keep the alternative admissible as well
			switch f {
			case "gas":
				v1 = fieldVal{u64: v0.u64 + 1 + uint64(r.Intn(5))}
			case "price":
				v1 = fieldVal{big: new(big.Int).Add(v0.big, big.NewInt(1))}
			case "value":
				v1 = fieldVal{big: new(big.Int).Add(v0.big, big.NewInt(1))}
			case "data":
				v1 = fieldVal{data: []byte{byte(r.Intn(256))}}
			case "al":
				v1 = fieldVal{al: types.AccessList{{Address: common.Bytes20ToAddress(q.addr[1], nodeLoc), StorageKeys: []common.Hash{}}}}
			}
			how = "admissible"
		}
		q.vals[f] = [2]fieldVal{v0, v1}
		q.how[f] = how
		q.abs[f] = 0
	}
	q.V, q.R, q.S = new(big.Int), new(big.Int), new(big.Int)
	q.sigCls = "none"
	return q
}

func (q *quaiInst) payloadKey() string {
	var sb strings.Builder
	fmt.Fprintf(&sb, "c%d", q.abs["chain"])
	for _, f := range quaiFields {
		fmt.Fprintf(&sb, ",%d", q.abs[f])
	}
	return sb.String()
}
func (q *quaiInst) identKey() string {
	return q.payloadKey() + "|" + fmt.Sprint(q.sigK) + "|" + q.sigD + "|" + q.sigCls + q.sigVar
}

func (q *quaiInst) inner() *types.QuaiTx {
	v := func(f string) fieldVal { return q.vals[f][q.abs[f]] }
	var to *common.Address
	if t := v("to").to; t != nil {
		c := common.BytesToAddress(t.Bytes(), nodeLoc)
		to = &c
	}
	return &types.QuaiTx{
		ChainID: new(big.Int).Set(q.chain[q.abs["chain"]]), Nonce: v("nonce").u64, GasPrice: new(big.Int).Set(v("price").big),
		Gas: v("gas").u64, To: to, Value: new(big.Int).Set(v("value").big), Data: append([]byte{}, v("data").data...),
		AccessList: append(types.AccessList{}, v("al").al...),
		V:          new(big.Int).Set(q.V), R: new(big.Int).Set(q.R), S: new(big.Int).Set(q.S),
	}
}

// a fresh object for the current (payload, signature); path: direct constructor or through the wire format
func (q *quaiInst) fresh(forceWire bool) (*types.Transaction, error) {
	tx := types.NewTx(q.inner())
	if !forceWire && q.r.Intn(2) == 0 {
		return tx, nil
	}
	p, err := tx.ProtoEncode()
	if err != nil {
		return tx, nil
	}
	tx2 := new(types.Transaction)
	loc := locOf[1+q.r.Intn(2)]
	if err := tx2.ProtoDecode(p, loc); err != nil {
		return tx, err
	}
	return tx2, nil
}

func (q *quaiInst) rebuild() {
	obj, err := q.fresh(false)
	q.obj, q.wireErr = obj, err
	q.cacheAbs = "none"
}

func (q *quaiInst) hashes() (sigHash, txHash common.Hash) {
	c := types.NewTx(q.inner())
	sigHash = types.NewSigner(q.chain[1], nodeLoc).Hash(c)
	txHash = c.Hash()
	return
}

// two-way consistency between abstract identity and concrete hashes over the whole behaviour
func (q *quaiInst) checkIdent() string {
	sh, th := q.hashes()
	q.lastSH, q.lastTH = sh, th
	pk, ik := q.payloadKey(), q.identKey()
	for k, h := range q.sigHashes {
		if (k == pk) != (h == sh) {
			return fmt.Sprintf("signing hash identity broken: payload %s vs %s, equal-hash=%v", pk, k, h == sh)
		}
	}
	q.sigHashes[pk] = sh
	for k, h := range q.txHashes {
		if (k == ik) != (h == th) {
			return fmt.Sprintf("tx hash identity broken: %s vs %s, equal-hash=%v", ik, k, h == th)
		}
	}
	q.txHashes[ik] = th
	return ""
}

func classifySender(addr common.Address, err error, q *quaiInst) (string, string) {
	if err != nil {
		switch {
		case errors.Is(err, types.ErrInvalidChainId):
			return "err,chain", ""
		case errors.Is(err, types.ErrInvalidSig):
			return "err,sig", ""
		}
		return "other", "error: " + err.Error()
	}
	b := addr.Bytes20()
	for k, a := range q.addr {
		if a == [20]byte(b) {
			return fmt.Sprintf("addr,%d", k), ""
		}
	}
	return "other", "address " + addr.Hex()
}

// got satisfies the specified class?  "other" = any error, or an address of no key in use
func classOK(exp, got string) bool {
	if exp == got {
		return true
	}
	if exp == "other" {
		return strings.HasPrefix(got, "err,") || got == "other"
	}
	// the network decoder refused the transaction before any sender logic ran: an error, whichever was specified
	if got == "err,wire" {
		return strings.HasPrefix(exp, "err,")
	}
	return false
}

func (q *quaiInst) mutSig(cls string) {
	r := q.r
	q.sigVar = ""
	switch cls {
	case "r0":
		q.R = new(big.Int)
	case "s0":
		q.S = new(big.Int)
	case "rN", "sN":
		var x *big.Int
		switch r.Intn(4) {
		case 0:
			x = new(big.Int).Set(secpN)
		case 1:
			x = new(big.Int).Add(secpN, big.NewInt(1))
		case 2:
			x = new(big.Int).Sub(new(big.Int).Lsh(big.NewInt(1), 256), big.NewInt(1))
		default: // the same value plus the group order (congruent mod N, fits 256 bits only sometimes)
			base := q.R
			if cls == "sN" {
				base = q.S
			}
			x = new(big.Int).Add(base, secpN)
		}
		if cls == "rN" {
			q.R = x
		} else {
			q.S = x
		}
	case "highS": // the malleated twin: (r, N-s, v^1) verifies for the same key in plain ECDSA
		q.S = new(big.Int).Sub(secpN, q.S)
		if r.Intn(4) != 0 {
			q.V = new(big.Int).Xor(q.V, big.NewInt(1))
			q.sigVar = "+v"
		}
	case "vbad":
		opts := []int64{2, 3, 4, 27, 28, 35, 36, 128, 229, 255, 256, 257, 283, 1 << 32} // negative V is not representable on the wire
		q.V = big.NewInt(opts[r.Intn(len(opts))])
		if r.Intn(4) == 0 {
			q.V = new(big.Int).Add(new(big.Int).Lsh(big.NewInt(1), uint(8+r.Intn(100))), big.NewInt(int64(r.Intn(2))))
		}
	case "bitflip":
		i := r.Intn(256 + 256 + 8)
		switch {
		case i < 256:
			q.R = new(big.Int).SetBit(new(big.Int).Set(q.R), i, q.R.Bit(i)^1)
		case i < 512:
			q.S = new(big.Int).SetBit(new(big.Int).Set(q.S), i-256, q.S.Bit(i-256)^1)
		default:
			q.V = new(big.Int).SetBit(new(big.Int).Set(q.V), i-512, q.V.Bit(i-512)^1)
		}
		q.sigVar = fmt.Sprint("#", i)
	}
	q.sigCls = cls
	// the abstract identity of a malformed signature is its concrete value (several variants per class)
	q.sigVar = fmt.Sprintf(":%x:%x:%x", q.V.Bytes(), q.R.Bytes(), q.S.Bytes())
	if q.V.Sign() < 0 {
		q.sigVar += "-"
	}
}

// ---------------------------------------------------------------- Qi instantiation

type stubChain struct{ terminus *types.WorkObject }

func (s *stubChain) Engine(*types.WorkObjectHeader) consensus.Engine             { return nil }
func (s *stubChain) GetHeaderOrCandidateByHash(common.Hash) *types.WorkObject    { return s.terminus }
func (s *stubChain) NodeCtx() int                                                { return common.ZONE_CTX }
func (s *stubChain) IsGenesisHash(common.Hash) bool                              { return false }
func (s *stubChain) GetHeaderByHash(common.Hash) *types.WorkObject               { return s.terminus }
func (s *stubChain) GetBlockByHash(common.Hash) *types.WorkObject                { return s.terminus }
func (s *stubChain) CheckIfEtxIsEligible(common.Hash, common.Location) bool      { return true }
func (s *stubChain) CheckInCalcOrderCache(common.Hash) (*big.Int, int, bool)     { return nil, 0, false }
func (s *stubChain) AddToCalcOrderCache(common.Hash, int, *big.Int)              {}
func (s *stubChain) CalcBaseFee(*types.WorkObject) *big.Int                      { return big.NewInt(0) }
func (s *stubChain) CalcOrder(*types.WorkObject) (*big.Int, int, error)          { return big.NewInt(0), common.ZONE_CTX, nil }

func testHeader() *types.WorkObject {
	h := types.EmptyZoneWorkObject()
	h.Header().SetGasLimit(50_000_000)
	h.Header().SetBaseFee(big.NewInt(1))
	h.Header().SetExchangeRate(new(big.Int).Lsh(big.NewInt(1), 70))
	h.WorkObjectHeader().SetDifficulty(big.NewInt(1_000_000_000))
	h.WorkObjectHeader().SetNumber(big.NewInt(10))
	return h
}

type qiInst struct {
	e      *env
	r      *rand.Rand
	keys   map[int]*ecdsa.PrivateKey
	chain  [3]*big.Int
	owners []int
	pubs   []int
	abs    map[string]int // chain(1|2), in, out, data
	db     ethdb.Database
	ins    [2][]types.OutPoint // variant -> outpoint per input slot
	outs   [2]types.TxOuts
	data   [2][]byte
	sig    *schnorr.Signature
	sigKs  string
	sigD   string
	sigCls string
	header *types.WorkObject
	chainS *stubChain
	sigHashes map[string]common.Hash
	txHashes  map[string]common.Hash
}

func qiAddr(r *rand.Rand, qi bool) []byte {
	a := make([]byte, 20)
	r.Read(a)
	a[0] = nodeLoc.BytePrefix()
	if qi {
		a[1] |= 0x80
	} else {
		a[1] &= 0x7f
	}
	return a
}

func newQiInst(e *env, r *rand.Rand, init Rec) *qiInst {
	q := &qiInst{e: e, r: r, keys: map[int]*ecdsa.PrivateKey{}, owners: init.Owners, pubs: init.Pubs, abs: map[string]int{"chain": init.Chain},
		sigCls: "none", sigHashes: map[string]common.Hash{}, txHashes: map[string]common.Hash{}}
	p := r.Perm(len(e.qiKeys))
	for i := 1; i <= 3; i++ {
		q.keys[i] = e.qiKeys[p[i-1]]
	}
	q.chain[0] = big.NewInt(0)
	for {
		a, b := randBig(r), randBig(r)
		if r.Intn(2) == 0 {
			b = new(big.Int).Add(a, big.NewInt(1))
		}
		if a.Sign() != 0 && b.Sign() != 0 && a.Cmp(b) != 0 {
			q.chain[1], q.chain[2] = a, b
			break
		}
	}
	q.db = rawdb.NewMemoryDatabase(log.Global)
	// two spendable outputs per input slot (variant 0 / 1 of the abstract field "in"), each owned by owners[slot]
	for v := 0; v < 2; v++ {
		for _, o := range q.owners {
			var h common.Hash
			r.Read(h[:])
			op := types.OutPoint{TxHash: h, Index: uint16(r.Intn(5))}
			a := addrOf(&q.keys[o].PublicKey)
			must(rawdb.CreateUTXO(q.db, op.TxHash, op.Index, &types.UtxoEntry{Denomination: 10, Address: a[:]}))
			q.ins[v] = append(q.ins[v], op)
		}
	}
	for v := 0; v < 2; v++ {
		n := 1 + r.Intn(2)
		for i := 0; i < n; i++ {
			q.outs[v] = append(q.outs[v], types.TxOut{Denomination: uint8(1 + r.Intn(6)), Address: qiAddr(r, true)})
		}
	}
	if r.Intn(2) == 0 { // alternative differs in a single bit of one output
		o := q.outs[0]
		alt := make(types.TxOuts, len(o))
		for i := range o {
			alt[i] = types.TxOut{Denomination: o[i].Denomination, Address: append([]byte{}, o[i].Address...)}
		}
		i := r.Intn(len(alt))
		bit := 16 + r.Intn(144) // keep zone byte and ledger byte: the mutated output stays a valid local Qi output
		alt[i].Address[bit/8] ^= 1 << uint(bit%8)
		q.outs[1] = alt
	}
	q.data[0] = []byte{}
	q.data[1] = qiAddr(r, false) // 20 bytes naming an in-zone Quai contract: allowed, inert without a Quai-ledger output
	q.header = testHeader()
	q.chainS = &stubChain{terminus: testHeader()}
	return q
}

func (q *qiInst) payloadKey() string {
	return fmt.Sprintf("c%d,i%d,o%d,d%d", q.abs["chain"], q.abs["in"], q.abs["out"], q.abs["data"])
}

func (q *qiInst) build() *types.Transaction {
	ins := types.TxIns{}
	for i, op := range q.ins[q.abs["in"]] {
		ins = append(ins, types.TxIn{PreviousOutPoint: op, PubKey: uncompressed(&q.keys[q.pubs[i]].PublicKey)})
	}
	inner := &types.QiTx{ChainID: new(big.Int).Set(q.chain[q.abs["chain"]]), TxIn: ins, TxOut: append(types.TxOuts{}, q.outs[q.abs["out"]]...),
		Data: append([]byte{}, q.data[q.abs["data"]]...), Signature: q.sig}
	tx := types.NewTx(inner)
	if q.sig != nil && q.r.Intn(2) == 0 { // through the wire format
		if p, err := tx.ProtoEncode(); err == nil {
			tx2 := new(types.Transaction)
			if err := tx2.ProtoDecode(p, nodeLoc); err == nil {
				return tx2
			}
		}
	}
	return tx
}

func btcPriv(k *ecdsa.PrivateKey) *btcec.PrivateKey {
	var d [32]byte
	k.D.FillBytes(d[:])
	p, _ := btcec.PrivKeyFromBytes(d[:])
	return p
}

// plain BIP-340 signature (one key) or MuSig2 aggregate signature by the key sequence ks, exactly the
// way go-quai's own tests and tooling produce them (core/types/utxo_test.go TestMultiSigners)
func (q *qiInst) sign(ks []int, digest [32]byte) (*schnorr.Signature, error) {
	if len(ks) == 1 {
		return schnorr.Sign(btcPriv(q.keys[ks[0]]), digest[:])
	}
	var privs []*btcec.PrivateKey
	var pubs []*btcec.PublicKey
	for _, k := range ks {
		p := btcPriv(q.keys[k])
		privs = append(privs, p)
		pubs = append(pubs, p.PubKey())
	}
	// MuSig2 (BIP-327 as implemented by btcec): nonce generation, nonce aggregation, one partial
	// signature per key over (aggregate nonce, ordered key list, digest), combination.  Same functions
	// the Session API of the library drives; partial-signature self-verification is skipped
	// because the real verifier under test judges the result.
	nonces := make([]*musig2.Nonces, len(privs))
	pubNonces := make([][musig2.PubNonceSize]byte, len(privs))
	for i, p := range privs {
		n, err := musig2.GenNonces(musig2.WithPublicKey(p.PubKey()), musig2.WithCustomRand(q.r))
		if err != nil {
			return nil, err
		}
		nonces[i], pubNonces[i] = n, n.PubNonce
	}
	agg, err := musig2.AggregateNonces(pubNonces)
	if err != nil {
		return nil, err
	}
	parts := make([]*musig2.PartialSignature, len(privs))
	for i, p := range privs {
		if parts[i], err = musig2.Sign(nonces[i].SecNonce, p, agg, pubs, digest, musig2.WithFastSign()); err != nil {
			return nil, err
		}
	}
	return musig2.CombineSigs(parts[0].R, parts), nil
}

func classifyQiErr(err error) string {
	if err == nil {
		return "ok"
	}
	m := err.Error()
	switch {
	case strings.Contains(m, "chain ID"):
		return "err,chain"
	case strings.Contains(m, "invalid pubkey"):
		return "err,owner"
	case strings.Contains(m, "invalid signature"):
		return "err,sig"
	}
	return "unexpected: " + m
}

func (q *qiInst) verify(c int) (string, string) {
	tx := q.build()
	signer := types.NewSigner(q.chain[c], nodeLoc)
	var used uint64
	rl, pl := uint64(1<<40), uint64(1<<40)
	gp := new(types.GasPool).AddGas(q.header.GasLimit())
	ucd := &core.UtxosCreatedDeleted{AddressOutpointsToAddMap: map[[20]byte][]*types.OutpointAndDenomination{}, AddressOutpointsToRemoveMap: map[[20]byte][]*types.OutPoint{}}
	_, _, _, err, _ := core.ProcessQiTx(tx, q.chainS, true, true, q.header, q.db.NewBatch(), q.db, gp, &used, signer, nodeLoc, *q.chain[c], 1.0, &rl, &pl, ucd, new(big.Int), new(big.Int), false)
	a := classifyQiErr(err)
	// the pool's validation path
	var b string
	tx2 := q.build()
	tot, err2 := core.ValidateQiTxInputs(tx2, q.chainS, q.db, q.header, signer, nodeLoc, *q.chain[c])
	if err2 == nil {
		_, err2 = core.ValidateQiTxOutputsAndSignature(tx2, q.chainS, tot, q.header, signer, nodeLoc, *q.chain[c], 1.0, 1<<40, 1<<40)
	}
	b = classifyQiErr(err2)
	return a, b
}

// ---------------------------------------------------------------- replay of one behaviour

type result struct {
	seen     map[string]int
	evals    int
	classes  map[string]bool
	mism     []Mismatch
	ops      map[string]int
	outcomes map[string]int
}

func diffMask(q *quaiInst) string {
	if q.sigK == 0 {
		return "unsigned"
	}
	cur := strings.Split(q.payloadKey(), ",")
	sd := strings.Split(q.sigD, ",")
	var d []string
	names := append([]string{"chain"}, quaiFields...)
	for i := range cur {
		if cur[i] != sd[i] {
			d = append(d, names[i])
		}
	}
	return "diff[" + strings.Join(d, " ") + "]"
}

func runQuai(e *env, beh []Rec, bi, inst int, seed int64, res *result) {
	r := rand.New(rand.NewSource(seed))
	poolMode := false
	for _, s := range beh {
		if s.Op == "pooladd" || s.Op == "process" {
			poolMode = true
		}
	}
	if poolMode && !e.usePool {
		return
	}
	q := newQuaiInst(e, r, poolMode)
	if poolMode {
		p := <-e.pools
		if p == nil || p.uses > 150 {
			if p != nil {
				p.stop()
			}
			p = newPoolEnv(e)
		}
		p.uses++
		q.pool = p
		defer func() { e.pools <- p }()
		// abstract chain id 1 (NodeChain) is the pool's chain id
		q.chain[1] = p.chainID
		for q.chain[2].Cmp(p.chainID) == 0 {
			q.chain[2] = new(big.Int).Add(p.chainID, big.NewInt(int64(1+r.Intn(9))))
		}
	}
	q.abs["chain"] = beh[0].Chain
	q.rebuild()
	fail := func(step int, kind, exp, got, detail string) {
		key := kind + "|" + exp + "|" + strings.Split(got, ",")[0] + "|" + strings.Split(detail, ":")[0]
		if kind == "sender" || kind == "pooladd" || kind == "process" {
			key = kind + "|" + exp + "|" + strings.Split(got, ",")[0]
		}
		res.seen[key]++
		if res.seen[key] <= 3 {
			res.mism = append(res.mism, Mismatch{bi, inst, seed, step, beh[step].Op, kind, exp, got, detail, beh[:step+1]})
		}
	}
	if m := q.checkIdent(); m != "" {
		fail(0, "hash-identity", "", "", m)
		return
	}
	for si := 1; si < len(beh); si++ {
		s := beh[si]
		exp := resStr(s.Res)
		res.ops[s.Op]++
		switch s.Op {
		case "sign":
			signer := types.NewSigner(q.chain[s.C], locOf[1+r.Intn(2)])
			before := q.payloadKey()
			tx, err := types.SignTx(q.obj, signer, q.keys[s.K])
			got := "ok"
			if err != nil {
				got = "other"
				if errors.Is(err, types.ErrInvalidChainId) {
					got = "err,chain"
				}
			}
			res.evals++
			if got != exp {
				fail(si, "sign", exp, got, fmt.Sprint(err))
				return
			}
			if err == nil {
				q.V, q.R, q.S = tx.GetEcdsaSignatureValues()
				q.abs["chain"] = s.C
				q.sigK, q.sigD, q.sigCls, q.sigVar = s.K, before, "ok", ""
				q.obj, q.wireErr, q.cacheAbs = tx, nil, "none"
				if !crypto.ValidateSignatureValues(byte(q.V.Uint64()), q.R, q.S) {
					fail(si, "validate-honest", "true", "false", "ValidateSignatureValues refused an honest signature")
					return
				}
			}
		case "mutate":
			sh0, th0 := q.lastSH, q.lastTH
			q.abs[s.F] = s.V
			q.rebuild()
			if m := q.checkIdent(); m != "" {
				fail(si, "hash-identity", "", "", m)
				return
			}
			sh1, th1 := q.lastSH, q.lastTH
			res.evals++
			if got := fmt.Sprintf("changed,%v,%v", sh0 != sh1, th0 != th1); got != exp {
				fail(si, "hash-change", exp, got, "field "+s.F+" alt="+q.how[s.F])
				return
			}
		case "mutsig":
			sh0, th0 := q.lastSH, q.lastTH
			q.mutSig(s.Cls)
			q.rebuild()
			if m := q.checkIdent(); m != "" {
				fail(si, "hash-identity", "", "", m)
				return
			}
			sh1, th1 := q.lastSH, q.lastTH
			res.evals++
			if got := fmt.Sprintf("changed,%v,%v", sh0 != sh1, th0 != th1); got != exp {
				fail(si, "hash-change", exp, got, "sig class "+s.Cls+q.sigVar)
				return
			}
			if s.Cls != "bitflip" && q.V.Sign() >= 0 && q.V.BitLen() <= 8 {
				if crypto.ValidateSignatureValues(byte(q.V.Uint64()), q.R, q.S) {
					// reported, and the behaviour goes on: a following sender query shows the consequence
					fail(si, "validate-malformed", "false", "true", "ValidateSignatureValues accepted class "+s.Cls+q.sigVar)
				}
			}
		case "sender":
			signer := types.NewSigner(q.chain[s.C], locOf[s.L])
			addr, err := types.Sender(signer, q.obj)
			got, detail := classifySender(addr, err, q)
			res.evals++
			ck := fmt.Sprintf("sender|c=%v|%s|%s|cache=%s|->%s", s.C == q.abs["chain"], diffMask(q), q.sigCls, q.cacheAbs, exp)
			res.classes[ck] = true
			res.outcomes["sender:"+exp]++
			if !classOK(exp, got) {
				fail(si, "sender", exp, got, fmt.Sprintf("%s sig=%s%s %s how=%v", detail, q.sigCls, q.sigVar, diffMask(q), q.how))
				return
			}
			if q.wireErr != nil && strings.HasPrefix(got, "addr,") {
				fail(si, "sender", exp, got, "the wire decoder refused this transaction ("+q.wireErr.Error()+") yet Sender attributes it to a key")
				return
			}
			if err == nil {
				b := addr.Bytes20()
				_, ierr := addr.InternalAddress()
				if (ierr == nil) != (b[0] == locOf[s.L].BytePrefix()) {
					fail(si, "sender-scope", fmt.Sprint(b[0] == locOf[s.L].BytePrefix()), fmt.Sprint(ierr == nil), "internal/external classification of the sender for the signer's location")
					return
				}
				if q.cacheAbs == "none" {
					q.cacheAbs = fmt.Sprint("set", s.C == q.abs["chain"])
				}
			}
		case "txhash":
			h := q.obj.Hash()
			th := q.lastTH
			res.evals++
			if h != th {
				fail(si, "txhash", th.Hex(), h.Hex(), "hash of the live object differs from the hash of a fresh copy")
				return
			}
			if q.cacheAbs == "none" && q.obj.From(nodeLoc) != nil {
				q.cacheAbs = "sethash"
			}
		case "pooladd":
			got, detail := q.pool.add(q)
			res.evals++
			res.classes[fmt.Sprintf("pooladd|%s|%s|c=%d|->%s", diffMask(q), q.sigCls, q.abs["chain"], exp)] = true
			res.outcomes["pooladd:"+exp]++
			if !classOK(exp, got) {
				fail(si, "pooladd", exp, got, detail)
				if !(exp == "err,chain" && strings.HasPrefix(got, "addr,")) {
					return
				}
			}
		case "process":
			got, detail := q.pool.process(q)
			res.evals++
			res.classes[fmt.Sprintf("process|%s|%s|c=%d|->%s", diffMask(q), q.sigCls, q.abs["chain"], exp)] = true
			res.outcomes["process:"+exp]++
			if !classOK(exp, got) {
				fail(si, "process", exp, got, detail)
				return
			}
		default:
			fail(si, "driver", "", "", "unknown op "+s.Op)
			return
		}
		if s.Op == "sign" {
			if m := q.checkIdent(); m != "" {
				fail(si, "hash-identity", "", "", m)
				return
			}
		}
	}
}

func runQi(e *env, beh []Rec, bi, inst int, seed int64, res *result) {
	r := rand.New(rand.NewSource(seed))
	q := newQiInst(e, r, beh[0])
	fail := func(step int, kind, exp, got, detail string) {
		key := kind + "|" + exp + "|" + got
		res.seen[key]++
		if res.seen[key] <= 3 {
			res.mism = append(res.mism, Mismatch{bi, inst, seed, step, beh[step].Op, kind, exp, got, detail, beh[:step+1]})
		}
	}
	hashes := func() (common.Hash, common.Hash) {
		tx := q.build()
		return types.NewSigner(q.chain[1], nodeLoc).Hash(tx), tx.Hash()
	}
	for si := 1; si < len(beh); si++ {
		s := beh[si]
		exp := resStr(s.Res)
		res.ops[s.Op]++
		switch s.Op {
		case "qisign":
			tx := q.build()
			d := types.NewSigner(q.chain[q.abs["chain"]], nodeLoc).Hash(tx)
			sig, err := q.sign(s.Ks, d)
			res.evals++
			if err != nil {
				fail(si, "driver", "ok", "error", "signing failed: "+err.Error())
				return
			}
			q.sig, q.sigKs, q.sigD, q.sigCls = sig, fmt.Sprint(s.Ks), q.payloadKey()+fmt.Sprint(q.pubs), "ok"
		case "qimutate":
			sh0, th0 := hashes()
			if s.F == "chain" {
				q.abs["chain"] = 3 - q.abs["chain"]
			} else {
				q.abs[s.F] = 1 - q.abs[s.F]
			}
			sh1, th1 := hashes()
			res.evals++
			if got := fmt.Sprintf("changed,%v,%v", sh0 != sh1, th0 != th1); got != exp {
				fail(si, "hash-change", exp, got, "qi field "+s.F)
				return
			}
		case "qimutsig":
			sh0, th0 := hashes()
			raw := q.sig.Serialize()
			for {
				b := append([]byte{}, raw...)
				i := r.Intn(512)
				b[i/8] ^= 1 << uint(i%8)
				if ns, err := schnorr.ParseSignature(b); err == nil {
					q.sig = ns
					break
				}
			}
			q.sigCls = s.Cls
			sh1, th1 := hashes()
			res.evals++
			if got := fmt.Sprintf("changed,%v,%v", sh0 != sh1, th0 != th1); got != exp {
				fail(si, "hash-change", exp, got, "qi signature bit flip")
				return
			}
		case "qiverify":
			a, b := q.verify(s.C)
			res.evals += 2
			state := "unsigned"
			if q.sigCls != "none" {
				state = fmt.Sprintf("ks=%s same-payload=%v sig=%s", q.sigKs, q.sigD == q.payloadKey()+fmt.Sprint(q.pubs), q.sigCls)
			}
			res.classes[fmt.Sprintf("qiverify|c=%v|owners=%v|pubs=%v|%s|->%s", s.C == q.abs["chain"], q.owners, q.pubs, state, exp)] = true
			res.outcomes["qiverify:"+exp]++
			if a != exp {
				fail(si, "qiverify-process", exp, a, "core.ProcessQiTx(checkSig=true): "+state)
				return
			}
			if b != exp {
				fail(si, "qiverify-pool", exp, b, "core.ValidateQiTxInputs+ValidateQiTxOutputsAndSignature: "+state)
				return
			}
		default:
			fail(si, "driver", "", "", "unknown op "+s.Op)
			return
		}
	}
}

func cmdReplay(args []string) {
	fs := flag.NewFlagSet("replay", flag.ExitOnError)
	in := fs.String("in", "", "behaviours ndjson")
	out := fs.String("out", "", "result json")
	seed := fs.Int64("seed", 1, "")
	inst := fs.Int("inst", 2, "instantiations per behaviour")
	usePool := fs.Bool("pool", true, "bind pooladd/process to a real core.TxPool")
	workers := fs.Int("workers", 16, "")
	maxMis := fs.Int("maxmis", 400, "")
	prof := fs.String("cpuprofile", "", "")
	instSeed := fs.Int64("instseed", 0, "replay: run every behaviour exactly once with this instantiation seed")
	fs.Parse(args)
	if *instSeed != 0 {
		*inst = 1
	}
	if *prof != "" {
		pf, _ := os.Create(*prof)
		pprof.StartCPUProfile(pf)
		defer pprof.StopCPUProfile()
		runtime.SetBlockProfileRate(1000)
		runtime.SetMutexProfileFraction(5)
		defer func() {
			bf, _ := os.Create(*prof + ".block")
			pprof.Lookup("block").WriteTo(bf, 0)
			bf.Close()
			af, _ := os.Create(*prof + ".allocs")
			pprof.Lookup("allocs").WriteTo(af, 0)
			af.Close()
			mf, _ := os.Create(*prof + ".mutex")
			pprof.Lookup("mutex").WriteTo(mf, 0)
			mf.Close()
		}()
	}
	log.Global.SetOutput(io.Discard)
	raw, err := os.ReadFile(*in)
	must(err)
	var behs [][]byte
	for _, l := range bytes.Split(raw, []byte("\n")) {
		if len(bytes.TrimSpace(l)) > 0 {
			behs = append(behs, l)
		}
	}
	e := newEnv(*seed, *usePool, *workers)
	results := make([]*result, *workers)
	var wg sync.WaitGroup
	for w := 0; w < *workers; w++ {
		wg.Add(1)
		results[w] = &result{classes: map[string]bool{}, ops: map[string]int{}, outcomes: map[string]int{}, seen: map[string]int{}}
		go func(w int) {
			defer wg.Done()
			res := results[w]
			for bi := w; bi < len(behs); bi += *workers {
				var beh []Rec
				if err := json.Unmarshal(behs[bi], &beh); err != nil {
					must(fmt.Errorf("behaviour %d: %v", bi, err))
				}
				if len(beh) < 2 || beh[0].Op != "init" {
					continue
				}
				for i := 0; i < *inst; i++ {
					s := *seed*1_000_003 + int64(bi)*131 + int64(i)
					if *instSeed != 0 {
						s = *instSeed
					}
					func() {
						defer func() {
							if p := recover(); p != nil {
								res.mism = append(res.mism, Mismatch{bi, i, s, len(beh) - 1, beh[len(beh)-1].Op, "panic", "", "", fmt.Sprint(p) + "\n" + string(debug.Stack()), beh})
							}
						}()
						if beh[0].Mode == "quai" {
							runQuai(e, beh, bi, i, s, res)
						} else {
							runQi(e, beh, bi, i, s, res)
						}
					}()
				}
			}
		}(w)
	}
	wg.Wait()
	if e.usePool {
		close(e.pools)
		for p := range e.pools {
			if p != nil {
				p.stop()
			}
		}
	}
	tot := &result{classes: map[string]bool{}, ops: map[string]int{}, outcomes: map[string]int{}}
	for _, r := range results {
		tot.evals += r.evals
		tot.mism = append(tot.mism, r.mism...)
		for k := range r.classes {
			tot.classes[k] = true
		}
		for k, v := range r.ops {
			tot.ops[k] += v
		}
		for k, v := range r.outcomes {
			tot.outcomes[k] += v
		}
	}
	sort.Slice(tot.mism, func(i, j int) bool { return tot.mism[i].Behaviour < tot.mism[j].Behaviour })
	if len(tot.mism) > *maxMis {
		tot.mism = tot.mism[:*maxMis]
	}
	var cls []string
	for k := range tot.classes {
		cls = append(cls, k)
	}
	sort.Strings(cls)
	writeJSON(*out, map[string]interface{}{"behaviours": len(behs), "instantiations": *inst, "evaluations": tot.evals,
		"distinct_classes": len(cls), "classes": cls, "ops": tot.ops, "outcomes": tot.outcomes, "mismatches": tot.mism, "pool": *usePool})
}

func writeJSON(path string, v interface{}) {
	b, err := json.MarshalIndent(v, "", " ")
	must(err)
	must(os.WriteFile(path, b, 0o644))
}

func main() {
	if len(os.Args) < 2 {
		fmt.Fprintln(os.Stderr, "usage: sigdrv replay|sweep ...")
		os.Exit(2)
	}
	switch os.Args[1] {
	case "replay":
		cmdReplay(os.Args[2:])
	case "sweep":
		cmdSweep(os.Args[2:])
	default:
		os.Exit(2)
	}
}
