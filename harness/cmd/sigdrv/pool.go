package main

// Binding of the Sig.tla actions PoolAdd / ProcessWithCache to a real core.TxPool:
//   PoolAdd          = TxPool.AddRemotesSync / AddLocal on the node (chain id = the pool's), then the pool's
//                      sender cache (TxPool.PeekSender) is read once the asynchronous cache writer has settled;
//   ProcessWithCache = exactly what StateProcessor.Process does per Quai transaction:
//                      sender, ok := pool.PeekSenderNoLock(tx.Hash()); tx.AsMessageWithSender(signer, baseFee, &sender|nil).
// (Process itself needs a full HeaderChain; the two calls above are the only place the cache influences it.)

import (
	"crypto/ecdsa"
	"errors"
	"fmt"
	"math/big"
	"math/rand"
	"time"

	"github.com/dominant-strategies/go-quai/common"
	"github.com/dominant-strategies/go-quai/consensus"
	"github.com/dominant-strategies/go-quai/core"
	"github.com/dominant-strategies/go-quai/core/rawdb"
	"github.com/dominant-strategies/go-quai/core/state"
	"github.com/dominant-strategies/go-quai/core/types"
	"github.com/dominant-strategies/go-quai/event"
	"github.com/dominant-strategies/go-quai/log"
	"github.com/dominant-strategies/go-quai/params"
)

type poolChain struct {
	head  *types.WorkObject
	sdb   state.Database
	etxdb state.Database
}

func (c *poolChain) CurrentBlock() *types.WorkObject                       { return c.head }
func (c *poolChain) GetBlock(common.Hash, uint64) *types.WorkObject         { return c.head }
func (c *poolChain) StateAt(root, etxRoot common.Hash, size *big.Int) (*state.StateDB, error) {
	return state.New(root, etxRoot, size, c.sdb, c.etxdb, nil, nodeLoc, log.Global)
}
func (c *poolChain) SubscribeChainHeadEvent(ch chan<- core.ChainHeadEvent) event.Subscription {
	return event.NewSubscription(func(quit <-chan struct{}) error { <-quit; return nil })
}
func (c *poolChain) IsGenesisHash(common.Hash) bool                          { return false }
func (c *poolChain) CheckIfEtxIsEligible(common.Hash, common.Location) bool  { return true }
func (c *poolChain) Engine(*types.WorkObjectHeader) consensus.Engine         { return nil }
func (c *poolChain) GetHeaderOrCandidateByHash(common.Hash) *types.WorkObject { return c.head }
func (c *poolChain) NodeCtx() int                                            { return common.ZONE_CTX }
func (c *poolChain) GetHeaderByHash(common.Hash) *types.WorkObject           { return c.head }
func (c *poolChain) GetBlockByHash(common.Hash) *types.WorkObject            { return c.head }
func (c *poolChain) GetMaxTxInWorkShare() uint64                             { return 1000 }
func (c *poolChain) CheckInCalcOrderCache(common.Hash) (*big.Int, int, bool) { return nil, 0, false }
func (c *poolChain) AddToCalcOrderCache(common.Hash, int, *big.Int)          {}
func (c *poolChain) CalcBaseFee(*types.WorkObject) *big.Int                  { return big.NewInt(0) }
func (c *poolChain) CalcOrder(*types.WorkObject) (*big.Int, int, error) {
	return big.NewInt(0), common.ZONE_CTX, nil
}

type poolEnv struct {
	pool     *core.TxPool
	cfg      *params.ChainConfig
	signer   types.Signer
	chainID  *big.Int
	sentinel *ecdsa.PrivateKey
	sentN    uint64
	uses     int
	accepted map[common.Hash]bool
}

var poolSeq int64

func newPoolEnv(e *env) *poolEnv {
	poolSeq++
	r := rand.New(rand.NewSource(poolSeq*104729 + 5))
	var chainID *big.Int
	for chainID == nil || chainID.Sign() == 0 {
		chainID = randBig(r)
	}
	cfg := *params.Blake3PowLocalChainConfig
	cfg.ChainID = chainID
	cfg.Location = nodeLoc
	sdb := state.NewDatabase(rawdb.NewMemoryDatabase(log.Global))
	etxdb := state.NewDatabase(rawdb.NewMemoryDatabase(log.Global))
	st, err := state.New(types.EmptyRootHash, types.EmptyRootHash, big.NewInt(0), sdb, etxdb, nil, nodeLoc, log.Global)
	must(err)
	sentinel := groundKey(r, nodeLoc, false)
	rich := new(big.Int).Lsh(big.NewInt(1), 200)
	for _, k := range append([]*ecdsa.PrivateKey{sentinel}, e.quaiKeys...) {
		st.AddBalance(common.InternalAddress(addrOf(&k.PublicKey)), rich)
	}
	root, err := st.Commit(true)
	must(err)
	head := types.EmptyZoneWorkObject()
	head.Header().SetEVMRoot(root)
	head.Header().SetGasLimit(100_000_000)
	head.Header().SetBaseFee(big.NewInt(0))
	head.WorkObjectHeader().SetNumber(big.NewInt(5))
	chain := &poolChain{head: head, sdb: sdb, etxdb: etxdb}
	pc := core.DefaultTxPoolConfig
	pc.Journal = ""
	pc.NoLocals = true
	pc.AccountQueue = 100000
	pc.GlobalQueue = 1000000
	pc.AccountSlots = 100000
	pc.GlobalSlots = 1000000
	pc.Lifetime = time.Hour
	pc.ReorgFrequency = time.Hour
	p := core.NewTxPool(pc, &cfg, chain, log.Global, rawdb.NewMemoryDatabase(log.Global))
	return &poolEnv{pool: p, cfg: &cfg, signer: types.NewSigner(chainID, nodeLoc), chainID: chainID, sentinel: sentinel, accepted: map[common.Hash]bool{}}
}

func (p *poolEnv) stop() {
	done := make(chan struct{})
	go func() { p.pool.Stop(); close(done) }()
	select {
	case <-done:
	case <-time.After(5 * time.Second):
	}
}

// the sender-cache writer is one goroutine draining a FIFO channel: once a later, certainly valid
// transaction's sender is visible, every earlier push has been applied
func (p *poolEnv) settle() error {
	to := common.Bytes20ToAddress([20]byte{0, 1, 2}, nodeLoc)
	tx, err := types.SignTx(types.NewTx(&types.QuaiTx{ChainID: p.chainID, Nonce: p.sentN, GasPrice: big.NewInt(1), Gas: 21000, To: &to,
		Value: big.NewInt(0), Data: []byte{}, AccessList: types.AccessList{}}), p.signer, p.sentinel)
	if err != nil {
		return err
	}
	p.sentN++
	if errs := p.pool.AddRemotesSync([]*types.Transaction{tx}); errs[0] != nil {
		return fmt.Errorf("sentinel refused by the pool: %v", errs[0])
	}
	h := tx.Hash()
	for i := 0; i < 400000; i++ {
		if _, ok := p.pool.PeekSender(h); ok {
			return nil
		}
		time.Sleep(10 * time.Microsecond)
	}
	return errors.New("sentinel sender never reached the pool's sender cache")
}

func (p *poolEnv) cacheClass(q *quaiInst, h common.Hash) (string, string) {
	a, ok := p.pool.PeekSender(h)
	if !ok {
		return "absent", ""
	}
	for k, ka := range q.addr {
		if ka == [20]byte(a) {
			return fmt.Sprintf("addr,%d", k), ""
		}
	}
	return "other", "cached sender " + a.Hex()
}

// returns the class of what the pool's sender cache holds for the transaction's hash afterwards
func (p *poolEnv) add(q *quaiInst) (string, string) {
	var tx *types.Transaction
	if q.r.Intn(2) == 0 {
		tx = q.obj // a locally built / previously inspected object, with whatever its sender cache holds
	} else {
		var werr error
		tx, werr = q.fresh(true)
		if werr != nil { // the wire decoder refused it: it never reaches the pool
			return "err,wire", "wire decode: " + werr.Error()
		}
	}
	var perr error
	if q.r.Intn(2) == 0 {
		perr = p.pool.AddRemotesSync([]*types.Transaction{tx})[0]
	} else {
		perr = p.pool.AddLocal(tx)
	}
	if err := p.settle(); err != nil {
		must(err)
	}
	h := types.NewTx(q.inner()).Hash()
	cls, detail := p.cacheClass(q, h)
	detail = fmt.Sprintf("pool returned %v; sender cache: %s %s; tx chain=%v pool chain=%v", perr, cls, detail, q.chain[q.abs["chain"]], p.chainID)
	if cls == "absent" {
		if perr == nil {
			return "accepted-without-cache", detail
		}
		got, _ := classifySender(common.Address{}, unwrapPoolErr(perr, q, p), q)
		return got, detail
	}
	return cls, detail
}

// the pool reports ErrInvalidSender for every signature failure; recover the precise class with the
// node's signer on a fresh object (only used to name the error class, never to accept)
func unwrapPoolErr(perr error, q *quaiInst, p *poolEnv) error {
	if errors.Is(perr, types.ErrInvalidChainId) || errors.Is(perr, types.ErrInvalidSig) {
		return perr
	}
	_, err := types.Sender(p.signer, types.NewTx(q.inner()))
	if err != nil {
		return err
	}
	return perr
}

func (p *poolEnv) process(q *quaiInst) (string, string) {
	tx, werr := q.fresh(true) // a block's transactions come from the wire
	if werr != nil {
		return "err,wire", "wire decode: " + werr.Error()
	}
	var sp *common.InternalAddress
	p.pool.SendersMu.RLock()
	if s, ok := p.pool.PeekSenderNoLock(tx.Hash()); ok {
		sp = &s
	}
	p.pool.SendersMu.RUnlock()
	msg, err := tx.AsMessageWithSender(types.MakeSigner(p.cfg, big.NewInt(5)), big.NewInt(0), sp)
	got, detail := classifySender(msg.From(), err, q)
	return got, fmt.Sprintf("%s cache-hit=%v tx chain=%v node chain=%v", detail, sp != nil, q.chain[q.abs["chain"]], p.chainID)
}
