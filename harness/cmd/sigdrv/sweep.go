package main

// sweep: the spec edges  Sign(k) -> MutateSig("bitflip") -> QuerySender  and  Sign(k) -> Mutate(f) -> QuerySender
// (outcome class: never the signer) instantiated with EVERY single-bit flip of R||S||V, of every signed field's
// encoding and of the chain id, for N seeded random signed transactions.

import (
	"flag"
	"fmt"
	"io"
	"math/big"
	"math/rand"
	"sync"

	"github.com/dominant-strategies/go-quai/core/types"
	"github.com/dominant-strategies/go-quai/log"
)

type sweepMis struct {
	Tx     int    `json:"tx"`
	Seed   int64  `json:"seed"`
	Kind   string `json:"kind"`
	Field  string `json:"field"`
	Bit    int    `json:"bit"`
	Detail string `json:"detail"`
}

func sweepOne(e *env, ti int, seed int64, out *[]sweepMis, evals *int, classes map[string]bool) {
	r := rand.New(rand.NewSource(seed))
	q := newQuaiInst(e, r, false)
	q.abs["chain"] = 1
	q.rebuild()
	signer := types.NewSigner(q.chain[1], locOf[1+r.Intn(2)])
	tx, err := types.SignTx(q.obj, signer, q.keys[1])
	if err != nil {
		*out = append(*out, sweepMis{ti, seed, "sign", "", 0, err.Error()})
		return
	}
	V, R, S := tx.GetEcdsaSignatureValues()
	q.V, q.R, q.S = new(big.Int).Set(V), new(big.Int).Set(R), new(big.Int).Set(S)
	q.sigK = 1
	base := types.NewTx(q.inner())
	a, err := types.Sender(signer, base)
	*evals++
	if got, _ := classifySender(a, err, q); got != "addr,1" {
		*out = append(*out, sweepMis{ti, seed, "honest", "", 0, "honest transaction not attributed to its signer: " + got})
		return
	}
	baseSigHash := signer.Hash(base)
	check := func(kind, field string, bit int, t *types.Transaction, s types.Signer, want string) {
		a, err := types.Sender(s, t)
		got, detail := classifySender(a, err, q)
		*evals++
		classes[kind+"|"+field+"|->"+want] = true
		if !classOK(want, got) {
			*out = append(*out, sweepMis{ti, seed, kind, field, bit, fmt.Sprintf("expected %s got %s %s", want, got, detail)})
		}
	}
	// every bit of R || S || V(8 low bits)
	for i := 0; i < 520; i++ {
		q.V, q.R, q.S = new(big.Int).Set(V), new(big.Int).Set(R), new(big.Int).Set(S)
		switch {
		case i < 256:
			q.R.SetBit(q.R, i, q.R.Bit(i)^1)
		case i < 512:
			q.S.SetBit(q.S, i-256, q.S.Bit(i-256)^1)
		default:
			q.V.SetBit(q.V, i-512, q.V.Bit(i-512)^1)
		}
		check("sigbit", "RSV", i, types.NewTx(q.inner()), signer, "other")
	}
	q.V, q.R, q.S = new(big.Int).Set(V), new(big.Int).Set(R), new(big.Int).Set(S)
	// every bit of every signed field's encoding
	for _, f := range quaiFields {
		v0 := q.vals[f][0]
		for i, n := 0, fieldBits(f, v0); i < n; i++ {
			w, ok := flipField(r, f, v0, i)
			if !ok {
				break
			}
			q.vals[f] = [2]fieldVal{v0, w}
			q.abs[f] = 1
			t := types.NewTx(q.inner())
			q.abs[f] = 0
			if signer.Hash(t) == baseSigHash {
				*out = append(*out, sweepMis{ti, seed, "sighash", f, i, "signing hash unchanged by a one-bit change of the field"})
			}
			check("fieldbit", f, i, t, signer, "other")
		}
	}
	// every bit of the chain id (and a few above its length)
	A := q.chain[1]
	for i := 0; i < A.BitLen()+8; i++ {
		B := new(big.Int).SetBit(new(big.Int).Set(A), i, A.Bit(i)^1)
		q.chain[2] = B
		q.abs["chain"] = 2
		t := types.NewTx(q.inner())
		q.abs["chain"] = 1
		check("chainbit-oldsigner", "chain", i, t, signer, "err,chain")
		// the same object asked under its own (mutated) chain id - this may fill its sender cache - ...
		check("chainbit-newsigner", "chain", i, t, types.NewSigner(B, locOf[1]), "other")
		// ... and then again under the original chain id: the cache must not cross
		check("chainbit-cache", "chain", i, t, signer, "err,chain")
	}
}

func cmdSweep(args []string) {
	fs := flag.NewFlagSet("sweep", flag.ExitOnError)
	seed := fs.Int64("seed", 1, "")
	n := fs.Int("n", 20, "transactions")
	out := fs.String("out", "", "result json")
	workers := fs.Int("workers", 16, "")
	only := fs.Int("only", -1, "run only transaction number i")
	fs.Parse(args)
	log.Global.SetOutput(io.Discard)
	e := newEnv(*seed, false, *workers)
	var mu sync.Mutex
	var mism []sweepMis
	evals := 0
	classes := map[string]bool{}
	var wg sync.WaitGroup
	for w := 0; w < *workers; w++ {
		wg.Add(1)
		go func(w int) {
			defer wg.Done()
			var lm []sweepMis
			le := 0
			lc := map[string]bool{}
			for i := w; i < *n; i += *workers {
				if *only >= 0 && i != *only {
					continue
				}
				func() {
					defer func() {
						if p := recover(); p != nil {
							lm = append(lm, sweepMis{i, *seed, "panic", "", 0, fmt.Sprint(p)})
						}
					}()
					sweepOne(e, i, *seed*2_000_003+int64(i), &lm, &le, lc)
				}()
			}
			mu.Lock()
			mism = append(mism, lm...)
			evals += le
			for k := range lc {
				classes[k] = true
			}
			mu.Unlock()
		}(w)
	}
	wg.Wait()
	if len(mism) > 40 {
		mism = mism[:40]
	}
	var cls []string
	for k := range classes {
		cls = append(cls, k)
	}
	writeJSON(*out, map[string]interface{}{"transactions": *n, "evaluations": evals, "mismatches": mism, "classes": cls})
}
