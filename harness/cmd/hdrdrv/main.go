// hdrdrv binds spec/Header.tla to the real go-quai code.
//
//	hdrdrv chains ...   C09: real prime/region/zone chains; VerifyHeader on honest headers and on every single-field
//	                    deviation (re-sealed); independent oracle for every derived field; entropy / order observations
//	                    (warm, repeated, cold core on a database copy); replays TLC-generated tree shapes; ndjson trace
//	                    for spec/HeaderTrace.tla.
//	hdrdrv seal ...     C08: the TLC case table of the seal part replayed on HeaderChain.VerifySeal, CalcOrder,
//	                    VerifyHeader, VerifyUncles, Slice.Append (ValidateBody), CheckIfValidWorkShare,
//	                    UncleWorkShareClassification, consensus.CalcWorkShareThreshold and the AuxPoW helpers.
package main

import (
	"fmt"
	"os"
)

func fatal(code int, a ...interface{}) {
	fmt.Fprintln(os.Stderr, a...)
	os.Exit(code)
}

func main() {
	if len(os.Args) < 2 {
		fatal(2, "usage: hdrdrv chains|seal ...")
	}
	switch os.Args[1] {
	case "chains":
		cmdChains(os.Args[2:])
	case "seal":
		cmdSeal(os.Args[2:])
	case "ordercases":
		cmdOrderCases(os.Args[2:])
	default:
		fatal(2, "unknown subcommand")
	}
}
