package main

import (
	"fmt"
	"os"
	"time"

	"github.com/dominant-strategies/go-quai/common"
	"github.com/dominant-strategies/go-quai/params"
	"verifharness/chain"
	"verifharness/mininet"
)

func main() {
	chain.FastParams()
	if len(os.Args) > 2 && os.Args[2] == "fork" {
		params.KawPowForkBlock = 1
	}
	e, err := chain.Boot(chain.EnvOptions{Net: mininet.Options{Quiet: true, MinerPreference: 0.5}, Seed: 1})
	if err != nil {
		panic(err)
	}
	defer e.Net.Close()
	r, err := chain.NewRunner(e, 1)
	if err != nil {
		panic(err)
	}
	head := 0
	t0 := time.Now()
	for i := 0; i < 30; i++ {
		want := -1
		if i == 1 {
			want = mininet.Prime
		}
		id, err := r.MineOn(head, want)
		if err != nil {
			fmt.Println("mine err:", err)
			return
		}
		head = id
		b := r.Mined[id].Blocks[mininet.Zone]
		fmt.Printf("blk %d order %d num %v ptn %v diff %v time %d gl %d sl %d bf %v sha %v auxnil %v\n", id, r.Mined[id].Order, b.NumberArray(), b.PrimeTerminusNumber(), b.Difficulty(), b.Time(), b.GasLimit(), b.StateLimit(), b.BaseFee(), b.WorkObjectHeader().ShaDiffAndCount().Difficulty(), b.AuxPow() == nil)
	}
	fmt.Println("elapsed", time.Since(t0), common.ZONE_CTX)
}
