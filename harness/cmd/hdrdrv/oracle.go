package main

// Independent oracle: literal math/big transcriptions of the protocol rules as implemented at the
// pinned commit. Nothing in this file calls a go-quai function that is being judged (no CalcDifficulty,
// CalcOrder, TotalLogEntropy, IntrinsicLogEntropy, CalcGasLimit, CalcStateLimit, CalcBaseFee, SealHash,
// Hash ...). It uses: math/big, the generated protobuf message types, the blake3 and mathutil
// libraries, and plain getters of header fields.

import (
	"fmt"
	"math/big"

	"github.com/dominant-strategies/go-quai/common"
	"github.com/dominant-strategies/go-quai/core/types"
	"google.golang.org/protobuf/proto"
	"lukechampine.com/blake3"
	"modernc.org/mathutil"
)

var (
	o2e32  = new(big.Int).Lsh(big.NewInt(1), 32)
	o2e64  = new(big.Int).Lsh(big.NewInt(1), 64)
	o2e256 = new(big.Int).Lsh(big.NewInt(1), 256)
)

// protocol constants, literally (NOT read from package params: a changed constant must show up)
const (
	oMaxTimeDiffBetweenBlocks   = 100
	oDifficultyAdjustmentFactor = 40
	oDifficultyAdjustmentPeriod = 720
	oDurationLimit              = 5
	oMinGasLimit                = 12000000
	oStateCeil                  = 50000000
	oTxGas                      = 21000
	oMinBaseFeeInQits           = 5
	oAllowedFutureSeconds       = 15
	oBlocksPerDay               = 17280
	oQiActivationBlock          = 1220000
	oExpectedWorksharesPerBlock = 8
)

// ---------------------------------------------------------------- hashes (C08)

func oBlake3(b []byte) common.Hash {
	s := blake3.Sum256(b)
	return common.BytesToHash(s[:])
}

func oShareProto(p *types.PowShareDiffAndCount) *types.ProtoPowShareDiffAndCount {
	if p == nil || p.Difficulty() == nil || p.Count() == nil || p.Uncled() == nil {
		return nil
	}
	enc := func(x *big.Int) []byte {
		if x.Sign() == 0 {
			return []byte{0}
		}
		return x.Bytes()
	}
	return &types.ProtoPowShareDiffAndCount{Difficulty: enc(p.Difficulty()), Count: enc(p.Count()), Uncled: enc(p.Uncled())}
}

// oSealHash: blake3 over the protobuf encoding of the work-object header WITHOUT nonce, mixHash, auxPow.
// After the KawPow fork: the five share-difficulty fields are inside, the primary coinbase is hashed separately.
func oSealHash(wh *types.WorkObjectHeader, forkBlock uint64) common.Hash {
	post := wh.PrimeTerminusNumber().Uint64() >= forkBlock
	t := wh.Time()
	lock := uint32(wh.Lock())
	m := &types.ProtoWorkObjectHeader{
		HeaderHash:          &common.ProtoHash{Value: wh.HeaderHash().Bytes()},
		ParentHash:          &common.ProtoHash{Value: wh.ParentHash().Bytes()},
		Number:              wh.Number().Bytes(),
		Difficulty:          wh.Difficulty().Bytes(),
		TxHash:              &common.ProtoHash{Value: wh.TxHash().Bytes()},
		PrimeTerminusNumber: wh.PrimeTerminusNumber().Bytes(),
		Location:            &common.ProtoLocation{Value: wh.Location()},
		Lock:                &lock,
		Time:                &t,
		Data:                wh.Data(),
	}
	if !post {
		m.PrimaryCoinbase = &common.ProtoAddress{Value: wh.PrimaryCoinbase().Bytes()}
	} else {
		m.ScryptDiffAndCount = oShareProto(wh.ScryptDiffAndCount())
		m.ShaDiffAndCount = oShareProto(wh.ShaDiffAndCount())
		m.ShaShareTarget = wh.ShaShareTarget().Bytes()
		m.ScryptShareTarget = wh.ScryptShareTarget().Bytes()
		m.KawpowDifficulty = wh.KawpowDifficulty().Bytes()
	}
	data, err := proto.Marshal(m)
	if err != nil {
		panic(err)
	}
	h := oBlake3(data)
	if post {
		h = oBlake3(append(h.Bytes(), wh.PrimaryCoinbase().Bytes()...))
	}
	return h
}

// oWoHash: the block hash. Without auxPow (pre-fork, or transition progpow block): blake3(mix || seal || nonce);
// with auxPow after the fork: blake3 of the protobuf encoding of the auxPow.
func oWoHash(wh *types.WorkObjectHeader, forkBlock, transition uint64) common.Hash {
	ptn := wh.PrimeTerminusNumber().Uint64()
	post := ptn >= forkBlock
	transitionProgpow := post && ptn < forkBlock+transition && wh.AuxPow() == nil
	if !post || transitionProgpow {
		var buf []byte
		buf = append(buf, wh.MixHash().Bytes()...)
		buf = append(buf, oSealHash(wh, forkBlock).Bytes()...)
		n := wh.Nonce()
		buf = append(buf, n[:]...)
		return oBlake3(buf)
	}
	ap := wh.AuxPow()
	if ap == nil {
		return common.Hash{}
	}
	id := uint32(ap.PowID())
	br := make([][]byte, len(ap.MerkleBranch()))
	copy(br, ap.MerkleBranch())
	data, _ := proto.Marshal(&types.ProtoAuxPow{ChainId: &id, Auxpow2: ap.AuxPow2(), Header: ap.Header().Bytes(), Signature: ap.Signature(),
		MerkleBranch: br, Transaction: ap.Transaction()})
	return oBlake3(data)
}

// oHeaderHash: blake3 over the protobuf encoding of every field of the body header.
func oHeaderHash(h *types.Header) common.Hash {
	ph := func(x common.Hash) *common.ProtoHash { return &common.ProtoHash{Value: x.Bytes()} }
	gl, gu, sl, su := h.GasLimit(), h.GasUsed(), h.StateLimit(), h.StateUsed()
	es, tc, en := uint64(h.EfficiencyScore()), uint64(h.ThresholdCount()), uint64(h.ExpansionNumber())
	m := &types.ProtoHeader{
		UncleHash: ph(h.UncleHash()), EvmRoot: ph(h.EVMRoot()), UtxoRoot: ph(h.UTXORoot()), TxHash: ph(h.TxHash()),
		OutboundEtxHash: ph(h.OutboundEtxHash()), EtxSetRoot: ph(h.EtxSetRoot()), EtxRollupHash: ph(h.EtxRollupHash()),
		ReceiptHash: ph(h.ReceiptHash()), GasLimit: &gl, GasUsed: &gu, QuaiStateSize: h.QuaiStateSize().Bytes(),
		BaseFee: h.BaseFee().Bytes(), StateLimit: &sl, StateUsed: &su, UncledEntropy: h.UncledEntropy().Bytes(),
		PrimeTerminusHash: ph(h.PrimeTerminusHash()), InterlinkRootHash: ph(h.InterlinkRootHash()),
		EtxEligibleSlices: ph(h.EtxEligibleSlices()), EfficiencyScore: &es, ThresholdCount: &tc, ExpansionNumber: &en,
		Extra: h.Extra(), ExchangeRate: h.ExchangeRate().Bytes(), AvgTxFees: h.AvgTxFees().Bytes(), TotalFees: h.TotalFees().Bytes(),
		KQuaiDiscount: h.KQuaiDiscount().Bytes(), ConversionFlowAmount: h.ConversionFlowAmount().Bytes(),
		MinerDifficulty: h.MinerDifficulty().Bytes(), PrimeStateRoot: ph(h.PrimeStateRoot()), RegionStateRoot: ph(h.RegionStateRoot()),
	}
	for i := 0; i < 3; i++ {
		m.ManifestHash = append(m.ManifestHash, ph(h.ManifestHash(i)))
		if h.ParentEntropy(i) != nil {
			m.ParentEntropy = append(m.ParentEntropy, h.ParentEntropy(i).Bytes())
		}
		if h.ParentDeltaEntropy(i) != nil {
			m.ParentDeltaEntropy = append(m.ParentDeltaEntropy, h.ParentDeltaEntropy(i).Bytes())
		}
		if h.ParentUncledDeltaEntropy(i) != nil {
			m.ParentUncledDeltaEntropy = append(m.ParentUncledDeltaEntropy, h.ParentUncledDeltaEntropy(i).Bytes())
		}
	}
	for i := 0; i < 2; i++ {
		if h.Number(i) != nil {
			m.Number = append(m.Number, h.Number(i).Bytes())
		}
		m.ParentHash = append(m.ParentHash, ph(h.ParentHash(i)))
	}
	data, err := proto.Marshal(m)
	if err != nil {
		panic(err)
	}
	return oBlake3(data)
}

func hashInt(h common.Hash) *big.Int { return new(big.Int).SetBytes(h.Bytes()) }

// oTarget: 2^256 / difficulty (Euclidean division)
func oTarget(diff *big.Int) *big.Int { return new(big.Int).Div(o2e256, diff) }

// ---------------------------------------------------------------- entropy and order (C09)

// oLog: floor(log2(x)) * 2^64 + mantissa, mantissa = 64 fractional bits of log2(x) (mathutil.BinaryLog)
func oLog(x *big.Int) *big.Int {
	c, m := mathutil.BinaryLog(new(big.Int).Set(x), 64)
	r := new(big.Int).Mul(big.NewInt(int64(c)), o2e64)
	return r.Add(r, m)
}

// oIntrinsic: log2(2^256 / hash) in 2^-64 bits
func oIntrinsic(h common.Hash) (*big.Int, error) {
	x := hashInt(h)
	if x.Sign() == 0 {
		return nil, fmt.Errorf("zero hash")
	}
	return oLog(new(big.Int).Div(o2e256, x)), nil
}

// hierarchy size and entropy targets for an expansion number
func oHierarchy(exp uint8) (uint64, uint64) {
	r, z := uint64(1), uint64(1)
	for e := uint8(1); e <= exp; e++ {
		if e == 1 || e%2 == 1 {
			z++
		} else {
			r++
		}
	}
	return r, z
}
func oMax2(a uint64) int64 {
	if a < 2 {
		return 2
	}
	return int64(a)
}
func oPrimeEntropyTarget(exp uint8) *big.Int {
	r, z := oHierarchy(exp)
	t := new(big.Int).Mul(big.NewInt(oMax2(r)), big.NewInt(oMax2(z)))
	return t.Mul(t, new(big.Int).SetUint64(z*r))
}
func oRegionEntropyTarget(exp uint8) *big.Int {
	_, z := oHierarchy(exp)
	return new(big.Int).Mul(big.NewInt(oMax2(z)), new(big.Int).SetUint64(z))
}

// oOrder: (intrinsic entropy, order) of a sealed header whose proof-of-work hash is powHash.
func oOrder(w *types.WorkObject, powHash common.Hash) (*big.Int, int, error) {
	intr, err := oIntrinsic(powHash)
	if err != nil {
		return nil, -1, err
	}
	exp := w.ExpansionNumber()
	target := oTarget(w.Difficulty())
	if target.BitLen() > 256 {
		return nil, -1, fmt.Errorf("target does not fit 256 bits")
	}
	zoneThr := oLog(new(big.Int).Div(o2e256, target))
	pdR, pdZ := w.ParentDeltaEntropy(common.REGION_CTX), w.ParentDeltaEntropy(common.ZONE_CTX)
	// prime
	totP := new(big.Int).Add(pdR, pdZ)
	totP.Add(totP, intr)
	tgtP := new(big.Int).Mul(oPrimeEntropyTarget(exp), zoneThr)
	tgtP.Div(tgtP, big.NewInt(2))
	thrP := new(big.Int).Add(zoneThr, oLog(oPrimeEntropyTarget(exp)))
	if intr.Cmp(thrP) > 0 && totP.Cmp(tgtP) > 0 {
		return intr, common.PRIME_CTX, nil
	}
	totR := new(big.Int).Add(pdZ, intr)
	tgtR := new(big.Int).Mul(zoneThr, oRegionEntropyTarget(exp))
	tgtR.Div(tgtR, big.NewInt(2))
	thrR := new(big.Int).Add(zoneThr, oLog(oRegionEntropyTarget(exp)))
	if intr.Cmp(thrR) > 0 && totR.Cmp(tgtR) > 0 {
		return intr, common.REGION_CTX, nil
	}
	return intr, common.ZONE_CTX, nil
}

// oEntropies: (total, delta, uncledDelta) of a header of the given order with the given intrinsic entropy.
// Work-share entropy (zone context) is zero for a block without uncles; callers skip blocks with uncles.
func oEntropies(w *types.WorkObject, intr *big.Int, order int, genesis bool) (tot, delta, udelta *big.Int) {
	if genesis {
		return big.NewInt(0), big.NewInt(0), big.NewInt(0)
	}
	pe := func(c int) *big.Int { return w.ParentEntropy(c) }
	pd := func(c int) *big.Int { return w.ParentDeltaEntropy(c) }
	pu := func(c int) *big.Int { return w.ParentUncledDeltaEntropy(c) }
	sum := func(xs ...*big.Int) *big.Int {
		r := new(big.Int)
		for _, x := range xs {
			r.Add(r, x)
		}
		return r
	}
	switch order {
	case common.PRIME_CTX:
		return sum(pe(0), pd(1), pd(2), intr), big.NewInt(0), big.NewInt(0)
	case common.REGION_CTX:
		return sum(pe(1), pd(2), intr), sum(pd(1), pd(2), intr), sum(pu(1), pu(2), w.UncledEntropy())
	default:
		return sum(pe(2), intr), sum(pd(2), intr), sum(pu(2), w.UncledEntropy())
	}
}

// ---------------------------------------------------------------- derived fields (C09)

// oDifficulty: difficulty of a child of parent (zone), grand = parent of parent (nil if parent is genesis)
func oDifficulty(parent, grand *types.WorkObjectHeader, parentIsGenesis, grandIsGenesis bool, minDifficulty *big.Int) *big.Int {
	if parentIsGenesis {
		return new(big.Int).Set(parent.Difficulty()) // expansion 0, location {}: the genesis difficulty
	}
	if grand == nil || grandIsGenesis {
		return new(big.Int).Set(parent.Difficulty())
	}
	dt := new(big.Int).Sub(new(big.Int).SetUint64(parent.Time()), new(big.Int).SetUint64(grand.Time()))
	if dt.Cmp(big.NewInt(oMaxTimeDiffBetweenBlocks)) > 0 {
		dt = big.NewInt(oMaxTimeDiffBetweenBlocks)
	}
	x := new(big.Int).Sub(big.NewInt(oDurationLimit), dt)
	x.Mul(x, parent.Difficulty())
	k := int64(parent.Difficulty().BitLen() - 1) // floor(log2(difficulty))
	x.Mul(x, big.NewInt(k))
	x.Div(x, big.NewInt(oDurationLimit)) // Euclidean division (rounds towards minus infinity for a positive divisor)
	x.Div(x, big.NewInt(oDifficultyAdjustmentFactor))
	x.Div(x, big.NewInt(oDifficultyAdjustmentPeriod))
	x.Add(x, parent.Difficulty())
	if x.Cmp(minDifficulty) < 0 {
		x.Set(minDifficulty)
	}
	return x
}

// oLimit: gas limit / state limit of a child (same shape, different ceilings)
func oLimit(parentNumber, parentLimit, ceil, timeToStartTx, blocksPerMonth uint64) uint64 {
	if parentNumber < timeToStartTx {
		return 0
	}
	if parentLimit == 0 {
		return oMinGasLimit
	}
	if parentNumber < 2*blocksPerMonth {
		l := parentNumber * ceil / (2 * blocksPerMonth)
		if l < oMinGasLimit {
			return oMinGasLimit
		}
		return l
	}
	return ceil
}

func oOneOverKqi(number uint64) *big.Int {
	base := big.NewInt(26000000)
	if number > oQiActivationBlock {
		base = big.NewInt(8000000000)
	}
	period := uint64(365*oBlocksPerDay*269) / 100
	if number > 2*period {
		return new(big.Int).Mul(base, big.NewInt(4))
	}
	cnt := number / period
	rem := number % period
	r := new(big.Int).Mul(big.NewInt(int64(period+rem)), base)
	r.Mul(r, new(big.Int).Exp(big.NewInt(2), big.NewInt(int64(cnt)), nil))
	return r.Div(r, big.NewInt(int64(period)))
}

// oKawPowEquivalentDifficulty (post-fork reward difficulty; before ShaEquivalentDifficultyForkBlock)
func oKawPowEquivalentDifficulty(wh *types.WorkObjectHeader, diff *big.Int) *big.Int {
	expected := new(big.Int).Mul(big.NewInt(oExpectedWorksharesPerBlock+1), o2e32)
	tot := new(big.Int).Add(wh.ScryptDiffAndCount().Count(), wh.ShaDiffAndCount().Count())
	cap_ := new(big.Int).Sub(expected, o2e32)
	if tot.Cmp(cap_) > 0 {
		tot = cap_
	}
	num := new(big.Int).Mul(diff, expected)
	return num.Div(num, new(big.Int).Sub(expected, tot))
}

// oBaseFee: base fee of a child of parent. exchangeRate: params.ExchangeRate if the grandparent is genesis, else the
// exchange rate recorded in the parent's prime terminus.
func oBaseFee(parent *types.WorkObject, parentIsGenesis bool, exchangeRate *big.Int, forkBlock uint64) *big.Int {
	if parentIsGenesis {
		return big.NewInt(0)
	}
	diff := new(big.Int).Set(parent.Difficulty())
	if parent.PrimeTerminusNumber().Uint64() >= forkBlock {
		diff = oKawPowEquivalentDifficulty(parent.WorkObjectHeader(), diff)
	}
	quai := new(big.Int).Mul(exchangeRate, oLog(diff))
	quai.Quo(quai, o2e64)
	if quai.Sign() == 0 {
		quai = big.NewInt(1)
	}
	qi := new(big.Int).Quo(diff, oOneOverKqi(parent.WorkObjectHeader().NumberU64()))
	if qi.Sign() == 0 {
		qi = big.NewInt(1)
	}
	r := new(big.Int).Mul(quai, big.NewInt(oMinBaseFeeInQits))
	r.Quo(r, qi)
	return r.Div(r, big.NewInt(oTxGas))
}
