package main

import (
	"encoding/json"
	"errors"
	"fmt"
	"math/big"
	"strings"

	"github.com/dominant-strategies/go-quai/common"
	"github.com/dominant-strategies/go-quai/consensus"
	"github.com/dominant-strategies/go-quai/consensus/blake3pow"
	"github.com/dominant-strategies/go-quai/consensus/kawpow"
	"github.com/dominant-strategies/go-quai/core/types"
	"github.com/dominant-strategies/go-quai/log"
	"github.com/dominant-strategies/go-quai/params"
	"github.com/dominant-strategies/go-quai/trie"
	"verifharness/mininet"
)

func trieHasher() types.TrieHasher { return trie.NewStackTrie(nil) }

// Ravencoin main-net blocks (blk00226.dat), the vectors recorded in /repo/consensus/kawpow/real_blocks_test.go
const rvnVectors = `[
 {"height":2976194,"bits":"0x1b00c7e9","nonce":"0x863f502af7e5e397","mix":"0x8b8f4943ded1d7c80a8a51f81c9b17f70bd011b977d8e4cafa464bde49673703","version":"0x30000000","time":1694821941,
  "prev":"0x33789cc8f2ae8f2b779cfaa781dabf92e97ae9e58cae114f0b34000000000000","merkle":"0x9d6c81e1f0f788a1458ee0510bd01c04a9f9082527d5d2b8f2d01f80ef0d9c62","headerHash":"0xde5c89c8f378529b5afb71baca3807ce6128c6dc55a9a50245083f917a4dc0d5"},
 {"height":2976195,"bits":"0x1b00c8ac","nonce":"0xc900018c8058c766","mix":"0xb205f3f943b71c1ac92663fd1b24c6d14b0b649d3b6b23f3b4031d87bb0aabfa","version":"0x30000000","time":1694821971,
  "prev":"0xe15ceaed8c0931fecbb2c700cfa23dca799c031570bc4f0c5614000000000000","merkle":"0x5197242f414d34c9531eb0cd4fd452bfd97e1694ca2e8f4b3d87b52678f8f9b2","headerHash":"0x5c20d903d20e28fcd10efdaf5d2b469a66d6f2fb077e0e8014b0195eed45bcfe"},
 {"height":2976184,"bits":"0x1b00bffc","nonce":"0xfa000000a643e1b7","mix":"0xfdbf7787315de556f4281f5433a591b5645abf446f8353840ceb0c494a3d15d1","version":"0x30000000","time":1694821106,
  "prev":"0x46814793773c9b4311c92632257694af2eed44cbbe4901b1d434000000000000","merkle":"0x028286ea2f705932d657dfed29e8511d2a720d55172375b0830e693f5547119f","headerHash":"0x9049a62b7144277a45f554b329cc01c4e466c9a20ce6c74d5d241481b603d958"}
]`

type rvnVector struct {
	Height     uint32 `json:"height"`
	Bits       string `json:"bits"`
	Nonce      string `json:"nonce"`
	Mix        string `json:"mix"`
	Version    string `json:"version"`
	Time       uint32 `json:"time"`
	Prev       string `json:"prev"`
	Merkle     string `json:"merkle"`
	HeaderHash string `json:"headerHash"`
}

func hexU64(s string) uint64 {
	v, _ := new(big.Int).SetString(strings.TrimPrefix(s, "0x"), 16)
	return v.Uint64()
}

func compactToTarget(bits uint32) *big.Int {
	exp := (bits >> 24) & 0xff
	t := new(big.Int).SetUint64(uint64(bits & 0x00ffffff))
	if exp >= 3 {
		return t.Lsh(t, uint(8*(exp-3)))
	}
	return t.Rsh(t, uint(8*(3-exp)))
}

// kawpow: recorded Ravencoin blocks as donor headers of a Quai header. Positive: the donor's own proof of work (mix hash
// as mined, pow hash under the Ravencoin target of its bits) verifies through HeaderChain.VerifySeal with the Quai
// difficulty chosen from the found hash (tightest passing / tightest failing); negative: every donor field changed.
func (s *sealRun) runKawpowVectors(seals, advs []caseRec) error {
	if len(seals) == 0 {
		return nil
	}
	c, _, err := newCore(mininet.Zone, memDB(mininet.Zone), nodeOpts{GenesisDifficulty: 16,
		Engines: func(pow params.PowConfig) []consensus.Engine {
			return []consensus.Engine{blake3pow.New(pow, nil, false, log.Global), kawpow.New(pow, nil, false, log.Global)}
		}})
	if err != nil {
		return err
	}
	defer stopCore(c)
	hc := c.Slice().HeaderChain()
	var vecs []rvnVector
	if err := json.Unmarshal([]byte(rvnVectors), &vecs); err != nil {
		return err
	}
	mk := func(v rvnVector, mix common.Hash, diff *big.Int) *types.WorkObject {
		w := s.standalone(diff)
		rh := &types.RavencoinBlockHeader{Version: int32(hexU64(v.Version)), HashPrevBlock: common.HexToHash(v.Prev), HashMerkleRoot: common.HexToHash(v.Merkle),
			Time: v.Time, Bits: uint32(hexU64(v.Bits)), Height: v.Height, Nonce64: hexU64(v.Nonce), MixHash: mix}
		ap := types.NewAuxPow(types.Kawpow, types.NewAuxPowHeader(rh), []byte{}, []byte{}, [][]byte{}, types.NewAuxPowCoinbaseTx(types.Kawpow, v.Height, []byte{0, 0, 0, 0, 0}, w.SealHash(), v.Time))
		w.WorkObjectHeader().SetAuxPow(ap)
		return w
	}
	verify := func(w *types.WorkObject) (string, common.Hash) {
		wh, err := rtHeader(w.WorkObjectHeader())
		if err != nil {
			return "transport:" + err.Error(), common.Hash{}
		}
		return sealVerdict(hc, wh)
	}
	sealCase := seals[0]
	for vi, v := range vecs {
		if vi >= 2 && len(vecs) > 2 && s.R.Intn(2) == 0 {
			continue
		}
		rawMix := common.HexToHash(v.Mix)
		// The repository's vectors record the mix hash "recomputed with the reference implementation" for the header hash in
		// natural byte order; the node feeds the byte-reversed header hash (Kawpow.ComputePowLight). The miner-side function
		// of the node gives the mix for its own convention; whether that convention is the Ravencoin one is then decided by
		// the recorded NONCE: only under the right convention is the pow hash of a real block below the target of its bits.
		var mix common.Hash
		found := false
		for _, cand := range []common.Hash{rawMix.Reverse(), rawMix} {
			wh, _ := rtHeader(mk(v, cand, big.NewInt(2)).WorkObjectHeader())
			if _, err := hc.VerifySeal(wh); err == nil || errors.Is(err, consensus.ErrInvalidPoW) {
				mix, found = cand, true
				s.Notes["kawpow vector: recorded mix hash verified as recorded"]++
				break
			}
		}
		if !found {
			wh, _ := rtHeader(mk(v, rawMix, big.NewInt(2)).WorkObjectHeader())
			mix, _ = c.Engine(wh).ComputePowLight(wh)
			s.Notes["kawpow vector: mix hash taken from the node's miner-side function (recorded one is for the other byte order)"]++
		}
		// donor pow hash, and that it is real work: below the Ravencoin target of the recorded bits
		_, ph := verify(mk(v, mix, big.NewInt(2)))
		s.Cases++
		s.ByKind["kawpow-vector"]++
		rvnOK := hashInt(ph).Cmp(compactToTarget(uint32(hexU64(v.Bits)))) <= 0
		s.cmp(sealCase, "kawpow vector pow hash <= Ravencoin target", "true", fmt.Sprint(rvnOK))
		// Quai difficulty chosen from the found hash: d = floor(2^256/h) passes (tightest), d+1 fails (tightest)
		d := new(big.Int).Div(o2e256, hashInt(ph))
		vs, _ := verify(mk(v, mix, d))
		s.cmp(sealCase, "VerifySeal(target just above hash)", "ok", vs)
		vs, _ = verify(mk(v, mix, addBig(d, 1)))
		s.cmp(sealCase, "VerifySeal(target just below hash)", "badpow", vs)
		vs, _ = verify(mk(v, mix, new(big.Int).Rsh(d, 4)))
		s.cmp(sealCase, "VerifySeal", sealCase.Res.Vs, vs)
		s.cmp(sealCase, "CalcOrder", "ok", func() string {
			w := mk(v, mix, new(big.Int).Rsh(d, 4))
			wh, _ := rtHeader(w.WorkObjectHeader())
			return orderVerdict(c, types.NewWorkObject(wh, w.Body(), nil))
		}())
		// donor mutations: each must fail (another nonce / mix / height / time / bits / merkle root / prev hash is other work)
		for _, cs := range advs {
			if cs.Op != "aux" || cs.F != "donor" {
				continue
			}
			for name, mut := range map[string]func(*types.RavencoinBlockHeader){
				"nonce":  func(h *types.RavencoinBlockHeader) { h.Nonce64++ },
				"mix":    func(h *types.RavencoinBlockHeader) { h.MixHash = flipHash(h.MixHash) },
				"height": func(h *types.RavencoinBlockHeader) { h.Height++ },
				"time":   func(h *types.RavencoinBlockHeader) { h.Time++ },
				"bits":   func(h *types.RavencoinBlockHeader) { h.Bits++ },
				"merkle": func(h *types.RavencoinBlockHeader) { h.HashMerkleRoot = flipHash(h.HashMerkleRoot) },
				"prev":   func(h *types.RavencoinBlockHeader) { h.HashPrevBlock = flipHash(h.HashPrevBlock) },
			} {
				w := mk(v, mix, new(big.Int).Rsh(d, 4))
				rh := &types.RavencoinBlockHeader{Version: int32(hexU64(v.Version)), HashPrevBlock: common.HexToHash(v.Prev), HashMerkleRoot: common.HexToHash(v.Merkle),
					Time: v.Time, Bits: uint32(hexU64(v.Bits)), Height: v.Height, Nonce64: hexU64(v.Nonce), MixHash: mix}
				mut(rh)
				w.WorkObjectHeader().AuxPow().SetHeader(types.NewAuxPowHeader(rh))
				vs, _ := verify(w)
				s.Cases++
				s.cmp(cs, "VerifySeal(donor "+name+" changed)", cs.Res.Vs, vs)
			}
		}
	}
	return nil
}

// auxChain: a real post-fork candidate block carries a merge-mined proof: kawpow as the block's own auxPow (judged by
// HeaderChain.VerifyHeader), sha / scrypt as a work share in its uncle list (judged by HeaderChain.VerifyUncles and
// UncleWorkShareClassification).
func (s *sealRun) runAuxChain(cx *chainCtx, kind string, seals, advs []caseRec) error {
	if len(seals) == 0 {
		return nil
	}
	r := cx.r
	m, err := r.candidate(r.head(), mininet.Zone)
	if err != nil {
		return err
	}
	B := m.Blocks[mininet.Zone]
	if B.PrimeTerminusNumber().Uint64() < s.forkBlock() {
		return errors.New("candidate is not past the fork")
	}
	id := map[string]types.PowID{"kawpow": types.Kawpow, "sha": types.SHA_BTC, "scrypt": types.Scrypt}[kind]
	share := kind != "kawpow"
	// the header that carries the proof
	carrier := func() *types.WorkObjectHeader {
		wh := types.CopyWorkObjectHeader(B.WorkObjectHeader())
		if share {
			wh.SetTxHash(types.EmptyRootHash)
		}
		return wh
	}
	shareDiff := func(wh *types.WorkObjectHeader) *big.Int {
		if kind == "scrypt" {
			return wh.ScryptDiffAndCount().Difficulty()
		}
		return wh.ShaDiffAndCount().Difficulty()
	}
	sigTime := uint32(B.Time()) - 3
	mineAux := func(ap *types.AuxPow, wh *types.WorkObjectHeader) error {
		if !share {
			return nil
		}
		ok, err := mineDonor(ap, shareDiff(wh).Int64(), 1<<24)
		if err != nil {
			return err
		}
		if !ok {
			return errors.New("no donor nonce")
		}
		return nil
	}
	// verdicts
	bind := func(wh *types.WorkObjectHeader, body *types.WorkObject) string {
		var err error
		var p string
		if share {
			blk := B.WithBody(B.Body().Header(), B.Transactions(), B.OutboundEtxs(), []*types.WorkObjectHeader{wh}, B.Manifest(), B.InterlinkHashes())
			rt, rerr := mininet.RoundTrip(blk, mininet.ZoneLoc)
			if rerr != nil {
				return "transport:" + rerr.Error()
			}
			p = protect(func() { err = cx.hc.VerifyUncles(rt) })
		} else {
			blk := types.NewWorkObject(wh, body.Body(), nil)
			rt, rerr := mininet.RoundTrip(blk, mininet.ZoneLoc)
			if rerr != nil {
				return "transport:" + rerr.Error()
			}
			p = protect(func() { err = cx.hc.VerifyHeader(rt) })
		}
		if p != "" {
			return "panic:" + p
		}
		return bindClass(err)
	}
	cmpBind := func(cs caseRec, want, got string) {
		entry := "VerifyHeader(auxPow)"
		if share {
			entry = "VerifyUncles(auxPow)"
		}
		if share && want == "header-hash" {
			want = "aux-commit" // a share has no body: its headerHash field is just one more sealed field
		}
		switch {
		case want == "ok":
			s.cmp(cs, entry, "ok", got)
		case got == want:
			s.cmp(cs, entry, want, got)
		case strings.HasPrefix(got, "other:"):
			// another rule of the same function rejected first (e.g. the difficulty rule for a changed difficulty)
			s.Notes["rejected by an earlier rule than the AuxPoW binding"]++
			s.cmp(cs, entry+"/rejected", "rejected", "rejected")
		default:
			s.cmp(cs, entry, want, got)
		}
	}
	// positive case
	wh0 := carrier()
	spec0 := defaultAuxSpec(id, wh0.SealHash(), sigTime)
	ap0, err := s.kit.build(spec0)
	if err != nil {
		return err
	}
	if err := mineAux(ap0, wh0); err != nil {
		return err
	}
	wh0.SetAuxPow(ap0)
	for _, cs := range seals {
		if cs.Hc != "real-ok" {
			// tight boundary of the share target: share difficulty chosen from the donor hash (classification only)
			if share {
				h, err := donorPowOracle(ap0)
				if err != nil {
					continue
				}
				d := new(big.Int).Div(o2e256, hashInt(h))
				if cs.Hc == "tight-bad" {
					d = addBig(d, 1)
				}
				wh := types.CopyWorkObjectHeader(wh0)
				if kind == "scrypt" {
					x := wh.ScryptDiffAndCount()
					x.SetDifficulty(d)
					wh.SetScryptDiffAndCount(x)
				} else {
					x := wh.ShaDiffAndCount()
					x.SetDifficulty(d)
					wh.SetShaDiffAndCount(x)
				}
				rt, err := rtHeader(wh)
				if err != nil {
					continue
				}
				want := map[string]string{"ok": "valid", "badpow": "invalid"}[cs.Res.Vs]
				if hashInt(h).Cmp(oTarget(d)) == 0 {
					s.Notes["donor hash exactly on the share target"]++
					continue
				}
				s.Cases++
				s.ByKind[kind]++
				s.cmp(cs, "UncleWorkShareClassification(share target from donor hash)", want, shareClass(r.n.ZoneCore(), rt))
			}
			continue
		}
		s.Cases++
		s.ByKind[kind]++
		s.cmp(cs, "SealHash=oracle", oSealHash(wh0, s.forkBlock()).Hex(), wh0.SealHash().Hex())
		if !share {
			s.cmp(cs, "seal hash excludes auxPow", B.SealHash().Hex(), wh0.SealHash().Hex())
		}
		if share {
			rt, _ := rtHeader(wh0)
			s.cmp(cs, "UncleWorkShareClassification", "valid", shareClass(r.n.ZoneCore(), rt))
			h, _ := donorPowOracle(ap0)
			s.cmp(cs, "donor PowHash=oracle", h.Hex(), ap0.Header().PowHash().Hex())
		} else {
			rt, _ := rtHeader(wh0)
			s.cmp(cs, "Hash=oracle(custom pow hash)", oWoHash(rt, s.forkBlock(), params.KawPowTransitionPeriod).Hex(), rt.Hash().Hex())
		}
		cmpBind(cs, cs.Res.Bind, bind(wh0, B))
		// the helpers themselves
		ss := types.ExtractScriptSigFromCoinbaseTx(ap0.Transaction())
		got, err := types.ExtractSealHashFromCoinbase(ss)
		s.cmp(cs, "ExtractSealHashFromCoinbase", spec0.commitment(wh0.SealHash()).Hex(), got.Hex()+errStr(err))
		st, err := types.ExtractSignatureTimeFromCoinbase(ss)
		s.cmp(cs, "ExtractSignatureTimeFromCoinbase", fmt.Sprint(sigTime), fmt.Sprint(st)+errStr(err))
		s.cmp(cs, "AuxTemplate.VerifySignature", "true", fmt.Sprint(ap0.ConvertToTemplate().VerifySignature()))
		root := types.CalculateMerkleRoot(id, ap0.Transaction(), ap0.MerkleBranch())
		s.cmp(cs, "CalculateMerkleRoot=donor header root", fmt.Sprintf("%x", ap0.Header().MerkleRoot()), fmt.Sprintf("%x", root))
	}
	// adversarial cases
	for _, cs := range advs {
		wh := types.CopyWorkObjectHeader(wh0)
		body := B
		want := cs.Res.Bind
		skipBind := false
		switch cs.Op {
		case "aux":
			sp := spec0
			sp.branch = [][]byte{common.CopyBytes(spec0.branch[0]), common.CopyBytes(spec0.branch[1])}
			sp.coinbaseOut = common.CopyBytes(spec0.coinbaseOut)
			var ap *types.AuxPow
			switch cs.F {
			case "commit":
				sp.commitSeal = flipHash(sp.commitSeal)
			case "coinbase":
				sp.coinbaseOut[2] ^= 1
			case "branch":
				sp.branch[0][0] ^= 1
			case "sigtime":
				sp.sigTime = uint32(B.Time()) + 100000
			}
			switch cs.F {
			case "sig":
				ap = types.CopyAuxPow(ap0)
				sig := ap.Signature()
				sig[5] ^= 1
				ap.SetSignature(sig)
			case "donor":
				ap = types.CopyAuxPow(ap0)
				if share {
					ap.Header().SetNonce(ap.Header().Nonce() + 1)
				} else {
					ap.Header().SetNonce64(ap.Header().Nonce64() + 1)
				}
				skipBind = share // the share classification fails before the bindings are looked at
			default:
				full, err := s.kit.build(sp)
				if err != nil {
					return err
				}
				if cs.Fix == 1 {
					// the attacker rebuilds the donor header over the changed coinbase / branch (new donor work) but has no quorum signature for it
					ap = full
					ap.SetSignature(common.CopyBytes(ap0.Signature()))
					if err := mineAux(ap, wh); err != nil {
						return err
					}
				} else {
					// only the part changes, the donor header (merkle root) stays
					ap = types.CopyAuxPow(ap0)
					ap.SetTransaction(full.Transaction())
					ap.SetMerkleBranch(full.MerkleBranch())
				}
			}
			wh.SetAuxPow(ap)
			if share {
				// pow of the share itself, independently: donor hash strictly below the share target
				if h, err := donorPowOracle(ap); err == nil {
					wantV := "invalid"
					if hashInt(h).Cmp(oTarget(shareDiff(wh))) < 0 {
						wantV = "valid"
					}
					if rt, err := rtHeader(wh); err == nil {
						s.cmp(cs, "UncleWorkShareClassification", wantV, shareClass(r.n.ZoneCore(), rt))
						if wantV == "invalid" {
							skipBind = true
						}
					}
				}
			}
		case "aux-foreign":
			// a share whose primary coinbase is not an address of this zone, with a forged template signature
			if !share {
				continue
			}
			b := wh.PrimaryCoinbase().Bytes()
			b[0] = 0x11
			wh.SetPrimaryCoinbase(common.BytesToAddress(b, common.Location{1, 1}))
			wh.SetAuxPow(nil)
			sp := defaultAuxSpec(id, wh.SealHash(), sigTime)
			ap, err := s.kit.build(sp)
			if err != nil {
				return err
			}
			if err := mineAux(ap, wh); err != nil {
				return err
			}
			sig := ap.Signature()
			sig[9] ^= 1
			ap.SetSignature(sig)
			wh.SetAuxPow(ap)
		case "mutate-wo", "reuse":
			if cs.Op == "reuse" && cs.Fix == 1 {
				if share {
					continue
				}
				cp := types.CopyWorkObject(B)
				if err := mutateBh(cp.Body().Header(), cs.F); err != nil {
					continue
				}
				wh.SetHeaderHash(cp.Body().Header().Hash())
				body = cp
			} else if err := mutateWo(wh, cs.F); err != nil {
				s.Skipped[kind+" "+cs.Op+" "+cs.F] = err.Error()
				continue
			}
		case "mutate-bh":
			if share {
				s.Notes["body-header cases do not apply to a work share (it has no body)"]++
				continue
			}
			cp := types.CopyWorkObject(B)
			if err := mutateBh(cp.Body().Header(), cs.F); err != nil {
				continue
			}
			if cs.Fix == 1 {
				wh.SetHeaderHash(cp.Body().Header().Hash())
			}
			body = cp
		default:
			continue
		}
		s.Cases++
		s.ByKind[kind]++
		if cs.Op != "aux" && cs.Op != "aux-foreign" {
			rt, err := rtHeader(wh)
			if err != nil {
				s.Notes["changed header refused by the wire format"]++
				continue
			}
			s.cmp(cs, "sealChanged", fmt.Sprint(cs.Res.SealChanged), fmt.Sprint(rt.SealHash() != wh0.SealHash()))
			s.cmp(cs, "SealHash=oracle", oSealHash(rt, s.forkBlock()).Hex(), rt.SealHash().Hex())
		}
		if !skipBind {
			cmpBind(cs, want, bind(wh, body))
		}
	}
	return nil
}

func errStr(err error) string {
	if err == nil {
		return ""
	}
	return " err=" + err.Error()
}
