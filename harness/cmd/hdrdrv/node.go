package main

import (
	"fmt"
	"math/big"
	"time"

	"github.com/dominant-strategies/go-quai/common"
	"github.com/dominant-strategies/go-quai/consensus"
	"github.com/dominant-strategies/go-quai/consensus/blake3pow"
	"github.com/dominant-strategies/go-quai/core"
	"github.com/dominant-strategies/go-quai/core/rawdb"
	"github.com/dominant-strategies/go-quai/core/types"
	"github.com/dominant-strategies/go-quai/core/vm"
	"github.com/dominant-strategies/go-quai/ethdb"
	"github.com/dominant-strategies/go-quai/log"
	"github.com/dominant-strategies/go-quai/params"
	"verifharness/mininet"
)

// stubEngine is a consensus.Engine whose proof-of-work function is chosen by the test: everything
// around it (HeaderChain.verifySeal, CalcOrder, CheckIfValidWorkShare ...) is the real code. It is
// used ONLY for the exact boundary classes of the target comparison, which no real hash can hit.
type stubEngine struct {
	fn func(h *types.WorkObjectHeader) (common.Hash, error)
}

func (e *stubEngine) Seal(*types.WorkObject, chan<- *types.WorkObject, <-chan struct{}) error {
	return nil
}
func (e *stubEngine) ComputePowHash(h *types.WorkObjectHeader) (common.Hash, error) { return e.fn(h) }
func (e *stubEngine) ComputePowLight(h *types.WorkObjectHeader) (common.Hash, common.Hash) {
	p, _ := e.fn(h)
	return common.Hash{}, p
}
func (e *stubEngine) SetThreads(int) {}

type nodeOpts struct {
	GenesisDifficulty  int64
	GasCeil            uint64
	WorkShareThreshold int
	Engines            func(pow params.PowConfig) []consensus.Engine // nil: blake3pow
}

// newCore builds a real core.Core for context ctx on db (same recipe as mininet.coreOn, with the
// engine list and work-share threshold selectable).
func newCore(ctx int, db ethdb.Database, o nodeOpts) (*core.Core, params.PowConfig, error) {
	loc := mininet.Locs[ctx]
	cc := *params.Blake3PowLocalChainConfig
	cc.Location = loc
	if o.GenesisDifficulty == 0 {
		o.GenesisDifficulty = 16
	}
	if o.GasCeil == 0 {
		o.GasCeil = 5000000
	}
	if o.WorkShareThreshold == 0 {
		o.WorkShareThreshold = 3
	}
	g := &core.Genesis{Nonce: 66, GasLimit: 5000000, Difficulty: big.NewInt(o.GenesisDifficulty), Config: &cc}
	_, h, err := core.SetupGenesisBlock(db, g, 66, nil, loc, log.Global)
	if err != nil {
		return nil, params.PowConfig{}, fmt.Errorf("genesis: %w", err)
	}
	cc.DefaultGenesisHash = h
	pow := params.PowConfig{PowMode: params.ModeNormal, DurationLimit: big.NewInt(5), GasCeil: o.GasCeil,
		MinDifficulty: big.NewInt(o.GenesisDifficulty), NodeLocation: loc, WorkShareThreshold: o.WorkShareThreshold, CachesInMem: 1}
	var eng []consensus.Engine
	if o.Engines != nil {
		eng = o.Engines(pow)
	} else {
		eng = []consensus.Engine{blake3pow.New(pow, nil, false, log.Global)}
	}
	minerCfg := &core.Config{ExtraData: []byte("verif"), GasCeil: o.GasCeil, Recommit: time.Hour}
	if ctx == mininet.Zone {
		minerCfg.QuaiCoinbase = mininet.QuaiAddr(0x07)
		minerCfg.QiCoinbase = mininet.QiAddr(0x08)
	}
	txc := core.DefaultTxPoolConfig
	txc.Journal = ""
	c, err := core.NewCore(db, minerCfg, pow, &txc, nil, &cc, []common.Location{mininet.ZoneLoc}, 0, nil, eng, nil, vm.Config{}, g, log.Global)
	if err != nil {
		return nil, pow, fmt.Errorf("NewCore: %w", err)
	}
	return c, pow, nil
}

func memDB(ctx int) ethdb.Database {
	return mininet.LocDB{Database: rawdb.NewMemoryDatabase(log.Global), Loc: mininet.Locs[ctx]}
}

// copyDB copies every record of src into a fresh in-memory database (the image a restarted process would open).
func copyDB(src ethdb.Database, ctx int) (ethdb.Database, int, error) {
	dst := memDB(ctx)
	it := src.NewIterator(nil, nil)
	defer it.Release()
	n := 0
	for it.Next() {
		if err := dst.Put(common.CopyBytes(it.Key()), common.CopyBytes(it.Value())); err != nil {
			return nil, n, err
		}
		n++
	}
	return dst, n, it.Error()
}

func stopCore(c *core.Core) {
	if c == nil {
		return
	}
	defer func() { recover() }()
	c.Stop()
}

// protect runs f and converts a panic into an error string (the node must never panic on a header).
func protect(f func()) (panicked string) {
	defer func() {
		if r := recover(); r != nil {
			panicked = fmt.Sprint(r)
		}
	}()
	f()
	return ""
}
