package main

// AuxPoW construction for the merge-mined kinds: a donor template signed by a 2-of-3 MuSig2 quorum whose public
// keys the harness installs in params.MuSig2PublicKeys (configuration, like chain.FastParams), a donor coinbase
// committing to a seal hash, a merkle branch and a donor header - built with the exported constructors the
// production miner path uses (Slice.GetPendingHeader), mined offline at tiny share difficulty.

import (
	"crypto/sha256"
	"encoding/hex"
	"errors"
	"fmt"

	"github.com/btcsuite/btcd/btcec/v2"
	"github.com/dominant-strategies/go-quai/common"
	"github.com/dominant-strategies/go-quai/core/types"
	"github.com/dominant-strategies/go-quai/crypto/musig2"
	"github.com/dominant-strategies/go-quai/params"
	"golang.org/x/crypto/scrypt"
)

type auxKit struct {
	mgr [3]*musig2.Manager
}

func newAuxKit() (*auxKit, error) {
	k := &auxKit{}
	var privs [3]*btcec.PrivateKey
	pubs := make([]string, 3)
	for i := range privs {
		seed := sha256.Sum256([]byte(fmt.Sprintf("verif-musig2-key-%d", i)))
		privs[i], _ = btcec.PrivKeyFromBytes(seed[:])
		pubs[i] = hex.EncodeToString(privs[i].PubKey().SerializeCompressed())
	}
	params.MuSig2PublicKeys = pubs
	for i := range privs {
		m, err := musig2.NewManager(privs[i])
		if err != nil {
			return nil, err
		}
		k.mgr[i] = m
	}
	return k, nil
}

// sign produces the composite signature of signers a and b over a 32-byte digest.
func (k *auxKit) sign(msg [32]byte, a, b int) ([]byte, error) {
	sa, err := k.mgr[a].NewSigningSession(msg[:], b)
	if err != nil {
		return nil, err
	}
	sb, err := k.mgr[b].NewSigningSession(msg[:], a)
	if err != nil {
		return nil, err
	}
	if err := sa.RegisterOtherNonce(sb.GetPublicNonce()); err != nil {
		return nil, err
	}
	if err := sb.RegisterOtherNonce(sa.GetPublicNonce()); err != nil {
		return nil, err
	}
	pa, err := sa.CreatePartialSignature()
	if err != nil {
		return nil, err
	}
	pb, err := sb.CreatePartialSignature()
	if err != nil {
		return nil, err
	}
	ss, ok := sa.(*musig2.SigningSession)
	if !ok {
		return nil, errors.New("unexpected session type")
	}
	return musig2.CombinePartialSignatures(ss, pa, pb)
}

type auxSpec struct {
	powID       types.PowID
	commitSeal  common.Hash // the seal hash the coinbase commits to
	sigTime     uint32
	height      uint32
	coinbaseOut []byte
	branch      [][]byte
	dogeHash    []byte // scrypt: auxPow2
	version     int32
	bits        uint32
	prevHash    [32]byte
}

func defaultAuxSpec(id types.PowID, seal common.Hash, sigTime uint32) auxSpec {
	s := auxSpec{powID: id, commitSeal: seal, sigTime: sigTime, height: 4206442, version: 0x20000000, bits: 0x207fffff}
	// one output: value (8) | script length | P2PKH script | then the lock time (4), exactly the layout of the default templates
	s.coinbaseOut = []byte{1, 0, 162, 148, 26, 29, 0, 0, 0, 25, 118, 169, 20, 220, 42, 100, 53, 52, 137, 33, 19, 150, 164, 154, 51, 91, 132, 233, 135, 63, 25, 200, 189, 136, 172, 0, 0, 0, 0}
	b1 := sha256.Sum256([]byte("verif-branch-1"))
	b2 := sha256.Sum256([]byte("verif-branch-2"))
	s.branch = [][]byte{b1[:], b2[:]}
	s.prevHash = sha256.Sum256([]byte("verif-prev"))
	if id == types.Scrypt {
		d := sha256.Sum256([]byte("verif-doge"))
		s.dogeHash = d[:]
	}
	if id == types.Kawpow {
		s.version = 0x30000000
	}
	return s
}

// commitment: what the donor coinbase carries for this seal hash
func (s auxSpec) commitment(seal common.Hash) common.Hash {
	if s.powID == types.Scrypt {
		return types.CreateAuxMerkleRoot(common.BytesToHash(s.dogeHash), seal)
	}
	return seal
}

// build assembles coinbase, donor header (merkle root over coinbase + branch) and the signed template.
func (k *auxKit) build(s auxSpec) (*types.AuxPow, error) {
	cb := types.NewAuxPowCoinbaseTx(s.powID, s.height, s.coinbaseOut, s.commitment(s.commitSeal), s.sigTime)
	root := types.CalculateMerkleRoot(s.powID, cb, s.branch)
	hdr := types.NewBlockHeader(s.powID, s.version, s.prevHash, root, s.sigTime, s.bits, 0, s.height)
	if hdr == nil {
		return nil, errors.New("no donor header for this pow id")
	}
	ap := types.NewAuxPow(s.powID, hdr, s.dogeHash, nil, s.branch, cb)
	if err := k.signAux(ap); err != nil {
		return nil, err
	}
	return ap, nil
}

func (k *auxKit) signAux(ap *types.AuxPow) error {
	sig, err := k.sign(ap.ConvertToTemplate().Hash(), 0, 1)
	if err != nil {
		return err
	}
	ap.SetSignature(sig)
	return nil
}

// donorPowOracle recomputes the donor proof-of-work hash with the standard library (sha256d / scrypt 1024-1-1).
func donorPowOracle(ap *types.AuxPow) (common.Hash, error) {
	raw := ap.Header().Bytes()
	switch ap.PowID() {
	case types.SHA_BTC, types.SHA_BCH:
		a := sha256.Sum256(raw)
		b := sha256.Sum256(a[:])
		return common.BytesToHash(b[:]).Reverse(), nil
	case types.Scrypt:
		h, err := scrypt.Key(raw, raw, 1024, 1, 1, 32)
		if err != nil {
			return common.Hash{}, err
		}
		return common.BytesToHash(h).Reverse(), nil
	}
	return common.Hash{}, errors.New("no offline oracle for this donor proof of work")
}

// mineDonor searches a donor nonce with pow hash < 2^256/shareDiff (strictly, as the share classification demands).
func mineDonor(ap *types.AuxPow, shareDiff int64, tries uint32) (bool, error) {
	target := oTarget(bigInt(shareDiff))
	for n := uint32(0); n < tries; n++ {
		ap.Header().SetNonce(n)
		h, err := donorPowOracle(ap)
		if err != nil {
			return false, err
		}
		if hashInt(h).Cmp(target) < 0 {
			return true, nil
		}
	}
	return false, nil
}
